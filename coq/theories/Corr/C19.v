(* Correspondence cases for C19: the model of fragmentation.Encode against
   the implementation, and the executable form of the property evaluated on
   the fragments the implementation returned: systematic prefix, parity
   fragments = XOR of the rows the TS004 matrix line selects, invalid sizes
   are errors, recovery from a full-rank subset through a left inverse
   computed by Gaussian elimination. *)
From Coq Require Import List NArith ZArith Bool.
From LW Require Import Base.Outcome Base.Bytes App.FragEncode App.FragSpec.
Import ListNotations.
Open Scope N_scope.

Inductive case :=
(* fragmentation.Encode(data, fragmentSize, redundancy) *)
| CEncode (data : list N) (size red : Z) (o : outcome (list (list N)))
(* the same call, the indices of the fragments that were "received", and what
   the harness' own decoder (Gaussian elimination, written in Go from TS004)
   recovered from them: None = the selection is rank deficient *)
| CRecover (data : list N) (size red : Z) (o : outcome (list (list N)))
           (kept : list nat) (go_decoded : option (list N)).

Definition rows_eqb := list_eqb bytes_eqb.
Definition oeqb := outcome_eqb rows_eqb.

Definition valid_size (data : list N) (size : Z) : bool :=
  (0 <? size)%Z && negb (Nat.eqb (length data) 0) && (Z.rem (Z.of_nat (length data)) size =? 0)%Z.

(* what the specification says the call must return *)
Definition expected (data : list N) (size red : Z) : option (outcome (list (list N))) :=
  if valid_size data size then
    match spec_encode FUEL data (Z.to_nat size) (Z.to_nat red) with
    | Some fr => Some (Ok fr)
    | None => None
    end
  else Some Err.

Definition encode_prop (data : list N) (size red : Z) (o : outcome (list (list N))) : bool :=
  negb (is_panic o) &&
  match expected data size red with
  | Some e => oeqb o e
  | None => false
  end.

Definition check (c : case) : N :=
  match c with
  | CEncode data size red o =>
    code (oeqb (encode data size red) o) (encode_prop data size red o)
  | CRecover data size red o kept go_dec =>
    code (oeqb (encode data size red) o)
         (encode_prop data size red o &&
          match o with
          | Ok frags =>
            let k := Z.to_nat size in
            let n := (length data / k)%nat in
            match spec_generator FUEL n (Z.to_nat red) with
            | None => false
            | Some G =>
              let SI := select kept G [] in
              match left_inverse n SI with
              | Some T =>
                bool_mat_eqb (mat_mul n T SI) (identity n)
                && rows_eqb (mat_apply k T (select kept frags [])) (chunks n k data)
                && match go_dec with Some d => bytes_eqb d data | None => false end
              | None => match go_dec with None => true | Some _ => false end
              end
            end
          | _ => true
          end)
  end.

Definition run_cases := run_with check.
