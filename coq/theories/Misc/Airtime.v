(* Model of /repo/airtime/airtime.go.

   Go `int` and time.Duration are int64 here (amd64); every product and sum
   is wrapped explicitly; integer division truncates toward zero (Z.quot) and
   panics on a zero divisor.

   CalculateLoRaPayloadSymbolNumber works in float64:
       a := 8*pl - 4*sf + 28 + 16 - 20*h;  b := 4*(sf - 2*de);  c := cr + 4
       if sf <= 6 { a = 8*pl - 4*sf + 20 + 16 - 20*h; b = 4*sf }      (SF5/SF6, since the fix commit)
       int(8 + math.Max(math.Ceil(a/b)*c, 0))
   The model computes the same value over Z.  Why this is exact: for |pl|, |sf|
   < 2^40 all of pl, sf, a, b, c are integers of magnitude < 2^53, so float64
   represents them and their sums/products exactly.  a/b is the correctly
   rounded quotient q' of q = a/b.  If q is an integer then q' = q.  Otherwise
   n < q < n+1 for an integer n and q is at least 1/|b| away from n; rounding
   is monotone and n, n+1 are floats, so n <= q' <= n+1, and q' = n would need
   |q - n| <= |q| * 2^-53 = |a| / |b| * 2^-53 < 1/|b|: impossible.  Hence
   Ceil(q') = ceil(q); the remaining operations are on integers < 2^53.  On
   the property's domain |a| <= 2056, 12 <= b <= 48.  Independently of this
   argument, ALL symbol-count inputs of the domain are compared with the
   implementation in every run (correspondence, exhaustive).
   b = 0 (sf = 2*de) gives +-Inf/NaN and an implementation-defined float->int
   conversion: not modelled ([symbols_modelled] is false), never generated. *)
From Coq Require Import List ZArith Bool.
From LW Require Import Base.Outcome.
Import ListNotations.
Open Scope Z_scope.

(* 2^63 = 9223372036854775808, 2^64 = 18446744073709551616 (numerals: evaluated often) *)
Definition wrap64 (z : Z) : Z :=
  if (-9223372036854775808 <=? z) && (z <=? 9223372036854775807) then z  (* fast path, same value *)
  else (z + 9223372036854775808) mod 18446744073709551616 - 9223372036854775808.

(* 1 << uint(sf) on int64: shift counts >= 64 (incl. negative sf, which uint() makes huge) give 0 *)
Definition shl1 (sf : Z) : Z := if (0 <=? sf) && (sf <? 64) then wrap64 (2 ^ sf) else 0.

(* Go x / y on int *)
Definition go_div (x y : Z) : outcome Z := if y =? 0 then Panic else Ok (wrap64 (Z.quot x y)).

(* CalculateLoRaSymbolDuration: (1 << uint(sf)) * 1000000 / bandwidth *)
Definition symbol_duration (sf bw : Z) : outcome Z :=
  go_div (wrap64 (shl1 sf * 1000000)) bw.

(* CalculateLoRaPreambleDuration: Duration((100*n)+425) * symbolDuration / 100 *)
Definition preamble_duration (sd n : Z) : Z :=
  wrap64 (Z.quot (wrap64 (wrap64 (wrap64 (100 * n) + 425) * sd)) 100).

Definition b2z (b : bool) : Z := if b then 1 else 0.

(* SF5 and SF6 (sf <= 6 in the code) use the SX126x/SX128x form: numerator without the + 8, denominator 4*SF *)
Definition sym_a (pl sf : Z) (header : bool) : Z :=
  if sf <=? 6 then 8 * pl - 4 * sf + 20 + 16 - 20 * b2z (negb header)
  else 8 * pl - 4 * sf + 28 + 16 - 20 * b2z (negb header).
Definition sym_b (sf : Z) (ldro : bool) : Z :=
  if sf <=? 6 then 4 * sf else 4 * (sf - 2 * b2z ldro).

(* ceil (a / b) for b <> 0 *)
Definition ceil_div (a b : Z) : Z := - ((- a) / b).

Definition symbols_modelled (pl sf : Z) (ldro : bool) : bool :=
  negb (sym_b sf ldro =? 0) && (Z.abs pl <? 2 ^ 40) && (Z.abs sf <? 2 ^ 40).

(* CalculateLoRaPayloadSymbolNumber *)
Definition payload_symbols (pl sf cr : Z) (header ldro : bool) : outcome Z :=
  if (cr <? 1) || (4 <? cr) then Err
  else Ok (8 + Z.max (ceil_div (sym_a pl sf header) (sym_b sf ldro) * (cr + 4)) 0).

(* CalculateLoRaAirtime (after commits "fix: airtime of SF5 and SF6 ..." and "fix: airtime ... one division"):
     n, err := CalculateLoRaPayloadSymbolNumber(...); if err != nil { return 0, err }
     symbols := int64(100*preambleNumber + 425 + 100*n); if sf <= 6 { symbols += 200 }
     return Duration(symbols * (int64(1) << uint(sf)) * 1000000 / (100 * int64(bandwidth)))
   (a zero bandwidth panics, after the coding rate has been checked) *)
Definition airtime (pl sf bw pre cr : Z) (header ldro : bool) : outcome Z :=
  do n <- payload_symbols pl sf cr header ldro;
  let s0 := wrap64 (wrap64 (wrap64 (100 * pre) + 425) + wrap64 (100 * n)) in
  let s := if sf <=? 6 then wrap64 (s0 + 200) else s0 in
  go_div (wrap64 (wrap64 (s * shl1 sf) * 1000000)) (wrap64 (100 * bw)).

(* the code before those two commits: helpers composed, SF7..12 formula for every SF *)
Definition sym_a_orig (pl sf : Z) (header : bool) : Z := 8 * pl - 4 * sf + 28 + 16 - 20 * b2z (negb header).
Definition sym_b_orig (sf : Z) (ldro : bool) : Z := 4 * (sf - 2 * b2z ldro).
Definition payload_symbols_orig (pl sf cr : Z) (header ldro : bool) : outcome Z :=
  if (cr <? 1) || (4 <? cr) then Err
  else Ok (8 + Z.max (ceil_div (sym_a_orig pl sf header) (sym_b_orig sf ldro) * (cr + 4)) 0).
Definition airtime_orig (pl sf bw pre cr : Z) (header ldro : bool) : outcome Z :=
  do sd <- symbol_duration sf bw;
  let p := preamble_duration sd pre in
  do n <- payload_symbols_orig pl sf cr header ldro;
  Ok (wrap64 (p + wrap64 (n * sd))).
