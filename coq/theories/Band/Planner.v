(* Model of the LinkADRReq planner and of its inverse ("apply"):
     band.go:538-665          generic planner, generic apply, intSliceDiff, channelIsActive
     band_us902_928.go:63-156 US915 planner (two strategies, shorter wins) and apply (ChMaskCntl 6/7)
     band_au915_928.go:64-157 AU915: textually the same two functions
   The block size (16 channels per ChMask) is the parameter [B] so that the
   statements can be evaluated exhaustively on small multi-block instances;
   every theorem in props/C14.v instantiates B = 16.

   Go [int] values are [Z] (64-bit wrap-around is unreachable: the only products
   are [chMaskCntl*16] and [(chMaskCntl+1)*16] with [chMaskCntl = c/16], and a
   wrapped upper bound can only occur where the lower-bound test already fails).
   [uint8] arithmetic is written out: [uint8(chMaskCntl)] is [mod 256], and
   [int(pl.Redundancy.ChMaskCntl*16)] multiplies in uint8, i.e. [(cntl*16) mod 256]. *)
From Coq Require Import List ZArith Bool.
From LW Require Import Base.Outcome Band.Channels.
Import ListNotations.
Open Scope Z_scope.

(* lorawan.LinkADRReqPayload (mac_commands.go:319-325) *)
Record payload := mkPayload {
  p_dr : Z;             (* DataRate uint8 *)
  p_txp : Z;            (* TXPower uint8 *)
  p_mask : list bool;   (* ChMask [16]bool *)
  p_cntl : Z;           (* Redundancy.ChMaskCntl uint8 *)
  p_nbrep : Z           (* Redundancy.NbRep uint8 *)
}.

Definition zmem (i : Z) (l : list Z) : bool := existsb (Z.eqb i) l.

(* band.go:658-665 *)
Definition channel_is_active (channels : list Z) (i : Z) : bool := zmem i channels.

(* band.go:625-656: elements of x not in y, then elements of y not in x *)
Definition int_slice_diff (x y : list Z) : list Z :=
  filter (fun c => negb (zmem c y)) x ++ filter (fun c => negb (zmem c x)) y.

(* sort.Ints (ascending); insertion sort, the result is what matters *)
Fixpoint insert_sorted (x : Z) (l : list Z) : list Z :=
  match l with
  | [] => [x]
  | y :: l' => if x <=? y then x :: l else y :: insert_sorted x l'
  end.
Definition sort_ints (l : list Z) : list Z := fold_right insert_sorted [] l.

(* b.uplinkChannels[c].custom *)
Definition custom_at (u : list channel) (c : Z) : outcome bool := omap custom (zidx u c).

(* the filteredDiff loop (band.go:544-548); [||] short-circuits, the slice is
   indexed only when c is not active on the device *)
Fixpoint filtered_diff (u : list channel) (dev : list Z) (diff : list Z) : outcome (list Z) :=
  match diff with
  | [] => Ok []
  | c :: rest =>
    do keep <- (if channel_is_active dev c then Ok true else omap negb (custom_at u c));
    do r <- filtered_diff u dev rest;
    Ok (if keep then c :: r else r)
  end.

(* band.go:577-581: the ChMask of block [cntl], built by looping over the
   enabled channels.  [ec] always comes from GetEnabledUplinkChannelIndices and
   is a valid index. *)
Definition block_mask_step (B : Z) (u : list channel) (dev : list Z) (cntl : Z)
           (acc : outcome (list bool)) (ec : Z) : outcome (list bool) :=
  do m <- acc;
  do cu <- custom_at u ec;
  if (negb cu || channel_is_active dev ec) && (ec >=? cntl * B) && (ec <? (cntl + 1) * B)
  then Ok (upd m (Z.to_nat (Z.rem ec B)) true) else Ok m.
Definition block_mask (B : Z) (u : list channel) (dev en : list Z) (cntl : Z) : outcome (list bool) :=
  fold_left (block_mask_step B u dev cntl) en (Ok (repeat false (Z.to_nat B))).

(* band.go:564-585: loop over the sorted diff, one payload per change of c/16;
   chMaskCntl starts at -1; Go's / truncates toward zero *)
Fixpoint plan_loop (B : Z) (u : list channel) (dev en : list Z) (cur : Z) (l : list Z)
  : outcome (list payload) :=
  match l with
  | [] => Ok []
  | c :: l' =>
    let k := Z.quot c B in
    if k =? cur then plan_loop B u dev en cur l'
    else do m <- block_mask B u dev en k;
         do r <- plan_loop B u dev en k l';
         Ok (mkPayload 0 0 m (k mod 256) 0 :: r)
  end.

(* band.go:538-588, after the device list has been restricted to the plan *)
Definition plan_generic_core (B : Z) (s : st) (dev : list Z) : outcome (list payload) :=
  let en := get_enabled_uplink_channel_indices s in
  let diff := int_slice_diff dev en in
  do fd <- filtered_diff (up s) dev diff;
  match diff, fd with
  | [], _ => Ok []
  | _, [] => Ok []
  | _, _ => plan_loop B (up s) dev en (-1) (sort_ints diff)
  end.

(* the device channels that are part of the plan: indices outside 0..n-1 are
   dropped, in order, duplicates kept (fix for finding C14-4: before it the
   planner emitted a payload for block c/16 of every such index c) *)
Definition known_channels (n : Z) (dev : list Z) : list Z :=
  filter (fun c => (c >=? 0) && (c <? n)) dev.

Definition plan_generic (B : Z) (s : st) (dev : list Z) : outcome (list payload) :=
  plan_generic_core B s (known_channels (zlen (up s)) dev).

(* the code before the fix *)
Definition plan_generic_prefix := plan_generic_core.

(* ---- apply: band.go:590-623 -------------------------------------------- *)

(* chMask[c] = true for the device's channels; channels >= len are ignored;
   fixed code: negative channels are ignored as well (before the fix
   chMask[c] panicked for c < 0, see [init_mask_prefix]) *)
Definition init_mask (n : Z) (dev : list Z) : outcome (list bool) :=
  Ok (fold_left (fun m c => if (c >=? 0) && (c <? n) then upd m (Z.to_nat c) true else m)
                dev (repeat false (Z.to_nat n))).

Definition init_mask_prefix (n : Z) (dev : list Z) : outcome (list bool) :=
  fold_left (fun (acc : outcome (list bool)) c =>
    do m <- acc;
    if c <? n then (if c <? 0 then Panic else Ok (upd m (Z.to_nat c) true)) else Ok m)
    dev (Ok (repeat false (Z.to_nat n))).

(* the inner loop over pl.ChMask, [i] counts from 0 *)
Fixpoint apply_bits (n base : Z) (bits : list bool) (i : Z) (m : list bool) : outcome (list bool) :=
  match bits with
  | [] => Ok m
  | b :: bits' =>
    let idx := base + i in
    if (idx >=? n) && negb b then apply_bits n base bits' (i + 1) m
    else if idx >=? n then Err                         (* ErrChannelDoesNotExist *)
    else apply_bits n base bits' (i + 1) (upd m (Z.to_nat idx) b)
  end.

Definition apply_payload_generic (B n : Z) (m : list bool) (p : payload) : outcome (list bool) :=
  apply_bits n ((p_cntl p * B) mod 256) (p_mask p) 0 m.

Fixpoint apply_payloads (f : list bool -> payload -> outcome (list bool)) (m : list bool) (pls : list payload)
  : outcome (list bool) :=
  match pls with
  | [] => Ok m
  | p :: pls' => do m' <- f m p; apply_payloads f m' pls'
  end.

(* band.go:614-620 *)
Definition mask_indices (m : list bool) : list Z := indices_where (fun b => b) m 0.

Definition apply_generic (B : Z) (s : st) (dev : list Z) (pls : list payload) : outcome (list Z) :=
  let n := zlen (up s) in
  do m0 <- init_mask n dev;
  do m <- apply_payloads (apply_payload_generic B n) m0 pls;
  Ok (mask_indices m).

(* ---- US915 / AU915 ------------------------------------------------------- *)

(* band_us902_928.go:69-101: ChMaskCntl 7 ("all 125 kHz off") carrying the mask
   of the channels >= 64, followed by one payload per 16-block (below 64) that
   contains an enabled channel.  No custom-channel rule here. *)
Definition us_block_mask (B : Z) (en : list Z) (cntl : Z) : list bool :=
  fold_left (fun m ec =>
    if (ec >=? cntl * B) && (ec <? (cntl + 1) * B) then upd m (Z.to_nat (Z.rem ec B)) true else m)
    en (repeat false (Z.to_nat B)).

Fixpoint us_loop (B : Z) (en : list Z) (cur : Z) (l : list Z) (first : list bool)
  : list bool * list payload :=
  match l with
  | [] => (first, [])
  | c :: l' =>
    if c >=? 64 then us_loop B en cur l' (upd first (Z.to_nat (Z.rem c B)) true)
    else let k := Z.quot c B in
         if k =? cur then us_loop B en cur l' first
         else let r := us_loop B en k l' first in
              (fst r, mkPayload 0 0 (us_block_mask B en k) (k mod 256) 0 :: snd r)
  end.

Definition plan_us_alt (B : Z) (s : st) : list payload :=
  let en := sort_ints (get_enabled_uplink_channel_indices s) in
  let r := us_loop B en (-1) en (repeat false (Z.to_nat B)) in
  mkPayload 0 0 (fst r) 7 0 :: snd r.

(* band_us902_928.go:63-107 *)
Definition plan_us (B : Z) (s : st) (dev : list Z) : outcome (list payload) :=
  do a <- plan_generic B s dev;
  let o := plan_us_alt B s in
  Ok (if (length a <? length o)%nat then a else o).

(* the same on an already restricted device list (the override uses the device
   list only through the generic planner) *)
Definition plan_us_core (B : Z) (s : st) (dev : list Z) : outcome (list payload) :=
  do a <- plan_generic_core B s dev;
  let o := plan_us_alt B s in
  Ok (if (length a <? length o)%nat then a else o).

(* assignments chMask[i] = v for i = lo .. lo+k-1; panics when out of range *)
Fixpoint set_range (m : list bool) (lo : Z) (vs : list bool) : outcome (list bool) :=
  match vs with
  | [] => Ok m
  | v :: vs' =>
    if (lo <? 0) || (lo >=? zlen m) then Panic
    else set_range (upd m (Z.to_nat lo) v) (lo + 1) vs'
  end.

(* band_us902_928.go:119-145 *)
Definition apply_payload_us (B n : Z) (m : list bool) (p : payload) : outcome (list bool) :=
  if (p_cntl p =? 6) || (p_cntl p =? 7) then
    do m1 <- set_range m 0 (repeat (p_cntl p =? 6) 64);
    set_range m1 64 (firstn 8 (p_mask p))
  else apply_payload_generic B n m p.

Definition apply_us (B : Z) (s : st) (dev : list Z) (pls : list payload) : outcome (list Z) :=
  let n := zlen (up s) in
  do m0 <- init_mask n dev;
  do m <- apply_payloads (apply_payload_us B n) m0 pls;
  Ok (mask_indices m).

(* which pair of functions a band uses *)
Definition plan (us : bool) (B : Z) (s : st) (dev : list Z) : outcome (list payload) :=
  if us then plan_us B s dev else plan_generic B s dev.
Definition apply (us : bool) (B : Z) (s : st) (dev : list Z) (pls : list payload) : outcome (list Z) :=
  if us then apply_us B s dev pls else apply_generic B s dev pls.

