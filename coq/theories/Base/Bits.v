(* Masks and shifts on N, reduced to div/mod arithmetic. *)
From Coq Require Import List NArith Bool Lia.
From Coq Require Import ZifyN ZifyNat ZifyBool.
Open Scope N_scope.

Lemma testbit_small b k i : b < 2 ^ k -> k <= i -> N.testbit b i = false.
Proof.
  intros Hb Hi. rewrite <- (N.mod_small b (2 ^ k)) by assumption.
  apply N.mod_pow2_bits_high. lia.
Qed.

Lemma land_disjoint q b k : b < 2 ^ k -> N.land (q * 2 ^ k) b = 0.
Proof.
  intros Hb. apply N.bits_inj. intros i. rewrite N.land_spec, N.bits_0.
  destruct (N.lt_ge_cases i k) as [Hi|Hi].
  - rewrite N.mul_pow2_bits_low by assumption. reflexivity.
  - rewrite (testbit_small b k i) by assumption. apply andb_false_r.
Qed.

(* disjoint or = addition *)
Lemma lor_add q b k : b < 2 ^ k -> N.lor (q * 2 ^ k) b = q * 2 ^ k + b.
Proof.
  intros Hb. pose proof (land_disjoint q b k Hb) as H.
  rewrite N.add_nocarry_lxor by assumption. symmetry. now apply N.lxor_lor.
Qed.

Lemma lor_add' a b k : a mod 2 ^ k = 0 -> b < 2 ^ k -> N.lor a b = a + b.
Proof.
  intros Ha Hb. assert (Hp : 2 ^ k <> 0) by (apply N.pow_nonzero; lia).
  apply N.div_exact in Ha; [|assumption]. rewrite Ha, (N.mul_comm (2 ^ k)).
  now apply lor_add.
Qed.

(* x &^ (ones32 << s): clear bits s..31 of a 32-bit value *)
Lemma ldiff_high a s : s <= 32 -> a < 2 ^ 32 ->
  N.ldiff a ((N.shiftl (N.ones 32) s) mod 2 ^ 32) = a mod 2 ^ s.
Proof.
  intros Hs Ha. apply N.bits_inj. intros i.
  rewrite N.ldiff_spec.
  destruct (N.lt_ge_cases i s) as [Hi|Hi].
  - rewrite (N.mod_pow2_bits_low a s i) by assumption.
    rewrite (N.mod_pow2_bits_low _ 32 i) by lia.
    rewrite N.shiftl_spec_low by assumption. simpl. apply andb_true_r.
  - rewrite (N.mod_pow2_bits_high a s i) by assumption.
    destruct (N.lt_ge_cases i 32) as [Hi2|Hi2].
    + rewrite (N.mod_pow2_bits_low _ 32 i) by assumption.
      rewrite N.shiftl_spec_high' by assumption.
      rewrite N.ones_spec_low by lia. simpl. apply andb_false_r.
    + rewrite (testbit_small a 32 i) by assumption. reflexivity.
Qed.

Lemma land_ones_mod a k : N.land a (N.ones k) = a mod 2 ^ k.
Proof. apply N.land_ones. Qed.

Lemma shiftl_mul a k : N.shiftl a k = a * 2 ^ k.
Proof. apply N.shiftl_mul_pow2. Qed.
Lemma shiftr_div a k : N.shiftr a k = a / 2 ^ k.
Proof. apply N.shiftr_div_pow2. Qed.

(* byte-level: land with a mask that is 2^k-1 *)
Lemma land_mask a m k : m = N.ones k -> N.land a m = a mod 2 ^ k.
Proof. intros ->. apply N.land_ones. Qed.

