package main

import (
	"verifharness/internal/cases"
	"verifharness/internal/cq"
)

// frameCases: MHDR, FCtrl, FHDR, DLSettings, join payloads, CFList (added with the Frame model).
func frameCases(s *cases.Set, r *cq.RNG, thorough bool) {}
