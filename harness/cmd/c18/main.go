// Correspondence harness for C18 (application-layer package commands,
// multicast key derivations).  Every call into the implementation runs under
// recover(); a panic is the observation `Panic`.
package main

import (
	"bytes"
	"crypto/sha256"
	"fmt"
	"os"
	"sync"
	"time"

	"github.com/brocaar/lorawan"
	mc "github.com/brocaar/lorawan/applayer/multicastsetup"
	"verifharness/internal/cases"
	"verifharness/internal/cq"
)

func dirName(up bool) string {
	if up {
		return "up"
	}
	return "down"
}

// call runs f under recover() and under the watchdog; reports (error, panicked, panic text)
func call(what string, f func() error) (err error, panicked bool, msg string) {
	cases.Begin(what, map[string]interface{}{"call": what})
	defer cases.End()
	defer func() {
		if r := recover(); r != nil {
			panicked = true
			msg = fmt.Sprint(r)
		}
	}()
	err = f()
	return
}

func inverted(b []byte) []byte {
	out := make([]byte, len(b))
	for i, x := range b {
		out[i] = ^x
	}
	return out
}

// aliasCheck: `back` was decoded from `buf`, a private copy of `orig`. The call must not
// have written to its input, and the decoded commands must not share memory with it
// (encoding.BinaryUnmarshaler: "UnmarshalBinary must copy the data if it wishes to retain
// the data after returning"): after every byte of the buffer is inverted the decoded
// commands must print as before.
func aliasCheck(s *cases.Set, pk *pkg, api string, up bool, orig, buf []byte, back []cmd) {
	if !bytes.Equal(orig, buf) {
		s.Fail(cases.GoFail{Key: short(fmt.Sprintf("decoder-modifies-input:%s:%x", pk.name, orig)),
			What:   pk.name + api + " wrote to the byte slice it was given",
			Replay: map[string]interface{}{"api": pk.name + api, "uplink": up, "data": fmt.Sprintf("%x", orig), "data_after_call": fmt.Sprintf("%x", buf)}})
		return
	}
	var before, after string
	_, pan, _ := call("print decoded", func() error { before = cmdsTerm(pk, back); return nil })
	if pan {
		return
	}
	for i := range buf {
		buf[i] = ^buf[i]
	}
	call("print decoded", func() error { after = cmdsTerm(pk, back); return nil })
	for i := range buf {
		buf[i] = ^buf[i] // restore, so that what is printed later is what was decoded
	}
	if before != after {
		s.Fail(cases.GoFail{Key: short(fmt.Sprintf("decoded-command-aliases-input:%s:%x", pk.name, orig)),
			What:   "the command(s) decoded by " + pk.name + api + " share memory with the input buffer: they change when the caller reuses the buffer",
			Replay: map[string]interface{}{"api": pk.name + api, "uplink": up, "data": fmt.Sprintf("%x", orig), "decoded": before, "decoded_after_buffer_was_overwritten": after}})
	}
}

func short(k string) string {
	if len(k) > 180 {
		h := sha256.Sum256([]byte(k))
		return k[:150] + fmt.Sprintf("~%x", h[:6])
	}
	return k
}

func natList(xs []int) string {
	s := make([]string, len(xs))
	for i, x := range xs {
		s[i] = fmt.Sprintf("%d%%nat", x)
	}
	return cq.List(s)
}

// streamCase: encode the commands, record sizes, decode what was encoded.
func streamCase(s *cases.Set, pk *pkg, up bool, cs []cmd, kind string) {
	var enc []byte
	key := short("stream:" + pk.name + ":" + dirName(up) + ":" + cmdsKey(pk, cs))
	if dataFragmentNotLast(pk, cs) {
		// known finding C18-5 is identified by this key prefix
		key = short("stream:" + pk.name + ":" + dirName(up) + ":datafragment-not-last:" + cmdsKey(pk, cs))
	}
	var csBefore string
	call("print", func() error { csBefore = cmdsTerm(pk, cs); return nil })
	err, pan, msg := call("Commands.MarshalBinary:"+key, func() error { var e error; enc, e = pk.marshal(cs); return e })
	if !pan && err == nil {
		// the returned bytes belong to the caller: overwriting them must not change the commands
		keep := append([]byte{}, enc...)
		for i := range enc {
			enc[i] = ^enc[i]
		}
		var csAfter string
		call("print", func() error { csAfter = cmdsTerm(pk, cs); return nil })
		if csBefore != csAfter {
			s.Fail(cases.GoFail{Key: short("encoded-bytes-alias-command:" + pk.name + ":" + cmdsKey(pk, cs)),
				What:   pk.name + ".Commands.MarshalBinary returned bytes that share memory with the command's payload",
				Replay: map[string]interface{}{"commands": csBefore, "commands_after_output_was_overwritten": csAfter}})
		}
		enc = keep
	}
	oenc := cq.Err
	if pan {
		oenc = cq.Panic
	} else if err == nil {
		oenc = cq.Ok(cq.Bytes(enc))
	}
	var sizes []int
	_, span, _ := call("Command.Size:"+key, func() error { sizes = pk.sizes(cs); return nil })
	if span {
		sizes = nil
	}
	odec := cq.Err
	decNote := ""
	if !pan && err == nil {
		var back []cmd
		buf := append([]byte{}, enc...)
		derr, dpan, dmsg := call("Commands.UnmarshalBinary:"+key, func() error { var e error; back, e = pk.unmarshal(up, buf); return e })
		if !dpan {
			aliasCheck(s, pk, ".Commands.UnmarshalBinary", up, enc, buf, back)
		}
		// one command at a time as well
		if !dpan && derr == nil && len(cs) == 1 {
			buf1 := append([]byte{}, enc...)
			var c1 cmd
			_, p1, _ := call("Command.UnmarshalBinary:"+key, func() error { var e error; c1, e = pk.unmarshal1(up, buf1); return e })
			if !p1 {
				aliasCheck(s, pk, ".Command.UnmarshalBinary", up, enc, buf1, []cmd{c1})
			}
		}
		switch {
		case dpan:
			odec = cq.Panic
			decNote = "panic: " + dmsg
		case derr != nil:
			decNote = "error: " + derr.Error()
		default:
			odec = cq.Ok(cmdsTerm(pk, back))
		}
	}
	term := fmt.Sprintf("CStream %s %s %s %s %s", cq.Bool(up), cmdsTerm(pk, cs), oenc, natList(sizes), odec)
	rp := map[string]interface{}{"api": pk.name + ".Commands.MarshalBinary / Command.Size / Commands.UnmarshalBinary(uplink=" + cq.Bool(up) + ")",
		"commands": cmdsTerm(pk, cs), "encoded": fmt.Sprintf("%x", enc), "encode_result": oenc, "sizes": sizes, "decoded": odec}
	if pan {
		rp["panic"] = msg
	}
	if decNote != "" {
		rp["decode_note"] = decNote
	}
	s.Add(cases.Case{Term: term, Key: key, Kind: kind, Nontrivial: true, Replay: rp})
	// the same calls are repeated later (other order, one P, concurrently); the closures touch
	// nothing but their own copies and the read-only command values
	encKeep := append([]byte{}, enc...)
	s.Remember("encode:"+key, oenc, rp, func() (out string) {
		defer func() {
			if recover() != nil {
				out = cq.Panic
			}
		}()
		b, e := pk.marshal(cs)
		if e != nil {
			return cq.Err
		}
		return cq.Ok(cq.Bytes(b))
	})
	if !pan && err == nil {
		s.Remember("decode:"+key, odec, rp, func() (out string) {
			defer func() {
				if recover() != nil {
					out = cq.Panic
				}
			}()
			b, e := pk.unmarshal(up, append([]byte{}, encKeep...))
			if e != nil {
				return cq.Err
			}
			return cq.Ok(cmdsTerm(pk, b))
		})
	}
	drain(s, false)
}

// Long sequences are expensive to elaborate in Coq; they are queued and emitted one every
// `spread` cases so that they are distributed over the shards (which are evaluated in parallel).
var pending []func()
var draining bool

const spread = 60

func drain(s *cases.Set, all bool) {
	if draining {
		return
	}
	draining = true
	for len(pending) > 0 && (all || s.Len()%spread == 0) {
		f := pending[0]
		pending = pending[1:]
		f()
	}
	draining = false
}

// cmdSize is Command.Size() of one command
func cmdSize(pk *pkg, c cmd) int {
	n := -1
	call("Command.Size", func() error { n = pk.sizes([]cmd{c})[0]; return nil })
	return n
}

// ladderStream builds a well-formed stream whose encoding has exactly `target` bytes: random
// in-range commands while they fit, then commands without payload (one byte each); for the
// fragmentation downlink the rest may be one DataFragment.
func ladderStream(r *cq.RNG, pk *pkg, up bool, target int, only string) []cmd {
	gs := gensFor(pk, up)
	bare := pk.bareDown
	if up {
		bare = pk.bareUp
	}
	var out []cmd
	total := 0
	misses := 0
	for total < target && misses < 200 {
		g := gs[r.Intn(len(gs))]
		if only != "" {
			for _, x := range gs {
				if x.name == only {
					g = x
				}
			}
		}
		if g.name == "DataFragment" {
			continue
		}
		c := cmd{g.cid, g.mk(r, inRange)}
		n := cmdSize(pk, c)
		if n < 1 || total+n > target {
			misses++
			continue
		}
		out = append(out, c)
		total += n
	}
	rest := target - total
	if pk.name == "fragmentation" && !up && rest >= 3 && r.Bool() {
		for _, g := range gs {
			if g.name == "DataFragment" {
				p := g.mk(r, inRange)
				setDataFragmentPayload(p, r.Bytes(rest-3))
				out = append(out, cmd{g.cid, p})
				rest = 0
			}
		}
	}
	for ; rest > 0; rest-- {
		out = append(out, cmd{bare[r.Intn(len(bare))], nil})
	}
	return out
}

// keptCase: what a receive loop does. A is decoded into a variable, the application keeps a
// (shallow) copy of the result, then B is decoded into the same variable: the kept copy must
// still be A, the variable must hold what a fresh decode of B gives, and decoding an empty
// payload into the used variable must leave what a fresh variable holds (nil or empty as HEAD does).
func keptCase(s *cases.Set, pk *pkg, up bool, a, b []cmd) {
	var encA, encB []byte
	e1, p1, _ := call("Commands.MarshalBinary", func() error { var e error; encA, e = pk.marshal(a); return e })
	e2, p2, _ := call("Commands.MarshalBinary", func() error { var e error; encB, e = pk.marshal(b); return e })
	if e1 != nil || e2 != nil || p1 || p2 {
		return
	}
	rp := map[string]interface{}{"api": pk.name + ": var c Commands; c.UnmarshalBinary(up, A); kept := c; c.UnmarshalBinary(up, B)", "uplink": up,
		"A": fmt.Sprintf("%x", encA), "B": fmt.Sprintf("%x", encB)}
	key := short(fmt.Sprintf("%s:%s:%x->%x", pk.name, dirName(up), encA, encB))
	rc := pk.newRecv()
	var before, after, nowB, freshB string
	var kept func() []cmd
	_, pan, _ := call("Commands.UnmarshalBinary(A) then (B) into one variable:"+key, func() error {
		if e := rc.decode(up, append([]byte{}, encA...)); e != nil {
			return e
		}
		kept = rc.keep()
		before = cmdsTerm(pk, kept())
		if e := rc.decode(up, append([]byte{}, encB...)); e != nil {
			return e
		}
		after = cmdsTerm(pk, kept())
		nowB = cmdsTerm(pk, rc.keep()())
		fb, e := pk.unmarshal(up, append([]byte{}, encB...))
		freshB = cmdsTerm(pk, fb)
		return e
	})
	if pan {
		return
	}
	if before != after {
		rp["kept_copy_before"], rp["kept_copy_after"] = before, after
		s.Fail(cases.GoFail{Key: "kept-copy-changed:" + key, What: "a copy of the decoded Commands kept by the caller changed when another payload was decoded into the same variable", Replay: rp})
		return
	}
	if nowB != freshB {
		rp["reused_variable"], rp["fresh_variable"] = nowB, freshB
		s.Fail(cases.GoFail{Key: "reused-receiver-differs:" + key, What: "decoding into a used Commands variable gives another result than decoding into a fresh one", Replay: rp})
		return
	}
	// empty payload into the used variable vs into a fresh one
	fresh := pk.newRecv()
	var usedNil, freshNil bool
	var usedLen, freshLen int
	call("Commands.UnmarshalBinary(empty)", func() error {
		rc.decode(up, nil)
		fresh.decode(up, nil)
		usedNil, freshNil, usedLen, freshLen = rc.isNil(), fresh.isNil(), rc.length(), fresh.length()
		return nil
	})
	if usedNil != freshNil || usedLen != freshLen {
		rp["used_variable_nil_len"], rp["fresh_variable_nil_len"] = fmt.Sprint(usedNil, usedLen), fmt.Sprint(freshNil, freshLen)
		s.Fail(cases.GoFail{Key: "reused-receiver-differs:empty:" + key, What: "decoding an empty payload into a used Commands variable leaves another value than in a fresh variable", Replay: rp})
		return
	}
	// the same with single commands: first command of A, then first command of B
	if len(a) > 0 && len(b) > 0 {
		var a1, b1 []byte
		call("Commands.MarshalBinary", func() error { a1, _ = pk.marshal(a[:1]); b1, _ = pk.marshal(b[:1]); return nil })
		var k1 func() cmd
		var bf, af string
		call("Command.UnmarshalBinary(A) then (B) into one variable:"+key, func() error {
			if e := rc.decode1(up, append([]byte{}, a1...)); e != nil {
				return e
			}
			k1 = rc.keep1()
			bf = cmdTerm(pk, k1())
			rc.decode1(up, append([]byte{}, b1...))
			af = cmdTerm(pk, k1())
			return nil
		})
		if bf != af {
			rp["kept_copy_before"], rp["kept_copy_after"] = bf, af
			s.Fail(cases.GoFail{Key: "kept-copy-changed:command:" + key, What: "a copy of the decoded Command kept by the caller changed when another command was decoded into the same variable", Replay: rp})
		}
	}
}

// decodeCase: arbitrary bytes into the stream decoder or the single-command decoder.
func decodeCase(s *cases.Set, pk *pkg, up, single bool, data []byte, kind string) {
	var back []cmd
	buf := append([]byte{}, data...)
	err, pan, msg := call(fmt.Sprintf("%s.UnmarshalBinary(up=%v,single=%v):%x", pk.name, up, single, data), func() error {
		if single {
			c, e := pk.unmarshal1(up, buf)
			back = []cmd{c}
			return e
		}
		var e error
		back, e = pk.unmarshal(up, buf)
		return e
	})
	if !pan {
		ab := back
		if single && err != nil {
			ab = nil
		}
		aliasCheck(s, pk, ".UnmarshalBinary", up, data, buf, ab)
	}
	o := cq.Err
	if pan {
		o = cq.Panic
	} else if err == nil {
		o = cq.Ok(cmdsTerm(pk, back))
	}
	api := ".Commands.UnmarshalBinary"
	if single {
		api = ".Command.UnmarshalBinary"
	}
	rp := map[string]interface{}{"api": pk.name + api + "(uplink=" + cq.Bool(up) + ")", "data": fmt.Sprintf("%x", data), "observed": o}
	if pan {
		rp["panic"] = msg
	}
	if err != nil {
		rp["error"] = err.Error()
	}
	sg := "cmds"
	if single {
		sg = "cmd"
	}
	s.Add(cases.Case{Term: fmt.Sprintf("CDecode %d %s %s %s %s", pk.id, cq.Bool(up), cq.Bool(single), cq.Bytes(data), o),
		Key: short(fmt.Sprintf("decode:%s:%s:%s:%x", pk.name, dirName(up), sg, data)), Kind: kind, Nontrivial: true, Replay: rp})
	drain(s, false)
}

func keyOutcome(f func() (lorawan.AES128Key, error)) string {
	var k lorawan.AES128Key
	err, pan, _ := call("multicastsetup key derivation", func() error { var e error; k, e = f(); return e })
	if pan {
		return cq.Panic
	}
	if err != nil {
		return cq.Err
	}
	return cq.Ok(cq.Bytes(k[:]))
}

func keysCase(s *cases.Set, key lorawan.AES128Key, addr lorawan.DevAddr) {
	term := fmt.Sprintf("CKeys %s %s %s %s %s %s %s", cq.Bytes(key[:]), cq.Bytes(addr[:]),
		keyOutcome(func() (lorawan.AES128Key, error) { return mc.GetMcRootKeyForGenAppKey(key) }),
		keyOutcome(func() (lorawan.AES128Key, error) { return mc.GetMcRootKeyForAppKey(key) }),
		keyOutcome(func() (lorawan.AES128Key, error) { return mc.GetMcKEKey(key) }),
		keyOutcome(func() (lorawan.AES128Key, error) { return mc.GetMcAppSKey(key, addr) }),
		keyOutcome(func() (lorawan.AES128Key, error) { return mc.GetMcNetSKey(key, addr) }))
	s.Add(cases.Case{Term: term, Key: fmt.Sprintf("mckeys:key=%x:addr=%x", key[:], addr[:]), Kind: "mckeys", Nontrivial: true,
		Replay: map[string]interface{}{"api": "multicastsetup.GetMcRootKeyForGenAppKey/ForAppKey/GetMcKEKey/GetMcAppSKey/GetMcNetSKey", "key": fmt.Sprintf("%x", key[:]), "mcaddr": fmt.Sprintf("%x", addr[:])}})
}

// concurrentKeys: 8 goroutines derive keys at the same time, each for its own McKeys and
// McAddrs; every derived key must be the one computed sequentially beforehand (the first
// pair of every goroutine is also a model-compared CKeys case). `total` counts derivations.
func concurrentKeys(s *cases.Set, r *cq.RNG, total int) {
	type job struct {
		key  lorawan.AES128Key
		addr lorawan.DevAddr
		want [5]lorawan.AES128Key
	}
	derive := func(i int, k lorawan.AES128Key, a lorawan.DevAddr) (lorawan.AES128Key, error) {
		switch i {
		case 0:
			return mc.GetMcAppSKey(k, a)
		case 1:
			return mc.GetMcNetSKey(k, a)
		case 2:
			return mc.GetMcRootKeyForGenAppKey(k)
		case 3:
			return mc.GetMcRootKeyForAppKey(k)
		}
		return mc.GetMcKEKey(k)
	}
	names := []string{"GetMcAppSKey", "GetMcNetSKey", "GetMcRootKeyForGenAppKey", "GetMcRootKeyForAppKey", "GetMcKEKey"}
	const workers, perWorker = 8, 32
	jobs := make([][]job, workers)
	for g := 0; g < workers; g++ {
		for j := 0; j < perWorker; j++ {
			var jb job
			copy(jb.key[:], r.Bytes(16))
			copy(jb.addr[:], r.Bytes(4))
			jb.addr[0] = byte(g<<5) | jb.addr[0]&0x1f // distinct addresses per goroutine
			for i := 0; i < 5; i++ {
				cases.Begin("multicastsetup."+names[i], nil)
				jb.want[i], _ = derive(i, jb.key, jb.addr)
				cases.End()
			}
			jobs[g] = append(jobs[g], jb)
			if j == 0 {
				keysCase(s, jb.key, jb.addr)
			}
		}
	}
	iters := total / workers / 2
	var mu sync.Mutex
	type badT struct {
		g, i     int
		jb       job
		got      lorawan.AES128Key
		panicked string
	}
	var bad []badT
	var wg sync.WaitGroup
	for g := 0; g < workers; g++ {
		wg.Add(1)
		go func(g int) {
			defer wg.Done()
			defer func() {
				if rec := recover(); rec != nil {
					mu.Lock()
					bad = append(bad, badT{g: g, i: -1, panicked: fmt.Sprint(rec)})
					mu.Unlock()
				}
			}()
			for k := 0; k < iters; k++ {
				jb := jobs[g][k%perWorker]
				i := k % 2 // the two session keys; now and then the three others
				if k%16 == 15 {
					i = 2 + (k/16)%3
				}
				for rep := 0; rep < 2; rep++ {
					got, err := derive(i, jb.key, jb.addr)
					if err != nil || got != jb.want[i] {
						mu.Lock()
						if len(bad) < 10 {
							bad = append(bad, badT{g: g, i: i, jb: jb, got: got})
						}
						mu.Unlock()
					}
					if i < 2 {
						i = 1 - i
					}
				}
			}
		}(g)
	}
	done := make(chan struct{})
	go func() { wg.Wait(); close(done) }()
	select {
	case <-done:
	case <-time.After(120 * time.Second):
		s.Fail(cases.GoFail{Key: "hang:concurrent-keys", What: "8 goroutines deriving multicast keys did not finish within 120 s", Replay: map[string]interface{}{"workers": workers}})
		return
	}
	for _, b := range bad {
		if b.i < 0 {
			s.Fail(cases.GoFail{Key: "concurrent-keys:panic", What: "a multicast key derivation panicked while 8 goroutines were deriving keys: " + b.panicked,
				Replay: map[string]interface{}{"goroutines": workers}})
			continue
		}
		s.Fail(cases.GoFail{Key: fmt.Sprintf("concurrent-keys:%s:key=%x:addr=%x", names[b.i], b.jb.key[:], b.jb.addr[:]),
			What: fmt.Sprintf("multicastsetup.%s returned %x instead of %x while 8 goroutines were deriving keys for other addresses", names[b.i], b.got[:], b.jb.want[b.i][:]),
			Replay: map[string]interface{}{"api": "multicastsetup." + names[b.i], "key": fmt.Sprintf("%x", b.jb.key[:]), "mcaddr": fmt.Sprintf("%x", b.jb.addr[:]),
				"sequential_result": fmt.Sprintf("%x", b.jb.want[b.i][:]), "concurrent_result": fmt.Sprintf("%x", b.got[:]), "goroutines": workers, "derivations": iters * 2 * workers}})
	}
	s.Extra["concurrent_key_derivations"] = iters * 2 * workers
	s.Extra["concurrent_key_derivations_rule"] = "8 goroutines, 32 (McKey, McAddr) pairs each, distinct addresses per goroutine; every result equals the sequentially computed key (the first pair of each goroutine is a model-compared case)"
}

func gensFor(pk *pkg, up bool) []gen {
	var out []gen
	for _, g := range pk.gens {
		if g.up == up {
			out = append(out, g)
		}
	}
	return out
}

// a well-formed stream: in-range payloads of one direction, a payload that
// consumes the rest (DataFragment) only in last position, bare commands now and then
func wfStream(r *cq.RNG, pk *pkg, up bool, n int, mode int) []cmd {
	gs := gensFor(pk, up)
	var out []cmd
	for i := 0; i < n; i++ {
		if r.Intn(9) == 0 {
			bare := pk.bareDown
			if up {
				bare = pk.bareUp
			}
			out = append(out, cmd{bare[r.Intn(len(bare))], nil})
			continue
		}
		g := gs[r.Intn(len(gs))]
		for g.name == "DataFragment" && i != n-1 {
			g = gs[r.Intn(len(gs))]
		}
		out = append(out, cmd{g.cid, g.mk(r, mode)})
	}
	return out
}

func main() {
	dir, seed, thorough := cases.Args()
	r := cq.NewRNG(seed)
	s := cases.New("C18", dir, "LW.Corr.C18",
		"all in-range values of every single-byte payload and all 256 bytes into its decoder; per payload type boundary, random in-range and out-of-range values; well-formed and ill-formed command sequences of 1..6 commands in both directions; truncated and random byte strings into Commands/Command decoders; random keys and addresses through the five key derivations; every case is non-trivial (distinct = distinct printed case)")
	s.ShardSize = 400
	s.Watchdog(3 * time.Second)
	pkgs := []*pkg{csPkg(), mcPkg(), frPkg(), fwPkg()}
	mcp, fwp := pkgs[1], pkgs[3]
	mult := 1
	if thorough {
		mult = 25
	}

	// ---- corpus: witnesses of the defects found so far, and their neighbours ----
	{
		mk := func(per, tmo uint8) payload {
			var g gen
			for _, x := range mcp.gens {
				if x.name == "McClassBSessionReq" {
					g = x
				}
			}
			p := g.mk(cq.NewRNG(7), inRange)
			term := p.(*mc.McClassBSessionReqPayload)
			term.McGroupIDHeader.McGroupID, term.SessionTime, term.DLFrequency, term.DR = 2, 0x01020304, 868100000, 5
			term.TimeOutPeriodicity.Periodicity, term.TimeOutPeriodicity.TimeOut = per, tmo
			return term
		}
		streamCase(s, mcp, false, []cmd{{5, mk(3, 8)}}, "corpus")
		streamCase(s, mcp, false, []cmd{{5, mk(2, 8)}}, "corpus")
		streamCase(s, mcp, false, []cmd{{5, mk(7, 15)}}, "corpus")
		for _, g := range fwp.gens {
			if g.name == "DevDeleteImageAns" {
				for _, p := range g.enum() {
					streamCase(s, fwp, true, []cmd{{5, p}}, "corpus")
				}
			}
		}
		byName := func(n string) gen {
			for _, g := range fwp.gens {
				if g.name == n {
					return g
				}
			}
			panic(n)
		}
		rr := cq.NewRNG(11)
		for _, first := range []string{"DevVersionReq", "DevUpgradeImageReq", "DevDeleteImageReq"} {
			for _, second := range []string{"DevRebootTimeReq", "DevVersionReq", "DevRebootCountdownReq"} {
				a, b := byName(first), byName(second)
				streamCase(s, fwp, false, []cmd{{a.cid, a.mk(rr, inRange)}, {b.cid, b.mk(rr, inRange)}}, "corpus")
			}
		}
		// audit C18 #1 (known finding C18-5): a DataFragment followed by another command
		frp := pkgs[2]
		streamCase(s, frp, false, []cmd{{8, mkDataFragment(1, 2, []byte{0xaa, 0xbb})}, {1, mkFragStatusReq(1, true)}}, "corpus")
		streamCase(s, frp, false, []cmd{{8, mkDataFragment(0, 1, []byte{1, 2, 3})}, {8, mkDataFragment(0, 2, []byte{4, 5, 6})}}, "corpus")
		streamCase(s, frp, false, []cmd{{1, mkFragStatusReq(1, true)}, {8, mkDataFragment(1, 2, []byte{0xaa, 0xbb})}}, "corpus") // last position: fine
		streamCase(s, fwp, true, []cmd{{4, mkUpgradeAns(3, nil)}}, "corpus")
		streamCase(s, fwp, true, []cmd{{4, mkUpgradeAns(3, u32p(262657))}}, "corpus")
		streamCase(s, fwp, true, []cmd{{4, mkUpgradeAns(1, u32p(262657))}}, "corpus")
	}

	// ---- sequence length ladder: many commands, total encoded size around and far beyond 255 ----
	for _, pk := range pkgs {
		for _, up := range []bool{false, true} {
			for _, target := range []int{200, 254, 255, 256, 257, 300, 512, 1000, 4096} {
				{
					cs := ladderStream(r, pk, up, target, "")
					pk, up := pk, up
					pending = append(pending, func() { streamCase(s, pk, up, cs, "sequence-long-"+pk.name) })
				}
			}
			// the largest payload type of the direction repeated
			big := map[string]string{"clocksync:false": "AppTimeAns", "clocksync:true": "AppTimeReq", "multicastsetup:false": "McGroupSetupReq", "multicastsetup:true": "McGroupStatusAns",
				"fragmentation:false": "FragSessionSetupReq", "fragmentation:true": "FragSessionStatusAns", "firmwaremanagement:false": "DevDeleteImageReq", "firmwaremanagement:true": "DevVersionAns"}[fmt.Sprintf("%s:%v", pk.name, up)]
			for _, target := range []int{255, 260, 330, 700} {
				{
					cs := ladderStream(r, pk, up, target, big)
					pk, up := pk, up
					pending = append(pending, func() { streamCase(s, pk, up, cs, "sequence-long-"+pk.name) })
				}
			}
			if thorough {
				for i := 0; i < 40; i++ {
					{
						cs := ladderStream(r, pk, up, 100+r.Intn(3000), "")
						pk, up := pk, up
						pending = append(pending, func() { streamCase(s, pk, up, cs, "sequence-long-"+pk.name) })
					}
				}
			}
		}
	}

	// ---- single-byte payloads: every in-range value, every byte into the decoder ----
	for _, pk := range pkgs {
		for _, g := range pk.gens {
			if g.enum == nil {
				continue
			}
			for _, p := range g.enum() {
				streamCase(s, pk, g.up, []cmd{{g.cid, p}}, "exhaustive-values-"+pk.name)
			}
			s.Exhaustive(pk.name + "." + g.name + ": all in-range field values of the single-byte form")
		}
	}
	// decoders whose first payload byte decides everything: all 256 values of that byte,
	// followed by enough bytes for the longest form
	type sweep struct {
		pk   *pkg
		up   bool
		cid  byte
		tail int
		name string
	}
	var sweeps []sweep
	for _, pk := range pkgs {
		for _, g := range pk.gens {
			if g.enum != nil && g.name != "DevVersionReq" && g.name != "DevUpgradeImageReq" {
				tail := 0
				switch g.name {
				case "McClassCSessionAns", "McClassBSessionAns":
					tail = 3
				case "DevUpgradeImageAns":
					tail = 4
				}
				sweeps = append(sweeps, sweep{pk, g.up, g.cid, tail, g.name})
			}
		}
	}
	sweeps = append(sweeps, sweep{mcp, true, 1, 20, "McGroupStatusAns"})
	for _, sw := range sweeps {
		tail := r.Bytes(sw.tail)
		for b := 0; b < 256; b++ {
			data := append([]byte{sw.cid, byte(b)}, tail...)
			decodeCase(s, sw.pk, sw.up, b%2 == 0, data, "exhaustive-bytes-"+sw.pk.name)
		}
		s.Exhaustive(sw.pk.name + "." + sw.name + ": all 256 values of the first payload byte into the decoder")
	}

	// ---- every payload type: boundary, random in-range, out-of-range ----
	for _, pk := range pkgs {
		for _, g := range pk.gens {
			for i := 0; i < 8*mult; i++ {
				streamCase(s, pk, g.up, []cmd{{g.cid, g.mk(r, boundary)}}, "boundary-"+pk.name)
			}
			for i := 0; i < 16*mult; i++ {
				streamCase(s, pk, g.up, []cmd{{g.cid, g.mk(r, inRange)}}, "in-range-"+pk.name)
			}
			for i := 0; i < 12*mult; i++ {
				streamCase(s, pk, g.up, []cmd{{g.cid, g.mk(r, outRange)}}, "out-of-range-"+pk.name)
			}
		}
	}

	// ---- sequences ----
	for _, pk := range pkgs {
		for _, up := range []bool{false, true} {
			for i := 0; i < 42*mult; i++ {
				streamCase(s, pk, up, wfStream(r, pk, up, 1+i%6, inRange), "sequence-"+pk.name+"-"+dirName(up))
			}
			for i := 0; i < 10*mult; i++ {
				streamCase(s, pk, up, wfStream(r, pk, up, 2+i%5, outRange), "sequence-out-of-range-"+pk.name)
			}
			// ill-formed: wrong direction / wrong CID for the payload / greedy payload in the middle
			for i := 0; i < 9*mult; i++ {
				cs := wfStream(r, pk, up, 2+r.Intn(4), inRange)
				j := r.Intn(len(cs))
				switch r.Intn(3) {
				case 0:
					other := gensFor(pk, !up)
					g := other[r.Intn(len(other))]
					cs[j] = cmd{g.cid, g.mk(r, inRange)}
				case 1:
					cs[j].cid = byte(r.Intn(10))
				case 2:
					if pk.name == "fragmentation" && !up {
						for _, g := range pk.gens {
							if g.name == "DataFragment" {
								cs[0] = cmd{g.cid, g.mk(r, inRange)}
							}
						}
					} else {
						cs[j].cid ^= 0x80
					}
				}
				streamCase(s, pk, up, cs, "sequence-ill-formed-"+pk.name)
			}
		}
	}
	// fragmentation downlink: in-range commands with a DataFragment that is NOT last (first, middle,
	// several): every command is well formed on its own, the property is evaluated on them
	for i := 0; i < 14*mult; i++ {
		pk := pkgs[2]
		n := 2 + r.Intn(5)
		cs := wfStream(r, pk, false, n, inRange)
		var dg gen
		for _, g := range pk.gens {
			if g.name == "DataFragment" {
				dg = g
			}
		}
		for k := 0; k < 1+i%2; k++ {
			cs[r.Intn(n-1)] = cmd{dg.cid, dg.mk(r, inRange)}
		}
		streamCase(s, pk, false, cs, "sequence-datafragment-not-last")
	}
	streamCase(s, pkgs[0], true, nil, "sequence-empty")

	// ---- malformed / truncated byte strings into every decoder ----
	for _, pk := range pkgs {
		for _, up := range []bool{false, true} {
			for i := 0; i < 12*mult; i++ {
				cs := wfStream(r, pk, up, 1+r.Intn(3), inRange)
				var enc []byte
				err, pan, _ := call("Commands.MarshalBinary", func() error { var e error; enc, e = pk.marshal(cs); return e })
				if err != nil || pan {
					continue
				}
				// every prefix (quick: a few), into both decoders
				for cut := 0; cut <= len(enc); cut++ {
					if !thorough && len(enc) > 6 && cut > 2 && cut < len(enc)-2 && r.Intn(3) != 0 {
						continue
					}
					decodeCase(s, pk, up, false, enc[:cut], "truncated-"+pk.name)
				}
				decodeCase(s, pk, up, true, enc, "single-with-trailing-"+pk.name)
				// one flipped byte
				mut := append([]byte{}, enc...)
				if len(mut) > 0 {
					mut[r.Intn(len(mut))] ^= byte(1 << uint(r.Intn(8)))
					decodeCase(s, pk, up, false, mut, "mutated-"+pk.name)
				}
			}
			for _, g := range gensFor(pk, up) {
				for i := 0; i < 6*mult; i++ {
					data := append([]byte{g.cid}, r.Bytes(r.Intn(34))...)
					decodeCase(s, pk, up, i%2 == 0, data, "random-bytes-"+pk.name)
				}
			}
			for i := 0; i < 4*mult; i++ {
				decodeCase(s, pk, up, i%2 == 0, r.Bytes(r.Intn(20)), "random-bytes-"+pk.name)
			}
			decodeCase(s, pk, up, false, nil, "random-bytes-"+pk.name)
			decodeCase(s, pk, up, true, nil, "random-bytes-"+pk.name)
		}
	}

	// ---- multicast keys ----
	{
		var k lorawan.AES128Key
		keysCase(s, k, lorawan.DevAddr{})
		for i := range k {
			k[i] = 0xff
		}
		keysCase(s, k, lorawan.DevAddr{0xff, 0xff, 0xff, 0xff})
		// the vector of keys_test.go
		keysCase(s, lorawan.AES128Key{1, 2, 3, 4, 5, 6, 7, 8, 1, 2, 3, 4, 5, 6, 7, 8}, lorawan.DevAddr{1, 2, 3, 4})
		for i := 0; i < 40*mult; i++ {
			var key lorawan.AES128Key
			copy(key[:], r.Bytes(16))
			var a lorawan.DevAddr
			copy(a[:], r.Bytes(4))
			keysCase(s, key, a)
		}
	}

	drain(s, true)

	// ---- one variable decoded into repeatedly; the caller keeps copies ----
	for _, pk := range pkgs {
		for _, up := range []bool{false, true} {
			for i := 0; i < 12*mult; i++ {
				na := 1 + r.Intn(6)
				nb := 1 + r.Intn(na) // fewer or equal ...
				if i%4 == 3 {
					nb = na + 1 + r.Intn(3) // ... and sometimes more
				}
				keptCase(s, pk, up, wfStream(r, pk, up, na, inRange), wfStream(r, pk, up, nb, inRange))
			}
			keptCase(s, pk, up, ladderStream(r, pk, up, 300, ""), ladderStream(r, pk, up, 120, ""))
		}
	}

	// ---- the key derivations in a tight concurrent loop ----
	if thorough {
		concurrentKeys(s, r, 6000000)
	} else {
		concurrentKeys(s, r, 1200000)
	}

	// ---- every remembered encode / decode again: other order, on one P, and from 8 goroutines at once ----
	s.ReplayRemembered(r.Intn, 2, nil)
	s.ReplayConcurrently(8, 1, 60*time.Second)

	if err := s.Finish(); err != nil {
		fmt.Fprintln(os.Stderr, err)
		os.Exit(2)
	}
}
