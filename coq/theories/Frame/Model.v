(* Model of phypayload.go (MHDR, PHYPayload Marshal/Unmarshal), macpayload.go,
   the FCtrl/FHDR part of fhdr.go and payload.go (join payloads, CFList,
   DataPayload).  Identifier arrays (EUI64, DevAddr, NetID) are byte lists in
   Go array order; their binary form is byte-reversed. *)
From Coq Require Import List NArith ZArith Bool.
From LW Require Import Base.Outcome Base.Bytes Mac.Commands Mac.Stream.
Import ListNotations.
Open Scope N_scope.

Record fctrl := mkFCtrl {
  adr : bool; adrackreq : bool; ack : bool; fpending : bool; classb : bool;
  foptslen : N  (* unexported; recomputed by FHDR.MarshalBinary *)
}.

Record fhdr := mkFHDR { devaddr : list N; fc : fctrl; fcnt : N; fopts : list item }.

Record macpayload := mkMAC { hdr : fhdr; fport : option N; frm : list item }.

Inductive cfpayload :=
| CFPChannels (chs : list N)            (* [5]uint32 *)
| CFPMasks (masks : list (list bool))   (* []ChMask *)
| CFPNil.                               (* nil Payload interface *)

Record cflist := mkCFList { cf_payload : cfpayload; cf_type : N }.

Inductive payload :=
| PLJoinRequest (joineui deveui : list N) (devnonce : N)
| PLJoinAccept (joinnonce : N) (netid devaddr : list N) (optneg : bool) (rx2dr rx1off : N)
               (rxdelay : N) (cfl : option cflist)
| PLRejoin02 (rjtype : N) (netid deveui : list N) (rjcount : N)
| PLRejoin1 (rjtype : N) (joineui deveui : list N) (rjcount : N)
| PLMac (m : macpayload)
| PLData (bytes : list N)
| PLNil.

Record phy := mkPHY { mtype : N; major : N; pl : payload; mic : list N }.

(* MType constants *)
Definition JoinRequest := 0. Definition JoinAccept := 1.
Definition UnconfirmedDataUp := 2. Definition UnconfirmedDataDown := 3.
Definition ConfirmedDataUp := 4. Definition ConfirmedDataDown := 5.
Definition RejoinRequest := 6. Definition Proprietary := 7.

Definition is_uplink (mt : N) : bool :=
  (mt =? JoinRequest) || (mt =? UnconfirmedDataUp) || (mt =? ConfirmedDataUp) || (mt =? RejoinRequest).

(* ---- marshalling ---- *)
Definition mhdr_marshal (mt mj : N) : N := N.lor (shl8 mt 5) (N.land mj 3).

Definition item_marshal (it : item) : outcome (list N) :=
  match it with
  | IMac c p => cmd_marshal c p
  | IData d => Ok d
  end.

Fixpoint items_marshal (its : list item) : outcome (list N) :=
  match its with
  | [] => Ok []
  | it :: rest => do b <- item_marshal it; do bs <- items_marshal rest; Ok (b ++ bs)
  end.

Definition fctrl_marshal (c : fctrl) : outcome N :=
  if 15 <? foptslen c then Err else
  Ok (N.lor (N.lor (N.lor (N.lor (N.lor 0 (if adr c then 128 else 0)) (if adrackreq c then 64 else 0))
                          (if ack c then 32 else 0)) (if classb c || fpending c then 16 else 0))
            (N.land (foptslen c) 15)).

Definition fhdr_marshal (h : fhdr) : outcome (list N) :=
  do opts <- items_marshal (fopts h);
  let n := N.of_nat (length opts) in                 (* len(opts) > 15 is tested before the narrowing to uint8 (fix C07-FOptsLen) *)
  if 15 <? n then Err else
  let c := fc h in
  do cb <- fctrl_marshal (mkFCtrl (adr c) (adrackreq c) (ack c) (fpending c) (classb c) n);
  Ok (rev (devaddr h) ++ [cb] ++ le_bytes 2 (fcnt h) ++ opts).

(* MACPayload.marshalPayload *)
Fixpoint frm_marshal (port : option N) (its : list item) : outcome (list N) :=
  match its with
  | [] => Ok []
  | it :: rest =>
    do b <- match it with
            | IMac c p => match port with
                          | Some 0 => cmd_marshal c p
                          | _ => Err
                          end
            | IData d => Ok d
            end;
    do bs <- frm_marshal port rest; Ok (b ++ bs)
  end.

Definition mac_marshal (m : macpayload) : outcome (list N) :=
  do h <- fhdr_marshal (hdr m);
  match fport m with
  | None => match frm m with [] => Ok h | _ => Err end
  | Some p =>
    if negb (Nat.eqb (length (fopts (hdr m))) 0) && (p =? 0) then Err else
    do b <- frm_marshal (fport m) (frm m);
    Ok (h ++ [p] ++ b)
  end.

Definition chmask_bytes := enc_chmask.

Definition cfpayload_marshal (p : cfpayload) : outcome (list N) :=
  match p with
  | CFPNil => Panic
  | CFPChannels chs =>
    fold_left (fun acc f =>
                 do out <- acc;
                 if negb (f mod 100 =? 0) then Err else
                 if 16777215 <? f / 100 then Err else
                 Ok (out ++ firstn 3 (le_bytes 4 (f / 100)))) chs (Ok [])
  | CFPMasks ms =>
    if (6 <? length ms)%nat then Err else Ok (concat (map chmask_bytes ms))
  end.

(* copy(out, b); out[15] = type *)
Definition cflist_marshal (l : cflist) : outcome (list N) :=
  do b <- cfpayload_marshal (cf_payload l);
  let body := firstn 15 (b ++ repeat 0 16) in
  Ok (body ++ [cf_type l mod 256]).

Definition payload_marshal (p : payload) : outcome (list N) :=
  match p with
  | PLNil => Err
  | PLJoinRequest je de dn => Ok (rev je ++ rev de ++ le_bytes 2 dn)
  | PLJoinAccept jn nid da optneg rx2 rx1 rxd cfl =>
    if 15 <? rxd then Err else
    if 16777216 <=? jn then Err else
    do dl <- enc_dlsettings optneg rx2 rx1;
    do cf <- match cfl with None => Ok [] | Some l => cflist_marshal l end;
    Ok (firstn 3 (le_bytes 4 jn) ++ rev nid ++ rev da ++ [dl; rxd] ++ cf)
  | PLRejoin02 ty nid de rc =>
    if negb (ty =? 0) && negb (ty =? 2) then Err else
    Ok ([ty] ++ rev nid ++ rev de ++ le_bytes 2 rc)
  | PLRejoin1 ty je de rc =>
    if negb (ty =? 1) then Err else
    Ok ([ty] ++ rev je ++ rev de ++ le_bytes 2 rc)
  | PLMac m => mac_marshal m
  | PLData d => Ok d
  end.

Definition phy_marshal (p : phy) : outcome (list N) :=
  match pl p with
  | PLNil => Err
  | _ => do b <- payload_marshal (pl p); Ok ([mhdr_marshal (mtype p) (major p)] ++ b ++ mic p)
  end.

(* ---- unmarshalling ---- *)
Definition fctrl_unmarshal (b : N) : fctrl :=
  mkFCtrl (negb (N.land b 128 =? 0)) (negb (N.land b 64 =? 0)) (negb (N.land b 32 =? 0))
          (negb (N.land b 16 =? 0)) (negb (N.land b 16 =? 0)) (N.land b 15).

Definition fhdr_unmarshal (data : list N) : outcome fhdr :=
  if (length data <? 7)%nat then Err else
  let c := fctrl_unmarshal (nth 4 data 0) in
  let fc16 := le_val (firstn 2 (skipn 5 data)) in
  Ok (mkFHDR (rev (firstn 4 data)) c fc16
             (if (7 <? length data)%nat then [IData (skipn 7 data)] else [])).

Definition mac_unmarshal (data : list N) : outcome macpayload :=
  let n := length data in
  if (n <? 7)%nat then Err else
  let ol := N.to_nat (N.land (nth 4 data 0) 15) in
  if (n <? 7 + ol)%nat then Err else
  do h <- fhdr_unmarshal (firstn (7 + ol) data);
  let port := if (7 + ol <? n)%nat then Some (nth (7 + ol) data 0) else None in
  if (7 + ol + 1 <? n)%nat then
    (* after the fix the FPort = 0 with FOpts check is made whenever FPort is present *)
    match port with
    | Some 0 => if (0 <? ol)%nat then Err else Ok (mkMAC h port [IData (skipn (7 + ol + 1) data)])
    | _ => Ok (mkMAC h port [IData (skipn (7 + ol + 1) data)])
    end
  else
    match port with
    | Some 0 => if (0 <? ol)%nat then Err else Ok (mkMAC h port [])
    | _ => Ok (mkMAC h port [])
    end.

Definition dec_chmask_list (data : list N) : list bool :=
  match dec_chmask data with Ok m => m | _ => [] end.

(* CFListChannelMaskPayload.UnmarshalBinary into a fresh value: masks are kept up to
   the last non-zero one *)
Fixpoint masks_loop (data : list N) (fuel : nat) (pending acc : list (list bool)) : list (list bool) :=
  match fuel with
  | O => acc
  | S f =>
    match data with
    | a :: b :: rest =>
      let cm := dec_chmask_list [a; b] in
      if existsb (fun x => x) cm
      then masks_loop rest f [] (acc ++ pending ++ [cm])
      else masks_loop rest f (pending ++ [cm]) acc
    | _ => acc
    end
  end.

Definition cflist_unmarshal (data : list N) : outcome cflist :=
  if negb (Nat.eqb (length data) 16) then Err else
  let ty := nth 15 data 0 in
  let body := firstn 15 data in
  if ty =? 1 then
    Ok (mkCFList (CFPMasks (masks_loop (firstn 12 body) 8 [] [])) ty)
  else
    Ok (mkCFList (CFPChannels (map (fun i => le_val (firstn 3 (skipn (3 * i) body)) * 100) [0;1;2;3;4]%nat)) ty).

Definition joinaccept_unmarshal (data : list N) : outcome payload :=
  let l := length data in
  if negb (Nat.eqb l 12) && negb (Nat.eqb l 28) then Err else
  let '(optneg, rx2, rx1) := dec_dlsettings (nth 10 data 0) in
  do cf <- (if Nat.eqb l 28 then do c <- cflist_unmarshal (skipn 12 data); Ok (Some c) else Ok None);
  Ok (PLJoinAccept (le_val (firstn 3 data)) (rev (firstn 3 (skipn 3 data))) (rev (firstn 4 (skipn 6 data)))
                   optneg rx2 rx1 (N.land (nth 11 data 0) 15) cf).   (* bits 7..4 of the RxDelay octet are RFU (fix C06-4) *)

Definition phy_unmarshal (data : list N) : outcome phy :=
  let n := length data in
  if (n <? 5)%nat then Err else
  let b0 := nth 0 data 0 in
  let mt := N.shiftr b0 5 in
  let mj := N.land b0 3 in
  let body := firstn (n - 5) (skipn 1 data) in
  let m := skipn (n - 4) data in
  do p <-
    (if mt =? JoinRequest then
       if negb (Nat.eqb (length body) 18) then Err else
       Ok (PLJoinRequest (rev (firstn 8 body)) (rev (firstn 8 (skipn 8 body))) (le_val (skipn 16 body)))
     else if (mt =? JoinAccept) || (mt =? Proprietary) then Ok (PLData body)
     else if mt =? RejoinRequest then
       let ty := nth 1 data 0 in
       if (ty =? 0) || (ty =? 2) then
         if negb (Nat.eqb (length body) 14) then Err else
         Ok (PLRejoin02 ty (rev (firstn 3 (skipn 1 body))) (rev (firstn 8 (skipn 4 body))) (le_val (skipn 12 body)))
       else if ty =? 1 then
         if negb (Nat.eqb (length body) 19) then Err else
         Ok (PLRejoin1 ty (rev (firstn 8 (skipn 1 body))) (rev (firstn 8 (skipn 9 body))) (le_val (skipn 17 body)))
       else Err
     else do m <- mac_unmarshal body; Ok (PLMac m));
  Ok (mkPHY mt mj p m).

(* ---- structural equality for the case checker ---- *)
Definition items_eqb := list_eqb item_eqb.
Definition fctrl_eqb (a b : fctrl) :=
  Bool.eqb (adr a) (adr b) && Bool.eqb (adrackreq a) (adrackreq b) && Bool.eqb (ack a) (ack b)
  && Bool.eqb (fpending a) (fpending b) && Bool.eqb (classb a) (classb b) && (foptslen a =? foptslen b).
Definition fhdr_eqb (a b : fhdr) :=
  bytes_eqb (devaddr a) (devaddr b) && fctrl_eqb (fc a) (fc b) && (fcnt a =? fcnt b) && items_eqb (fopts a) (fopts b).
Definition mac_eqb (a b : macpayload) :=
  fhdr_eqb (hdr a) (hdr b) && option_eqb N.eqb (fport a) (fport b) && items_eqb (frm a) (frm b).
Definition cfpayload_eqb (a b : cfpayload) :=
  match a, b with
  | CFPChannels x, CFPChannels y => bytes_eqb x y
  | CFPMasks x, CFPMasks y => list_eqb blist_eqb x y
  | CFPNil, CFPNil => true
  | _, _ => false
  end.
Definition cflist_eqb (a b : cflist) := cfpayload_eqb (cf_payload a) (cf_payload b) && (cf_type a =? cf_type b).
Definition payload_eqb (a b : payload) :=
  match a, b with
  | PLJoinRequest a1 a2 a3, PLJoinRequest b1 b2 b3 => bytes_eqb a1 b1 && bytes_eqb a2 b2 && (a3 =? b3)
  | PLJoinAccept a1 a2 a3 a4 a5 a6 a7 a8, PLJoinAccept b1 b2 b3 b4 b5 b6 b7 b8 =>
    (a1 =? b1) && bytes_eqb a2 b2 && bytes_eqb a3 b3 && Bool.eqb a4 b4 && (a5 =? b5) && (a6 =? b6) && (a7 =? b7)
    && option_eqb cflist_eqb a8 b8
  | PLRejoin02 a1 a2 a3 a4, PLRejoin02 b1 b2 b3 b4 => (a1 =? b1) && bytes_eqb a2 b2 && bytes_eqb a3 b3 && (a4 =? b4)
  | PLRejoin1 a1 a2 a3 a4, PLRejoin1 b1 b2 b3 b4 => (a1 =? b1) && bytes_eqb a2 b2 && bytes_eqb a3 b3 && (a4 =? b4)
  | PLMac a1, PLMac b1 => mac_eqb a1 b1
  | PLData a1, PLData b1 => bytes_eqb a1 b1
  | PLNil, PLNil => true
  | _, _ => false
  end.
Definition phy_eqb (a b : phy) :=
  (mtype a =? mtype b) && (major a =? major b) && payload_eqb (pl a) (pl b) && bytes_eqb (mic a) (mic b).
