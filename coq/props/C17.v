(* C17 - backend-interface JSON types and key envelopes round-trip without loss.
   Statement file: each theorem is closed by [exact] of a lemma proved in
   theories/Backend, followed by Print Assumptions.

   Frequency/Percentage: freq_rt f = UnmarshalJSON (MarshalJSON f) with the
   decimal text in between trusted (strconv prints the shortest text that parses
   back to the same float64).  Floats are Coq's primitive binary64 floats.
   Key envelopes: KEKs of 16, 24 and 32 bytes (AES-128/192/256, FIPS-197 key
   expansion for Nk = 4, 6, 8) and the key-size error for every other length.
   ISO8601Time: time.Format / time.Parse with the RFC 3339 layout as functions
   on (unix seconds, zone offset) and byte strings.
   The 20 payload structs have no repository logic to model (struct tags read
   by encoding/json): differential only (harness), stated in MANIFEST. *)
From Coq Require Import List NArith ZArith Reals Floats Bool.
From LW Require Import Base.Outcome Base.Hex Crypto.AES Crypto.AESAny Crypto.AESAnyProofs
  Crypto.KeyWrap Crypto.KeyWrapAny Crypto.KeyWrapAnyProofs
  Backend.F64 Backend.F64Sweep Backend.F64Proofs Backend.HexBytes Backend.KeyEnvelope Backend.EnvelopeProofs
  Backend.KeyEnvelopeAny Backend.EnvelopeAnyProofs Backend.Iso8601 Backend.Iso8601Proofs Backend.Json Backend.JsonProofs Backend.Payload Backend.PayloadProofs Backend.PayloadFloat Backend.PayloadTables Backend.PayloadTablesProofs.
Import ListNotations.

(* ---------- Percentage ---------- *)
(* every integer percent -1000..100000 (so every 0..100): sweep evaluated by the kernel *)
Theorem C17_pct_exact : forall p : Z, (-1000 <= p <= 100000)%Z -> pct_rt p = Some p.
Proof. exact pct_exact. Qed.
Print Assumptions C17_pct_exact.

(* beyond: every 0 <= p < 2^32, from the IEEE-754 semantics (FloatAxioms) and real analysis *)
Theorem C17_pct_exact_u32 : forall p : Z, (0 <= p < 4294967296)%Z -> pct_rt p = Some p.
Proof. exact pct_exact_real. Qed.
Print Assumptions C17_pct_exact_u32.

(* ---------- Frequency ---------- *)
(* every integer Hz value 0 <= f < 2^32 survives Hz -> MHz float -> Hz *)
Theorem C17_freq_exact : forall f : Z, (0 <= f < 4294967296)%Z -> freq_rt f = Some f.
Proof. exact freq_exact. Qed.
Print Assumptions C17_freq_exact.

(* the real-number core of that proof: two roundings with relative error <= 2^-53 move f by less than 1/2 *)
Theorem C17_freq_err_real : forall f c d1 d2 : R, (c <> 0 -> 0 <= f <= 4294967296 ->
  Rabs d1 <= / 9007199254740992 -> Rabs d2 <= / 9007199254740992 ->
  Rabs (f / c * (1 + d1) * c * (1 + d2) - f) < / 2)%R.
Proof. exact scale_err. Qed.
Print Assumptions C17_freq_err_real.

(* independent of the axioms about floats: every multiple of 0.1 MHz below 2^32 Hz and its neighbours, by kernel evaluation *)
Theorem C17_freq_steps_exact : forall k d : Z, (0 <= k < 42949 -> -1 <= d <= 1 -> 0 <= k * 100000 + d ->
  freq_rt (k * 100000 + d) = Some (k * 100000 + d))%Z.
Proof. exact freq_steps_exact. Qed.
Print Assumptions C17_freq_steps_exact.

(* the truncating conversion before commit 7514334 lost 29 %, 57 %, 58 % (exactly these in 0..100) and 128.2 MHz *)
Theorem C17_orig_refuted :
  (pct_rt_orig 29 = Some 28 /\ pct_rt_orig 57 = Some 56 /\ pct_rt_orig 58 = Some 57 /\
   freq_rt_orig 128200000 = Some 128199999 /\
   filter (fun p => negb (rt_ok pct_rt_orig p)) (map Z.of_nat (seq 0 101)) = [29; 57; 58])%Z.
Proof. exact orig_refuted. Qed.
Print Assumptions C17_orig_refuted.

(* ---------- HEXBytes ---------- *)
Open Scope N_scope.
Theorem C17_hexbytes_roundtrip : forall bs, Forall (fun b => b < 256) bs ->
  hexbytes_unmarshal (hexbytes_marshal bs) = Ok bs /\
  hexbytes_unmarshal (48 :: 120 :: hexbytes_marshal bs) = Ok bs.
Proof. exact hexbytes_roundtrip. Qed.
Print Assumptions C17_hexbytes_roundtrip.

Theorem C17_hexbytes_accepts_only_hex_pairs : forall text bs, hexbytes_unmarshal text = Ok bs ->
  length (trim0x text) = (2 * length bs)%nat.
Proof. exact hexbytes_accepts_even_hex. Qed.
Print Assumptions C17_hexbytes_accepts_only_hex_pairs.

(* ---------- AES-128/192/256 and RFC 3394 under every KEK size ---------- *)
(* the block cipher behind the envelope: defined exactly for 16/24/32-byte keys, and decryption inverts encryption *)
Theorem C17_aes_any_inverse : forall k b,
  (length k = 16 \/ length k = 24 \/ length k = 32)%nat -> Forall (fun x => x < 256) k ->
  length b = 16%nat -> Forall (fun x => x < 256) b ->
  exists c, aes_encrypt_any k b = Some c /\ length c = 16%nat /\ Forall (fun x => x < 256) c /\
            aes_decrypt_any k c = Some b.
Proof. exact aes_any_inverse. Qed.
Print Assumptions C17_aes_any_inverse.

Theorem C17_aes_key_size_error : forall k b,
  ~ (length k = 16 \/ length k = 24 \/ length k = 32)%nat ->
  aes_encrypt_any k b = None /\ aes_decrypt_any k b = None.
Proof. exact aes_any_key_size_error. Qed.
Print Assumptions C17_aes_key_size_error.

(* for 16-byte keys the generic FIPS-197 key expansion is the AES-128 model used by the other properties *)
Theorem C17_aes_any_is_aes128 : forall k b, length k = 16%nat -> aes_encrypt_any k b = Some (aes_encrypt k b).
Proof. exact aes_encrypt_any_128. Qed.
Print Assumptions C17_aes_any_is_aes128.

(* RFC 3394: wrap, then unwrap with the same KEK, for any number n of 64-bit blocks *)
Theorem C17_keywrap_any_roundtrip : forall kek p n,
  (length kek = 16 \/ length kek = 24 \/ length kek = 32)%nat -> Forall (fun x => x < 256) kek ->
  Forall (fun x => x < 256) p -> length p = (8 * n)%nat ->
  exists w, wrap_any kek p = Some w /\ unwrap_any kek w = Some p /\
            length w = (length p + 8)%nat /\ Forall (fun x => x < 256) w.
Proof. exact unwrap_wrap_any. Qed.
Print Assumptions C17_keywrap_any_roundtrip.

Theorem C17_keywrap_any_ok_iff_iv : forall kek d p,
  unwrap_any kek d = Some p <-> unwrap_raw_any kek d = Some (default_iv, p).
Proof. exact unwrap_any_ok_iff_iv. Qed.
Print Assumptions C17_keywrap_any_ok_iff_iv.

(* ---------- key envelopes: KEKs of 16, 24 and 32 bytes ---------- *)
Theorem C17_no_label_clear : forall label kek key,
  label = [] \/ kek = [] -> new_key_envelope_any label kek key = Ok ([], key).
Proof. exact no_label_clear_any. Qed.
Print Assumptions C17_no_label_clear.

Theorem C17_unwrap_wrap : forall label kek key,
  label <> [] -> (length kek = 16 \/ length kek = 24 \/ length kek = 32)%nat ->
  Forall (fun b => b < 256) kek -> length key = 16%nat -> Forall (fun b => b < 256) key ->
  exists w, new_key_envelope_any label kek key = Ok (label, w) /\ length w = 24%nat /\
            envelope_unwrap_any w kek = Ok key.
Proof. exact envelope_unwrap_wrap_any. Qed.
Print Assumptions C17_unwrap_wrap.

(* every other KEK length is refused by both functions (aes.NewCipher) *)
Theorem C17_bad_kek_is_error : forall label kek key d,
  label <> [] -> kek <> [] -> ~ (length kek = 16 \/ length kek = 24 \/ length kek = 32)%nat ->
  new_key_envelope_any label kek key = Err /\ envelope_unwrap_any d kek = Err.
Proof. exact envelope_bad_kek. Qed.
Print Assumptions C17_bad_kek_is_error.

(* EVERY byte string as AESKey (a peer's JSON may carry any even-length hex string, or none): Unwrap returns a key
   exactly when the data has 24 bytes - three 64-bit blocks, len(AES128Key) + 8 - and the RFC 3394 integrity
   check passes under this KEK; otherwise it returns its error; it never panics *)
Theorem C17_unwrap_ok_iff : forall d kek k,
  envelope_unwrap_any d kek = Ok k <->
  length d = 24%nat /\ exists p, unwrap_any kek d = Some p /\ k = copy16 p.
Proof. exact envelope_unwrap_any_ok_iff. Qed.
Print Assumptions C17_unwrap_ok_iff.

Theorem C17_unwrap_total : forall d kek,
  (envelope_unwrap_any d kek = Err \/ exists k, envelope_unwrap_any d kek = Ok k) /\
  envelope_unwrap_any d kek <> Panic.
Proof. exact (fun d kek => conj (envelope_unwrap_any_total d kek) (envelope_unwrap_any_never_panics d kek)). Qed.
Print Assumptions C17_unwrap_total.

(* in terms of the recovered initial value (24 bytes of data, an accepted KEK) *)
Theorem C17_unwrap_ok_iff_iv : forall d kek,
  (length kek = 16 \/ length kek = 24 \/ length kek = 32)%nat -> length d = 24%nat ->
  exists iv plain, unwrap_raw_any kek d = Some (iv, plain) /\
    (forall k, envelope_unwrap_any d kek = Ok k <-> iv = default_iv /\ k = copy16 plain) /\
    (envelope_unwrap_any d kek = Err <-> iv <> default_iv).
Proof. exact envelope_unwrap_any_ok_iff_iv. Qed.
Print Assumptions C17_unwrap_ok_iff_iv.

(* and then the key has 16 bytes and the data is exactly its wrap under this KEK: nothing is truncated, padded or ignored *)
Theorem C17_unwrap_only_wrapped : forall d kek k,
  Forall (fun b => b < 256) kek -> Forall (fun b => b < 256) d ->
  envelope_unwrap_any d kek = Ok k -> length d = 24%nat /\ length k = 16%nat /\ wrap_any kek k = Some d.
Proof. exact envelope_unwrap_any_only_wrapped. Qed.
Print Assumptions C17_unwrap_only_wrapped.

(* the code before the repair C17-3 (known/C17.json): no data, 7 bytes, the bare IV: run-time panic; the RFC 3394 4.4
   wrapping of 24 bytes of key data: success with the first 16 bytes; a wrapping of 8 bytes: success with 8 zero bytes
   added; a trailing byte: ignored.  On 24 bytes of data old and new code agree. *)
Theorem C17_unwrap_orig_refuted :
  envelope_unwrap_any_orig [] (seq_bytes 16) = Panic /\
  envelope_unwrap_any_orig [1; 2; 3; 4; 5; 6; 7] (seq_bytes 24) = Panic /\
  envelope_unwrap_any_orig default_iv (seq_bytes 32) = Panic /\
  envelope_unwrap_any_orig rfc3394_4_4 (seq_bytes 24) = Ok (firstn 16 kd192) /\
  match wrap_any (seq_bytes 16) (seq_bytes 8) with
  | Some w => length w = 16%nat /\ envelope_unwrap_any_orig w (seq_bytes 16) = Ok (seq_bytes 8 ++ repeat 0 8)
  | None => False
  end /\
  envelope_unwrap_any_orig (rfc3394_4_2 ++ [255]) (seq_bytes 24) = Ok kd128.
Proof. exact unwrap_orig_refuted. Qed.
Print Assumptions C17_unwrap_orig_refuted.

Theorem C17_unwrap_orig_agrees_on_24 : forall d kek, length d = 24%nat ->
  envelope_unwrap_any d kek = envelope_unwrap_any_orig d kek.
Proof. exact unwrap_orig_agrees_on_24. Qed.
Print Assumptions C17_unwrap_orig_agrees_on_24.

(* for 16-byte KEKs NewKeyEnvelope is the AES-128 envelope model that C16 (join-server) uses; KeyEnvelope.v's Unwrap
   is the code before the repair *)
Theorem C17_envelope_128_agrees : forall kek, length kek = 16%nat ->
  (forall label key, new_key_envelope_any label kek key = new_key_envelope label kek key) /\
  (forall d, envelope_unwrap_any_orig d kek = envelope_unwrap d kek).
Proof. exact envelope_any_128. Qed.
Print Assumptions C17_envelope_128_agrees.

(* ---------- ISO8601Time (RFC 3339 text form) ---------- *)
Open Scope Z_scope.
(* an instant (unix seconds s, zone offset off) whose local year is 0..9999, with a zone offset that is a whole
   number of minutes and less than a day: the printed text parses back to the same instant and offset *)
Theorem C17_iso8601_roundtrip : forall s off,
  off mod 60 = 0 -> -86400 < off < 86400 -> -62167219200 <= s + off <= 253402300799 ->
  parse_rfc3339 (format_rfc3339 s off) = Some (s, off).
Proof. exact rfc3339_roundtrip. Qed.
Print Assumptions C17_iso8601_roundtrip.

(* "YYYY-MM-DDTHH:MM:SSZ" or "YYYY-MM-DDTHH:MM:SS+hh:mm" *)
Theorem C17_iso8601_length : forall s off,
  off mod 60 = 0 -> -86400 < off < 86400 -> -62167219200 <= s + off <= 253402300799 ->
  length (format_rfc3339 s off) = if off =? 0 then 20%nat else 25%nat.
Proof. exact rfc3339_length. Qed.
Print Assumptions C17_iso8601_length.

(* the calendar underneath: every day number (days since 1970-01-01, any sign) is a valid civil date with that
   day number, and every valid civil date is the date of its day number *)
Theorem C17_civil_from_days_valid : forall z y m d, civil_from_days z = (y, m, d) ->
  1 <= m <= 12 /\ 1 <= d <= days_in_month y m /\ days_from_civil y m d = z.
Proof. exact civil_from_days_valid. Qed.
Print Assumptions C17_civil_from_days_valid.

Theorem C17_civil_from_days_from_civil : forall y m d,
  1 <= m <= 12 -> 1 <= d <= days_in_month y m -> civil_from_days (days_from_civil y m d) = (y, m, d).
Proof. exact civil_from_days_from_civil. Qed.
Print Assumptions C17_civil_from_days_from_civil.

(* 2000-02-29T23:59:59Z; 1999-12-31T23:59:00-00:01; the first second of the year 0 at +23:59; month 13, 30 February,
   29 February 2100, hour 24, second 60, lower-case z and a missing zone are refused; a fraction is accepted *)
(* what RFC 3339 cannot carry (known finding C17-2): a zone offset with seconds comes back shifted, a zone offset of
   25 h or more and a year beyond 9999 are printed but refused by the parser (Go accepts zone hours up to 24) *)
Theorem C17_iso8601_known_refuted :
  parse_rfc3339 (format_rfc3339 (-2208945600) 1172) = Some (-2208945568, 1140) /\
  parse_rfc3339 (format_rfc3339 1592218800 90000) = None /\
  parse_rfc3339 (format_rfc3339 1592398800 (-90000)) = None /\
  parse_rfc3339 (format_rfc3339 316516248000 0) = None /\
  parse_rfc3339 (format_rfc3339 1592222400 86400) = Some (1592222400, 86400) /\
  parse_rfc3339 (format_rfc3339 1592222400 89940) = Some (1592222400, 89940).
Proof. vm_compute. repeat split; reflexivity. Qed.
Print Assumptions C17_iso8601_known_refuted.

Example C17_iso8601_example :
  parse_rfc3339 (format_rfc3339 951868799 0) = Some (951868799, 0) /\
  format_rfc3339 946684800 (-60) = str [49; 57; 57; 57; 45; 49; 50; 45; 51; 49; 84; 50; 51; 58; 53; 57; 58; 48; 48; 45; 48; 48; 58; 48; 49] /\
  parse_rfc3339 (format_rfc3339 (-62167305540) 86340) = Some (-62167305540, 86340) /\
  map parse_rfc3339
    [str [50; 48; 48; 48; 45; 49; 51; 45; 48; 49; 84; 48; 48; 58; 48; 48; 58; 48; 48; 90];
     str [50; 48; 48; 48; 45; 48; 50; 45; 51; 48; 84; 48; 48; 58; 48; 48; 58; 48; 48; 90];
     str [50; 49; 48; 48; 45; 48; 50; 45; 50; 57; 84; 48; 48; 58; 48; 48; 58; 48; 48; 90];
     str [50; 48; 48; 48; 45; 48; 49; 45; 48; 49; 84; 50; 52; 58; 48; 48; 58; 48; 48; 90];
     str [50; 48; 48; 48; 45; 48; 49; 45; 48; 49; 84; 50; 51; 58; 53; 57; 58; 54; 48; 90];
     str [50; 48; 48; 48; 45; 48; 49; 45; 48; 49; 84; 48; 48; 58; 48; 48; 58; 48; 48; 122];
     str [50; 48; 48; 48; 45; 48; 49; 45; 48; 49; 84; 48; 48; 58; 48; 48; 58; 48; 48];
     str [50; 48; 48; 48; 45; 48; 49; 45; 48; 49; 84; 48; 48; 58; 48; 48; 58; 48; 48; 46; 53; 90]]
  = [None; None; None; None; None; None; None; Some (946684800, 0)].
Proof. vm_compute. repeat split; reflexivity. Qed.
Open Scope N_scope.

(* ---------- generic JSON as encoding/json prints and reads it ---------- *)
(* a tree whose number texts are JSON numbers, whose strings and keys are valid UTF-8 and which nests at most
   10000 deep (the limit of encoding/json) is read back from its printed text *)
Theorem C17_json_parse_print : forall v,
  jwf v = true -> (jdepth v <= max_depth)%nat -> json_parse (json_print v) = POk v.
Proof. exact json_parse_print. Qed.
Print Assumptions C17_json_parse_print.

(* strings alone: every valid UTF-8 byte string, with what follows the closing quote left untouched *)
Theorem C17_json_string_roundtrip : forall s rest,
  utf8_valid s = true -> parse_str (esc_string s ++ 34 :: rest) = POk (s, rest).
Proof. exact parse_print_string. Qed.
Print Assumptions C17_json_string_roundtrip.

(* the reader is total: its fuel (twice the length of the text plus one) is never used up, on any input *)
Theorem C17_json_parse_total : forall text, json_parse text <> PFuel.
Proof. exact json_parse_total. Qed.
Print Assumptions C17_json_parse_total.

Example C17_json_example :
  jwf ex_tree = true /\ json_print ex_tree = ex_text /\ json_parse ex_text = POk ex_tree /\
  json_print (JStr [97; 255; 98]) = [34; 97; 92; 117; 102; 102; 102; 100; 98; 34] /\
  json_parse [34; 97; 92; 117; 102; 102; 102; 100; 98; 34] = POk (JStr [97; 239; 191; 189; 98]) /\
  json_parse [91; 48; 49; 93] = PErr.
Proof. vm_compute. repeat split; reflexivity. Qed.

(* ---------- the struct layer of encoding/json: payload types as tables over one generic codec ---------- *)
(* on document trees: for every type description whose struct keys are distinct (twf) and every value of the claimed
   domain (has_type: valid UTF-8 strings, integers in range, timestamps RFC 3339 can carry, Frequency / Percentage
   below 2^32, finite floats, ...), Unmarshal (Marshal x) is the normal form of x (an empty slice under omitempty
   comes back nil).  Types without float fields need nothing else. *)
Theorem C17_struct_tree_roundtrip : forall c t v,
  float_free t = true -> twf t = true -> has_type t false v = true ->
  of_json c t (to_json c t v) = Some (norm t false v).
Proof. exact (fun c t v F => of_to_json c t v (or_introl F)). Qed.
Print Assumptions C17_struct_tree_roundtrip.

(* on bytes, through the printer and reader of the generic JSON model *)
Theorem C17_struct_bytes_roundtrip : forall c t v,
  float_free t = true -> twf t = true -> (tdepth t <= 1000)%nat -> has_type t false v = true ->
  decode c t (encode c t v) = Some (norm t false v).
Proof. exact (fun c t v F => decode_encode c t v (or_introl F)). Qed.
Print Assumptions C17_struct_bytes_roundtrip.

(* types with Frequency, Percentage or float64 fields: the decimal text of floats is not modelled; assumed: the text
   strconv prints for a finite float is a JSON number that parses back to the float.  The float arithmetic of
   Frequency / Percentage is the theorem C17_freq_exact / C17_pct_exact_u32 (hence the same axioms). *)
Theorem C17_struct_bytes_roundtrip_floats : forall c t v,
  (forall f, ffinite f = true -> is_number (ftext c f) = true /\ fparse c (ftext c f) = Some f) ->
  twf t = true -> (tdepth t <= 1000)%nat -> has_type t false v = true ->
  decode c t (encode c t v) = Some (norm t false v).
Proof. exact decode_encode_floats. Qed.
Print Assumptions C17_struct_bytes_roundtrip_floats.

(* BasePayload, BasePayloadResult, Result, KeyEnvelope, VSExtension, JoinReqPayload, JoinAnsPayload (backend.go struct tags
   as tables): no float fields, so unconditionally *)
Theorem C17_payload_roundtrip_join : forall c t v,
  In t [t_vsextension; t_result; t_keyenvelope; t_basepayload; t_basepayloadresult; t_joinreq; t_joinans] ->
  has_type t false v = true -> decode c t (encode c t v) = Some (norm t false v).
Proof. exact payload_roundtrip_2. Qed.
Print Assumptions C17_payload_roundtrip_join.

(* all 20 request / answer payload types and the 10 objects nested in them (PayloadTables.v): usable descriptions *)
Theorem C17_payload_tables_usable : forall t, In t (payload_types ++ nested_types) ->
  twf t = true /\ (tdepth t <= 1000)%nat.
Proof.
  exact (fun t H => usable_spec t (proj1 (forallb_forall usable (payload_types ++ nested_types)) all_usable t H)).
Qed.
Print Assumptions C17_payload_tables_usable.

(* json.Unmarshal (json.Marshal x) = norm x for every one of them, given the premise about strconv's float text *)
Theorem C17_payload_roundtrip : forall c t v,
  (forall f, ffinite f = true -> is_number (ftext c f) = true /\ fparse c (ftext c f) = Some f) ->
  In t (payload_types ++ nested_types) -> has_type t false v = true ->
  decode c t (encode c t v) = Some (norm t false v).
Proof. exact payload_roundtrip. Qed.
Print Assumptions C17_payload_roundtrip.

(* and without any premise for the 13 payload types that carry no Frequency / Percentage / float64:
   Join, Rejoin, AppSKey, PRStop, HRStop, HomeNS request and answer, ProfileReq *)
Theorem C17_payload_roundtrip_float_free : forall c t v,
  In t [t_joinreq; t_joinans; t_rejoinreq; t_rejoinans; t_appskeyreq; t_appskeyans; t_prstopreq; t_prstopans;
        t_hrstopreq; t_hrstopans; t_homensreq; t_homensans; t_profilereq] ->
  has_type t false v = true -> decode c t (encode c t v) = Some (norm t false v).
Proof. exact payload_roundtrip_float_free. Qed.
Print Assumptions C17_payload_roundtrip_float_free.

Example C17_struct_example : forall c,
  has_type t_joinreq false ex_joinreq = true /\ decode c t_joinreq (encode c t_joinreq ex_joinreq) = Some ex_joinreq /\
  List.length payload_types = 20%nat.
Proof. intros c. vm_compute. repeat split; reflexivity. Qed.

(* non-vacuity *)
Example C17_example :
  freq_rt 868100000 = Some 868100000%Z /\ pct_rt 29 = Some 29%Z /\
  hexbytes_unmarshal (hexbytes_marshal [1; 255]) = Ok [1; 255] /\
  new_key_envelope_any [107] rfc3394_kek rfc3394_key = Ok ([107], rfc3394_wrapped) /\
  envelope_unwrap_any rfc3394_wrapped rfc3394_kek = Ok rfc3394_key /\
  new_key_envelope_any [107] (seq_bytes 24) rfc3394_key = Ok ([107], rfc3394_4_2) /\
  envelope_unwrap_any rfc3394_4_2 (seq_bytes 24) = Ok rfc3394_key /\
  new_key_envelope_any [107] (seq_bytes 32) rfc3394_key = Ok ([107], rfc3394_4_3) /\
  envelope_unwrap_any rfc3394_4_3 (seq_bytes 32) = Ok rfc3394_key.
Proof. vm_compute. repeat split; reflexivity. Qed.
