"""Texts for MANIFEST.json."""
BASELINE_OFF = "cd /repo && go test -vet=off -count=1 ./..."
HOOK_COMMITS = []
NOTES = ("All checks share ./check (python driver). Each run rebuilds the Go harness against /repo's working tree, "
         "re-dumps tables into coq/gen, rebuilds the Coq proofs that depend on them (full .vo), evaluates the model and the "
         "executable property on implementation-observed cases inside Coq, and writes evidence/<id>.json. "
         "known_findings.json is read-only at run time.")

# properties not (yet) claimed by a check; kept current as checks are added
NOT_APPLICABLE = {
 "C%02d" % i: "check not built yet in this round (work in progress; the technique applies, see DESIGN.md §5)" for i in range(1, 21)
}

TEXT = {
 "C11": {
  "text": "Theorems for all 2^24 NetIDs x 2^32 DevAddrs: the model of SetAddrPrefix equals the addressing-rule value (prefix, NwkID = low bits of the ID field, NwkAddr untouched), IsNetID is exactly membership, NetID.Type/ID and DevAddr.NetIDType/NwkID agree with the layout; text/binary/sql round trips and wrong-length rejection for all k-byte identifiers. The model is tied to the code by differential cases evaluated in Coq.",
  "note": "Trusted: Coq kernel + vm_compute; Base/Hex.v re-specifies encoding/hex and strings.TrimPrefix; the hand-written model Ident/Model.v is tied to fhdr.go/netid.go/payload.go/phypayload.go only through generated cases (8 types x boundary/random IDs and addresses, member/non-member addresses, malformed text). No axioms (Print Assumptions: closed under the global context).",
  "technique": "Coq theorems (div/mod arithmetic via lia, bit lemmas, 256-case sweep lifted by forallb_forall) + differential correspondence evaluated with vm_compute",
 },
}
