(* Model of applayer/multicastsetup/keys.go: the five key derivations, each a
   single AES-128 block encryption (getKey, keys.go:52-66) of a 16-byte
   block built from a type byte and, for the session keys, the multicast
   address in its binary (byte-reversed) form.  Keys are lists of 16 bytes,
   a lorawan.DevAddr the list of its 4 array bytes.  aes.NewCipher cannot
   fail for a [16]byte key and the block size is 16, so the error branches
   of getKey are unreachable.  No proofs in this file. *)
From Coq Require Import List NArith ZArith Bool.
From LW Require Import Base.Outcome Base.Bytes App.Common Crypto.AES.
Import ListNotations.
Open Scope N_scope.

(* b := [16]byte{t}; copy(b[1:5], mcAddrB) *)
Definition block_of (t : N) (mid : list N) : list N :=
  firstn 16 (t :: mid ++ repeat 0 16).

Definition get_key (key b : list N) : outcome (list N) := Ok (aes_encrypt key b).

Definition mc_root_key_for_gen_app_key (gen_app_key : list N) : outcome (list N) :=
  get_key gen_app_key (repeat 0 16).
Definition mc_root_key_for_app_key (app_key : list N) : outcome (list N) :=
  get_key app_key (block_of 0x20 []).
Definition mc_ke_key (mc_root_key : list N) : outcome (list N) :=
  get_key mc_root_key (repeat 0 16).
Definition mc_app_s_key (mc_key addr : list N) : outcome (list N) :=
  get_key mc_key (block_of 0x01 (devaddr_marshal addr)).
Definition mc_net_s_key (mc_key addr : list N) : outcome (list N) :=
  get_key mc_key (block_of 0x02 (devaddr_marshal addr)).
