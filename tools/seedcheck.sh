#!/bin/bash
# tools/seedcheck.sh <dir with patch.diff, demo_test.go, meta.json> [check ids...]
# Verifies a seeded defect independently (suite passes with it; demo fails with it, passes without)
# and runs the named checks against a private copy of the repository and of the Coq build.
set -u
export GOFLAGS=-mod=mod GOPROXY=off GOSUMDB=off GOTOOLCHAIN=local
D=$(readlink -f "$1"); shift
TAG=$(echo "$D" | tr '/' '_')
W=/tmp/sv/$TAG
rm -rf "$W"; mkdir -p "$W"
git -C /repo worktree prune
for try in 1 2 3 4 5; do git -C /repo worktree add --detach -f "$W/repo" HEAD >/dev/null 2>&1 && break; sleep 3; done
[ -d "$W/repo" ] || { echo "worktree failed"; exit 2; }
cd "$W/repo"
DEST=$(python3 -c "import json;print(json.load(open('$D/meta.json'))['demo_dest'])")
RUN=$(python3 -c "import json;print(json.load(open('$D/meta.json'))['demo_run'])")
mkdir -p "$(dirname "$DEST")"; cp "$D/demo_test.go" "$DEST"
echo "== demo on clean tree (must pass)"; bash -c "$RUN" >"$W/demo_clean.log" 2>&1; echo "rc=$?"
git apply "$D/patch.diff" || { echo "PATCH DOES NOT APPLY"; cd /; git -C /repo worktree remove --force "$W/repo"; exit 3; }
echo "== demo on patched tree (must fail)"; bash -c "$RUN" >"$W/demo_patched.log" 2>&1; echo "rc=$?"
rm -f "$DEST"
echo "== suite on patched tree (must pass except TestAsyncClient)"
go build ./... 2>&1 | tail -3
go test -vet=off -count=1 ./... 2>&1 | grep -v "^ok\|no test files" | grep -v "TestAsyncClient\|redis\|suite.go\|client_test.go\|Error Trace\|Error:\|Test:\|^\s*$\|^FAIL$\|FAIL.*backend\s" | head -10
if [ $# -gt 0 ]; then
  cp -a /verif/coq "$W/coq"
  for id in "$@"; do
    echo "== check $id on patched tree"
    (cd /verif && VERIF_REPO="$W/repo" VERIF_COQDIR="$W/coq" VERIF_OUTDIR="$W/out" timeout 1500 ./check $id 2>&1 | grep -v "^KNOWN-FINDING" | tail -3; echo "rc=${PIPESTATUS[0]}")
  done
fi
cd /; git -C /repo worktree remove --force "$W/repo"; rm -rf "$W/coq"
