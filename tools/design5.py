#!/usr/bin/env python3
"""Regenerates the 'current state per property' table of DESIGN.md section 5 (between the GEN5 markers) from
props/Cxx.v, evidence/Cxx.json, known/Cxx.json."""
import json, re, os
rows = []
for i in range(1, 21):
    pid = "C%02d" % i
    src = open("/verif/coq/props/%s.v" % pid).read()
    thms = re.findall(r"^Theorem (\w+)", src, re.M)
    ev = json.load(open("/verif/evidence/%s.json" % pid))
    cov = ev.get("coverage", {})
    ncases = "%s (%s non-trivial)" % (cov.get("evaluations", "?"), cov.get("distinct_nontrivial", "?"))
    kn = json.load(open("/verif/known/%s.json" % pid))["findings"] if os.path.exists("/verif/known/%s.json" % pid) else []
    fixed = [e["id"] for e in kn if e["status"] == "fixed"]
    known = [e["id"] for e in kn if e["status"] == "known"]
    refuted = [t for t in thms if "refuted" in t]
    rows.append("| %s | %d, incl. %d `_refuted` witnesses | %s / %s s | %s | %s | `notes/%s.md` |" % (
        pid, len(thms), len(refuted), ncases, ev.get("wall_s", "?"), ", ".join(fixed) or "–", ", ".join(known) or "–", pid))
out = ["| id | statement theorems in `props/Cxx.v` | quick tier: cases / wall | findings repaired in `/repo` | findings recorded as known | maintained description |",
       "|----|----|----|----|----|----|"] + rows
p = "/verif/DESIGN.md"
d = open(p).read()
a = d.index("<!-- GEN5 -->"); b = d.index("<!-- /GEN5 -->")
d = d[:a] + "<!-- GEN5 -->\n" + "\n".join(out) + "\n" + d[b:]
open(p, "w").write(d)
print("\n".join(out))
