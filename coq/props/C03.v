(* C03 - FRMPayload and FOpts encryption equal the specification keystream and are
   involutions.  Statements only; proofs in LW.Sec.EncryptProofs.  Model: LW.Sec.Encrypt
   (phypayload.go EncryptFRMPayload / EncryptFOpts and the six PHYPayload methods);
   specification: LW.Sec.EncryptSpec (LoRaWAN 1.0.x section 4.3.3, 1.1 section 4.3.1.1 + erratum).
   `length da = 4`: the Go type DevAddr = [4]byte.  Bound of C03_frm_eq_spec: at most 255
   keystream blocks (4080 bytes) - the one-byte block counter of the code, `byte(i+1)`, wraps at
   block 256 and the specification defines no such block; LoRaWAN payloads have at most 242 bytes. *)
From Coq Require Import List NArith ZArith Bool.
From LW Require Import Base.Outcome Base.Bytes Crypto.AES Mac.Commands Mac.Stream Frame.Model
     Sec.MIC Sec.Encrypt Sec.EncryptSpec Sec.EncryptProofs.
Import ListNotations.
Open Scope N_scope.

Theorem C03_frm_eq_spec : forall key up da fc data,
  length da = 4%nat -> (nblocks (length data) <= 255)%nat ->
  encrypt_frm key up da fc data = Ok (spec_crypt_frm key up da fc data).
Proof. exact frm_eq_spec. Qed.
Print Assumptions C03_frm_eq_spec.

Theorem C03_frm_eq_spec_lorawan_sizes : forall key up da fc data,
  length da = 4%nat -> (length data <= 255)%nat ->
  encrypt_frm key up da fc data = Ok (spec_crypt_frm key up da fc data).
Proof. exact frm_eq_spec_255_bytes. Qed.
Print Assumptions C03_frm_eq_spec_lorawan_sizes.

Theorem C03_frm_length : forall key up da fc data out,
  encrypt_frm key up da fc data = Ok out -> length out = length data.
Proof. exact frm_length. Qed.
Print Assumptions C03_frm_length.

(* every length, no bound *)
Theorem C03_frm_involution : forall key up da fc data out,
  encrypt_frm key up da fc data = Ok out -> encrypt_frm key up da fc out = Ok data.
Proof. exact frm_involution. Qed.
Print Assumptions C03_frm_involution.

Theorem C03_frm_never_fails : forall key up da fc data, exists out, encrypt_frm key up da fc data = Ok out.
Proof. exact frm_never_fails. Qed.
Print Assumptions C03_frm_never_fails.

Theorem C03_fopts_eq_spec : forall key a up da fc data,
  length da = 4%nat -> (length data <= 15)%nat ->
  encrypt_fopts key a up da fc data = Ok (spec_crypt_fopts key a up da fc data).
Proof. exact fopts_eq_spec. Qed.
Print Assumptions C03_fopts_eq_spec.

Theorem C03_fopts_ok_iff_at_most_15_bytes : forall key a up da fc data,
  (exists out, encrypt_fopts key a up da fc data = Ok out) <-> (length data <= 15)%nat.
Proof. exact fopts_ok_iff. Qed.
Print Assumptions C03_fopts_ok_iff_at_most_15_bytes.

Theorem C03_fopts_too_long_is_error : forall key a up da fc data,
  (15 < length data)%nat -> encrypt_fopts key a up da fc data = Err.
Proof. exact fopts_too_long. Qed.
Print Assumptions C03_fopts_too_long_is_error.

Theorem C03_fopts_length : forall key a up da fc data out,
  encrypt_fopts key a up da fc data = Ok out -> length out = length data.
Proof. exact fopts_length. Qed.
Print Assumptions C03_fopts_length.

Theorem C03_fopts_involution : forall key a up da fc data out,
  encrypt_fopts key a up da fc data = Ok out -> encrypt_fopts key a up da fc out = Ok data.
Proof. exact fopts_involution. Qed.
Print Assumptions C03_fopts_involution.

Theorem C03_afcntdown_choice : forall up port,
  afcntdown up port = true <-> (up = false /\ exists q, port = Some q /\ 0 < q).
Proof. exact afcntdown_choice. Qed.
Print Assumptions C03_afcntdown_choice.

(* transform-or-error, the six entry points: the two exported functions are C03_frm_eq_spec +
   C03_frm_never_fails and C03_fopts_eq_spec + C03_fopts_too_long_is_error; the four methods: *)
Theorem C03_transform_or_error_EncryptFOpts : forall key p q,
  frame_devaddr_ok p -> phy_encrypt_fopts key p = Ok q ->
  exists m, pl p = PLMac m /\
    ((fopts (hdr m) = [] /\ q = p) \/
     exists b, fopts (hdr m) <> [] /\ items_marshal (fopts (hdr m)) = Ok b /\ (length b <= 15)%nat /\
       q = with_fopts p m [IData (spec_crypt_fopts key (uses_afcntdwn (is_uplink (mtype p)) (fport m))
                                                   (is_uplink (mtype p)) (devaddr (hdr m)) (fcnt (hdr m)) b)]).
Proof. exact phy_encrypt_fopts_ok. Qed.
Print Assumptions C03_transform_or_error_EncryptFOpts.

Theorem C03_transform_or_error_DecryptFOpts : forall reg key p q,
  frame_devaddr_ok p -> phy_decrypt_fopts reg key p = Ok q ->
  exists m, pl p = PLMac m /\
    ((fopts (hdr m) = [] /\ q = p) \/
     exists b cs, fopts (hdr m) <> [] /\ items_marshal (fopts (hdr m)) = Ok b /\ (length b <= 15)%nat /\
       decode_stream reg (is_uplink (mtype p))
         (spec_crypt_fopts key (uses_afcntdwn (is_uplink (mtype p)) (fport m))
                           (is_uplink (mtype p)) (devaddr (hdr m)) (fcnt (hdr m)) b) = Ok cs /\
       q = with_fopts p m cs).
Proof. exact phy_decrypt_fopts_ok. Qed.
Print Assumptions C03_transform_or_error_DecryptFOpts.

Theorem C03_transform_or_error_EncryptFRMPayload : forall key p q,
  frame_devaddr_ok p -> phy_encrypt_frm key p = Ok q ->
  exists m, pl p = PLMac m /\
    ((frm m = [] /\ q = p) \/
     exists b, frm m <> [] /\ frm_marshal (fport m) (frm m) = Ok b /\
       ((nblocks (length b) <= 255)%nat ->
        q = with_frm p m [IData (spec_crypt_frm key (is_uplink (mtype p)) (devaddr (hdr m)) (fcnt (hdr m)) b)])).
Proof. exact phy_encrypt_frm_ok. Qed.
Print Assumptions C03_transform_or_error_EncryptFRMPayload.

Theorem C03_transform_or_error_DecryptFRMPayload : forall reg key p q,
  frame_devaddr_ok p -> phy_decrypt_frm reg key p = Ok q ->
  exists m, pl p = PLMac m /\
    ((frm m = [] /\ q = p) \/
     exists b, frm m <> [] /\ frm_marshal (fport m) (frm m) = Ok b /\
       ((nblocks (length b) <= 255)%nat ->
        let e := spec_crypt_frm key (is_uplink (mtype p)) (devaddr (hdr m)) (fcnt (hdr m)) b in
        match fport m with
        | Some 0 => exists cs, decode_stream reg (is_uplink (mtype p)) e = Ok cs /\ q = with_frm p m cs
        | _ => q = with_frm p m [IData e]
        end)).
Proof. exact phy_decrypt_frm_ok. Qed.
Print Assumptions C03_transform_or_error_DecryptFRMPayload.

Theorem C03_fopts_too_long_both_methods_fail : forall reg key p m b,
  pl p = PLMac m -> items_marshal (fopts (hdr m)) = Ok b -> (15 < length b)%nat ->
  phy_encrypt_fopts key p = Err /\ phy_decrypt_fopts reg key p = Err.
Proof. exact phy_fopts_too_long. Qed.
Print Assumptions C03_fopts_too_long_both_methods_fail.

Theorem C03_methods_need_macpayload : forall reg key p,
  (forall m, pl p <> PLMac m) ->
  phy_encrypt_fopts key p = Err /\ phy_decrypt_fopts reg key p = Err /\
  phy_encrypt_frm key p = Err /\ phy_decrypt_frm reg key p = Err /\
  phy_decode_fopts reg p = Err /\ phy_decode_frm reg p = Err.
Proof. exact methods_need_macpayload. Qed.
Print Assumptions C03_methods_need_macpayload.

(* C03-2 (repaired): the decode step for the FRMPayload is refused unless FPort = 0 *)
Theorem C03_decode_frm_refuses_application_port : forall reg p m,
  pl p = PLMac m -> frm m <> [] -> fport m <> Some 0 -> phy_decode_frm reg p = Err.
Proof. exact phy_decode_frm_refuses_application_port. Qed.
Print Assumptions C03_decode_frm_refuses_application_port.

Theorem C03_decode_frm_ok : forall reg p q,
  phy_decode_frm reg p = Ok q ->
  exists m, pl p = PLMac m /\
    ((frm m = [] /\ q = p) \/
     (fport m = Some 0 /\ exists b cs, frm m = [IData b] /\ decode_stream reg (is_uplink (mtype p)) b = Ok cs /\
                                        q = with_frm p m cs)).
Proof. exact phy_decode_frm_ok. Qed.
Print Assumptions C03_decode_frm_ok.

(* non-vacuity: 40 bytes (3 keystream blocks, the third partial), FCnt above 2^16, downlink *)
Definition ex_key : list N := [1; 2; 3; 4; 5; 6; 7; 8; 9; 10; 11; 12; 13; 14; 15; 16].
Definition ex_data : list N := map N.of_nat (seq 0 40).
Definition ex_out : list N :=
  Eval vm_compute in match encrypt_frm ex_key false [1; 2; 3; 4] 70000 ex_data with Ok o => o | _ => [] end.
Example C03_example_nonvacuous :
  encrypt_frm ex_key false [1; 2; 3; 4] 70000 ex_data = Ok ex_out /\ ex_out <> ex_data /\
  length ex_out = 40%nat /\ encrypt_frm ex_key false [1; 2; 3; 4] 70000 ex_out = Ok ex_data /\
  ex_out = spec_crypt_frm ex_key false [1; 2; 3; 4] 70000 ex_data /\
  (* the third block is not encrypted with the first block's keystream *)
  firstn 8 (xor_bytes (skipn 32 ex_out) (skipn 32 ex_data)) <> firstn 8 (xor_bytes ex_out ex_data).
Proof. vm_compute. repeat split; try reflexivity; discriminate. Qed.
