(* Model of the data-frame MIC functions of phypayload.go:
     calculateUplinkDataMIC    (phypayload.go:687-786)
     calculateDownlinkDataMIC  (phypayload.go:788-852)
     SetUplinkDataMIC / ValidateUplinkDataMIC / ValidateUplinkDataMICF /
     SetDownlinkDataMIC / ValidateDownlinkDataMIC (phypayload.go:173-238).

   Conventions: a MIC is a byte list (the Go [4]byte); keys are byte lists (the
   Go [16]byte); confFCnt is a uint32, txDR / txCh are uint8 (the model takes
   any N and writes the wrap-arounds of the code explicitly).  Model file: no
   proofs here (MICProofs.v). *)
From Coq Require Import List NArith ZArith Bool.
From LW Require Import Base.Outcome Base.Bytes Crypto.AES Crypto.CMAC Mac.Commands Mac.Stream Frame.Model.
Import ListNotations.
Open Scope N_scope.

(* type MACVersion byte: LoRaWAN1_0 = 0; every other value takes the 1.1 branch
   (`if macVersion == LoRaWAN1_0 {...} else {...}`) *)
Inductive macver := LoRaWAN1_0 | LoRaWAN1_1.

Definition macver_eqb (a b : macver) : bool :=
  match a, b with LoRaWAN1_0, LoRaWAN1_0 | LoRaWAN1_1, LoRaWAN1_1 => true | _, _ => false end.

(* copy(dst[6:10], b) into a zeroed buffer: the first four bytes of b, zero
   filled (b always has four bytes in Go: DevAddr is [4]byte) *)
Definition copy4 (b : list N) : list N := firstn 4 (b ++ [0; 0; 0; 0]).

(* DevAddr.MarshalBinary: the array reversed *)
Definition devaddr_wire (da : list N) : list N := copy4 (rev da).

(* the bytes the MIC is computed over: MHDR | MACPayload.MarshalBinary() *)
Definition mic_bytes (p : phy) (m : macpayload) : outcome (list N) :=
  do b <- mac_marshal m;
  Ok (mhdr_marshal (mtype p) (major p) :: b).

(* byte(len(micBytes)) *)
Definition len_byte (bs : list N) : N := N.of_nat (length bs) mod 256.

Definition up_b0 (m : macpayload) (micBytes : list N) : list N :=
  [73; 0; 0; 0; 0; 0] ++ devaddr_wire (devaddr (hdr m)) ++ le_bytes 4 (fcnt (hdr m)) ++ [0; len_byte micBytes].

Definition up_b1 (conf txDR txCh : N) (m : macpayload) (micBytes : list N) : list N :=
  [73] ++ le_bytes 2 conf ++ [txDR; txCh; 0] ++ devaddr_wire (devaddr (hdr m))
       ++ le_bytes 4 (fcnt (hdr m)) ++ [0; len_byte micBytes].

Definition calc_up_mic (ver : macver) (confFCnt txDR txCh : N) (fKey sKey : list N) (p : phy)
  : outcome (list N) :=
  match pl p with
  | PLMac m =>
    (* `if !ACK { confFCnt = 0 }; confFCnt = confFCnt % (1 << 16)` *)
    let conf := (if ack (fc (hdr m)) then confFCnt else 0) mod 65536 in
    do micBytes <- mic_bytes p m;
    (* both CMACs are computed by the code; only the ones that reach the result are evaluated here *)
    let cmacF := cmac fKey (up_b0 m micBytes ++ micBytes) in
    match ver with
    | LoRaWAN1_0 => Ok (firstn 4 cmacF)
    | LoRaWAN1_1 =>
      let cmacS := cmac sKey (up_b1 conf txDR txCh m micBytes ++ micBytes) in
      Ok (firstn 2 cmacS ++ firstn 2 cmacF)
    end
  | _ => Err     (* nil MACPayload, or not a *MACPayload *)
  end.

Definition down_b0 (conf : N) (m : macpayload) (micBytes : list N) : list N :=
  [73] ++ le_bytes 2 conf ++ [0; 0; 1] ++ devaddr_wire (devaddr (hdr m))
       ++ le_bytes 4 (fcnt (hdr m)) ++ [0; len_byte micBytes].

Definition calc_down_mic (ver : macver) (confFCnt : N) (sKey : list N) (p : phy) : outcome (list N) :=
  match pl p with
  | PLMac m =>
    (* `if macVersion == LoRaWAN1_0 || !ACK { confFCnt = 0 }; confFCnt % (1 << 16)` *)
    let conf := (if macver_eqb ver LoRaWAN1_0 || negb (ack (fc (hdr m))) then 0 else confFCnt) mod 65536 in
    do micBytes <- mic_bytes p m;
    Ok (firstn 4 (cmac sKey (down_b0 conf m micBytes ++ micBytes)))
  | _ => Err
  end.

Definition set_mic (p : phy) (m : list N) : phy := mkPHY (mtype p) (major p) (pl p) m.

Definition set_up_mic ver confFCnt txDR txCh fKey sKey (p : phy) : outcome phy :=
  do m <- calc_up_mic ver confFCnt txDR txCh fKey sKey p; Ok (set_mic p m).

(* `p.MIC == mic` on [4]byte *)
Definition validate_up_mic ver confFCnt txDR txCh fKey sKey (p : phy) : outcome bool :=
  do m <- calc_up_mic ver confFCnt txDR txCh fKey sKey p; Ok (bytes_eqb (mic p) m).

(* calculateUplinkDataMIC(LoRaWAN1_1, 0, 0, 0, fNwkSIntKey, fNwkSIntKey); bytes.Equal(p.MIC[2:], mic[2:]) *)
Definition validate_up_micf (fKey : list N) (p : phy) : outcome bool :=
  do m <- calc_up_mic LoRaWAN1_1 0 0 0 fKey fKey p; Ok (bytes_eqb (skipn 2 (mic p)) (skipn 2 m)).

Definition set_down_mic ver confFCnt sKey (p : phy) : outcome phy :=
  do m <- calc_down_mic ver confFCnt sKey p; Ok (set_mic p m).

Definition validate_down_mic ver confFCnt sKey (p : phy) : outcome bool :=
  do m <- calc_down_mic ver confFCnt sKey p; Ok (bytes_eqb (mic p) m).
