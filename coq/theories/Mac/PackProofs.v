(* Generic facts about the layout interpreter: unpack inverts pack, and the
   byte-level encode/decode of a layout are inverse on in-width field values. *)
From Coq Require Import List NArith ZArith Bool Lia.
From Coq Require Import ZifyN ZifyNat ZifyBool.
From LW Require Import Base.Outcome Base.Bytes Mac.Commands Mac.Spec.
Import ListNotations.
Open Scope N_scope.

Lemma unpack_pack L : forall vals, in_widths L vals = true -> unpack L (pack L vals) = vals.
Proof.
  induction L as [|f L IH]; intros vals H.
  - destruct vals; [reflexivity|discriminate].
  - destruct f as [w|w]; cbn [pack unpack in_widths] in *.
    + destruct vals as [|v vs]; [discriminate|].
      apply andb_true_iff in H as [Hv Hr]. apply N.ltb_lt in Hv.
      assert (Hp : 2 ^ w <> 0) by (apply N.pow_nonzero; lia).
      rewrite (N.mod_small v) by assumption.
      f_equal.
      * rewrite (N.mul_comm (2 ^ w)), N.mod_add by assumption. now apply N.mod_small.
      * rewrite (N.mul_comm (2 ^ w)), N.div_add by assumption.
        rewrite N.div_small by assumption. rewrite N.add_0_l. now apply IH.
    + assert (Hp : 2 ^ w <> 0) by (apply N.pow_nonzero; lia).
      rewrite N.mul_comm, N.div_mul by assumption. now apply IH.
Qed.

Lemma pack_lt L : forall vals, pack L vals < 2 ^ bit_size L.
Proof.
  induction L as [|f L IH]; intros vals; cbn [pack bit_size fold_right].
  - simpl. lia.
  - fold (bit_size L). destruct f as [w|w]; cbn [fld_width]; rewrite N.pow_add_r.
    + destruct vals as [|v vs].
      * assert (0 < 2 ^ w * 2 ^ bit_size L); [|lia].
        apply N.mul_pos_pos; apply N.neq_0_lt_0; apply N.pow_nonzero; lia.
      * specialize (IH vs).
        assert (Hm : v mod 2 ^ w < 2 ^ w) by (apply N.mod_lt; apply N.pow_nonzero; lia).
        nia.
    + specialize (IH vals). 
      assert (0 < 2 ^ w) by (apply N.neq_0_lt_0; apply N.pow_nonzero; lia). nia.
Qed.

Lemma spec_decode_encode L vals :
  bit_size L = 8 * N.of_nat (byte_size L) -> in_widths L vals = true ->
  spec_decode L (spec_encode L vals) = vals.
Proof.
  intros Hs Hw. unfold spec_decode, spec_encode.
  rewrite le_bytes_small.
  - now apply unpack_pack.
  - replace (256 ^ N.of_nat (byte_size L)) with (2 ^ bit_size L).
    + apply pack_lt.
    + rewrite Hs. change 256 with (2 ^ 8). now rewrite <- N.pow_mul_r.
Qed.

Lemma spec_encode_length L vals : length (spec_encode L vals) = byte_size L.
Proof. apply le_bytes_length. Qed.

Lemma spec_encode_bytes L vals : Forall (fun b => b < 256) (spec_encode L vals).
Proof. apply le_bytes_ok. Qed.

(* kinds without whole-octet legacy values are read through their layout alone *)
Lemma spec_decode_k_plain k bs : legacy_octets k = [] -> spec_decode_k k bs = spec_decode (layout_of k) bs.
Proof. intros H. unfold spec_decode_k, is_legacy. rewrite H. destruct bs as [|b [|]]; reflexivity. Qed.

Lemma spec_encode_k_plain k vals : legacy_octets k = [] -> spec_encode_k k vals = spec_encode (layout_of k) vals.
Proof. intros H. unfold spec_encode_k, is_legacy. rewrite H. destruct vals as [|b [|]]; reflexivity. Qed.

Lemma spec_encode_k_length k vals : k <> KProprietary -> length (spec_encode_k k vals) = byte_size (layout_of k).
Proof.
  intros Hk. unfold spec_encode_k. destruct vals as [|v [|]]; try apply spec_encode_length.
  destruct (is_legacy k v) eqn:E; [|apply spec_encode_length].
  destruct k; try discriminate E; try congruence. reflexivity.
Qed.

Lemma spec_encode_k_bytes k vals : Forall (fun b => b < 256) (spec_encode_k k vals).
Proof.
  unfold spec_encode_k. destruct vals as [|v [|]]; try apply spec_encode_bytes.
  destruct (is_legacy k v) eqn:E; [|apply spec_encode_bytes].
  destruct k; try discriminate E. unfold is_legacy in E. cbn [legacy_octets existsb] in E.
  rewrite orb_false_r in E. apply N.eqb_eq in E. subst. constructor; [reflexivity|constructor].
Qed.

Lemma layout_only_kinds k x : k <> KDutyCycleReq ->
  spec_encode_k k x = spec_encode (layout_of k) x /\ spec_decode_k k x = spec_decode (layout_of k) x.
Proof.
  intros Hk. assert (H : legacy_octets k = []) by (destruct k; congruence || reflexivity).
  split; [now apply spec_encode_k_plain | now apply spec_decode_k_plain].
Qed.
