(* C13 - band data-rate, channel-plan and max-payload tables are closed and
   consistent.
   Statement file: each theorem is closed by [exact] of a lemma proved in
   theories/Band/TablesProofs.v (Rx1Proofs.v), followed by Print Assumptions.
   [band_configs] = the tables of band.GetConfig(name, repeater, dwell) for the 14
   band names x {false,true} x {no limit, 400 ms}, dumped from the live code on
   every run (LWGen.BandGen); [get_*] = the model of the lookup code
   (Band/Lookup.v); [dr_defined*], [spec_*], [region_of], [version_query_sane] = the
   specification (Band/Rx1Spec.v, Band/TablesSpec.v, Band/Regional.v);
   [c13_known_zero_cells], [c12_known_cells] = the recorded findings
   (known/C13.json, known/C12.json -> LWGen.KnownGen).
   Version / revision arguments range over ALL strings, data-rate indices over all of Z. *)
From Coq Require Import List ZArith Bool String.
From LW Require Import Base.Outcome Band.Types Band.Lookup Band.Regional Band.Rx1Spec Band.TablesSpec
     Band.Rx1Checks Band.Rx1BaseProofs Band.TablesChecks Band.TablesProofs Band.AddChannelProofs Band.AliasProofs.
From LWGen Require Import BandGen KnownGen.
Import ListNotations.
Open Scope Z_scope.

(* ---- closure: every data-rate index the band refers to is defined ------------- *)

(* channel DR ranges (uplink channels: defined for uplink; downlink channels: defined for
   downlink), the enabled uplink data-rates, the CFList DR range *)
Theorem C13_closure_channels : forall c, In c band_configs ->
  let t := c_tab c in
  (forall ch, In ch (t_up t) -> ch_min ch <= ch_max ch /\
              forall d, ch_min ch <= d <= ch_max ch -> dr_defined_up t d = true)
  /\ (forall ch, In ch (t_down t) -> ch_min ch <= ch_max ch /\
                 forall d, ch_min ch <= d <= ch_max ch -> dr_defined_down t d = true)
  /\ (forall d, In d (get_enabled_uplink_data_rates t) -> dr_defined_up t d = true)
  /\ (t_extra t = true -> t_cfmin t <= t_cfmax t /\
      forall d, t_cfmin t <= d <= t_cfmax t -> dr_defined_up t d = true).
Proof. exact closure. Qed.
Print Assumptions C13_closure_channels.

(* a band object after ANY history of AddChannel(frequency, MinDR, MaxDR) calls (refused calls
   change nothing; a call is accepted only with a range of uplink data-rates of the band and a
   frequency the mac-commands can carry): the enabled uplink data-rates are exactly the union of
   the DR ranges of its uplink channels, strictly ascending; every uplink channel's DR range
   consists of defined uplink data-rates; every data-rate handed out is a defined uplink
   data-rate (no index from a gap between two ranges, e.g. IN865 DR6 between [0..5] and [7..7]) *)
Theorem C13_enabled_drs_after_add_channels : forall c, In c band_configs ->
  forall ops : list (Z * Z * Z),
  let t' := fst (add_channels (c_tab c) ops) in
  (forall d, In d (get_enabled_uplink_data_rates t') <->
             exists ch, In ch (t_up t') /\ ch_min ch <= d <= ch_max ch)
  /\ strictly_ascending (get_enabled_uplink_data_rates t') = true
  /\ (forall ch, In ch (t_up t') -> ch_min ch <= ch_max ch /\
                 forall d, ch_min ch <= d <= ch_max ch -> dr_defined_up t' d = true)
  /\ (forall d, In d (get_enabled_uplink_data_rates t') -> dr_defined_up t' d = true).
Proof. exact enabled_drs_after_add_channels. Qed.
Print Assumptions C13_enabled_drs_after_add_channels.

(* RX1 results (all integer arguments) - except the cells recorded under C12-3 / C13-3 *)
Theorem C13_closure_rx1 : forall c, In c band_configs -> forall dr off r : Z,
  get_rx1_dr c dr off = Ok r ->
  dr_defined_down (c_tab c) r = true \/ In (c_name c, dr, off) c12_known_cells.
Proof. exact rx1_defined. Qed.
Print Assumptions C13_closure_rx1.

Theorem C13_closure_rx1_refuted : forall name dr off, In (name, dr, off) c12_known_cells ->
  exists c r, In c band_configs /\ c_name c = name /\ get_rx1_dr c dr off = Ok r
              /\ dr_defined_down (c_tab c) r = false.
Proof. exact rx1_known_refuted. Qed.
Print Assumptions C13_closure_rx1_refuted.

(* RX2 default data-rate *)
Theorem C13_closure_rx2 : forall c, In c band_configs ->
  get_defaults c = c_defaults c /\ dr_defined_down (c_tab c) (d_rx2_dr (get_defaults c)) = true.
Proof.
  intros c Hc. destruct (region_known c Hc) as [reg Hreg].
  destruct (rx2_defaults c Hc reg Hreg) as [H1 [_ H3]]. now split.
Qed.
Print Assumptions C13_closure_rx2.

(* ---- index <-> parameters ------------------------------------------------------- *)

(* looking a defined data-rate up by its parameters in a direction it supports returns
   the same index *)
Theorem C13_dr_roundtrip : forall c, In c band_configs -> forall dr d,
  get_data_rate (c_tab c) dr = Ok d ->
  (dr_up d = true -> get_data_rate_index (c_tab c) true d = Ok dr)
  /\ (dr_down d = true -> get_data_rate_index (c_tab c) false d = Ok dr).
Proof. exact dr_roundtrip. Qed.
Print Assumptions C13_dr_roundtrip.

(* the Go code ranges over a map; for ANY query parameters at most one index can match
   in a given direction, so the iteration order cannot change the result *)
Theorem C13_dr_index_order_irrelevant : forall c, In c band_configs -> forall uplink q i j,
  In i (data_rate_matches (c_tab c) uplink q) -> In j (data_rate_matches (c_tab c) uplink q) -> i = j.
Proof. exact dr_index_order_irrelevant. Qed.
Print Assumptions C13_dr_index_order_irrelevant.

(* ---- max payload sizes ------------------------------------------------------------ *)

(* under latest/latest every defined data-rate has a size *)
Theorem C13_latest_total : forall c, In c band_configs -> forall dr,
  dr_defined (c_tab c) dr = true -> exists s, get_max_payload (c_tab c) latest latest dr = Ok s.
Proof. exact latest_total. Qed.
Print Assumptions C13_latest_total.

(* every (version, revision) combination resolves - ALL strings, known or not: some size
   table is selected, and every data-rate the region lists since its first release
   ([must_have_size]: defined, not LR-FHSS, not CN470 DR6/7, not AU915 DR5/6) has a size.
   A version-level map without a "latest" entry would break this for every revision string
   that is not one of its keys. *)
Theorem C13_every_revision_resolves : forall c, In c band_configs -> forall ver rev : string,
  exists st, select_size_table (c_tab c) ver rev = Some st.
Proof. exact every_revision_resolves. Qed.
Print Assumptions C13_every_revision_resolves.

Theorem C13_every_revision_total : forall c, In c band_configs ->
  forall reg, region_of (c_name c) = Some reg -> forall (ver rev : string) (dr : Z),
  must_have_size reg (t_drs (c_tab c)) dr = true ->
  exists s, get_max_payload (c_tab c) ver rev dr = Ok s.
Proof. exact every_revision_total. Qed.
Print Assumptions C13_every_revision_total.

(* unknown version / revision strings resolve to the latest table - any tables, any strings *)
Theorem C13_unknown_version_is_latest : forall t ver rev dr,
  sfind ver (t_maxpl t) = None -> get_max_payload t ver rev dr = get_max_payload t latest rev dr.
Proof. exact max_payload_unknown_version. Qed.
Print Assumptions C13_unknown_version_is_latest.

Theorem C13_unknown_revision_is_latest : forall t ver rev dr,
  (forall revmap, sfind_or_latest ver (t_maxpl t) = Some revmap -> sfind rev revmap = None) ->
  get_max_payload t ver rev dr = get_max_payload t ver latest dr.
Proof. exact max_payload_unknown_revision. Qed.
Print Assumptions C13_unknown_revision_is_latest.

Theorem C13_max_payload_no_panic : forall t ver rev dr, get_max_payload t ver rev dr <> Panic.
Proof. exact max_payload_no_panic. Qed.
Print Assumptions C13_max_payload_no_panic.

(* every size the lookup can return (all version / revision strings, all integers)
   satisfies M = N + 8 with 0 <= N <= 242 - except the recorded (0,0) cells *)
Theorem C13_size_well_formed : forall c, In c band_configs -> forall ver rev dr m n,
  get_max_payload (c_tab c) ver rev dr = Ok (m, n) ->
  (m = n + 8 /\ 0 <= n <= 242)
  \/ (m = 0 /\ n = 0 /\ In (c_name c, c_dwell c, dr) c13_known_zero_cells).
Proof. exact max_payload_size_wf. Qed.
Print Assumptions C13_size_well_formed.

(* ... and every LISTED size, reachable or not *)
Theorem C13_listed_size_well_formed : forall c, In c band_configs -> forall st dr m n,
  In st (all_size_tables (c_tab c)) -> In (dr, (m, n)) st ->
  (m = n + 8 /\ 0 <= n <= 242)
  \/ (m = 0 /\ n = 0 /\ In (c_name c, c_dwell c, dr) c13_known_zero_cells).
Proof. exact listed_size_wf. Qed.
Print Assumptions C13_listed_size_well_formed.

(* each recorded (0,0) cell is a real violation of M = N + 8: the lookup returns it *)
Theorem C13_size_well_formed_refuted : forall name dwell dr, In (name, dwell, dr) c13_known_zero_cells ->
  exists c, In c band_configs /\ c_name c = name /\ c_dwell c = dwell
            /\ get_max_payload (c_tab c) latest latest dr = Ok (0, 0).
Proof. exact zero_cells_refuted. Qed.
Print Assumptions C13_size_well_formed_refuted.

(* repeater-compatible sizes never exceed the non-repeater ones: same band, same dwell
   time, ANY version string and ANY revision string (the same query on both objects) *)
Theorem C13_repeater_le_non_repeater : forall cr cn, In cr band_configs -> In cn band_configs ->
  c_name cr = c_name cn -> c_dwell cr = c_dwell cn -> c_rep cr = true -> c_rep cn = false ->
  forall ver rev dr m n,
  get_max_payload (c_tab cr) ver rev dr = Ok (m, n) ->
  exists m' n', get_max_payload (c_tab cn) ver rev dr = Ok (m', n') /\ m <= m' /\ n <= n'.
Proof. exact repeater_le_non_repeater. Qed.
Print Assumptions C13_repeater_le_non_repeater.

(* the first-level keys of every max-payload table are protocol versions (or "latest"), the
   second-level keys regional-parameters revisions (or "latest") - so, with the two fallback
   theorems above, every string that is NOT a protocol version resolves like "latest" *)
Theorem C13_table_keys : forall c, In c band_configs ->
  (forall v, In v (skeys (t_maxpl (c_tab c))) -> In v (latest :: protocol_versions))
  /\ (forall r, In r (rev_keys (c_tab c)) -> In r (latest :: reg_param_revisions)).
Proof. exact table_keys. Qed.
Print Assumptions C13_table_keys.

(* sizes never shrink as the spreading factor decreases at equal bandwidth (LoRa data-rates
   usable in a common direction, any version / revision strings) *)
Theorem C13_sf_monotone : forall c, In c band_configs -> forall ver rev dr1 dr2 s1 s2 d1 d2,
  get_max_payload (c_tab c) ver rev dr1 = Ok s1 ->
  get_max_payload (c_tab c) ver rev dr2 = Ok s2 ->
  zfind dr1 (t_drs (c_tab c)) = Some d1 -> zfind dr2 (t_drs (c_tab c)) = Some d2 ->
  is_lora d1 = true -> is_lora d2 = true -> dr_bw d1 = dr_bw d2 -> share_direction d1 d2 = true ->
  dr_sf d2 < dr_sf d1 ->
  fst s1 <= fst s2 /\ snd s1 <= snd s2.
Proof. exact sf_monotone. Qed.
Print Assumptions C13_sf_monotone.

(* ---- Regional Parameters values ------------------------------------------------------ *)

(* data-rate definitions (incl. direction), default uplink / downlink channels (frequency,
   DR range, enabled, not custom), TX power step of -2 dB per index; RX2 defaults *)
Theorem C13_regional_parameters : forall c, In c band_configs ->
  forall reg, region_of (c_name c) = Some reg ->
  let t := c_tab c in
  t_drs t = spec_data_rates reg
  /\ map chan3_of (t_up t) = spec_uplink_channels reg
  /\ map chan3_of (t_down t) = spec_downlink_channels reg
  /\ (forall ch, In ch (t_up t ++ t_down t) -> ch_enabled ch = true /\ ch_custom ch = false)
  /\ (forall i v, get_tx_power_offset t i = Ok v -> v = - 2 * i).
Proof. exact regional. Qed.
Print Assumptions C13_regional_parameters.

(* max-payload VALUES, for what was transcribed with certainty: EU868 and US915 under
   LoRaWAN 1.0.2 rev A/B, 1.0.3 rev A, 1.1 rev A/B (Regional.spec_max_payload) *)
Theorem C13_max_payload_values : forall c, In c band_configs -> forall reg, region_of (c_name c) = Some reg ->
  forall ver rev dr s, spec_max_payload reg (c_rep c) ver rev dr = Some s ->
  get_max_payload (c_tab c) ver rev dr = Ok s.
Proof. exact max_payload_values. Qed.
Print Assumptions C13_max_payload_values.

Theorem C13_rx2_defaults : forall c, In c band_configs -> forall reg, region_of (c_name c) = Some reg ->
  get_defaults c = c_defaults c /\ get_defaults c = spec_defaults reg
  /\ dr_defined_down (c_tab c) (d_rx2_dr (get_defaults c)) = true.
Proof. exact rx2_defaults. Qed.
Print Assumptions C13_rx2_defaults.

(* the deprecated, still exported band names (AS_923, AU_915_928, CN_470_510, ... -
   [deprecated_names]): what band.GetConfig returns for (deprecated name, repeater, dwell) is, in
   every table and field but the name it was asked for, the configuration of the common name with
   the same arguments - so every statement of this file holds for those objects too - and every
   deprecated name x repeater x dwell time is among the dumped objects *)
Theorem C13_deprecated_names : forall ac, In ac band_alias_configs ->
  exists common c, In (c_name ac, common) deprecated_names /\ In c band_configs /\ c_name c = common
                   /\ c_rep c = c_rep ac /\ c_dwell c = c_dwell ac /\ ac = with_name c (c_name ac).
Proof. exact deprecated_name_same_band. Qed.
Print Assumptions C13_deprecated_names.

Theorem C13_deprecated_names_covered : forall name common rep dw, In (name, common) deprecated_names ->
  exists ac, In ac band_alias_configs /\ c_name ac = name /\ c_rep ac = rep /\ c_dwell ac = dw.
Proof. exact deprecated_names_covered. Qed.
Print Assumptions C13_deprecated_names_covered.

(* non-vacuity *)
Example C13_example :
  List.length band_configs = 56%nat
  /\ (exists c, In c band_configs /\ c_name c = "EU868"%string /\ c_rep c = false
                /\ get_max_payload (c_tab c) "1.0.2" "B" 3 = Ok (123, 115)
                /\ get_max_payload (c_tab c) "no such version" "nor revision" 3 = Ok (123, 115)
                /\ get_max_payload (c_tab c) "1.0.2" "B" 12 = Err
                /\ get_data_rate_index (c_tab c) true (lora false false 7 250) = Ok 6
                /\ dr_defined (c_tab c) 11 = true
                /\ must_have_size REU868 (t_drs (c_tab c)) 7 = true
                /\ must_have_size REU868 (t_drs (c_tab c)) 8 = false
                /\ get_enabled_uplink_data_rates (fst (add_channels (c_tab c) [(867100000, 7, 7)]))
                   = [0; 1; 2; 3; 4; 5; 7]).
Proof.
  assert (L : List.length band_configs = 56%nat) by (vm_compute; reflexivity).
  pose (d := mkCfg "" false false KEU868 false 0 "" (mkDefaults 0 0 0 0 0 0) (mkTables false 0 0 [] [] [] [] [] [])).
  split; [exact L|].
  exists (nth 32 band_configs d). split; [apply nth_In; rewrite L; repeat constructor|].
  vm_compute. repeat split; reflexivity.
Qed.
