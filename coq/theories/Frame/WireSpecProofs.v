From Coq Require Import List NArith ZArith Bool Lia.
From Coq Require Import ZifyN ZifyNat ZifyBool.
From LW Require Import Base.Outcome Base.Bytes Mac.Commands Mac.Spec Mac.Stream Mac.ByteLemmas Frame.Model Frame.WireSpec.
Import ListNotations.
Open Scope N_scope.
Ltac Zify.zify_post_hook ::= Z.div_mod_to_equations.

(* ---- single-octet headers: exhaustive over their finite domains ---- *)
Lemma mhdr_is_spec mt mj : mt < 8 -> mj < 4 -> mhdr_marshal mt mj = spec_mhdr mt mj.
Proof.
  intros H1 H2. apply N.eqb_eq.
  apply (sweep2 8 4 (fun mt mj => mhdr_marshal mt mj =? spec_mhdr mt mj)); [vm_compute; reflexivity|exact H1|exact H2].
Qed.

Lemma mhdr_decode_is_spec b : b < 256 ->
  [N.land b 3; N.shiftr b 5] = unpack L_MHDR b.
Proof.
  intros H.
  assert (S : forallb (fun b => list_eqb N.eqb [N.land b 3; N.shiftr b 5] (unpack L_MHDR b)) (range 256) = true) by (vm_compute; reflexivity).
  apply bytes_eqb_eq. exact (sweep1 256 _ S b H).
Qed.

Definition all_fctrl : list fctrl :=
  flat_map (fun n => flat_map (fun f => [mkFCtrl (N.testbit f 0) (N.testbit f 1) (N.testbit f 2) (N.testbit f 3) (N.testbit f 4) n])
                              (range 32)) (range 16).

Lemma fctrl_sweep :
  forallb (fun c => outcome_eqb N.eqb (fctrl_marshal c) (Ok (spec_fctrl c))) all_fctrl = true.
Proof. vm_compute. reflexivity. Qed.

Lemma fctrl_is_spec c : foptslen c < 16 -> fctrl_marshal c = Ok (spec_fctrl c).
Proof.
  intros H. destruct c as [a b c d e n]. cbn [foptslen] in H.
  assert (Hin : In (mkFCtrl a b c d e n) all_fctrl).
  { unfold all_fctrl. apply in_flat_map. exists n. split; [apply in_range; exact H|].
    apply in_flat_map.
    exists (b2f a + 2 * b2f b + 4 * b2f c + 8 * b2f d + 16 * b2f e). split.
    - apply in_range. destruct a, b, c, d, e; cbn; lia.
    - left. destruct a, b, c, d, e; reflexivity. }
  pose proof fctrl_sweep as S. rewrite forallb_forall in S. specialize (S _ Hin).
  destruct (fctrl_marshal _) as [x| | |]; cbn in S; try discriminate. f_equal. now apply N.eqb_eq.
Qed.

Definition fctrl_eqb' (a b : fctrl) :=
  Bool.eqb (adr a) (adr b) && Bool.eqb (adrackreq a) (adrackreq b) && Bool.eqb (ack a) (ack b)
  && Bool.eqb (fpending a) (fpending b) && Bool.eqb (classb a) (classb b) && (foptslen a =? foptslen b).

Lemma fctrl_decode_is_spec b : b < 256 -> fctrl_unmarshal b = spec_fctrl_decode b.
Proof.
  intros H.
  assert (S : forallb (fun b => fctrl_eqb' (fctrl_unmarshal b) (spec_fctrl_decode b)) (range 256) = true) by (vm_compute; reflexivity).
  pose proof (sweep1 256 _ S b H) as E. cbn beta in E.
  destruct (fctrl_unmarshal b) as [a1 a2 a3 a4 a5 a6], (spec_fctrl_decode b) as [b1 b2 b3 b4 b5 b6].
  unfold fctrl_eqb' in E. cbn in E.
  repeat match goal with X : _ && _ = true |- _ => apply andb_true_iff in X; destruct X end.
  repeat match goal with X : Bool.eqb _ _ = true |- _ => apply eqb_prop in X end.
  match goal with X : (_ =? _) = true |- _ => apply N.eqb_eq in X end. now subst.
Qed.

Lemma dlsettings_is_spec optneg rx2 rx1 : rx2 < 16 -> rx1 < 8 ->
  enc_dlsettings optneg rx2 rx1 = Ok (spec_dlsettings optneg rx2 rx1).
Proof.
  intros H1 H2.
  assert (S : forallb (fun o => forallb (fun a => forallb (fun b =>
      outcome_eqb N.eqb (enc_dlsettings o a b) (Ok (spec_dlsettings o a b))) (range 8)) (range 16)) [true; false] = true)
    by (vm_compute; reflexivity).
  rewrite forallb_forall in S. assert (Ho : In optneg [true; false]) by (destruct optneg; simpl; auto).
  specialize (S _ Ho). pose proof (sweep2 16 8 _ S rx2 rx1 H1 H2) as E. cbn beta in E.
  destruct (enc_dlsettings _ _ _) as [x| | |]; cbn in E; try discriminate. f_equal. now apply N.eqb_eq.
Qed.

Lemma dlsettings_decode_is_spec b : b < 256 ->
  dec_dlsettings b = (f2b (nth 2 (unpack L_DLSettings b) 0), nth 0 (unpack L_DLSettings b) 0, nth 1 (unpack L_DLSettings b) 0).
Proof.
  intros H.
  assert (S : forallb (fun b => let '(o, a, c) := dec_dlsettings b in
     Bool.eqb o (f2b (nth 2 (unpack L_DLSettings b) 0)) && (a =? nth 0 (unpack L_DLSettings b) 0) && (c =? nth 1 (unpack L_DLSettings b) 0)) (range 256) = true)
    by (vm_compute; reflexivity).
  pose proof (sweep1 256 _ S b H) as E. cbn beta in E.
  destruct (dec_dlsettings b) as [[o a] c].
  apply andb_true_iff in E as [E E3]. apply andb_true_iff in E as [E1 E2].
  apply eqb_prop in E1. apply N.eqb_eq in E2. apply N.eqb_eq in E3. now subst.
Qed.

(* ---- multi-octet structures: little-endian concatenation of fields ---- *)
Lemma le_bytes_app a b x y : x < 256 ^ N.of_nat a ->
  le_bytes (a + b) (x + 256 ^ N.of_nat a * y) = le_bytes a x ++ le_bytes b y.
Proof.
  revert x. induction a as [|a IH]; intros x Hx.
  - cbn [Nat.add le_bytes app]. change (N.of_nat 0) with 0 in *. rewrite N.pow_0_r in *. replace x with 0 by lia. f_equal. lia.
  - cbn [Nat.add le_bytes app].
    replace (N.of_nat (S a)) with (N.succ (N.of_nat a)) in * by lia. rewrite N.pow_succ_r in * by lia.
    assert (Hp : 0 < 256 ^ N.of_nat a) by (apply N.neq_0_lt_0, N.pow_nonzero; lia).
    f_equal.
    + replace (x + 256 * 256 ^ N.of_nat a * y) with (x + (256 ^ N.of_nat a * y) * 256) by lia.
      rewrite N.mod_add by lia. reflexivity.
    + replace ((x + 256 * 256 ^ N.of_nat a * y) / 256) with (x / 256 + 256 ^ N.of_nat a * y).
      * apply IH. apply N.div_lt_upper_bound; lia.
      * replace (x + 256 * 256 ^ N.of_nat a * y) with (x + (256 ^ N.of_nat a * y) * 256) by lia.
        rewrite N.div_add by lia. reflexivity.
Qed.

Lemma rev_is_le (a : list N) : Forall (fun b => b < 256) a -> rev a = le_bytes (length a) (id_val a).
Proof.
  intros H. unfold id_val, be_val. rewrite <- (rev_length a). symmetry. apply le_bytes_val. now apply Forall_rev.
Qed.

Lemma id_val_lt (a : list N) : Forall (fun b => b < 256) a -> id_val a < 256 ^ N.of_nat (length a).
Proof. intros H. unfold id_val, be_val. rewrite <- (rev_length a). apply le_val_lt. now apply Forall_rev. Qed.

(* JoinRequest: JoinEUI | DevEUI | DevNonce, each little-endian *)
Theorem joinrequest_is_spec je de dn :
  length je = 8%nat -> length de = 8%nat -> Forall (fun b => b < 256) je -> Forall (fun b => b < 256) de -> dn < 65536 ->
  payload_marshal (PLJoinRequest je de dn) = Ok (spec_encode L_JoinRequest [id_val je; id_val de; dn]).
Proof.
  intros L1 L2 B1 B2 Hn. cbn [payload_marshal]. f_equal.
  rewrite (rev_is_le je B1), (rev_is_le de B2), L1, L2.
  pose proof (id_val_lt je B1) as V1. pose proof (id_val_lt de B2) as V2. rewrite L1 in V1. rewrite L2 in V2.
  unfold spec_encode. change (byte_size L_JoinRequest) with (8 + (8 + 2))%nat.
  replace (pack L_JoinRequest [id_val je; id_val de; dn])
    with (id_val je + 256 ^ N.of_nat 8 * (id_val de + 256 ^ N.of_nat 8 * dn)).
  - rewrite le_bytes_app by exact V1. rewrite le_bytes_app by exact V2. reflexivity.
  - cbn [pack L_JoinRequest]. change (N.of_nat 8) with 8 in *. change (256 ^ 8) with (2 ^ 64) in *.
    rewrite !N.mod_small; [lia| |assumption|assumption]. change (2 ^ 16) with 65536. exact Hn.
Qed.

Theorem rejoin02_is_spec ty nid de rc :
  (ty = 0 \/ ty = 2) -> length nid = 3%nat -> length de = 8%nat ->
  Forall (fun b => b < 256) nid -> Forall (fun b => b < 256) de -> rc < 65536 ->
  payload_marshal (PLRejoin02 ty nid de rc) = Ok (spec_encode L_Rejoin02 [ty; id_val nid; id_val de; rc]).
Proof.
  intros Ht L1 L2 B1 B2 Hn. cbn [payload_marshal].
  replace (negb (ty =? 0) && negb (ty =? 2)) with false by (destruct Ht as [-> | ->]; reflexivity).
  f_equal. rewrite (rev_is_le nid B1), (rev_is_le de B2), L1, L2.
  pose proof (id_val_lt nid B1) as V1. pose proof (id_val_lt de B2) as V2. rewrite L1 in V1. rewrite L2 in V2.
  unfold spec_encode. change (byte_size L_Rejoin02) with (1 + (3 + (8 + 2)))%nat.
  assert (Hty : ty < 256 ^ N.of_nat 1) by (destruct Ht as [-> | ->]; reflexivity).
  replace (pack L_Rejoin02 [ty; id_val nid; id_val de; rc])
    with (ty + 256 ^ N.of_nat 1 * (id_val nid + 256 ^ N.of_nat 3 * (id_val de + 256 ^ N.of_nat 8 * rc))).
  - rewrite le_bytes_app by exact Hty. rewrite le_bytes_app by exact V1. rewrite le_bytes_app by exact V2.
    cbn [le_bytes app]. f_equal; try (destruct Ht as [-> | ->]; reflexivity).
  - cbn [pack L_Rejoin02]. change (N.of_nat 1) with 1 in *. change (N.of_nat 3) with 3 in *. change (N.of_nat 8) with 8 in *.
    change (256 ^ 1) with (2 ^ 8) in *. change (256 ^ 3) with (2 ^ 24) in *. change (256 ^ 8) with (2 ^ 64) in *.
    rewrite !N.mod_small; [lia| | | |]; try assumption; try (change (2 ^ 16) with 65536; exact Hn).
Qed.

Theorem rejoin1_is_spec je de rc :
  length je = 8%nat -> length de = 8%nat ->
  Forall (fun b => b < 256) je -> Forall (fun b => b < 256) de -> rc < 65536 ->
  payload_marshal (PLRejoin1 1 je de rc) = Ok (spec_encode L_Rejoin1 [1; id_val je; id_val de; rc]).
Proof.
  intros L1 L2 B1 B2 Hn. cbn [payload_marshal N.eqb Pos.eqb negb].
  f_equal. rewrite (rev_is_le je B1), (rev_is_le de B2), L1, L2.
  pose proof (id_val_lt je B1) as V1. pose proof (id_val_lt de B2) as V2. rewrite L1 in V1. rewrite L2 in V2.
  unfold spec_encode. change (byte_size L_Rejoin1) with (1 + (8 + (8 + 2)))%nat.
  replace (pack L_Rejoin1 [1; id_val je; id_val de; rc])
    with (1 + 256 ^ N.of_nat 1 * (id_val je + 256 ^ N.of_nat 8 * (id_val de + 256 ^ N.of_nat 8 * rc))).
  - rewrite le_bytes_app by reflexivity. rewrite le_bytes_app by exact V1. rewrite le_bytes_app by exact V2. reflexivity.
  - cbn [pack L_Rejoin1]. change (N.of_nat 1) with 1 in *. change (N.of_nat 8) with 8 in *.
    change (256 ^ 1) with (2 ^ 8) in *. change (256 ^ 8) with (2 ^ 64) in *.
    rewrite !N.mod_small; [lia| | | |]; try assumption; try (change (2 ^ 16) with 65536; exact Hn); try reflexivity.
Qed.

(* JoinAccept without CFList: JoinNonce | NetID | DevAddr | DLSettings | RxDelay *)
Theorem joinaccept_is_spec jn nid da optneg rx2 rx1 rxd :
  jn < 2 ^ 24 -> length nid = 3%nat -> length da = 4%nat ->
  Forall (fun b => b < 256) nid -> Forall (fun b => b < 256) da -> rx2 < 16 -> rx1 < 8 -> rxd < 16 ->
  payload_marshal (PLJoinAccept jn nid da optneg rx2 rx1 rxd None) =
  Ok (spec_encode L_JoinAccept [jn; id_val nid; id_val da; spec_dlsettings optneg rx2 rx1; rxd]).
Proof.
  intros Hj L1 L2 B1 B2 H2 H1 Hd. cbn [payload_marshal].
  replace (15 <? rxd) with false by lia.
  replace (16777216 <=? jn) with false by (change (2 ^ 24) with 16777216 in Hj; lia).
  rewrite dlsettings_is_spec by assumption. cbn [bind]. f_equal.
  rewrite (rev_is_le nid B1), (rev_is_le da B2), L1, L2.
  pose proof (id_val_lt nid B1) as V1. pose proof (id_val_lt da B2) as V2. rewrite L1 in V1. rewrite L2 in V2.
  assert (Hdl : spec_dlsettings optneg rx2 rx1 < 256).
  { unfold spec_dlsettings. cbn [pack L_DLSettings]. destruct optneg; cbn [b2f];
      change (2 ^ 4) with 16; change (2 ^ 3) with 8; change (2 ^ 1) with 2; lia. }
  unfold spec_encode. change (byte_size L_JoinAccept) with (3 + (3 + (4 + (1 + 1))))%nat.
  replace (pack L_JoinAccept [jn; id_val nid; id_val da; spec_dlsettings optneg rx2 rx1; rxd])
    with (jn + 256 ^ N.of_nat 3 * (id_val nid + 256 ^ N.of_nat 3 * (id_val da + 256 ^ N.of_nat 4 * (spec_dlsettings optneg rx2 rx1 + 256 ^ N.of_nat 1 * rxd)))).
  - rewrite le_bytes_app by exact Hj. rewrite le_bytes_app by exact V1. rewrite le_bytes_app by exact V2.
    rewrite le_bytes_app by exact Hdl.
    replace (firstn 3 (le_bytes 4 jn)) with (le_bytes 3 jn) by reflexivity.
    cbn [le_bytes app]. repeat f_equal; lia.
  - cbn [pack L_JoinAccept]. change (N.of_nat 1) with 1 in *. change (N.of_nat 3) with 3 in *. change (N.of_nat 4) with 4 in *.
    change (256 ^ 1) with (2 ^ 8) in *. change (256 ^ 3) with (2 ^ 24) in *. change (256 ^ 4) with (2 ^ 32) in *.
    rewrite !N.mod_small; [lia| | | | |]; try assumption; try (change (2 ^ 8) with 256; lia).
Qed.

(* ---- FHDR: DevAddr | FCtrl | FCnt | FOpts ---- *)
Theorem fhdr_is_spec h opts :
  items_marshal (fopts h) = Ok opts -> (length opts <= 15)%nat ->
  length (devaddr h) = 4%nat -> Forall (fun b => b < 256) (devaddr h) ->
  fhdr_marshal h = Ok (spec_fhdr h opts).
Proof.
  intros Ho Hl L4 B4. unfold fhdr_marshal, spec_fhdr. rewrite Ho. cbn [bind].
  replace (15 <? N.of_nat (length opts)) with false by lia.
  set (c := mkFCtrl (adr (fc h)) (adrackreq (fc h)) (ack (fc h)) (fpending (fc h)) (classb (fc h)) (N.of_nat (length opts))).
  assert (Hc : foptslen c < 16) by (unfold c; cbn [foptslen]; lia).
  rewrite (fctrl_is_spec c Hc). cbn [bind]. f_equal.
  rewrite (rev_is_le (devaddr h) B4), L4.
  pose proof (id_val_lt (devaddr h) B4) as V. rewrite L4 in V.
  assert (Hcb : spec_fctrl c < 256).
  { unfold spec_fctrl, c. cbn [foptslen adr adrackreq ack fpending classb pack L_FCtrl].
    destruct (classb (fc h) || fpending (fc h)), (ack (fc h)), (adrackreq (fc h)), (adr (fc h)); cbn [b2f];
      change (2 ^ 4) with 16; change (2 ^ 1) with 2; lia. }
  unfold spec_encode. change (byte_size L_FHDR_fixed) with (4 + (1 + 2))%nat.
  replace (pack L_FHDR_fixed [id_val (devaddr h); spec_fctrl c; fcnt h mod 65536])
    with (id_val (devaddr h) + 256 ^ N.of_nat 4 * (spec_fctrl c + 256 ^ N.of_nat 1 * (fcnt h mod 65536))).
  - rewrite le_bytes_app by exact V. rewrite le_bytes_app by exact Hcb.
    rewrite <- app_assoc. f_equal. cbn [le_bytes app].
    generalize (fcnt h). intros fc0. clearbody c.
    apply (f_equal2 (@cons N)); [lia|]. apply (f_equal2 (@cons N)); [lia|]. apply (f_equal2 (@cons N)); [lia|reflexivity].
  - cbn [pack L_FHDR_fixed]. change (N.of_nat 4) with 4 in *. change (N.of_nat 1) with 1 in *.
    change (256 ^ 4) with (2 ^ 32) in *. change (256 ^ 1) with (2 ^ 8) in *.
    assert (Hf : fcnt h mod 65536 < 2 ^ 16) by (change (2 ^ 16) with 65536; apply N.mod_lt; discriminate).
    rewrite (N.mod_small (id_val (devaddr h))) by assumption.
    rewrite (N.mod_small (spec_fctrl c)) by (change (2 ^ 8) with 256; exact Hcb).
    rewrite (N.mod_small (fcnt h mod 65536)) by exact Hf. lia.
Qed.
