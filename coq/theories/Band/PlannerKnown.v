(* The planner after the fix for finding C14-4: device channels outside the
   plan are dropped first ([known_channels]).  Everything proved for device
   lists inside the plan (PlannerProofs, PlannerUSProofs, PlannerTotal: the
   [*_core] functions) carries over to EVERY device list - negative, beyond
   the plan, beyond 255, repeated entries - because neither the apply
   functions nor the target depend on such entries.  A refutation shows that
   the code before the fix violated the statement on a pristine 3-channel plan. *)
From Coq Require Import List ZArith Bool Lia.
From Coq Require Import ZifyBool.
From LW Require Import Base.Outcome Band.Channels Band.Planner Band.PlannerSpec Band.ListLemmas
  Band.PlannerProofs Band.PlannerUSProofs Band.PlannerTotal.
Import ListNotations.
Open Scope Z_scope.

Lemma known_in n dev c : In c (known_channels n dev) <-> In c dev /\ 0 <= c < n.
Proof.
  unfold known_channels. rewrite filter_In, andb_true_iff, Z.geb_le, Z.ltb_lt. tauto.
Qed.

Lemma known_in_range n dev c : In c (known_channels n dev) -> 0 <= c < n.
Proof. intros H. now apply known_in in H. Qed.

Lemma zmem_In i l : zmem i l = true <-> In i l.
Proof.
  unfold zmem. rewrite existsb_exists. split.
  - intros [x [Hx E]]. apply Z.eqb_eq in E. now subst.
  - intros H. exists i. split; [exact H|apply Z.eqb_refl].
Qed.

Lemma zmem_known n dev k : 0 <= k < n -> zmem k (known_channels n dev) = zmem k dev.
Proof.
  intros Hk. apply eq_true_iff_eq. rewrite !zmem_In, known_in. tauto.
Qed.

(* the device's channel mask ignores what the filter drops *)
Lemma init_mask_fold_known n : forall dev m,
  fold_left (fun m c => if (c >=? 0) && (c <? n) then upd m (Z.to_nat c) true else m) (known_channels n dev) m
  = fold_left (fun m c => if (c >=? 0) && (c <? n) then upd m (Z.to_nat c) true else m) dev m.
Proof.
  induction dev as [|c dev IH]; intros m; [reflexivity|].
  cbn [known_channels filter fold_left]. destruct ((c >=? 0) && (c <? n)) eqn:E.
  - cbn [fold_left]. rewrite E. apply IH.
  - apply IH.
Qed.

Lemma init_mask_known n dev : init_mask n (known_channels n dev) = init_mask n dev.
Proof. unfold init_mask. now rewrite init_mask_fold_known. Qed.

Lemma apply_generic_known B s dev pls :
  apply_generic B s (known_channels (zlen (up s)) dev) pls = apply_generic B s dev pls.
Proof. unfold apply_generic. now rewrite init_mask_known. Qed.

Lemma apply_us_known B s dev pls :
  apply_us B s (known_channels (zlen (up s)) dev) pls = apply_us B s dev pls.
Proof. unfold apply_us. now rewrite init_mask_known. Qed.

Lemma target_from_known n dev : forall u k, 0 <= k -> k + zlen u <= n ->
  target_from u (known_channels n dev) k = target_from u dev k.
Proof.
  induction u as [|c u IH]; intros k Hk Hn; [reflexivity|].
  cbn [target_from]. unfold zlen in *. cbn [length] in Hn.
  rewrite zmem_known by lia. rewrite IH by lia. reflexivity.
Qed.

Lemma target_known s dev : target s (known_channels (zlen (up s)) dev) = target s dev.
Proof. unfold target. apply target_from_known; lia. Qed.

Lemma target_in_range s dev i : In i (target s dev) -> 0 <= i < zlen (up s).
Proof.
  intros H. apply target_spec in H. destruct H as [H _].
  unfold get_enabled_uplink_channel_indices in H.
  apply indices_where_In in H. destruct H as [H0 [a [Ha _]]].
  assert (L : (Z.to_nat (i - 0) < length (up s))%nat) by (apply nth_error_Some; congruence).
  unfold zlen. lia.
Qed.

Lemma same_set_known s dev : same_set dev (target s dev) ->
  same_set (known_channels (zlen (up s)) dev) (target s (known_channels (zlen (up s)) dev)).
Proof.
  intros H c. rewrite target_known, known_in. split.
  - intros [Hc _]. now apply H.
  - intros Hc. split; [now apply H|now apply target_in_range in Hc].
Qed.

(* ---- the generic planner, for every device list ------------------------------------ *)

Theorem generic_sound_all B (HB : 0 < B) (s : st) dev : zlen (up s) <= 256 ->
  exists pls, plan_generic B s dev = Ok pls /\ apply_generic B s dev pls = Ok (target s dev).
Proof.
  intros Hn. unfold plan_generic.
  destruct (generic_sound B HB s (known_channels (zlen (up s)) dev) Hn) as [pls [E A]].
  { intros c Hc. apply known_in_range in Hc. lia. }
  exists pls. split; [exact E|]. now rewrite <- apply_generic_known, <- target_known.
Qed.

Theorem generic_count_all B (HB : 0 < B) (s : st) dev :
  exists pls, plan_generic B s dev = Ok pls /\ Z.of_nat (length pls) <= blocks B (zlen (up s)).
Proof. unfold plan_generic. apply generic_count; [exact HB|]. intros c. apply known_in_range. Qed.

Theorem generic_noop_all B (s : st) dev : same_set dev (target s dev) -> plan_generic B s dev = Ok [].
Proof. intros H. unfold plan_generic. apply generic_noop. now apply same_set_known. Qed.

(* also when the device agrees with the target on the channels of the plan only *)
Theorem generic_noop_known B (s : st) dev :
  same_set (known_channels (zlen (up s)) dev) (target s dev) -> plan_generic B s dev = Ok [].
Proof. intros H. unfold plan_generic. apply generic_noop. now rewrite target_known. Qed.

Theorem generic_encodable_all (s : st) dev : zlen (up s) <= 128 ->
  exists pls, plan_generic 16 s dev = Ok pls /\ forallb encodable pls = true.
Proof.
  intros Hn. unfold plan_generic. apply generic_encodable; [exact Hn|].
  intros c Hc. apply known_in_range in Hc. lia.
Qed.

Theorem plan_generic_total_all B (s : st) dev : exists pls, plan_generic B s dev = Ok pls.
Proof. unfold plan_generic. apply plan_generic_total. Qed.

(* ---- US915 / AU915 ------------------------------------------------------------------ *)

Lemma plan_us_known B s dev : plan_us B s dev = plan_us_core B s (known_channels (zlen (up s)) dev).
Proof. reflexivity. Qed.

Theorem us_sound_all (s : st) dev : us_layout s ->
  exists pls, plan_us 16 s dev = Ok pls /\ apply_us 16 s dev pls = Ok (get_enabled_uplink_channel_indices s).
Proof.
  intros HL. rewrite plan_us_known. pose proof HL as [N _].
  destruct (us_sound s (known_channels (zlen (up s)) dev) HL) as [pls [E A]].
  { intros c Hc. apply known_in_range in Hc. lia. }
  exists pls. split; [exact E|]. now rewrite <- apply_us_known.
Qed.

Theorem us_count_all (s : st) dev :
  exists pls, plan_us 16 s dev = Ok pls /\ Z.of_nat (length pls) <= blocks 16 (zlen (up s)).
Proof. rewrite plan_us_known. apply us_count. intros c. apply known_in_range. Qed.

Theorem us_noop_all (s : st) dev : same_set dev (target s dev) -> plan_us 16 s dev = Ok [].
Proof. intros H. rewrite plan_us_known. apply us_noop. now apply same_set_known. Qed.

Theorem us_encodable_all (s : st) dev : us_layout s ->
  exists pls, plan_us 16 s dev = Ok pls /\ forallb encodable pls = true.
Proof.
  intros HL. rewrite plan_us_known. pose proof HL as [N _]. apply us_encodable; [exact HL|].
  intros c Hc. apply known_in_range in Hc. lia.
Qed.

Theorem plan_us_total_all B (s : st) dev : exists pls, plan_us B s dev = Ok pls.
Proof. rewrite plan_us_known. apply plan_us_total. Qed.

(* ---- the code before the fix (finding C14-4) --------------------------------------- *)

Definition eu3 : st :=
  let u := repeat (mkChannel 868100000 0 5 true false) 3 in mkSt true 0 5 u u [] [0; 1; 2; 3; 4; 5; 6; 7].

(* pristine three-channel plan, the device reports a channel the plan does not
   have: one payload with ChMaskCntl 8 (not encodable); with index 4096 the
   block number wraps to 0 and applying the payload switches everything off;
   seven payloads for a one-block plan *)
Theorem prefix_refuted :
  (exists pls, plan_generic_prefix 16 eu3 [0; 1; 2; 130] = Ok pls /\ forallb encodable pls = false) /\
  (exists pls, plan_generic_prefix 16 eu3 [0; 1; 2; 4096] = Ok pls /\
               apply_generic 16 eu3 [0; 1; 2; 4096] pls = Ok [] /\ target eu3 [0; 1; 2; 4096] = [0; 1; 2]) /\
  (exists pls, plan_generic_prefix 16 eu3 [0; 1; 2; 16; 32; 48; 64; 80; 96; 112] = Ok pls /\ length pls = 7%nat) /\
  plan_generic 16 eu3 [0; 1; 2; 130] = Ok [] /\ plan_generic 16 eu3 [0; 1; 2; 4096] = Ok [] /\
  plan_generic 16 eu3 [0; 1; 2; 16; 32; 48; 64; 80; 96; 112] = Ok [].
Proof.
  repeat split; try (eexists; repeat split); vm_compute; reflexivity.
Qed.
