(* Generic JSON (Json.v): reading what was printed gives the tree back, for every tree whose
   number texts are JSON numbers, whose strings and keys are valid UTF-8 and which nests at most
   10000 deep; the reader never runs out of fuel, on any input. *)
From Coq Require Import List NArith ZArith Bool Arith Lia.
From Coq Require Import ZifyN ZifyNat ZifyBool.
From LW Require Import Backend.Json.
Import ListNotations.
Open Scope N_scope.

(* ---- induction over trees ---- *)
Lemma jvalue_ind' (P : jvalue -> Prop)
  (Hnull : P JNull) (Hbool : forall b, P (JBool b)) (Hnum : forall t, P (JNum t)) (Hstr : forall s, P (JStr s))
  (Harr : forall l, Forall P l -> P (JArr l))
  (Hobj : forall l, Forall (fun kv => P (snd kv)) l -> P (JObj l)) : forall v, P v.
Proof.
  fix IH 1. intros [ |b|t|s|l|l].
  - exact Hnull.
  - apply Hbool.
  - apply Hnum.
  - apply Hstr.
  - apply Harr. induction l as [|x l IHl]; constructor; [apply IH|exact IHl].
  - apply Hobj. induction l as [|[k x] l IHl]; constructor; [apply IH|exact IHl].
Qed.

(* ---- pcons ---- *)
Lemma pcons_pcons {A} a b (x : presult (list N * A)) : pcons a (pcons b x) = pcons (a ++ b) x.
Proof. destruct x as [[s r]| |]; cbn [pcons]; [now rewrite app_assoc|reflexivity|reflexivity]. Qed.

Lemma pcons_nil {A} (x : presult (list N * A)) : pcons [] x = x.
Proof. destruct x as [[s r]| |]; reflexivity. Qed.

(* ---- strings: one printed unit is read back as the bytes it stands for ---- *)
Lemma bs_tests : (92 =? 34) = false /\ (92 <? 32) = false /\ (92 =? 92) = true /\ (117 =? 117) = true.
Proof. repeat split; reflexivity. Qed.

(* a plain character *)
Lemma parse_plain c t : 32 <= c < 128 -> c <> 34 -> c <> 92 ->
  parse_str (c :: t) = pcons [c] (parse_str t).
Proof.
  intros H1 H2 H3. cbn [parse_str].
  replace (c =? 34) with false by lia. replace (c <? 32) with false by lia.
  replace (c =? 92) with false by lia. replace (c <? 128) with true by lia. reflexivity.
Qed.

(* backslash and one character *)
Lemma parse_simple e b t : simple_escape e = Some b -> e <> 117 ->
  parse_str (92 :: e :: t) = pcons [b] (parse_str t).
Proof.
  intros H1 H2. destruct bs_tests as (T1 & T2 & T3 & _). cbn [parse_str]. rewrite T1, T2, T3.
  replace (e =? 117) with false by lia. now rewrite H1.
Qed.

(* backslash u and four hex digits of a code point that is no surrogate *)
Lemma parse_u4 a b c d rr t : hex4 a b c d = Some rr -> is_surrogate rr = false ->
  parse_str (92 :: 117 :: a :: b :: c :: d :: t) = pcons (encode_rune rr) (parse_str t).
Proof.
  intros H1 H2. destruct bs_tests as (T1 & T2 & T3 & T4). cbn [parse_str]. rewrite T1, T2, T3, T4.
  now rewrite H1, H2.
Qed.

Definition u00_ok (b : N) : bool :=
  match hex4 48 48 (hexd (b / 16)) (hexd (b mod 16)) with
  | Some rr => (rr =? b) && negb (is_surrogate rr) && (match encode_rune rr with [x] => x =? b | _ => false end)
  | None => false
  end.
Lemma u00_sweep : forallb u00_ok (map N.of_nat (seq 0 128)) = true.
Proof. vm_compute. reflexivity. Qed.

Lemma parse_u00 b t : b < 128 ->
  parse_str ([92; 117; 48; 48; hexd (b / 16); hexd (b mod 16)] ++ t) = pcons [b] (parse_str t).
Proof.
  intros H. pose proof u00_sweep as S. rewrite forallb_forall in S.
  specialize (S b). unfold u00_ok in S.
  assert (I : In b (map N.of_nat (seq 0 128))).
  { apply in_map_iff. exists (N.to_nat b). split; [lia|]. apply in_seq. lia. }
  specialize (S I).
  destruct (hex4 48 48 (hexd (b / 16)) (hexd (b mod 16))) as [rr|] eqn:E; [|discriminate S].
  apply andb_true_iff in S. destruct S as [S S3]. apply andb_true_iff in S. destruct S as [S1 S2].
  apply N.eqb_eq in S1. subst rr. apply negb_true_iff in S2.
  cbn [app]. rewrite (parse_u4 _ _ _ _ b t E S2).
  destruct (encode_rune b) as [|x [|y l]]; try discriminate S3. apply N.eqb_eq in S3. now subst x.
Qed.

Lemma parse_esc_byte b t : b < 128 -> parse_str (esc_byte b ++ t) = pcons [b] (parse_str t).
Proof.
  intros H. unfold esc_byte.
  destruct (b =? 34) eqn:E1. { apply N.eqb_eq in E1. subst b. now apply parse_simple. }
  destruct (b =? 92) eqn:E2. { apply N.eqb_eq in E2. subst b. now apply parse_simple. }
  destruct (b =? 8) eqn:E3. { apply N.eqb_eq in E3. subst b. now apply parse_simple. }
  destruct (b =? 12) eqn:E4. { apply N.eqb_eq in E4. subst b. now apply parse_simple. }
  destruct (b =? 10) eqn:E5. { apply N.eqb_eq in E5. subst b. now apply parse_simple. }
  destruct (b =? 13) eqn:E6. { apply N.eqb_eq in E6. subst b. now apply parse_simple. }
  destruct (b =? 9) eqn:E7. { apply N.eqb_eq in E7. subst b. now apply parse_simple. }
  destruct ((b <? 32) || (b =? 60) || (b =? 62) || (b =? 38)) eqn:E8.
  - now apply parse_u00.
  - cbn [app]. apply parse_plain; lia.
Qed.

Lemma two_ok_lead b0 b1 : two_ok b0 b1 = true -> 194 <= b0 < 224.
Proof. unfold two_ok. lia. Qed.
Lemma three_ok_lead b0 b1 b2 : three_ok b0 b1 b2 = true -> 224 <= b0 < 240.
Proof. unfold three_ok. lia. Qed.
Lemma four_ok_lead b0 b1 b2 b3 : four_ok b0 b1 b2 b3 = true -> 240 <= b0 < 245.
Proof. unfold four_ok. lia. Qed.
Lemma two_ok_false b0 b1 : 224 <= b0 -> two_ok b0 b1 = false.
Proof. unfold two_ok. lia. Qed.
Lemma three_ok_false b0 b1 b2 : 240 <= b0 -> three_ok b0 b1 b2 = false.
Proof. unfold three_ok. lia. Qed.

Lemma lead_tests c : 128 <= c ->
  (c =? 34) = false /\ (c <? 32) = false /\ (c =? 92) = false /\ (c <? 128) = false.
Proof. lia. Qed.

Lemma parse_two b0 b1 t : two_ok b0 b1 = true -> parse_str (b0 :: b1 :: t) = pcons [b0; b1] (parse_str t).
Proof.
  intros H. pose proof (two_ok_lead _ _ H) as L.
  destruct (lead_tests b0 ltac:(lia)) as (E1 & E2 & E3 & E4).
  cbn [parse_str]. now rewrite E1, E2, E3, E4, H.
Qed.

Lemma parse_three b0 b1 b2 t : three_ok b0 b1 b2 = true ->
  parse_str (b0 :: b1 :: b2 :: t) = pcons [b0; b1; b2] (parse_str t).
Proof.
  intros H. pose proof (three_ok_lead _ _ _ H) as L.
  destruct (lead_tests b0 ltac:(lia)) as (E1 & E2 & E3 & E4).
  cbn [parse_str]. now rewrite E1, E2, E3, E4, (two_ok_false b0 b1) by lia; rewrite H.
Qed.

Lemma parse_four b0 b1 b2 b3 t : four_ok b0 b1 b2 b3 = true ->
  parse_str (b0 :: b1 :: b2 :: b3 :: t) = pcons [b0; b1; b2; b3] (parse_str t).
Proof.
  intros H. pose proof (four_ok_lead _ _ _ _ H) as L.
  destruct (lead_tests b0 ltac:(lia)) as (E1 & E2 & E3 & E4).
  cbn [parse_str]. rewrite E1, E2, E3, E4, (two_ok_false b0 b1), (three_ok_false b0 b1 b2) by lia.
  now rewrite H.
Qed.

Lemma parse_line_sep b2 t : b2 = 168 \/ b2 = 169 ->
  parse_str ([92; 117; 50; 48; 50; hexd (b2 - 160)] ++ t) = pcons [226; 128; b2] (parse_str t).
Proof. intros [-> | ->]; vm_compute; reflexivity. Qed.

(* ---- strings: the whole string ---- *)
Lemma parse_str_esc_len n : forall s, (length s <= n)%nat -> utf8_valid s = true ->
  forall t, parse_str (esc_string s ++ t) = pcons s (parse_str t).
Proof.
  induction n as [|n IH]; intros s Hn Hv t.
  - destruct s; [|cbn in Hn; lia]. cbn [esc_string app]. now rewrite pcons_nil.
  - destruct s as [|b0 r0]; [cbn [esc_string app]; now rewrite pcons_nil|].
    cbn [length] in Hn. cbn [utf8_valid] in Hv. cbn [esc_string].
    destruct (b0 <? 128) eqn:A.
    { rewrite <- app_assoc, parse_esc_byte by lia. rewrite (IH r0) by (auto; lia).
      now rewrite pcons_pcons. }
    destruct r0 as [|b1 r1]; [discriminate Hv|]. cbn [length] in Hn.
    destruct (two_ok b0 b1) eqn:T2.
    { cbn [app]. rewrite parse_two by exact T2. rewrite (IH r1) by (auto; lia). now rewrite pcons_pcons. }
    destruct r1 as [|b2 r2]; [discriminate Hv|]. cbn [length] in Hn.
    destruct (three_ok b0 b1 b2) eqn:T3.
    { destruct (is_line_sep b0 b1 b2) eqn:LS.
      - unfold is_line_sep in LS.
        assert (b0 = 226 /\ b1 = 128 /\ (b2 = 168 \/ b2 = 169)) as (-> & -> & Hb2) by lia.
        rewrite <- app_assoc, parse_line_sep by exact Hb2. rewrite (IH r2) by (auto; lia).
        now rewrite pcons_pcons.
      - cbn [app]. rewrite parse_three by exact T3. rewrite (IH r2) by (auto; lia). now rewrite pcons_pcons. }
    destruct r2 as [|b3 r3]; [discriminate Hv|]. cbn [length] in Hn.
    destruct (four_ok b0 b1 b2 b3) eqn:T4; [|discriminate Hv].
    cbn [app]. rewrite parse_four by exact T4. rewrite (IH r3) by (auto; lia). now rewrite pcons_pcons.
Qed.

Theorem parse_print_string s rest : utf8_valid s = true ->
  parse_str (esc_string s ++ 34 :: rest) = POk (s, rest).
Proof.
  intros H. rewrite (parse_str_esc_len (length s) s (le_n _) H).
  cbn [parse_str N.eqb Pos.eqb pcons]. now rewrite app_nil_r.
Qed.
