(* ISO8601Time (Iso8601.v): the civil-date conversions are mutually inverse (for every day
   number; for every valid date), the printed text of an instant of the years 0..9999 with a
   whole-minute zone offset of less than a day parses back to the same instant and offset,
   and has 20 or 25 bytes.

   The two calendar laws are proved era-wise: the part of each conversion that works inside
   one 400-year era is checked for all 146097 days of an era, resp. all 400 * 12 * 31
   (year of era, month, day) triples, by kernel evaluation ([all_from] sweeps); the lifting to
   all of Z is linear arithmetic over floor division. *)
From Coq Require Import List NArith ZArith Bool Lia.
From Coq Require Import ZifyN ZifyNat ZifyBool.
From LW Require Import Base.Outcome Backend.F64Sweep Backend.Iso8601.
Import ListNotations.
Open Scope Z_scope.
Ltac Zify.zify_post_hook ::= Z.to_euclidean_division_equations.

(* ---- leap years repeat every 400 years ---- *)
Lemma is_leap_period y e : is_leap (y + e * 400) = is_leap y.
Proof.
  unfold is_leap.
  assert (H4 : (y + e * 400) mod 4 = y mod 4) by lia.
  assert (H100 : (y + e * 400) mod 100 = y mod 100) by lia.
  assert (H400 : (y + e * 400) mod 400 = y mod 400) by lia.
  now rewrite H4, H100, H400.
Qed.

Lemma days_in_month_period y e m : days_in_month (y + e * 400) m = days_in_month y m.
Proof. unfold days_in_month. now rewrite is_leap_period. Qed.

Lemma days_in_month_bounds y m : 28 <= days_in_month y m <= 31.
Proof.
  unfold days_in_month. destruct (m =? 2); [destruct (is_leap y); lia|].
  destruct ((m =? 4) || (m =? 6) || (m =? 9) || (m =? 11)); lia.
Qed.

Lemma month_mp_inv mp : 0 <= mp <= 11 -> mp_of_month (month_of_mp mp) = mp /\ 1 <= month_of_mp mp <= 12.
Proof.
  intros H. unfold mp_of_month, month_of_mp.
  destruct (mp <? 10) eqn:E.
  - destruct (mp + 3 <=? 2) eqn:E2; lia.
  - destruct (mp - 9 <=? 2) eqn:E2; lia.
Qed.

Lemma mp_month_inv m : 1 <= m <= 12 -> month_of_mp (mp_of_month m) = m /\ 0 <= mp_of_month m <= 11.
Proof.
  intros H. unfold mp_of_month, month_of_mp.
  destruct (m <=? 2) eqn:E.
  - destruct (m + 9 <? 10) eqn:E2; lia.
  - destruct (m - 3 <? 10) eqn:E2; lia.
Qed.

(* ---- one era, day of era -> (year of era, month index, day): all 146097 days ---- *)
Definition doe_ok (doe : Z) : bool :=
  let yoe := yoe_of doe in
  let doy := doy_of doe yoe in
  let mp := mp_of doy in
  let d := dom_of doy mp in
  let m := month_of_mp mp in
  let yy := if m <=? 2 then yoe + 1 else yoe in
  (0 <=? yoe) && (yoe <=? 399) && (0 <=? mp) && (mp <=? 11) && (1 <=? d) && (d <=? days_in_month yy m)
  && (doe_of yoe mp d =? doe) && Bool.eqb (doe <=? 146036) (yy <=? 399).

Lemma doe_sweep : all_from doe_ok 0 (N.to_nat 146097) = true.
Proof. vm_cast_no_check (eq_refl true). Qed.   (* evaluated once, by the kernel at Qed *)

(* ---- one era, (year of era, month index, day) -> day of era: all 400 * 12 * 31 triples ---- *)
Definition ymd_ok (i : Z) : bool :=
  let yoe := i / 372 in
  let mp := i mod 372 / 31 in
  let d := i mod 31 + 1 in
  let m := month_of_mp mp in
  let yy := if m <=? 2 then yoe + 1 else yoe in
  negb (d <=? days_in_month yy m) ||
  (let doe := doe_of yoe mp d in
   (0 <=? doe) && (doe <? 146097) && (yoe_of doe =? yoe) && (mp_of (doy_of doe yoe) =? mp)
   && (dom_of (doy_of doe yoe) mp =? d)).

Lemma ymd_sweep : all_from ymd_ok 0 (N.to_nat 148800) = true.
Proof. vm_cast_no_check (eq_refl true). Qed.

(* ---- civil_from_days: a valid date, and days_from_civil leads back ---- *)
Record civil_facts (z y m d : Z) : Prop := {
  cf_month : 1 <= m <= 12;
  cf_day : 1 <= d <= days_in_month y m;
  cf_back : days_from_civil y m d = z;
  cf_year : -719528 <= z <= 2932896 -> 0 <= y <= 9999
}.

Lemma civil_from_days_facts z :
  civil_facts z (fst (fst (civil_from_days z))) (snd (fst (civil_from_days z))) (snd (civil_from_days z)).
Proof.
  unfold civil_from_days. cbv zeta. cbn [fst snd].
  set (era := (z + 719468) / 146097).
  set (doe := z + 719468 - era * 146097).
  assert (Hdoe : 0 <= doe < 146097) by (subst doe era; lia).
  assert (Hz : z = era * 146097 + doe - 719468) by (subst doe; lia).
  assert (Hera : -719528 <= z <= 2932896 -> -1 <= era <= 24) by (subst era; lia).
  pose proof (all_from_spec _ _ _ doe_sweep doe ltac:(lia)) as Hok.
  unfold doe_ok in Hok. cbv zeta in Hok.
  clearbody doe era.
  set (yoe := yoe_of doe) in *. set (doy := doy_of doe yoe) in *.
  set (mp := mp_of doy) in *. set (d := dom_of doy mp) in *.
  clearbody yoe. clearbody doy. clearbody mp. clearbody d.
  apply andb_true_iff in Hok. destruct Hok as [Hok Hy].
  apply andb_true_iff in Hok. destruct Hok as [Hok Hback].
  apply andb_true_iff in Hok. destruct Hok as [Hok Hd2].
  assert (Hr : 0 <= yoe <= 399 /\ 0 <= mp <= 11 /\ 1 <= d) by lia. clear Hok.
  destruct Hr as (Hyoe & Hmp & Hd1).
  apply Z.eqb_eq in Hback. apply Z.leb_le in Hd2.
  destruct (month_mp_inv mp Hmp) as [Hinv Hm].
  set (m := month_of_mp mp) in *. clearbody m.
  assert (Hyy : (if m <=? 2 then yoe + era * 400 + 1 else yoe + era * 400)
                = (if m <=? 2 then yoe + 1 else yoe) + era * 400) by (destruct (m <=? 2); lia).
  rewrite Hyy.
  set (yy := if m <=? 2 then yoe + 1 else yoe) in *.
  constructor.
  - exact Hm.
  - rewrite days_in_month_period. lia.
  - unfold days_from_civil. cbv zeta. rewrite Hinv.
    assert (Hy' : (if m <=? 2 then yy + era * 400 - 1 else yy + era * 400) = yoe + era * 400)
      by (subst yy; destruct (m <=? 2); lia).
    rewrite Hy'.
    assert (He : (yoe + era * 400) / 400 = era) by lia.
    rewrite He. replace (yoe + era * 400 - era * 400) with yoe by lia.
    rewrite Hback. lia.
  - intros Hzr. specialize (Hera Hzr).
    assert (Hyyr : 0 <= yy <= 400) by (subst yy; destruct (m <=? 2); lia).
    destruct (doe <=? 146036) eqn:E1; destruct (yy <=? 399) eqn:E2; try discriminate Hy; lia.
Qed.

Theorem days_from_civil_from_days z :
  days_from_civil (fst (fst (civil_from_days z))) (snd (fst (civil_from_days z))) (snd (civil_from_days z)) = z.
Proof. apply (cf_back _ _ _ _ (civil_from_days_facts z)). Qed.

(* every day number (negative ones too) is a valid date, and that date has this day number *)
Theorem civil_from_days_valid z y m d : civil_from_days z = (y, m, d) ->
  1 <= m <= 12 /\ 1 <= d <= days_in_month y m /\ days_from_civil y m d = z.
Proof.
  intros E. pose proof (civil_from_days_facts z) as F. rewrite E in F. cbn [fst snd] in F.
  destruct F. auto.
Qed.

(* ---- days_from_civil: civil_from_days leads back, for every valid date ---- *)
Theorem civil_from_days_from_civil y m d :
  1 <= m <= 12 -> 1 <= d <= days_in_month y m ->
  civil_from_days (days_from_civil y m d) = (y, m, d).
Proof.
  intros Hm Hd. unfold days_from_civil. cbv zeta.
  set (y' := if m <=? 2 then y - 1 else y).
  set (era := y' / 400). set (yoe := y' - era * 400).
  assert (Hyoe : 0 <= yoe <= 399) by (subst yoe era; lia).
  destruct (mp_month_inv m Hm) as [Hinv Hmp].
  set (mp := mp_of_month m) in *. clearbody mp.
  pose proof (days_in_month_bounds y m) as Hdim.
  pose proof (all_from_spec _ _ _ ymd_sweep (yoe * 372 + mp * 31 + (d - 1)) ltac:(lia)) as Hok.
  unfold ymd_ok in Hok. cbv zeta in Hok.
  replace ((yoe * 372 + mp * 31 + (d - 1)) / 372) with yoe in Hok by lia.
  replace ((yoe * 372 + mp * 31 + (d - 1)) mod 372 / 31) with mp in Hok by lia.
  replace ((yoe * 372 + mp * 31 + (d - 1)) mod 31 + 1) with d in Hok by lia.
  rewrite Hinv in Hok.
  assert (Hy : y = (if m <=? 2 then yoe + 1 else yoe) + era * 400)
    by (subst yoe y'; destruct (m <=? 2); lia).
  assert (Hdim2 : days_in_month (if m <=? 2 then yoe + 1 else yoe) m = days_in_month y m)
    by (rewrite Hy; now rewrite days_in_month_period).
  rewrite Hdim2 in Hok.
  replace (d <=? days_in_month y m) with true in Hok by (symmetry; apply Z.leb_le; lia).
  cbn [negb orb] in Hok.
  set (doe := doe_of yoe mp d) in *. clearbody doe.
  apply andb_true_iff in Hok. destruct Hok as [Hok H5]. apply andb_true_iff in Hok. destruct Hok as [Hok H4].
  apply andb_true_iff in Hok. destruct Hok as [Hok H3].
  assert (Hdoe : 0 <= doe < 146097) by lia. clear Hok.
  apply Z.eqb_eq in H3, H4, H5.
  unfold civil_from_days. cbv zeta.
  replace (era * 146097 + doe - 719468 + 719468) with (doe + era * 146097) by lia.
  assert (He : (doe + era * 146097) / 146097 = era) by lia.
  rewrite He. replace (doe + era * 146097 - era * 146097) with doe by lia.
  rewrite H3, H4, H5, Hinv.
  clearbody yoe. destruct (m <=? 2); f_equal; f_equal; lia.
Qed.

(* ---- digits ---- *)
Lemma is_digit_digit n : is_digit (digit n) = true.
Proof. unfold is_digit, digit. lia. Qed.

Lemma dval_digit n : dval (digit n) = n mod 10.
Proof. unfold dval, digit. lia. Qed.

Definition pad2_ok (n : Z) : bool := bytes_eqb (append_int n 2) (pad2 n).
Definition pad4_ok (n : Z) : bool := bytes_eqb (append_int n 4) (pad4 n).

Lemma pad2_sweep : all_from pad2_ok 0 (N.to_nat 100) = true.
Proof. vm_compute. reflexivity. Qed.
Lemma pad4_sweep : all_from pad4_ok 0 (N.to_nat 10000) = true.
Proof. vm_compute. reflexivity. Qed.

Lemma append_int_2 n : 0 <= n < 100 -> append_int n 2 = pad2 n.
Proof. intros H. apply bytes_eqb_eq. apply (all_from_spec _ _ _ pad2_sweep n). lia. Qed.
Lemma append_int_4 n : 0 <= n < 10000 -> append_int n 4 = pad4 n.
Proof. intros H. apply bytes_eqb_eq. apply (all_from_spec _ _ _ pad4_sweep n). lia. Qed.

Lemma take2_pad2 n r : 0 <= n < 100 -> take2 (pad2 n ++ r) = Some (n, r).
Proof.
  intros H. unfold pad2. cbn [app take2]. rewrite !is_digit_digit, !dval_digit. cbn [andb].
  do 2 f_equal. lia.
Qed.

Lemma take_hour_pad2 n r : 0 <= n < 100 -> take_hour (pad2 n ++ r) = Some (n, r).
Proof.
  intros H. unfold pad2. cbn [app take_hour]. rewrite !is_digit_digit, !dval_digit.
  do 2 f_equal. lia.
Qed.

Lemma take_year_pad4 n r : 0 <= n < 10000 -> take_year (pad4 n ++ r) = Some (n, r).
Proof.
  intros H. unfold pad4. cbn [app take_year]. rewrite !is_digit_digit, !dval_digit. cbn [andb].
  do 2 f_equal. lia.
Qed.

Lemma expect_cons c r : expect c (c :: r) = Some r.
Proof. cbn [expect]. now rewrite N.eqb_refl. Qed.

(* ---- the zone ---- *)
Definition zone_ok (off : Z) : Prop := off mod 60 = 0 /\ -86400 < off < 86400.

Lemma zone_text_shape off : zone_ok off -> off <> 0 ->
  zone_text off = (if off <? 0 then 45%N else 43%N)
                  :: pad2 (Z.abs off / 3600) ++ 58%N :: pad2 (Z.abs off / 60 mod 60).
Proof.
  intros [Hm Hr] Hnz. unfold zone_text.
  replace (off =? 0) with false by (symmetry; apply Z.eqb_neq; exact Hnz).
  cbv zeta.
  assert (Hq : Z.abs (Z.quot off 60) = Z.abs off / 60) by lia.
  rewrite Hq.
  assert (Hs : (Z.quot off 60 <? 0) = (off <? 0)) by lia.
  rewrite Hs.
  rewrite (append_int_2 (Z.abs off / 60 / 60)) by lia.
  rewrite (append_int_2 (Z.abs off / 60 mod 60)) by lia.
  replace (Z.abs off / 60 / 60) with (Z.abs off / 3600) by lia.
  destruct (off <? 0); reflexivity.
Qed.

Lemma take_zone_zone_text off : zone_ok off ->
  take_zone (skip_fraction (zone_text off)) = Some (off, []).
Proof.
  intros Hz. destruct (Z.eq_dec off 0) as [->|Hnz]; [reflexivity|].
  rewrite (zone_text_shape off Hz Hnz). destruct Hz as [Hm Hr].
  set (hh := Z.abs off / 3600). set (mm := Z.abs off / 60 mod 60).
  assert (Hhh : 0 <= hh < 24) by (subst hh; lia).
  assert (Hmm : 0 <= mm < 60) by (subst mm; lia).
  assert (Habs : Z.abs off = (hh * 60 + mm) * 60) by (subst hh mm; lia).
  clearbody hh mm.
  assert (T2 : forall n, 0 <= n < 100 -> take2 (pad2 n) = Some (n, [])).
  { intros n Hn. rewrite <- (app_nil_r (pad2 n)). now apply take2_pad2. }
  destruct (off <? 0) eqn:E.
  - unfold pad2 at 1 2. cbn [app skip_fraction N.eqb Pos.eqb orb andb take_zone].
    change [digit (hh / 10); digit hh] with (pad2 hh). change [digit (mm / 10); digit mm] with (pad2 mm).
    rewrite (T2 hh), (T2 mm) by lia. cbn [obind].
    replace ((hh <=? 24) && (mm <=? 60)) with true by lia.
    do 2 f_equal. lia.
  - unfold pad2 at 1 2. cbn [app skip_fraction N.eqb Pos.eqb orb andb take_zone].
    change [digit (hh / 10); digit hh] with (pad2 hh). change [digit (mm / 10); digit mm] with (pad2 mm).
    rewrite (T2 hh), (T2 mm) by lia. cbn [obind].
    replace ((hh <=? 24) && (mm <=? 60)) with true by lia.
    do 2 f_equal. lia.
Qed.

Lemma zone_text_length off : zone_ok off -> length (zone_text off) = if off =? 0 then 1%nat else 6%nat.
Proof.
  intros Hz. destruct (Z.eq_dec off 0) as [->|Hnz]; [reflexivity|].
  rewrite (zone_text_shape off Hz Hnz).
  replace (off =? 0) with false by (symmetry; apply Z.eqb_neq; exact Hnz). reflexivity.
Qed.

(* ---- parsing a well-formed text ---- *)
Definition text_of (y m d h mi sec : Z) (ztxt : list N) : list N :=
  pad4 y ++ 45%N :: pad2 m ++ 45%N :: pad2 d ++ 84%N :: pad2 h ++ 58%N :: pad2 mi ++ 58%N :: pad2 sec ++ ztxt.

Lemma parse_text_of y m d h mi sec ztxt off :
  0 <= y <= 9999 -> 1 <= m <= 12 -> 1 <= d <= days_in_month y m ->
  0 <= h < 24 -> 0 <= mi < 60 -> 0 <= sec < 60 ->
  take_zone (skip_fraction ztxt) = Some (off, []) ->
  parse_rfc3339 (text_of y m d h mi sec ztxt)
  = Some (days_from_civil y m d * 86400 + h * 3600 + mi * 60 + sec - off, off).
Proof.
  intros Hy Hm Hd Hh Hmi Hs Hz. pose proof (days_in_month_bounds y m) as Hdim.
  unfold parse_rfc3339, text_of.
  rewrite take_year_pad4 by lia. cbn [obind]. rewrite expect_cons. cbn [obind].
  rewrite take2_pad2 by lia. cbn [obind]. rewrite expect_cons. cbn [obind].
  rewrite take2_pad2 by lia. cbn [obind]. rewrite expect_cons. cbn [obind].
  rewrite take_hour_pad2 by lia. cbn [obind]. rewrite expect_cons. cbn [obind].
  rewrite take2_pad2 by lia. cbn [obind]. rewrite expect_cons. cbn [obind].
  rewrite take2_pad2 by lia. cbn [obind]. rewrite Hz. cbn [obind is_nil].
  replace (true && (1 <=? m) && (m <=? 12) && (h <? 24) && (mi <? 60) && (sec <? 60) && (1 <=? d)
           && (d <=? days_in_month y m)) with true by lia.
  reflexivity.
Qed.

(* ---- the printed text ---- *)
Record fields (s off y m d h mi sec : Z) : Prop := {
  f_year : 0 <= y <= 9999;
  f_month : 1 <= m <= 12;
  f_day : 1 <= d <= days_in_month y m;
  f_hour : 0 <= h < 24;
  f_min : 0 <= mi < 60;
  f_sec : 0 <= sec < 60;
  f_instant : days_from_civil y m d * 86400 + h * 3600 + mi * 60 + sec - off = s
}.

Definition in_years_0_9999 (s off : Z) : Prop := -62167219200 <= s + off <= 253402300799.

Lemma format_shape s off : in_years_0_9999 s off ->
  exists y m d h mi sec, fields s off y m d h mi sec /\
    format_rfc3339 s off = text_of y m d h mi sec (zone_text off).
Proof.
  intros Hr. unfold in_years_0_9999 in Hr. unfold format_rfc3339. cbv zeta.
  set (t := s + off) in *.
  pose proof (civil_from_days_facts (t / 86400)) as F.
  destruct (civil_from_days (t / 86400)) as [[y m] d]. cbn [fst snd] in F.
  destruct F as [Fm Fd Fb Fy].
  assert (Hy : 0 <= y <= 9999) by (apply Fy; lia).
  pose proof (days_in_month_bounds y m) as Hdim.
  set (sod := t mod 86400) in *.
  assert (Hsod : 0 <= sod < 86400) by (subst sod; lia).
  exists y, m, d, (sod / 3600), (sod mod 3600 / 60), (sod mod 60). split.
  - constructor; lia.
  - rewrite (append_int_4 y), (append_int_2 m), (append_int_2 d) by lia.
    rewrite (append_int_2 (sod / 3600)), (append_int_2 (sod mod 3600 / 60)), (append_int_2 (sod mod 60)) by lia.
    unfold text_of. reflexivity.
Qed.

(* ---- main theorems ---- *)
Theorem rfc3339_roundtrip s off :
  off mod 60 = 0 -> -86400 < off < 86400 -> -62167219200 <= s + off <= 253402300799 ->
  parse_rfc3339 (format_rfc3339 s off) = Some (s, off).
Proof.
  intros Hm Ho Hr.
  destruct (format_shape s off Hr) as (y & m & d & h & mi & sec & F & E).
  rewrite E. destruct F.
  rewrite (parse_text_of y m d h mi sec (zone_text off) off); try assumption.
  - now rewrite f_instant0.
  - apply take_zone_zone_text. split; assumption.
Qed.

Theorem rfc3339_length s off :
  off mod 60 = 0 -> -86400 < off < 86400 -> -62167219200 <= s + off <= 253402300799 ->
  length (format_rfc3339 s off) = if off =? 0 then 20%nat else 25%nat.
Proof.
  intros Hm Ho Hr.
  destruct (format_shape s off Hr) as (y & m & d & h & mi & sec & _ & E).
  rewrite E. unfold text_of, pad4, pad2. cbn [app length].
  rewrite zone_text_length by (split; assumption). destruct (off =? 0); reflexivity.
Qed.

(* in UTC the bounds are the first second of the year 0 and the last of the year 9999 *)
Theorem rfc3339_roundtrip_utc s : -62167219200 <= s <= 253402300799 ->
  parse_rfc3339 (format_rfc3339 s 0) = Some (s, 0) /\ length (format_rfc3339 s 0) = 20%nat.
Proof.
  intros H. split.
  - apply rfc3339_roundtrip; [reflexivity|lia|lia].
  - now rewrite rfc3339_length by (try reflexivity; lia).
Qed.
