(* C07 - MAC-command encoding is lossless-or-error; command streams are
   self-delimiting; proprietary registration histories.  Statement file. *)
From Coq Require Import List NArith ZArith Bool.
From LW Require Import Base.Outcome Base.Bytes Mac.Commands Mac.Spec Mac.Stream
     Mac.RegistryProofs Mac.DecProofs Mac.EncProofs Mac.StreamProofs Mac.RegOkProofs.
From LWGen Require Import RegistryGen.
Import ListNotations.
Open Scope N_scope.

(* LOSSLESS OR ERROR over the full Go domain of every field (uint8, uint32, int8,
   int, time.Duration): whatever the encoder accepts decodes back to the same value
   to wire resolution (DeviceTimeAns: 1/256 s).  The one exception is explicit:
   finding C07-2, NewChannelReq frequencies in [1.2 GHz, 2.4 GHz) - of which the
   encoder accepts those below 2^24 * 100 Hz - collide with the 200 Hz coding. *)
Theorem C07_lossless_or_error : forall v,
  wf_go v = true ->
  enc v = Err \/
  (exists bs, enc v = Ok bs /\ dec (kind_of v) bs = Ok (wire_resolution v)) \/
  newch_ambiguous v = true.
Proof. exact lossless_or_error. Qed.
Print Assumptions C07_lossless_or_error.

(* the exception is real on today's code: literal statement refuted *)
Theorem C07_newchannel_refuted :
  exists v bs, wf_go v = true /\ enc v = Ok bs /\ dec (kind_of v) bs <> Ok (wire_resolution v).
Proof. exact newchannel_refuted. Qed.
Print Assumptions C07_newchannel_refuted.

(* every value within the specification's field ranges is accepted *)
Theorem C07_in_range_accepted : forall v,
  wf_go v = true -> spec_in_range v = true -> is_ok (enc v) = true.
Proof. exact in_range_accepted. Qed.
Print Assumptions C07_in_range_accepted.

(* registered size = encoded length, for the live registry *)
Theorem C07_registry_sizes : forall up cid sz k,
  reg_lookup builtin_registry up cid = Some (sz, k) -> sz = kind_size k.
Proof. intros up cid sz k H. exact (proj2 (proj2 (registry_complete up cid sz k H))). Qed.
Print Assumptions C07_registry_sizes.

Theorem C07_encoded_length : forall v bs,
  wf_go v = true -> kind_of v <> KProprietary -> enc v = Ok bs ->
  Z.of_nat (length bs) = kind_size (kind_of v).
Proof. exact enc_length. Qed.
Print Assumptions C07_encoded_length.

(* SELF-DELIMITING STREAMS: under any history h of RegisterProprietaryMACCommand
   calls, any sequence of commands (built-in with an accepted payload of the
   registered kind, proprietary with exactly the registered number of bytes, or a
   payload-less CID) of ANY length - in particular up to the 15-byte FOpts and
   242-byte FRMPayload limits - concatenated, decodes into exactly that sequence
   for its direction. *)
Theorem C07_stream : forall h up cmds bs,
  Forall (cmd_ok (register_all builtin_registry h) up) cmds ->
  encode_cmds cmds = Ok bs ->
  decode_stream (register_all builtin_registry h) up bs = Ok (map item_resolution cmds).
Proof. intros h up cmds bs. exact (stream_roundtrip _ up cmds bs (reg_ok_history h)). Qed.
Print Assumptions C07_stream.

(* REGISTRATION HISTORIES: after any history, a (direction, CID) maps to the last
   registration with a positive size in that direction if the CID is proprietary
   (128..255), and to its previous entry otherwise *)
Theorem C07_register_history : forall h r up cid,
  reg_lookup (register_all r h) up cid = spec_entry h up cid (reg_lookup r up cid).
Proof. exact register_history. Qed.
Print Assumptions C07_register_history.

Theorem C07_builtin_unchanged : forall h r up cid, cid < 128 ->
  reg_lookup (register_all r h) up cid = reg_lookup r up cid.
Proof. exact register_builtin_unchanged. Qed.
Print Assumptions C07_builtin_unchanged.

Theorem C07_other_direction_untouched : forall h r up cid,
  Forall (fun x => fst (fst x) = negb up) h ->
  reg_lookup (register_all r h) up cid = reg_lookup r up cid.
Proof. exact register_other_direction. Qed.
Print Assumptions C07_other_direction_untouched.

(* the stream decoder never panics and never runs out of its |input|+1 iterations,
   for any bytes, under any reachable registry (see also C09) *)
Example C07_example_stream :
  decode_stream builtin_registry false [0x03; 0x53; 0x03; 0x00; 0x61; 0x06; 0x0d; 1; 2; 3; 4; 5]
  = Ok [IMac 3 (Some (PLinkADRReq 5 3 (true :: true :: repeat false 14) 6 1)); IMac 6 None;
        IMac 13 (Some (PDeviceTimeAns (67305985 * 1000000000 + 5 * 3906250)))].
Proof. vm_compute. reflexivity. Qed.
