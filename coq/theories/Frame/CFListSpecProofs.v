(* C06: the CFList of channel type is bit for bit its layout (5 x 24-bit frequency / 100 Hz, type octet). *)
From Coq Require Import List NArith ZArith Bool Lia.
From Coq Require Import ZifyN ZifyNat ZifyBool.
From LW Require Import Base.Outcome Base.Bytes Mac.Commands Mac.Spec Mac.Stream Frame.Model Frame.Spec
     Frame.WireSpec Frame.WireSpecProofs Frame.RoundtripProofs.
Import ListNotations.
Open Scope N_scope.

Theorem cflist_channels_is_spec chs b :
  spec_cflist (mkCFList (CFPChannels chs) 0) = Some b ->
  cflist_marshal (mkCFList (CFPChannels chs) 0) = Ok b.
Proof.
  unfold spec_cflist. cbn [cf_payload cf_type].
  destruct (Nat.eqb (length chs) 5 && forallb (fun f => (f mod 100 =? 0) && (f / 100 <? 2 ^ 24)) chs && (0 =? 0)) eqn:E; [|discriminate].
  intros H. injection H as <-.
  apply andb_true_iff in E as [E _]. apply andb_true_iff in E as [L F]. apply PeanoNat.Nat.eqb_eq in L.
  rewrite (cflist_marshal_chans chs 0 L F). f_equal.
  destruct chs as [|c0 [|c1 [|c2 [|c3 [|c4 [|]]]]]]; try discriminate L.
  cbn [forallb] in F. repeat (apply andb_true_iff in F; destruct F as [? F]).
  repeat match goal with X : (_ mod 100 =? 0) && (_ <? 2 ^ 24) = true |- _ => apply andb_true_iff in X; destruct X as [_ X]; apply N.ltb_lt in X end.
  cbn [map concat app]. unfold le3, spec_encode. change (byte_size L_CFListChannels) with (3 + (3 + (3 + (3 + (3 + 1)))))%nat.
  replace (pack L_CFListChannels [c0 / 100; c1 / 100; c2 / 100; c3 / 100; c4 / 100; 0])
    with (c0 / 100 + 256 ^ N.of_nat 3 * (c1 / 100 + 256 ^ N.of_nat 3 * (c2 / 100 + 256 ^ N.of_nat 3 * (c3 / 100 + 256 ^ N.of_nat 3 * (c4 / 100 + 256 ^ N.of_nat 3 * 0))))).
  - change (256 ^ N.of_nat 3) with (2 ^ 24) in *.
    change (2 ^ 24) with (256 ^ N.of_nat 3).
    rewrite !le_bytes_app by (change (256 ^ N.of_nat 3) with (2 ^ 24); assumption).
    rewrite app_nil_r. reflexivity.
  - cbn [pack L_CFListChannels]. change (256 ^ N.of_nat 3) with (2 ^ 24).
    rewrite !N.mod_small by assumption. change (0 mod 2 ^ 8) with 0. lia.
Qed.

Lemma mask_num_val m : mask_num m = mask_val m.
Proof. induction m as [|b m IH]; [reflexivity|]. change (mask_num (b :: m)) with (WireSpec.b2f b + 2 * mask_num m). change (mask_val (b :: m)) with (Mac.Spec.b2f b + 2 * mask_val m). rewrite <- IH. destruct b; reflexivity. Qed.

Lemma chmask_bytes_le m : chmask_bytes m = le_bytes 2 (mask_num m).
Proof.
  unfold chmask_bytes, enc_chmask. rewrite LW.Mac.EncProofs.chmask_val_sum.
  f_equal. rewrite N.pow_0_r, N.mul_1_r. symmetry. apply mask_num_val.
Qed.

Lemma masks6 v0 v1 v2 v3 v4 v5 :
  v0 < 65536 -> v1 < 65536 -> v2 < 65536 -> v3 < 65536 -> v4 < 65536 -> v5 < 65536 ->
  spec_encode L_CFListMasks [v0; v1; v2; v3; v4; v5; 1] =
  le_bytes 2 v0 ++ le_bytes 2 v1 ++ le_bytes 2 v2 ++ le_bytes 2 v3 ++ le_bytes 2 v4 ++ le_bytes 2 v5 ++ [0; 0; 0; 1].
Proof.
  intros H0 H1 H2 H3 H4 H5. unfold spec_encode.
  change (byte_size L_CFListMasks) with (2 + (2 + (2 + (2 + (2 + (2 + 4))))))%nat.
  replace (pack L_CFListMasks [v0; v1; v2; v3; v4; v5; 1])
    with (v0 + 256 ^ N.of_nat 2 * (v1 + 256 ^ N.of_nat 2 * (v2 + 256 ^ N.of_nat 2 * (v3 + 256 ^ N.of_nat 2 *
          (v4 + 256 ^ N.of_nat 2 * (v5 + 256 ^ N.of_nat 2 * 16777216)))))).
  - rewrite !le_bytes_app by (change (256 ^ N.of_nat 2) with 65536; assumption). reflexivity.
  - cbn [pack L_CFListMasks]. change (256 ^ N.of_nat 2) with 65536. change (2 ^ 16) with 65536. change (2 ^ 8) with 256.
    rewrite !N.mod_small by (assumption || reflexivity). lia.
Qed.

Theorem cflist_masks_is_spec ms b :
  spec_cflist (mkCFList (CFPMasks ms) 1) = Some b ->
  cflist_marshal (mkCFList (CFPMasks ms) 1) = Ok b.
Proof.
  unfold spec_cflist. cbn [cf_payload cf_type].
  destruct ((length ms <=? 6)%nat && forallb (fun m => Nat.eqb (length m) 16) ms && (1 =? 1)) eqn:E; [|discriminate].
  intros H. injection H as <-.
  apply andb_true_iff in E as [E _]. apply andb_true_iff in E as [L F]. apply PeanoNat.Nat.leb_le in L.
  rewrite (cflist_marshal_masks ms 1 L). f_equal.
  assert (Hm : forall m, In m ms -> mask_num m < 65536).
  { intros m Hin. rewrite forallb_forall in F. specialize (F m Hin). apply PeanoNat.Nat.eqb_eq in F.
    rewrite mask_num_val. pose proof (LW.Mac.EncProofs.mask_val_lt m) as X. rewrite F in X. exact X. }
  destruct ms as [|m0 [|m1 [|m2 [|m3 [|m4 [|m5 [|]]]]]]]; cbn [length] in L; try lia;
    cbn [map concat app length repeat firstn Nat.sub Nat.mul Nat.add];
    rewrite ?chmask_bytes_le;
    rewrite masks6 by (first [apply Hm; simpl; tauto | reflexivity]);
    cbn [le_bytes app]; rewrite ?app_nil_r; repeat rewrite <- app_assoc; reflexivity.
Qed.

(* C06, decode direction: the three octets after the six channel-masks of a channel-mask CFList are
   RFU; what they hold does not reach the decoded value (finding C06-2, fixed by e2c2b92: the decoder
   used to read octets 12-13 as a seventh mask). *)
Theorem cflist_masks_rfu_ignored a b :
  length a = 16%nat -> length b = 16%nat -> nth 15 a 0 = 1 -> nth 15 b 0 = 1 ->
  firstn 12 a = firstn 12 b -> cflist_unmarshal a = cflist_unmarshal b.
Proof.
  intros La Lb Ta Tb E. unfold cflist_unmarshal. rewrite La, Lb, Ta, Tb. cbn [Nat.eqb negb].
  change (1 =? 1) with true. cbv iota. rewrite !firstn_firstn. cbn [Nat.min]. rewrite E. reflexivity.
Qed.

(* the decoded value holds at most six masks: the encoder accepts it *)
Lemma masks_loop_length : forall fuel data p acc,
  (length (masks_loop data fuel p acc) <= length acc + length p + length data / 2)%nat.
Proof.
  induction fuel as [|f IH]; intros data p acc.
  { generalize (length data / 2)%nat. intros q. destruct data; cbn [masks_loop]; lia. }
  destruct data as [|x [|y rest]]; cbn [masks_loop];
    try (match goal with |- (_ <= _ + _ + ?q)%nat => generalize q; intros q'; lia end).
  assert (D : (length (x :: y :: rest) / 2 = S (length rest / 2))%nat).
  { cbn [length]. change (S (S (length rest))) with (1 * 2 + length rest)%nat.
    rewrite Nat.add_comm, Nat.div_add by discriminate. generalize (length rest / 2)%nat. intros q. lia. }
  rewrite D. clear D.
  destruct (existsb _ _).
  - etransitivity; [apply IH|]. rewrite !app_length. cbn [length]. generalize (length rest / 2)%nat. intros q. lia.
  - etransitivity; [apply IH|]. rewrite !app_length. cbn [length]. generalize (length rest / 2)%nat. intros q. lia.
Qed.

Theorem cflist_masks_at_most_six c l :
  cflist_unmarshal c = Ok l -> nth 15 c 0 = 1 ->
  exists ms, cf_payload l = CFPMasks ms /\ (length ms <= 6)%nat.
Proof.
  unfold cflist_unmarshal. destruct (negb (Nat.eqb (length c) 16)); [discriminate|].
  intros H T. rewrite T in H. change (1 =? 1) with true in H. cbv iota in H. injection H as <-.
  eexists. split; [reflexivity|].
  etransitivity; [apply masks_loop_length|]. cbn [length Nat.add].
  pose proof (firstn_le_length 12 (firstn 15 c)) as L.
  assert (D : (length (firstn 12 (firstn 15 c)) / 2 <= 12 / 2)%nat) by (apply Nat.div_le_mono; [discriminate|exact L]).
  exact D.
Qed.

(* join-accept: the RFU bits of the RxDelay octet do not reach the decoded value *)
Lemma land15_idem x : N.land (N.land x 15) 15 = N.land x 15.
Proof. rewrite <- N.land_assoc. reflexivity. Qed.

Lemma ja_rxdelay_rfu_ignored_12 j0 j1 j2 n2 n1 n0 a3 a2 a1 a0 dl rxd :
  joinaccept_unmarshal [j0; j1; j2; n2; n1; n0; a3; a2; a1; a0; dl; rxd] =
  joinaccept_unmarshal [j0; j1; j2; n2; n1; n0; a3; a2; a1; a0; dl; N.land rxd 15].
Proof. rewrite !ja_unmarshal_12, land15_idem. reflexivity. Qed.

Lemma ja_rxdelay_rfu_ignored_28 j0 j1 j2 n2 n1 n0 a3 a2 a1 a0 dl rxd cf : length cf = 16%nat ->
  joinaccept_unmarshal (j0 :: j1 :: j2 :: n2 :: n1 :: n0 :: a3 :: a2 :: a1 :: a0 :: dl :: rxd :: cf) =
  joinaccept_unmarshal (j0 :: j1 :: j2 :: n2 :: n1 :: n0 :: a3 :: a2 :: a1 :: a0 :: dl :: N.land rxd 15 :: cf).
Proof. intros L. rewrite !ja_unmarshal_28 by exact L. rewrite land15_idem. reflexivity. Qed.

Lemma fhdr_too_long_refused h opts :
  items_marshal (fopts h) = Ok opts -> (15 < length opts)%nat -> fhdr_marshal h = Err.
Proof.
  intros Ho Hl. unfold fhdr_marshal. rewrite Ho. cbn [bind]. cbv zeta.
  replace (15 <? N.of_nat (length opts)) with true by lia. reflexivity.
Qed.
