(* LoRa time on air as defined in Semtech AN1200.13 "LoRa Modem Designer's
   Guide" section 4 (also SX1272/76 data sheets), over exact rationals:

     T_sym      = 2^SF / BW
     T_preamble = (n_preamble + 4.25) * T_sym
     n_payload  = 8 + max( ceil( (8 PL - 4 SF + 28 + 16 CRC - 20 IH) / (4 (SF - 2 DE)) ) * (CR + 4), 0 )
     T_packet   = T_preamble + n_payload * T_sym

   PL payload bytes, IH = 1 when the header is absent (implicit), DE = 1 with
   low-data-rate optimisation, CR = 1..4, CRC = 1 (payload CRC present; the
   implementation has no parameter for it).  BW is given in kHz, times are in
   nanoseconds: T_sym = 2^SF * 10^6 / BW_kHz. *)
From Coq Require Import ZArith QArith Qround Bool.
Open Scope Q_scope.

Definition zq (z : Z) : Q := inject_Z z.
Definition bq (b : bool) : Q := if b then 1 else 0.

Definition spec_tsym (sf bw : Z) : Q := zq (2 ^ sf) * 1000000 / zq bw.

Definition spec_npayload (pl sf cr : Z) (header ldro : bool) : Z :=
  (8 + Z.max (Qceiling ((8 * zq pl - 4 * zq sf + 28 + 16 * 1 - 20 * bq (negb header))
                         / (4 * (zq sf - 2 * bq ldro))) * (cr + 4)) 0)%Z.

Definition spec_tpreamble (sf bw pre : Z) : Q := (zq pre + 4.25) * spec_tsym sf bw.

Definition spec_airtime (pl sf bw pre cr : Z) (header ldro : bool) : Q :=
  spec_tpreamble sf bw pre + zq (spec_npayload pl sf cr header ldro) * spec_tsym sf bw.

(* total number of symbols, preamble included *)
Definition spec_total_symbols (pl sf pre cr : Z) (header ldro : bool) : Q :=
  zq pre + 4.25 + zq (spec_npayload pl sf cr header ldro).
