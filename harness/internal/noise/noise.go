// Package noise performs unrelated calls into the lorawan package between the calls a harness
// compares with the model. The library documents no state that survives a call (except the
// proprietary MAC-command registry, which noise never touches), so none of this may change what a
// later call returns; a harness that sees a difference reports it as a model mismatch or as a
// "history:" failure. Every action recovers from panics: noise itself never fails a check.
package noise

import (
	"fmt"

	"github.com/brocaar/lorawan"
	"verifharness/internal/cases"
	"verifharness/internal/cq"
	"verifharness/internal/framefmt"
)

func key(r *cq.RNG) (k lorawan.AES128Key) {
	switch r.Intn(5) {
	case 0: // the all-zero key
	case 1:
		for i := range k {
			k[i] = 0x02
		}
	default:
		copy(k[:], r.Bytes(16))
	}
	return
}

func version(r *cq.RNG) lorawan.MACVersion {
	if r.Bool() {
		return lorawan.LoRaWAN1_0
	}
	return lorawan.LoRaWAN1_1
}

func frame(r *cq.RNG) lorawan.PHYPayload {
	o := framefmt.ValidDataOpt(r)
	switch r.Intn(6) {
	case 0: // long application payload
		o.Port, o.FRMAsMAC, o.FRMLen = 1+r.Intn(200), false, 33+r.Intn(200)
	case 1: // FOpts present
		o.FOptsBytes = 1 + r.Intn(15)
		if o.Port == 0 {
			o.Port = 1 + r.Intn(200)
		}
	case 2: // one MAC command on port 0
		o.Port, o.FRMAsMAC, o.FRMLen, o.FOptsBytes = 0, true, 1+r.Intn(5), 0
	case 3: // cannot be encoded: payload without port
		o.Port, o.FRMLen = -1, 1+r.Intn(20)
	}
	return framefmt.DataFrame(r, o)
}

func up(p lorawan.PHYPayload) bool {
	return p.MHDR.MType == lorawan.UnconfirmedDataUp || p.MHDR.MType == lorawan.ConfirmedDataUp
}

// Step performs a few random unrelated library calls.
func Step(r *cq.RNG) {
	n := 1 + r.Intn(3)
	for i := 0; i < n; i++ {
		one(r)
	}
}

func one(r *cq.RNG) {
	defer func() { _ = recover() }()
	k := r.Intn(15)
	// under the harness watchdog: a library call that does not return is reported, not waited for
	cases.Begin(fmt.Sprintf("unrelated-call-%d", k), map[string]interface{}{"where": "internal/noise action " + fmt.Sprint(k)})
	defer cases.End()
	switch k {
	case 0: // data MIC, both directions, both versions, long and short frames
		p := frame(r)
		if up(p) {
			_ = p.SetUplinkDataMIC(version(r), uint32(r.Intn(70000)), uint8(r.Intn(16)), uint8(r.Intn(72)), key(r), key(r))
			_, _ = p.ValidateUplinkDataMIC(version(r), uint32(r.Intn(70000)), uint8(r.Intn(16)), uint8(r.Intn(72)), key(r), key(r))
			_, _ = p.ValidateUplinkDataMICF(key(r))
		} else {
			_ = p.SetDownlinkDataMIC(version(r), uint32(r.Intn(70000)), key(r))
			_, _ = p.ValidateDownlinkDataMIC(version(r), uint32(r.Intn(70000)), key(r))
		}
	case 1: // FRMPayload encryption / decryption, either direction
		p := frame(r)
		k := key(r)
		_ = p.EncryptFRMPayload(k)
		if r.Bool() {
			_ = p.DecryptFRMPayload(k)
		}
		_, _ = lorawan.EncryptFRMPayload(key(r), r.Bool(), lorawan.DevAddr{1, 2, 3, 4}, r.U32(), r.Bytes(r.Intn(40)))
	case 2: // FOpts encryption
		p := frame(r)
		k := key(r)
		_ = p.EncryptFOpts(k)
		if r.Bool() {
			_ = p.DecryptFOpts(k)
		}
		_, _ = lorawan.EncryptFOpts(key(r), r.Bool(), r.Bool(), lorawan.DevAddr{4, 3, 2, 1}, r.U32(), r.Bytes(r.Intn(16)))
	case 3: // join MICs, including requests that cannot be encoded
		j := framefmt.JoinFrame(r, r.Intn(5))
		switch v := j.MACPayload.(type) {
		case *lorawan.RejoinRequestType02Payload:
			if r.Bool() {
				v.RejoinType = 1
			}
		case *lorawan.RejoinRequestType1Payload:
			if r.Bool() {
				v.RejoinType = 0
			}
		}
		if j.MHDR.MType == lorawan.JoinAccept {
			_ = j.SetDownlinkJoinMIC(lorawan.JoinType(r.Intn(4)), lorawan.EUI64{1}, lorawan.DevNonce(r.Intn(65536)), key(r))
			_, _ = j.ValidateDownlinkJoinMIC(lorawan.JoinType(r.Intn(4)), lorawan.EUI64{1}, lorawan.DevNonce(r.Intn(65536)), key(r))
		} else {
			_ = j.SetUplinkJoinMIC(key(r))
			_, _ = j.ValidateUplinkJoinMIC(key(r))
		}
	case 4: // join-accept encryption and decryption
		j := framefmt.JoinFrame(r, 1)
		k := key(r)
		_ = j.SetDownlinkJoinMIC(lorawan.JoinRequestType, lorawan.EUI64{2}, 7, k)
		_ = j.EncryptJoinAcceptPayload(k)
		if r.Bool() {
			k = key(r)
		}
		_ = j.DecryptJoinAcceptPayload(k)
	case 5: // encoders that fail
		p := frame(r)
		switch r.Intn(4) {
		case 0:
			p.MACPayload = nil
		case 1:
			p.MACPayload = &lorawan.JoinRequestPayload{}
		case 2:
			if m, ok := p.MACPayload.(*lorawan.MACPayload); ok {
				m.FPort = nil
				m.FRMPayload = []lorawan.Payload{&lorawan.DataPayload{Bytes: []byte{1}}}
			}
		}
		_, _ = p.MarshalBinary()
		_, _ = p.MarshalText()
		_, _ = p.MarshalJSON()
	case 6: // decoding random and valid bytes into fresh and reused values
		var q lorawan.PHYPayload
		for k := 0; k < 1+r.Intn(3); k++ {
			p := frame(r)
			if r.Intn(4) == 0 {
				p = framefmt.JoinFrame(r, r.Intn(5))
			}
			if b, err := p.MarshalBinary(); err == nil {
				if r.Intn(5) == 0 && len(b) > 2 {
					b = b[:r.Intn(len(b))]
				}
				if q.UnmarshalBinary(b) == nil && r.Bool() {
					_ = q.DecodeFOptsToMACCommands()
					_ = q.DecodeFRMPayloadToMACCommands()
				}
			}
		}
		_ = q.UnmarshalBinary(r.Bytes(r.Intn(40)))
	case 7: // address prefixes and NetID types
		var n lorawan.NetID
		copy(n[:], r.Bytes(3))
		if r.Bool() {
			n[0] |= 0xe0
		}
		var d lorawan.DevAddr
		copy(d[:], r.Bytes(4))
		d.SetAddrPrefix(n)
		_ = d.IsNetID(n)
		_ = d.NetIDType()
		_ = d.NwkID()
		_ = n.ID()
		_ = n.Type()
	case 8: // identifier codecs
		var e lorawan.EUI64
		var k lorawan.AES128Key
		b8, b16 := r.Bytes(8), r.Bytes(16)
		_ = e.UnmarshalBinary(b8)
		_ = k.UnmarshalBinary(b16)
		_, _ = e.MarshalBinary()
		_, _ = k.MarshalBinary()
		_, _ = e.MarshalText()
		_ = k.UnmarshalText([]byte(k.String()))
	case 9: // registry look-ups (never a registration)
		_, _, _ = lorawan.GetMACPayloadAndSize(r.Bool(), lorawan.CID(r.Intn(256)))
	case 10: // single MAC commands
		cmds := framefmt.ValidCmds(r, r.Bool(), 1+r.Intn(15))
		for _, c := range cmds {
			if b, err := c.MarshalBinary(); err == nil {
				var m lorawan.MACCommand
				_ = m.UnmarshalBinary(r.Bool(), b)
			}
		}
	case 11: // join-accept payload and CFList codecs
		ja := framefmt.JoinFrame(r, 1).MACPayload.(*lorawan.JoinAcceptPayload)
		if b, err := ja.MarshalBinary(); err == nil {
			var q lorawan.JoinAcceptPayload
			_ = q.UnmarshalBinary(false, b)
		}
		if c := framefmt.RandomCFList(r); c != nil {
			if b, err := c.MarshalBinary(); err == nil {
				var q lorawan.CFList
				_ = q.UnmarshalBinary(b)
			}
		}
	case 12: // uplink then downlink (and back) with one key and counters that share their low 16 bits
		k := key(r)
		f := r.U32()
		d := lorawan.DevAddr{9, 9, 9, 9}
		_, _ = lorawan.EncryptFRMPayload(k, true, d, f, r.Bytes(20))
		_, _ = lorawan.EncryptFRMPayload(k, false, d, f, r.Bytes(20))
		_, _ = lorawan.EncryptFRMPayload(k, true, d, f^0x10000, r.Bytes(20))
	case 13: // what an encoder returns belongs to the caller: append to it and overwrite it
		spoil := func(b []byte, err error) {
			if err != nil {
				return
			}
			b = append(b, 0xa5, 0x5a, 0xff, 0x00, 0xa5, 0x5a, 0xff, 0x00)
			b = b[:cap(b)]
			for i := range b {
				b[i] ^= 0xff
			}
		}
		p := frame(r)
		spoil(p.MHDR.MarshalBinary())
		spoil(p.MarshalBinary())
		spoil(p.MarshalText())
		if m, ok := p.MACPayload.(*lorawan.MACPayload); ok {
			spoil(m.MarshalBinary())
			spoil(m.FHDR.MarshalBinary())
			spoil(m.FHDR.FCtrl.MarshalBinary())
			spoil(m.FHDR.DevAddr.MarshalBinary())
			spoil(m.FHDR.DevAddr.MarshalText())
			for _, c := range m.FHDR.FOpts {
				spoil(c.MarshalBinary())
			}
		}
		j := framefmt.JoinFrame(r, r.Intn(5))
		spoil(j.MACPayload.MarshalBinary())
		spoil(j.MHDR.MarshalBinary())
		if ja, ok := j.MACPayload.(*lorawan.JoinAcceptPayload); ok {
			spoil(ja.DLSettings.MarshalBinary())
			spoil(ja.HomeNetID.MarshalBinary())
			spoil(ja.JoinNonce.MarshalBinary())
			if ja.CFList != nil {
				spoil(ja.CFList.MarshalBinary())
			}
		}
		var e lorawan.EUI64
		copy(e[:], r.Bytes(8))
		spoil(e.MarshalBinary())
		spoil(e.MarshalText())
		k := key(r)
		spoil(k.MarshalBinary())
		spoil(k.MarshalText())
		for _, c := range framefmt.ValidCmds(r, r.Bool(), 10) {
			spoil(c.MarshalBinary())
			if mc, ok := c.(*lorawan.MACCommand); ok && mc.Payload != nil {
				spoil(mc.Payload.MarshalBinary())
			}
		}
	default: // text forms
		p := frame(r)
		if t, err := p.MarshalText(); err == nil {
			var q lorawan.PHYPayload
			_ = q.UnmarshalText(t)
		}
	}
}
