(* C07 - MAC-command encoding is lossless-or-error; command streams are
   self-delimiting; proprietary registration histories.  Statement file. *)
From Coq Require Import List NArith ZArith Bool.
From LW Require Import Base.Outcome Base.Bytes Mac.Commands Mac.Spec Mac.Stream
     Mac.RegistryProofs Mac.DecProofs Mac.EncProofs Mac.StreamProofs Mac.RegOkProofs.
From LWGen Require Import RegistryGen.
Import ListNotations.
Open Scope N_scope.

(* LOSSLESS OR ERROR over the full Go domain of every field (uint8, uint32, int8,
   int, time.Duration): whatever the encoder accepts decodes back to the same value
   to wire resolution (DeviceTimeAns: 1/256 s).  The one exception is explicit:
   finding C07-2, NewChannelReq frequencies in [1.2 GHz, 2.4 GHz) - of which the
   encoder accepts those below 2^24 * 100 Hz - collide with the 200 Hz coding. *)
Theorem C07_lossless_or_error : forall v,
  wf_go v = true ->
  enc v = Err \/
  (exists bs, enc v = Ok bs /\ dec (kind_of v) bs = Ok (wire_resolution v)) \/
  newch_ambiguous v = true.
Proof. exact lossless_or_error. Qed.
Print Assumptions C07_lossless_or_error.

(* the exception is real on today's code: literal statement refuted *)
Theorem C07_newchannel_refuted :
  exists v bs, wf_go v = true /\ enc v = Ok bs /\ dec (kind_of v) bs <> Ok (wire_resolution v).
Proof. exact newchannel_refuted. Qed.
Print Assumptions C07_newchannel_refuted.

(* every value within the specification's field ranges is accepted *)
Theorem C07_in_range_accepted : forall v,
  wf_go v = true -> spec_in_range v = true -> is_ok (enc v) = true.
Proof. exact in_range_accepted. Qed.
Print Assumptions C07_in_range_accepted.

(* registered size = encoded length, for the live registry *)
Theorem C07_registry_sizes : forall up cid sz k,
  reg_lookup builtin_registry up cid = Some (sz, k) -> sz = kind_size k.
Proof. intros up cid sz k H. exact (proj2 (proj2 (registry_complete up cid sz k H))). Qed.
Print Assumptions C07_registry_sizes.

Theorem C07_encoded_length : forall v bs,
  wf_go v = true -> kind_of v <> KProprietary -> enc v = Ok bs ->
  Z.of_nat (length bs) = kind_size (kind_of v).
Proof. exact enc_length. Qed.
Print Assumptions C07_encoded_length.

(* SELF-DELIMITING STREAMS: under any history h of RegisterProprietaryMACCommand
   calls, any sequence of commands (built-in with an accepted payload of the
   registered kind, proprietary with exactly the registered number of bytes, or a
   payload-less CID) of ANY length - the empty sequence, and in particular up to
   the 15-byte FOpts and 242-byte FRMPayload limits - concatenated, decodes into
   exactly that sequence for its direction.
   The premise [cmd_ok] is explicit and necessary: "a command of that direction" =
   the payload is what the registry of that moment holds for (direction, CID).
   MACCommand.MarshalBinary has no direction argument and does not check it
   (finding C07-8, known): C07_stream_unchecked_refuted below. *)
Theorem C07_stream : forall h up cmds bs,
  Forall (cmd_ok (register_all builtin_registry h) up) cmds ->
  encode_cmds cmds = Ok bs ->
  decode_stream (register_all builtin_registry h) up bs = Ok (map item_resolution cmds).
Proof. intros h up cmds bs. exact (stream_roundtrip _ up cmds bs (reg_ok_history h)). Qed.
Print Assumptions C07_stream.

(* without the premise the statement is false on today's code: a CID sent without the payload
   it has, with a payload it does not have, or a proprietary payload whose length is not the
   registered size all encode without error and decode as another sequence *)
Theorem C07_stream_unchecked_refuted :
  unchecked_witness [] false [IMac 3 None; IMac 6 None; IMac 6 None; IMac 6 None; IMac 6 None] /\
  unchecked_witness [] false [IMac 6 (Some (PDevStatusAns 6 6))] /\
  unchecked_witness [(false, 160, 2%Z)] false [IMac 160 (Some (PProprietary [6; 6; 6])); IMac 6 None; IMac 6 None] /\
  unchecked_witness [(false, 160, 2%Z)] false [IMac 160 (Some (PProprietary [6])); IMac 6 None; IMac 6 None] /\
  unchecked_witness [(false, 160, 2%Z)] false [IMac 161 (Some (PProprietary [6; 6])); IMac 6 None; IMac 6 None].
Proof. exact stream_unchecked_refuted. Qed.
Print Assumptions C07_stream_unchecked_refuted.

(* REGISTRATION HISTORIES: after any history, a proprietary (direction, CID) (128..255) maps
   to the last accepted registration (size >= 0) in that direction - a positive size is the
   framing size, size 0 is "no payload": no entry, also after an earlier positive size
   (finding C07-6, fixed) -, and any other (direction, CID) to its previous entry *)
Theorem C07_register_history : forall h r up cid,
  reg_lookup (register_all r h) up cid = spec_entry h up cid (reg_lookup r up cid).
Proof. exact register_history. Qed.
Print Assumptions C07_register_history.

(* spelled out for the audited history: size n > 0, then size 0, both accepted - the CID is framed
   with 0 bytes again *)
Theorem C07_reregister_zero : forall r up cid n, 128 <= cid <= 255 -> (0 < n)%Z ->
  reg_lookup (register_all r [(up, cid, n); (up, cid, 0%Z)]) up cid = None.
Proof. exact reregister_zero. Qed.
Print Assumptions C07_reregister_zero.

Theorem C07_builtin_unchanged : forall h r up cid, cid < 128 ->
  reg_lookup (register_all r h) up cid = reg_lookup r up cid.
Proof. exact register_builtin_unchanged. Qed.
Print Assumptions C07_builtin_unchanged.

Theorem C07_other_direction_untouched : forall h r up cid,
  Forall (fun x => fst (fst x) = negb up) h ->
  reg_lookup (register_all r h) up cid = reg_lookup r up cid.
Proof. exact register_other_direction. Qed.
Print Assumptions C07_other_direction_untouched.

(* the stream decoder never panics and never runs out of its |input|+1 iterations,
   for any bytes, under any reachable registry (see also C09) *)
Example C07_example_stream :
  decode_stream builtin_registry false [0x03; 0x53; 0x03; 0x00; 0x61; 0x06; 0x0d; 1; 2; 3; 4; 5]
  = Ok [IMac 3 (Some (PLinkADRReq 5 3 (true :: true :: repeat false 14) 6 1)); IMac 6 None;
        IMac 13 (Some (PDeviceTimeAns (67305985 * 1000000000 + 5 * 3906250)))].
Proof. vm_compute. reflexivity. Qed.
