(* The float arithmetic that the struct layer uses of Frequency / Percentage (PayloadProofs.float_facts), from
   F64Proofs / F64Finite (IEEE-754 semantics of Coq's primitive floats through Flocq), and the resulting form of the
   round-trip theorem for types WITH float fields: the only premise left is the one about strconv's decimal text. *)
From Coq Require Import List NArith ZArith Bool Floats.
From LW Require Import Backend.F64 Backend.F64Proofs Backend.F64Finite Backend.Json Backend.Payload Backend.PayloadProofs.
Import ListNotations.

Theorem float_facts_hold : float_facts.
Proof.
  intros z Hz. repeat split.
  - apply freq_exact, Hz.
  - apply (freq_marshal_finite z Hz).
  - apply pct_exact_real, Hz.
  - apply (pct_marshal_finite z Hz).
Qed.

Theorem decode_encode_floats c t v :
  codec_ok c -> twf t = true -> (tdepth t <= 1000)%nat -> has_type t false v = true ->
  decode c t (encode c t v) = Some (norm t false v).
Proof.
  intros Hc Hw Hd Ht. apply decode_encode; auto. right. split; [exact Hc|exact float_facts_hold].
Qed.
