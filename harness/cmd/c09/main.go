// Correspondence harness for C09: every decoding entry point, on arbitrary
// bytes / text, returns a value or an error - no panic, no hang, and the input
// buffer is left untouched.
package main

import (
	"bytes"
	"encoding/base64"
	"encoding/json"
	"fmt"
	"io"
	"log"
	"math"
	"os"
	"os/exec"
	"runtime"
	"runtime/debug"
	"strconv"
	"strings"
	"sync"
	"syscall"
	"time"

	"github.com/brocaar/lorawan"
	"github.com/brocaar/lorawan/applayer/clocksync"
	"github.com/brocaar/lorawan/applayer/firmwaremanagement"
	"github.com/brocaar/lorawan/applayer/fragmentation"
	"github.com/brocaar/lorawan/applayer/multicastsetup"
	"github.com/brocaar/lorawan/backend"
	"verifharness/internal/cases"
	"verifharness/internal/cq"
	"verifharness/internal/framefmt"
	"verifharness/internal/macfmt"
	"verifharness/internal/noise"
	"verifharness/internal/reuse"
)

var (
	nr     *cq.RNG
	reused reuse.Receiver
)

// guard runs f on a private copy of in and reports panic / slow call / modified input.
// scaling: "time linear in the input" for the command-stream decoders, measured as bytes allocated (a
// deterministic proxy for work): a well-formed stream of 4n payload-carrying commands may allocate about
// 4 times what n commands allocate, not 16 times. Streams are far longer than a radio frame on purpose.
func scaling(s *cases.Set, thorough bool) {
	type dec struct {
		name string
		f    func(up bool, b []byte) (int, error)
	}
	decs := []dec{
		{"clocksync.Commands", func(up bool, b []byte) (int, error) {
			var c clocksync.Commands
			err := c.UnmarshalBinary(up, b)
			return len(c), err
		}},
		{"multicastsetup.Commands", func(up bool, b []byte) (int, error) {
			var c multicastsetup.Commands
			err := c.UnmarshalBinary(up, b)
			return len(c), err
		}},
		{"fragmentation.Commands", func(up bool, b []byte) (int, error) {
			var c fragmentation.Commands
			err := c.UnmarshalBinary(up, b)
			return len(c), err
		}},
		{"firmwaremanagement.Commands", func(up bool, b []byte) (int, error) {
			var c firmwaremanagement.Commands
			err := c.UnmarshalBinary(up, b)
			return len(c), err
		}},
		{"DecodeFRMPayloadToMACCommands", func(up bool, b []byte) (int, error) {
			port := uint8(0)
			phy := lorawan.PHYPayload{MHDR: lorawan.MHDR{MType: mtype(up)}, MACPayload: &lorawan.MACPayload{FPort: &port, FRMPayload: []lorawan.Payload{&lorawan.DataPayload{Bytes: b}}}}
			err := phy.DecodeFRMPayloadToMACCommands()
			return len(phy.MACPayload.(*lorawan.MACPayload).FRMPayload), err
		}},
	}
	n := 1500
	if thorough {
		n = 6000
	}
	measured := 0
	for _, d := range decs {
		for _, up := range []bool{true, false} {
			for cid := 0; cid < 16; cid++ {
				for k := 1; k <= 10; k++ { // a command with k payload bytes
					unit := append([]byte{byte(cid)}, make([]byte, k)...)
					ok := func() (ok bool) {
						defer func() { _ = recover() }()
						c, err := d.f(up, bytes.Repeat(unit, 3))
						return err == nil && c == 3
					}()
					if !ok {
						continue
					}
					alloc := func(m int) (a uint64, good bool) {
						defer func() { _ = recover() }()
						in := bytes.Repeat(unit, m)
						what := fmt.Sprintf("%s: %d commands of %d bytes", d.name, m, k+1)
						cases.Begin(what, map[string]interface{}{"decoder": d.name, "uplink": up, "command": fmt.Sprintf("%x", unit), "count": m})
						defer cases.End()
						var m0, m1 runtime.MemStats
						runtime.ReadMemStats(&m0)
						c, err := d.f(up, in)
						runtime.ReadMemStats(&m1)
						return m1.TotalAlloc - m0.TotalAlloc, err == nil && c == m
					}
					a1, g1 := alloc(n)
					a4, g4 := alloc(4 * n)
					measured++
					if g1 && g4 && a1 > 0 && float64(a4) > 8*float64(a1) {
						s.Fail(cases.GoFail{Key: fmt.Sprintf("superlinear:%s:up=%v:%x", d.name, up, unit),
							What:   fmt.Sprintf("%s allocates %d bytes for %d commands and %d bytes for %d commands (ratio %.1f, linear would be 4)", d.name, a1, n, a4, 4*n, float64(a4)/float64(a1)),
							Replay: map[string]interface{}{"decoder": d.name, "uplink": up, "command": fmt.Sprintf("%x", unit), "counts": []int{n, 4 * n}}})
					}
					break // one payload size per CID is enough
				}
			}
		}
	}
	s.Extra["scaling_measurements"] = measured
}

// roCopy returns a copy of in that lives in a page the process may only read (nil when that is not
// possible): a decoder that writes to its input, even if it restores the bytes before returning, faults.
func roCopy(in []byte) (buf []byte, release func()) {
	if len(in) == 0 {
		return nil, nil
	}
	n := (len(in) + 4095) &^ 4095
	mem, err := syscall.Mmap(-1, 0, n, syscall.PROT_READ|syscall.PROT_WRITE, syscall.MAP_ANON|syscall.MAP_PRIVATE)
	if err != nil {
		return nil, nil
	}
	copy(mem, in)
	if err := syscall.Mprotect(mem, syscall.PROT_READ); err != nil {
		_ = syscall.Munmap(mem)
		return nil, nil
	}
	return mem[:len(in):len(in)], func() { _ = syscall.Munmap(mem) }
}

func guard(s *cases.Set, name string, in []byte, f func(b []byte)) {
	// first on read-only memory (writes fault), then on an ordinary copy that is compared afterwards
	if ro, release := roCopy(in); ro != nil {
		func() {
			old := debug.SetPanicOnFault(true)
			defer debug.SetPanicOnFault(old)
			defer release()
			defer func() {
				if r := recover(); r != nil {
					// a fault at a known address (runtime's panicmemAddr): with SetPanicOnFault the write to the PROT_READ page ends here
					if e, ok := r.(runtime.Error); ok && func() bool {
						_, hasAddr := r.(interface{ Addr() uintptr })
						return hasAddr || strings.Contains(e.Error(), "fault")
					}() {
						s.Fail(cases.GoFail{Key: fmt.Sprintf("writes-input:%s:%x", name, in), What: name + " writes to its input buffer (fault on a read-only page): " + e.Error(),
							Replay: map[string]interface{}{"entry": name, "input": fmt.Sprintf("%x", in), "how": "input placed in a PROT_READ page"}})
					}
				}
			}()
			cases.Begin(fmt.Sprintf("%s:%x", name, in), map[string]interface{}{"entry": name, "input": fmt.Sprintf("%x", in)})
			defer cases.End()
			f(ro)
		}()
	}
	buf := append([]byte{}, in...)
	t0 := time.Now()
	cases.Begin(fmt.Sprintf("%s:%x", name, in), map[string]interface{}{"entry": name, "input": fmt.Sprintf("%x", in)})
	defer cases.End()
	func() {
		defer func() {
			if r := recover(); r != nil {
				s.Fail(cases.GoFail{Key: fmt.Sprintf("panic:%s:%x", name, in), What: fmt.Sprintf("%s panics: %v", name, r),
					Replay: map[string]interface{}{"entry": name, "input": fmt.Sprintf("%x", in)}})
			}
		}()
		f(buf)
	}()
	if d := time.Since(t0); d > 200*time.Millisecond {
		s.Fail(cases.GoFail{Key: fmt.Sprintf("slow:%s:%x", name, in), What: fmt.Sprintf("%s took %v on %d bytes", name, d, len(in)),
			Replay: map[string]interface{}{"entry": name, "input": fmt.Sprintf("%x", in)}})
	}
	if !bytes.Equal(buf, in) {
		s.Fail(cases.GoFail{Key: fmt.Sprintf("writes-input:%s:%x", name, in), What: name + " modified its input buffer",
			Replay: map[string]interface{}{"entry": name, "input": fmt.Sprintf("%x", in)}})
	}
}

func min(a, b int) int {
	if a < b {
		return a
	}
	return b
}

func mtype(up bool) lorawan.MType {
	if up {
		return lorawan.UnconfirmedDataUp
	}
	return lorawan.UnconfirmedDataDown
}

var history []string

func histTerm() string { return cq.List(history) }

func phyCase(s *cases.Set, b []byte, kind string) {
	o := cq.Err
	cases.Begin(fmt.Sprintf("PHYPayload.UnmarshalBinary:%x", b), map[string]interface{}{"api": "PHYPayload.UnmarshalBinary", "bytes": fmt.Sprintf("%x", b)})
	defer cases.End()
	func() {
		defer func() {
			if r := recover(); r != nil {
				o = cq.Panic
			}
		}()
		var p lorawan.PHYPayload
		in := append([]byte{}, b...)
		if err := p.UnmarshalBinary(in); err == nil {
			o = cq.Ok(framefmt.Phy(p, framefmt.DecodedFOptsLen(b)))
			reuse.CheckIsolation(s, b, in, &p)
		} else if !bytes.Equal(in, b) {
			s.Fail(cases.GoFail{Key: fmt.Sprintf("decoder-writes-input:%x", b), What: "PHYPayload.UnmarshalBinary changed its input buffer (rejected frame)", Replay: map[string]interface{}{"bytes": fmt.Sprintf("%x", b)}})
		}
	}()
	cases.End()
	noise.Step(nr)
	reused.Decode(s, nr, b, o)
	s.Add(cases.Case{Term: fmt.Sprintf("CPhy %s %s", cq.Bytes(b), o), Key: fmt.Sprintf("phy:%x", b), Kind: kind, Nontrivial: o != cq.Err,
		Replay: map[string]interface{}{"api": "PHYPayload.UnmarshalBinary", "bytes": fmt.Sprintf("%x", b)}})
}

// phyTextCase: PHYPayload.UnmarshalText against the base64 model followed by the checked frame decoder
func phyTextCase(s *cases.Set, txt []byte, kind string) {
	o := cq.Err
	cases.Begin(fmt.Sprintf("PHYPayload.UnmarshalText:%q", txt), map[string]interface{}{"api": "PHYPayload.UnmarshalText", "text": string(txt)})
	defer cases.End()
	func() {
		defer func() {
			if r := recover(); r != nil {
				o = cq.Panic
			}
		}()
		var p lorawan.PHYPayload
		if err := p.UnmarshalText(append([]byte{}, txt...)); err == nil {
			wire, _ := base64.StdEncoding.DecodeString(string(txt))
			o = cq.Ok(framefmt.Phy(p, framefmt.DecodedFOptsLen(wire)))
		}
	}()
	s.Add(cases.Case{Term: fmt.Sprintf("CPhyText %s %s", cq.Bytes(txt), o), Key: fmt.Sprintf("phytext:%q", txt), Kind: kind, Nontrivial: o != cq.Err,
		Replay: map[string]interface{}{"api": "PHYPayload.UnmarshalText", "text": string(txt)}})
}

func streamCase(s *cases.Set, up bool, b []byte) {
	o := cq.Err
	cases.Begin(fmt.Sprintf("DecodeFRMPayloadToMACCommands:%x", b), map[string]interface{}{"api": "DecodeFRMPayloadToMACCommands", "bytes": fmt.Sprintf("%x", b)})
	defer cases.End()
	func() {
		defer func() {
			if r := recover(); r != nil {
				o = cq.Panic
			}
		}()
		port := uint8(0)
		phy := lorawan.PHYPayload{MHDR: lorawan.MHDR{MType: mtype(up)},
			MACPayload: &lorawan.MACPayload{FPort: &port, FRMPayload: []lorawan.Payload{&lorawan.DataPayload{Bytes: append([]byte{}, b...)}}}}
		if err := phy.DecodeFRMPayloadToMACCommands(); err == nil {
			o = cq.Ok(macfmt.Items(phy.MACPayload.(*lorawan.MACPayload).FRMPayload))
		}
	}()
	s.Add(cases.Case{Term: fmt.Sprintf("CStream %v %s %s %s", up, histTerm(), cq.Bytes(b), o), Key: fmt.Sprintf("stream:up=%v:%x", up, b), Kind: "mac-stream", Nontrivial: len(b) > 1,
		Replay: map[string]interface{}{"api": "PHYPayload.DecodeFRMPayloadToMACCommands", "uplink": up, "bytes": fmt.Sprintf("%x", b)}})
}

func cmdCase(s *cases.Set, up bool, b []byte) {
	o := cq.Err
	cases.Begin(fmt.Sprintf("MACCommand.UnmarshalBinary:%x", b), map[string]interface{}{"api": "MACCommand.UnmarshalBinary", "bytes": fmt.Sprintf("%x", b)})
	defer cases.End()
	func() {
		defer func() {
			if r := recover(); r != nil {
				o = cq.Panic
			}
		}()
		var mc lorawan.MACCommand
		if err := mc.UnmarshalBinary(up, append([]byte{}, b...)); err == nil {
			o = cq.Ok(macfmt.Item(&mc))
		}
	}()
	s.Add(cases.Case{Term: fmt.Sprintf("CCmd %v %s %s %s", up, histTerm(), cq.Bytes(b), o), Key: fmt.Sprintf("cmd:up=%v:%x", up, b), Kind: "mac-command", Nontrivial: o != cq.Err,
		Replay: map[string]interface{}{"api": "MACCommand.UnmarshalBinary", "uplink": up, "bytes": fmt.Sprintf("%x", b)}})
}

func joinAccCase(s *cases.Set, b []byte) {
	o := cq.Err
	cases.Begin(fmt.Sprintf("JoinAcceptPayload.UnmarshalBinary:%x", b), map[string]interface{}{"api": "JoinAcceptPayload.UnmarshalBinary", "bytes": fmt.Sprintf("%x", b)})
	defer cases.End()
	func() {
		defer func() {
			if r := recover(); r != nil {
				o = cq.Panic
			}
		}()
		var ja lorawan.JoinAcceptPayload
		if err := ja.UnmarshalBinary(false, append([]byte{}, b...)); err == nil {
			o = cq.Ok(framefmt.Payload(&ja, 0))
		}
	}()
	s.Add(cases.Case{Term: fmt.Sprintf("CJoinAcc %s %s", cq.Bytes(b), o), Key: fmt.Sprintf("joinacc:%x", b), Kind: "join-accept-payload", Nontrivial: o != cq.Err,
		Replay: map[string]interface{}{"api": "JoinAcceptPayload.UnmarshalBinary", "bytes": fmt.Sprintf("%x", b)}})
}

func cflistCase(s *cases.Set, b []byte) {
	o := cq.Err
	cases.Begin(fmt.Sprintf("CFList.UnmarshalBinary:%x", b), map[string]interface{}{"api": "CFList.UnmarshalBinary", "bytes": fmt.Sprintf("%x", b)})
	defer cases.End()
	func() {
		defer func() {
			if r := recover(); r != nil {
				o = cq.Panic
			}
		}()
		var l lorawan.CFList
		if err := l.UnmarshalBinary(append([]byte{}, b...)); err == nil {
			t := framefmt.CFList(&l) // "(Some (mkCFList ...))"
			t = strings.TrimSuffix(strings.TrimPrefix(t, "(Some "), ")")
			o = cq.Ok(t)
		}
	}()
	s.Add(cases.Case{Term: fmt.Sprintf("CCFList %s %s", cq.Bytes(b), o), Key: fmt.Sprintf("cflist:%x", b), Kind: "cflist", Nontrivial: o != cq.Err,
		Replay: map[string]interface{}{"api": "CFList.UnmarshalBinary", "bytes": fmt.Sprintf("%x", b)}})
}

// child mode: register a (possibly negative) proprietary size and decode a stream; the parent kills it on timeout.
func child(args []string) {
	if args[0] == "firstkey" {
		childFirstKey(args[1], args[2])
		return
	}
	if args[0] == "coldconcurrent" {
		childColdConcurrent(args[1])
		return
	}
	up := args[0] == "true"
	cid, _ := strconv.Atoi(args[1])
	size, _ := strconv.Atoi(args[2])
	err := lorawan.RegisterProprietaryMACCommand(up, lorawan.CID(cid), size)
	fmt.Printf("registered=%v\n", err == nil)
	port := uint8(0)
	phy := lorawan.PHYPayload{MHDR: lorawan.MHDR{MType: mtype(up)},
		MACPayload: &lorawan.MACPayload{FPort: &port, FRMPayload: []lorawan.Payload{&lorawan.DataPayload{Bytes: []byte{byte(cid), 1, 2, 3}}}}}
	err = phy.DecodeFRMPayloadToMACCommands()
	fmt.Printf("decoded err=%v n=%d\n", err != nil, len(phy.MACPayload.(*lorawan.MACPayload).FRMPayload))
}

// childFirstKey: the very first cipher use of a process, with the given key ("zero" or a hex byte
// repeated 16 times), through one decrypt-then-decode entry point.
func childFirstKey(entry, keyName string) {
	var key lorawan.AES128Key
	if keyName != "zero" {
		v, _ := strconv.ParseUint(keyName, 16, 8)
		for i := range key {
			key[i] = byte(v)
		}
	}
	port := uint8(0)
	one := uint8(1)
	switch entry {
	case "DecryptJoinAcceptPayload":
		phy := lorawan.PHYPayload{MHDR: lorawan.MHDR{MType: lorawan.JoinAccept}, MACPayload: &lorawan.DataPayload{Bytes: []byte{1, 2, 3, 4, 5, 6, 7, 8, 9, 10, 11, 12}}}
		err := phy.DecryptJoinAcceptPayload(key)
		fmt.Printf("err=%v\n", err != nil)
	case "DecryptFRMPayload-port0":
		phy := lorawan.PHYPayload{MHDR: lorawan.MHDR{MType: lorawan.UnconfirmedDataUp},
			MACPayload: &lorawan.MACPayload{FPort: &port, FRMPayload: []lorawan.Payload{&lorawan.DataPayload{Bytes: []byte{2, 9, 9}}}}}
		err := phy.DecryptFRMPayload(key)
		fmt.Printf("err=%v\n", err != nil)
	case "DecryptFRMPayload-port1":
		phy := lorawan.PHYPayload{MHDR: lorawan.MHDR{MType: lorawan.UnconfirmedDataDown},
			MACPayload: &lorawan.MACPayload{FPort: &one, FRMPayload: []lorawan.Payload{&lorawan.DataPayload{Bytes: []byte{1, 2, 3, 4, 5, 6, 7, 8, 9, 10, 11, 12, 13, 14, 15, 16, 17}}}}}
		err := phy.DecryptFRMPayload(key)
		fmt.Printf("err=%v\n", err != nil)
	case "DecryptFOpts":
		phy := lorawan.PHYPayload{MHDR: lorawan.MHDR{MType: lorawan.UnconfirmedDataUp},
			MACPayload: &lorawan.MACPayload{FHDR: lorawan.FHDR{FOpts: []lorawan.Payload{&lorawan.DataPayload{Bytes: []byte{2, 3, 7}}}}}}
		err := phy.DecryptFOpts(key)
		fmt.Printf("err=%v\n", err != nil)
	case "EncryptFRMPayload":
		_, err := lorawan.EncryptFRMPayload(key, true, lorawan.DevAddr{1, 2, 3, 4}, 1, []byte{1, 2, 3})
		fmt.Printf("err=%v\n", err != nil)
	}
}

// childColdConcurrent: the very first decodes of a process happen concurrently (a server starting under load): many
// goroutines released together decode mac-command streams carrying every CID, both directions, nothing decoded before.
// A decoder that fills a lookup table lazily without a lock dies here (fatal error: concurrent map writes).
func childColdConcurrent(which string) {
	var wg sync.WaitGroup
	start := make(chan struct{})
	for g := 0; g < 64; g++ {
		g := g
		wg.Add(1)
		go func() {
			defer wg.Done()
			<-start
			for _, up := range []bool{g%2 == 0, g%2 != 0} {
				var stream []byte
				for c := 0; c < 256; c++ {
					stream = append(stream, byte((c+g*37)%256))
				}
				port := uint8(0)
				phy := lorawan.PHYPayload{MHDR: lorawan.MHDR{MType: mtype(up)},
					MACPayload: &lorawan.MACPayload{FPort: &port, FRMPayload: []lorawan.Payload{&lorawan.DataPayload{Bytes: stream}}}}
				_ = phy.DecodeFRMPayloadToMACCommands()
				var mc lorawan.MACCommand
				_ = mc.UnmarshalBinary(up, []byte{byte(g), 0, 0, 0, 0, 0})
			}
		}()
	}
	close(start)
	wg.Wait()
	fmt.Println("ok")
}

// coldConcurrentProbes: fresh processes whose first library calls are concurrent decodes.
func coldConcurrentProbes(s *cases.Set, n int) {
	for i := 0; i < n; i++ {
		cmd := exec.Command(os.Args[0], "--child", "coldconcurrent", "all")
		var out bytes.Buffer
		cmd.Stdout, cmd.Stderr = &out, &out
		_ = cmd.Start()
		done := make(chan error, 1)
		go func() { done <- cmd.Wait() }()
		var what string
		select {
		case err := <-done:
			if err != nil {
				o := strings.TrimSpace(out.String())
				if len(o) > 300 {
					o = o[:300]
				}
				what = "the process dies: " + o
			}
		case <-time.After(20 * time.Second):
			_ = cmd.Process.Kill()
			what = "does not return (killed after 20 s)"
		}
		if what != "" {
			s.Fail(cases.GoFail{Key: "cold-concurrent-decode", What: "64 goroutines decoding mac-command streams as the first library calls of a process: " + what,
				Replay: map[string]interface{}{"how": "fresh process; 64 goroutines released together; DecodeFRMPayloadToMACCommands of all 256 CIDs in both directions, MACCommand.UnmarshalBinary"}})
			break
		}
	}
	s.Extra["cold_concurrent_probes"] = n
}

// firstKeyProbes runs every decrypt entry point as the first cipher use of a fresh process.
func firstKeyProbes(s *cases.Set) {
	n := 0
	for _, entry := range []string{"DecryptJoinAcceptPayload", "DecryptFRMPayload-port0", "DecryptFRMPayload-port1", "DecryptFOpts", "EncryptFRMPayload"} {
		for _, k := range []string{"zero", "ff", "01"} {
			n++
			cmd := exec.Command(os.Args[0], "--child", "firstkey", entry, k)
			var out bytes.Buffer
			cmd.Stdout, cmd.Stderr = &out, &out
			_ = cmd.Start()
			done := make(chan error, 1)
			go func() { done <- cmd.Wait() }()
			var what string
			select {
			case err := <-done:
				if err != nil {
					o := strings.TrimSpace(out.String())
					if len(o) > 400 {
						o = o[:400]
					}
					what = "crashes: " + o
				}
			case <-time.After(5 * time.Second):
				_ = cmd.Process.Kill()
				what = "does not return (killed after 5 s)"
			}
			if what != "" {
				s.Fail(cases.GoFail{Key: "first-call-in-process:" + entry + ":key=" + k, What: entry + " as the first cipher use of a process, key " + k + ": " + what,
					Replay: map[string]interface{}{"entry": entry, "key": k, "how": "fresh process, no earlier library call"}})
			}
		}
	}
	s.Extra["first_call_probes"] = n
}

func main() {
	log.SetOutput(io.Discard)
	if len(os.Args) > 1 && os.Args[1] == "--child" {
		child(os.Args[2:])
		return
	}
	dir, seed, thorough := cases.Args()
	r := cq.NewRNG(seed)
	s := cases.New("C09", dir, "LW.Corr.C09",
		"malformed stream into every decoding entry point: uniform random bytes 0..512, truncations / extensions / bit flips of valid encodings; frame decode (binary, base64 text), MAC-command stream decode and decrypt-then-decode with random keys, join-accept decrypt, JoinAcceptPayload, CFList, single MAC commands, the four application-layer Commands decoders, backend HEXBytes / Frequency / Percentage / ISO8601Time / payload JSON; each call under recover() with a 200 ms budget and an input-buffer comparison; negative proprietary sizes in a child process with a 5 s kill timer. Cases evaluated in Coq: frame, stream, command, join-accept payload, CFList (others are Go-side properties). Non-trivial: inputs a decoder accepts.")
	s.ShardSize = 300
	s.Watchdog(3 * time.Second)
	nr = cq.NewRNG(seed ^ 0x9e3779b97f4a7c15)
	firstKeyProbes(s)
	coldConcurrentProbes(s, 6)
	n := 120
	if thorough {
		n = 4000
	}
	// negative proprietary sizes (finding C09-1, fixed by 697fad2): must be refused, and decoding must return
	zeroSizeOK := true
	// ... and sizes at the edge of Go's int (finding C09-2, fixed by 7492a62: plLen+1 overflowed)
	for _, size := range []int{-1, -2, -300, 0, 3, math.MaxInt, math.MaxInt - 1, math.MaxInt - 4, 1 << 31, 1 << 62, math.MinInt} {
		cmd := exec.Command(os.Args[0], "--child", "true", "128", strconv.Itoa(size))
		var out bytes.Buffer
		cmd.Stdout, cmd.Stderr = &out, &out
		_ = cmd.Start()
		done := make(chan error, 1)
		go func() { done <- cmd.Wait() }()
		var what string
		select {
		case err := <-done:
			if err != nil {
				o := strings.TrimSpace(out.String())
				if len(o) > 300 {
					o = o[:300]
				}
				what = fmt.Sprintf("decoder crashed after RegisterProprietaryMACCommand(size %d): %s", size, o)
			} else if size < 0 && !strings.Contains(out.String(), "registered=false") {
				what = "RegisterProprietaryMACCommand accepted a negative size: " + strings.TrimSpace(out.String())
			}
		case <-time.After(5 * time.Second):
			_ = cmd.Process.Kill()
			what = fmt.Sprintf("decoding a stream after RegisterProprietaryMACCommand(size %d) does not return (killed after 5 s)", size)
		}
		if what != "" {
			if size >= 0 && size <= 20 {
				zeroSizeOK = false
			}
			key := fmt.Sprintf("negative-proprietary-size:%d", size)
			if size >= 0 {
				key = fmt.Sprintf("register-then-decode:size=%d", size)
			}
			s.Fail(cases.GoFail{Key: key, What: what,
				Replay: map[string]interface{}{"api": "RegisterProprietaryMACCommand(true, 0x80, size) then DecodeFRMPayloadToMACCommands([0x80 1 2 3])", "size": size}})
		}
	}
	// a few positive registrations so that the stream decoder sees proprietary sizes
	for _, h := range []struct {
		up   bool
		cid  byte
		size int
	}{{true, 0x80, 3}, {false, 0x81, 1}, {true, 0xff, 20}, {false, 0x80, 0}, {true, 0x10, 4}} {
		if !zeroSizeOK {
			break // the child probes showed registration poisons later decodes: do not hang this process
		}
		_ = lorawan.RegisterProprietaryMACCommand(h.up, lorawan.CID(h.cid), h.size)
		history = append(history, fmt.Sprintf("(%v, %d, %s)", h.up, h.cid, cq.Z(int64(h.size))))
	}
	// every MType x every short length: the boundary cases of the length guards
	for mt := 0; mt < 8; mt++ {
		for l := 0; l <= 34; l++ {
			b := r.Bytes(l)
			if l > 0 {
				b[0] = byte(mt) << 5
			}
			if l > 1 && mt == 6 {
				b[1] = byte(l % 3)
			}
			phyCase(s, b, "frame-short")
			guard(s, "PHYPayload.UnmarshalBinary", b, func(x []byte) { var q lorawan.PHYPayload; _ = q.UnmarshalBinary(x) })
		}
	}
	s.Exhaustive("frame decoder: 8 MTypes x lengths 0..34")
	hexd := []byte("0123456789abcdefABCDEF")
	for i := 0; i < n; i++ {
		l := r.Intn(513)
		if i%2 == 0 {
			l = r.Intn(40)
		}
		b := r.Bytes(l)
		if i%3 == 0 && l > 0 {
			b[0] = byte(r.Intn(8))<<5 | byte(r.Intn(4))
		}
		phyCase(s, b, "frame-random")
		// valid frame mutated
		var p lorawan.PHYPayload
		if i%4 == 0 {
			p = framefmt.JoinFrame(r, r.Intn(5))
		} else {
			p = framefmt.DataFrame(r, framefmt.ValidDataOpt(r))
		}
		if vb, err := p.MarshalBinary(); err == nil {
			m := append([]byte{}, vb...)
			switch r.Intn(4) {
			case 0:
				m = m[:r.Intn(len(m)+1)]
			case 1:
				m = append(m, r.Bytes(1+r.Intn(4))...)
			case 2:
				m[r.Intn(len(m))] ^= 1 << uint(r.Intn(8))
			}
			phyCase(s, m, "frame-mutated")
			guard(s, "PHYPayload.UnmarshalBinary", m, func(x []byte) { var q lorawan.PHYPayload; _ = q.UnmarshalBinary(x) })
			txt := []byte(base64.StdEncoding.EncodeToString(m))
			if r.Intn(3) == 0 && len(txt) > 0 {
				txt[r.Intn(len(txt))] = "!*= \n"[r.Intn(5)]
			}
			guard(s, "PHYPayload.UnmarshalText", txt, func(x []byte) { var q lorawan.PHYPayload; _ = q.UnmarshalText(x) })
			phyTextCase(s, txt, "frame-text")
			if i%3 == 0 { // the decoder's own rules: CR/LF anywhere, padding in the wrong place, cut quanta
				t2 := append([]byte{}, txt...)
				switch r.Intn(5) {
				case 0:
					k := r.Intn(len(t2) + 1)
					t2 = append(t2[:k], append([]byte("\r\n"), t2[k:]...)...)
				case 1:
					if len(t2) > 0 {
						t2 = t2[:len(t2)-1-r.Intn(min(3, len(t2)))]
					}
				case 2:
					t2 = append(t2, '=')
				case 3:
					if len(t2) > 2 {
						t2[len(t2)-2] = '='
					}
				default:
					t2 = append(t2, []byte("QUJD")[:1+r.Intn(4)]...)
				}
				phyTextCase(s, t2, "frame-text-mutated")
			}
			// decrypt-then-decode with any key
			var key lorawan.AES128Key
			if r.Intn(4) != 0 {
				copy(key[:], r.Bytes(16))
			}
			guard(s, "decode+DecryptFOpts+DecryptFRMPayload", m, func(x []byte) {
				var q lorawan.PHYPayload
				if q.UnmarshalBinary(x) == nil {
					_ = q.DecryptFOpts(key)
					_ = q.DecryptFRMPayload(key)
					_ = q.DecodeFOptsToMACCommands()
				}
			})
			guard(s, "decode+DecryptJoinAcceptPayload", m, func(x []byte) {
				var q lorawan.PHYPayload
				if q.UnmarshalBinary(x) == nil {
					_ = q.DecryptJoinAcceptPayload(key)
				}
			})
		}
		up := r.Bool()
		sb := r.Bytes(r.Intn(60))
		for j := range sb {
			if r.Intn(3) == 0 {
				sb[j] = byte(macfmt.Builtin[r.Intn(len(macfmt.Builtin))].CID)
			} else if r.Intn(8) == 0 {
				sb[j] = []byte{0x80, 0x81, 0xff, 0x10}[r.Intn(4)]
			}
		}
		streamCase(s, up, sb)
		guard(s, "DecodeFRMPayloadToMACCommands", sb, func(x []byte) {
			port := uint8(0)
			phy := lorawan.PHYPayload{MHDR: lorawan.MHDR{MType: mtype(up)}, MACPayload: &lorawan.MACPayload{FPort: &port, FRMPayload: []lorawan.Payload{&lorawan.DataPayload{Bytes: x}}}}
			_ = phy.DecodeFRMPayloadToMACCommands()
		})
		cb := r.Bytes(r.Intn(8))
		if len(cb) > 0 && r.Intn(2) == 0 {
			cb[0] = byte(macfmt.Builtin[r.Intn(len(macfmt.Builtin))].CID)
		}
		cmdCase(s, up, cb)
		jb := r.Bytes([]int{12, 28, 28, 11, 13, 27, 29, 0, 16}[r.Intn(9)])
		if len(jb) == 28 {
			jb[27] = byte(r.Intn(3))
		}
		joinAccCase(s, jb)
		cl := r.Bytes([]int{16, 16, 16, 15, 17, 0}[r.Intn(6)])
		if len(cl) == 16 {
			cl[15] = byte(r.Intn(3))
			if r.Intn(3) == 0 { // trailing zero masks
				for j := 2 + 2*r.Intn(6); j < 15; j++ {
					cl[j] = 0
				}
			}
		}
		cflistCase(s, cl)
		// application-layer command decoders, both directions
		ab := r.Bytes(r.Intn(40))
		for _, u := range []bool{false, true} {
			u := u
			guard(s, "clocksync.Commands", ab, func(x []byte) { var c clocksync.Commands; _ = c.UnmarshalBinary(u, x) })
			guard(s, "multicastsetup.Commands", ab, func(x []byte) { var c multicastsetup.Commands; _ = c.UnmarshalBinary(u, x) })
			guard(s, "fragmentation.Commands", ab, func(x []byte) { var c fragmentation.Commands; _ = c.UnmarshalBinary(u, x) })
			guard(s, "firmwaremanagement.Commands", ab, func(x []byte) { var c firmwaremanagement.Commands; _ = c.UnmarshalBinary(u, x) })
		}
		// backend JSON / text types
		tb := make([]byte, r.Intn(30))
		for j := range tb {
			tb[j] = hexd[r.Intn(len(hexd))]
		}
		if r.Intn(3) == 0 && len(tb) > 0 {
			tb[r.Intn(len(tb))] = "gz \"\\"[r.Intn(5)]
		}
		guard(s, "backend.HEXBytes.UnmarshalText", tb, func(x []byte) { var h backend.HEXBytes; _ = h.UnmarshalText(x) })
		js := [][]byte{[]byte("868.1"), []byte("-1"), []byte("1e400"), []byte("\"x\""), []byte("null"), []byte("0.29"), []byte("{"), tb, []byte(strconv.FormatFloat(float64(r.U32())/1e6, 'f', -1, 64))}[r.Intn(9)]
		guard(s, "backend.Frequency.UnmarshalJSON", js, func(x []byte) { var f backend.Frequency; _ = json.Unmarshal(x, &f) })
		guard(s, "backend.Percentage.UnmarshalJSON", js, func(x []byte) { var f backend.Percentage; _ = json.Unmarshal(x, &f) })
		ts := [][]byte{[]byte("\"2026-10-01T00:00:00Z\""), []byte("\"2026-13-01T00:00:00Z\""), []byte("\"\""), []byte("12"), js}[r.Intn(5)]
		guard(s, "backend.ISO8601Time.UnmarshalJSON", ts, func(x []byte) { var f backend.ISO8601Time; _ = json.Unmarshal(x, &f) })
		pj := []byte(`{"ProtocolVersion":"1.0","SenderID":"` + string(tb) + `","ReceiverID":"0102030405060708","TransactionID":` + strconv.Itoa(r.Intn(1<<31)) + `,"MessageType":"JoinReq","PHYPayload":"` + string(tb) + `","DevEUI":"` + string(tb) + `","DLSettings":"` + string(tb) + `","RxDelay":` + strconv.Itoa(r.Intn(300)) + `}`)
		guard(s, "backend.JoinReqPayload JSON", pj, func(x []byte) { var f backend.JoinReqPayload; _ = json.Unmarshal(x, &f) })
		guard(s, "backend.JoinAnsPayload JSON", pj, func(x []byte) { var f backend.JoinAnsPayload; _ = json.Unmarshal(x, &f) })
		// a key envelope as a peer sends it (any AESKey length, label present / absent), decoded and then opened:
		// a value or an error (the panics on 0..15 octets were finding C17-… / audit C09 #1, fixed by 7293486)
		ek := make([]byte, 2*[]int{0, 1, 7, 8, 9, 15, 16, 17, 23, 24, 25, 32, 40, 41}[r.Intn(14)])
		for j := range ek {
			ek[j] = hexd[r.Intn(len(hexd))]
		}
		if len(ek) >= 16 && r.Bool() {
			copy(ek, "a6a6a6a6a6a6a6a6")
		}
		ej := []byte(`{"KEKLabel":"` + []string{"", "x"}[r.Intn(2)] + `","AESKey":"` + string(ek) + `"}`)
		if r.Intn(6) == 0 {
			ej = []byte(`{"KEKLabel":"x"}`)
		}
		kek := r.Bytes([]int{0, 8, 16, 24, 32}[r.Intn(5)])
		guard(s, "backend.KeyEnvelope JSON + Unwrap", ej, func(x []byte) {
			var e backend.KeyEnvelope
			if json.Unmarshal(x, &e) == nil {
				_, _ = e.Unwrap(kek)
			}
		})
	}
	// text decoders on text that is not ASCII: runes whose case mapping changes their UTF-8 length (ſ ı İ ß K Å ǰ ΐ),
	// combining marks, surrogates and invalid UTF-8, full-width digits, NUL, very long runs — alone, repeated, and
	// spliced into otherwise valid texts at every position
	specials := []string{"ſ", "ı", "İ", "ß", "\u212a", "\u212b", "ǰ", "ΐ", "ﬃ", "\u0301", "\u200b", "\ufeff", "０", "９", "Ｚ", "\x00", "\xff", "\xc3", "\xed\xa0\x80", "\U0010ffff", "é", "日", "𝟘"}
	for i, sp := range specials {
		if u, err := strconv.Unquote(`"` + sp + `"`); err == nil {
			specials[i] = u
		}
	}
	bases := []string{"", "2026-10-01T00:00:00Z", "2026-10-01t00:00:00z", "2026-10-01 00:00:00+01:00", "0102030405060708", "0x0a0b", "868.1", "ışık-ılık"}
	textDecoders := func(t []byte) {
		guard(s, "backend.ISO8601Time.UnmarshalText", t, func(x []byte) { var f backend.ISO8601Time; _ = f.UnmarshalText(x) })
		guard(s, "backend.HEXBytes.UnmarshalText", t, func(x []byte) { var h backend.HEXBytes; _ = h.UnmarshalText(x) })
		guard(s, "lorawan.EUI64.UnmarshalText", t, func(x []byte) { var e lorawan.EUI64; _ = e.UnmarshalText(x) })
		guard(s, "lorawan.DevAddr.UnmarshalText", t, func(x []byte) { var e lorawan.DevAddr; _ = e.UnmarshalText(x) })
		guard(s, "lorawan.NetID.UnmarshalText", t, func(x []byte) { var e lorawan.NetID; _ = e.UnmarshalText(x) })
		guard(s, "lorawan.AES128Key.UnmarshalText", t, func(x []byte) { var e lorawan.AES128Key; _ = e.UnmarshalText(x) })
		guard(s, "lorawan.PHYPayload.UnmarshalText", t, func(x []byte) { var e lorawan.PHYPayload; _ = e.UnmarshalText(x) })
		q, _ := json.Marshal(string(t))
		guard(s, "backend.ISO8601Time.UnmarshalJSON", q, func(x []byte) { var f backend.ISO8601Time; _ = json.Unmarshal(x, &f) })
		guard(s, "backend.Frequency.UnmarshalJSON", t, func(x []byte) { var f backend.Frequency; _ = json.Unmarshal(x, &f) })
		guard(s, "backend.Percentage.UnmarshalJSON", t, func(x []byte) { var f backend.Percentage; _ = json.Unmarshal(x, &f) })
	}
	nText := 0
	for _, sp := range specials {
		for _, rep := range []int{1, 2, 3, 6, 7, 11, 16, 33} {
			textDecoders([]byte(strings.Repeat(sp, rep)))
			nText++
		}
		for _, b := range bases {
			for _, pos := range []int{0, 1, 4, 10, 11, len(b)} {
				if pos <= len(b) {
					textDecoders([]byte(b[:pos] + sp + b[pos:]))
					nText++
				}
			}
		}
	}
	s.Extra["non_ascii_text_probes"] = nText
	// well-formed commands (every CID with every payload length 0..12, both directions) through the single-command
	// and stream decoders: these reach the payload decoders behind the length checks, on read-only input pages
	nWF := 0
	for cid := 0; cid < 256; cid++ {
		if cid >= 0x20 && cid < 0x80 && cid%16 != 0 {
			continue
		}
		for k := 0; k <= 12; k++ {
			unit := append([]byte{byte(cid)}, r.Bytes(k)...)
			for j := range unit[1:] {
				if unit[1+j] == 0 {
					unit[1+j] = 0x52
				}
			}
			two := append(append([]byte{}, unit...), unit...)
			for _, u := range []bool{false, true} {
				u := u
				guard(s, "MACCommand.UnmarshalBinary", unit, func(x []byte) { var mc lorawan.MACCommand; _ = mc.UnmarshalBinary(u, x) })
				guard(s, "DecodeFRMPayloadToMACCommands", two, func(x []byte) {
					port := uint8(0)
					phy := lorawan.PHYPayload{MHDR: lorawan.MHDR{MType: mtype(u)}, MACPayload: &lorawan.MACPayload{FPort: &port, FRMPayload: []lorawan.Payload{&lorawan.DataPayload{Bytes: x}}}}
					_ = phy.DecodeFRMPayloadToMACCommands()
				})
				if cid < 16 {
					guard(s, "clocksync.Command", unit, func(x []byte) { var c clocksync.Command; _ = c.UnmarshalBinary(u, x) })
					guard(s, "multicastsetup.Command", unit, func(x []byte) { var c multicastsetup.Command; _ = c.UnmarshalBinary(u, x) })
					guard(s, "fragmentation.Command", unit, func(x []byte) { var c fragmentation.Command; _ = c.UnmarshalBinary(u, x) })
					guard(s, "firmwaremanagement.Command", unit, func(x []byte) { var c firmwaremanagement.Command; _ = c.UnmarshalBinary(u, x) })
					guard(s, "clocksync.Commands", two, func(x []byte) { var c clocksync.Commands; _ = c.UnmarshalBinary(u, x) })
					guard(s, "multicastsetup.Commands", two, func(x []byte) { var c multicastsetup.Commands; _ = c.UnmarshalBinary(u, x) })
					guard(s, "fragmentation.Commands", two, func(x []byte) { var c fragmentation.Commands; _ = c.UnmarshalBinary(u, x) })
					guard(s, "firmwaremanagement.Commands", two, func(x []byte) { var c firmwaremanagement.Commands; _ = c.UnmarshalBinary(u, x) })
				}
				nWF++
			}
		}
	}
	s.Extra["well_formed_command_probes"] = nWF
	scaling(s, thorough)
	if err := s.Finish(); err != nil {
		fmt.Fprintln(os.Stderr, err)
		os.Exit(2)
	}
}
