(* SPECIFICATION side: the regions and the Regional Parameters values this
   development is certain of (LoRaWAN Regional Parameters 1.0.x / RP002;
   transcribed by hand, no network).  Keyed by the band NAME passed to
   band.GetConfig - not by the Go type the code dispatches on.
   Only values stated here are compared; max-payload VALUES are not
   transcribed (checked structurally in TablesSpec.v). *)
From Coq Require Import List ZArith Bool String.
From LW Require Import Base.Outcome Band.Types.
Import ListNotations.
Open Scope Z_scope.

Inductive region :=
| RAS923 (group_offset_hz : Z)   (* AS923-1..4: frequency offset of the channel group *)
| RAU915 | RCN470 | RCN779 | REU433 | REU868 | RIN865 | RISM2400 | RKR920 | RRU864 | RUS915.

Definition region_of_common (name : string) : option region :=
  if String.eqb name "AS923" then Some (RAS923 0)
  else if String.eqb name "AS923-2" then Some (RAS923 (-1800000))
  else if String.eqb name "AS923-3" then Some (RAS923 (-6600000))
  else if String.eqb name "AS923-4" then Some (RAS923 (-5900000))
  else if String.eqb name "AU915" then Some RAU915
  else if String.eqb name "CN470" then Some RCN470
  else if String.eqb name "CN779" then Some RCN779
  else if String.eqb name "EU433" then Some REU433
  else if String.eqb name "EU868" then Some REU868
  else if String.eqb name "IN865" then Some RIN865
  else if String.eqb name "ISM2400" then Some RISM2400
  else if String.eqb name "KR920" then Some RKR920
  else if String.eqb name "RU864" then Some RRU864
  else if String.eqb name "US915" then Some RUS915
  else None.

(* band.GetConfig also accepts the deprecated (still exported) spellings; each is a second name
   of one common name and must give the same band in every respect *)
Definition deprecated_names : list (string * string) :=
  [("AS_923", "AS923"); ("AU_915_928", "AU915"); ("CN_470_510", "CN470"); ("CN_779_787", "CN779");
   ("EU_433", "EU433"); ("EU_863_870", "EU868"); ("IN_865_867", "IN865"); ("KR_920_923", "KR920");
   ("US_902_928", "US915"); ("RU_864_870", "RU864")]%string.

Fixpoint assoc_string (k : string) (m : list (string * string)) : option string :=
  match m with
  | [] => None
  | (k', v) :: m' => if String.eqb k k' then Some v else assoc_string k m'
  end.

Definition common_name (name : string) : string :=
  match assoc_string name deprecated_names with Some c => c | None => name end.

Definition region_of (name : string) : option region := region_of_common (common_name name).

(* ---- data-rate definitions ---------------------------------------------- *)
(* direction: can the data-rate be used for uplink / downlink *)
Definition lora (up down : bool) (sf bw : Z) : data_rate := mkDR up down "LORA" sf bw 0 "" 0.
Definition fsk50 : data_rate := mkDR true true "FSK" 0 0 50000 "" 0.
(* LR-FHSS is uplink only; coding rate 2/3 is written "4/6" by the library *)
Definition lrfhss (cr : string) (ocw : Z) : data_rate := mkDR true false "LR_FHSS" 0 0 0 cr ocw.

(* DR0..5 = SF12..SF7 / 125 kHz, both directions *)
Definition sf12_7_125 : list (Z * data_rate) :=
  [(0, lora true true 12 125); (1, lora true true 11 125); (2, lora true true 10 125);
   (3, lora true true 9 125); (4, lora true true 8 125); (5, lora true true 7 125)].
(* DR8..13 = SF12..SF7 / 500 kHz, downlink only (US915, AU915) *)
Definition sf12_7_500_down : list (Z * data_rate) :=
  [(8, lora false true 12 500); (9, lora false true 11 500); (10, lora false true 10 500);
   (11, lora false true 9 500); (12, lora false true 8 500); (13, lora false true 7 500)].

Definition spec_data_rates (r : region) : list (Z * data_rate) :=
  match r with
  | REU868 =>
    sf12_7_125 ++ [(6, lora true true 7 250); (7, fsk50);
                   (8, lrfhss "1/3" 137000); (9, lrfhss "4/6" 137000);
                   (10, lrfhss "1/3" 336000); (11, lrfhss "4/6" 336000)]
  | REU433 | RCN779 | RRU864 | RAS923 _ => sf12_7_125 ++ [(6, lora true true 7 250); (7, fsk50)]
  | RCN470 => sf12_7_125 ++ [(6, lora true true 7 500); (7, fsk50)]
  | RKR920 => sf12_7_125
  | RIN865 => sf12_7_125 ++ [(7, fsk50)]       (* DR6 is RFU in IN865 *)
  | RISM2400 =>
    [(0, lora true true 12 812); (1, lora true true 11 812); (2, lora true true 10 812);
     (3, lora true true 9 812); (4, lora true true 8 812); (5, lora true true 7 812);
     (6, lora true true 6 812); (7, lora true true 5 812)]
  | RUS915 =>
    [(0, lora true false 10 125); (1, lora true false 9 125); (2, lora true false 8 125);
     (3, lora true false 7 125); (4, lora true false 8 500);
     (5, lrfhss "1/3" 1523000); (6, lrfhss "4/6" 1523000)] ++ sf12_7_500_down
  | RAU915 =>
    [(0, lora true false 12 125); (1, lora true false 11 125); (2, lora true false 10 125);
     (3, lora true false 9 125); (4, lora true false 8 125); (5, lora true false 7 125);
     (6, lora true false 8 500); (7, lrfhss "1/3" 1523000)] ++ sf12_7_500_down
  end.

(* ---- default channels ---------------------------------------------------- *)
(* (frequency Hz, min DR, max DR) *)
Definition chan3 := (Z * Z * Z)%type.

Fixpoint arith_channels (n : nat) (f0 step lo hi : Z) : list chan3 :=
  match n with
  | O => []
  | S n' => (f0, lo, hi) :: arith_channels n' (f0 + step) step lo hi
  end.

Definition spec_uplink_channels (r : region) : list chan3 :=
  match r with
  | REU868 => [(868100000, 0, 5); (868300000, 0, 5); (868500000, 0, 5)]
  | REU433 => [(433175000, 0, 5); (433375000, 0, 5); (433575000, 0, 5)]
  | RCN779 => [(779500000, 0, 5); (779700000, 0, 5); (779900000, 0, 5)]
  | RAS923 off => [(923200000 + off, 0, 5); (923400000 + off, 0, 5)]
  | RKR920 => [(922100000, 0, 5); (922300000, 0, 5); (922500000, 0, 5)]
  | RIN865 => [(865062500, 0, 5); (865402500, 0, 5); (865985000, 0, 5)]
  | RRU864 => [(868900000, 0, 5); (869100000, 0, 5)]
  | RISM2400 => [(2403000000, 0, 7); (2425000000, 0, 7); (2479000000, 0, 7)]
  | RUS915 => arith_channels 64 902300000 200000 0 3 ++ arith_channels 8 903000000 1600000 4 6
  | RAU915 => arith_channels 64 915200000 200000 0 5 ++ arith_channels 8 915900000 1600000 6 7
  | RCN470 => arith_channels 96 470300000 200000 0 5
  end.

Definition spec_downlink_channels (r : region) : list chan3 :=
  match r with
  | RUS915 | RAU915 => arith_channels 8 923300000 600000 8 13
  | RCN470 => arith_channels 48 500300000 200000 0 5
  | _ => spec_uplink_channels r      (* RX1 on the uplink channel *)
  end.

(* ---- RX2 defaults, receive delays ---------------------------------------- *)
Definition spec_rx2 (r : region) : Z * Z :=   (* frequency, data-rate *)
  match r with
  | REU868 => (869525000, 0)
  | REU433 => (434665000, 0)
  | RCN779 => (786000000, 0)
  | RCN470 => (505300000, 0)
  | RAS923 off => (923200000 + off, 2)
  | RKR920 => (921900000, 0)
  | RIN865 => (866550000, 2)
  | RRU864 => (869100000, 0)
  | RISM2400 => (2423000000, 0)
  | RUS915 | RAU915 => (923300000, 8)
  end.

Definition spec_defaults (r : region) : defaults :=
  mkDefaults (fst (spec_rx2 r)) (snd (spec_rx2 r))
             (1 * second) (2 * second) (5 * second) (6 * second).

(* ---- TX power: index i = MaxEIRP - 2*i dB -------------------------------- *)
Definition spec_tx_power_offset (i : Z) : Z := - 2 * i.
(* (the number of defined indices differs between revisions and is not compared) *)

(* ---- RX1 channel rule ------------------------------------------------------ *)
Definition spec_rx1_channel (r : region) (uplink_channel : Z) : Z :=
  match r with
  | RUS915 | RAU915 => uplink_channel mod 8
  | RCN470 => uplink_channel mod 48
  | _ => uplink_channel
  end.

(* ---- class-B ping-slot frequency ----------------------------------------- *)
(* fixed default frequency, or hopping over the 8 downlink channels:
   channel = (DevAddr + floor(beacon_time / beacon_period)) mod 8,
   beacon_period = 128 s *)
Definition beacon_period_ns : Z := 128 * second.

Definition spec_ping_slot_at (r : region) (hop : Z) : Z :=
  match r with
  | REU868 => 869525000
  | REU433 => 434665000
  | RCN779 => 785000000
  | RAS923 off => 923400000 + off
  | RKR920 => 923100000
  | RIN865 => 866550000
  | RRU864 => 868900000
  | RISM2400 => 2424000000
  | RUS915 | RAU915 => 923300000 + 600000 * hop
  | RCN470 => 508300000 + 200000 * hop
  end.

Definition spec_ping_slot (r : region) (devaddr beacon_ns : Z) : Z :=
  spec_ping_slot_at r ((devaddr + beacon_ns / beacon_period_ns) mod 8).

(* ---- maximum payload sizes (M, N): only what this development is certain of -----
   EU863-870 and US902-928 in the released combinations LoRaWAN 1.0.2 rev A/B,
   1.0.3 rev A, 1.1 rev A/B; [rep] = repeater-compatible column.  Everything else
   (other regions, RP002 revisions, dwell-time tables) is checked structurally only. *)
Definition released_combinations : list (string * string) :=
  [("1.0.2", "A"); ("1.0.2", "B"); ("1.0.3", "A"); ("1.1.0", "A"); ("1.1.0", "B")]%string.

Definition combo_mem (ver rev : string) : bool :=
  existsb (fun p => String.eqb ver (fst p) && String.eqb rev (snd p)) released_combinations.

Definition with_m (n : Z) : Z * Z := (n + 8, n).

Definition spec_max_payload (r : region) (rep : bool) (ver rev : string) (dr : Z) : option (Z * Z) :=
  if combo_mem ver rev then
    match r with
    | REU868 =>
      if (0 <=? dr) && (dr <=? 2) then Some (with_m 51)
      else if dr =? 3 then Some (with_m 115)
      else if (4 <=? dr) && (dr <=? 7) then Some (with_m (if rep then 222 else 242))
      else None
    | RUS915 =>
      if dr =? 0 then Some (with_m 11)
      else if dr =? 1 then Some (with_m 53)
      else if dr =? 2 then Some (with_m 125)
      else if (dr =? 3) || (dr =? 4) then Some (with_m 242)
      else if dr =? 8 then Some (with_m (if rep then 33 else 53))
      else if dr =? 9 then Some (with_m (if rep then 109 else 129))
      else if (10 <=? dr) && (dr <=? 13) then Some (with_m (if rep then 222 else 242))
      else None
    | _ => None
    end
  else None.
