From Coq Require Import List NArith ZArith Bool.
From LW Require Import Base.Outcome Base.Bytes Mac.Commands Mac.Spec Mac.Stream Frame.Model Frame.Spec Sec.JoinAcceptProofs.
Import ListNotations.
Open Scope N_scope.

Definition rt (p : phy) : bool :=
  spec_valid p && match phy_marshal p with Ok bs => outcome_eqb phy_eqb (phy_unmarshal bs) (Ok (wire_view p)) | _ => false end.

Definition ja (p : phy) : bool :=
  spec_valid p && match payload_marshal (pl p) with
  | Ok body => forallb byte_ok body && (Nat.eqb (length body) 12 || Nat.eqb (length body) 28)
               && outcome_eqb payload_eqb (joinaccept_unmarshal body) (Ok (wire_payload (pl p)))
  | _ => false end.

Definition mic0 := [1;2;3;255].
Definition m16 := [true;false;true;false;false;false;false;true;true;false;false;false;false;false;false;true].
Definition fopts15 := [IMac 3 (Some (PLinkADRReq 5 7 m16 6 15)); IMac 7 (Some (PNewChannelReq 200 868100000 5 3));
                       IMac 6 (Some (PDevStatusAns 255 (-32)%Z)); IMac 2 None].
Definition fopts15b := [IMac 13 (Some (PDeviceTimeAns 4294967295999999999%Z)); IMac 7 (Some (PNewChannelReq 200 2400000200 15 15));
                       IMac 0x80 (Some (PProprietary [1;2])) ].
Definition fc1 := mkFCtrl true false true false true 3.
Definition fc2 := mkFCtrl false true false true false 0.
Definition h1 := mkFHDR [1;2;3;4] fc1 4294967295 fopts15.
Definition h2 := mkFHDR [255;0;3;4] fc2 65536 [].
Definition h3 := mkFHDR [255;0;3;4] fc2 65537 fopts15b.
Definition frames : list phy := [
  mkPHY 0 0 (PLJoinRequest [1;2;3;4;5;6;7;8] [9;10;11;12;13;14;15;255] 65535) mic0;
  mkPHY 6 3 (PLRejoin02 0 [1;2;3] [9;10;11;12;13;14;15;255] 65535) mic0;
  mkPHY 6 3 (PLRejoin02 2 [1;2;3] [9;10;11;12;13;14;15;255] 0) mic0;
  mkPHY 6 1 (PLRejoin1 1 [1;2;3;4;5;6;7;8] [9;10;11;12;13;14;15;255] 513) mic0;
  mkPHY 7 2 (PLData [1;2;3]) mic0;
  mkPHY 7 2 (PLData []) mic0;
  mkPHY 2 0 (PLMac (mkMAC h1 None [])) mic0;
  mkPHY 3 1 (PLMac (mkMAC h1 (Some 7) [])) mic0;
  mkPHY 4 2 (PLMac (mkMAC h1 (Some 7) [IData [1;2;3]; IData []; IData [4]])) mic0;
  mkPHY 5 3 (PLMac (mkMAC h1 (Some 255) [IData []])) mic0;
  mkPHY 5 3 (PLMac (mkMAC h2 (Some 0) fopts15)) mic0;
  mkPHY 5 3 (PLMac (mkMAC h2 (Some 0) (fopts15 ++ fopts15b ++ [IData [9;9]]))) mic0;
  mkPHY 5 3 (PLMac (mkMAC h2 (Some 0) [])) mic0;
  mkPHY 2 3 (PLMac (mkMAC h2 None [])) mic0;
  mkPHY 2 3 (PLMac (mkMAC h3 None [])) mic0;
  mkPHY 2 3 (PLMac (mkMAC h3 (Some 1) [IData [0]])) mic0
].
Definition jas : list phy := [
  mkPHY 1 0 (PLJoinAccept 16777215 [1;2;255] [4;5;6;7] true 15 7 15 None) mic0;
  mkPHY 1 0 (PLJoinAccept 0 [1;2;255] [4;5;6;7] false 0 0 0 None) mic0;
  mkPHY 1 0 (PLJoinAccept 5 [1;2;255] [4;5;6;7] false 3 2 1 (Some (mkCFList (CFPChannels [867100000;867300000;0;1677721500;100]) 0))) mic0;
  mkPHY 1 0 (PLJoinAccept 5 [1;2;255] [4;5;6;7] false 3 2 1 (Some (mkCFList (CFPMasks []) 1))) mic0;
  mkPHY 1 0 (PLJoinAccept 5 [1;2;255] [4;5;6;7] false 3 2 1 (Some (mkCFList (CFPMasks [m16]) 1))) mic0;
  mkPHY 1 0 (PLJoinAccept 5 [1;2;255] [4;5;6;7] false 3 2 1 (Some (mkCFList (CFPMasks [m16; repeat false 16]) 1))) mic0;
  mkPHY 1 0 (PLJoinAccept 5 [1;2;255] [4;5;6;7] false 3 2 1 (Some (mkCFList (CFPMasks [repeat false 16; m16; repeat false 16; repeat false 16]) 1))) mic0;
  mkPHY 1 0 (PLJoinAccept 5 [1;2;255] [4;5;6;7] false 3 2 1 (Some (mkCFList (CFPMasks [m16;m16;m16;m16;m16;m16]) 1))) mic0;
  mkPHY 1 0 (PLJoinAccept 5 [1;2;255] [4;5;6;7] false 3 2 1 (Some (mkCFList (CFPMasks [m16;m16;m16;m16;m16;repeat false 16]) 1))) mic0;
  mkPHY 1 0 (PLJoinAccept 5 [1;2;255] [4;5;6;7] false 3 2 1 (Some (mkCFList (CFPMasks [repeat false 16;repeat false 16]) 1))) mic0
].
Eval vm_compute in map spec_valid frames.
Eval vm_compute in map rt frames.
Eval vm_compute in map spec_valid jas.
Eval vm_compute in map rt jas.
Eval vm_compute in map ja jas.
