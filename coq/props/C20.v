(* C20 - statement file (being built) *)
From Coq Require Import List ZArith QArith Bool.
From LW Require Import Base.Outcome Misc.Gps Misc.GpsSpec Misc.Eirp.
From LWGen Require Import EirpGen.
Import ListNotations.

Theorem C20_eirp_table : eirp_table = lorawan_eirp_table.
Proof. reflexivity. Qed.
Print Assumptions C20_eirp_table.
