// dump writes coq/gen/*.v from the live code: every table the theorems
// quantify over is re-read from /repo's working tree on every run.
package main

import (
	"fmt"
	"os"
	"path/filepath"
)

func must(err error) {
	if err != nil {
		fmt.Fprintln(os.Stderr, err)
		os.Exit(1)
	}
}

func main() {
	if len(os.Args) < 2 {
		fmt.Fprintln(os.Stderr, "usage: dump <outdir>")
		os.Exit(2)
	}
	dir := os.Args[1]
	must(os.MkdirAll(dir, 0o755))
	must(os.WriteFile(filepath.Join(dir, "EirpGen.v"), []byte(dumpEirp()), 0o644))
}
