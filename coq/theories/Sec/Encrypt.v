(* Model of the payload-encryption functions of phypayload.go:
     EncryptFRMPayload (func)  phypayload.go:854-895
     EncryptFOpts (func)       phypayload.go:897-947
     PHYPayload.EncryptFOpts / DecryptFOpts                 :356-403
     PHYPayload.EncryptFRMPayload / DecryptFRMPayload       :405-451
     PHYPayload.DecodeFRMPayloadToMACCommands / DecodeFOptsToMACCommands :453-482
   after the repairs C03-1 (DecryptFOpts returns the error of EncryptFOpts) and
   C05-1 (DecryptFRMPayload on FPort 0 with an empty FRMPayload decodes to no
   commands instead of failing).

   Not modelled here (C10): the exported EncryptFRMPayload pads its argument
   with `append`, i.e. it may write up to 15 bytes into spare capacity of the
   caller's slice; both exported functions xor in place.  Values only.
   When a decode step fails the Go methods have already stored nil in the
   FOpts / FRMPayload field; the model returns Err without a frame.
   Model file: no proofs (EncryptProofs.v). *)
From Coq Require Import List NArith ZArith Bool.
From LW Require Import Base.Outcome Base.Bytes Crypto.AES Mac.Commands Mac.Stream Frame.Model Sec.MIC.
Import ListNotations.
Open Scope N_scope.

(* the block a: a[0] = 1, a[4] = b4, a[5] = direction, a[6:10] = DevAddr,
   a[10:14] = FCnt little endian, a[15] = ctr *)
Definition a_block (b4 : N) (uplink : bool) (da : list N) (fCnt ctr : N) : list N :=
  [1; 0; 0; 0; b4; (if uplink then 0 else 1)] ++ devaddr_wire da ++ le_bytes 4 fCnt ++ [0; ctr].

(* `if pLen%16 != 0 { data = append(data, make([]byte, 16-(pLen%16))...) }` *)
Definition pad_to_16 (data : list N) : list N :=
  let r := (length data mod 16)%nat in
  if Nat.eqb r 0 then data else data ++ repeat 0 (16 - r).

(* the loop `for i := 0; i < len(data)/16; i++`: [n] blocks remain, [i] is the loop variable;
   `a[15] = byte(i + 1)` *)
Fixpoint frm_loop (n : nat) (rks : list (list N)) (uplink : bool) (da : list N) (fCnt : N)
         (i : N) (data : list N) : list N :=
  match n with
  | O => []
  | S n' =>
    xor_bytes (firstn 16 data) (aes_encrypt_rk rks (a_block 0 uplink da fCnt ((i + 1) mod 256)))
    ++ frm_loop n' rks uplink da fCnt (i + 1) (skipn 16 data)
  end.

(* func EncryptFRMPayload: never returns an error for a 16-byte key *)
Definition encrypt_frm (key : list N) (uplink : bool) (da : list N) (fCnt : N) (data : list N)
  : outcome (list N) :=
  let pLen := length data in
  let padded := pad_to_16 data in
  Ok (firstn pLen (frm_loop (length padded / 16) (expand_key key) uplink da fCnt 0 padded)).

(* func EncryptFOpts *)
Definition encrypt_fopts (key : list N) (aFCntDown uplink : bool) (da : list N) (fCnt : N) (data : list N)
  : outcome (list N) :=
  if (15 <? length data)%nat then Err else
  Ok (xor_bytes data (aes_encrypt key (a_block (if aFCntDown then 2 else 1) uplink da fCnt 1))).

(* ---- PHYPayload methods ---- *)
Definition with_fopts (p : phy) (m : macpayload) (o : list item) : phy :=
  let h := hdr m in
  mkPHY (mtype p) (major p) (PLMac (mkMAC (mkFHDR (devaddr h) (fc h) (fcnt h) o) (fport m) (frm m))) (mic p).

Definition with_frm (p : phy) (m : macpayload) (f : list item) : phy :=
  mkPHY (mtype p) (major p) (PLMac (mkMAC (hdr m) (fport m) f)) (mic p).

(* `!p.isUplink() && macPL.FPort != nil && *macPL.FPort > 0` *)
Definition afcntdown (uplink : bool) (port : option N) : bool :=
  negb uplink && match port with Some q => 0 <? q | None => false end.

Definition phy_encrypt_fopts (key : list N) (p : phy) : outcome phy :=
  match pl p with
  | PLMac m =>
    match fopts (hdr m) with
    | [] => Ok p                                     (* nothing to encrypt *)
    | _ =>
      do macB <- items_marshal (fopts (hdr m));
      let up := is_uplink (mtype p) in
      do data <- encrypt_fopts key (afcntdown up (fport m)) up (devaddr (hdr m)) (fcnt (hdr m)) macB;
      Ok (with_fopts p m [IData data])
    end
  | _ => Err
  end.

(* decodeDataPayloadToMACCommands (mac_commands.go): exactly one *DataPayload, split with the registry *)
Definition decode_payloads (reg : registry) (up : bool) (its : list item) : outcome (list item) :=
  match its with
  | [IData b] => decode_stream reg up b
  | _ => Err
  end.

Definition phy_decode_fopts (reg : registry) (p : phy) : outcome phy :=
  match pl p with
  | PLMac m =>
    match fopts (hdr m) with
    | [] => Ok p
    | _ => do o <- decode_payloads reg (is_uplink (mtype p)) (fopts (hdr m)); Ok (with_fopts p m o)
    end
  | _ => Err
  end.

(* after the repair: `if err := p.EncryptFOpts(k); err != nil { return err }` *)
Definition phy_decrypt_fopts (reg : registry) (key : list N) (p : phy) : outcome phy :=
  do p' <- phy_encrypt_fopts key p; phy_decode_fopts reg p'.

Definition phy_encrypt_frm (key : list N) (p : phy) : outcome phy :=
  match pl p with
  | PLMac m =>
    match frm m with
    | [] => Ok p
    | _ =>
      do data <- frm_marshal (fport m) (frm m);
      do data' <- encrypt_frm key (is_uplink (mtype p)) (devaddr (hdr m)) (fcnt (hdr m)) data;
      Ok (with_frm p m [IData data'])
    end
  | _ => Err
  end.

(* after the repairs C07-7 (an empty FRMPayload - FPort 0 without mac-commands - is left as it is) and C03-2 (a
   non-empty FRMPayload is only decoded when FPort = 0: on any other port it holds application octets, and turning
   them into MACCommand values would leave a frame that cannot be encoded any more) *)
Definition phy_decode_frm (reg : registry) (p : phy) : outcome phy :=
  match pl p with
  | PLMac m =>
    match frm m with
    | [] => Ok p
    | _ =>
      match fport m with
      | Some 0 => do f <- decode_payloads reg (is_uplink (mtype p)) (frm m); Ok (with_frm p m f)
      | _ => Err
      end
    end
  | _ => Err
  end.

(* after the repair: with FPort = 0 the decrypted FRMPayload is decoded when there is one *)
Definition phy_decrypt_frm (reg : registry) (key : list N) (p : phy) : outcome phy :=
  do p' <- phy_encrypt_frm key p;
  match pl p' with
  | PLMac m =>
    match fport m, frm m with
    | Some 0, _ :: _ => phy_decode_frm reg p'
    | _, _ => Ok p'
    end
  | _ => Err
  end.
