(* Record types for the band tables dumped from the live code
   (harness/cmd/dump/band.go -> coq/gen/BandGen.v) and a few Go-semantics
   helpers shared by the band models.  Go `int`/`uint32` values are `Z`
   (no arithmetic in the band lookups can overflow 64 bits: every operand is
   range-checked or a table constant); Go strings are Coq `string`s; Go maps
   are association lists with the keys in ascending order (Go map literals
   cannot repeat a key, the dumper sorts them). *)
From Coq Require Import List ZArith Bool String.
From LW Require Import Base.Outcome.
Import ListNotations.
Open Scope Z_scope.

(* band.DataRate incl. the unexported direction flags *)
Record data_rate := mkDR {
  dr_up : bool;
  dr_down : bool;
  dr_mod : string;       (* "LORA" | "FSK" | "LR_FHSS" *)
  dr_sf : Z;
  dr_bw : Z;             (* kHz *)
  dr_bitrate : Z;
  dr_cr : string;        (* LR-FHSS coding rate *)
  dr_ocw : Z             (* LR-FHSS occupied channel width, Hz *)
}.

(* band.Channel incl. the unexported flags *)
Record channel := mkCh {
  ch_freq : Z;
  ch_min : Z;
  ch_max : Z;
  ch_enabled : bool;
  ch_custom : bool
}.

(* concrete Go type behind the Band interface *)
Inductive band_kind :=
| KAS923 | KAU915 | KCN470 | KCN779 | KEU433 | KEU868
| KIN865 | KISM2400 | KKR920 | KRU864 | KUS915.

Definition kind_eqb (a b : band_kind) : bool :=
  match a, b with
  | KAS923, KAS923 | KAU915, KAU915 | KCN470, KCN470 | KCN779, KCN779
  | KEU433, KEU433 | KEU868, KEU868 | KIN865, KIN865 | KISM2400, KISM2400
  | KKR920, KKR920 | KRU864, KRU864 | KUS915, KUS915 => true
  | _, _ => false
  end.

Definition zmap (A : Type) := list (Z * A).
Definition smap (A : Type) := list (string * A).

(* DR -> (M, N) *)
Definition size_table := zmap (Z * Z).
(* version -> revision -> DR -> (M, N) *)
Definition maxpl_table := smap (smap size_table).

(* the embedded `band` struct *)
Record tables := mkTables {
  t_extra : bool;                 (* supportsExtraChannels *)
  t_cfmin : Z;                    (* cFListMinDR *)
  t_cfmax : Z;                    (* cFListMaxDR *)
  t_drs : zmap data_rate;         (* dataRates *)
  t_maxpl : maxpl_table;          (* maxPayloadSizePerDR *)
  t_rx1 : zmap (list Z);          (* rx1DataRateTable *)
  t_up : list channel;            (* uplinkChannels *)
  t_down : list channel;          (* downlinkChannels *)
  t_txpow : list Z                (* txPowerOffsets *)
}.

(* band.Defaults, durations in nanoseconds *)
Record defaults := mkDefaults {
  d_rx2_freq : Z;
  d_rx2_dr : Z;
  d_rx_delay1 : Z;
  d_rx_delay2 : Z;
  d_ja_delay1 : Z;
  d_ja_delay2 : Z
}.

(* one configuration = result of band.GetConfig(name, repeater, dwell) *)
Record band_cfg := mkCfg {
  c_name : string;        (* the band.Name passed to GetConfig *)
  c_rep : bool;           (* repeaterCompatible argument *)
  c_dwell : bool;         (* dwell-time argument = lorawan.DwellTime400ms *)
  c_kind : band_kind;     (* concrete type returned *)
  c_dwell400 : bool;      (* the struct's own dwellTime field = DwellTime400ms (as923, au915) *)
  c_freq_off : Z;         (* as923Band.frequencyOffset, 0 otherwise *)
  c_bname : string;       (* Band.Name() *)
  c_defaults : defaults;  (* Band.GetDefaults() as observed by the dumper *)
  c_tab : tables
}.

(* ---- Go semantics helpers ---------------------------------------------- *)

Definition zlen {A} (l : list A) : Z := Z.of_nat (List.length l).

(* s[i] on a Go slice: run-time panic outside 0 <= i < len(s) *)
Definition zindex {A} (l : list A) (i : Z) : outcome A :=
  if i <? 0 then Panic
  else match nth_error l (Z.to_nat i) with
       | Some a => Ok a
       | None => Panic
       end.

(* m[k] on a Go map *)
Fixpoint zfind {A} (k : Z) (m : zmap A) : option A :=
  match m with
  | [] => None
  | (k', v) :: m' => if k =? k' then Some v else zfind k m'
  end.

Fixpoint sfind {A} (k : string) (m : smap A) : option A :=
  match m with
  | [] => None
  | (k', v) :: m' => if String.eqb k k' then Some v else sfind k m'
  end.

Definition zkeys {A} (m : zmap A) : list Z := map fst m.
Definition skeys {A} (m : smap A) : list string := map fst m.

Definition data_rate_params_eqb (a b : data_rate) : bool :=
  String.eqb (dr_mod a) (dr_mod b) && (dr_bw a =? dr_bw b) && (dr_bitrate a =? dr_bitrate b)
  && (dr_sf a =? dr_sf b) && (dr_ocw a =? dr_ocw b) && String.eqb (dr_cr a) (dr_cr b).

Definition data_rate_eqb (a b : data_rate) : bool :=
  Bool.eqb (dr_up a) (dr_up b) && Bool.eqb (dr_down a) (dr_down b) && data_rate_params_eqb a b.

Definition channel_eqb (a b : channel) : bool :=
  (ch_freq a =? ch_freq b) && (ch_min a =? ch_min b) && (ch_max a =? ch_max b)
  && Bool.eqb (ch_enabled a) (ch_enabled b) && Bool.eqb (ch_custom a) (ch_custom b).

Definition defaults_eqb (a b : defaults) : bool :=
  (d_rx2_freq a =? d_rx2_freq b) && (d_rx2_dr a =? d_rx2_dr b)
  && (d_rx_delay1 a =? d_rx_delay1 b) && (d_rx_delay2 a =? d_rx_delay2 b)
  && (d_ja_delay1 a =? d_ja_delay1 b) && (d_ja_delay2 a =? d_ja_delay2 b).

Definition pair_eqb_zz (a b : Z * Z) : bool := (fst a =? fst b) && (snd a =? snd b).

(* decidable equality of whole configurations (the deprecated band names must give the same
   object as their common name; soundness: Band/AliasProofs.v) *)
Definition size_table_eqb (a b : size_table) : bool :=
  list_eqb (fun x y => (fst x =? fst y) && pair_eqb_zz (snd x) (snd y)) a b.
Definition maxpl_eqb (a b : maxpl_table) : bool :=
  list_eqb (fun x y => String.eqb (fst x) (fst y)
                       && list_eqb (fun u v => String.eqb (fst u) (fst v) && size_table_eqb (snd u) (snd v))
                                   (snd x) (snd y)) a b.
Definition tables_eqb (a b : tables) : bool :=
  Bool.eqb (t_extra a) (t_extra b) && (t_cfmin a =? t_cfmin b) && (t_cfmax a =? t_cfmax b)
  && list_eqb (fun x y => (fst x =? fst y) && data_rate_eqb (snd x) (snd y)) (t_drs a) (t_drs b)
  && maxpl_eqb (t_maxpl a) (t_maxpl b)
  && list_eqb (fun x y => (fst x =? fst y) && list_eqb Z.eqb (snd x) (snd y)) (t_rx1 a) (t_rx1 b)
  && list_eqb channel_eqb (t_up a) (t_up b) && list_eqb channel_eqb (t_down a) (t_down b)
  && list_eqb Z.eqb (t_txpow a) (t_txpow b).
(* everything but the name passed to GetConfig *)
Definition cfg_body_eqb (a b : band_cfg) : bool :=
  Bool.eqb (c_rep a) (c_rep b) && Bool.eqb (c_dwell a) (c_dwell b) && kind_eqb (c_kind a) (c_kind b)
  && Bool.eqb (c_dwell400 a) (c_dwell400 b) && (c_freq_off a =? c_freq_off b)
  && String.eqb (c_bname a) (c_bname b) && defaults_eqb (c_defaults a) (c_defaults b)
  && tables_eqb (c_tab a) (c_tab b).
Definition with_name (c : band_cfg) (name : string) : band_cfg :=
  mkCfg name (c_rep c) (c_dwell c) (c_kind c) (c_dwell400 c) (c_freq_off c) (c_bname c) (c_defaults c) (c_tab c).

Fixpoint zrange_from (lo : Z) (n : nat) : list Z :=
  match n with
  | O => []
  | S n' => lo :: zrange_from (lo + 1) n'
  end.
(* lo, lo+1, ..., hi (empty when hi < lo) *)
Definition zrange (lo hi : Z) : list Z := zrange_from lo (Z.to_nat (hi - lo + 1)).

Definition pair_eqb (a b : Z * Z) : bool := (fst a =? fst b) && (snd a =? snd b).

Definition second : Z := 1000000000.
