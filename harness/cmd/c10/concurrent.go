package main

// Quick-tier concurrent smoke (the race-detector child stays thorough-only).  A set of tasks, each a pure
// function of immutable inputs that builds ITS OWN values (decode a frame and its FOpts into commands, decode
// single MAC commands, decode port-0 command streams, set + validate a data MIC, FOpts / FRMPayload
// encryption and decryption), is first run sequentially to record the results; then 8 goroutines repeat the
// tasks for about half a second while one more goroutine loops RegisterProprietaryMACCommand(true, 131..191,
// 1..5).  The streams only contain built-in CIDs, so no result depends on those registrations.  A second group
// of tasks decodes the SAME underlying bytes in all goroutines (every built-in command of both directions, a
// shared DataPayload stream, a shared frame buffer): decoders only read their input.  Every
// concurrent result must equal the sequential one (`concurrent:<task>`); when no goroutine makes progress for
// 3 s the run is reported as `hang:concurrent-decode-register` (a reader that takes the registry lock twice
// deadlocks with a waiting writer).  Progress-based, not wall-clock-based: a slow machine is not a hang.

import (
	"fmt"
	"sync"
	"sync/atomic"
	"time"

	"github.com/brocaar/lorawan"
	"verifharness/internal/cases"
	"verifharness/internal/framefmt"
	"verifharness/internal/macfmt"
)

type ctask struct {
	name   string
	replay map[string]interface{}
	run    func() string
	want   string
}

func safeRun(f func() string) (s string) {
	defer func() {
		if r := recover(); r != nil {
			s = fmt.Sprintf("panic: %v", r)
		}
	}()
	return f()
}

func (h *H) concurrentSmoke() {
	r := h.r
	var tasks []ctask
	add := func(name string, replay map[string]interface{}, run func() string) {
		tasks = append(tasks, ctask{name: name, replay: replay, run: run})
	}
	for i := 0; i < 40; i++ {
		up := i%2 == 0
		mt := lorawan.UnconfirmedDataDown
		if up {
			mt = lorawan.UnconfirmedDataUp
		}
		var key lorawan.AES128Key
		copy(key[:], r.Bytes(16))
		switch i % 5 {
		case 0: // a frame with FOpts: decode, decode the FOpts into commands
			f := framefmt.DataFrame(r, framefmt.Opt{MType: mt, Port: 1 + r.Intn(200), FOptsBytes: 3 + r.Intn(12), FRMLen: r.Intn(20)})
			wire, err := f.MarshalBinary()
			if err != nil {
				continue
			}
			add(fmt.Sprintf("decode+DecodeFOptsToMACCommands:%x", wire), map[string]interface{}{"in": hexs(wire)}, func() string {
				var q lorawan.PHYPayload
				if err := q.UnmarshalBinary(append([]byte{}, wire...)); err != nil {
					return "err"
				}
				if err := q.DecodeFOptsToMACCommands(); err != nil {
					return "err2"
				}
				return framefmt.Phy(q, framefmt.DecodedFOptsLen(wire))
			})
		case 1: // single MAC commands
			for _, c := range framefmt.ValidCmds(r, up, 1+r.Intn(5)) {
				wire, err := c.MarshalBinary()
				if err != nil || len(wire) < 2 {
					continue
				}
				add(fmt.Sprintf("MACCommand.UnmarshalBinary(%v,%x)", up, wire), map[string]interface{}{"uplink": up, "in": hexs(wire)}, func() string {
					var m lorawan.MACCommand
					if err := m.UnmarshalBinary(up, append([]byte{}, wire...)); err != nil {
						return "err"
					}
					return macfmt.Item(&m)
				})
			}
		case 2: // a port-0 stream of commands
			f := framefmt.DataFrame(r, framefmt.Opt{MType: mt, Port: 0, FRMAsMAC: true, FRMLen: 5 + r.Intn(40)})
			wire, err := f.MarshalBinary()
			if err != nil {
				continue
			}
			add(fmt.Sprintf("decode+DecodeFRMPayloadToMACCommands:%x", wire), map[string]interface{}{"in": hexs(wire)}, func() string {
				var q lorawan.PHYPayload
				if err := q.UnmarshalBinary(append([]byte{}, wire...)); err != nil {
					return "err"
				}
				if err := q.DecodeFRMPayloadToMACCommands(); err != nil {
					return "err2"
				}
				return framefmt.Phy(q, 0)
			})
		case 3: // data MIC: set and validate
			f := framefmt.DataFrame(r, framefmt.Opt{MType: mt, Port: 1 + r.Intn(200), FOptsBytes: r.Intn(10), FRMLen: r.Intn(60), FCntHigh: true})
			wire, err := f.MarshalBinary()
			if err != nil {
				continue
			}
			conf, dr, ch := r.U32(), uint8(r.Intn(16)), uint8(r.Intn(72))
			add(fmt.Sprintf("Set+ValidateDataMIC:%x", wire), map[string]interface{}{"in": hexs(wire), "key": hexs(key[:])}, func() string {
				var q lorawan.PHYPayload
				if err := q.UnmarshalBinary(append([]byte{}, wire...)); err != nil {
					return "err"
				}
				var ok bool
				var e1, e2 error
				if up {
					e1 = q.SetUplinkDataMIC(lorawan.LoRaWAN1_1, conf, dr, ch, key, key)
					ok, e2 = q.ValidateUplinkDataMIC(lorawan.LoRaWAN1_1, conf, dr, ch, key, key)
				} else {
					e1 = q.SetDownlinkDataMIC(lorawan.LoRaWAN1_1, conf, key)
					ok, e2 = q.ValidateDownlinkDataMIC(lorawan.LoRaWAN1_1, conf, key)
				}
				return fmt.Sprintf("%x %v %v %v", q.MIC[:], ok, e1, e2)
			})
		default: // FOpts + FRMPayload encryption, then decryption (decodes the commands again)
			f := framefmt.DataFrame(r, framefmt.Opt{MType: mt, Port: 0, FRMAsMAC: true, FRMLen: 5 + r.Intn(30)})
			g := framefmt.DataFrame(r, framefmt.Opt{MType: mt, Port: 1 + r.Intn(200), FOptsBytes: 3 + r.Intn(12), FRMLen: r.Intn(20)})
			w1, e1 := f.MarshalBinary()
			w2, e2 := g.MarshalBinary()
			if e1 != nil || e2 != nil {
				continue
			}
			add(fmt.Sprintf("Encrypt+Decrypt FRMPayload/FOpts:%x:%x", w1, w2), map[string]interface{}{"frm_frame": hexs(w1), "fopts_frame": hexs(w2), "key": hexs(key[:])}, func() string {
				var a, b lorawan.PHYPayload
				if a.UnmarshalBinary(append([]byte{}, w1...)) != nil || b.UnmarshalBinary(append([]byte{}, w2...)) != nil {
					return "err"
				}
				// the wire bytes are plaintext here: "encrypt" twice = identity, decrypting the encrypted form decodes the commands
				x1 := a.EncryptFRMPayload(key)
				enc := framefmt.Phy(a, 0)
				x2 := a.DecryptFRMPayload(key)
				y1 := b.EncryptFOpts(key)
				encB := framefmt.Phy(b, framefmt.DecodedFOptsLen(w2))
				y2 := b.DecryptFOpts(key)
				return fmt.Sprintf("%v %v %v %v %s %s %s %s", x1, x2, y1, y2, enc, framefmt.Phy(a, 0), encB, framefmt.Phy(b, framefmt.DecodedFOptsLen(w2)))
			})
		}
	}
	// ---- the SAME underlying bytes decoded by all goroutines at once (a shared receive buffer; two frames whose
	// DataPayload share one Bytes slice): decoders only read their input, so this is as good as private copies ----
	for _, up := range []bool{false, true} {
		up := up
		var stream []byte
		for _, b := range macfmt.Builtin {
			if b.Up != up {
				continue
			}
			wire := append([]byte{byte(b.CID)}, r.Bytes(macfmt.Kinds[macfmt.KindIndex(b.Kind)].Size)...)
			stream = append(stream, wire...)
			add(fmt.Sprintf("shared-bytes MACCommand.UnmarshalBinary(%v,%x)", up, wire), map[string]interface{}{"uplink": up, "in": hexs(wire), "shared": "all goroutines decode the same slice"}, func() string {
				var m lorawan.MACCommand
				if err := m.UnmarshalBinary(up, wire); err != nil {
					return "err"
				}
				return macfmt.Item(&m)
			})
		}
		mt := lorawan.UnconfirmedDataDown
		if up {
			mt = lorawan.UnconfirmedDataUp
		}
		shared := &lorawan.DataPayload{Bytes: stream}
		add(fmt.Sprintf("shared-bytes DecodeFRMPayloadToMACCommands(%v,%x)", up, stream), map[string]interface{}{"uplink": up, "stream": hexs(stream), "shared": "frames of all goroutines hold the same DataPayload"}, func() string {
			port := uint8(0)
			q := lorawan.PHYPayload{MHDR: lorawan.MHDR{MType: mt}, MACPayload: &lorawan.MACPayload{FPort: &port, FRMPayload: []lorawan.Payload{shared}}}
			if err := q.DecodeFRMPayloadToMACCommands(); err != nil {
				return "err"
			}
			return framefmt.Phy(q, 0)
		})
		f := framefmt.DataFrame(r, framefmt.Opt{MType: mt, Port: 1 + r.Intn(200), FOptsBytes: 3 + r.Intn(12), FRMLen: 1 + r.Intn(20)})
		if wire, err := f.MarshalBinary(); err == nil {
			add(fmt.Sprintf("shared-bytes PHYPayload.UnmarshalBinary(%x)", wire), map[string]interface{}{"in": hexs(wire), "shared": "all goroutines decode the same slice"}, func() string {
				var q lorawan.PHYPayload
				if err := q.UnmarshalBinary(wire); err != nil {
					return "err"
				}
				return framefmt.Phy(q, framefmt.DecodedFOptsLen(wire))
			})
		}
	}
	for i := range tasks {
		tasks[i].want = safeRun(tasks[i].run)
	}

	const workers = 8
	var progress int64
	var stop int32
	var mu sync.Mutex
	bad := map[int][2]string{}
	var wg sync.WaitGroup
	end := time.Now().Add(500 * time.Millisecond)
	for g := 0; g < workers; g++ {
		wg.Add(1)
		go func(g int) {
			defer wg.Done()
			for k := g; atomic.LoadInt32(&stop) == 0; k++ {
				if k%16 == 0 && time.Now().After(end) && k >= g+len(tasks) { // at least one full pass per goroutine
					return
				}
				t := tasks[k%len(tasks)]
				got := safeRun(t.run)
				atomic.AddInt64(&progress, 1)
				if got != t.want {
					mu.Lock()
					if _, seen := bad[k%len(tasks)]; !seen {
						bad[k%len(tasks)] = [2]string{t.want, got}
					}
					mu.Unlock()
				}
			}
		}(g)
	}
	var registrations int64
	regDone := make(chan struct{})
	go func() {
		defer close(regDone)
		for k := 0; atomic.LoadInt32(&stop) == 0; k++ {
			_ = lorawan.RegisterProprietaryMACCommand(true, lorawan.CID(131+k%61), 1+k%5)
			atomic.AddInt64(&registrations, 1)
			atomic.AddInt64(&progress, 1)
			if k%64 == 0 {
				time.Sleep(50 * time.Microsecond)
			}
		}
	}()
	done := make(chan struct{})
	go func() { wg.Wait(); close(done) }()
	last, lastChange := int64(-1), time.Now()
	hung := false
wait:
	for {
		select {
		case <-done:
			break wait
		case <-time.After(50 * time.Millisecond):
			if p := atomic.LoadInt64(&progress); p != last {
				last, lastChange = p, time.Now()
			} else if time.Since(lastChange) > 3*time.Second {
				hung = true
				break wait
			}
		}
	}
	atomic.StoreInt32(&stop, 1)
	if hung {
		h.s.Fail(cases.GoFail{Key: "hang:concurrent-decode-register",
			What:   fmt.Sprintf("%d goroutines decoding MAC commands / frames on their own values and one goroutine calling RegisterProprietaryMACCommand made no progress for 3 s after %d calls: deadlock in the library (e.g. a reader taking the registry lock twice while a writer waits)", workers, last),
			Replay: map[string]interface{}{"api": "8 goroutines: decode frames / MAC commands, MIC, encrypt+decrypt; 1 goroutine: RegisterProprietaryMACCommand(true, 131..191, 1..5) in a loop", "calls_before_stall": last}})
		h.s.Extra["concurrent_smoke"] = "HANG"
		return // the stuck goroutines are abandoned; nothing calls the library after this point
	}
	select {
	case <-regDone:
	case <-time.After(3 * time.Second):
	}
	for i, v := range bad {
		t := tasks[i]
		rp := map[string]interface{}{"sequential_result": clip(v[0]), "concurrent_result": clip(v[1]), "workers": workers}
		for k, x := range t.replay {
			rp[k] = x
		}
		h.s.Fail(cases.GoFail{Key: "concurrent:" + t.name,
			What: fmt.Sprintf("%s on its own values gave a different result while %d goroutines were calling the library on other values and one was registering proprietary commands: %s (sequential) vs %s", t.name, workers, clip(v[0]), clip(v[1])), Replay: rp})
	}
	h.s.Extra["concurrent_smoke"] = fmt.Sprintf("%d tasks, %d concurrent calls in 8 goroutines, %d registrations, %d mismatches", len(tasks), atomic.LoadInt64(&progress)-atomic.LoadInt64(&registrations), atomic.LoadInt64(&registrations), len(bad))
}
