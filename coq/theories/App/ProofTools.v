(* Proof support for the application-layer payload proofs: case enumeration
   of small numeric domains, controlled symbolic execution of the models. *)
From Coq Require Import List NArith ZArith Bool Lia.
From Coq Require Import ZifyN ZifyNat ZifyBool.
From LW Require Import Base.Outcome Base.Bytes App.Common App.Spec.
Import ListNotations.
Open Scope N_scope.
Ltac Zify.zify_post_hook ::= Z.div_mod_to_equations.

Lemma N_lt_cases n x : x < N.of_nat n -> In x (map N.of_nat (seq 0 n)).
Proof.
  intros H. apply in_map_iff. exists (N.to_nat x). split; [lia|]. apply in_seq. lia.
Qed.

(* split on all values of x below n (the bound must follow by lia) *)
Ltac enum x n :=
  let H := fresh "Hen" in
  assert (H : In x (map N.of_nat (seq 0 n))) by (apply N_lt_cases; cbn; lia);
  vm_compute in H;
  repeat (destruct H as [H|H]; [subst x|]); [..|contradiction].

(* expose the width facts of an [in_widthb] hypothesis in a form lia reads *)
Ltac widths H :=
  cbn [groups_ok forallb group_ok sum_widths fwidth fvalue U32 U24 U16 U8 ADDR andb
       addr_ok is_some] in H;
  try unfold addr_ok in H.

(* run encoders/decoders on explicit byte lists without touching N arithmetic *)
Ltac run :=
  cbn [le_bytes app length Nat.ltb Nat.leb Nat.eqb sub rd_le idx nth_error firstn skipn
       Nat.sub Nat.add Nat.mul bind le_val negb andb orb rev devaddr_marshal devaddr_unmarshal
       fst snd flat_map].

Ltac layout :=
  unfold spec_bytes;
  cbn [flat_map group_bytes pack app le_bytes U8 U16 U24 U32 ADDR firstn].

Lemma mask_val_4 a b c d :
  mask_bits 0 [a; b; c; d] 0 = mask_val [a; b; c; d].
Proof. destruct a, b, c, d; reflexivity. Qed.

Lemma unmask4_mask a b c d : unmask4 (mask_bits 0 [a; b; c; d] 0) = [a; b; c; d].
Proof. destruct a, b, c, d; reflexivity. Qed.

Lemma length4 {A} (l : list A) : length l = 4%nat -> exists a b c d, l = [a; b; c; d].
Proof.
  destruct l as [|a [|b [|c [|d [|e l]]]]]; simpl; intros H; try discriminate.
  now exists a, b, c, d.
Qed.

(* a 4-byte address: its little-endian transmission is the reversed array *)
Lemma le_bytes_be_val4 a : length a = 4%nat -> Forall (fun b => b < 256) a ->
  le_bytes 4 (be_val a) = rev a.
Proof.
  intros Hl Hb. unfold be_val.
  rewrite <- (rev_length a) in Hl. rewrite <- Hl.
  apply le_bytes_val. now apply Forall_rev.
Qed.

(* split an equation between explicit byte lists into one goal per byte *)
Ltac bytes_eq := repeat match goal with |- _ :: _ = _ :: _ => f_equal end.
(* split  Ok (C a b ..) = Ok (C a' b' ..)  into one goal per field *)
Ltac fields_eq := apply f_equal; f_equal.

(* a decoder built from length tests, [idx], [sub], [rd_le] and [bind] never
   reports fuel exhaustion *)
Ltac no_fuel :=
  unfold rd_le, sub, idx, devaddr_unmarshal;
  repeat (cbn [bind];
          match goal with
          | |- context [if ?c then _ else _] => destruct c
          | |- context [match nth_error ?l ?i with _ => _ end] => destruct (nth_error l i)
          end);
  cbn [bind]; discriminate.

(* case analysis on a command identifier, deep enough for CIDs below 16 *)
Ltac cid_cases cid :=
  let p := fresh "p" in
  destruct cid as [|p]; [|do 4 (try destruct p as [p|p|])].

Lemma idx_app pre x post : idx (pre ++ x :: post) (length pre) = Ok x.
Proof. unfold idx. rewrite nth_error_app2 by lia. now rewrite Nat.sub_diag. Qed.

Lemma sub_app pre mid post a b :
  length pre = a -> (a + length mid)%nat = b -> sub (pre ++ mid ++ post) a b = Ok mid.
Proof.
  intros <- <-. unfold sub. rewrite !app_length.
  replace (length pre + length mid <=? length pre + (length mid + length post))%nat with true
    by (symmetry; apply Nat.leb_le; lia).
  rewrite drop_app_length.
  replace (length pre + length mid - length pre)%nat with (length mid) by lia.
  now rewrite take_app_length.
Qed.

(* turn a list of known length into explicit conses *)
Ltac explode l H :=
  repeat (let x := fresh "x" in
          destruct l as [|x l]; cbn [length] in H; [try (exfalso; lia)|try (exfalso; lia)]).
