(* Correspondence cases for C01 / C08 / C09 frame codecs. *)
From Coq Require Import List NArith ZArith Bool.
From LW Require Export Base.Outcome Base.Bytes Mac.Commands Mac.Spec Mac.Stream Frame.Model Frame.Spec Text.Base64 Frame.Text.
Import ListNotations.
Open Scope N_scope.

Inductive case :=
(* frame value, MarshalBinary outcome, UnmarshalBinary of those bytes *)
| CRoundTrip (p : phy) (o_enc : outcome (list N)) (o_dec : outcome phy)
(* frame value, MarshalText outcome (base64 text as byte values), UnmarshalText of that text *)
| CText (p : phy) (o_txt : outcome (list N)) (o_dec : outcome phy)
(* join-accept payload alone (the frame decoder leaves it opaque): JoinAcceptPayload Marshal / Unmarshal *)
| CJoinAccept (p : payload) (o_enc : outcome (list N)) (o_dec : outcome payload).

Definition oeqb := outcome_eqb bytes_eqb.
Definition phyeqb := outcome_eqb phy_eqb.
Definition pleqb := outcome_eqb payload_eqb.

Definition wire_payload (p : payload) : payload :=
  match p with
  | PLJoinAccept jn nid da o rx2 rx1 rxd (Some l) => PLJoinAccept jn nid da o rx2 rx1 rxd (Some (wire_cflist l))
  | _ => p
  end.

(* more FOpts octets than the 4-bit FOptsLen can announce: such a frame has no encoding (finding C06-5) *)
Definition fopts_too_long (p : phy) : bool :=
  match pl p with
  | PLMac m => match items_marshal (fopts (hdr m)) with Ok ob => (15 <? length ob)%nat | _ => false end
  | _ => false
  end.

Definition check (c : case) : N :=
  match c with
  | CRoundTrip p o_enc o_dec =>
    code (oeqb (phy_marshal p) o_enc &&
          match o_enc with Ok bs => phyeqb (phy_unmarshal bs) o_dec | _ => true end)
         (if spec_valid p
          then is_ok o_enc && phyeqb o_dec (Ok (wire_view p))
          else if fopts_too_long p then is_err o_enc
          else negb (is_panic o_enc) || match pl p with PLJoinAccept _ _ _ _ _ _ _ (Some l) => match cf_payload l with CFPNil => true | _ => false end | _ => false end)
  | CText p o_txt o_dec =>
    code (oeqb (phy_marshal_text p) o_txt &&
          match o_txt with Ok t => phyeqb (phy_unmarshal_text t) o_dec | _ => true end)
         (if spec_valid p then is_ok o_txt && phyeqb o_dec (Ok (wire_view p))
          else if fopts_too_long p then is_err o_txt
          else negb (is_panic o_txt) || match pl p with PLJoinAccept _ _ _ _ _ _ _ (Some l) => match cf_payload l with CFPNil => true | _ => false end | _ => false end)
  | CJoinAccept p o_enc o_dec =>
    code (oeqb (payload_marshal p) o_enc &&
          match o_enc with Ok bs => pleqb (joinaccept_unmarshal bs) o_dec | _ => true end)
         (if spec_valid (mkPHY JoinAccept 0 p [0;0;0;0])
          then is_ok o_enc && pleqb o_dec (Ok p)
          else true)
  end.

Definition run_cases := run_with check.
