package main

import (
	"encoding/hex"
	"errors"
	"fmt"
	"net/http/httptest"

	"github.com/brocaar/lorawan/backend/joinserver"
	"verifharness/internal/cases"
)

// errorPaths: every reachable error propagation of handleJoinReq / handleRejoinReq and of the two task
// pipelines, once per flow (1.0 join, 1.1 join, one rejoin type) instead of for a randomly chosen flow.
// All are ordinary cases against the model (status class + result code + mirrored ids).
// Reachability (read on the source, confirmed with go build -cover):
//   reachable   GetDeviceKeys other error (400 Other); KEK / AS-label / AS-KEK lookup error (500 Other);
//               KEK of a length aes.NewCipher refuses (AppSKey envelope; first NS envelope);
//               JoinNonce > 2^24-1 (setJoinNonce) and negative (uint32 wrap -> getSKey marshal error);
//               RxDelay > 15 (SetDownlinkJoinMIC marshal error; a channel-mask CFList can no longer fail there since /repo e2c2b92); CFList of a
//               wrong length; SenderID / ReceiverID that are not a NetID / JoinEUI
//   unreachable the later getSKey errors after the first succeeded (same nonce), getJSKey / cipher /
//               block-size errors, EncryptJoinAcceptPayload / MarshalBinary after the MIC was computed over
//               the same bytes, the 2nd / 3rd NS envelope after the first (same KEK), ValidateUplinkJoinMIC
//               error, json.Marshal errors of the answers, `case ErrInvalidMIC` in the rejoin wrapper
func (g *G) errorPaths(thorough bool) {
	r := g.r
	reps := 1
	if thorough {
		reps = 4
	}
	for rep := 0; rep < reps; rep++ {
		flows := []struct {
			name   string
			kind   int
			optneg bool
		}{{"join10", kJoin, false}, {"join11", kJoin, true}, {"rejoin", kRejoin0 + (rep+r.Intn(3))%3, true}}
		for _, fl := range flows {
			mk := func() (act, *table, *req) {
				a := g.randomAct(fl.kind)
				a.dls = a.dls & 0x7f
				if fl.optneg {
					a.dls |= 0x80
				}
				a.nsKEK, a.asLabel, a.asKEK = r.Bytes(16), "as-1", r.Bytes(16)
				t := a.table()
				return a, t, nil
			}
			type variant struct {
				name string
				edit func(a *act, t *table, q *req)
			}
			vs := []variant{
				{"get-device-keys-error", func(a *act, t *table, q *req) { t.devices[0].kind = lookErr }},
				{"get-ns-kek-error", func(a *act, t *table, q *req) { t.keks[0].err = true }},
				{"get-as-kek-label-error", func(a *act, t *table, q *req) { t.aslabels[0].err = true }},
				{"get-as-kek-error", func(a *act, t *table, q *req) { t.keks[1].err = true }},
				{"ns-kek-17-bytes", func(a *act, t *table, q *req) { t.keks[0].kek = r.Bytes(17) }},
				{"as-kek-15-bytes", func(a *act, t *table, q *req) { t.keks[1].kek = r.Bytes(15) }},
				{"joinnonce-2^24", func(a *act, t *table, q *req) { t.devices[0].joinNonce = 1 << 24 }},
				{"joinnonce-negative", func(a *act, t *table, q *req) { t.devices[0].joinNonce = -1 - r.Intn(1000) }},
				{"rxdelay-16", func(a *act, t *table, q *req) { q.rxDelay = 16 }},
				{"rxdelay-255", func(a *act, t *table, q *req) { q.rxDelay = 255 }},
				{"cflist-15-bytes", func(a *act, t *table, q *req) { q.cfl = sp(hex.EncodeToString(r.Bytes(15))) }},
				{"sender-not-a-netid", func(a *act, t *table, q *req) { q.sender = "01020g" }},
				{"receiver-not-a-joineui", func(a *act, t *table, q *req) { q.receiver = "0102030405060x08" }},
				{"frame-truncated", func(a *act, t *table, q *req) { f := a.frame(); q.phy = sp(hex.EncodeToString(f[:len(f)-3])) }},
			}
			for _, v := range vs {
				a, t, _ := mk()
				q := g.request(&a)
				v.edit(&a, t, q)
				g.run(t, q, "INone", "error-path", fmt.Sprintf("error-path:%s:%s:%s", fl.name, v.name, a.describe()), nil)
			}
		}
	}
}

type failingReader struct{}

func (failingReader) Read([]byte) (int, error) { return 0, errors.New("connection reset") }

// optionalConfig: handlers built with the optional configuration functions left nil (NewHandler installs
// defaults: no KEK, no AS-KEK label, home NetID unknown), the mandatory one missing, and a request body
// that cannot be read.
func (g *G) optionalConfig(thorough bool) {
	r := g.r
	reps := 1
	if thorough {
		reps = 6
	}
	for rep := 0; rep < reps; rep++ {
		for _, combo := range []struct {
			name                string
			kek, aslabel, homef bool
		}{{"all-optional-nil", true, true, true}, {"kek-func-nil", true, false, false}, {"as-label-func-nil", false, true, false}, {"home-func-nil", false, false, true}} {
			for _, kind := range []int{kJoin, kJoin, kRejoin0 + r.Intn(3)} {
				a := g.randomAct(kind)
				if kind == kJoin {
					a.dls = a.dls&0x7f | byte(rep+r.Intn(2))&1<<7
				}
				if combo.kek {
					a.nsKEK, a.asKEK = nil, nil
				}
				if combo.aslabel {
					a.asLabel, a.asKEK = "", nil
				}
				t := a.table()
				t.nilKEK, t.nilASLabel, t.nilHome = combo.kek, combo.aslabel, combo.homef
				if t.nilKEK { // a nil function has no table behind it (the decoy entries go too)
					t.keks = nil
				}
				if t.nilASLabel {
					t.aslabels = nil
				}
				g.activationOn(t.handler(), t, &a, "optional-config-nil", "config:"+combo.name+":", nil)
			}
			// HomeNSReq through the same kind of handler
			var eui [8]byte
			copy(eui[:], r.Bytes(8))
			t := &table{nilKEK: combo.kek, nilASLabel: combo.aslabel, nilHome: combo.homef}
			if !combo.homef {
				h := homeEntry{eui: eui, kind: found}
				copy(h.netID[:], r.Bytes(3))
				t.home = append(t.home, h)
			}
			q := &req{sender: hex.EncodeToString(r.Bytes(3)), receiver: hex.EncodeToString(r.Bytes(8)), txid: r.U32(), mtype: "HomeNSReq",
				devEUI: sp(hex.EncodeToString(eui[:])), omit: map[string]bool{"RxDelay": true}, null: map[string]bool{}}
			g.run(t, q, "INone", "optional-config-nil", fmt.Sprintf("config:%s:homens:dev=%x", combo.name, eui), nil)
		}
	}

	// the mandatory function missing: constructor error, no handler, no panic
	func() {
		defer func() {
			if p := recover(); p != nil {
				g.s.Fail(cases.GoFail{Key: "config:device-keys-func-nil:panic", What: fmt.Sprint("NewHandler panicked: ", p), Replay: map[string]interface{}{"api": "joinserver.NewHandler(HandlerConfig{})"}})
			}
		}()
		h, err := joinserver.NewHandler(joinserver.HandlerConfig{})
		if err == nil || h != nil {
			g.s.Fail(cases.GoFail{Key: "config:device-keys-func-nil", What: "NewHandler accepts a configuration without GetDeviceKeysByDevEUIFunc", Replay: map[string]interface{}{"api": "joinserver.NewHandler(HandlerConfig{})"}})
		}
	}()

	// a body that cannot be read (outside the model, which starts at the body text): HTTP 500, bare Other, no panic
	func() {
		t := &table{}
		rec := httptest.NewRecorder()
		rp := map[string]interface{}{"api": "ServeHTTP with a request body whose Read fails"}
		defer func() {
			if p := recover(); p != nil {
				g.s.Fail(cases.GoFail{Key: "body-unreadable:panic", What: fmt.Sprint("ServeHTTP panicked: ", p), Replay: rp})
			}
		}()
		cases.Begin("ServeHTTP:unreadable body", rp)
		t.handler().ServeHTTP(rec, httptest.NewRequest("POST", "/", failingReader{}))
		cases.End()
		a := answer{status: rec.Code, rawBody: rec.Body.String()}
		parseAnswer(&a)
		if a.status != 500 || !a.bare || a.rc != "Other" {
			rp["observed"] = a.summary()
			g.s.Fail(cases.GoFail{Key: "body-unreadable", What: fmt.Sprintf("unreadable body answered with status %d result %q (expected 500 and a bare Other result)", a.status, a.rc), Replay: rp})
		}
	}()
}
