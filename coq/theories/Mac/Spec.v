(* An independent, table-driven description of the LoRaWAN MAC-command wire
   format (LoRaWAN 1.0.x / 1.1 section 5): every payload is a little-endian
   bit string; a layout lists its fields from the least significant bit.
   RFU fields are written as zero and ignored when read. *)
From Coq Require Import List NArith ZArith Bool.
From LW Require Import Base.Outcome Base.Bytes Mac.Commands.
Import ListNotations.
Open Scope N_scope.

Inductive fld := F (width : N) | RFU (width : N).
Definition layout := list fld.

Fixpoint pack (L : layout) (vals : list N) : N :=
  match L with
  | [] => 0
  | RFU w :: L' => 2 ^ w * pack L' vals
  | F w :: L' =>
    match vals with
    | v :: vs => v mod 2 ^ w + 2 ^ w * pack L' vs
    | [] => 0
    end
  end.

Fixpoint unpack (L : layout) (x : N) : list N :=
  match L with
  | [] => []
  | RFU w :: L' => unpack L' (x / 2 ^ w)
  | F w :: L' => x mod 2 ^ w :: unpack L' (x / 2 ^ w)
  end.

Definition fld_width (f : fld) : N := match f with F w | RFU w => w end.
Definition bit_size (L : layout) : N := fold_right (fun f acc => fld_width f + acc) 0 L.
Definition byte_size (L : layout) : nat := N.to_nat (bit_size L / 8).

Definition spec_encode (L : layout) (vals : list N) : list N := le_bytes (byte_size L) (pack L vals).
Definition spec_decode (L : layout) (bs : list N) : list N := unpack L (le_val bs).

(* field ranges narrower than the field width, where the specification says so *)
Fixpoint in_widths (L : layout) (vals : list N) : bool :=
  match L, vals with
  | [], [] => true
  | RFU _ :: L', _ => in_widths L' vals
  | F w :: L', v :: vs => (v <? 2 ^ w) && in_widths L' vs
  | _, _ => false
  end.

(* ---- the table: LoRaWAN MAC command payloads ---- *)
Definition layout_of (k : kind) : layout :=
  match k with
  | KLinkCheckAns => [F 8 (* Margin *); F 8 (* GwCnt *)]
  | KLinkADRReq => [F 4 (* TXPower *); F 4 (* DataRate *); F 16 (* ChMask *);
                    F 4 (* NbTrans *); F 3 (* ChMaskCntl *); RFU 1]
  | KLinkADRAns => [F 1 (* ChannelMaskACK *); F 1 (* DataRateACK *); F 1 (* PowerACK *); RFU 5]
  | KDutyCycleReq => [F 4 (* MaxDCycle *); RFU 4] (* and the whole-octet value 255 of LoRaWAN 1.0: legacy_octets below *)
  | KRXParamSetupReq => [F 4 (* RX2DataRate *); F 3 (* RX1DROffset *); F 1 (* OptNeg / RFU in 1.0 *); F 24 (* Frequency / 100 Hz *)]
  | KRXParamSetupAns => [F 1 (* ChannelACK *); F 1 (* RX2DataRateACK *); F 1 (* RX1DROffsetACK *); RFU 5]
  | KDevStatusAns => [F 8 (* Battery *); F 6 (* Margin, signed *); RFU 2]
  | KNewChannelReq => [F 8 (* ChIndex *); F 24 (* Freq *); F 4 (* MinDR *); F 4 (* MaxDR *)]
  | KNewChannelAns => [F 1 (* ChannelFrequencyOK *); F 1 (* DataRateRangeOK *); RFU 6]
  | KRXTimingSetupReq => [F 4 (* Del *); RFU 4]
  | KTXParamSetupReq => [F 4 (* MaxEIRP *); F 1 (* UplinkDwellTime *); F 1 (* DownlinkDwellTime *); RFU 2]
  | KDLChannelReq => [F 8 (* ChIndex *); F 24 (* Freq *)]
  | KDLChannelAns => [F 1 (* ChannelFrequencyOK *); F 1 (* UplinkFrequencyExists *); RFU 6]
  | KPingSlotInfoReq => [F 3 (* Periodicity *); RFU 5]
  | KBeaconFreqReq => [F 24 (* Frequency *)]
  | KBeaconFreqAns => [F 1 (* BeaconFrequencyOK *); RFU 7]
  | KPingSlotChannelReq => [F 24 (* Frequency *); F 4 (* DR *); RFU 4]
  | KPingSlotChannelAns => [F 1 (* ChannelFrequencyOK *); F 1 (* DataRateOK *); RFU 6]
  | KDeviceTimeAns => [F 32 (* seconds since GPS epoch *); F 8 (* fractional second, 1/256 s *)]
  | KResetInd | KResetConf | KRekeyInd | KRekeyConf => [F 4 (* Minor *); RFU 4]
  | KADRParamSetupReq => [F 4 (* Delay_exp *); F 4 (* Limit_exp *)]
  | KForceRejoinReq => [F 4 (* DR *); F 3 (* RejoinType *); RFU 1; F 3 (* Max_Retries *); F 3 (* Period *); RFU 2]
  | KRejoinParamSetupReq => [F 4 (* MaxCountN *); F 4 (* MaxTimeN *)]
  | KRejoinParamSetupAns => [F 1 (* TimeOK *); RFU 7]
  | KDeviceModeInd | KDeviceModeConf => [F 8 (* Class *)]
  | KProprietary => []
  end.

(* ---- whole-octet legacy values ----
   DutyCycleReq.  LoRaWAN 1.0.2 and later, and 1.1 (section 5.3): DutyCyclePL = RFU (bits 7:4) |
   MaxDCycle (bits 3:0), the layout above.  LoRaWAN 1.0 / 1.0.1 used the whole octet: MaxDCycle
   0..15, and 255 = "the end-device is switched off".  A codec that serves both revisions - as this
   library's encoder does (0..15 and 255 accepted) - has exactly one octet that is NOT read through
   the layout: 255 is the value 255.  Every other octet is read through the layout, i.e. its bits
   7:4 are RFU and ignored.  The exception is part of the description, not of a proof: the
   kind-level encode / decode functions below consult this table. *)
Definition legacy_octets (k : kind) : list N :=
  match k with KDutyCycleReq => [255] | _ => [] end.

Definition is_legacy (k : kind) (x : N) : bool := existsb (N.eqb x) (legacy_octets k).

(* bytes of a payload of kind k from its field values / field values from its bytes *)
Definition spec_encode_k (k : kind) (vals : list N) : list N :=
  match vals with
  | [v] => if is_legacy k v then [v] else spec_encode (layout_of k) vals
  | _ => spec_encode (layout_of k) vals
  end.
Definition spec_decode_k (k : kind) (bs : list N) : list N :=
  match bs with
  | [b] => if is_legacy k b then [b] else spec_decode (layout_of k) bs
  | _ => spec_decode (layout_of k) bs
  end.

(* ---- semantic maps between struct values and field values ---- *)
Definition b2f (b : bool) : N := if b then 1 else 0.
Definition f2b (n : N) : bool := negb (n =? 0).
Fixpoint mask_val (m : list bool) : N :=
  match m with [] => 0 | b :: m' => b2f b + 2 * mask_val m' end.
Definition mask_of (n : N) : list bool := map (N.testbit n) [0;1;2;3;4;5;6;7;8;9;10;11;12;13;14;15].
(* 6-bit two's complement *)
Definition margin_field (m : Z) : N := Z.to_N (m mod 64)%Z.
Definition margin_of (f : N) : Z := if f <? 32 then Z.of_N f else (Z.of_N f - 64)%Z.
(* NewChannelReq: 100 Hz units; 200 Hz units for the 2.4 GHz band *)
Definition newch_freq_field (f : N) : N := if 2400000000 <=? f then f / 200 else f / 100.
Definition newch_freq_of (x : N) : N := if 12000000 <=? x then x * 200 else x * 100.

Definition fields_of (p : macpl) : list N :=
  match p with
  | PLinkCheckAns m g => [m; g]
  | PLinkADRReq dr txp cm cntl nb => [txp; dr; mask_val cm; nb; cntl]
  | PLinkADRAns a b c => [b2f a; b2f b; b2f c]
  | PDutyCycleReq m => [m]
  | PRXParamSetupReq freq optneg rx2 rx1 => [rx2; rx1; b2f optneg; freq / 100]
  | PRXParamSetupAns a b c => [b2f a; b2f b; b2f c]
  | PDevStatusAns bat m => [bat; margin_field m]
  | PNewChannelReq idx f maxdr mindr => [idx; newch_freq_field f; mindr; maxdr]
  | PNewChannelAns a b => [b2f a; b2f b]
  | PRXTimingSetupReq d => [d]
  | PTXParamSetupReq dl ul e => [e; Z.to_N ul; Z.to_N dl]
  | PDLChannelReq idx f => [idx; f / 100]
  | PDLChannelAns upexists freqok => [b2f freqok; b2f upexists]
  | PPingSlotInfoReq p => [p]
  | PBeaconFreqReq f => [f / 100]
  | PBeaconFreqAns ok => [b2f ok]
  | PPingSlotChannelReq f dr => [f / 100; dr]
  | PPingSlotChannelAns drok freqok => [b2f freqok; b2f drok]
  | PDeviceTimeAns d => [Z.to_N (d / 1000000000)%Z; Z.to_N ((d mod 1000000000) / 3906250)%Z]
  | PResetInd m | PResetConf m | PRekeyInd m | PRekeyConf m => [m]
  | PADRParamSetupReq limit delay => [delay; limit]
  | PForceRejoinReq period retries ty dr => [dr; ty; retries; period]
  | PRejoinParamSetupReq maxtime maxcount => [maxcount; maxtime]
  | PRejoinParamSetupAns ok => [b2f ok]
  | PDeviceModeInd c | PDeviceModeConf c => [c]
  | PProprietary _ => []
  end.

Definition g (l : list N) (i : nat) : N := nth i l 0.

Definition value_of (k : kind) (l : list N) : macpl :=
  match k with
  | KLinkCheckAns => PLinkCheckAns (g l 0) (g l 1)
  | KLinkADRReq => PLinkADRReq (g l 1) (g l 0) (mask_of (g l 2)) (g l 4) (g l 3)
  | KLinkADRAns => PLinkADRAns (f2b (g l 0)) (f2b (g l 1)) (f2b (g l 2))
  | KDutyCycleReq => PDutyCycleReq (g l 0)
  | KRXParamSetupReq => PRXParamSetupReq (g l 3 * 100) (f2b (g l 2)) (g l 0) (g l 1)
  | KRXParamSetupAns => PRXParamSetupAns (f2b (g l 0)) (f2b (g l 1)) (f2b (g l 2))
  | KDevStatusAns => PDevStatusAns (g l 0) (margin_of (g l 1))
  | KNewChannelReq => PNewChannelReq (g l 0) (newch_freq_of (g l 1)) (g l 3) (g l 2)
  | KNewChannelAns => PNewChannelAns (f2b (g l 0)) (f2b (g l 1))
  | KRXTimingSetupReq => PRXTimingSetupReq (g l 0)
  | KTXParamSetupReq => PTXParamSetupReq (Z.of_N (g l 2)) (Z.of_N (g l 1)) (g l 0)
  | KDLChannelReq => PDLChannelReq (g l 0) (g l 1 * 100)
  | KDLChannelAns => PDLChannelAns (f2b (g l 1)) (f2b (g l 0))
  | KPingSlotInfoReq => PPingSlotInfoReq (g l 0)
  | KBeaconFreqReq => PBeaconFreqReq (g l 0 * 100)
  | KBeaconFreqAns => PBeaconFreqAns (f2b (g l 0))
  | KPingSlotChannelReq => PPingSlotChannelReq (g l 0 * 100) (g l 1)
  | KPingSlotChannelAns => PPingSlotChannelAns (f2b (g l 1)) (f2b (g l 0))
  | KDeviceTimeAns => PDeviceTimeAns (Z.of_N (g l 0) * 1000000000 + Z.of_N (g l 1) * 3906250)%Z
  | KResetInd => PResetInd (g l 0)
  | KResetConf => PResetConf (g l 0)
  | KRekeyInd => PRekeyInd (g l 0)
  | KRekeyConf => PRekeyConf (g l 0)
  | KADRParamSetupReq => PADRParamSetupReq (g l 1) (g l 0)
  | KForceRejoinReq => PForceRejoinReq (g l 3) (g l 2) (g l 1) (g l 0)
  | KRejoinParamSetupReq => PRejoinParamSetupReq (g l 1) (g l 0)
  | KRejoinParamSetupAns => PRejoinParamSetupAns (f2b (g l 0))
  | KDeviceModeInd => PDeviceModeInd (g l 0)
  | KDeviceModeConf => PDeviceModeConf (g l 0)
  | KProprietary => PProprietary []
  end.

(* Values the specification allows: every field within its width, plus the
   narrower ranges the specification states (frequency a multiple of the
   step and below 2^24 steps; margin -32..31; MaxDCycle 0..15 or the legacy 255;
   ForceRejoinReq RejoinType 0..2 - LoRaWAN 1.1 section 5.13: 0 or 1 = a
   Rejoin-request type 0 shall be transmitted, 2 = type 2, 3..7 RFU; Minor 0..7
   as the subset this library accepts - only Minor = 1 is defined by LoRaWAN 1.1,
   the test suite pins the refusal of Minor 8). *)
Definition freq_ok (f : N) : bool := (f mod 100 =? 0) && (f / 100 <? 2 ^ 24).
Definition spec_in_range (p : macpl) : bool :=
  match p with
  | PLinkCheckAns m gw => (m <? 256) && (gw <? 256)
  | PLinkADRReq dr txp cm cntl nb =>
    (dr <? 16) && (txp <? 16) && Nat.eqb (length cm) 16 && (cntl <? 8) && (nb <? 16)
  | PLinkADRAns _ _ _ | PRXParamSetupAns _ _ _ | PNewChannelAns _ _ | PDLChannelAns _ _
  | PBeaconFreqAns _ | PPingSlotChannelAns _ _ | PRejoinParamSetupAns _ => true
  | PDutyCycleReq m => (m <? 16) || (m =? 255)
  | PRXParamSetupReq f _ rx2 rx1 => freq_ok f && (rx2 <? 16) && (rx1 <? 8)
  | PDevStatusAns bat m => (bat <? 256) && (-32 <=? m)%Z && (m <=? 31)%Z
  | PNewChannelReq idx f maxdr mindr =>
    (idx <? 256) && (maxdr <? 16) && (mindr <? 16) &&
    (if 2400000000 <=? f then (f mod 200 =? 0) && (f / 200 <? 2 ^ 24) && (f <? 2 ^ 32)
     else (f mod 100 =? 0) && (f / 100 <? 12000000))
  | PRXTimingSetupReq d => d <? 16
  | PTXParamSetupReq dl ul e => (e <? 16) && ((dl =? 0) || (dl =? 1))%Z && ((ul =? 0) || (ul =? 1))%Z
  | PDLChannelReq idx f => (idx <? 256) && freq_ok f
  | PPingSlotInfoReq p => p <? 8
  | PBeaconFreqReq f => freq_ok f
  | PPingSlotChannelReq f dr => freq_ok f && (dr <? 16)
  | PDeviceTimeAns d => (0 <=? d)%Z && (d / 1000000000 <? 2 ^ 32)%Z
  | PResetInd m | PResetConf m | PRekeyInd m | PRekeyConf m => m <? 8
  | PADRParamSetupReq l d => (l <? 16) && (d <? 16)
  | PForceRejoinReq period retries ty dr => (period <? 8) && (retries <? 8) && (ty <? 3) && (dr <? 16)
  | PRejoinParamSetupReq t c => (t <? 16) && (c <? 16)
  | PDeviceModeInd c | PDeviceModeConf c => c <? 256
  | PProprietary bs => bytes_ok bs
  end.

(* what survives the wire: sub-resolution parts dropped *)
Definition wire_resolution (p : macpl) : macpl :=
  match p with
  | PDeviceTimeAns d => PDeviceTimeAns (d / 3906250 * 3906250)%Z
  | _ => p
  end.

(* ---- CID table (LoRaWAN 1.1 section 5, table 4; 1.0.3 class B; class C DeviceMode) ----
   direction: true = uplink (sent by the end-device) *)
Definition spec_registry : list ((bool * N) * kind) := [
  ((true, 0x01), KResetInd);            ((false, 0x01), KResetConf);
  (* LinkCheckReq has no payload *)     ((false, 0x02), KLinkCheckAns);
  ((false, 0x03), KLinkADRReq);         ((true, 0x03), KLinkADRAns);
  ((false, 0x04), KDutyCycleReq);       (* DutyCycleAns: none *)
  ((false, 0x05), KRXParamSetupReq);    ((true, 0x05), KRXParamSetupAns);
  (* DevStatusReq: none *)              ((true, 0x06), KDevStatusAns);
  ((false, 0x07), KNewChannelReq);      ((true, 0x07), KNewChannelAns);
  ((false, 0x08), KRXTimingSetupReq);   (* RXTimingSetupAns: none *)
  ((false, 0x09), KTXParamSetupReq);    (* TXParamSetupAns: none *)
  ((false, 0x0A), KDLChannelReq);       ((true, 0x0A), KDLChannelAns);
  ((true, 0x0B), KRekeyInd);            ((false, 0x0B), KRekeyConf);
  ((false, 0x0C), KADRParamSetupReq);   (* ADRParamSetupAns: none *)
  (* DeviceTimeReq: none *)             ((false, 0x0D), KDeviceTimeAns);
  ((false, 0x0E), KForceRejoinReq);
  ((false, 0x0F), KRejoinParamSetupReq); ((true, 0x0F), KRejoinParamSetupAns);
  ((true, 0x10), KPingSlotInfoReq);     (* PingSlotInfoAns: none *)
  ((false, 0x11), KPingSlotChannelReq); ((true, 0x11), KPingSlotChannelAns);
  ((false, 0x13), KBeaconFreqReq);      ((true, 0x13), KBeaconFreqAns);
  ((true, 0x20), KDeviceModeInd);       ((false, 0x20), KDeviceModeConf)
].

Fixpoint spec_reg_lookup (r : list ((bool * N) * kind)) (up : bool) (cid : N) : option kind :=
  match r with
  | [] => None
  | ((u, c), k) :: r' => if Bool.eqb u up && (c =? cid) then Some k else spec_reg_lookup r' up cid
  end.
