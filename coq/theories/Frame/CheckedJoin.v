(* JoinAcceptPayload.UnmarshalBinary and CFList.UnmarshalBinary (payload.go) with every Go slice
   expression and index through go_slice / go_index; proved equal to the value model in
   Frame/TotalJoinProofs.v (C09). *)
From Coq Require Import List NArith ZArith Bool.
From LW Require Import Base.Outcome Base.Bytes Mac.Commands Mac.Stream Frame.Model Frame.Checked.
Import ListNotations.
Open Scope N_scope.

(* CFListChannelPayload: data[i*3], data[i*3+1], data[i*3+2] for i < len/3 *)
Fixpoint chans_chk (data : list N) (i : nat) (n : nat) : outcome (list N) :=
  match n with
  | O => Ok []
  | S n' =>
    do a <- go_index data (Z.of_nat (3 * i));
    do b <- go_index data (Z.of_nat (3 * i + 1));
    do c <- go_index data (Z.of_nat (3 * i + 2));
    do r <- chans_chk data (S i) n';
    Ok (le_val [a; b; c] * 100 :: r)
  end.

(* CFListChannelMaskPayload: data[i*2 : i*2+2] for i < len/2, after trimming to an even length *)
Fixpoint masks_chk (data : list N) (i : nat) (n : nat) (pending acc : list (list bool)) : outcome (list (list bool)) :=
  match n with
  | O => Ok acc
  | S n' =>
    do two <- go_slice data (Z.of_nat (2 * i)) (Z.of_nat (2 * i + 2));
    let cm := dec_chmask_list two in
    if existsb (fun x => x) cm
    then masks_chk data (S i) n' [] (acc ++ pending ++ [cm])
    else masks_chk data (S i) n' (pending ++ [cm]) acc
  end.

Definition cflist_unmarshal_chk (data : list N) : outcome cflist :=
  if negb (zlen data =? 16)%Z then Err else
  do ty <- go_index data 15;
  do body <- go_slice data 0 15;
  if ty =? 1 then
    (* len(body) = 15 > 15 is false; more than 12 bytes: body[:12] (the rest is RFU, fix C06-2); even: 6 masks *)
    do ev <- go_slice body 0 12;
    do ms <- masks_chk ev 0 6 [] [];
    Ok (mkCFList (CFPMasks ms) ty)
  else
    do chs <- chans_chk body 0 5;
    Ok (mkCFList (CFPChannels chs) ty).

(* JoinAcceptPayload.UnmarshalBinary: data[0:3], [3:6], [6:10], [10:11], data[11], data[12:] *)
Definition joinaccept_unmarshal_chk (data : list N) : outcome payload :=
  let l := zlen data in
  if negb (l =? 12)%Z && negb (l =? 28)%Z then Err else
  do jn <- go_slice data 0 3;
  do nid <- go_slice data 3 6;
  do da <- go_slice data 6 10;
  do dl <- go_slice data 10 11;
  do d0 <- go_index dl 0;
  do rxd <- go_index data 11;
  let '(optneg, rx2, rx1) := dec_dlsettings d0 in
  do cf <- (if (l =? 28)%Z then do rest <- go_slice data 12 l; do c <- cflist_unmarshal_chk rest; Ok (Some c) else Ok None);
  Ok (PLJoinAccept (le_val jn) (rev nid) (rev da) optneg rx2 rx1 (N.land rxd 15) cf).
