(* C15 - channel-plan state machine, CFList content, MAC-layer encodability of band outputs.
   Statement file: each theorem is closed by [exact] of a lemma proved in
   theories/Band, followed by Print Assumptions.

   Vocabulary: [st] = channel tables of a band, [step] / [run] = AddChannel /
   DisableUplinkChannelIndex / EnableUplinkChannelIndex and histories of them,
   the [get_*] accessors (Channels.v, model of band.go after fix 6fac49b);
   [chan_at u i] = the channel at index i of a table, [None] outside 0..len-1
   (PlannerProofs.v); [spec_cflist], [matches_freq], [matches_freq_dr]
   (ChannelsSpec.v, written from the property); the encoders (CrossLayer.v). *)
From Coq Require Import List ZArith Bool String Sorting.Sorted.
From LW Require Import Base.Outcome Band.Channels Band.ChannelsSpec Band.Planner Band.CrossLayer
  Band.PlannerProofs Band.ChannelsProofs Band.CrossLayerProofs Band.ChannelsGenProofs Band.EndToEnd
  Band.CrossLink.
From LW Require Mac.Commands Frame.Model.
From LWGen Require Import ChannelsGen KnownGen.
Import ListNotations.
Open Scope Z_scope.

(* ---- index sets, for every state (hence after every history) ---------------------- *)

Theorem C15_all_indices : forall (s : st) i, In i (get_uplink_channel_indices s) <-> 0 <= i < zlen (up s).
Proof. exact all_indices. Qed.
Print Assumptions C15_all_indices.

(* enabled and disabled partition all indices: both ascending (no repetition),
   inside the range, and every index is in exactly one of them *)
Theorem C15_enabled_disabled_partition : forall (s : st),
  let a := get_enabled_uplink_channel_indices s in
  let b := get_disabled_uplink_channel_indices s in
  StronglySorted Z.lt a /\ StronglySorted Z.lt b /\
  (forall i, In i a -> 0 <= i < zlen (up s)) /\ (forall i, In i b -> 0 <= i < zlen (up s)) /\
  (forall i, 0 <= i < zlen (up s) -> (In i a <-> ~ In i b)).
Proof. exact enabled_disabled_partition. Qed.
Print Assumptions C15_enabled_disabled_partition.

Theorem C15_standard_custom_partition : forall (s : st),
  let a := get_custom_uplink_channel_indices s in
  let b := get_standard_uplink_channel_indices s in
  StronglySorted Z.lt a /\ StronglySorted Z.lt b /\
  (forall i, In i a -> 0 <= i < zlen (up s)) /\ (forall i, In i b -> 0 <= i < zlen (up s)) /\
  (forall i, 0 <= i < zlen (up s) -> (In i a <-> ~ In i b)).
Proof. exact standard_custom_partition. Qed.
Print Assumptions C15_standard_custom_partition.

(* ---- histories: any list of calls with arbitrary integer arguments ----------------- *)

(* the complete effect of a history on the tables: configuration untouched,
   downlink table = old ++ added channels, uplink table = old ++ added channels
   up to the enabled flags *)
Theorem C15_history_tables : forall (ops : list op) (s : st),
  let s' := run s ops in
  extra s' = extra s /\ cfmin s' = cfmin s /\ cfmax s' = cfmax s /\ txp s' = txp s /\
  down s' = down s ++ adds (extra s) (updr s) ops /\
  map ident (up s') = map ident (up s ++ adds (extra s) (updr s) ops).
Proof. exact run_tables. Qed.
Print Assumptions C15_history_tables.

(* standard channels are never altered *)
Theorem C15_standard_never_altered : forall (s : st) (ops : list op) i c,
  chan_at (up s) i = Some c ->
  exists c', chan_at (up (run s ops)) i = Some c' /\
             freq c' = freq c /\ minDR c' = minDR c /\ maxDR c' = maxDR c /\ custom c' = custom c.
Proof. exact standard_channels_never_altered. Qed.
Print Assumptions C15_standard_never_altered.

Theorem C15_appended_are_custom : forall (s : st) (ops : list op) i c,
  zlen (up s) <= i -> chan_at (up (run s ops)) i = Some c -> custom c = true.
Proof. exact appended_channels_are_custom. Qed.
Print Assumptions C15_appended_are_custom.

(* from an all-standard initial plan (true of every band, C15_band_tables) the
   standard indices stay 0..n0-1 and the custom ones are n0..n-1 *)
Theorem C15_standard_indices_fixed : forall (s : st) (ops : list op) i,
  (forall c, In c (up s) -> custom c = false) ->
  (In i (get_standard_uplink_channel_indices (run s ops)) <-> 0 <= i < zlen (up s)) /\
  (In i (get_custom_uplink_channel_indices (run s ops)) <-> zlen (up s) <= i < zlen (up (run s ops))).
Proof. exact standard_indices_fixed. Qed.
Print Assumptions C15_standard_indices_fixed.

(* a valid Disable / Enable changes exactly that channel's enabled flag *)
Theorem C15_set_enabled_effect : forall (s : st) (v : bool) (i j : Z), 0 <= i < zlen (up s) ->
  let s' := fst (step s (if v then Enable i else Disable i)) in
  chan_at (up s') j = if j =? i then option_map (set_enabled v) (chan_at (up s) i) else chan_at (up s) j.
Proof. exact set_enabled_effect. Qed.
Print Assumptions C15_set_enabled_effect.

(* ---- index errors, never panics: for EVERY integer argument -------------------------- *)

Theorem C15_call_outcomes : forall (s : st) o,
  snd (step s o) = match o with
                   | AddChannel f mn mx => if accepts (extra s) (updr s) f mn mx then Ok tt else Err
                   | Disable i | Enable i => if (0 <=? i) && (i <? zlen (up s)) then Ok tt else Err
                   end.
Proof. exact step_outcome. Qed.
Print Assumptions C15_call_outcomes.

(* what AddChannel accepts (code after the fix for findings C15-8 / C15-9): the band takes
   extra channels, the data-rate range is made of uplink data-rates of the band, the
   frequency is one the NewChannelReq encoder accepts (0 = unused slot included) *)
Theorem C15_addchannel_data_rates : forall drs mn mx,
  valid_dr_range drs mn mx = true <-> mn <= mx /\ forall d, mn <= d <= mx -> In d drs.
Proof. exact valid_dr_range_spec. Qed.
Print Assumptions C15_addchannel_data_rates.

Theorem C15_addchannel_frequency : forall ch f mx mn, 0 <= mx <= 15 -> 0 <= mn <= 15 ->
  (valid_channel_freq f = true <-> exists bs, newchannelreq_marshal ch f mx mn = Ok bs).
Proof. exact accepted_freq_newchannelreq. Qed.
Print Assumptions C15_addchannel_frequency.

(* hence, after ANY history, every appended channel has a data-rate range of uplink
   data-rates of the band and a frequency NewChannelReq can carry *)
Theorem C15_added_channels_accepted : forall ext drs ops c, In c (adds ext drs ops) ->
  ext = true /\ valid_dr_range drs (minDR c) (maxDR c) = true /\ valid_channel_freq (freq c) = true /\ custom c = true.
Proof. exact adds_accepted. Qed.
Print Assumptions C15_added_channels_accepted.

(* the code before the fix accepted every argument *)
Theorem C15_addchannel_prefix_refuted :
  let s := mkSt true 0 5 [] [] [] [0; 1; 2; 3; 4; 5; 6; 7] in
  snd (add_channel_prefix s 867100000 (-1) 16) = Ok tt /\ snd (add_channel s 867100000 (-1) 16) = Err /\
  snd (add_channel_prefix s 867100000 0 9223372036854775807) = Ok tt /\
  snd (add_channel s 867100000 0 9223372036854775807) = Err /\
  snd (add_channel_prefix s 867100050 0 5) = Ok tt /\ snd (add_channel s 867100050 0 5) = Err /\
  snd (add_channel_prefix s 1677721600 0 5) = Ok tt /\ snd (add_channel s 1677721600 0 5) = Err /\
  snd (add_channel s 867100000 0 5) = Ok tt /\ snd (add_channel s 0 0 5) = Ok tt /\
  snd (add_channel s 2426000000 0 7) = Ok tt.
Proof. exact add_channel_prefix_refuted. Qed.
Print Assumptions C15_addchannel_prefix_refuted.

Theorem C15_history_never_panics : forall (ops : list op) (s : st), Forall (fun o => o <> Panic) (run_outcomes s ops).
Proof. exact history_never_panics. Qed.
Print Assumptions C15_history_never_panics.

Theorem C15_accessors_never_panic : forall (s : st) i f d dr,
  get_uplink_channel s i <> Panic /\ get_downlink_channel s i <> Panic /\
  get_tx_power_offset s i <> Panic /\ get_uplink_channel_index s f d <> Panic /\
  get_uplink_channel_index_for_frequency_dr s f dr <> Panic.
Proof. exact accessors_never_panic. Qed.
Print Assumptions C15_accessors_never_panic.

Theorem C15_get_uplink_channel : forall (s : st) i,
  match chan_at (up s) i with
  | Some c => get_uplink_channel s i = Ok c
  | None => get_uplink_channel s i = Err
  end.
Proof. exact get_uplink_channel_spec. Qed.
Print Assumptions C15_get_uplink_channel.

Theorem C15_invalid_index_is_error : forall (s : st) i, ~ (0 <= i < zlen (up s)) ->
  get_uplink_channel s i = Err /\
  snd (step s (Disable i)) = Err /\ fst (step s (Disable i)) = s /\
  snd (step s (Enable i)) = Err /\ fst (step s (Enable i)) = s.
Proof. exact invalid_index_is_error. Qed.
Print Assumptions C15_invalid_index_is_error.

Theorem C15_invalid_downlink_index_is_error : forall (s : st) i,
  ~ (0 <= i < zlen (down s)) -> get_downlink_channel s i = Err.
Proof. exact invalid_downlink_index_is_error. Qed.
Print Assumptions C15_invalid_downlink_index_is_error.

(* ---- lookups return an index whose channel matches -------------------------------------- *)

(* by frequency: the FIRST matching index, and an error exactly when none matches *)
Theorem C15_lookup_by_frequency : forall (s : st) f d,
  match get_uplink_channel_index s f d with
  | Ok i => matches_freq (up s) f d i = true /\ forall j, 0 <= j < i -> matches_freq (up s) f d j = false
  | Err => forall i, matches_freq (up s) f d i = false
  | _ => False
  end.
Proof. exact uplink_channel_index_spec. Qed.
Print Assumptions C15_lookup_by_frequency.

(* by frequency + data-rate (code after the fix for finding C15-6): the answer matches; an
   error exactly when NO channel matches; default channels are preferred, and the first
   channel of the class is returned *)
Theorem C15_lookup_by_frequency_dr : forall (s : st) f dr i,
  get_uplink_channel_index_for_frequency_dr s f dr = Ok i -> matches_freq_dr (up s) f dr i = true.
Proof. exact uplink_channel_index_for_frequency_dr_sound. Qed.
Print Assumptions C15_lookup_by_frequency_dr.

Theorem C15_lookup_by_frequency_dr_complete : forall (s : st) f dr i,
  matches_freq_dr (up s) f dr i = true -> exists j, get_uplink_channel_index_for_frequency_dr s f dr = Ok j.
Proof. exact uplink_channel_index_for_frequency_dr_complete. Qed.
Print Assumptions C15_lookup_by_frequency_dr_complete.

Theorem C15_lookup_by_frequency_dr_spec : forall (s : st) f dr,
  match get_uplink_channel_index_for_frequency_dr s f dr with
  | Ok i => matches_freq_dr (up s) f dr i = true /\
            ((class_dr (up s) f dr true i = true /\ forall j, 0 <= j < i -> class_dr (up s) f dr true j = false) \/
             (class_dr (up s) f dr false i = true /\ (forall j, class_dr (up s) f dr true j = false) /\
              forall j, 0 <= j < i -> class_dr (up s) f dr false j = false))
  | Err => forall i, matches_freq_dr (up s) f dr i = false
  | _ => False
  end.
Proof. exact uplink_channel_index_for_frequency_dr_spec. Qed.
Print Assumptions C15_lookup_by_frequency_dr_spec.

(* before the fix: two custom channels 868.3 MHz DR6 and 868.3 MHz DR7, lookup (868.3 MHz, DR7) *)
Theorem C15_lookup_by_frequency_dr_prefix_refuted :
  let c1 := mkChannel 868300000 6 6 true true in
  let c2 := mkChannel 868300000 7 7 true true in
  let s := mkSt true 0 5 [c1; c2] [c1; c2] [] [0; 1; 2; 3; 4; 5; 6; 7] in
  get_uplink_channel_index_for_frequency_dr_prefix s 868300000 7 = Err /\
  matches_freq_dr (up s) 868300000 7 1 = true /\
  get_uplink_channel_index_for_frequency_dr s 868300000 7 = Ok 1.
Proof. exact frequency_dr_prefix_refuted. Qed.
Print Assumptions C15_lookup_by_frequency_dr_prefix_refuted.

(* ---- CFList content ------------------------------------------------------------------------ *)

(* the model of GetCFList equals the description written from the property: first
   five custom channels in the CFList data-rate range, in order (nothing when there
   is none with a frequency other than 0), or the exact enabled-channel masks from LoRaWAN 1.0.3 on *)
Theorem C15_cflist_content : forall (s : st) (v : pversion),
  get_cflist s v = spec_cflist (extra s) (cfmin s) (cfmax s) (up s) v.
Proof. exact get_cflist_spec. Qed.
Print Assumptions C15_cflist_content.

(* frequency 0 marks an unused slot: before the fix for finding C15-7 nothing was offered
   when the FIRST eligible custom channel had frequency 0, although later ones exist *)
Theorem C15_cflist_zero_slot_prefix_refuted :
  let c0 := mkChannel 0 0 5 false true in
  let c1 := mkChannel 867100000 0 5 true true in
  let s := mkSt true 0 5 [c0; c1] [c0; c1] [] [0; 1; 2; 3; 4; 5; 6; 7] in
  cflist_channels_prefix s = None /\ cflist_channels s = Some (CFChannels [0; 867100000; 0; 0; 0]).
Proof. exact cflist_channels_prefix_refuted. Qed.
Print Assumptions C15_cflist_zero_slot_prefix_refuted.

Theorem C15_cflist_only_custom : forall (s : st) (v : pversion) fs f,
  get_cflist s v = Some (CFChannels fs) -> In f fs ->
  f = 0 \/ exists c, In c (up s) /\ custom c = true /\ freq c = f.
Proof. exact cflist_only_custom. Qed.
Print Assumptions C15_cflist_only_custom.

(* ---- cross-layer: what a band produces goes through the MAC-layer encoders ---------------- *)

(* the band's own frequencies and data-rates fit every frequency-carrying
   command, for every band except the listed ones (finding C15-2) *)
Theorem C15_band_tables : forall nm rep dw s, In (nm, rep, dw, s) configs ->
  (forall c, In c (up s) -> custom c = false) /\
  (In nm c15_unencodable_bands \/
   forall c, In c (up s ++ down s) ->
     freq_ok (freq c) = true /\ newchannel_freq_ok (freq c) = true /\ 0 <= minDR c <= 15 /\ 0 <= maxDR c <= 15).
Proof.
  intros nm rep dw s H. destruct (configs_spec nm rep dw s H) as [A [_ [_ B]]]. auto.
Qed.
Print Assumptions C15_band_tables.

Theorem C15_ism2400_refuted :
  exists rep dw s c, In ("ISM2400"%string, rep, dw, s) configs /\ In c (up s) /\ freq_ok (freq c) = false.
Proof. exact ism2400_refuted. Qed.
Print Assumptions C15_ism2400_refuted.

(* a frequency that is a multiple of 100 Hz below 2^24 * 100 Hz encodes in the
   24-bit field and decodes back; anything the field accepts decodes back *)
Theorem C15_freq_field_roundtrip : forall f, freq_ok f = true ->
  exists bs, freq3 f = Ok bs /\ List.length bs = 3%nat /\ Forall (fun b => 0 <= b < 256) bs /\ unfreq3 bs = f.
Proof. exact freq3_roundtrip. Qed.
Print Assumptions C15_freq_field_roundtrip.

Theorem C15_freq_field_lossless_or_error : forall f bs, 0 <= f -> freq3 f = Ok bs -> unfreq3 bs = f.
Proof. exact freq3_lossless. Qed.
Print Assumptions C15_freq_field_lossless_or_error.

Theorem C15_rxparamsetupreq : forall f dr, freq_ok f = true -> 0 <= dr <= 15 ->
  exists bs, rxparamsetupreq_marshal f dr = Ok bs /\ rxparamsetupreq_unmarshal bs = Ok (f, dr).
Proof. exact rxparamsetupreq_roundtrip. Qed.
Print Assumptions C15_rxparamsetupreq.

(* NewChannelReq: below 1.2 GHz in 100 Hz steps, from 2.4 GHz in 200 Hz steps ... *)
Theorem C15_newchannelreq : forall ch f mx mn,
  newchannel_freq_ok f = true -> 0 <= ch < 256 -> 0 <= mx <= 15 -> 0 <= mn <= 15 ->
  exists bs, newchannelreq_marshal ch f mx mn = Ok bs /\ newchannelreq_unmarshal bs = Ok (ch, f, mx, mn).
Proof. exact newchannelreq_roundtrip. Qed.
Print Assumptions C15_newchannelreq.

(* for EVERY frequency (any residue modulo 100 / 200, any range): accepted by the encoder
   means decoded back to the same values, outside the window of finding C15-4 *)
Theorem C15_newchannelreq_lossless_or_error : forall ch f mx mn bs,
  0 <= ch < 256 -> 0 <= f -> 0 <= mx -> 0 <= mn ->
  newchannelreq_marshal ch f mx mn = Ok bs ->
  newchannelreq_unmarshal bs = Ok (ch, f, mx, mn) \/ 1200000000 <= f < 2400000000.
Proof. exact newchannelreq_lossless_or_error. Qed.
Print Assumptions C15_newchannelreq_lossless_or_error.

(* ... and not in between (finding C15-4, same root as C07-2) *)
Theorem C15_newchannelreq_refuted :
  exists bs, newchannelreq_marshal 3 1300000000 5 0 = Ok bs /\
             newchannelreq_unmarshal bs = Ok (3, 2600000000, 5, 0).
Proof. exact newchannelreq_refuted. Qed.
Print Assumptions C15_newchannelreq_refuted.

Theorem C15_dlchannelreq : forall ch f, freq_ok f = true -> 0 <= ch < 256 ->
  exists bs, dlchannelreq_marshal ch f = Ok bs /\ dlchannelreq_unmarshal bs = Ok (ch, f).
Proof. exact dlchannelreq_roundtrip. Qed.
Print Assumptions C15_dlchannelreq.

Theorem C15_beaconfreqreq : forall f, freq_ok f = true ->
  exists bs, beaconfreqreq_marshal f = Ok bs /\ beaconfreqreq_unmarshal bs = Ok f.
Proof. exact beaconfreqreq_roundtrip. Qed.
Print Assumptions C15_beaconfreqreq.

Theorem C15_pingslotchannelreq : forall f dr, freq_ok f = true -> 0 <= dr <= 15 ->
  exists bs, pingslotchannelreq_marshal f dr = Ok bs /\ pingslotchannelreq_unmarshal bs = Ok (f, dr).
Proof. exact pingslotchannelreq_roundtrip. Qed.
Print Assumptions C15_pingslotchannelreq.

(* a channel-list CFList offered by ANY state encodes to 16 bytes and decodes
   back, provided the custom channels' frequencies fit the field *)
Theorem C15_offered_channel_cflist_encodes : forall (s : st) (v : pversion) fs,
  get_cflist s v = Some (CFChannels fs) ->
  (forall c, In c (up s) -> custom c = true -> freq_ok (freq c) = true) ->
  exists bs, cflist_marshal (CFChannels fs) = Ok bs /\ List.length bs = 16%nat /\
             cflist_unmarshal bs = Ok (CFChannels fs).
Proof. exact offered_channel_cflist_encodes. Qed.
Print Assumptions C15_offered_channel_cflist_encodes.

(* a channel-mask CFList offered by any state with at most 96 channels encodes
   and decodes back to the same masks minus trailing all-zero masks (finding
   C15-3, same root as C04-1) - to exactly the same masks when the last one is
   not all-zero *)
Theorem C15_offered_mask_cflist_encodes : forall (s : st) (v : pversion) ms,
  get_cflist s v = Some (CFMasks ms) -> zlen (up s) <= 96 ->
  exists bs, cflist_marshal (CFMasks ms) = Ok bs /\ List.length bs = 16%nat /\
             cflist_unmarshal bs = Ok (CFMasks (strip_trailing_zero_masks ms)).
Proof. exact offered_mask_cflist_encodes. Qed.
Print Assumptions C15_offered_mask_cflist_encodes.

(* the three bytes after the six channel-masks are RFU: the decoded masks do not depend
   on them and there are at most six (code after fix e2c2b92, finding C06-2) *)
Theorem C15_mask_cflist_rfu_ignored : forall body (r1 r2 r3 r1' r2' r3' : Z), List.length body = 12%nat ->
  cflist_unmarshal (body ++ [r1; r2; r3; 1]) = cflist_unmarshal (body ++ [r1'; r2'; r3'; 1]) /\
  exists ms, cflist_unmarshal (body ++ [r1; r2; r3; 1]) = Ok (CFMasks ms) /\ (List.length ms <= 6)%nat.
Proof. exact cflist_masks_rfu_ignored. Qed.
Print Assumptions C15_mask_cflist_rfu_ignored.

Theorem C15_mask_cflist_exact_when_last_nonzero : forall ms,
  ms <> [] -> all_false (last ms []) = false -> strip_trailing_zero_masks ms = ms.
Proof. exact strip_id. Qed.
Print Assumptions C15_mask_cflist_exact_when_last_nonzero.

(* ---- the same clause against the project's MAC-command model ----------------------
   [LW.Mac.Commands.enc] / [dec] (uint8 fields and bytes as N below 256, uint32
   frequencies as N; verified by C06/C07) and the frame model's CFList
   ([LW.Frame.Model.cflist_marshal] / [cflist_unmarshal]).  First: on the domain of
   the Go types the local encoders and decoders of CrossLayer.v ARE those functions
   (CrossLink.v); [zs] maps the produced bytes to Z, the [*_view] functions read the
   decoded fields.  Then the round trips restated directly on [enc] / [dec]. *)

Theorem C15_link_encoders :
  (forall f dr, 0 <= f < 4294967296 -> 0 <= dr < 256 ->
     rxparamsetupreq_marshal f dr
     = zs (LW.Mac.Commands.enc (LW.Mac.Commands.PRXParamSetupReq (Z.to_N f) false (Z.to_N dr) 0))) /\
  (forall ch f mx mn, 0 <= ch < 256 -> 0 <= f < 4294967296 -> 0 <= mx < 256 -> 0 <= mn < 256 ->
     newchannelreq_marshal ch f mx mn
     = zs (LW.Mac.Commands.enc (LW.Mac.Commands.PNewChannelReq (Z.to_N ch) (Z.to_N f) (Z.to_N mx) (Z.to_N mn)))) /\
  (forall ch f, 0 <= ch < 256 -> 0 <= f < 4294967296 ->
     dlchannelreq_marshal ch f = zs (LW.Mac.Commands.enc (LW.Mac.Commands.PDLChannelReq (Z.to_N ch) (Z.to_N f)))) /\
  (forall f, 0 <= f < 4294967296 ->
     beaconfreqreq_marshal f = zs (LW.Mac.Commands.enc (LW.Mac.Commands.PBeaconFreqReq (Z.to_N f)))) /\
  (forall f dr, 0 <= f < 4294967296 -> 0 <= dr < 256 ->
     pingslotchannelreq_marshal f dr
     = zs (LW.Mac.Commands.enc (LW.Mac.Commands.PPingSlotChannelReq (Z.to_N f) (Z.to_N dr)))) /\
  (forall p, 0 <= p_dr p < 256 -> 0 <= p_txp p < 256 -> 0 <= p_cntl p < 256 -> 0 <= p_nbrep p < 256 ->
     List.length (p_mask p) = 16%nat ->
     linkadrreq_marshal p
     = zs (LW.Mac.Commands.enc (LW.Mac.Commands.PLinkADRReq (Z.to_N (p_dr p)) (Z.to_N (p_txp p)) (p_mask p)
                                                            (Z.to_N (p_cntl p)) (Z.to_N (p_nbrep p))))).
Proof. exact encoders_link. Qed.
Print Assumptions C15_link_encoders.

Theorem C15_link_decoders : forall bs, bytesN bs ->
  rxparamsetupreq_unmarshal (map Z.of_N bs) = omap rx_view (LW.Mac.Commands.dec LW.Mac.Commands.KRXParamSetupReq bs) /\
  newchannelreq_unmarshal (map Z.of_N bs) = omap newch_view (LW.Mac.Commands.dec LW.Mac.Commands.KNewChannelReq bs) /\
  dlchannelreq_unmarshal (map Z.of_N bs) = omap dlch_view (LW.Mac.Commands.dec LW.Mac.Commands.KDLChannelReq bs) /\
  beaconfreqreq_unmarshal (map Z.of_N bs) = omap beacon_view (LW.Mac.Commands.dec LW.Mac.Commands.KBeaconFreqReq bs) /\
  pingslotchannelreq_unmarshal (map Z.of_N bs)
  = omap pingslot_view (LW.Mac.Commands.dec LW.Mac.Commands.KPingSlotChannelReq bs).
Proof. exact decoders_link. Qed.
Print Assumptions C15_link_decoders.

Theorem C15_link_cflist :
  (forall c, cflist_domain c -> cflist_marshal c = zs (LW.Frame.Model.cflist_marshal (cflist_to_model c))) /\
  (forall bs, bytesN bs ->
     cflist_unmarshal (map Z.of_N bs) = omap cflist_of_model (LW.Frame.Model.cflist_unmarshal bs)).
Proof. exact cflist_link. Qed.
Print Assumptions C15_link_cflist.

(* the round trips of C15_rxparamsetupreq .. C15_pingslotchannelreq and of the planned
   LinkADRReq payloads (C14_encodable) on the project's model: encoded by [enc], decoded by
   [dec] to the same value; NewChannelReq with its exception (C15_newchannelreq_refuted) *)
Theorem C15_mac_roundtrips :
  (forall f dr : N, (f mod 100 = 0)%N -> (f / 100 < 16777216)%N -> (dr <= 15)%N ->
     exists bs, LW.Mac.Commands.enc (LW.Mac.Commands.PRXParamSetupReq f false dr 0) = Ok bs /\
       LW.Mac.Commands.dec LW.Mac.Commands.KRXParamSetupReq bs = Ok (LW.Mac.Commands.PRXParamSetupReq f false dr 0)) /\
  (forall ch f mx mn : N,
     ((f mod 100 = 0 /\ f < 1200000000) \/ (2400000000 <= f /\ f mod 200 = 0 /\ f / 200 < 16777216))%N ->
     (ch < 256)%N -> (mx <= 15)%N -> (mn <= 15)%N ->
     exists bs, LW.Mac.Commands.enc (LW.Mac.Commands.PNewChannelReq ch f mx mn) = Ok bs /\
       LW.Mac.Commands.dec LW.Mac.Commands.KNewChannelReq bs = Ok (LW.Mac.Commands.PNewChannelReq ch f mx mn)) /\
  (forall ch f : N, (f mod 100 = 0)%N -> (f / 100 < 16777216)%N -> (ch < 256)%N ->
     exists bs, LW.Mac.Commands.enc (LW.Mac.Commands.PDLChannelReq ch f) = Ok bs /\
       LW.Mac.Commands.dec LW.Mac.Commands.KDLChannelReq bs = Ok (LW.Mac.Commands.PDLChannelReq ch f)) /\
  (forall f : N, (f mod 100 = 0)%N -> (f / 100 < 16777216)%N ->
     exists bs, LW.Mac.Commands.enc (LW.Mac.Commands.PBeaconFreqReq f) = Ok bs /\
       LW.Mac.Commands.dec LW.Mac.Commands.KBeaconFreqReq bs = Ok (LW.Mac.Commands.PBeaconFreqReq f)) /\
  (forall f dr : N, (f mod 100 = 0)%N -> (f / 100 < 16777216)%N -> (dr <= 15)%N ->
     exists bs, LW.Mac.Commands.enc (LW.Mac.Commands.PPingSlotChannelReq f dr) = Ok bs /\
       LW.Mac.Commands.dec LW.Mac.Commands.KPingSlotChannelReq bs = Ok (LW.Mac.Commands.PPingSlotChannelReq f dr)) /\
  (forall (dr txp : N) (cm : list bool) (cntl nbrep : N),
     (dr <= 15)%N -> (txp <= 15)%N -> (cntl <= 7)%N -> (nbrep <= 15)%N -> List.length cm = 16%nat ->
     exists bs, LW.Mac.Commands.enc (LW.Mac.Commands.PLinkADRReq dr txp cm cntl nbrep) = Ok bs /\
       LW.Mac.Commands.dec LW.Mac.Commands.KLinkADRReq bs = Ok (LW.Mac.Commands.PLinkADRReq dr txp cm cntl nbrep)).
Proof. exact mac_roundtrips. Qed.
Print Assumptions C15_mac_roundtrips.

(* non-vacuity: EU868 (configuration 32): two added channels, one outside the
   CFList data-rate range; index -1 and 5 are errors; the CFList offers only the
   first; US915 (configuration 44) with channels 64-71 disabled: last mask zero *)
Example C15_example :
  let s0 := match nth_error configs 32 with Some (_, _, _, s) => s | None => mkSt false 0 0 [] [] [] [] end in
  let s := run s0 [AddChannel 867100000 0 5; AddChannel 867300000 6 6; Disable (-1); Disable 1] in
  run_outcomes s0 [AddChannel 867100000 0 5; AddChannel 867300000 6 6; Disable (-1); Disable 1]
    = [Ok tt; Ok tt; Err; Ok tt] /\
  get_enabled_uplink_channel_indices s = [0; 2; 3; 4] /\ get_custom_uplink_channel_indices s = [3; 4] /\
  get_uplink_channel s (-1) = Err /\ get_uplink_channel s 5 = Err /\
  get_cflist s PV_1_0_2 = Some (CFChannels [867100000; 0; 0; 0; 0]) /\
  get_uplink_channel_index_for_frequency_dr s 867300000 6 = Ok 4.
Proof. vm_compute. repeat split; reflexivity. Qed.
