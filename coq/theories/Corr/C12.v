(* Correspondence cases for C12: the model (Band/Lookup.v over the tables
   dumped from the live code) against what the implementation returned
   through the public Band API, and the executable specification
   (Band/Rx1Spec.v) evaluated on the observed results. *)
From Coq Require Import List NArith ZArith Bool Ascii.
From Coq Require Export String.
From LW Require Import Base.Outcome.
From LW Require Export Band.Types.
From LW Require Export Band.Lookup.
From LW Require Import Band.Lookup Band.Regional Band.Rx1Spec.
From LWGen Require Import BandGen.
Import ListNotations.
Open Scope Z_scope.

(* files importing this module print their result list on one line (the
   driver reads "(index, code)" pairs and must not meet a wrapped tuple) *)
#[export] Set Printing Width 1000000.

Definition dummy_cfg : band_cfg :=
  mkCfg "" false false KEU868 false 0 "" (mkDefaults 0 0 0 0 0 0)
        (mkTables false 0 0 [] [] [] [] [] []).

(* index into the 56 common configurations followed by the 40 obtained through deprecated names *)
Definition cfg_at (i : N) : band_cfg := nth (N.to_nat i) (band_configs ++ band_alias_configs) dummy_cfg.

(* compact notation for long histories in the generated case files *)
Fixpoint add_run (f step : Z) (n : nat) (mn mx : Z) : list chan_op :=
  match n with
  | O => []
  | S n' => OpAdd f mn mx :: add_run (f + step) step n' mn mx
  end.
Fixpoint idx_run (mk : Z -> chan_op) (lo : Z) (n : nat) : list chan_op :=
  match n with
  | O => []
  | S n' => mk lo :: idx_run mk (lo + 1) n'
  end.
Definition disable_run := idx_run OpDisable.
Definition enable_run := idx_run OpEnable.

(* strings with non-printable / non-ASCII bytes are printed by the harness as byte lists *)
Definition bs (l : list N) : string := string_of_list_ascii (map Ascii.ascii_of_N l).

(* the frequencies of the AddChannel calls of a history that were not refused (read off the
   observed error flags, not off the model) *)
Fixpoint accepted_add_freqs (ops : list chan_op) (errs : list bool) : list Z :=
  match ops, errs with
  | OpAdd f _ _ :: ops', false :: errs' => f :: accepted_add_freqs ops' errs'
  | _ :: ops', _ :: errs' => accepted_add_freqs ops' errs'
  | _, _ => []
  end.

Inductive case :=
(* configuration index <-> identity (keeps harness and dumper enumeration in step);
   [alias]: Name() of the deprecated alias of this band name, "" if none *)
| CCfg (i : N) (name : string) (rep dwell : bool) (bname alias : string)
(* GetRX1DataRateIndex(dr, off) = obs, GetRX1DataRateIndex(dr, off-1) = prev *)
| CRx1Dr (i : N) (dr off : Z) (prev obs : outcome Z)
(* uplink channel index ch: frequency of that channel (None when ch is not a
   valid index), GetRX1ChannelIndexForUplinkChannelIndex(ch),
   GetRX1FrequencyForUplinkFrequency(that frequency) *)
| CRx1Ch (i : N) (ch : Z) (o_up : option Z) (o_idx o_freq : outcome Z)
(* after the history [ops] of AddChannel / DisableUplinkChannelIndex / EnableUplinkChannelIndex
   calls on a fresh object (errs: which calls returned an error; no lookup was made on the object
   before the first call of the history) the band has [n] uplink channels; uplink channel [ch]
   (enabled or not) has frequency [f];
   o_idx = GetRX1ChannelIndexForUplinkChannelIndex(ch), o_down = GetDownlinkChannel(that
   index).Frequency (Err when o_idx is not a value), o_freq = GetRX1FrequencyForUplinkFrequency(f) *)
| CRx1ChHist (i : N) (ops : list chan_op) (errs : list bool) (n ch f : Z) (o_idx o_down o_freq : outcome Z)
(* band.GetConfig(name, false, no limit) succeeded (ok = true) or returned an error *)
| CGetConfig (name : string) (ok : bool)
(* GetRX1FrequencyForUplinkFrequency on an arbitrary frequency *)
| CRx1Freq (i : N) (f : Z) (o : outcome Z)
(* GetPingSlotFrequency(devaddr, beacon time in ns) *)
| CPing (i : N) (devaddr beacon : Z) (o : outcome Z)
(* GetDefaults() *)
| CDefaults (i : N) (d : defaults).

Definition oz_eqb := outcome_eqb Z.eqb.

Definition check (c : case) : N :=
  match c with
  | CCfg i name rep dwell bname alias =>
    let cfg := cfg_at i in
    code (String.eqb (c_name cfg) name && Bool.eqb (c_rep cfg) rep && Bool.eqb (c_dwell cfg) dwell
          && String.eqb (c_bname cfg) bname)
         (* the band object answers to the name it was asked for, also under the deprecated alias *)
         (String.eqb bname (common_name name) && (String.eqb alias "" || String.eqb alias name)
          && match region_of name with Some _ => true | None => false end)
  | CRx1Dr i dr off prev obs =>
    let cfg := cfg_at i in
    code (oz_eqb (get_rx1_dr cfg dr off) obs && oz_eqb (get_rx1_dr cfg dr (off - 1)) prev)
         (rx1_cell_ok cfg dr off prev obs)
  | CRx1Ch i ch o_up o_idx o_freq =>
    let cfg := cfg_at i in
    let t := c_tab cfg in
    match o_up with
    | Some f =>
      code (match get_uplink_channel t ch with Ok u => ch_freq u =? f | _ => false end
            && oz_eqb (get_rx1_channel_index cfg ch) o_idx && oz_eqb (get_rx1_frequency cfg f) o_freq)
           (match region_of (c_name cfg) with
            | Some reg => rx1_channel_ok reg (t_down t) ch f o_idx o_freq
            | None => false
            end)
    | None =>
      (* not an uplink channel: nothing is claimed, the model must still agree *)
      code ((negb (is_ok (get_uplink_channel t ch)) || (ch <? 0))
            && oz_eqb (get_rx1_channel_index cfg ch) o_idx)
           (* a negative index is answered with an error *)
           (if ch <? 0 then is_err o_idx else true)
    end
  | CRx1ChHist i ops errs n ch f o_idx o_down o_freq =>
    let cfg := cfg_at i in
    let r := apply_ops (c_tab cfg) ops in
    let t' := fst r in
    let cfg' := with_tables cfg t' in
    code (list_eqb Bool.eqb (snd r) errs && (zlen (t_up t') =? n)
          && match get_uplink_channel t' ch with Ok u => ch_freq u =? f | _ => false end
          && oz_eqb (get_rx1_channel_index cfg' ch) o_idx
          && oz_eqb (match o_idx with
                     | Ok j => match get_downlink_channel t' j with
                               | Ok d => Ok (ch_freq d)
                               | Err => Err
                               | Panic => Panic
                               | OutOfFuel => OutOfFuel
                               end
                     | _ => Err
                     end) o_down
          && oz_eqb (get_rx1_frequency cfg' f) o_freq)
         (match region_of (c_name cfg) with
          | Some reg =>
            rx1_channel_obs_ok reg ch f o_idx o_down o_freq
            && uplink_freq_after_adds_ok reg (accepted_add_freqs ops errs) ch f
          | None => false
          end)
  | CGetConfig name ok =>
    (* model: the names of the dumped objects; spec: the names of the regions incl. deprecated ones *)
    code (Bool.eqb (existsb (fun c => String.eqb (c_name c) name) (band_configs ++ band_alias_configs)) ok)
         (Bool.eqb (match region_of name with Some _ => true | None => false end) ok)
  | CRx1Freq i f o =>
    (* total on uint32, no panic; where RX1 is sent on the uplink frequency the answer is exactly the
       argument - also 1 Hz beside a channel, also for a frequency that is no channel at all *)
    code (oz_eqb (get_rx1_frequency (cfg_at i) f) o)
         (negb (is_panic o)
          && match region_of (c_name (cfg_at i)) with
             | Some reg => rx1_frequency_any_ok reg f o
             | None => false
             end)
  | CPing i devaddr beacon o =>
    let cfg := cfg_at i in
    code (oz_eqb (get_ping_slot_frequency cfg devaddr beacon) o)
         (if (0 <=? devaddr) && (devaddr <? 2 ^ 32) then
            match region_of (c_name cfg) with
            | Some reg => ping_slot_any_ok reg devaddr beacon o
            | None => false
            end
          else true)
  | CDefaults i d =>
    let cfg := cfg_at i in
    code (defaults_eqb (get_defaults cfg) d && defaults_eqb (c_defaults cfg) d)
         (match region_of (c_name cfg) with
          | Some reg => rx2_ok reg (c_tab cfg) d
          | None => false
          end)
  end.

Definition run_cases := run_with check.
