From Coq Require Import List NArith ZArith Bool Lia.
From Coq Require Import ZifyN ZifyNat ZifyBool.
From LW Require Import Base.Outcome Base.Bytes Base.Bits Base.Hex Ident.Model Ident.Spec.
Import ListNotations.
Open Scope N_scope.
Ltac Zify.zify_post_hook ::= Z.div_mod_to_equations.

Lemma netid_type_spec v : v < 2 ^ 24 -> netid_type v = spec_type v.
Proof.
  intros H. unfold netid_type, spec_type. rewrite N.shiftr_div_pow2.
  change (2 ^ 5) with 32. change (2 ^ 21) with 2097152. change (2^24) with 16777216 in H. lia.
Qed.

Lemma type_lt8 v : v < 2 ^ 24 -> spec_type v < 8.
Proof. unfold spec_type. change (2 ^ 21) with 2097152. change (2^24) with 16777216. lia. Qed.

Lemma lt8_cases t : t < 8 -> t = 0 \/ t = 1 \/ t = 2 \/ t = 3 \/ t = 4 \/ t = 5 \/ t = 6 \/ t = 7.
Proof. lia. Qed.

Lemma get_id_mod v bits : bits <= 32 -> v < 2 ^ 32 -> get_id v bits = v mod 2 ^ bits.
Proof.
  intros Hb Hv. unfold get_id, shl32.
  rewrite N.shiftr_div_pow2, N.shiftl_mul_pow2.
  assert (E : 2 ^ 32 = 2 ^ bits * 2 ^ (32 - bits)).
  { rewrite <- N.pow_add_r. f_equal. lia. }
  rewrite E.
  assert (H1 : 2 ^ bits <> 0) by (apply N.pow_nonzero; lia).
  assert (H2 : 2 ^ (32 - bits) <> 0) by (apply N.pow_nonzero; lia).
  rewrite N.mul_mod_distr_r by assumption.
  now rewrite N.div_mul by assumption.
Qed.

Lemma netid_id_spec v : v < 2 ^ 24 -> netid_id v = spec_id v.
Proof.
  intros H. unfold netid_id, spec_id. rewrite netid_type_spec by assumption.
  pose proof (type_lt8 v H) as Ht.
  assert (Hv : v < 2 ^ 32) by (change (2^24) with 16777216 in H; change (2^32) with 4294967296; lia).
  destruct (lt8_cases _ Ht) as [E|[E|[E|[E|[E|[E|[E|E]]]]]]]; rewrite E; cbn [netid_id_bits spec_id_width];
    apply get_id_mod; try assumption; lia.
Qed.

Lemma be_val_id_bytes v : v < 2 ^ 24 -> be_val (netid_id_bytes v) = spec_id v.
Proof.
  intros H. unfold netid_id_bytes. rewrite be_val_bytes, netid_id_spec by assumption.
  rewrite netid_type_spec by assumption.
  pose proof (type_lt8 v H) as Ht. unfold spec_id.
  destruct (lt8_cases _ Ht) as [E|[E|[E|[E|[E|[E|[E|E]]]]]]]; rewrite E;
    cbn [netid_id_bits spec_id_width];
    apply N.mod_small;
    (eapply N.lt_le_trans; [apply N.mod_lt; discriminate|]); vm_compute; discriminate.
Qed.

Local Ltac pows :=
  repeat match goal with
  | |- context [2 ^ ?k] => let r := eval vm_compute in (2 ^ k) in change (2 ^ k) with r
  | H : context [2 ^ ?k] |- _ => let r := eval vm_compute in (2 ^ k) in change (2 ^ k) with r in H
  end.

(* one concrete (p, w) case of setAddrPrefix *)
Lemma set_prefix_case p w idw v a :
  v < 2 ^ 24 -> a < 2 ^ 32 ->
  1 <= p -> p <= 8 -> w <= idw -> p + w <= 32 -> 
  spec_id v < 2 ^ idw ->
  set_addr_prefix_raw p w v a =
    (2 ^ p - 2) * 2 ^ (32 - p) + (spec_id v mod 2 ^ w) * 2 ^ (32 - p - w) + a mod 2 ^ (32 - p - w).
Proof.
  intros Hv Ha Hp1 Hp8 Hw Hpw Hid.
  unfold set_addr_prefix_raw. rewrite be_val_id_bytes by assumption.
  unfold shl32. rewrite ldiff_high by (assumption || lia).
  rewrite !N.shiftl_mul_pow2, N.shiftr_div_pow2.
  set (s := 32 - p - w).
  assert (Hs : s + w + p = 32) by (unfold s; lia).
  assert (P1 : 2 ^ 32 = 2 ^ p * 2 ^ (32 - p)) by (rewrite <- N.pow_add_r; f_equal; lia).
  assert (P2 : 2 ^ (32 - p) = 2 ^ w * 2 ^ s) by (rewrite <- N.pow_add_r; f_equal; lia).
  assert (P3 : 2 ^ 32 = 2 ^ w * 2 ^ (32 - w)) by (rewrite <- N.pow_add_r; f_equal; lia).
  assert (P4 : 2 ^ (32 - w) = 2 ^ s * 2 ^ p) by (rewrite <- N.pow_add_r; f_equal; lia).
  assert (Z1 : 2 ^ p <> 0) by (apply N.pow_nonzero; lia).
  assert (Z2 : 2 ^ w <> 0) by (apply N.pow_nonzero; lia).
  assert (Z3 : 2 ^ s <> 0) by (apply N.pow_nonzero; lia).
  assert (Z4 : 2 ^ (32 - p) <> 0) by (apply N.pow_nonzero; lia).
  assert (Z5 : 2 ^ (32 - w) <> 0) by (apply N.pow_nonzero; lia).
  (* prefix term *)
  assert (E1 : (254 * 2 ^ (32 - p)) mod 2 ^ 32 = (2 ^ p - 2) * 2 ^ (32 - p)).
  { rewrite P1 at 1. rewrite N.mul_mod_distr_r by assumption. f_equal.
    assert (p = 1 \/ p = 2 \/ p = 3 \/ p = 4 \/ p = 5 \/ p = 6 \/ p = 7 \/ p = 8) as C by lia.
    destruct C as [E|[E|[E|[E|[E|[E|[E|E]]]]]]]; rewrite E; reflexivity. }
  rewrite E1.
  (* nwkid term *)
  assert (E2 : (spec_id v * 2 ^ (32 - w)) mod 2 ^ 32 / 2 ^ p = (spec_id v mod 2 ^ w) * 2 ^ s).
  { rewrite P3 at 1. rewrite N.mul_mod_distr_r by assumption.
    rewrite P4, N.mul_assoc, N.div_mul by assumption. reflexivity. }
  rewrite E2.
  assert (Ha' : a mod 2 ^ s < 2 ^ s) by (apply N.mod_lt; assumption).
  assert (Hn : spec_id v mod 2 ^ w < 2 ^ w) by (apply N.mod_lt; assumption).
  rewrite (N.lor_comm (a mod 2 ^ s)).
  rewrite P2 at 1. rewrite N.mul_assoc.
  rewrite lor_add by assumption.
  (* now (X*2^s + a') lor (n * 2^s) *)
  rewrite <- N.mul_assoc, <- P2.
  rewrite N.lor_comm.
  replace ((2 ^ p - 2) * 2 ^ (32 - p) + a mod 2 ^ s)
    with (((2 ^ p - 2) * 2 ^ w) * 2 ^ s + a mod 2 ^ s) by (rewrite P2; lia).
  (* lor of n*2^s with (q*2^s + r), r < 2^s, q*2^s multiple of 2^(s+w) *)
  rewrite <- (lor_add ((2 ^ p - 2) * 2 ^ w) (a mod 2 ^ s) s) by assumption.
  rewrite N.lor_assoc.
  rewrite (N.lor_comm (spec_id v mod 2 ^ w * 2 ^ s)).
  replace ((2 ^ p - 2) * 2 ^ w * 2 ^ s) with ((2 ^ p - 2) * 2 ^ (w + s)) by (rewrite N.pow_add_r; lia).
  rewrite (lor_add (2 ^ p - 2) (spec_id v mod 2 ^ w * 2 ^ s) (w + s)).
  2:{ rewrite N.pow_add_r. apply N.mul_lt_mono_pos_r; [lia|assumption]. }
  replace ((2 ^ p - 2) * 2 ^ (w + s) + spec_id v mod 2 ^ w * 2 ^ s)
    with (((2 ^ p - 2) * 2 ^ w + spec_id v mod 2 ^ w) * 2 ^ s) by (rewrite N.pow_add_r; lia).
  rewrite lor_add by assumption.
  rewrite P2. lia.
Qed.

Lemma spec_id_lt v : spec_type v < 8 -> spec_id v < 2 ^ spec_id_width (spec_type v).
Proof.
  intros Ht. unfold spec_id. apply N.mod_lt. apply N.pow_nonzero. lia.
Qed.

Theorem set_prefix_spec v a :
  v < 2 ^ 24 -> a < 2 ^ 32 -> set_addr_prefix v a = spec_addr v a.
Proof.
  intros Hv Ha. unfold set_addr_prefix, spec_addr, spec_nwkid, spec_addr_bits,
    spec_prefix_len, spec_prefix_val.
  rewrite netid_type_spec by assumption.
  pose proof (type_lt8 v Hv) as Ht. pose proof (spec_id_lt v Ht) as Hid.
  destruct (lt8_cases _ Ht) as [E|[E|[E|[E|[E|[E|[E|E]]]]]]]; rewrite E in *;
    cbn [prefix_table spec_nwkid_width spec_id_width] in *;
    (erewrite set_prefix_case; [reflexivity|assumption|assumption|lia|lia| |lia|exact Hid]); lia.
Qed.

(* the three clauses of the property, read off the specification value *)
Theorem spec_addr_fields v a :
  v < 2 ^ 24 -> a < 2 ^ 32 ->
  let t := spec_type v in
  let r := spec_addr v a in
  r < 2 ^ 32 /\
  r / 2 ^ (32 - spec_prefix_len t) = spec_prefix_val t /\
  (r / 2 ^ spec_addr_bits t) mod 2 ^ spec_nwkid_width t = spec_nwkid v /\
  r mod 2 ^ spec_addr_bits t = a mod 2 ^ spec_addr_bits t.
Proof.
  intros Hv Ha t r. subst t r.
  pose proof (type_lt8 v Hv) as Ht.
  unfold spec_addr, spec_addr_bits, spec_prefix_len, spec_prefix_val, spec_nwkid.
  assert (Hn : forall w, spec_id v mod 2 ^ w < 2 ^ w) by (intros; apply N.mod_lt, N.pow_nonzero; lia).
  destruct (lt8_cases _ Ht) as [E|[E|[E|[E|[E|[E|[E|E]]]]]]]; rewrite E;
    cbn [spec_nwkid_width]; specialize (Hn (spec_nwkid_width (spec_type v))); rewrite E in Hn;
    cbn [spec_nwkid_width] in Hn;
    generalize dependent (spec_id v); intros n Hn;
    pows; lia.
Qed.

Theorem is_netid_iff v a :
  v < 2 ^ 24 -> a < 2 ^ 32 -> is_netid v a = spec_member v a.
Proof.
  intros Hv Ha. unfold is_netid. rewrite set_prefix_spec by assumption.
  pose proof (spec_addr_fields v a Hv Ha) as (Hr & H1 & H2 & H3).
  unfold spec_member.
  pose proof (type_lt8 v Hv) as Ht.
  destruct (a =? spec_addr v a) eqn:E.
  - apply N.eqb_eq in E. rewrite E at 1 2. rewrite H1, H2, !N.eqb_refl. reflexivity.
  - symmetry. apply andb_false_iff.
    destruct (a / 2 ^ (32 - spec_prefix_len (spec_type v)) =? spec_prefix_val (spec_type v)) eqn:E1; [|now left].
    right. apply N.eqb_neq. intros E2. apply N.eqb_eq in E1. apply N.eqb_neq in E. apply E.
    (* a and spec_addr agree on all three fields *)
    rewrite <- H1 in E1. rewrite <- H2 in E2. clear H1 H2.
    revert E1 E2 H3 Hr. generalize (spec_addr v a). intros r.
    unfold spec_addr_bits, spec_prefix_len.
    destruct (lt8_cases _ Ht) as [T|[T|[T|[T|[T|[T|[T|T]]]]]]]; rewrite T;
      cbn [spec_nwkid_width]; pows; lia.
Qed.

(* the address' own type / NwkID accessors agree with what was set *)
Lemma devaddr_type_sweep :
  forallb (fun b0 => forallb (fun t =>
     Bool.eqb (devaddr_netid_type (b0 * 2 ^ 24) =? Z.of_N t)%Z
              (b0 / 2 ^ (7 - t) =? 2 ^ (t + 1) - 2))
     [0;1;2;3;4;5;6;7]) (map N.of_nat (seq 0 256)) = true.
Proof. vm_compute. reflexivity. Qed.

Lemma in_bytes256 b : b < 256 -> In b (map N.of_nat (seq 0 256)).
Proof.
  intros H. apply in_map_iff. exists (N.to_nat b). split; [lia|].
  apply in_seq. lia.
Qed.

Theorem devaddr_type_iff a t :
  a < 2 ^ 32 -> t < 8 ->
  (devaddr_netid_type a = Z.of_N t <-> a / 2 ^ (32 - spec_prefix_len t) = spec_prefix_val t).
Proof.
  intros Ha Ht.
  assert (Hb : a / 2 ^ 24 < 256) by (pows; lia).
  pose proof devaddr_type_sweep as S. rewrite forallb_forall in S.
  specialize (S _ (in_bytes256 _ Hb)). rewrite forallb_forall in S.
  assert (Hin : In t [0;1;2;3;4;5;6;7]) by (simpl; lia).
  specialize (S t Hin). apply eqb_prop in S.
  unfold devaddr_netid_type.
  assert (E0 : first_zero_from (a / 2 ^ 24) 7 = devaddr_netid_type (a / 2 ^ 24 * 2 ^ 24)).
  { unfold devaddr_netid_type. now rewrite N.div_mul by (apply N.pow_nonzero; lia). }
  rewrite E0. unfold spec_prefix_len, spec_prefix_val.
  assert (E1 : a / 2 ^ (32 - (t + 1)) = a / 2 ^ 24 / 2 ^ (7 - t)).
  { rewrite N.div_div by (apply N.pow_nonzero; lia). rewrite <- N.pow_add_r. do 2 f_equal. lia. }
  rewrite E1. split; intros H.
  - apply N.eqb_eq. rewrite <- S. now apply Z.eqb_eq.
  - apply Z.eqb_eq. rewrite S. now apply N.eqb_eq.
Qed.

Theorem devaddr_nwkid_spec a t :
  a < 2 ^ 32 -> t < 8 -> devaddr_netid_type a = Z.of_N t ->
  exists k, devaddr_nwkid a = Some ((a / 2 ^ spec_addr_bits t) mod 2 ^ spec_nwkid_width t, k).
Proof.
  intros Ha Ht E. unfold devaddr_nwkid. rewrite E.
  replace (Z.of_N t <? 0)%Z with false by lia. rewrite N2Z.id.
  unfold spec_addr_bits, spec_prefix_len, get_nwkid, shl32.
  destruct (lt8_cases _ Ht) as [T|[T|[T|[T|[T|[T|[T|T]]]]]]]; rewrite T;
    cbn [prefix_table spec_nwkid_width]; eexists; do 2 f_equal;
    rewrite N.shiftl_mul_pow2, N.shiftr_div_pow2; pows; lia.
Qed.

(* representations *)
Theorem binary_roundtrip k bs :
  length bs = k -> unmarshal_binary k (marshal_binary bs) = Ok bs.
Proof.
  intros H. unfold unmarshal_binary, marshal_binary.
  rewrite rev_length, H, PeanoNat.Nat.eqb_refl, rev_involutive. reflexivity.
Qed.

Theorem binary_wrong_length k data bs : unmarshal_binary k data = Ok bs -> length data = k /\ length bs = k.
Proof.
  unfold unmarshal_binary. destruct (Nat.eqb (length data) k) eqn:E; [|discriminate].
  intros H; inversion H; subst. apply PeanoNat.Nat.eqb_eq in E. rewrite rev_length. auto.
Qed.

Theorem scan_roundtrip k bs : length bs = k -> scan k bs = Ok bs.
Proof. intros H. unfold scan. now rewrite H, PeanoNat.Nat.eqb_refl. Qed.

Theorem scan_wrong_length k data bs : scan k data = Ok bs -> length data = k /\ bs = data.
Proof.
  unfold scan. destruct (Nat.eqb (length data) k) eqn:E; [|discriminate].
  intros H; inversion H; subst. apply PeanoNat.Nat.eqb_eq in E. auto.
Qed.
