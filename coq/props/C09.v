(* C09 - decoders are total: a value or an error, never a panic or a hang.
   Statement file.  Panics and non-termination are values of the models
   (Panic, OutOfFuel); every Go slice expression / index of the frame decoders is
   written through go_slice / go_index in Frame/Checked.v. *)
From Coq Require Import List NArith ZArith Bool.
From LW Require Import Base.Outcome Base.Bytes Mac.Commands Mac.Stream Frame.Model Frame.Checked.
From LW Require Frame.TotalProofs Mac.TotalProofs.
From LWGen Require Import RegistryGen.
Import ListNotations.
Open Scope N_scope.

(* frame decoder: every slice and index is in bounds on every input *)
Theorem C09_frame_total : forall data,
  phy_unmarshal_chk data <> Panic /\ phy_unmarshal_chk data <> OutOfFuel.
Proof. exact Frame.TotalProofs.phy_unmarshal_total. Qed.
Print Assumptions C09_frame_total.

(* the checked decoder is the value-level decoder the other properties speak about *)
Theorem C09_frame_checked_is_model : forall data, phy_unmarshal_chk data = phy_unmarshal data.
Proof. exact Frame.TotalProofs.phy_chk_eq. Qed.
Print Assumptions C09_frame_checked_is_model.

Theorem C09_macpayload_total : forall data,
  mac_unmarshal_chk data <> Panic /\ mac_unmarshal_chk data <> OutOfFuel.
Proof. exact Frame.TotalProofs.mac_unmarshal_total. Qed.
Print Assumptions C09_macpayload_total.

(* FOpts / FRMPayload MAC-command stream decoder: for ANY bytes, under the registry
   reached by ANY history of proprietary registrations, the loop finishes within
   |input| + 1 iterations (the linear bound) without an out-of-range slice *)
Theorem C09_stream_total : forall h up bytes,
  decode_stream (register_all builtin_registry h) up bytes <> Panic /\
  decode_stream (register_all builtin_registry h) up bytes <> OutOfFuel.
Proof. exact Mac.TotalProofs.decode_stream_total. Qed.
Print Assumptions C09_stream_total.

(* each of the 29 MAC payload decoders *)
Theorem C09_mac_payload_total : forall k data, dec k data <> Panic /\ dec k data <> OutOfFuel.
Proof. exact Mac.TotalProofs.dec_total. Qed.
Print Assumptions C09_mac_payload_total.

(* before fix 697fad2 a negative registered size made the loop diverge: the model of
   the unrepaired registration (size -1 stored) runs out of any fuel *)
Example C09_negative_size_diverged :
  decode_loop 1000 (((true, 0x80), ((-1)%Z, KProprietary)) :: builtin_registry) true [0x80] 0 [] = OutOfFuel.
Proof. vm_compute. reflexivity. Qed.
