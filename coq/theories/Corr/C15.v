(* Correspondence cases for C15: the channel-plan state machine and its
   accessors against the implementation, the invariants evaluated on the
   observed tables / index lists / answers, and the band outputs pushed
   through the real MAC-layer encoders against the local encoder model. *)
From Coq Require Import List NArith ZArith Bool String.
From LW Require Export Base.Outcome Band.Channels.
From LW Require Import Band.ChannelsSpec Band.Planner Band.CrossLayer.
From LWGen Require Import ChannelsGen.
Import ListNotations.
Open Scope Z_scope.

(* what the harness reads after the history *)
Record obs := mkObs {
  o_all : list Z; o_std : list Z; o_cus : list Z; o_en : list Z; o_dis : list Z;
  o_up : list (outcome channel);    (* GetUplinkChannel i for i = 0 .. len(o_all)-1 *)
  o_down : list channel;            (* GetDownlinkChannel 0, 1, .. up to the first non-Ok answer *)
  o_cf : list (option cflist)       (* GetCFList for 1.0.0 1.0.1 1.0.2 1.0.3 1.0.4 1.1.0 and "latest" *)
}.

Inductive probe :=
| PUp (i : Z) (o : outcome channel)
| PDown (i : Z) (o : outcome channel)
| PTxp (i : Z) (o : outcome Z)
| PIdx (f : Z) (d : bool) (o : outcome Z)
| PIdxDR (f dr : Z) (o : outcome Z).

Inductive case :=
| CHist (cfg : nat) (steps : list (op * outcome unit)) (ob : obs) (probes : list probe)
(* one frequency-carrying MAC command: kind, inputs, band-own frequency?, bytes, decoded fields
     0 RXParamSetupReq [f; rx2dr]   1 NewChannelReq [chindex; f; maxdr; mindr]
     2 DLChannelReq [chindex; f]    3 BeaconFreqReq [f]   4 PingSlotChannelReq [f; dr]
   [lo, hi] is the span of the band's own frequencies (channels, RX2, ping-slot) *)
| CFreq (k : N) (ins : list Z) (own : bool) (lo hi : Z) (o_enc : outcome (list N)) (o_dec : outcome (list Z))
(* a CFList offered by a band through CFList.MarshalBinary / UnmarshalBinary *)
| CCFList (cf : cflist) (lo hi : Z) (o_enc : outcome (list N)) (o_dec : outcome cflist).

Definition default_st := mkSt false 0 0 [] [] [].
Definition cfg_st (cfg : nat) : st :=
  match nth_error configs cfg with Some (_, _, _, s) => s | None => default_st end.

Definition pversions := [PV_1_0_0; PV_1_0_1; PV_1_0_2; PV_1_0_3; PV_1_0_4; PV_1_1_0; PV_other].

Definition unit_eqb (a b : unit) := true.
Definition och_eqb := outcome_eqb channel_eqb.
Definition oz_eqb := outcome_eqb Z.eqb.
Definition ocf_eqb := option_eqb cflist_eqb.

Definition probe_model (s : st) (p : probe) : bool :=
  match p with
  | PUp i o => och_eqb (get_uplink_channel s i) o
  | PDown i o => och_eqb (get_downlink_channel s i) o
  | PTxp i o => oz_eqb (get_tx_power_offset s i) o
  | PIdx f d o => oz_eqb (get_uplink_channel_index s f d) o
  | PIdxDR f dr o => oz_eqb (get_uplink_channel_index_for_frequency_dr s f dr) o
  end.

Definition ok_channels (l : list (outcome channel)) : list channel :=
  flat_map (fun o => match o with Ok c => [c] | _ => [] end) l.

(* answers required for an index: the entry inside the table, an error outside *)
Definition index_answer_ok {A} (eqb : A -> A -> bool) (t : list A) (i : Z) (o : outcome A) : bool :=
  match zidx_opt t i, o with
  | Some a, Ok b => eqb a b
  | None, Err => true
  | _, _ => false
  end.

Definition probe_prop (s0 : st) (t : list channel) (dn : list channel) (p : probe) : bool :=
  match p with
  | PUp i o => index_answer_ok channel_eqb t i o
  | PDown i o => index_answer_ok channel_eqb dn i o
  | PTxp i o => index_answer_ok Z.eqb (txp s0) i o
  | PIdx f d o =>
    match o with
    | Ok i => if matches_freq t f d i then negb (existsb (matches_freq t f d) (zrange i)) else false
    | Err => negb (existsb (matches_freq t f d) (zrange (zlen t)))
    | _ => false
    end
  | PIdxDR f dr o =>
    match o with Ok i => matches_freq_dr t f dr i | Err => true | _ => false end
  end.

(* outcome each call must have, given the number of channels at that moment *)
Fixpoint steps_prop (ext : bool) (n : Z) (steps : list (op * outcome unit)) : bool :=
  match steps with
  | [] => true
  | (AddChannel _ _ _, o) :: r =>
    if ext then is_ok o && steps_prop ext (n + 1) r else is_err o && steps_prop ext n r
  | (Disable i, o) :: r | (Enable i, o) :: r =>
    (if (0 <=? i) && (i <? n) then is_ok o else is_err o) && steps_prop ext n r
  end.

(* channels appended by the successful AddChannel calls, as they were added *)
Definition added (ext : bool) (steps : list (op * outcome unit)) : list channel :=
  flat_map (fun so => match so with
                      | (AddChannel f mn mx, _) => if ext then [mkChannel f mn mx (negb (f =? 0)) true] else []
                      | _ => []
                      end) steps.

Definition freq_kind_model (k : N) (ins : list Z) : outcome (list Z) * (list Z -> outcome (list Z)) :=
  match k, ins with
  | 0%N, [f; d] => (rxparamsetupreq_marshal f d,
                    fun b => omap (fun r => [fst r; snd r]) (rxparamsetupreq_unmarshal b))
  | 1%N, [ch; f; mx; mn] => (newchannelreq_marshal ch f mx mn,
                    fun b => omap (fun r => match r with (c, f', x, n) => [c; f'; x; n] end) (newchannelreq_unmarshal b))
  | 2%N, [ch; f] => (dlchannelreq_marshal ch f, fun b => omap (fun r => [fst r; snd r]) (dlchannelreq_unmarshal b))
  | 3%N, [f] => (beaconfreqreq_marshal f, fun b => omap (fun r => [r]) (beaconfreqreq_unmarshal b))
  | 4%N, [f; d] => (pingslotchannelreq_marshal f d, fun b => omap (fun r => [fst r; snd r]) (pingslotchannelreq_unmarshal b))
  | _, _ => (Panic, fun _ => Panic)
  end.

(* premise under which a user-supplied value must survive the encoder: data-rates
   0..15; frequency a multiple of 100 Hz that is below 2^24*100 Hz or lies inside
   the span of the band's own frequencies (NewChannelReq: its own 200 Hz rule
   from 2.4 GHz instead) *)
Definition dr_ok (d : Z) : bool := (0 <=? d) && (d <=? 15).
Definition user_freq_ok (lo hi f : Z) : bool :=
  freq_ok f || ((f mod 100 =? 0) && (lo <=? f) && (f <=? hi)).
Definition newchannel_user_freq_ok (f : Z) : bool :=
  freq_ok f || ((2400000000 <=? f) && (f mod 200 =? 0) && (f / 200 <? 16777216)).
Definition freq_kind_premise (lo hi : Z) (k : N) (ins : list Z) : bool :=
  match k, ins with
  | 0%N, [f; d] => user_freq_ok lo hi f && dr_ok d
  | 1%N, [ch; f; mx; mn] => newchannel_user_freq_ok f && dr_ok mx && dr_ok mn
  | 2%N, [ch; f] => user_freq_ok lo hi f
  | 3%N, [f] => user_freq_ok lo hi f
  | 4%N, [f; d] => user_freq_ok lo hi f && dr_ok d
  | _, _ => false
  end.

Definition zs_eqb := outcome_eqb zlist_eqb.

Definition check (c : case) : N :=
  match c with
  | CHist cfg steps ob probes =>
    let s0 := cfg_st cfg in
    let ops := map fst steps in
    let s := run s0 ops in
    let n := zlen (o_all ob) in
    let t := ok_channels (o_up ob) in
    let n0 := zlen (up s0) in
    code (list_eqb (outcome_eqb unit_eqb) (run_outcomes s0 ops) (map snd steps)
          && zlist_eqb (get_uplink_channel_indices s) (o_all ob)
          && zlist_eqb (get_standard_uplink_channel_indices s) (o_std ob)
          && zlist_eqb (get_custom_uplink_channel_indices s) (o_cus ob)
          && zlist_eqb (get_enabled_uplink_channel_indices s) (o_en ob)
          && zlist_eqb (get_disabled_uplink_channel_indices s) (o_dis ob)
          && list_eqb och_eqb (map (get_uplink_channel s) (zrange n)) (o_up ob)
          && list_eqb channel_eqb (down s) (o_down ob)
          && list_eqb ocf_eqb (map (get_cflist s) pversions) (o_cf ob)
          && forallb (probe_model s) probes)
         ((* calls report errors exactly for unsupported additions and invalid indices; never panic *)
          steps_prop (extra s0) n0 steps
          (* index sets *)
          && zlist_eqb (o_all ob) (zrange n)
          && partition_of n (o_en ob) (o_dis ob)
          && partition_of n (o_std ob) (o_cus ob)
          && (Z.of_nat (List.length t) =? n)
          && forallb (fun ic => Bool.eqb (enabled (snd ic)) (zin (fst ic) (o_en ob))
                                && Bool.eqb (custom (snd ic)) (zin (fst ic) (o_cus ob)))
                     (combine (zrange n) t)
          (* the band's own channels are never altered; additions are appended as custom *)
          && extends (up s0) t
          && list_eqb same_identity t (up s0 ++ added (extra s0) steps)
          && list_eqb channel_eqb (o_down ob) (down s0 ++ added (extra s0) steps)
          (* CFList content *)
          && list_eqb ocf_eqb (o_cf ob) (map (spec_cflist (extra s0) (cfmin s0) (cfmax s0) t) pversions)
          (* lookups and invalid indices *)
          && forallb (probe_prop s0 t (o_down ob)) probes)
  | CFreq k ins own lo hi o_enc o_dec =>
    let m := freq_kind_model k ins in
    let oe := omap (map Z.of_N) o_enc in
    code (zs_eqb (fst m) oe && zs_eqb (match oe with Ok b => snd m b | _ => Err end) o_dec)
         (negb (is_panic o_enc) && negb (is_panic o_dec)
          && (if own || freq_kind_premise lo hi k ins then zs_eqb o_dec (Ok ins) else true))
  | CCFList cf lo hi o_enc o_dec =>
    let oe := omap (map Z.of_N) o_enc in
    code (zs_eqb (cflist_marshal cf) oe
          && outcome_eqb cflist_eqb (match oe with Ok b => cflist_unmarshal b | _ => Err end) o_dec)
         (negb (is_panic o_enc) && negb (is_panic o_dec)
          && match cf with
             | CFChannels fs => if forallb (fun f => (f =? 0) || user_freq_ok lo hi f) fs then outcome_eqb cflist_eqb o_dec (Ok cf) else true
             | CFMasks ms => outcome_eqb cflist_eqb o_dec (Ok cf)
             end)
  end.

Definition run_cases := run_with check.
