(* Proofs of the airtime clauses of C20: the model of airtime.go equals the
   Semtech time-on-air (AirtimeSpec.v: SX126x form for SF5/SF6, AN1200.13 form
   for SF7..12) truncated to whole nanoseconds, and never decreases with the payload. *)
From Coq Require Import List ZArith QArith Qround Bool Lia Lqa.
From LW Require Import Base.Outcome Misc.Airtime Misc.AirtimeSpec.
Import ListNotations.
Open Scope Z_scope.

(* ---- symbol count ---- *)
Lemma Qceiling_div a b : Qceiling (inject_Z a / inject_Z b) = ceil_div a b.
Proof.
  unfold Qceiling, ceil_div. f_equal. rewrite Zdiv_Qdiv. apply Qfloor_comp.
  rewrite inject_Z_opp. unfold Qdiv. ring.
Qed.

Ltac qz := cbn [Qnum Qden Qplus Qminus Qmult Qopp inject_Z bq negb b2z Pos.mul].

Lemma numerator_q pl sf header : (spec_numerator pl sf header == inject_Z (sym_a pl sf header))%Q.
Proof.
  unfold spec_numerator, sym_a, low_sf, zq, Qeq.
  destruct (sf <=? 6), header; qz; lia.
Qed.

Lemma denominator_q sf ldro : (spec_denominator sf ldro == inject_Z (sym_b sf ldro))%Q.
Proof.
  unfold spec_denominator, sym_b, low_sf, zq, Qeq.
  destruct (sf <=? 6), ldro; qz; lia.
Qed.

Lemma qmax0_z a : (qmax0 (inject_Z a) == inject_Z (Z.max a 0))%Q.
Proof.
  unfold qmax0. destruct (Qle_bool 0 (inject_Z a)) eqn:E.
  - apply Qle_bool_iff in E. change 0%Q with (inject_Z 0) in E. rewrite <- (Zle_Qle 0 a) in E. now rewrite Z.max_l by lia.
  - assert (~ (0 <= a)).
    { intros H. rewrite (Zle_Qle 0 a) in H. change (inject_Z 0) with 0%Q in H. apply Qle_bool_iff in H.
      rewrite H in E. discriminate. }
    now rewrite Z.max_r by lia.
Qed.

Lemma qmax0_comp x y : (x == y)%Q -> (qmax0 x == qmax0 y)%Q.
Proof.
  intros H. unfold qmax0.
  destruct (Qle_bool 0 x) eqn:Ex, (Qle_bool 0 y) eqn:Ey; try reflexivity; try exact H.
  - apply Qle_bool_iff in Ex. rewrite H in Ex. apply Qle_bool_iff in Ex. congruence.
  - apply Qle_bool_iff in Ey. rewrite <- H in Ey. apply Qle_bool_iff in Ey. congruence.
Qed.

(* ceil(max(a,0)/b) * c  =  max(ceil(a/b) * c, 0)   (the data sheets put the max inside, AN1200.13 and the code outside) *)
Lemma ceil_max_inside a b c : 0 < b -> 0 < c ->
  ceil_div (Z.max a 0) b * c = Z.max (ceil_div a b * c) 0.
Proof.
  intros Hb Hc. unfold ceil_div. destruct (Z.le_gt_cases a 0) as [Ha|Ha].
  - rewrite Z.max_r by lia. cbn [Z.opp]. rewrite Z.div_0_l by lia.
    assert (0 <= (- a) / b) by (apply Z.div_pos; lia). nia.
  - rewrite Z.max_l by lia.
    assert ((- a) / b <= 0 / b) by (apply Z.div_le_mono; lia). rewrite Z.div_0_l in H by lia. nia.
Qed.

Lemma sym_b_pos sf ldro : 3 <= sf -> 0 < sym_b sf ldro.
Proof. intros H. unfold sym_b. destruct (Z.leb_spec sf 6), ldro; cbn [b2z]; lia. Qed.

Lemma spec_npayload_model pl sf cr header ldro : 0 < sym_b sf ldro -> 0 < cr + 4 ->
  spec_npayload pl sf cr header ldro
  = 8 + Z.max (ceil_div (sym_a pl sf header) (sym_b sf ldro) * (cr + 4)) 0.
Proof.
  intros Hb Hc. unfold spec_npayload. f_equal.
  rewrite <- ceil_max_inside by assumption. f_equal.
  rewrite <- Qceiling_div. apply Qceiling_comp.
  rewrite <- qmax0_z, denominator_q. apply Qdiv_comp; [|reflexivity].
  apply qmax0_comp, numerator_q.
Qed.

(* for every payload size, header and LDRO setting and every SF >= 3: the
   count is the formula's, or an error exactly for coding rates outside 1..4 *)
Theorem symbols_formula pl sf cr header ldro : 3 <= sf ->
  payload_symbols pl sf cr header ldro =
  if (1 <=? cr) && (cr <=? 4) then Ok (spec_npayload pl sf cr header ldro) else Err.
Proof.
  intros Hs. unfold payload_symbols.
  destruct (Z.ltb_spec cr 1), (Z.ltb_spec 4 cr); cbn [orb].
  - replace ((1 <=? cr) && (cr <=? 4)) with false by lia. reflexivity.
  - replace ((1 <=? cr) && (cr <=? 4)) with false by lia. reflexivity.
  - replace ((1 <=? cr) && (cr <=? 4)) with false by lia. reflexivity.
  - replace ((1 <=? cr) && (cr <=? 4)) with true by lia.
    rewrite spec_npayload_model by (try apply sym_b_pos; lia). reflexivity.
Qed.

(* ---- the property's domain ---- *)
Definition bw_list : list Z := [125; 250; 500; 812; 1625].
Definition air_domain (pl sf bw pre cr : Z) : Prop :=
  0 <= pl <= 255 /\ 5 <= sf <= 12 /\ In bw bw_list /\ 0 <= pre <= 64 /\ 1 <= cr <= 4.

Ltac Zify.zify_post_hook ::= Z.div_mod_to_equations.

Lemma wrap64_id z : - 9223372036854775808 <= z < 9223372036854775808 -> wrap64 z = z.
Proof.
  intros H. unfold wrap64.
  destruct ((-9223372036854775808 <=? z) && (z <=? 9223372036854775807)) eqn:E; [reflexivity|].
  rewrite Z.mod_small; lia.
Qed.

Ltac split_sf sf :=
  let H := fresh in
  assert (H : sf = 5 \/ sf = 6 \/ sf = 7 \/ sf = 8 \/ sf = 9 \/ sf = 10 \/ sf = 11 \/ sf = 12) by lia;
  destruct H as [->|[->|[->|[->|[->|[->|[->| ->]]]]]]].
Ltac split_cr cr :=
  let H := fresh in
  assert (H : cr = 1 \/ cr = 2 \/ cr = 3 \/ cr = 4) by lia;
  destruct H as [->|[->|[->| ->]]].
Ltac split_bw H := cbn [In bw_list] in H; destruct H as [<-|[<-|[<-|[<-|[<-|[]]]]]].

(* ---- monotone in the payload size ---- *)
Lemma ceil_div_mono a1 a2 b : 0 < b -> a1 <= a2 -> ceil_div a1 b <= ceil_div a2 b.
Proof.
  intros Hb Ha. unfold ceil_div.
  assert ((- a2) / b <= (- a1) / b) by (apply Z.div_le_mono; lia). lia.
Qed.

Lemma npayload_mono pl1 pl2 sf cr header ldro :
  3 <= sf -> 1 <= cr -> pl1 <= pl2 ->
  spec_npayload pl1 sf cr header ldro <= spec_npayload pl2 sf cr header ldro.
Proof.
  intros Hs Hc Hp. pose proof (sym_b_pos sf ldro Hs) as Hb.
  rewrite !spec_npayload_model by lia.
  assert (H : ceil_div (sym_a pl1 sf header) (sym_b sf ldro) <= ceil_div (sym_a pl2 sf header) (sym_b sf ldro)).
  { apply ceil_div_mono; [assumption|]. unfold sym_a. destruct (sf <=? 6); lia. }
  assert (H2 : ceil_div (sym_a pl1 sf header) (sym_b sf ldro) * (cr + 4)
               <= ceil_div (sym_a pl2 sf header) (sym_b sf ldro) * (cr + 4)).
  { apply Z.mul_le_mono_nonneg_r; lia. }
  lia.
Qed.

Lemma npayload_bounds pl sf cr header ldro :
  0 <= pl <= 255 -> 5 <= sf <= 12 -> 1 <= cr <= 4 ->
  8 <= spec_npayload pl sf cr header ldro <= 1392.
Proof.
  intros Hp Hs Hc. rewrite spec_npayload_model by (try apply sym_b_pos; lia).
  unfold ceil_div, sym_a, sym_b.
  split_sf sf; split_cr cr; destruct header, ldro; cbn [b2z negb Z.leb Z.compare Pos.compare Pos.compare_cont]; lia.
Qed.

(* ---- the whole computation on the domain: no wrap-around, no panic, no error ---- *)
(* number of symbols in 1/100 *)
Definition symbols100 (pl sf pre cr : Z) (header ldro : bool) : Z :=
  100 * pre + (if sf <=? 6 then 625 else 425) + 100 * spec_npayload pl sf cr header ldro.

Definition airtime_closed_form (pl sf bw pre cr : Z) (header ldro : bool) : Z :=
  symbols100 pl sf pre cr header ldro * 2 ^ sf * 1000000 / (100 * bw).

Lemma pow2_sf_bounds sf : 5 <= sf <= 12 -> shl1 sf = 2 ^ sf /\ 32 <= 2 ^ sf <= 4096.
Proof. intros Hs. split_sf sf; vm_compute; (split; [reflexivity|split; discriminate]). Qed.

Lemma bw_bounds bw : In bw bw_list -> 125 <= bw <= 1625.
Proof. intros Hb. split_bw Hb; lia. Qed.

Theorem airtime_closed pl sf bw pre cr header ldro : air_domain pl sf bw pre cr ->
  airtime pl sf bw pre cr header ldro = Ok (airtime_closed_form pl sf bw pre cr header ldro).
Proof.
  intros (Hp & Hs & Hb & Hpre & Hc). unfold airtime, airtime_closed_form, symbols100.
  rewrite symbols_formula by lia.
  replace ((1 <=? cr) && (cr <=? 4)) with true by lia. cbn [bind].
  pose proof (npayload_bounds pl sf cr header ldro Hp Hs Hc) as Hn.
  generalize dependent (spec_npayload pl sf cr header ldro). intros n Hn.
  destruct (pow2_sf_bounds sf Hs) as [-> Hpw]. pose proof (bw_bounds bw Hb) as Hbw.
  generalize dependent (2 ^ sf). intros P HP.
  rewrite (wrap64_id (100 * pre)) by lia.
  rewrite (wrap64_id (100 * pre + 425)) by lia.
  rewrite (wrap64_id (100 * n)) by lia.
  rewrite (wrap64_id (100 * pre + 425 + 100 * n)) by lia.
  set (s := if sf <=? 6 then wrap64 (100 * pre + 425 + 100 * n + 200) else 100 * pre + 425 + 100 * n).
  assert (Es : s = 100 * pre + (if sf <=? 6 then 625 else 425) + 100 * n).
  { subst s. destruct (sf <=? 6); [rewrite wrap64_id by lia|]; lia. }
  assert (Hsb : 0 <= s <= 146225) by (rewrite Es; destruct (sf <=? 6); lia).
  rewrite <- Es. clearbody s.
  assert (0 <= s * P <= 146225 * 4096) by nia.
  rewrite (wrap64_id (s * P)) by lia.
  rewrite (wrap64_id (s * P * 1000000)) by lia.
  rewrite (wrap64_id (100 * bw)) by lia.
  unfold go_div. replace (100 * bw =? 0) with false by lia.
  rewrite Z.quot_div_nonneg by lia.
  assert (0 <= s * P * 1000000 / (100 * bw) <= s * P * 1000000).
  { split; [apply Z.div_pos; lia|]. apply Z.div_le_upper_bound; nia. }
  rewrite wrap64_id by lia. reflexivity.
Qed.

(* ---- monotone in the payload size on the domain ---- *)
Theorem airtime_mono pl1 pl2 sf bw pre cr header ldro :
  air_domain pl1 sf bw pre cr -> air_domain pl2 sf bw pre cr -> pl1 <= pl2 ->
  exists v1 v2, airtime pl1 sf bw pre cr header ldro = Ok v1 /\
                airtime pl2 sf bw pre cr header ldro = Ok v2 /\ v1 <= v2.
Proof.
  intros D1 D2 Hle. exists (airtime_closed_form pl1 sf bw pre cr header ldro), (airtime_closed_form pl2 sf bw pre cr header ldro).
  rewrite !airtime_closed by assumption. split; [reflexivity|split; [reflexivity|]].
  destruct D1 as (Hp & Hs & Hb & Hpre & Hc).
  destruct (pow2_sf_bounds sf Hs) as [_ Hpw]. pose proof (bw_bounds bw Hb) as Hbw.
  unfold airtime_closed_form, symbols100.
  assert (Hn : spec_npayload pl1 sf cr header ldro <= spec_npayload pl2 sf cr header ldro)
    by (apply npayload_mono; lia).
  apply Z.div_le_mono; [lia|]. 
  apply Z.mul_le_mono_nonneg_r; [lia|]. apply Z.mul_le_mono_nonneg_r; lia.
Qed.

(* ---- against the formula over Q: the result is the formula truncated to whole nanoseconds ---- *)
Lemma spec_airtime_fraction pl sf bw pre cr header ldro : 0 < bw ->
  (spec_airtime pl sf bw pre cr header ldro ==
   inject_Z (symbols100 pl sf pre cr header ldro * 2 ^ sf * 1000000) / inject_Z (100 * bw))%Q.
Proof.
  intros Hb. unfold spec_airtime, spec_total_symbols, spec_preamble_symbols, spec_tsym, symbols100, low_sf, zq.
  rewrite !inject_Z_mult, !inject_Z_plus, !inject_Z_mult.
  assert (Hnz : ~ (inject_Z bw == 0)%Q).
  { intros E. unfold Qeq in E. cbn in E. lia. }
  destruct (sf <=? 6); field; exact Hnz.
Qed.

Theorem airtime_formula_floor pl sf bw pre cr header ldro : air_domain pl sf bw pre cr ->
  airtime pl sf bw pre cr header ldro = Ok (Qfloor (spec_airtime pl sf bw pre cr header ldro)).
Proof.
  intros D. rewrite airtime_closed by assumption. f_equal.
  destruct D as (_ & _ & Hb & _). pose proof (bw_bounds bw Hb).
  unfold airtime_closed_form. rewrite Zdiv_Qdiv. apply Qfloor_comp.
  symmetry. apply spec_airtime_fraction. lia.
Qed.

(* for 125/250/500 kHz nothing is truncated: the formula's value is a whole number of ns *)
Theorem airtime_formula_exact pl sf bw pre cr header ldro : air_domain pl sf bw pre cr ->
  In bw [125; 250; 500] ->
  exists v, airtime pl sf bw pre cr header ldro = Ok v /\
  (inject_Z v == spec_airtime pl sf bw pre cr header ldro)%Q.
Proof.
  intros D Hb3. exists (airtime_closed_form pl sf bw pre cr header ldro).
  split; [apply airtime_closed; assumption|].
  assert (Hk : exists k, 1000000 = 100 * bw * k /\ 0 < bw).
  { cbn [In] in Hb3. destruct Hb3 as [<-|[<-|[<-|[]]]]; [exists 80|exists 40|exists 20]; lia. }
  destruct Hk as (k & Hk & Hbw).
  rewrite spec_airtime_fraction by exact Hbw.
  unfold airtime_closed_form.
  set (s := symbols100 pl sf pre cr header ldro * 2 ^ sf).
  replace (s * 1000000) with (s * k * (100 * bw)) by (rewrite Hk; ring).
  rewrite Z.div_mul by lia.
  rewrite (inject_Z_mult (s * k) (100 * bw)).
  assert (Hnz : ~ (inject_Z (100 * bw) == 0)%Q).
  { intros E. unfold Qeq, inject_Z in E. cbn [Qnum Qden] in E. lia. }
  field. exact Hnz.
Qed.

(* the symbol duration helper is the floor of the formula's symbol time *)
Theorem symbol_duration_floor sf bw : 5 <= sf <= 12 -> In bw bw_list ->
  symbol_duration sf bw = Ok (Qfloor (spec_tsym sf bw)).
Proof.
  intros Hs Hb. split_sf sf; split_bw Hb; vm_compute; reflexivity.
Qed.

(* ---- the code before the two repairs ---- *)
(* SF5: two preamble symbols short and (here) five payload symbols long; 812 kHz (SF7, 255 bytes): 287 ns below the truncated formula *)
Theorem airtime_orig_refuted :
  airtime_orig 10 5 125 8 1 true false = Ok 12864000 /\ Qfloor (spec_airtime 10 5 125 8 1 true false) = 12096000 /\
  airtime 10 5 125 8 1 true false = Ok 12096000 /\
  airtime_orig 255 7 812 8 4 true false = Ok 96512028 /\ Qfloor (spec_airtime 255 7 812 8 4 true false) = 96512315 /\
  airtime 255 7 812 8 4 true false = Ok 96512315.
Proof. vm_compute. repeat split; reflexivity. Qed.
