(* Model of applayer/multicastsetup/multicastsetup.go (Remote Multicast
   Setup): eleven payloads, registry, Command / Commands instance.
   A lorawan.DevAddr is the list of its 4 array bytes (a[0] first), a
   [16]byte key the list of its bytes, a *uint32 an [option N].
   No proofs in this file. *)
From Coq Require Import List NArith ZArith Bool.
From LW Require Import Base.Outcome Base.Bytes App.Common.
Import ListNotations.
Open Scope N_scope.

Inductive payload :=
| PackageVersionAns (ident ver : N)
| McGroupStatusReq (m : list bool)                                   (* RegGroupMask [4]bool *)
| McGroupStatusAns (nb_total : N) (m : list bool) (items : list (N * list N))
                                                                     (* NbTotalGroups, AnsGroupMask, Items{McGroupID, McAddr} *)
| McGroupSetupReq (id : N) (addr : list N) (key : list N) (min_fcnt max_fcnt : N)
| McGroupSetupAns (id_error : bool) (id : N)
| McGroupDeleteReq (id : N)
| McGroupDeleteAns (undefined : bool) (id : N)
| McClassCSessionReq (id : N) (session_time : N) (time_out : N) (dl_freq : N) (dr : N)
| McClassCSessionAns (undefined freq_err dr_err : bool) (id : N) (time_to_start : option N)
| McClassBSessionReq (id : N) (session_time : N) (periodicity time_out : N) (dl_freq : N) (dr : N)
| McClassBSessionAns (undefined freq_err dr_err : bool) (id : N) (time_to_start : option N).

Definition has_error (u f d : bool) : bool := u || f || d.

Definition psize (p : payload) : nat :=
  match p with
  | PackageVersionAns _ _ => 2
  | McGroupStatusReq _ => 1
  | McGroupStatusAns _ m _ => 1 + 5 * count_true m     (* multicastsetup.go:253-262 *)
  | McGroupSetupReq _ _ _ _ _ => 29
  | McGroupSetupAns _ _ => 1
  | McGroupDeleteReq _ => 1
  | McGroupDeleteAns _ _ => 1
  | McClassCSessionReq _ _ _ _ _ => 10
  | McClassCSessionAns u f d _ _ => if has_error u f d then 1 else 4
  | McClassBSessionReq _ _ _ _ _ _ => 10
  | McClassBSessionAns u f d _ _ => if has_error u f d then 1 else 4
  end.

(* status byte of McClass{C,B}SessionAns *)
Definition session_status (u f d : bool) (id : N) : N :=
  let b := N.land id 0x03 in
  let b := if d then N.lor b 0x04 else b in
  let b := if f then N.lor b 0x08 else b in
  if u then N.lor b 0x10 else b.

Definition enc_session_ans (u f d : bool) (id : N) (tts : option N) : outcome (list N) :=
  let err := has_error u f d in
  if err && (match tts with Some _ => true | None => false end) then Err else
  if negb err && (match tts with Some _ => false | None => true end) then Err else
  let b0 := session_status u f d id in
  if negb err then
    match tts with
    | Some t => Ok (b0 :: firstn 3 (le_bytes 4 t))    (* ttsB[:3] *)
    | None => Panic                                   (* *p.TimeToStart *)
    end
  else Ok [b0].

Definition enc (p : payload) : outcome (list N) :=
  match p with
  | PackageVersionAns i v => Ok [i; v]
  | McGroupStatusReq m => Ok [mask_bits 0 m 0]
  | McGroupStatusAns nb m items =>
    (* multicastsetup.go:265-299 *)
    if (4 <? length items)%nat then Err else
    let b0 := mask_bits 0 m 0 in
    if negb (Nat.eqb (count_true m) (length items)) then Err else
    let b0 := N.lor b0 (shl8 (N.land nb 0x07) 4) in
    Ok (b0 :: flat_map (fun it => N.land (fst it) 0x03 :: devaddr_marshal (snd it)) items)
  | McGroupSetupReq id addr key minf maxf =>
    Ok ([N.land id 0x03] ++ devaddr_marshal addr ++ key ++ le_bytes 4 minf ++ le_bytes 4 maxf)
  | McGroupSetupAns e id =>
    let b := N.land id 0x03 in Ok [if e then N.lor b 0x04 else b]
  | McGroupDeleteReq id => Ok [N.land id 0x03]
  | McGroupDeleteAns u id =>
    let b := N.land id 0x03 in Ok [if u then N.lor b 0x04 else b]
  | McClassCSessionReq id st tmo freq dr =>
    if negb (freq mod 100 =? 0) then Err else
    Ok ([N.land id 0x03] ++ le_bytes 4 st ++ [N.land tmo 0x0f]
        ++ firstn 3 (le_bytes 4 (freq / 100)) ++ [dr])
  | McClassCSessionAns u f d id tts => enc_session_ans u f d id tts
  | McClassBSessionReq id st per tmo freq dr =>
    (* multicastsetup.go:716-717 (after fix 09e6cf1):
       b[5] = TimeOut & 0x0f; b[5] |= (Periodicity & 0x07) << 4   (uint8 shift) *)
    let b5 := N.lor (N.land tmo 0x0f) (shl8 (N.land per 0x07) 4) in
    if negb (freq mod 100 =? 0) then Err else
    Ok ([N.land id 0x03] ++ le_bytes 4 st ++ [b5]
        ++ firstn 3 (le_bytes 4 (freq / 100)) ++ [dr])
  | McClassBSessionAns u f d id tts => enc_session_ans u f d id tts
  end.

Definition dec_PackageVersionAns (data : list N) : outcome payload :=
  if (length data <? 2)%nat then Err else
  do i <- idx data 0; do v <- idx data 1; Ok (PackageVersionAns i v).

Definition dec_McGroupStatusReq (data : list N) : outcome payload :=
  if (length data <? 1)%nat then Err else
  do b <- idx data 0; Ok (McGroupStatusReq (unmask4 b)).

(* the item loop of McGroupStatusAns.UnmarshalBinary: multicastsetup.go:320-332 *)
Fixpoint dec_items (n : nat) (data : list N) (off : nat) : outcome (list (N * list N)) :=
  match n with
  | O => Ok []
  | S n' =>
    do b <- idx data off;
    do s <- sub data (off + 1) (off + 5);
    do a <- devaddr_unmarshal s;
    do r <- dec_items n' data (off + 5);
    Ok ((N.land b 0x03, a) :: r)
  end.

Definition dec_McGroupStatusAns (data : list N) : outcome payload :=
  if Nat.eqb (length data) 0 then Err else
  do b <- idx data 0;
  let m := unmask4 b in
  let nb := N.shiftr (N.land b 0x70) 4 in
  if (length data <? 1 + 5 * count_true m)%nat then Err else
  do items <- dec_items (count_true m) data 1;
  Ok (McGroupStatusAns nb m items).

Definition dec_McGroupSetupReq (data : list N) : outcome payload :=
  if (length data <? 29)%nat then Err else
  do b <- idx data 0;
  do s <- sub data 1 5;
  do a <- devaddr_unmarshal s;
  do k <- sub data 5 21;
  do mn <- rd_le data 21 4;
  do mx <- rd_le data 25 4;
  Ok (McGroupSetupReq (N.land b 0x03) a k mn mx).

Definition dec_McGroupSetupAns (data : list N) : outcome payload :=
  if (length data <? 1)%nat then Err else
  do b <- idx data 0; Ok (McGroupSetupAns (nz (N.land b 0x04)) (N.land b 0x03)).

Definition dec_McGroupDeleteReq (data : list N) : outcome payload :=
  if (length data <? 1)%nat then Err else
  do b <- idx data 0; Ok (McGroupDeleteReq (N.land b 0x03)).

Definition dec_McGroupDeleteAns (data : list N) : outcome payload :=
  if (length data <? 1)%nat then Err else
  do b <- idx data 0; Ok (McGroupDeleteAns (nz (N.land b 0x04)) (N.land b 0x03)).

(* dlFreqB := make([]byte, 4); copy(dlFreqB, data[6:9]); Uint32(dlFreqB) * 100 (uint32) *)
Definition rd_freq (data : list N) : outcome N :=
  do s <- sub data 6 9; Ok ((le_val (s ++ [0]) * 100) mod 2 ^ 32).

Definition dec_McClassCSessionReq (data : list N) : outcome payload :=
  if (length data <? 10)%nat then Err else
  do b0 <- idx data 0;
  do st <- rd_le data 1 4;
  do b5 <- idx data 5;
  do fr <- rd_freq data;
  do dr <- idx data 9;
  Ok (McClassCSessionReq (N.land b0 0x03) st (N.land b5 0x0f) fr dr).

Definition dec_session_ans (mk : bool -> bool -> bool -> N -> option N -> payload)
           (data : list N) : outcome payload :=
  if Nat.eqb (length data) 0 then Err else
  do b <- idx data 0;
  let id := N.land b 0x03 in
  let d := nz (N.land b 0x04) in
  let f := nz (N.land b 0x08) in
  let u := nz (N.land b 0x10) in
  if negb (has_error u f d) then
    if (length data <? 4)%nat then Err else
    do s <- sub data 1 4;
    Ok (mk u f d id (Some (le_val (s ++ [0]))))
  else Ok (mk u f d id None).

Definition dec_McClassBSessionReq (data : list N) : outcome payload :=
  if (length data <? 10)%nat then Err else
  do b0 <- idx data 0;
  do st <- rd_le data 1 4;
  do b5 <- idx data 5;
  do fr <- rd_freq data;
  do dr <- idx data 9;
  (* multicastsetup.go:746-747 (after fix 09e6cf1): TimeOut = data[5] & 0x0f;
     Periodicity = (data[5] >> 4) & 0x07 *)
  Ok (McClassBSessionReq (N.land b0 0x03) st (N.land (N.shiftr b5 4) 0x07) (N.land b5 0x0f) fr dr).

(* commandPayloadRegistry: multicastsetup.go:42-59 *)
Definition lookup (uplink : bool) (cid : N) : option (list N -> outcome payload) :=
  if uplink then
    match cid with
    | 0 => Some dec_PackageVersionAns
    | 1 => Some dec_McGroupStatusAns
    | 2 => Some dec_McGroupSetupAns
    | 3 => Some dec_McGroupDeleteAns
    | 4 => Some (dec_session_ans McClassCSessionAns)
    | 5 => Some (dec_session_ans McClassBSessionAns)
    | _ => None
    end
  else
    match cid with
    | 1 => Some dec_McGroupStatusReq
    | 2 => Some dec_McGroupSetupReq
    | 3 => Some dec_McGroupDeleteReq
    | 4 => Some dec_McClassCSessionReq
    | 5 => Some dec_McClassBSessionReq
    | _ => None
    end.

Definition cid_of (p : payload) : N :=
  match p with
  | PackageVersionAns _ _ => 0
  | McGroupStatusReq _ | McGroupStatusAns _ _ _ => 1
  | McGroupSetupReq _ _ _ _ _ | McGroupSetupAns _ _ => 2
  | McGroupDeleteReq _ | McGroupDeleteAns _ _ => 3
  | McClassCSessionReq _ _ _ _ _ | McClassCSessionAns _ _ _ _ _ => 4
  | McClassBSessionReq _ _ _ _ _ _ | McClassBSessionAns _ _ _ _ _ => 5
  end.
Definition uplink_of (p : payload) : bool :=
  match p with
  | PackageVersionAns _ _ | McGroupStatusAns _ _ _ | McGroupSetupAns _ _
  | McGroupDeleteAns _ _ | McClassCSessionAns _ _ _ _ _ | McClassBSessionAns _ _ _ _ _ => true
  | _ => false
  end.

Definition command := Common.command payload.
Definition cmd_enc : command -> outcome (list N) := Common.cmd_enc enc.
Definition cmd_size : command -> nat := Common.cmd_size psize.
Definition cmd_dec : bool -> list N -> outcome command := Common.cmd_dec lookup.
Definition cmds_enc : list command -> outcome (list N) := Common.cmds_enc enc.
Definition cmds_dec : bool -> list N -> outcome (list command) :=
  Common.cmds_dec psize lookup whole.
