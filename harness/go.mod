module verifharness

go 1.15

require (
	github.com/NickBall/go-aes-key-wrap v0.0.0-20170929221519-1c3aa3e4dfc5
	github.com/brocaar/lorawan v0.0.0
	github.com/jacobsa/crypto v0.0.0-20190317225127-9f44e2d11115
)

replace github.com/brocaar/lorawan => /repo
