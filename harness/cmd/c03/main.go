// Correspondence harness for C03: FRMPayload / FOpts encryption - the exported
// functions EncryptFRMPayload / EncryptFOpts and the PHYPayload methods.
package main

import (
	"bytes"
	"crypto/aes"
	"fmt"
	"io"
	"log"
	"os"
	"time"

	"github.com/brocaar/lorawan"
	"github.com/brocaar/lorawan/applayer/clocksync"

	"verifharness/internal/cases"
	"verifharness/internal/collide"
	"verifharness/internal/cq"
	"verifharness/internal/framefmt"
	"verifharness/internal/macfmt"
	"verifharness/internal/noise"
)

// nr drives the unrelated library calls made between the compared calls (own stream: case generation is unaffected)
var nr *cq.RNG
var lastKey = "(none)"

func clip(k string) string {
	if len(k) > 300 {
		return k[:300] + "..."
	}
	return k
}

func hx(b []byte) string { return fmt.Sprintf("%x", b) }

func key(r *cq.RNG) (k lorawan.AES128Key) {
	switch r.Intn(12) {
	case 0:
	case 1:
		for i := range k {
			k[i] = 0xff
		}
	default:
		copy(k[:], r.Bytes(16))
	}
	return
}

func counter(r *cq.RNG) uint32 {
	switch r.Intn(10) {
	case 0:
		return uint32(r.Intn(1 << 16))
	case 1:
		return 0
	case 2:
		return 0xffffffff
	default:
		return r.U32() | 0x10000
	}
}

func encFrm(k lorawan.AES128Key, up bool, da lorawan.DevAddr, fc uint32, data []byte) (out []byte, s string) {
	cases.Begin(fmt.Sprintf("EncryptFRMPayload:key=%x:up=%v:devaddr=%x:fcnt=%d:data=%x", k[:], up, da[:], fc, data), nil)
	defer cases.End()
	defer func() {
		if r := recover(); r != nil {
			out, s = nil, cq.Panic
		}
	}()
	// exact capacity: the function appends padding to its argument (C10's business)
	in := make([]byte, len(data))
	copy(in, data)
	o, err := lorawan.EncryptFRMPayload(k, up, da, fc, in)
	if err != nil {
		return nil, cq.Err
	}
	return o, cq.Ok(cq.Bytes(o))
}

func encFOpts(k lorawan.AES128Key, a, up bool, da lorawan.DevAddr, fc uint32, data []byte) (out []byte, s string) {
	cases.Begin(fmt.Sprintf("EncryptFOpts:key=%x:afcntdown=%v:up=%v:devaddr=%x:fcnt=%d:data=%x", k[:], a, up, da[:], fc, data), nil)
	defer cases.End()
	defer func() {
		if r := recover(); r != nil {
			out, s = nil, cq.Panic
		}
	}()
	in := make([]byte, len(data))
	copy(in, data)
	o, err := lorawan.EncryptFOpts(k, a, up, da, fc, in)
	if err != nil {
		return nil, cq.Err
	}
	return o, cq.Ok(cq.Bytes(o))
}

func frmCase(s *cases.Set, r *cq.RNG, n int, kind string) {
	k, up, fc := key(r), r.Bool(), counter(r)
	var da lorawan.DevAddr
	copy(da[:], r.Bytes(4))
	data := r.Bytes(n)
	if r.Intn(8) == 0 {
		data = make([]byte, n) // all-zero plaintext: the output is the keystream itself
	}
	noise.Step(nr)
	frmCall(s, k, up, da, fc, data, kind, "")
}

// frmCall: one compared call of the exported EncryptFRMPayload.
func frmCall(s *cases.Set, k lorawan.AES128Key, up bool, da lorawan.DevAddr, fc uint32, data []byte, kind, what string) {
	n := len(data)
	out, o := encFrm(k, up, da, fc, data)
	ks := fmt.Sprintf("frm:%slen=%d:up=%v:devaddr=%s:fcnt=%d:key=%s:data=%s", what, n, up, hx(da[:]), fc, hx(k[:]), hx(data))
	rep := map[string]interface{}{"api": "EncryptFRMPayload(key, uplink, devAddr, fCnt, data)", "key": hx(k[:]), "uplink": up,
		"devAddr": hx(da[:]), "fCnt": fc, "data": hx(data), "observed": o, "previous_compared_call": lastKey}
	if out != nil || o == cq.Ok("[]") {
		// Go-side: length preserved and the operation is its own inverse
		back, _ := encFrm(k, up, da, fc, out)
		if len(out) != len(data) || !bytes.Equal(back, data) {
			s.Fail(cases.GoFail{Key: "involution:" + ks, What: "EncryptFRMPayload applied twice does not restore the plaintext (or changes the length)", Replay: rep})
		}
	}
	s.Add(cases.Case{Term: fmt.Sprintf("CFrm %s %s %s %d %s %s", cq.Bytes(k[:]), cq.Bool(up), cq.Bytes(da[:]), fc, cq.Bytes(data), o),
		Key: ks, Kind: kind, Nontrivial: n > 0, Replay: rep})
	lastKey = clip(ks)
	if n <= 300 {
		s.Remember(ks, o, rep, func() string { _, o2 := encFrm(k, up, da, fc, data); return o2 })
	}
}

// frmFamily: a base call, then back to back the same call with exactly one argument changed (single FCnt bits -
// above and below bit 16 -, FCnt + 2^16, direction, one DevAddr byte, key zeroed / one key bit, a longer payload
// with the same prefix), then the base call again. The function keeps no state: every call must use its own keystream.
func frmFamily(s *cases.Set, r *cq.RNG, i int) {
	k, up := key(r), r.Bool()
	fc := uint32(r.Intn(1 << 16))
	if i%3 == 0 {
		fc = counter(r)
	}
	var da lorawan.DevAddr
	copy(da[:], r.Bytes(4))
	data := r.Bytes(1 + r.Intn(40))
	var zero lorawan.AES128Key
	noise.Step(nr)
	frmCall(s, k, up, da, fc, data, "family-frm-base", "")
	for _, b := range []uint{16, 31, 16 + uint(i%16), uint(i % 16)} {
		frmCall(s, k, up, da, fc^(1<<b), data, "family-frm", fmt.Sprintf("neighbour-fcnt-bit%d:", b))
	}
	frmCall(s, k, up, da, fc+0x10000, data, "family-frm", "neighbour-fcnt+2^16:")
	frmCall(s, k, !up, da, fc, data, "family-frm", "neighbour-direction:")
	da2 := da
	da2[i%4] ^= 1 << uint(i%8)
	frmCall(s, k, up, da2, fc, data, "family-frm", "neighbour-devaddr:")
	frmCall(s, zero, up, da, fc, data, "family-frm", "neighbour-key-zero:")
	k2 := k
	k2[i%16] ^= 1 << uint(i%8)
	frmCall(s, k2, up, da, fc, data, "family-frm", "neighbour-key-bit:")
	for _, pr := range collide.For(k) { // different keys that agree with k under a cheap digest
		frmCall(s, lorawan.AES128Key(pr.K2), up, da, fc, data, "family-frm", "neighbour-key-collides-"+pr.Name+":")
	}
	frmCall(s, k, up, da, fc, append(append([]byte{}, data...), r.Bytes(17)...), "family-frm", "neighbour-longer:")
	frmCall(s, k, up, da, fc, data, "family-frm", "base-again:")
}

func foptsCase(s *cases.Set, r *cq.RNG, n int, a, up bool) {
	k, fc := key(r), counter(r)
	var da lorawan.DevAddr
	copy(da[:], r.Bytes(4))
	noise.Step(nr)
	foptsCall(s, k, a, up, da, fc, r.Bytes(n), "")
}

func foptsCall(s *cases.Set, k lorawan.AES128Key, a, up bool, da lorawan.DevAddr, fc uint32, data []byte, what string) {
	n := len(data)
	out, o := encFOpts(k, a, up, da, fc, data)
	ks := fmt.Sprintf("fopts:%slen=%d:afcntdown=%v:up=%v:devaddr=%s:fcnt=%d:key=%s:data=%s", what, n, a, up, hx(da[:]), fc, hx(k[:]), hx(data))
	rep := map[string]interface{}{"api": "EncryptFOpts(key, aFCntDown, uplink, devAddr, fCnt, data)", "key": hx(k[:]), "aFCntDown": a, "uplink": up,
		"devAddr": hx(da[:]), "fCnt": fc, "data": hx(data), "observed": o, "previous_compared_call": lastKey}
	if o != cq.Err && o != cq.Panic {
		back, _ := encFOpts(k, a, up, da, fc, out)
		if len(out) != len(data) || !bytes.Equal(back, data) {
			s.Fail(cases.GoFail{Key: "involution:" + ks, What: "EncryptFOpts applied twice does not restore the plaintext (or changes the length)", Replay: rep})
		}
	}
	kind := "func-fopts"
	if n > 15 {
		kind = "func-fopts-too-long"
	}
	if what != "" {
		kind = "family-fopts"
	}
	s.Add(cases.Case{Term: fmt.Sprintf("CFOpts %s %s %s %s %d %s %s", cq.Bytes(k[:]), cq.Bool(a), cq.Bool(up), cq.Bytes(da[:]), fc, cq.Bytes(data), o),
		Key: ks, Kind: kind, Nontrivial: n > 0, Replay: rep})
	lastKey = clip(ks)
	s.Remember(ks, o, rep, func() string { _, o2 := encFOpts(k, a, up, da, fc, data); return o2 })
}

func foptsFamily(s *cases.Set, r *cq.RNG, i int) {
	k, a, up, fc := key(r), i%2 == 0, i%4 < 2, counter(r)
	var da lorawan.DevAddr
	copy(da[:], r.Bytes(4))
	data := r.Bytes(1 + r.Intn(15))
	var zero lorawan.AES128Key
	noise.Step(nr)
	foptsCall(s, k, a, up, da, fc, data, "base:")
	foptsCall(s, k, !a, up, da, fc, data, "neighbour-afcntdown:")
	foptsCall(s, k, a, !up, da, fc, data, "neighbour-direction:")
	foptsCall(s, k, a, up, da, fc^0x10000, data, "neighbour-fcnt-bit16:")
	foptsCall(s, k, a, up, da, fc^(1<<uint(i%32)), data, fmt.Sprintf("neighbour-fcnt-bit%d:", i%32))
	foptsCall(s, zero, a, up, da, fc, data, "neighbour-key-zero:")
	for _, pr := range collide.For(k) {
		if pr.Name == "crc32-ieee+castagnoli+koopman" || pr.Name == "first15bytes" || pr.Name == "adler32+bytesum" {
			foptsCall(s, lorawan.AES128Key(pr.K2), a, up, da, fc, data, "neighbour-key-collides-"+pr.Name+":")
		}
	}
	foptsCall(s, k, a, up, da, fc, data, "base-again:")
}

var opNames = []string{"EncFOpts", "DecFOpts", "EncFRM", "DecFRM", "DecodeFOpts", "DecodeFRM"}
var opAPI = []string{"PHYPayload.EncryptFOpts", "PHYPayload.DecryptFOpts", "PHYPayload.EncryptFRMPayload", "PHYPayload.DecryptFRMPayload",
	"PHYPayload.DecodeFOptsToMACCommands", "PHYPayload.DecodeFRMPayloadToMACCommands"}

func apply(op int, p *lorawan.PHYPayload, k lorawan.AES128Key) (s string) {
	cases.Begin(opAPI[op]+":"+framefmt.Phy(*p, 0), nil)
	defer cases.End()
	defer func() {
		if r := recover(); r != nil {
			s = cq.Panic
		}
	}()
	var err error
	switch op {
	case 0:
		err = p.EncryptFOpts(k)
	case 1:
		err = p.DecryptFOpts(k)
	case 2:
		err = p.EncryptFRMPayload(k)
	case 3:
		err = p.DecryptFRMPayload(k)
	case 4:
		err = p.DecodeFOptsToMACCommands()
	case 5:
		err = p.DecodeFRMPayloadToMACCommands()
	}
	if err != nil {
		return cq.Err
	}
	return cq.Ok(framefmt.Phy(*p, 0))
}

// methCase applies op to p (p is consumed: the methods work in place).
func methCase(s *cases.Set, op int, p lorawan.PHYPayload, k lorawan.AES128Key, kind, keyPrefix string) {
	t := framefmt.Phy(p, 0)
	noise.Step(nr)
	o := apply(op, &p, k)
	s.Add(cases.Case{Term: fmt.Sprintf("CMeth %s %s %s %s", opNames[op], cq.Bytes(k[:]), t, o),
		Key: fmt.Sprintf("%s%s:key=%s:%s", keyPrefix, opNames[op], hx(k[:]), t), Kind: kind, Nontrivial: true,
		Replay: map[string]interface{}{"api": opAPI[op], "key": hx(k[:]), "frame": t, "observed": o}})
}

// aliasCase: the payload object the application put into the frame stays the application's. The object's bytes
// live inside a larger buffer with guard bytes and spare capacity. After the method: the whole buffer is unchanged,
// the frame's new payload does not share memory with it, and the same object put into a second frame (other DevAddr,
// FCnt + 1) is encrypted as THAT frame's plaintext. Both calls are ordinary compared cases whose frame term is
// printed from a private copy of the plaintext. field: false = FRMPayload (ops 2/3), true = FOpts (ops 0/1).
func aliasCase(s *cases.Set, r *cq.RNG, op int, fopts bool, i int) {
	n := 1 + r.Intn(40)
	if fopts {
		n = 1 + r.Intn(15)
	}
	spare := []int{0, 5, 16, 31}[i%4]
	backing := make([]byte, 8+n+spare+8)
	for j := range backing {
		backing[j] = byte(0xa5 + j)
	}
	plain := r.Bytes(n)
	copy(backing[8:], plain)
	snapshot := append([]byte{}, backing...)
	shared := &lorawan.DataPayload{Bytes: backing[8 : 8+n : 8+n+spare]}
	k := key(r)
	mts := []lorawan.MType{lorawan.UnconfirmedDataUp, lorawan.UnconfirmedDataDown, lorawan.ConfirmedDataUp, lorawan.ConfirmedDataDown}
	base := dataFrame(r, framefmt.Opt{MType: mts[i%4], Port: 1 + r.Intn(200), FCntHigh: i%3 != 0})
	build := func(pl *lorawan.DataPayload, second bool) lorawan.PHYPayload {
		m := *base.MACPayload.(*lorawan.MACPayload)
		if second {
			m.FHDR.DevAddr[i%4] ^= 0x10
			m.FHDR.FCnt++
		}
		if fopts {
			m.FHDR.FOpts = []lorawan.Payload{pl}
		} else {
			m.FRMPayload = []lorawan.Payload{pl}
		}
		q := base
		q.MACPayload = &m
		return q
	}
	field := func(q lorawan.PHYPayload) []byte {
		m := q.MACPayload.(*lorawan.MACPayload)
		l := m.FRMPayload
		if fopts {
			l = m.FHDR.FOpts
		}
		if len(l) == 1 {
			if d, ok := l[0].(*lorawan.DataPayload); ok {
				return d.Bytes
			}
		}
		return nil
	}
	for pass, second := range []bool{false, true} {
		private := &lorawan.DataPayload{Bytes: append([]byte{}, plain...)}
		t := framefmt.Phy(build(private, second), 0)
		q := build(shared, second)
		noise.Step(nr)
		o := apply(op, &q, k)
		ks := fmt.Sprintf("alias:%s:frame%d:spare=%d:key=%s:%s", opNames[op], pass+1, spare, hx(k[:]), t)
		rp := map[string]interface{}{"api": opAPI[op] + " on a frame whose payload object (" + fmt.Sprintf("%d bytes inside a %d-byte buffer, capacity +%d", n, len(backing), spare) + ") is kept by the caller; frame 2 reuses the same object",
			"key": hx(k[:]), "frame": t, "observed": o, "payload_object_bytes_now": hx(shared.Bytes), "buffer_before": hx(snapshot), "buffer_now": hx(backing)}
		s.Add(cases.Case{Term: fmt.Sprintf("CMeth %s %s %s %s", opNames[op], cq.Bytes(k[:]), t, o), Key: ks, Kind: "meth-alias", Nontrivial: true, Replay: rp})
		if !bytes.Equal(backing, snapshot) {
			s.Fail(cases.GoFail{Key: "caller-memory-modified:" + ks, What: opAPI[op] + " modified the payload object handed to it (or the memory around it): the caller's plaintext is overwritten", Replay: rp})
			copy(backing, snapshot)
		}
		if o != cq.Err && o != cq.Panic {
			if nf := field(q); len(nf) > 0 && op%2 == 0 {
				// does the frame's new payload live in the caller's buffer?
				before := append([]byte{}, nf...)
				for j := range backing {
					backing[j] ^= 0xff
				}
				sharedMem := !bytes.Equal(before, nf)
				copy(backing, snapshot)
				if sharedMem {
					s.Fail(cases.GoFail{Key: "shares-caller-memory:" + ks, What: "the payload stored by " + opAPI[op] + " shares memory with the caller's payload object", Replay: rp})
				}
			}
		}
	}
}

// foreignCases: frames whose FRMPayload / FOpts contain elements of a Payload type that does not come from the
// library (framefmt.Opaque, an application-layer clocksync.Command), alone and mixed with library types, through
// Encrypt* and Decrypt* of the encrypted frame. On the wire such an element is the bytes its MarshalBinary returns.
func foreignCases(s *cases.Set, r *cq.RNG, i int) {
	mts := []lorawan.MType{lorawan.UnconfirmedDataUp, lorawan.UnconfirmedDataDown, lorawan.ConfirmedDataUp, lorawan.ConfirmedDataDown}
	mt := mts[i%4]
	up := mt == lorawan.UnconfirmedDataUp || mt == lorawan.ConfirmedDataUp
	sd := r.U64()
	shape := i % 7
	mk := func() lorawan.PHYPayload {
		rr := cq.NewRNG(sd)
		p := dataFrame(rr, framefmt.Opt{MType: mt, Port: 1 + rr.Intn(200), FCntHigh: i%3 != 0})
		m := p.MACPayload.(*lorawan.MACPayload)
		op := func(n int) lorawan.Payload { return &framefmt.Opaque{B: rr.Bytes(n)} }
		switch shape {
		case 0:
			m.FRMPayload = []lorawan.Payload{op(1 + rr.Intn(40))}
		case 1:
			m.FRMPayload = []lorawan.Payload{op(1 + rr.Intn(20)), &lorawan.DataPayload{Bytes: rr.Bytes(1 + rr.Intn(20))}}
		case 2:
			m.FRMPayload = []lorawan.Payload{&lorawan.DataPayload{Bytes: rr.Bytes(1 + rr.Intn(20))}, op(1 + rr.Intn(20)), op(rr.Intn(3))}
		case 3:
			m.FHDR.FOpts = []lorawan.Payload{op(1 + rr.Intn(15))}
		case 4:
			m.FHDR.FOpts = append(framefmt.ValidCmds(rr, up, 6), op(1+rr.Intn(5)))
		case 5:
			m.FHDR.FOpts = append([]lorawan.Payload{op(1 + rr.Intn(5))}, framefmt.ValidCmds(rr, up, 6)...)
		default:
			pt := uint8(202)
			m.FPort = &pt
			m.FRMPayload = []lorawan.Payload{&clocksync.Command{CID: clocksync.AppTimeReq, Payload: &clocksync.AppTimeReqPayload{DeviceTime: rr.U32(), Param: clocksync.AppTimeReqPayloadParam{AnsRequired: rr.Bool(), TokenReq: uint8(rr.Intn(16))}}}}
			m.FHDR.FOpts = []lorawan.Payload{op(1 + rr.Intn(8))}
		}
		return p
	}
	k := key(r)
	kind := fmt.Sprintf("meth-foreign-shape%d", shape)
	for _, enc := range []int{0, 2} {
		methCase(s, enc, mk(), k, kind, "foreign:")
		p := mk()
		if apply(enc, &p, k) != cq.Err {
			methCase(s, enc+1, p, k, kind, "foreign:")
		}
	}
}

// sliceCase: the caller keeps the []Payload SLICE it put into the frame (one message fanned out to several
// devices, a retransmission with FCnt + 1): the same slice is put into three frames (other DevAddr, FCnt + 1, other
// key) which are encrypted in turn. Every call is an ordinary compared case whose frame term is printed from the
// caller's original payload objects; after each call the slice must still hold those objects with their bytes.
func sliceCase(s *cases.Set, r *cq.RNG, fopts bool, i int) {
	mts := []lorawan.MType{lorawan.UnconfirmedDataUp, lorawan.UnconfirmedDataDown, lorawan.ConfirmedDataUp, lorawan.ConfirmedDataDown}
	mt := mts[i%4]
	up := mt == lorawan.UnconfirmedDataUp || mt == lorawan.ConfirmedDataUp
	var pls []lorawan.Payload
	if fopts {
		pls = framefmt.ValidCmds(r, up, 1+r.Intn(12))
		if len(pls) == 0 || i%3 == 0 {
			pls = []lorawan.Payload{&lorawan.DataPayload{Bytes: r.Bytes(1 + r.Intn(15))}}
		}
	} else {
		pls = make([]lorawan.Payload, 1, 1+i%3)
		pls[0] = &lorawan.DataPayload{Bytes: r.Bytes(1 + r.Intn(40))}
	}
	orig := append([]lorawan.Payload(nil), pls...)
	var origBytes [][]byte
	for _, e := range orig {
		b, _ := e.MarshalBinary()
		origBytes = append(origBytes, append([]byte{}, b...))
	}
	base := dataFrame(r, framefmt.Opt{MType: mt, Port: 1 + r.Intn(200), FCntHigh: i%3 != 0})
	op := 2
	if fopts {
		op = 0
	}
	for pass := 0; pass < 3; pass++ {
		build := func(l []lorawan.Payload) lorawan.PHYPayload {
			m := *base.MACPayload.(*lorawan.MACPayload)
			m.FHDR.FCnt += uint32(pass)
			if pass == 2 {
				m.FHDR.DevAddr[i%4] ^= 0x21
			}
			if fopts {
				m.FHDR.FOpts = l
			} else {
				m.FRMPayload = l
			}
			q := base
			q.MACPayload = &m
			return q
		}
		t := framefmt.Phy(build(append([]lorawan.Payload(nil), orig...)), 0)
		q := build(pls)
		k := key(r)
		noise.Step(nr)
		o := apply(op, &q, k)
		ks := fmt.Sprintf("slice:%s:frame%d:key=%s:%s", opNames[op], pass+1, hx(k[:]), t)
		rp := map[string]interface{}{"api": opAPI[op] + " on frame " + fmt.Sprint(pass+1) + " of 3 that were built from one []Payload slice kept by the caller (cap " + fmt.Sprint(cap(pls)) + ")",
			"key": hx(k[:]), "frame": t, "observed": o}
		s.Add(cases.Case{Term: fmt.Sprintf("CMeth %s %s %s %s", opNames[op], cq.Bytes(k[:]), t, o), Key: ks, Kind: "meth-slice", Nontrivial: true, Replay: rp})
		changed := len(pls) != len(orig)
		for j := 0; j < len(orig) && j < len(pls) && !changed; j++ {
			b, _ := pls[j].MarshalBinary()
			changed = pls[j] != orig[j] || !bytes.Equal(b, origBytes[j])
		}
		if changed {
			s.Fail(cases.GoFail{Key: "caller-slice-modified:" + ks, What: opAPI[op] + " wrote into the caller's []Payload slice (or payload objects): the next frame built from it carries ciphertext as plaintext", Replay: rp})
			copy(pls, orig)
		}
	}
}

func aesCase(s *cases.Set, k, b []byte, name string) {
	blk, err := aes.NewCipher(k)
	if err != nil {
		s.Fail(cases.GoFail{Key: "aes:new:" + hx(k), What: "aes.NewCipher failed: " + err.Error(), Replay: map[string]interface{}{"key": hx(k)}})
		return
	}
	o := make([]byte, 16)
	blk.Encrypt(o, b)
	s.Add(cases.Case{Term: fmt.Sprintf("CAesEnc %s %s %s", cq.Bytes(k), cq.Bytes(b), cq.Bytes(o)),
		Key: "aes:" + name + ":key=" + hx(k) + ":block=" + hx(b), Kind: "crypto-aes", Nontrivial: true,
		Replay: map[string]interface{}{"api": "crypto/aes Encrypt", "key": hx(k), "block": hx(b), "observed": hx(o)}})
}

// frame builds a data frame for the method cases. mode: 0 FOpts commands + app payload, 1 port 0 with commands,
// 2 no port, 3 raw FOpts of 16..20 bytes, 4 FOpts with an unencodable command, 5 raw FOpts 1..15 + raw port-0 payload bytes,
// 6 FPort 0 with FOpts, 7 FPort absent with a FRMPayload
func frame(r *cq.RNG, mode int) lorawan.PHYPayload {
	mts := []lorawan.MType{lorawan.UnconfirmedDataUp, lorawan.UnconfirmedDataDown, lorawan.ConfirmedDataUp, lorawan.ConfirmedDataDown}
	o := framefmt.Opt{MType: mts[r.Intn(4)], Port: -1, FCntHigh: r.Intn(10) < 7}
	lens := []int{0, 1, 15, 16, 17, 31, 32, 33, 100, 241, 242}
	switch mode {
	case 0:
		o.Port = r.Intn(256)
		if o.Port == 0 {
			o.Port = 1
		}
		if r.Intn(4) == 0 {
			o.Port = 1 + r.Intn(3)
		}
		o.FOptsBytes = r.Intn(16)
		o.FRMLen = lens[r.Intn(len(lens))]
		if r.Bool() {
			o.FRMLen = r.Intn(243)
		}
	case 1:
		o.Port, o.FRMAsMAC, o.FRMLen = 0, true, 1+r.Intn(60)
	case 2:
		o.FOptsBytes = r.Intn(16)
	case 3:
		o.FOptsBytes, o.FOptsRaw = 16+r.Intn(5), true
		if r.Bool() {
			o.Port, o.FRMLen = 1+r.Intn(255), r.Intn(20)
		}
	case 4:
		o.FOptsBytes = 1 + r.Intn(10)
		o.Port, o.FRMLen = 1+r.Intn(255), r.Intn(20)
	case 5:
		o.FOptsBytes, o.FOptsRaw = 1+r.Intn(15), true
		if r.Bool() {
			o.Port, o.FRMLen = 0, 1+r.Intn(40)
			o.FOptsBytes = 0
		} else if r.Bool() {
			o.Port, o.FRMLen = 1+r.Intn(255), r.Intn(40)
		}
	case 7: // FPort absent although there is a FRMPayload (e.g. the caller sets FPort after encrypting): the keystream does not depend on FPort
		o.FRMLen = 1 + r.Intn(40)
		o.FOptsBytes = r.Intn(8)
	case 6: // FPort 0 together with FOpts (not a valid frame, but EncryptFOpts accepts it): NFCntDown, not AFCntDown
		o.Port = 0
		o.FOptsBytes = 1 + r.Intn(15)
		if r.Bool() {
			o.FRMAsMAC, o.FRMLen = true, 1+r.Intn(20)
		}
	}
	p := dataFrame(r, o)
	if mode == 4 {
		m := p.MACPayload.(*lorawan.MACPayload)
		up := o.MType == lorawan.UnconfirmedDataUp || o.MType == lorawan.ConfirmedDataUp
		// a command whose payload refuses to marshal
		for tries := 0; tries < 50; tries++ {
			b := macfmt.Builtin[r.Intn(len(macfmt.Builtin))]
			if b.Up != up {
				continue
			}
			pl := macfmt.Random(r, macfmt.KindIndex(b.Kind), false)
			if _, err := pl.MarshalBinary(); err != nil {
				m.FHDR.FOpts = append(m.FHDR.FOpts, &lorawan.MACCommand{CID: b.CID, Payload: pl})
				break
			}
		}
	}
	return p
}

// dataFrame / joinFrame: the framefmt generators with the MHDR Major field drawn from all four values (the library
// accepts any; the MHDR octet enters every MIC)
func dataFrame(r *cq.RNG, o framefmt.Opt) lorawan.PHYPayload {
	p := framefmt.DataFrame(r, o)
	p.MHDR.Major = lorawan.Major(r.Intn(4))
	return p
}

func joinFrame(r *cq.RNG, kind int) lorawan.PHYPayload {
	p := framefmt.JoinFrame(r, kind)
	p.MHDR.Major = lorawan.Major(r.Intn(4))
	return p
}

// opaquify replaces *DataPayload elements of FRMPayload / FOpts by a Payload implementation that does not come
// from the library (framefmt.Opaque; on the wire it is the bytes its MarshalBinary returns). how: 0 all, 1 FRMPayload
// only, 2 FOpts only, 3 FRMPayload split into [Opaque, DataPayload].
func opaquify(p lorawan.PHYPayload, how int) lorawan.PHYPayload {
	m, ok := p.MACPayload.(*lorawan.MACPayload)
	if !ok {
		return p
	}
	c := *m
	conv := func(l []lorawan.Payload) []lorawan.Payload {
		out := make([]lorawan.Payload, len(l))
		for i, e := range l {
			if d, ok := e.(*lorawan.DataPayload); ok {
				out[i] = &framefmt.Opaque{B: append([]byte{}, d.Bytes...)}
			} else {
				out[i] = e
			}
		}
		return out
	}
	if how == 0 || how == 1 {
		c.FRMPayload = conv(m.FRMPayload)
	}
	if how == 0 || how == 2 {
		c.FHDR.FOpts = conv(m.FHDR.FOpts)
	}
	if how == 3 && len(m.FRMPayload) == 1 {
		if d, ok := m.FRMPayload[0].(*lorawan.DataPayload); ok && len(d.Bytes) >= 2 {
			h := len(d.Bytes) / 2
			c.FRMPayload = []lorawan.Payload{&framefmt.Opaque{B: append([]byte{}, d.Bytes[:h]...)}, &lorawan.DataPayload{Bytes: append([]byte{}, d.Bytes[h:]...)}}
		}
	}
	p.MACPayload = &c
	return p
}

func main() {
	log.SetOutput(io.Discard)
	dir, seed, thorough := cases.Args()
	r := cq.NewRNG(seed)
	nr = cq.NewRNG(seed ^ 0x9e3779b97f4a7c15)
	s := cases.New("C03", dir, "LW.Corr.C03",
		"FIPS-197 C.1 first; corpus: 16-byte FOpts through EncryptFOpts/DecryptFOpts (C03-1), FPort 0 with empty FRMPayload through DecryptFRMPayload (C05-1). func EncryptFRMPayload: payload lengths 0,1,15,16,17,31,32,33,255,256 + random (thorough: every length 0..255 in both directions + random up to 600), one 4112-byte payload (257 blocks: counter byte wraps), counters >= 2^16 in 70%, both directions; func EncryptFOpts: every length 0..15 x aFCntDown x direction, 16..20 (error). PHYPayload methods: frames with MAC commands in FOpts (0..15 bytes) and application payload, commands on port 0, no port, raw FOpts 16..20 bytes, an unencodable command in FOpts, raw (undecodable) bytes, FPort 0 together with FOpts (counter choice boundary), FPort absent with a non-empty FRMPayload (lengths 1..40, both directions, Encrypt and Decrypt); Encrypt then Decrypt chains; wrong payload types. Caller's memory: frames whose single payload object (FRMPayload, or a raw FOpts element) is kept by the caller and lives inside a guarded buffer with spare capacity 0/5/16/31: after Encrypt/Decrypt the buffer is unchanged, the stored payload shares no memory with it, and the same object put into a second frame (other DevAddr, FCnt + 1) gives that frame's model ciphertext (frame terms printed from a private copy of the plaintext). MHDR Major drawn from 0..3. Foreign Payload types: FRMPayload / FOpts elements that do not come from the library (framefmt.Opaque alone, [Opaque, DataPayload], [DataPayload, Opaque, Opaque], [MAC commands, Opaque], [Opaque, MAC commands], a clocksync.Command on port 202) through Encrypt* and Decrypt* of the encrypted frame. DecodeFRMPayloadToMACCommands on frames with a payload for FPort absent / 0 / 1..255 (refused unless FPort = 0, C03-2). FPort sweep of the FOpts methods, each FPort with a payload / without (nil list) / without (zero-length list) (FPort absent, 1, 2, 127, 128, 222..225, 254, 255; thorough every FPort) x 4 MTypes. Caller's slices: one []Payload slice (FRMPayload message, or 1-3 FOpts commands / raw FOpts) kept by the caller and put into three frames (FCnt + 1, other DevAddr, other key) that are encrypted in turn - each an ordinary case printed from the original objects; the slice must still hold them afterwards (caller-slice-modified:). Every exported-function call is also repeated from 8 goroutines at once. History: unrelated library calls (internal/noise) before every compared call; neighbour families of the exported functions run back to back (base call, then the same call with one argument changed: single FCnt bits 16, 31, one more high and one low bit, FCnt + 2^16, direction, one DevAddr bit, key zeroed, one key bit, a different key that agrees with the base key under CRC-32 x3 / Adler-32 / xor-folds / shared prefix or suffix (internal/collide), a longer payload with the same prefix, aFCntDown; then the base call again), each compared with model and specification; every exported-function call is repeated three times later in the process (reverse, same, shuffled order) and must give its first result. Go-side: applying a function twice restores the input. A case is non-trivial unless its byte string is empty.")
	s.ShardSize = 60
	// official vector
	fipsKey := make([]byte, 16)
	fipsBlk := make([]byte, 16)
	for i := range fipsKey {
		fipsKey[i] = byte(i)
		fipsBlk[i] = byte(i * 0x11)
	}
	aesCase(s, fipsKey, fipsBlk, "fips197-c1")
	for i := 0; i < 5; i++ {
		aesCase(s, r.Bytes(16), r.Bytes(16), "random")
	}
	// corpus: witnesses of the two repaired defects
	{
		var k lorawan.AES128Key
		for i := range k {
			k[i] = byte(i + 1)
		}
		mk := func() lorawan.PHYPayload {
			m := &lorawan.MACPayload{}
			m.FHDR.DevAddr = lorawan.DevAddr{1, 2, 3, 4}
			m.FHDR.FCnt = 1
			m.FHDR.FOpts = []lorawan.Payload{&lorawan.DataPayload{Bytes: []byte{1, 2, 3, 4, 5, 6, 7, 8, 9, 10, 11, 12, 13, 14, 15, 16}}}
			return lorawan.PHYPayload{MHDR: lorawan.MHDR{MType: lorawan.UnconfirmedDataUp, Major: lorawan.LoRaWANR1}, MACPayload: m}
		}
		methCase(s, 0, mk(), k, "corpus", "fopts16:")
		methCase(s, 1, mk(), k, "corpus", "fopts16:")
		p0 := uint8(0)
		m := &lorawan.MACPayload{FPort: &p0}
		m.FHDR.DevAddr = lorawan.DevAddr{1, 2, 3, 4}
		methCase(s, 3, lorawan.PHYPayload{MHDR: lorawan.MHDR{MType: lorawan.UnconfirmedDataDown, Major: lorawan.LoRaWANR1}, MACPayload: m}, k, "corpus", "port0-empty:")
	}
	// ---- exported functions ----
	if thorough {
		for n := 0; n <= 255; n++ {
			frmCase(s, r, n, "func-frm")
			frmCase(s, r, n, "func-frm")
		}
		s.Exhaustive("EncryptFRMPayload payload lengths 0..255")
		for i := 0; i < 400; i++ {
			frmCase(s, r, r.Intn(601), "func-frm")
		}
	} else {
		for _, n := range []int{0, 1, 15, 16, 17, 31, 32, 33, 255, 256, 47, 48, 49, 240, 241, 242} {
			frmCase(s, r, n, "func-frm")
		}
		for i := 0; i < 40; i++ {
			frmCase(s, r, r.Intn(256), "func-frm")
		}
		for i := 0; i < 4; i++ {
			frmCase(s, r, 256+r.Intn(345), "func-frm")
		}
	}
	frmCase(s, r, 4112, "func-frm-257-blocks")
	nfam := 40
	if thorough {
		nfam = 1200
	}
	for i := 0; i < nfam; i++ {
		frmFamily(s, r, i)
		if i%2 == 0 {
			foptsFamily(s, r, i)
		}
	}
	reps := 1
	if thorough {
		reps = 12
	}
	for rep := 0; rep < reps; rep++ {
		for n := 0; n <= 20; n++ {
			for _, a := range []bool{false, true} {
				for _, up := range []bool{false, true} {
					foptsCase(s, r, n, a, up)
				}
			}
		}
	}
	s.Exhaustive("EncryptFOpts lengths 0..20 x aFCntDown x uplink")
	// ---- methods ----
	s.Watchdog(3 * time.Second)
	// DecodeFRMPayloadToMACCommands on frames that carry a payload: FPort absent and 1..255 (application octets: the step
	// must be refused, C03-2), FPort 0 with marshalled commands / with raw octets (decoded or refused by the decoder)
	{
		ports := []int{-1, 1, 2, 5, 127, 128, 223, 224, 255, 0, 0}
		if thorough {
			ports = []int{-1, 0, 0, 0}
			for q := 1; q < 256; q++ {
				ports = append(ports, q)
			}
		}
		for pi, port := range ports {
			for _, mt := range []lorawan.MType{lorawan.UnconfirmedDataUp, lorawan.UnconfirmedDataDown, lorawan.ConfirmedDataUp, lorawan.ConfirmedDataDown} {
				o := framefmt.Opt{MType: mt, Port: port, FRMLen: 1 + r.Intn(30), FCntHigh: pi%2 == 0}
				if port != 0 && r.Intn(3) == 0 {
					o.FRMLen = []int{2, 3, 5}[r.Intn(3)] // lengths of real commands: 05 02 aabbccdd style
				}
				if port == 0 && pi%2 == 0 {
					o.FRMAsMAC = true
				}
				p := dataFrame(r, o)
				if port == 0 && o.FRMAsMAC { // the decoder wants the commands as marshalled octets
					if b, err := p.MACPayload.(*lorawan.MACPayload).FRMPayload, error(nil); err == nil && len(b) > 0 {
						var raw []byte
						for _, e := range b {
							x, _ := e.MarshalBinary()
							raw = append(raw, x...)
						}
						p.MACPayload.(*lorawan.MACPayload).FRMPayload = []lorawan.Payload{&lorawan.DataPayload{Bytes: raw}}
					}
				}
				methCase(s, 5, p, key(r), "meth-decode-frm-port", fmt.Sprintf("decodefrm:port=%d:", port))
			}
		}
		s.Exhaustive("PHYPayload.DecodeFRMPayloadToMACCommands on frames with a payload: FPort absent, 0, 1, 2, 5, 127, 128, 223, 224, 255 (thorough: every FPort) x 4 MTypes")
	}
	// FPort sweep for the counter choice of the FOpts methods: every boundary FPort (thorough: every FPort) x 4 MTypes
	{
		ports := []int{-1, 1, 2, 127, 128, 222, 223, 224, 225, 254, 255}
		if thorough {
			ports = []int{-1}
			for q := 1; q < 256; q++ {
				ports = append(ports, q)
			}
		}
		for pi, port := range ports {
			for mi, mt := range []lorawan.MType{lorawan.UnconfirmedDataUp, lorawan.UnconfirmedDataDown, lorawan.ConfirmedDataUp, lorawan.ConfirmedDataDown} {
				sd := r.U64()
				// payload shape: a payload, none (nil list), none (zero-length list) - the counter choice depends on FPort alone
				shape := (pi + mi/2) % 3
				mk := func() lorawan.PHYPayload {
					rr := cq.NewRNG(sd)
					o := framefmt.Opt{MType: mt, Port: port, FOptsBytes: 2 + rr.Intn(13), FCntHigh: port%3 != 0}
					if port > 0 && shape == 0 {
						o.FRMLen = 1 + rr.Intn(12)
					}
					q := dataFrame(rr, o)
					if shape == 2 {
						q.MACPayload.(*lorawan.MACPayload).FRMPayload = []lorawan.Payload{}
					}
					return q
				}
				k := key(r)
				methCase(s, 0, mk(), k, "meth-port-sweep", fmt.Sprintf("port=%d:", port))
				p := mk()
				if apply(0, &p, k) != cq.Err {
					methCase(s, 1, p, k, "meth-port-sweep", fmt.Sprintf("port=%d:", port))
				}
			}
		}
		s.Exhaustive("PHYPayload.EncryptFOpts / DecryptFOpts: FPort absent and boundary values 1,2,127,128,222..225,254,255 (thorough: every FPort 1..255) x 4 MTypes")
	}
	{
		na := 24
		if thorough {
			na = 400
		}
		for i := 0; i < na; i++ {
			aliasCase(s, r, []int{2, 3}[i%2], false, i)
			sliceCase(s, r, i%2 == 1, i)
			foreignCases(s, r, i)
			if i%2 == 0 {
				aliasCase(s, r, []int{0, 1}[(i/2)%2], true, i)
			}
		}
	}
	// FPort absent x FRMPayload lengths 1..40 x both directions: EncryptFRMPayload and DecryptFRMPayload (of the encrypted frame)
	for l := 1; l <= 40; l++ {
		for _, mt := range []lorawan.MType{lorawan.UnconfirmedDataUp, lorawan.UnconfirmedDataDown, lorawan.ConfirmedDataUp, lorawan.ConfirmedDataDown} {
			if !thorough && (mt == lorawan.ConfirmedDataUp || mt == lorawan.ConfirmedDataDown) && l%4 != 0 {
				continue
			}
			sd := r.U64()
			mk := func() lorawan.PHYPayload {
				rr := cq.NewRNG(sd)
				return dataFrame(rr, framefmt.Opt{MType: mt, Port: -1, FRMLen: l, FCntHigh: l%3 != 0})
			}
			k := key(r)
			methCase(s, 2, mk(), k, "meth-noport", "noport:")
			p := mk()
			if apply(2, &p, k) != cq.Err {
				methCase(s, 3, p, k, "meth-noport", "noport:")
			}
			methCase(s, 3, mk(), k, "meth-noport", "noport:")
		}
	}
	s.Exhaustive("PHYPayload.EncryptFRMPayload / DecryptFRMPayload with FPort absent, FRMPayload lengths 1..40, uplink and downlink")
	n := 130
	if thorough {
		n = 4000
	}
	for i := 0; i < n; i++ {
		sd := r.U64()
		mode := []int{0, 0, 1, 2, 0, 1, 3, 4, 5, 6, 7}[i%11]
		mk := func() lorawan.PHYPayload { return frame(cq.NewRNG(sd), mode) }
		k := key(r)
		kind := fmt.Sprintf("meth-mode%d", mode)
		// Encrypt* on the plain frame
		methCase(s, 0, mk(), k, kind, "")
		methCase(s, 2, mk(), k, kind, "")
		// Decrypt* on the encrypted frame (so that decoding sees real commands), and with another key (garbage to decode)
		p := mk()
		if apply(0, &p, k) != cq.Err {
			methCase(s, 1, p, k, kind, "")
		} else {
			methCase(s, 1, mk(), k, kind, "")
		}
		p = mk()
		if apply(2, &p, k) != cq.Err {
			k2 := k
			if i%5 == 4 {
				k2 = key(r)
			}
			methCase(s, 3, p, k2, kind, "")
		}
		if i%3 == 0 {
			// decrypting / decoding a frame as it stands (random bytes as commands: error paths)
			methCase(s, 1, mk(), k, kind, "")
			methCase(s, 3, mk(), k, kind, "")
			methCase(s, 4, mk(), k, kind, "")
			methCase(s, 5, mk(), k, kind, "")
		}
		if i%12 == 5 { // wrong payload types
			q := mk()
			if r.Bool() {
				q.MACPayload = nil
			} else {
				q.MACPayload = &lorawan.DataPayload{Bytes: r.Bytes(r.Intn(20))}
			}
			op := r.Intn(6)
			t := framefmt.Phy(q, 0)
			o := apply(op, &q, k)
			s.Add(cases.Case{Term: fmt.Sprintf("CMeth %s %s %s %s", opNames[op], cq.Bytes(k[:]), t, o),
				Key: fmt.Sprintf("wrongtype:%s:%s", opNames[op], t), Kind: "meth-wrong-type", Nontrivial: true,
				Replay: map[string]interface{}{"api": opAPI[op], "key": hx(k[:]), "frame": t, "observed": o}})
		}
	}
	s.ReplayRemembered(nr.Intn, 3, func() { noise.Step(nr) })
	s.ReplayConcurrently(8, 3, 60*time.Second)
	if err := s.Finish(); err != nil {
		fmt.Fprintln(os.Stderr, err)
		os.Exit(2)
	}
}
