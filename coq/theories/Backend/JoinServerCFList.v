(* C16: every well-formed CFList of a request is carried into the join-accept byte for byte:
   channel-mask CFLists (type 1; six masks, RFU octets 12..14 ignored since /repo e2c2b92) by induction over the mask decoder loop and a
   65,536-case sweep of the ChMask codec; all other types in JoinServerProofs.cflist_channels_rt. *)
From Coq Require Import List NArith ZArith Bool Lia.
From Coq Require Import ZifyN ZifyNat ZifyBool.
From LW Require Import Base.Outcome Base.Bytes Mac.Commands Mac.Stream Frame.Model Backend.JoinServer Backend.JoinServerProofs.
Import ListNotations.
Open Scope N_scope.
Ltac Zify.zify_post_hook ::= Z.div_mod_to_equations.

(* ---------- channel-mask CFLists (type 1) ---------- *)
Definition all256 : list N := map N.of_nat (seq 0 256).
Lemma in_all256 x : x < 256 -> In x all256.
Proof. intros H. apply in_map_iff. exists (N.to_nat x). split; [lia|]. apply in_seq. lia. Qed.

Definition mask_facts (a b : N) : bool :=
  let cm := dec_chmask_list [a; b] in
  bytes_eqb (enc_chmask cm) [a; b] && (existsb (fun x => x) cm || ((a =? 0) && (b =? 0))).

Lemma mask_sweep : forallb (fun a => forallb (mask_facts a) all256) all256 = true.
Proof. vm_compute. reflexivity. Qed.

Lemma mask_ok a b : a < 256 -> b < 256 ->
  enc_chmask (dec_chmask_list [a; b]) = [a; b] /\
  (existsb (fun x => x) (dec_chmask_list [a; b]) = false -> a = 0 /\ b = 0).
Proof.
  intros Ha Hb. pose proof mask_sweep as S. rewrite forallb_forall in S.
  specialize (S a (in_all256 a Ha)). rewrite forallb_forall in S. specialize (S b (in_all256 b Hb)).
  unfold mask_facts in S. apply andb_true_iff in S. destruct S as [S1 S2].
  split; [now apply bytes_eqb_true|]. intros E. rewrite E in S2. cbn [orb] in S2. lia.
Qed.

Definition flat (ps : list (N * N)) : list N := concat (map (fun p => [fst p; snd p]) ps).
Definition encs (ms : list (list bool)) : list N := concat (map enc_chmask ms).
Definition zmask : list bool := dec_chmask_list [0; 0].

Lemma encs_app a b : encs (a ++ b) = encs a ++ encs b.
Proof. unfold encs. now rewrite map_app, concat_app. Qed.

Lemma encs_single m : encs [m] = enc_chmask m.
Proof. unfold encs. cbn [map concat]. apply app_nil_r. Qed.

Lemma encs_zeros pending : Forall (fun m => enc_chmask m = [0; 0]) pending -> encs pending = repeat 0 (2 * length pending).
Proof.
  induction 1 as [|m ms Hm _ IH]; [reflexivity|]. unfold encs in *. cbn [map concat length]. rewrite Hm, IH.
  replace (2 * S (length ms))%nat with (S (S (2 * length ms))) by lia. reflexivity.
Qed.

Lemma loop_spec ps : forall fuel pending acc,
  (length ps < fuel)%nat -> Forall (fun p => fst p < 256 /\ snd p < 256) ps ->
  Forall (fun m => enc_chmask m = [0; 0]) pending ->
  exists z, encs (masks_loop (flat ps) fuel pending acc) ++ repeat 0 (2 * z)
            = encs acc ++ repeat 0 (2 * length pending) ++ flat ps /\
            (length (masks_loop (flat ps) fuel pending acc) + z = length acc + length pending + length ps)%nat.
Proof.
  induction ps as [|[a b] ps IH]; intros fuel pending acc Hf Hb Hp.
  - destruct fuel as [|f]; [lia|]. cbn [flat map concat masks_loop]. exists (length pending).
    cbn [length]. rewrite app_nil_r. split; [reflexivity|lia].
  - destruct fuel as [|f]; [cbn [length] in Hf; lia|].
    inversion Hb as [|? ? [Ha Hb'] Hps]; subst. cbn [fst snd] in Ha, Hb'.
    change (flat ((a, b) :: ps)) with (a :: b :: flat ps). cbn [masks_loop].
    destruct (mask_ok a b Ha Hb') as [E1 E2].
    destruct (existsb (fun x => x) (dec_chmask_list [a; b])) eqn:E.
    + destruct (IH f [] (acc ++ pending ++ [dec_chmask_list [a; b]]) ltac:(cbn [length] in Hf; lia) Hps ltac:(constructor)) as (z & Z1 & Z2).
      exists z. split.
      * rewrite Z1. rewrite !encs_app, (encs_zeros pending Hp), encs_single, E1.
        change (repeat 0 (2 * length (@nil (list bool)))) with (@nil N).
        rewrite <- !app_assoc. reflexivity.
      * rewrite Z2, !app_length. cbn [length]. lia.
    + destruct (E2 eq_refl) as [-> ->].
      destruct (IH f (pending ++ [dec_chmask_list [0; 0]]) acc ltac:(cbn [length] in Hf; lia) Hps) as (z & Z1 & Z2).
      { apply Forall_app. split; [exact Hp|]. constructor; [exact E1|constructor]. }
      exists z. split.
      * rewrite Z1, app_length. cbn [length]. replace (2 * (length pending + 1))%nat with (2 * length pending + 2)%nat by lia.
        rewrite repeat_app. cbn [repeat]. rewrite <- !app_assoc. reflexivity.
      * rewrite Z2, app_length. cbn [length]. lia.
Qed.

Lemma firstn_app_exact {A} (l r : list A) n : length l = n -> firstn n (l ++ r) = l.
Proof. intros <-. rewrite firstn_app, Nat.sub_diag, firstn_all. cbn. apply app_nil_r. Qed.

(* (a) every 16-octet CFList of type 1 decodes - to at most six masks, whatever the three RFU octets
   12..14 hold (since /repo e2c2b92 they are not read) - and re-encodes: the twelve mask octets come
   back, the RFU octets as zero *)
Lemma cflist_masks_decode c : length c = 16%nat -> bytes c -> nth 15 c 0 = 1 ->
  exists l ms, cflist_unmarshal c = Ok l /\ cf_payload l = CFPMasks ms /\ (length ms <= 6)%nat /\
               cflist_marshal l = Ok (firstn 12 c ++ [0; 0; 0; 1]).
Proof.
  intros Hl Hb Hty.
  do 16 (destruct c as [|? c]; [discriminate Hl|]). destruct c; [|discriminate Hl].
  cbn [nth] in Hty. subst.
  unfold cflist_unmarshal. cbn [length Nat.eqb negb nth]. replace (1 =? 1) with true by reflexivity.
  cbn [firstn].
  set (ps := [(n, n0); (n1, n2); (n3, n4); (n5, n6); (n7, n8); (n9, n10)]).
  change [n; n0; n1; n2; n3; n4; n5; n6; n7; n8; n9; n10] with (flat ps).
  assert (Bps : Forall (fun p => fst p < 256 /\ snd p < 256) ps).
  { repeat (apply bytes_inv in Hb; let H := fresh in destruct Hb as [H Hb]).
    unfold ps. repeat constructor; cbn [fst snd]; assumption. }
  destruct (loop_spec ps 8 [] [] ltac:(cbn; lia) Bps ltac:(constructor)) as (z & Z1 & Z2).
  change (encs [] ++ repeat 0 (2 * length (@nil (list bool))) ++ flat ps) with (flat ps) in Z1.
  change (length (@nil (list bool)) + length (@nil (list bool)) + length ps)%nat with 6%nat in Z2.
  set (ms := masks_loop (flat ps) 8 [] []) in *.
  eexists _, ms. split; [reflexivity|]. split; [reflexivity|]. split; [lia|].
  unfold cflist_marshal. cbn [cf_payload cf_type cfpayload_marshal].
  replace (6 <? length ms)%nat with false by (symmetry; apply Nat.ltb_ge; lia).
  cbn [bind]. change (concat (map chmask_bytes ms)) with (encs ms).
  assert (E : encs ms ++ repeat 0 16 = flat ps ++ repeat 0 (16 - 2 * z)).
  { rewrite <- Z1, <- app_assoc, <- repeat_app. do 2 f_equal. lia. }
  rewrite E. unfold ps, flat. cbn [map concat app fst snd].
  assert (Hz : (z <= 6)%nat) by lia.
  do 7 (destruct z as [|z]; [reflexivity|]). lia.
Qed.

(* (b) exact round trip when the RFU octets are zero *)
Lemma cflist_masks_rt c : length c = 16%nat -> bytes c -> nth 15 c 0 = 1 ->
  nth 12 c 0 = 0 -> nth 13 c 0 = 0 -> nth 14 c 0 = 0 ->
  exists l, cflist_unmarshal c = Ok l /\ cflist_marshal l = Ok c.
Proof.
  intros Hl Hb Hty H12 H13 H14.
  destruct (cflist_masks_decode c Hl Hb Hty) as (l & ms & U & _ & _ & M).
  exists l. split; [exact U|]. rewrite M. f_equal.
  do 16 (destruct c as [|? c]; [discriminate Hl|]). destruct c; [|discriminate Hl].
  cbn [nth] in Hty, H12, H13, H14. subst. reflexivity.
Qed.

(* a CFList as a conformant network server sends it: 16 octets; for the channel-mask type the three
   octets after the six masks are RFU = 0 (the decoder ignores them, the encoder writes zeros, so they
   have to be zero for the join-accept to carry the requested octets unchanged) *)
Definition cflist_wellformed (c : list N) : Prop :=
  length c = 16%nat /\ bytes c /\ (nth 15 c 0 = 1 -> nth 12 c 0 = 0 /\ nth 13 c 0 = 0 /\ nth 14 c 0 = 0).

Theorem cflist_wellformed_canonical c : cflist_wellformed c -> cf_canonical c.
Proof.
  intros (L & B & H). right. split; [exact L|].
  destruct (N.eq_dec (nth 15 c 0) 1) as [E|E].
  - destruct (H E) as (H12 & H13 & H14). now apply cflist_masks_rt.
  - now apply cflist_channels_rt.
Qed.
