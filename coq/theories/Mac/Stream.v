(* Registry of payload sizes, MACCommand (un)marshalling and the stream decoder
   decodeDataPayloadToMACCommands (mac_commands.go:1300-1335). *)
From Coq Require Import List NArith ZArith Bool.
From LW Require Import Base.Outcome Base.Bytes Mac.Commands.
Import ListNotations.
Open Scope N_scope.

Definition registry := list ((bool * N) * (Z * kind)).

Fixpoint reg_lookup (r : registry) (up : bool) (cid : N) : option (Z * kind) :=
  match r with
  | [] => None
  | ((u, c), v) :: r' => if Bool.eqb u up && (c =? cid) then Some v else reg_lookup r' up cid
  end.

(* delete(macPayloadRegistry[up], cid): every entry of the association list with that key goes *)
Fixpoint reg_remove (r : registry) (up : bool) (cid : N) : registry :=
  match r with
  | [] => []
  | ((u, c), v) :: r' =>
    if Bool.eqb u up && (c =? cid) then reg_remove r' up cid else ((u, c), v) :: reg_remove r' up cid
  end.

(* RegisterProprietaryMACCommand (after the fixes: negative sizes are refused; size 0
   removes an earlier registration of the CID instead of leaving its size in effect).
   A map assignment is a new first entry of the association list. *)
Definition register (r : registry) (up : bool) (cid : N) (size : Z) : registry * bool :=
  if negb ((128 <=? cid) && (cid <=? 255)) then (r, false)
  else if (size <? 0)%Z then (r, false)
  else if (size =? 0)%Z then (reg_remove r up cid, true)
  else (((up, cid), (size, KProprietary)) :: r, true).

Definition register_all (r : registry) (h : list (bool * N * Z)) : registry :=
  fold_left (fun r x => let '(up, cid, size) := x in fst (register r up cid size)) h r.

Inductive item :=
| IMac (cid : N) (pl : option macpl)
| IData (bytes : list N).

Definition item_eqb (a b : item) : bool :=
  match a, b with
  | IMac c1 p1, IMac c2 p2 => (c1 =? c2) && option_eqb macpl_eqb p1 p2
  | IData b1, IData b2 => bytes_eqb b1 b2
  | _, _ => false
  end.

(* MACCommand.MarshalBinary *)
Definition cmd_marshal (cid : N) (pl : option macpl) : outcome (list N) :=
  match pl with
  | None => Ok [cid]
  | Some p => do b <- enc p; Ok (cid :: b)
  end.

(* the zero value a fresh payload object holds when its decoder refuses the length *)
Definition zero_value (k : kind) : macpl :=
  match k with
  | KLinkCheckAns => PLinkCheckAns 0 0
  | KLinkADRReq => PLinkADRReq 0 0 (repeat false 16) 0 0
  | KLinkADRAns => PLinkADRAns false false false
  | KDutyCycleReq => PDutyCycleReq 0
  | KRXParamSetupReq => PRXParamSetupReq 0 false 0 0
  | KRXParamSetupAns => PRXParamSetupAns false false false
  | KDevStatusAns => PDevStatusAns 0 0
  | KNewChannelReq => PNewChannelReq 0 0 0 0
  | KNewChannelAns => PNewChannelAns false false
  | KRXTimingSetupReq => PRXTimingSetupReq 0
  | KTXParamSetupReq => PTXParamSetupReq 0 0 0
  | KDLChannelReq => PDLChannelReq 0 0
  | KDLChannelAns => PDLChannelAns false false
  | KPingSlotInfoReq => PPingSlotInfoReq 0
  | KBeaconFreqReq => PBeaconFreqReq 0
  | KBeaconFreqAns => PBeaconFreqAns false
  | KPingSlotChannelReq => PPingSlotChannelReq 0 0
  | KPingSlotChannelAns => PPingSlotChannelAns false false
  | KDeviceTimeAns => PDeviceTimeAns 0
  | KResetInd => PResetInd 0 | KResetConf => PResetConf 0
  | KRekeyInd => PRekeyInd 0 | KRekeyConf => PRekeyConf 0
  | KADRParamSetupReq => PADRParamSetupReq 0 0
  | KForceRejoinReq => PForceRejoinReq 0 0 0 0
  | KRejoinParamSetupReq => PRejoinParamSetupReq 0 0
  | KRejoinParamSetupAns => PRejoinParamSetupAns false
  | KDeviceModeInd => PDeviceModeInd 0 | KDeviceModeConf => PDeviceModeConf 0
  | KProprietary => PProprietary []
  end.

(* MACCommand.UnmarshalBinary: the (possibly partially filled) command and
   whether an error was returned *)
Definition cmd_unmarshal (r : registry) (up : bool) (data : list N) : item * bool :=
  match data with
  | [] => (IMac 0 None, true)
  | c :: rest =>
    match rest with
    | [] => (IMac c None, false)
    | _ =>
      match reg_lookup r up c with
      | None => (IMac c None, true)
      | Some (_, k) =>
        match dec k rest with
        | Ok v => (IMac c (Some v), false)
        | _ => (IMac c (Some (zero_value k)), true)
        end
      end
    end
  end.

Fixpoint decode_loop (fuel : nat) (r : registry) (up : bool) (bytes : list N) (i : Z)
         (acc : list item) : outcome (list item) :=
  match fuel with
  | O => OutOfFuel
  | S fuel' =>
    let len := Z.of_nat (length bytes) in
    if (len <=? i)%Z then Ok (rev acc) else
    do c <- go_index bytes i;
    let plLen := match reg_lookup r up c with Some (s, _) => s | None => 0%Z end in
    if (len - i <? plLen + 1)%Z then Err else
    do sl <- go_slice bytes i (i + 1 + plLen);
    (* an unmarshal error is logged and the command appended all the same *)
    let it := fst (cmd_unmarshal r up sl) in
    decode_loop fuel' r up bytes (i + plLen + 1) (it :: acc)
  end.

Definition decode_stream (r : registry) (up : bool) (bytes : list N) : outcome (list item) :=
  decode_loop (S (length bytes)) r up bytes 0 [].

(* marshalling a list of commands: concatenation *)
Fixpoint encode_cmds (cmds : list item) : outcome (list N) :=
  match cmds with
  | [] => Ok []
  | IMac c p :: rest => do b <- cmd_marshal c p; do bs <- encode_cmds rest; Ok (b ++ bs)
  | IData d :: rest => do bs <- encode_cmds rest; Ok (d ++ bs)
  end.
