(* Correspondence cases for C17: Frequency / Percentage JSON conversions
   (primitive floats), HEXBytes text form, key envelopes (AES-128 KEKs). *)
From Coq Require Import List NArith ZArith Floats Bool.
From LW Require Import Base.Outcome Base.Bytes Base.Hex Crypto.KeyWrap
  Backend.F64 Backend.HexBytes Backend.KeyEnvelope.
Import ListNotations.
Open Scope Z_scope.

(* observed floats are given exactly as m * 2^e with |m| < 2^53 *)
Inductive case :=
(* Frequency f Hz: float printed by MarshalJSON (m, e), value decoded back from that text *)
| CFreq (f : Z) (m e : Z) (o_back : Z)
| CPct (p : Z) (m e : Z) (o_back : Z)
(* UnmarshalJSON of an arbitrary number (as parsed by strconv): observed value *)
| CFreqText (m e : Z) (o : Z)
| CPctText (m e : Z) (o : Z)
(* HEXBytes: value -> MarshalText -> UnmarshalText, also with "0x" in front *)
| CHexRT (bs : list N) (o_text : list N) (o_back o_back0x : outcome (list N))
(* compact form used for long values: both UnmarshalText results were observed to be Ok bs *)
| CHexRTSame (bs : list N) (o_text : list N)
| CHexText (text : list N) (o : outcome (list N))
(* NewKeyEnvelope(label, kek, key): observed (KEKLabel, AESKey) and what Unwrap(kek) then returns *)
| CEnvNew (label kek key : list N) (o : outcome (list N * list N)) (o_unwrap : outcome (list N))
(* KeyEnvelope{AESKey}.Unwrap(kek) on arbitrary data *)
| CEnvUnwrap (aeskey kek : list N) (o : outcome (list N)).

Definition oz_eqb (a : option Z) (b : Z) : bool := match a with Some x => x =? b | None => false end.
Definition obeqb := outcome_eqb bytes_eqb.
Definition opair_eqb (a b : outcome (list N * list N)) : bool :=
  outcome_eqb (fun x y => bytes_eqb (fst x) (fst y) && bytes_eqb (snd x) (snd y)) a b.

Definition in_u32 (z : Z) : bool := (0 <=? z) && (z <? 4294967296).

Definition check (c : case) : N :=
  match c with
  | CFreq f m e o_back =>
    code (PrimFloat.eqb (freq_marshal f) (float_of_me m e) && oz_eqb (freq_unmarshal_code (float_of_me m e)) o_back)
         (negb (in_u32 f) || (o_back =? f))
  | CPct p m e o_back =>
    code (PrimFloat.eqb (pct_marshal p) (float_of_me m e) && oz_eqb (pct_unmarshal_code (float_of_me m e)) o_back)
         (negb (in_u32 p || ((-1000 <=? p) && (p <? 0))) || (o_back =? p))
  | CFreqText m e o => code (oz_eqb (freq_unmarshal_code (float_of_me m e)) o) true
  | CPctText m e o => code (oz_eqb (pct_unmarshal_code (float_of_me m e)) o) true
  | CHexRT bs o_text o_back o_back0x =>
    code (bytes_eqb (hexbytes_marshal bs) o_text && obeqb (hexbytes_unmarshal o_text) o_back
          && obeqb (hexbytes_unmarshal (48 :: 120 :: o_text)%N) o_back0x)
         (obeqb o_back (Ok bs) && obeqb o_back0x (Ok bs))
  | CHexRTSame bs o_text =>
    code (bytes_eqb (hexbytes_marshal bs) o_text)
         (Nat.eqb (length o_text) (2 * length bs) && obeqb (hexbytes_unmarshal o_text) (Ok bs)
          && obeqb (hexbytes_unmarshal (48 :: 120 :: o_text)%N) (Ok bs))
  | CHexText text o =>
    code (obeqb (hexbytes_unmarshal text) o)
         (match o with Ok bs => Nat.eqb (length (trim0x text)) (2 * length bs) | _ => true end)
  | CEnvNew label kek key o o_unwrap =>
    code (opair_eqb (new_key_envelope label kek key) o &&
          match o with Ok (_, w) => obeqb (envelope_unwrap w kek) o_unwrap | _ => true end)
         (match o with
          | Ok (l, w) =>
            if is_nil label || is_nil kek
            then is_nil l && bytes_eqb w key                      (* no label: key in clear *)
            else bytes_eqb l label && obeqb o_unwrap (Ok key)      (* wrapped: unwraps to the key *)
                 && (match unwrap kek w with Some p => bytes_eqb p key | None => false end)
          | _ => negb (kek_len_ok kek)
          end)
  | CEnvUnwrap aeskey kek o =>
    code (obeqb (envelope_unwrap aeskey kek) o)
         (if Nat.ltb (length aeskey) 16 then true
          else let '(iv, plain) := unwrap_raw kek aeskey in
               match o with
               | Ok k => bytes_eqb iv default_iv && bytes_eqb k (copy16 plain)
               | Err => negb (bytes_eqb iv default_iv)
               | _ => false
               end)
  end.

Definition run_cases := run_with check.
