(* Model of backend.NewKeyEnvelope / KeyEnvelope.Unwrap (/repo/backend/backend.go:218-264)
   over the RFC 3394 model LW.Crypto.KeyWrap (AES-128 only).

     func NewKeyEnvelope(kekLabel string, kek []byte, key AES128Key) (ptr KeyEnvelope, error) {
         if kekLabel == "" || len(kek) == 0 { return &KeyEnvelope{AESKey: key[:]}, nil }     // key in clear, no label
         block, err := aes.NewCipher(kek)          // error unless len(kek) is 16, 24 or 32
         b, err := keywrap.Wrap(block, key[:])     // 16 bytes: never an error
         return &KeyEnvelope{KEKLabel: kekLabel, AESKey: b}, nil }
     func (k KeyEnvelope) Unwrap(kek []byte) (AES128Key, error) {
         block, err := aes.NewCipher(kek)
         b, err := keywrap.Unwrap(block, k.AESKey[:])   // error iff the recovered IV differs from A6A6A6A6A6A6A6A6
         copy(key[:], b); return key, nil }             // first 16 bytes, zero padded

   keywrap.Unwrap (go-aes-key-wrap) uses n = len/8 - 1 blocks: for len < 8 it panics (make with a
   negative length); for 8 <= len < 16 it compares the first 8 bytes with the IV without any
   decryption and panics when they are equal (arrConcat of no arrays), else returns the error;
   trailing bytes beyond 8*(n+1) are ignored.  Unwrap does not look at KEKLabel.

   The wrap functions are parameters ([_with]) so that the envelope logic is stated once; the
   instance below uses the AES-128 model and is meaningful for 16-byte KEKs only (this is the
   instance the join-server model of C16 uses).  KEKs of every length, i.e. AES-192 and AES-256
   (24/32 bytes) and the key-size error, are modelled in KeyEnvelopeAny.v, which agrees with this
   file on 16-byte KEKs (EnvelopeAnyProofs.envelope_any_128). *)
From Coq Require Import List NArith Bool.
From LW Require Import Base.Outcome Base.Bytes Crypto.KeyWrap.
Import ListNotations.
Open Scope N_scope.

Definition is_nil {A} (l : list A) : bool := match l with [] => true | _ => false end.

(* aes.NewCipher accepts exactly these key lengths *)
Definition kek_len_ok (kek : list N) : bool :=
  let n := length kek in Nat.eqb n 16 || Nat.eqb n 24 || Nat.eqb n 32.

(* copy(key[:], b) into a zeroed [16]byte *)
Definition copy16 (b : list N) : list N := firstn 16 (b ++ repeat 0 16).

(* result: (KEKLabel, AESKey) *)
Definition new_key_envelope_with (wrapf : list N -> list N -> list N)
    (label kek key : list N) : outcome (list N * list N) :=
  if is_nil label || is_nil kek then Ok ([], key)
  else if kek_len_ok kek then Ok (label, wrapf kek key)
  else Err.

Definition envelope_unwrap_with (unwrap_rawf : list N -> list N -> list N * list N)
    (aeskey kek : list N) : outcome (list N) :=
  if negb (kek_len_ok kek) then Err
  else if Nat.ltb (length aeskey) 8 then Panic
  else if Nat.ltb (length aeskey) 16 then
    (if bytes_eqb (firstn 8 aeskey) default_iv then Panic else Err)
  else
    let '(iv, plain) := unwrap_rawf kek aeskey in
    if bytes_eqb iv default_iv then Ok (copy16 plain) else Err.

(* AES-128 instance (16-byte KEK) *)
Definition new_key_envelope := new_key_envelope_with wrap.
Definition envelope_unwrap := envelope_unwrap_with unwrap_raw.
