(* C06 - wire format of MAC commands (frames: see below) against the
   table-driven specification Mac/Spec.v.  Statement file. *)
From Coq Require Import List NArith ZArith Bool.
From LW Require Import Base.Outcome Base.Bytes Mac.Commands Mac.Spec Mac.Stream Mac.RegistryProofs.
From LWGen Require Import RegistryGen.
Import ListNotations.
Open Scope N_scope.

(* every (direction, CID) in the live registry is the command the specification
   assigns to it, and its registered size is the size of the specified layout *)
Theorem C06_registry_complete : forall up cid sz k,
  reg_lookup builtin_registry up cid = Some (sz, k) ->
  spec_reg_lookup spec_registry up cid = Some k /\
  sz = Z.of_nat (byte_size (layout_of k)) /\ sz = kind_size k.
Proof. exact registry_complete. Qed.
Print Assumptions C06_registry_complete.
