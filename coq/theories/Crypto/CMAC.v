(* AES-CMAC (RFC 4493) over the Gallina AES-128.  Model file: definitions and
   the RFC's test vectors; length and byte-range lemmas are in CMACProofs.v.

   [cmac key msg] is the full 16-byte tag (LoRaWAN MICs are its first four
   bytes).  Total: the key goes through [AES.expand_key] (normalised to 16
   elements), the message may have any length, including 0. *)
From Coq Require Import List NArith Bool Arith.
From LW Require Import Base.Bytes Crypto.AES.
Import ListNotations.
Open Scope N_scope.

(* doubling in GF(2^128): shift the 128-bit big-endian value left by one bit,
   drop the carry, and xor 0x87 into the low byte when the top bit was set *)
Definition dbl (l : list N) : list N :=
  let v := be_val l in
  be_bytes 16 (N.lxor (2 * v) (if 2 ^ 127 <=? v then 0x87 else 0)).

Definition zero16 : list N := repeat 0 16.

(* subkeys (K1, K2) from the expanded key *)
Definition subkeys_rk (rks : list (list N)) : list N * list N :=
  let l := aes_encrypt_rk rks zero16 in
  let k1 := dbl l in (k1, dbl k1).

(* 10* padding of an incomplete last block *)
Definition pad16 (m : list N) : list N := firstn 16 (m ++ 0x80 :: repeat 0 15).

(* CBC-MAC over the blocks; the last block (the only one when the message is
   empty) is xored with K1 when complete and padded and xored with K2 otherwise.
   [fuel] bounds the number of blocks. *)
Fixpoint cmac_loop (fuel : nat) (rks : list (list N)) (k1 k2 x m : list N) : list N :=
  match fuel with
  | O => x
  | S fuel' =>
    if (length m <=? 16)%nat then
      let last := if (length m =? 16)%nat then xor_bytes m k1 else xor_bytes (pad16 m) k2 in
      aes_encrypt_rk rks (xor_bytes x last)
    else
      cmac_loop fuel' rks k1 k2 (aes_encrypt_rk rks (xor_bytes x (firstn 16 m))) (skipn 16 m)
  end.

Definition cmac_rk (rks : list (list N)) (msg : list N) : list N :=
  let '(k1, k2) := subkeys_rk rks in
  cmac_loop (S (length msg / 16)%nat) rks k1 k2 zero16 msg.

Definition cmac (key msg : list N) : list N := cmac_rk (expand_key key) msg.

(* ---- RFC 4493 section 4 test vectors ---- *)
Definition rfc4493_key : list N :=
  [0x2b; 0x7e; 0x15; 0x16; 0x28; 0xae; 0xd2; 0xa6; 0xab; 0xf7; 0x15; 0x88; 0x09; 0xcf; 0x4f; 0x3c].
Definition rfc4493_msg64 : list N :=
  [0x6b; 0xc1; 0xbe; 0xe2; 0x2e; 0x40; 0x9f; 0x96; 0xe9; 0x3d; 0x7e; 0x11; 0x73; 0x93; 0x17; 0x2a;
   0xae; 0x2d; 0x8a; 0x57; 0x1e; 0x03; 0xac; 0x9c; 0x9e; 0xb7; 0x6f; 0xac; 0x45; 0xaf; 0x8e; 0x51;
   0x30; 0xc8; 0x1c; 0x46; 0xa3; 0x5c; 0xe4; 0x11; 0xe5; 0xfb; 0xc1; 0x19; 0x1a; 0x0a; 0x52; 0xef;
   0xf6; 0x9f; 0x24; 0x45; 0xdf; 0x4f; 0x9b; 0x17; 0xad; 0x2b; 0x41; 0x7b; 0xe6; 0x6c; 0x37; 0x10].

Example rfc4493_subkeys :
  subkeys_rk (expand_key rfc4493_key) =
  ([0xfb; 0xee; 0xd6; 0x18; 0x35; 0x71; 0x33; 0x66; 0x7c; 0x85; 0xe0; 0x8f; 0x72; 0x36; 0xa8; 0xde],
   [0xf7; 0xdd; 0xac; 0x30; 0x6a; 0xe2; 0x66; 0xcc; 0xf9; 0x0b; 0xc1; 0x1e; 0xe4; 0x6d; 0x51; 0x3b]).
Proof. vm_compute. reflexivity. Qed.

Example rfc4493_ex1 :
  cmac rfc4493_key [] =
  [0xbb; 0x1d; 0x69; 0x29; 0xe9; 0x59; 0x37; 0x28; 0x7f; 0xa3; 0x7d; 0x12; 0x9b; 0x75; 0x67; 0x46].
Proof. vm_compute. reflexivity. Qed.

Example rfc4493_ex2 :
  cmac rfc4493_key (firstn 16 rfc4493_msg64) =
  [0x07; 0x0a; 0x16; 0xb4; 0x6b; 0x4d; 0x41; 0x44; 0xf7; 0x9b; 0xdd; 0x9d; 0xd0; 0x4a; 0x28; 0x7c].
Proof. vm_compute. reflexivity. Qed.

Example rfc4493_ex3 :
  cmac rfc4493_key (firstn 40 rfc4493_msg64) =
  [0xdf; 0xa6; 0x67; 0x47; 0xde; 0x9a; 0xe6; 0x30; 0x30; 0xca; 0x32; 0x61; 0x14; 0x97; 0xc8; 0x27].
Proof. vm_compute. reflexivity. Qed.

Example rfc4493_ex4 :
  cmac rfc4493_key rfc4493_msg64 =
  [0x51; 0xf0; 0xbe; 0xbf; 0x7e; 0x3b; 0x9d; 0x92; 0xfc; 0x49; 0x74; 0x17; 0x79; 0x36; 0x3c; 0xfe].
Proof. vm_compute. reflexivity. Qed.
