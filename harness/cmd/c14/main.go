// Correspondence harness for C14 (LinkADRReq channel-mask planning).
package main

import (
	"fmt"
	"os"
	"sort"

	"github.com/brocaar/lorawan"
	"github.com/brocaar/lorawan/band"
	"verifharness/chanobs"
	"verifharness/internal/cases"
	"verifharness/internal/cq"
)

func payloadCoq(p lorawan.LinkADRReqPayload) string {
	var m uint64
	for i, b := range p.ChMask {
		if b {
			m |= 1 << uint(i)
		}
	}
	return fmt.Sprintf("(P %d %d %d %d %d)", p.DataRate, p.TXPower, m, p.Redundancy.ChMaskCntl, p.Redundancy.NbRep)
}

func payloadsCoq(pls []lorawan.LinkADRReqPayload) string {
	s := make([]string, len(pls))
	for i, p := range pls {
		s[i] = payloadCoq(p)
	}
	return cq.List(s)
}

func payloadsJSON(pls []lorawan.LinkADRReqPayload) []string {
	s := make([]string, len(pls))
	for i, p := range pls {
		s[i] = fmt.Sprintf("%+v", p)
	}
	return s
}

type gen struct {
	s        *cases.Set
	r        *cq.RNG
	seenEnc  map[string]bool
	nPlan    int
	nNonEmpt int
}

// scenario runs plan + apply on the implementation and records the cases.
func (g *gen) scenario(tag string, cfg chanobs.Config, ops []chanobs.Op, dev []int) {
	g.scenarioOn(tag, cfg, ops, dev, nil)
}

// scenarioOn: with live == nil the planner runs on a fresh instance brought to
// the state by ops. With a live instance (a long-lived object that went through
// the same calls ops AND through earlier planner calls) the planner and the
// apply function run on that object, while the channel count and the enabled /
// custom index lists the property is evaluated with are read from a control
// object that reaches the same state without any earlier query; the plan of the
// control object is compared with the live one here.
func (g *gen) scenarioOn(tag string, cfg chanobs.Config, ops []chanobs.Op, dev []int, live band.Band) {
	ctl, _ := chanobs.Replay(cfg, ops)
	b := ctl
	if live != nil {
		b = live
	}
	n := len(ctl.GetUplinkChannelIndices())
	en := ctl.GetEnabledUplinkChannelIndices()
	cus := ctl.GetCustomUplinkChannelIndices()
	var pls []lorawan.LinkADRReqPayload
	kp := chanobs.Call(func() error { pls = b.GetLinkADRReqPayloadsForEnabledUplinkChannelIndices(dev); return nil })
	var res []int
	ka := chanobs.KPanic
	if kp == chanobs.KOk {
		ka = chanobs.Call(func() error {
			var err error
			res, err = b.GetEnabledUplinkChannelIndicesForLinkADRReqPayloads(dev, pls)
			return err
		})
	}
	id := chanobs.Hash(chanobs.OpsCoq(ops), dev)
	rp := map[string]interface{}{"api": "GetLinkADRReqPayloadsForEnabledUplinkChannelIndices + GetEnabledUplinkChannelIndicesForLinkADRReqPayloads",
		"band": cfg.String(), "history": chanobs.OpsStrings(ops), "device_channels": dev, "channels": n, "enabled": en, "custom": cus,
		"observed_payloads": payloadsJSON(pls), "observed_apply": fmt.Sprintf("%s %v", chanobs.KindName(ka), res), "scenario": tag}
	if live != nil {
		rp["object"] = "long-lived instance: the same calls, with a planner call after each prefix of them (earlier scenarios of this session); channels/enabled/custom read from a control instance without earlier queries"
		var cpls []lorawan.LinkADRReqPayload
		kc := chanobs.Call(func() error { cpls = ctl.GetLinkADRReqPayloadsForEnabledUplinkChannelIndices(dev); return nil })
		if kc != kp || payloadsCoq(cpls) != payloadsCoq(pls) {
			rp2 := map[string]interface{}{}
			for k, v := range rp {
				rp2[k] = v
			}
			rp2["control_payloads"] = payloadsJSON(cpls)
			g.s.Fail(cases.GoFail{Key: fmt.Sprintf("plan-differs-from-control:%s:n=%d:%s:%s", cfg.String(), n, tag, id),
				What: "the planner answers differently on a long-lived instance (queried before) than on a control instance brought to the same state by the same calls", Replay: rp2})
		}
	}
	g.s.Add(cases.Case{
		Term: fmt.Sprintf("CPlan %d%%nat %s %s %s %s %s %s %s", cfg.Index, chanobs.OpsCoq(ops), cq.Ints(dev), cq.Z(int64(n)),
			cq.Ints(en), cq.Ints(cus), chanobs.Out(kp, payloadsCoq(pls)), chanobs.Out(ka, cq.Ints(res))),
		Key:  fmt.Sprintf("plan:%s:n=%d:%s:%s", cfg.String(), n, tag, id),
		Kind: "plan-" + tag, Nontrivial: len(pls) > 0, Replay: rp})
	g.nPlan++
	if len(pls) > 0 {
		g.nNonEmpt++
	}
	// encoders (one case per distinct payload list and premise)
	if kp == chanobs.KOk && len(pls) > 0 {
		encKey := fmt.Sprint(n, inRange(dev, n), payloadsCoq(pls))
		if !g.seenEnc[encKey] {
			g.seenEnc[encKey] = true
			var bytes, back []string
			for _, p := range pls {
				bs, err := p.MarshalBinary()
				if err != nil {
					bytes = append(bytes, cq.Err)
					back = append(back, cq.Err)
					continue
				}
				bytes = append(bytes, cq.Ok(cq.Bytes(bs)))
				var q lorawan.LinkADRReqPayload
				if err := q.UnmarshalBinary(bs); err != nil {
					back = append(back, cq.Err)
				} else {
					back = append(back, cq.Ok(payloadCoq(q)))
				}
			}
			g.s.Add(cases.Case{
				Term: fmt.Sprintf("CEnc %s %s %s %s %s", cq.Z(int64(n)), cq.Ints(dev), payloadsCoq(pls), cq.List(bytes), cq.List(back)),
				Key:  fmt.Sprintf("enc:%s:n=%d:%s:%s", cfg.String(), n, tag, id),
				Kind: "encode-" + tag, Nontrivial: true, Replay: rp})
		}
	}
}

// session: ONE band instance lives through the whole sequence
// plan - call - plan - call - ...; every planner call is a CPlan case whose
// history is the prefix of calls made so far, i.e. it is compared with the
// (pure) model state at that position. script fixes the first calls / device
// lists (corpus); the rest is random: AddChannel-heavy on bands that accept
// extra channels, so that plan - AddChannel - plan with no Disable/Enable in
// between occurs in every such session.
func (g *gen) session(tag string, cfg chanobs.Config, steps int, script []chanobs.Op, devs [][]int) {
	r := g.r
	live := cfg.New()
	extra := chanobs.SupportsExtra(cfg)
	var ops []chanobs.Op
	for i := 0; i <= steps; i++ {
		ctl, _ := chanobs.Replay(cfg, ops)
		n := len(ctl.GetUplinkChannelIndices())
		var dev []int
		kind := "scripted"
		if i < len(devs) {
			dev = devs[i]
		} else {
			en := ctl.GetEnabledUplinkChannelIndices()
			switch r.Intn(6) {
			case 0, 1: // the device already matches: nothing may be planned
				kind, dev = "dev-eq-enabled", append([]int{}, en...)
			case 2:
				kind, dev = "dev-all", seq(0, n)
			case 3: // matches except for the newest channel
				kind = "dev-enabled-but-newest"
				for _, c := range en {
					if c != n-1 {
						dev = append(dev, c)
					}
				}
			case 4:
				kind, dev = "dev-random", subset(r, seq(0, n), 1, 2)
			default:
				kind, dev = "dev-unsorted", shuffleDup(r, subset(r, seq(0, n), 2, 3))
			}
		}
		g.scenarioOn(fmt.Sprintf("ses-%s-step%d-%s", tag, i, kind), cfg, ops, dev, live)
		if i == steps {
			break
		}
		var o chanobs.Op
		switch {
		case i < len(script):
			o = script[i]
		case extra && r.Intn(2) == 0:
			ups := chanobs.Uplinks(ctl)
			f := ups[0].Freq + uint32(100000*(1+r.Intn(60)))
			if r.Intn(8) == 0 {
				f = 0 // appended disabled
			}
			o = chanobs.Add(f, 0, 5)
		default:
			o = chanobs.RandOp(r, cfg, ctl, n, extra)
		}
		o.Apply(live)
		ops = append(ops, o)
	}
}

func inRange(dev []int, n int) bool {
	for _, c := range dev {
		if c < 0 || c >= n {
			return false
		}
	}
	return true
}

// applyCase: the apply function on an arbitrary payload list.
func (g *gen) applyCase(tag string, cfg chanobs.Config, ops []chanobs.Op, dev []int, pls []lorawan.LinkADRReqPayload) {
	b, _ := chanobs.Replay(cfg, ops)
	var res []int
	ka := chanobs.Call(func() error {
		var err error
		res, err = b.GetEnabledUplinkChannelIndicesForLinkADRReqPayloads(dev, pls)
		return err
	})
	g.s.Add(cases.Case{
		Term: fmt.Sprintf("CApply %d%%nat %s %s %s %s", cfg.Index, chanobs.OpsCoq(ops), cq.Ints(dev), payloadsCoq(pls), chanobs.Out(ka, cq.Ints(res))),
		Key:  fmt.Sprintf("apply:%s:%s:%s", cfg.String(), tag, chanobs.Hash(chanobs.OpsCoq(ops), dev, payloadsCoq(pls))),
		Kind: "apply-" + tag, Nontrivial: len(pls) > 0,
		Replay: map[string]interface{}{"api": "GetEnabledUplinkChannelIndicesForLinkADRReqPayloads", "band": cfg.String(), "history": chanobs.OpsStrings(ops),
			"device_channels": dev, "payloads": payloadsJSON(pls), "observed": fmt.Sprintf("%s %v", chanobs.KindName(ka), res)}})
}

func seq(a, b int) []int { // a .. b-1
	var out []int
	for i := a; i < b; i++ {
		out = append(out, i)
	}
	return out
}

func subset(r *cq.RNG, xs []int, num, den int) []int {
	var out []int
	for _, x := range xs {
		if r.Intn(den) < num {
			out = append(out, x)
		}
	}
	return out
}

func shuffleDup(r *cq.RNG, xs []int) []int {
	out := append([]int{}, xs...)
	for i := len(out) - 1; i > 0; i-- {
		j := r.Intn(i + 1)
		out[i], out[j] = out[j], out[i]
	}
	for k := r.Intn(3); k > 0 && len(out) > 0; k-- {
		out = append(out, out[r.Intn(len(out))])
	}
	return out
}

// devPatterns: device channel lists for a band in the state reached by ops.
func devPatterns(r *cq.RNG, b band.Band) map[string][]int {
	n := len(b.GetUplinkChannelIndices())
	all := seq(0, n)
	en := b.GetEnabledUplinkChannelIndices()
	std := b.GetStandardUplinkChannelIndices()
	cus := b.GetCustomUplinkChannelIndices()
	isCus := map[int]bool{}
	for _, c := range cus {
		isCus[c] = true
	}
	var enStd []int
	for _, c := range en {
		if !isCus[c] {
			enStd = append(enStd, c)
		}
	}
	out := map[string][]int{
		"dev-all":         all,
		"dev-none":        {},
		"dev-eq-enabled":  append([]int{}, en...),
		"dev-standard":    append([]int{}, std...),
		"dev-enabled-std": enStd, // what a freshly activated device that matches would have
		"dev-random":      subset(r, all, 1, 2),
		"dev-sparse":      subset(r, all, 1, 6),
		"dev-unsorted":    shuffleDup(r, subset(r, all, 1, 2)),
	}
	if n > 0 {
		out["dev-single"] = []int{r.Intn(n)}
		// enabled set with one channel flipped
		x := r.Intn(n)
		var fl []int
		found := false
		for _, c := range en {
			if c == x {
				found = true
				continue
			}
			fl = append(fl, c)
		}
		if !found {
			fl = append(fl, x)
		}
		out["dev-enabled-flip1"] = fl
		// enabled-standard plus some of the custom ones, reversed order
		d := append([]int{}, enStd...)
		d = append(d, subset(r, cus, 1, 2)...)
		sort.Sort(sort.Reverse(sort.IntSlice(d)))
		out["dev-std-some-custom-desc"] = d
	}
	return out
}

// sub-band patterns for the 72/96-channel plans: the network keeps only some
// blocks enabled.
func subBandHistories(r *cq.RNG, n int) map[string][]chanobs.Op {
	out := map[string][]chanobs.Op{}
	dis := func(keep func(i int) bool) []chanobs.Op {
		var ops []chanobs.Op
		for i := 0; i < n; i++ {
			if !keep(i) {
				ops = append(ops, chanobs.Disable(i))
			}
		}
		return ops
	}
	k8 := r.Intn(8)
	out["net-subband8"] = dis(func(i int) bool { return (i < 64 && i/8 == k8) || i == 64+k8 })
	k16 := r.Intn(n / 16)
	out["net-block16"] = dis(func(i int) bool { return i/16 == k16 })
	out["net-first64"] = dis(func(i int) bool { return i < 64 })
	out["net-last8"] = dis(func(i int) bool { return i >= 64 && i < 72 })
	out["net-alloff"] = dis(func(i int) bool { return false })
	x := r.Intn(n)
	out["net-single"] = dis(func(i int) bool { return i == x })
	out["net-two-subbands"] = dis(func(i int) bool { return i/8 == k8 || i/8 == (k8+3)%8 })
	out["net-all"] = nil
	return out
}

func randPayloads(r *cq.RNG, n int) []lorawan.LinkADRReqPayload {
	k := r.Intn(5)
	var out []lorawan.LinkADRReqPayload
	for i := 0; i < k; i++ {
		var p lorawan.LinkADRReqPayload
		switch r.Intn(6) {
		case 0:
			p.Redundancy.ChMaskCntl = uint8(r.Intn(256))
		case 1:
			p.Redundancy.ChMaskCntl = uint8(6 + r.Intn(2))
		case 2:
			p.Redundancy.ChMaskCntl = uint8(15 + r.Intn(3))
		default:
			p.Redundancy.ChMaskCntl = uint8(r.Intn(n/16 + 2))
		}
		m := r.U64()
		switch r.Intn(4) {
		case 0:
			m = 0
		case 1:
			m &= r.U64() & r.U64()
		}
		for j := 0; j < 16; j++ {
			p.ChMask[j] = m>>uint(j)&1 == 1
		}
		p.DataRate = uint8(r.Intn(16))
		p.TXPower = uint8(r.Intn(16))
		p.Redundancy.NbRep = uint8(r.Intn(16))
		out = append(out, p)
	}
	return out
}

func main() {
	dir, seed, thorough := cases.Args()
	r := cq.NewRNG(seed)
	s := cases.New("C14", dir, "LW.Corr.C14",
		"14 bands (x repeater x dwell) x histories of AddChannel/Disable/Enable (random incl. invalid indices; sub-band patterns for the 72/96-channel plans) x device channel lists (all, none, equal, standard, random, sparse, single, unsorted with duplicates, one-flip, out-of-range and negative); plan + apply run on the implementation; planned payloads through LinkADRReqPayload.MarshalBinary/UnmarshalBinary; apply on arbitrary payload lists; sessions: one long-lived band object with planner calls interleaved with AddChannel/Disable/Enable (plan - AddChannel - plan - Disable - plan ...), every plan compared with the model after that prefix of calls and with a control object that reaches the same state without earlier queries. device lists holding entries outside the plan (next index, next block, 96..127, 128..255, 256+, 4096, negative, every 16th, 64-bit extremes) on top of the network's own set and of random sets, evaluated with the full property. extra channels identical to a default channel (frequency and data-rate range) of every extra-channel band, planned for devices without the new index. Non-trivial = the plan is non-empty (CPlan), any CEnc, a non-empty payload list (CApply); distinct = distinct printed case")
	g := &gen{s: s, r: r, seenEnc: map[string]bool{}}
	cfgs := chanobs.Configs()
	byName := func(n band.Name) chanobs.Config {
		for _, c := range cfgs {
			if c.Name == n {
				return c
			}
		}
		panic("no config")
	}
	pickCfg := func(n band.Name) chanobs.Config {
		c := byName(n)
		return cfgs[c.Index+r.Intn(4)]
	}

	// ---- witnesses of the known findings (always first) -------------------
	{
		eu := byName(band.EU868)
		var ops []chanobs.Op
		for i := 0; i < 130; i++ {
			ops = append(ops, chanobs.Add(uint32(867100000+i*200000), 0, 5))
		}
		ops = append(ops, chanobs.Disable(130))
		g.scenario("witness-129plus", eu, ops, []int{0, 1, 2, 130})
		ops = nil
		for i := 0; i < 260; i++ {
			ops = append(ops, chanobs.Add(uint32(867100000+i*100000), 0, 5))
		}
		ops = append(ops, chanobs.Disable(258))
		g.scenario("witness-257plus", eu, ops, []int{0, 1, 2, 258})
	}

	rounds := 1
	if thorough {
		rounds = 30
	}

	// ---- sessions: planner calls interleaved with the band mutations on one
	// long-lived object (own random stream: the cases below stay the same) ----
	{
		r0 := r
		g.r = cq.NewRNG(seed ^ 0x5e5510c14)
		// corpus (seeded-defect trial, notes/C14.md): plan, late AddChannel, plan
		g.session("corpus-plan-add-plan", byName(band.EU868), 3,
			[]chanobs.Op{chanobs.Add(867100000, 0, 5), chanobs.Add(867300000, 0, 5), chanobs.Disable(1)},
			[][]int{{0, 1, 2}, {0, 1, 2, 3}, {0, 1, 2, 3, 4}, {0, 1, 2, 3, 4}})
		for round := 0; round < rounds; round++ {
			for _, name := range chanobs.Names {
				cfg := cfgs[byName(name).Index+g.r.Intn(4)]
				per := 2
				if len(cfg.New().GetUplinkChannelIndices()) >= 64 {
					per = 1
				}
				for k := 0; k < per; k++ {
					g.session(fmt.Sprintf("r%d-%d", round, k), cfg, 5+g.r.Intn(4), nil, nil)
				}
			}
		}
		// ---- device lists with entries that are not channels of the plan (stale
		// indices of channels the network no longer has, negative, beyond 255, 4096):
		// the planner must neither emit a payload for their block nor disturb the
		// result on the channels of the plan - ordinary cases, full property ----
		// corpus (audit of the unchanged library, finding C14-4)
		g.scenario("out-corpus-us-100", byName(band.US915), nil, append(seq(0, 72), 100))
		g.scenario("out-corpus-us-120", byName(band.AU915), nil, append(seq(0, 72), 120))
		g.scenario("out-corpus-4096", byName(band.EU868), nil, []int{0, 1, 2, 4096})
		g.scenario("out-corpus-130", byName(band.EU868), nil, []int{0, 1, 2, 130})
		g.scenario("out-corpus-neg40", byName(band.EU868), nil, []int{0, 1, 2, -40})
		g.scenario("out-corpus-7blocks", byName(band.EU868), nil, []int{0, 1, 2, 16, 32, 48, 64, 80, 96, 112})
		for round := 0; round < rounds; round++ {
			for _, name := range chanobs.Names {
				cfg := cfgs[byName(name).Index+g.r.Intn(4)]
				for _, ops := range [][]chanobs.Op{nil, chanobs.RandHistory(g.r, cfg, 12)} {
					b, _ := chanobs.Replay(cfg, ops)
					n := len(b.GetUplinkChannelIndices())
					en := b.GetEnabledUplinkChannelIndices()
					base := map[string][]int{"net": en, "rnd": subset(g.r, seq(0, n), 1, 2)}
					for _, bk := range []string{"net", "rnd"} {
						outs := map[string][]int{
							"next":      {n},
							"block-up":  {(n/16 + 1) * 16, (n/16+1)*16 + 15},
							"cntl6":     {96 + g.r.Intn(16)},
							"cntl7":     {112 + g.r.Intn(16)},
							"cntl8plus": {128 + g.r.Intn(128)},
							"wrap256":   {256 + g.r.Intn(n+1), 4096, 4096 + 16*7},
							"negative":  {-1 - g.r.Intn(16), -40, -4096},
							"every16":   {16, 32, 48, 64, 80, 96, 112, 128},
							"huge":      {chanobs.WeirdInts[g.r.Intn(len(chanobs.WeirdInts))]},
						}
						ok := make([]string, 0, len(outs))
						for k := range outs {
							ok = append(ok, k)
						}
						sort.Strings(ok)
						for _, k := range ok {
							if bk == "rnd" && g.r.Intn(3) != 0 {
								continue
							}
							var extra []int
							for _, c := range outs[k] {
								if c < 0 || c >= n {
									extra = append(extra, c)
								}
							}
							d := append(append([]int{}, base[bk]...), extra...)
							if g.r.Intn(3) == 0 {
								d = shuffleDup(g.r, d)
							}
							g.scenario("out-"+bk+"-"+k, cfg, ops, d)
						}
					}
				}
			}
		}
		// ---- an extra channel identical to a default channel of the band (same frequency
		// and data-rate range - a common configuration): it is appended at a new index and
		// is custom like every appended channel, so a device that does not have the new
		// index must not get it switched on and nothing is planned for a matching device ----
		for _, name := range chanobs.Names {
			cfg := cfgs[byName(name).Index+g.r.Intn(4)]
			if !chanobs.SupportsExtra(cfg) {
				continue
			}
			std := chanobs.Uplinks(cfg.New())
			var all []chanobs.Op
			for i, c := range std {
				ops := []chanobs.Op{chanobs.Add(c.Freq, c.MinDR, c.MaxDR)}
				all = append(all, ops[0])
				g.scenario(fmt.Sprintf("dup-default%d-dev-standard", i), cfg, ops, seq(0, len(std)))
				g.scenario(fmt.Sprintf("dup-default%d-dev-all", i), cfg, ops, seq(0, len(std)+1))
				g.scenario(fmt.Sprintf("dup-default%d-dev-none", i), cfg, ops, nil)
			}
			all = append(all, chanobs.Add(std[0].Freq, std[0].MinDR, std[0].MaxDR), chanobs.Disable(0))
			g.scenario("dup-defaults-dev-standard", cfg, all, seq(0, len(std)))
			g.scenario("dup-defaults-dev-random", cfg, all, subset(g.r, seq(0, 2*len(std)+1), 1, 2))
			g.session("dup-defaults", cfg, len(std)+1, all[:len(std)+1], nil)
		}
		g.r = r0
	}

	for round := 0; round < rounds; round++ {
		for _, name := range chanobs.Names {
			cfg := pickCfg(name)
			fresh := cfg.New()
			n0 := len(fresh.GetUplinkChannelIndices())
			// fresh instance and random histories x device patterns
			hists := map[string][]chanobs.Op{"fresh": nil}
			nh := 3
			for i := 0; i < nh; i++ {
				hists[fmt.Sprintf("hist%d", i)] = chanobs.RandHistory(r, cfg, 8+12*i)
			}
			if n0 >= 64 {
				for k, v := range subBandHistories(r, n0) {
					hists[k] = v
				}
			}
			hk := make([]string, 0, len(hists))
			for k := range hists {
				hk = append(hk, k)
			}
			sort.Strings(hk)
			for _, h := range hk {
				ops := hists[h]
				b, _ := chanobs.Replay(cfg, ops)
				pats := devPatterns(r, b)
				pk := make([]string, 0, len(pats))
				for k := range pats {
					pk = append(pk, k)
				}
				sort.Strings(pk)
				for _, p := range pk {
					// sub-band histories: half of the device patterns each round
					if n0 >= 64 && h != "fresh" && h[:3] == "net" && r.Intn(2) == 0 {
						continue
					}
					g.scenario(h[:3]+"-"+p, cfg, ops, pats[p])
				}
				n := len(b.GetUplinkChannelIndices())
				// sub-band device patterns for the big plans
				if n0 >= 64 {
					k8 := r.Intn(8)
					var d8 []int
					d8 = append(d8, seq(8*k8, 8*k8+8)...)
					d8 = append(d8, 64+k8)
					g.scenario(h[:3]+"-dev-subband8", cfg, ops, d8)
					g.scenario(h[:3]+"-dev-first64", cfg, ops, seq(0, 64))
					g.scenario(h[:3]+"-dev-block16", cfg, ops, seq(16*(k8%4), 16*(k8%4)+16))
				}
				// malformed device lists: out of range, negative, huge
				for i := 0; i < 2; i++ {
					d := subset(r, seq(0, n), 1, 3)
					for k := 1 + r.Intn(3); k > 0; k-- {
						switch r.Intn(3) {
						case 0:
							d = append(d, chanobs.WeirdInts[r.Intn(len(chanobs.WeirdInts))])
						case 1:
							d = append(d, n+r.Intn(40))
						default:
							d = append(d, []int{n, 95, 96, 111, 112, 127, 128, 255}[r.Intn(8)])
						}
					}
					g.scenario(h[:3]+"-dev-malformed", cfg, ops, shuffleDup(r, d))
				}
				// apply on arbitrary payload lists
				for i := 0; i < 2; i++ {
					g.applyCase(h[:3], cfg, ops, chanobs.RandIndexList(r, n), randPayloads(r, n))
				}
			}
		}
	}

	if thorough {
		// all 2^16 device subsets of a 16-channel plan (EU868 + 13 custom channels,
		// a few disabled)
		eu := byName(band.EU868)
		var ops []chanobs.Op
		for i := 0; i < 13; i++ {
			ops = append(ops, chanobs.Add(uint32(867100000+i*200000), 0, 5))
		}
		ops = append(ops, chanobs.Disable(1), chanobs.Disable(5), chanobs.Disable(9), chanobs.Disable(15))
		for m := 0; m < 1<<16; m++ {
			var d []int
			for j := 0; j < 16; j++ {
				if m>>uint(j)&1 == 1 {
					d = append(d, j)
				}
			}
			g.scenario("exh16", eu, ops, d)
		}
		s.Exhaustive("all 2^16 device channel subsets of a 16-channel plan (EU868 + 13 custom channels, 4 disabled)")
	}
	s.Extra["plan_scenarios"] = g.nPlan
	s.Extra["plan_scenarios_with_nonempty_plan"] = g.nNonEmpt
	if err := s.Finish(); err != nil {
		fmt.Fprintln(os.Stderr, err)
		os.Exit(2)
	}
}
