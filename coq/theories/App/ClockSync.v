(* Model of applayer/clocksync/clocksync.go (Application Layer Clock
   Synchronization): the six payloads with MarshalBinary / UnmarshalBinary /
   Size as written (masks and shifts included), the registry, and the
   Command / Commands instance.  No proofs in this file. *)
From Coq Require Import List NArith ZArith Bool.
From LW Require Import Base.Outcome Base.Bytes App.Common.
Import ListNotations.
Open Scope N_scope.

Inductive payload :=
| PackageVersionAns (ident ver : N)                                  (* uint8, uint8 *)
| AppTimeReq (device_time : N) (ans_required : bool) (token_req : N) (* uint32, bool, uint8 *)
| AppTimeAns (time_correction : Z) (token_ans : N)                   (* int32, uint8 *)
| DeviceAppTimePeriodicityReq (period : N)                           (* uint8 *)
| DeviceAppTimePeriodicityAns (not_supported : bool) (time : N)      (* bool, uint32 *)
| ForceDeviceResyncReq (nb_transmissions : N).                       (* uint8 *)

(* Size(): clocksync.go:160,198,248,289,329,... *)
Definition psize (p : payload) : nat :=
  match p with
  | PackageVersionAns _ _ => 2
  | AppTimeReq _ _ _ => 5
  | AppTimeAns _ _ => 5
  | DeviceAppTimePeriodicityReq _ => 1
  | DeviceAppTimePeriodicityAns _ _ => 5
  | ForceDeviceResyncReq _ => 1
  end.

(* MarshalBinary *)
Definition enc (p : payload) : outcome (list N) :=
  match p with
  | PackageVersionAns i v => Ok [i; v]
  | AppTimeReq dt ans tok =>
    (* b[4] = TokenReq & 0x0f; if AnsRequired { b[4] |= 1 << 4 } *)
    let b4 := N.land tok 0x0f in
    let b4 := if ans then N.lor b4 (shl8 1 4) else b4 in
    Ok (le_bytes 4 dt ++ [b4])
  | AppTimeAns tc tok =>
    Ok (le_bytes 4 (u32_of_i32 tc) ++ [N.land tok 0x0f])
  | DeviceAppTimePeriodicityReq per => Ok [N.land per 0x0f]
  | DeviceAppTimePeriodicityAns ns t =>
    Ok ((if ns then 1 else 0) :: le_bytes 4 t)
  | ForceDeviceResyncReq nb => Ok [N.land nb 0x17]
  end.

(* UnmarshalBinary on a fresh value *)
Definition dec_PackageVersionAns (data : list N) : outcome payload :=
  if (length data <? 2)%nat then Err else
  do i <- idx data 0; do v <- idx data 1; Ok (PackageVersionAns i v).

Definition dec_AppTimeReq (data : list N) : outcome payload :=
  if (length data <? 5)%nat then Err else
  do dt <- rd_le data 0 4;
  do b4 <- idx data 4;
  Ok (AppTimeReq dt (nz (N.land b4 (shl8 1 4))) (N.land b4 0x0f)).

Definition dec_AppTimeAns (data : list N) : outcome payload :=
  if (length data <? 5)%nat then Err else
  do u <- rd_le data 0 4;
  do b4 <- idx data 4;
  Ok (AppTimeAns (i32_of_u32 u) (N.land b4 0x0f)).

Definition dec_DeviceAppTimePeriodicityReq (data : list N) : outcome payload :=
  if (length data <? 1)%nat then Err else
  do b <- idx data 0; Ok (DeviceAppTimePeriodicityReq (N.land b 0x0f)).

Definition dec_DeviceAppTimePeriodicityAns (data : list N) : outcome payload :=
  if (length data <? 5)%nat then Err else
  do b <- idx data 0;
  do t <- rd_le data 1 4;
  Ok (DeviceAppTimePeriodicityAns (nz (N.land b 1)) t).

Definition dec_ForceDeviceResyncReq (data : list N) : outcome payload :=
  if (length data <? 1)%nat then Err else
  do b <- idx data 0; Ok (ForceDeviceResyncReq (N.land b 0x17)).

(* commandPayloadRegistry: clocksync.go:35-47 *)
Definition lookup (uplink : bool) (cid : N) : option (list N -> outcome payload) :=
  if uplink then
    match cid with
    | 0 => Some dec_PackageVersionAns
    | 1 => Some dec_AppTimeReq
    | 2 => Some dec_DeviceAppTimePeriodicityAns
    | _ => None
    end
  else
    match cid with
    | 1 => Some dec_AppTimeAns
    | 2 => Some dec_DeviceAppTimePeriodicityReq
    | 3 => Some dec_ForceDeviceResyncReq
    | _ => None
    end.

(* the CID and direction under which the registry creates each payload type *)
Definition cid_of (p : payload) : N :=
  match p with
  | PackageVersionAns _ _ => 0
  | AppTimeReq _ _ _ => 1
  | AppTimeAns _ _ => 1
  | DeviceAppTimePeriodicityReq _ => 2
  | DeviceAppTimePeriodicityAns _ _ => 2
  | ForceDeviceResyncReq _ => 3
  end.
Definition uplink_of (p : payload) : bool :=
  match p with
  | PackageVersionAns _ _ | AppTimeReq _ _ _ | DeviceAppTimePeriodicityAns _ _ => true
  | _ => false
  end.

Definition command := Common.command payload.
Definition cmd_enc : command -> outcome (list N) := Common.cmd_enc enc.
Definition cmd_size : command -> nat := Common.cmd_size psize.
Definition cmd_dec : bool -> list N -> outcome command := Common.cmd_dec lookup.
Definition cmds_enc : list command -> outcome (list N) := Common.cmds_enc enc.
Definition cmds_dec : bool -> list N -> outcome (list command) :=
  Common.cmds_dec psize lookup whole.
