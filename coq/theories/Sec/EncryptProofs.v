(* C03: the model of FRMPayload / FOpts encryption equals the specification
   keystream transform, preserves the length, is an involution, chooses the
   AFCntDown variant exactly for downlinks with FPort > 0, and every entry
   point either applies the transform or returns an error.
   Equational throughout; the only property of xor used is nilpotence
   (LW.Base.Bytes.xor_bytes_invol), the only property of AES its block length. *)
From Coq Require Import List NArith ZArith Bool Lia Arith.
From Coq Require Import ZifyN ZifyNat ZifyBool.
From LW Require Import Base.Outcome Base.Bytes Crypto.AES Crypto.AESInv Mac.Commands Mac.Stream Frame.Model
     Sec.MIC Sec.MICProofs Sec.Encrypt Sec.EncryptSpec.
Import ListNotations.
Open Scope N_scope.
Ltac Zify.zify_post_hook ::= Z.div_mod_to_equations.

(* ---- xor_bytes facts ---- *)
Lemma xor_bytes_app (a b1 b2 : list N) :
  (length b1 <= length a)%nat ->
  xor_bytes a (b1 ++ b2) = xor_bytes (firstn (length b1) a) b1 ++ xor_bytes (skipn (length b1) a) b2.
Proof.
  revert a; induction b1 as [|y b1 IH]; intros a H.
  - reflexivity.
  - destruct a as [|x a]; [simpl in H; lia|].
    cbn [length firstn skipn app xor_bytes]. rewrite IH by (simpl in H; lia). reflexivity.
Qed.

Lemma firstn_xor_padded (a z ks : list N) :
  firstn (length a) (xor_bytes (a ++ z) ks) = xor_bytes a ks.
Proof.
  revert ks; induction a as [|x a IH]; intros ks.
  - reflexivity.
  - destruct ks as [|k ks]; [reflexivity|]. cbn [app xor_bytes length firstn]. now rewrite IH.
Qed.

Lemma xor_bytes_nil_r (a : list N) : xor_bytes a [] = [].
Proof. destruct a; reflexivity. Qed.

(* ---- the keystream the loop produces: n blocks, loop variable starting at i ---- *)
Fixpoint ks_loop (n : nat) (key : list N) (uplink : bool) (da : list N) (fCnt : N) (i : N) : list N :=
  match n with
  | O => []
  | S n' => aes_encrypt key (a_block 0 uplink da fCnt ((i + 1) mod 256)) ++ ks_loop n' key uplink da fCnt (i + 1)
  end.

Lemma ks_loop_length n key up da fc i : length (ks_loop n key up da fc i) = (16 * n)%nat.
Proof.
  revert i; induction n as [|n IH]; intros i; [reflexivity|].
  cbn [ks_loop]. rewrite app_length, aes_encrypt_length, IH. lia.
Qed.

Lemma aes_rk_eq key b : aes_encrypt_rk (expand_key key) b = aes_encrypt key b.
Proof. unfold aes_encrypt. reflexivity. Qed.

Lemma frm_loop_xor n key up da fc i data :
  length data = (16 * n)%nat ->
  frm_loop n (expand_key key) up da fc i data = xor_bytes data (ks_loop n key up da fc i).
Proof.
  revert i data; induction n as [|n IH]; intros i data H.
  - destruct data; [reflexivity|simpl in H; lia].
  - cbn [frm_loop ks_loop].
    rewrite aes_rk_eq.
    rewrite xor_bytes_app by (rewrite aes_encrypt_length; lia).
    rewrite aes_encrypt_length. f_equal.
    apply IH. rewrite skipn_length. lia.
Qed.

Lemma pad_to_16_length (data : list N) : length (pad_to_16 data) = (16 * nblocks (length data))%nat.
Proof.
  unfold pad_to_16, nblocks.
  destruct (Nat.eqb (length data mod 16) 0) eqn:E.
  - apply Nat.eqb_eq in E. lia.
  - apply Nat.eqb_neq in E. rewrite app_length, repeat_length. lia.
Qed.

Lemma pad_to_16_app (data : list N) : exists z, pad_to_16 data = data ++ z.
Proof.
  unfold pad_to_16. destruct (Nat.eqb (length data mod 16) 0).
  - exists []. now rewrite app_nil_r.
  - eexists; reflexivity.
Qed.

(* for every payload (any length): the model is an xor with the loop's keystream *)
Theorem encrypt_frm_as_xor key up da fc data :
  encrypt_frm key up da fc data = Ok (xor_bytes data (ks_loop (nblocks (length data)) key up da fc 0)).
Proof.
  unfold encrypt_frm. f_equal.
  pose proof (pad_to_16_length data) as HL.
  replace (length (pad_to_16 data) / 16)%nat with (nblocks (length data)) by (rewrite HL; lia).
  rewrite frm_loop_xor by exact HL.
  destruct (pad_to_16_app data) as [z ->]. apply firstn_xor_padded.
Qed.

(* ---- the loop's keystream is the specification's S_1 | ... | S_k while the block index fits a byte ---- *)
Lemma a_block_frm_spec up da fc ctr : length da = 4%nat -> a_block 0 up da fc ctr = A_frm up da fc ctr.
Proof.
  intros H. unfold a_block, A_frm, dir_of. rewrite devaddr_wire_rev by exact H. destruct up; reflexivity.
Qed.

Lemma ks_loop_spec n key up da fc (i : nat) :
  length da = 4%nat -> (i + n <= 255)%nat ->
  ks_loop n key up da fc (N.of_nat i)
  = concat (map (fun j => aes_encrypt key (A_frm up da fc (N.of_nat j))) (seq (S i) n)).
Proof.
  intros Hd. revert i; induction n as [|n IH]; intros i H; [reflexivity|].
  cbn [ks_loop seq map concat].
  replace ((N.of_nat i + 1) mod 256) with (N.of_nat (S i)) by lia.
  rewrite a_block_frm_spec by exact Hd. f_equal.
  replace (N.of_nat i + 1) with (N.of_nat (S i)) by lia.
  apply IH. lia.
Qed.

(* C03 frm_eq_spec: all payloads of up to 255 keystream blocks (4080 bytes); beyond that the one-byte
   block counter `byte(i+1)` wraps (block 256 is encrypted with index 0), and the specification
   defines no such block *)
Theorem frm_eq_spec key up da fc data :
  length da = 4%nat -> (nblocks (length data) <= 255)%nat ->
  encrypt_frm key up da fc data = Ok (spec_crypt_frm key up da fc data).
Proof.
  intros Hd Hn. rewrite encrypt_frm_as_xor. unfold spec_crypt_frm, keystream.
  change 0 with (N.of_nat 0). rewrite ks_loop_spec by (auto; lia). reflexivity.
Qed.

Theorem frm_eq_spec_255_bytes key up da fc data :
  length da = 4%nat -> (length data <= 255)%nat ->
  encrypt_frm key up da fc data = Ok (spec_crypt_frm key up da fc data).
Proof. intros Hd Hl. apply frm_eq_spec; auto. unfold nblocks. lia. Qed.

Theorem frm_length key up da fc data out :
  encrypt_frm key up da fc data = Ok out -> length out = length data.
Proof.
  rewrite encrypt_frm_as_xor. intros [= <-].
  rewrite xor_bytes_length, ks_loop_length. unfold nblocks. lia.
Qed.

Theorem frm_never_fails key up da fc data : exists out, encrypt_frm key up da fc data = Ok out.
Proof. rewrite encrypt_frm_as_xor. eauto. Qed.

(* applying the operation again restores the plaintext: every length, no bound *)
Theorem frm_involution key up da fc data out :
  encrypt_frm key up da fc data = Ok out -> encrypt_frm key up da fc out = Ok data.
Proof.
  intros H. pose proof (frm_length _ _ _ _ _ _ H) as HL.
  rewrite encrypt_frm_as_xor in H. injection H as <-.
  rewrite encrypt_frm_as_xor, HL. f_equal.
  apply xor_bytes_invol. rewrite ks_loop_length. unfold nblocks. lia.
Qed.

(* ---- FOpts ---- *)
Lemma a_block_fopts_spec (a up : bool) da fc :
  length da = 4%nat -> a_block (if a then 2 else 1) up da fc 1 = A_fopts a up da fc.
Proof.
  intros H. unfold a_block, A_fopts, dir_of. rewrite devaddr_wire_rev by exact H.
  destruct a, up; reflexivity.
Qed.

Theorem fopts_eq_spec key a up da fc data :
  length da = 4%nat -> (length data <= 15)%nat ->
  encrypt_fopts key a up da fc data = Ok (spec_crypt_fopts key a up da fc data).
Proof.
  intros Hd Hl. unfold encrypt_fopts.
  destruct (15 <? length data)%nat eqn:E; [apply Nat.ltb_lt in E; lia|].
  unfold spec_crypt_fopts. now rewrite a_block_fopts_spec.
Qed.

Theorem fopts_too_long key a up da fc data :
  (15 < length data)%nat -> encrypt_fopts key a up da fc data = Err.
Proof. intros H. unfold encrypt_fopts. apply Nat.ltb_lt in H. now rewrite H. Qed.

Theorem fopts_ok_iff key a up da fc data :
  (exists out, encrypt_fopts key a up da fc data = Ok out) <-> (length data <= 15)%nat.
Proof.
  unfold encrypt_fopts. destruct (15 <? length data)%nat eqn:E.
  - apply Nat.ltb_lt in E. split; [intros [o Ho]; discriminate|lia].
  - apply Nat.ltb_ge in E. split; [auto|eauto].
Qed.

Theorem fopts_length key a up da fc data out :
  encrypt_fopts key a up da fc data = Ok out -> length out = length data.
Proof.
  unfold encrypt_fopts. destruct (15 <? length data)%nat eqn:E; [discriminate|].
  apply Nat.ltb_ge in E. intros [= <-]. rewrite xor_bytes_length, aes_encrypt_length. lia.
Qed.

Theorem fopts_involution key a up da fc data out :
  encrypt_fopts key a up da fc data = Ok out -> encrypt_fopts key a up da fc out = Ok data.
Proof.
  intros H. pose proof (fopts_length _ _ _ _ _ _ _ H) as HL. revert H.
  unfold encrypt_fopts. rewrite HL. destruct (15 <? length data)%nat eqn:E; [discriminate|].
  apply Nat.ltb_ge in E. intros [= <-]. f_equal.
  apply xor_bytes_invol. rewrite aes_encrypt_length. lia.
Qed.

(* ---- which counter: AFCntDown exactly for a downlink that carries an FPort > 0 ---- *)
Theorem afcntdown_choice up port :
  afcntdown up port = true <-> (up = false /\ exists q, port = Some q /\ 0 < q).
Proof.
  unfold afcntdown. destruct up; cbn [negb andb].
  - split; [discriminate|intros [H _]; discriminate].
  - destruct port as [q|].
    + rewrite N.ltb_lt. split; [intros H; split; [reflexivity|eauto]|].
      intros [_ (q' & [= <-] & H)]. exact H.
    + split; [discriminate|intros [_ (q & H & _)]; discriminate].
Qed.

Theorem afcntdown_is_spec up port : afcntdown up port = uses_afcntdwn up port.
Proof.
  unfold afcntdown, uses_afcntdwn. destruct port as [q|]; [|now destruct up].
  f_equal. destruct (N.eqb_spec q 0) as [->|H]; [reflexivity|]. cbn [negb]. apply N.ltb_lt. lia.
Qed.

(* ---- PHYPayload methods: the transform, or an error ---- *)
Definition frame_devaddr_ok (p : phy) : Prop :=
  forall m, pl p = PLMac m -> length (devaddr (hdr m)) = 4%nat.

(* EncryptFOpts: Ok means the FOpts field now holds the transformed bytes (nothing to do when empty) *)
Theorem phy_encrypt_fopts_ok key p q :
  frame_devaddr_ok p -> phy_encrypt_fopts key p = Ok q ->
  exists m, pl p = PLMac m /\
    ((fopts (hdr m) = [] /\ q = p) \/
     exists b, fopts (hdr m) <> [] /\ items_marshal (fopts (hdr m)) = Ok b /\ (length b <= 15)%nat /\
       q = with_fopts p m [IData (spec_crypt_fopts key (uses_afcntdwn (is_uplink (mtype p)) (fport m))
                                                   (is_uplink (mtype p)) (devaddr (hdr m)) (fcnt (hdr m)) b)]).
Proof.
  intros Hd. unfold phy_encrypt_fopts. destruct (pl p) as [| | | |m| |] eqn:Hp; try discriminate.
  specialize (Hd m Hp). intros H. exists m. split; [reflexivity|].
  destruct (fopts (hdr m)) as [|it its] eqn:Hf.
  - left. injection H as <-. auto.
  - right. destruct (items_marshal (it :: its)) as [b| | |] eqn:Hb; cbn [bind] in H; try discriminate.
    destruct (encrypt_fopts key (afcntdown (is_uplink (mtype p)) (fport m)) (is_uplink (mtype p))
                            (devaddr (hdr m)) (fcnt (hdr m)) b) as [e| | |] eqn:He; cbn [bind] in H; try discriminate.
    injection H as <-. exists b.
    assert (Hl : (length b <= 15)%nat) by (eapply fopts_ok_iff; eexists; exact He).
    rewrite fopts_eq_spec in He by auto. injection He as <-.
    rewrite afcntdown_is_spec. repeat split; auto. discriminate.
Qed.

Lemma decode_payloads_ok reg up its cs :
  decode_payloads reg up its = Ok cs -> exists b, its = [IData b] /\ decode_stream reg up b = Ok cs.
Proof.
  unfold decode_payloads. destruct its as [|[c pl|b] [|it its]]; try discriminate. eauto.
Qed.

Lemma with_fopts_view p m o :
  pl (with_fopts p m o) = PLMac (mkMAC (mkFHDR (devaddr (hdr m)) (fc (hdr m)) (fcnt (hdr m)) o) (fport m) (frm m))
  /\ mtype (with_fopts p m o) = mtype p.
Proof. split; reflexivity. Qed.

(* DecryptFOpts: Ok means transformed and then split into commands *)
Theorem phy_decrypt_fopts_ok reg key p q :
  frame_devaddr_ok p -> phy_decrypt_fopts reg key p = Ok q ->
  exists m, pl p = PLMac m /\
    ((fopts (hdr m) = [] /\ q = p) \/
     exists b cs, fopts (hdr m) <> [] /\ items_marshal (fopts (hdr m)) = Ok b /\ (length b <= 15)%nat /\
       decode_stream reg (is_uplink (mtype p))
         (spec_crypt_fopts key (uses_afcntdwn (is_uplink (mtype p)) (fport m))
                           (is_uplink (mtype p)) (devaddr (hdr m)) (fcnt (hdr m)) b) = Ok cs /\
       q = with_fopts p m cs).
Proof.
  intros Hd. unfold phy_decrypt_fopts.
  destruct (phy_encrypt_fopts key p) as [p'| | |] eqn:He; cbn [bind]; try discriminate.
  intros H. destruct (phy_encrypt_fopts_ok _ _ _ Hd He) as (m & Hp & [[Hf ->]|(b & Hne & Hb & Hl & ->)]).
  - exists m. split; [exact Hp|]. left. split; [exact Hf|].
    unfold phy_decode_fopts in H. rewrite Hp, Hf in H. now injection H.
  - exists m. split; [exact Hp|]. right.
    unfold phy_decode_fopts in H. cbn [with_fopts pl hdr fopts mtype] in H.
    match type of H with bind ?d _ = _ => destruct d as [cs| | |] eqn:Hdec end; cbn [bind] in H; try discriminate.
    injection H as <-. apply decode_payloads_ok in Hdec as (b' & [= <-] & Hdec).
    exists b, cs. repeat split; auto.
Qed.

(* EncryptFRMPayload (method) *)
Theorem phy_encrypt_frm_ok key p q :
  frame_devaddr_ok p -> phy_encrypt_frm key p = Ok q ->
  exists m, pl p = PLMac m /\
    ((frm m = [] /\ q = p) \/
     exists b, frm m <> [] /\ frm_marshal (fport m) (frm m) = Ok b /\
       ((nblocks (length b) <= 255)%nat ->
        q = with_frm p m [IData (spec_crypt_frm key (is_uplink (mtype p)) (devaddr (hdr m)) (fcnt (hdr m)) b)])).
Proof.
  intros Hd. unfold phy_encrypt_frm. destruct (pl p) as [| | | |m| |] eqn:Hp; try discriminate.
  specialize (Hd m Hp). intros H. exists m. split; [reflexivity|].
  destruct (frm m) as [|it its] eqn:Hf.
  - left. injection H as <-. auto.
  - right. destruct (frm_marshal (fport m) (it :: its)) as [b| | |] eqn:Hb; cbn [bind] in H; try discriminate.
    exists b. split; [discriminate|]. split; [reflexivity|]. intros Hn.
    rewrite frm_eq_spec in H by auto. cbn [bind] in H. now injection H.
Qed.

(* DecryptFRMPayload: transformed; with FPort 0 also split into commands *)
Theorem phy_decrypt_frm_ok reg key p q :
  frame_devaddr_ok p -> phy_decrypt_frm reg key p = Ok q ->
  exists m, pl p = PLMac m /\
    ((frm m = [] /\ q = p) \/
     exists b, frm m <> [] /\ frm_marshal (fport m) (frm m) = Ok b /\
       ((nblocks (length b) <= 255)%nat ->
        let e := spec_crypt_frm key (is_uplink (mtype p)) (devaddr (hdr m)) (fcnt (hdr m)) b in
        match fport m with
        | Some 0 => exists cs, decode_stream reg (is_uplink (mtype p)) e = Ok cs /\ q = with_frm p m cs
        | _ => q = with_frm p m [IData e]
        end)).
Proof.
  intros Hd. unfold phy_decrypt_frm.
  destruct (phy_encrypt_frm key p) as [p'| | |] eqn:He; cbn [bind]; try discriminate.
  intros H. destruct (phy_encrypt_frm_ok _ _ _ Hd He) as (m & Hp & [[Hf ->]|(b & Hne & Hb & Hq)]).
  - exists m. split; [exact Hp|]. left. split; [exact Hf|].
    rewrite Hp, Hf in H. destruct (fport m) as [[|?]|]; now injection H.
  - exists m. split; [exact Hp|]. right. exists b. split; [exact Hne|]. split; [exact Hb|].
    intros Hn. cbv zeta. specialize (Hq Hn). subst p'. cbn [with_frm pl fport frm] in H.
    destruct (fport m) as [[|?]|] eqn:Ef.
    + unfold phy_decode_frm in H. cbn [with_frm pl fport frm mtype hdr] in H. rewrite Ef in H.
      match type of H with bind ?d _ = _ => destruct d as [cs| | |] eqn:Hdec end; cbn [bind] in H; try discriminate.
      injection H as <-. apply decode_payloads_ok in Hdec as (b' & [= <-] & Hdec). exists cs. split; [exact Hdec|].
      unfold with_frm. cbn [mtype major pl mic hdr fport]. now rewrite ?Ef.
    + now injection H.
    + now injection H.
Qed.

(* no entry point succeeds on something that is not a data frame *)
Theorem methods_need_macpayload reg key p :
  (forall m, pl p <> PLMac m) ->
  phy_encrypt_fopts key p = Err /\ phy_decrypt_fopts reg key p = Err /\
  phy_encrypt_frm key p = Err /\ phy_decrypt_frm reg key p = Err /\
  phy_decode_fopts reg p = Err /\ phy_decode_frm reg p = Err.
Proof.
  intros H. unfold phy_decrypt_fopts, phy_decrypt_frm, phy_encrypt_fopts, phy_encrypt_frm, phy_decode_fopts, phy_decode_frm.
  destruct (pl p) eqn:E; try (repeat split; reflexivity). now destruct (H m).
Qed.

(* FOpts that do not fit (more than 15 bytes): both methods report the error (C03-1 repaired) *)
Theorem phy_fopts_too_long reg key p m b :
  pl p = PLMac m -> items_marshal (fopts (hdr m)) = Ok b -> (15 < length b)%nat ->
  phy_encrypt_fopts key p = Err /\ phy_decrypt_fopts reg key p = Err.
Proof.
  intros Hp Hb Hl.
  assert (E : phy_encrypt_fopts key p = Err).
  { unfold phy_encrypt_fopts. rewrite Hp. destruct (fopts (hdr m)) eqn:Hf.
    - cbn in Hb. injection Hb as <-. simpl in Hl. lia.
    - rewrite Hb. cbn [bind]. now rewrite fopts_too_long. }
  split; [exact E|]. unfold phy_decrypt_fopts. now rewrite E.
Qed.

(* C03-2 (repaired): DecodeFRMPayloadToMACCommands turns a non-empty FRMPayload into MAC commands only when FPort = 0;
   with another FPort, or none, the step is refused and the application octets stay what they are *)
Theorem phy_decode_frm_refuses_application_port reg p m :
  pl p = PLMac m -> frm m <> [] -> fport m <> Some 0 -> phy_decode_frm reg p = Err.
Proof.
  intros Hp Hf Hq. unfold phy_decode_frm. rewrite Hp. destruct (frm m); [contradiction|].
  destruct (fport m) as [[|?]|]; try reflexivity. now destruct Hq.
Qed.

Theorem phy_decode_frm_ok reg p q :
  phy_decode_frm reg p = Ok q ->
  exists m, pl p = PLMac m /\
    ((frm m = [] /\ q = p) \/
     (fport m = Some 0 /\ exists b cs, frm m = [IData b] /\ decode_stream reg (is_uplink (mtype p)) b = Ok cs /\
                                        q = with_frm p m cs)).
Proof.
  unfold phy_decode_frm. destruct (pl p) as [| | | |m| |] eqn:Hp; try discriminate.
  intros H. exists m. split; [reflexivity|].
  destruct (frm m) as [|it its] eqn:Hf.
  - left. injection H as <-. auto.
  - right. destruct (fport m) as [[|?]|]; try discriminate. split; [reflexivity|].
    match type of H with bind ?d _ = _ => destruct d as [cs| | |] eqn:Hdec end; cbn [bind] in H; try discriminate.
    injection H as <-. apply decode_payloads_ok in Hdec as (b & Hb & Hdec). exists b, cs. auto.
Qed.
