// Correspondence harness for C15 (channel-plan state machine, CFList,
// MAC-layer encodability of band outputs).
package main

import (
	"bytes"
	"crypto/sha256"
	"fmt"
	"math"
	"os"
	"reflect"
	"strings"
	"time"

	"github.com/brocaar/lorawan"
	"github.com/brocaar/lorawan/band"
	"verifharness/chanobs"
	"verifharness/internal/cases"
	"verifharness/internal/cq"
)

var versions = []string{band.LoRaWAN_1_0_0, band.LoRaWAN_1_0_1, band.LoRaWAN_1_0_2, band.LoRaWAN_1_0_3, band.LoRaWAN_1_0_4, band.LoRaWAN_1_1_0, "latest"}

func maskCoq(m lorawan.ChMask) string {
	s := make([]string, 16)
	for i, b := range m {
		s[i] = cq.Bool(b)
	}
	return cq.List(s)
}

// cflistCoq prints a *lorawan.CFList as `cflist` term ("" for nil).
func cflistCoq(cf *lorawan.CFList) string {
	if cf == nil {
		return ""
	}
	switch p := cf.Payload.(type) {
	case *lorawan.CFListChannelPayload:
		fs := make([]int64, 5)
		for i, f := range p.Channels {
			fs[i] = int64(f)
		}
		return "(CFChannels " + cq.Zs(fs) + ")"
	case *lorawan.CFListChannelMaskPayload:
		ms := make([]string, len(p.ChannelMasks))
		for i, m := range p.ChannelMasks {
			ms[i] = maskCoq(m)
		}
		return "(CFMasks " + cq.List(ms) + ")"
	}
	return "(CFMasks [[]])" // unknown payload type: cannot match the model
}

func optCoq(s string) string {
	if s == "" {
		return cq.None
	}
	return cq.Some(s)
}

func chanOut(k int, c chanobs.Chan) string { return chanobs.Out(k, c.Coq()) }

type gen struct {
	s      *cases.Set
	r      *cq.RNG
	seen   map[string]bool
	lo, hi uint32 // span of the own frequencies of the band being processed
	nbr    bool   // snapshots also probe the unit-conversion neighbours of the stored channel frequencies
}

// neighbours of a stored lookup key f (a channel frequency in Hz): the values
// a comparison in another unit (100 Hz, 1 kHz) or with an off-by-one would
// confuse with f. None of them is f itself.
func neighbours(f uint32) []uint32 {
	var out []uint32
	seen := map[uint32]bool{f: true}
	add := func(v int64) {
		if v < 0 || v > 4294967295 || seen[uint32(v)] {
			return
		}
		seen[uint32(v)] = true
		out = append(out, uint32(v))
	}
	x := int64(f)
	for _, d := range []int64{1, 49, 50, 99, 100, 101, 999, 1000, 1001} {
		add(x + d)
		add(x - d)
	}
	add(x / 100 * 100)        // rounded down to the 100 Hz unit of the MAC layer
	add(x/100*100 + 99)       // last value of the same 100 Hz bucket
	add(x/100*100 + 1)        // first value after the bucket start
	add((x + 50) / 100 * 100) // rounded to 100 Hz
	add(x / 1000 * 1000)      // 1 kHz
	add(x/1000*1000 + 999)
	add((x + 500) / 1000 * 1000)
	add(x / 100) // the value in the other unit
	add(x / 1000)
	add(x * 100)
	add(x / 2) // NewChannelReq's 200 Hz rule
	add(x * 2)
	return out
}

// neighbourProbes: for the channels of the table (all when there are at most
// 16, otherwise the first, the last and six random ones) every neighbour
// frequency is looked up by frequency (both classes) and by frequency + DR
// (a DR inside the channel's range and one above it). For the bands whose RX1
// frequency is found through the same lookup the RX1-frequency call must
// fail exactly when no standard channel has that frequency (checked here).
func (g *gen) neighbourProbes(cfg chanobs.Config, b band.Band, upc []chanobs.Chan, ops []chanobs.Op) (probes, txt []string) {
	r := g.r
	n := len(upc)
	var pick []int
	if n <= 16 {
		for i := 0; i < n; i++ {
			pick = append(pick, i)
		}
	} else {
		pick = []int{0, n - 1}
		for k := 0; k < 6; k++ {
			pick = append(pick, r.Intn(n))
		}
	}
	rx1 := cfg.Name == band.US915 || cfg.Name == band.AU915 || cfg.Name == band.CN470
	for _, i := range pick {
		c := upc[i]
		for _, f := range append([]uint32{c.Freq}, neighbours(c.Freq)...) {
			for _, d := range []bool{true, false} {
				p, t := probeLookup(b, f, d)
				probes, txt = append(probes, p), append(txt, t)
			}
			for _, dr := range []int{c.MinDR, c.MaxDR + 1} {
				p, t := probeLookupDR(b, f, dr)
				probes, txt = append(probes, p), append(txt, t)
			}
			if rx1 {
				exact := false
				for _, u := range upc {
					if u.Freq == f && !u.Custom {
						exact = true
					}
				}
				var v uint32
				k := chanobs.Call(func() error { var err error; v, err = b.GetRX1FrequencyForUplinkFrequency(f); return err })
				if k == chanobs.KPanic || (k == chanobs.KOk) != exact {
					g.s.Fail(cases.GoFail{Key: fmt.Sprintf("rx1-lookup:%s:freq=%d:near=%d", cfg.Name, f, c.Freq),
						What: "GetRX1FrequencyForUplinkFrequency must succeed exactly for the frequencies of the band's own uplink channels",
						Replay: map[string]interface{}{"band": cfg.String(), "history": chanobs.OpsStrings(ops), "uplink_frequency": f,
							"neighbour_of_channel": i, "channel_frequency": c.Freq, "a_standard_channel_has_this_frequency": exact,
							"observed": fmt.Sprintf("%s %d", chanobs.KindName(k), v)}})
				}
			}
		}
	}
	return probes, txt
}

// span of the frequencies a fresh instance of the band uses itself: uplink and
// downlink channels, RX2, ping-slot.
func ownSpan(cfg chanobs.Config) (uint32, uint32) {
	b := cfg.New()
	fs := []uint32{b.GetDefaults().RX2Frequency}
	for _, c := range chanobs.Uplinks(b) {
		fs = append(fs, c.Freq)
	}
	for _, c := range chanobs.Downlinks(b) {
		fs = append(fs, c.Freq)
	}
	lo, hi := fs[0], fs[0]
	for _, f := range fs {
		if f < lo {
			lo = f
		}
		if f > hi {
			hi = f
		}
	}
	return lo, hi
}

// snap is one complete observation of a band instance (every accessor).
type snap struct {
	obs      string
	probes   []string
	probeTxt []string
	n        int
	upc      []chanobs.Chan
	downs    []chanobs.Chan
	cfl      []*lorawan.CFList
	enabled  []int
}

// snapshot reads every accessor of b.
func (g *gen) snapshot(cfg chanobs.Config, b band.Band, ops []chanobs.Op) snap {
	r := g.r
	all := b.GetUplinkChannelIndices()
	n := len(all)
	var ups []string
	var upc []chanobs.Chan
	for i := 0; i < n; i++ {
		k, c := chanobs.UplinkChannel(b, i)
		ups = append(ups, chanOut(k, c))
		if k == chanobs.KOk {
			upc = append(upc, c)
		}
	}
	downs := chanobs.Downlinks(b)
	var cfs []string
	cfl := make([]*lorawan.CFList, len(versions))
	for i, v := range versions {
		var cf *lorawan.CFList
		k := chanobs.Call(func() error { cf = b.GetCFList(v); return nil })
		if k != chanobs.KOk {
			g.s.Fail(cases.GoFail{Key: fmt.Sprintf("panic:GetCFList:%s:%s", cfg.String(), v), What: "GetCFList panics",
				Replay: map[string]interface{}{"band": cfg.String(), "history": chanobs.OpsStrings(ops), "version": v}})
		}
		cfl[i] = cf
		cfs = append(cfs, optCoq(cflistCoq(cf)))
	}
	enabled := b.GetEnabledUplinkChannelIndices()
	obs := fmt.Sprintf("(mkObs %s %s %s %s %s %s %s %s)", cq.Ints(all), cq.Ints(b.GetStandardUplinkChannelIndices()),
		cq.Ints(b.GetCustomUplinkChannelIndices()), cq.Ints(enabled), cq.Ints(b.GetDisabledUplinkChannelIndices()),
		cq.List(ups), chanobs.ChanList(downs), cq.List(cfs))

	// probes: indices (valid, boundary, negative, huge), lookups by frequency and by frequency + DR
	var probes []string
	var probeTxt []string
	idxs := []int{-1, n, n - 1, 0, len(downs), len(downs) - 1, chanobs.WeirdInts[r.Intn(len(chanobs.WeirdInts))], chanobs.RandIndex(r, n), chanobs.RandIndex(r, n)}
	for _, i := range idxs {
		for kind := 0; kind < 3; kind++ {
			c, t := probeIndex(b, kind, i)
			probes = append(probes, c)
			probeTxt = append(probeTxt, t)
		}
	}
	for j := 0; j < 8; j++ {
		var f uint32
		if len(upc) > 0 && j < 6 {
			f = upc[r.Intn(len(upc))].Freq
		} else {
			f = chanobs.RandFreq(r, upc)
		}
		d := r.Bool()
		c, t := probeLookup(b, f, d)
		probes = append(probes, c)
		probeTxt = append(probeTxt, t)
		dr := []int{0, 3, 5, 6, 7, -1, 15, 100}[r.Intn(8)]
		c, t = probeLookupDR(b, f, dr)
		probes = append(probes, c)
		probeTxt = append(probeTxt, t)
	}
	// GetRX1ChannelIndexForUplinkChannelIndex (the mapping itself: C12) under the clause "an
	// index outside the plan is an error, never a panic". Negative: an error since /repo
	// 789fde2. Past the end (len, len+1, inside the %8 / %48 regions, 64-bit maximum) it is
	// still answered with a nil error - pinned by six upstream tests, recorded as the known
	// finding C15-10 under its own key; every other accessor is held to the clause by the
	// probes of this snapshot.
	for _, i := range []int{-1, -n - 1, math.MinInt64} {
		k := chanobs.Call(func() error { _, err := b.GetRX1ChannelIndexForUplinkChannelIndex(i); return err })
		if k != chanobs.KErr {
			g.s.Fail(cases.GoFail{Key: fmt.Sprintf("rx1-index:%s:index=%d", cfg.Name, i),
				What:   "GetRX1ChannelIndexForUplinkChannelIndex must report a negative index as an error and never panic",
				Replay: map[string]interface{}{"band": cfg.String(), "history": chanobs.OpsStrings(ops), "index": i, "observed": chanobs.KindName(k)}})
		}
	}
	for _, p := range []struct {
		tag string
		i   int
	}{{"len+0", n}, {"len+1", n + 1}, {"len+8", n + 8}, {"len+48", n + 48}, {"len+1000", n + 1000}, {"maxint64", math.MaxInt64}} {
		var v int
		k := chanobs.Call(func() error { var err error; v, err = b.GetRX1ChannelIndexForUplinkChannelIndex(p.i); return err })
		if k == chanobs.KPanic {
			g.s.Fail(cases.GoFail{Key: fmt.Sprintf("rx1-index:%s:panic:index=%s", cfg.Name, p.tag), What: "GetRX1ChannelIndexForUplinkChannelIndex panics",
				Replay: map[string]interface{}{"band": cfg.String(), "history": chanobs.OpsStrings(ops), "index": p.i}})
		} else if key := fmt.Sprintf("rx1ch-past-end:%s:index=%s", cfg.Name, p.tag); k != chanobs.KErr && !g.seen[key] {
			g.seen[key] = true
			g.s.Fail(cases.GoFail{Key: key, What: "GetRX1ChannelIndexForUplinkChannelIndex answers an uplink channel index past the end of the plan with a nil error",
				Replay: map[string]interface{}{"band": cfg.String(), "history": chanobs.OpsStrings(ops), "uplink_channels": n, "index": p.i,
					"observed": fmt.Sprintf("(%d, nil)", v), "required": "an error, as GetUplinkChannel / GetDownlinkChannel / Disable / Enable / GetTXPowerOffset answer the same index"}})
		}
	}
	if g.nbr {
		p, t := g.neighbourProbes(cfg, b, upc, ops)
		probes, probeTxt = append(probes, p...), append(probeTxt, t...)
	}
	return snap{obs: obs, probes: probes, probeTxt: probeTxt, n: n, upc: upc, downs: downs, cfl: cfl, enabled: enabled}
}

// probeIndex: kind 0 GetUplinkChannel, 1 GetDownlinkChannel, 2 GetTXPowerOffset at index i.
func probeIndex(b band.Band, kind, i int) (string, string) {
	switch kind {
	case 0:
		k, c := chanobs.UplinkChannel(b, i)
		return fmt.Sprintf("PUp %s %s", cq.Z(int64(i)), chanOut(k, c)), fmt.Sprintf("GetUplinkChannel(%d) -> %s", i, chanobs.KindName(k))
	case 1:
		k, c := chanobs.DownlinkChannel(b, i)
		return fmt.Sprintf("PDown %s %s", cq.Z(int64(i)), chanOut(k, c)), fmt.Sprintf("GetDownlinkChannel(%d) -> %s", i, chanobs.KindName(k))
	}
	var v int
	k := chanobs.Call(func() error { var err error; v, err = b.GetTXPowerOffset(i); return err })
	return fmt.Sprintf("PTxp %s %s", cq.Z(int64(i)), chanobs.Out(k, cq.Z(int64(v)))), fmt.Sprintf("GetTXPowerOffset(%d) -> %s", i, chanobs.KindName(k))
}

func probeLookup(b band.Band, f uint32, d bool) (string, string) {
	var i int
	k := chanobs.Call(func() error { var err error; i, err = b.GetUplinkChannelIndex(f, d); return err })
	return fmt.Sprintf("PIdx %s %s %s", cq.Z(int64(f)), cq.Bool(d), chanobs.Out(k, cq.Z(int64(i)))),
		fmt.Sprintf("GetUplinkChannelIndex(%d,%v) -> %s %d", f, d, chanobs.KindName(k), i)
}

func probeLookupDR(b band.Band, f uint32, dr int) (string, string) {
	var i int
	k := chanobs.Call(func() error { var err error; i, err = b.GetUplinkChannelIndexForFrequencyDR(f, dr); return err })
	return fmt.Sprintf("PIdxDR %s %s %s", cq.Z(int64(f)), cq.Z(int64(dr)), chanobs.Out(k, cq.Z(int64(i)))),
		fmt.Sprintf("GetUplinkChannelIndexForFrequencyDR(%d,%d) -> %s %d", f, dr, chanobs.KindName(k), i)
}

// history runs one history on the implementation and records the CHist case
// plus the cross-layer cases of the values the band now produces.
func (g *gen) history(tag string, cfg chanobs.Config, ops []chanobs.Op) {
	b, kinds := chanobs.Replay(cfg, ops)
	steps := make([]string, len(ops))
	for i, o := range ops {
		steps[i] = cq.Tuple(o.Coq(), chanobs.Out(kinds[i], "tt"))
	}
	sn := g.snapshot(cfg, b, ops)
	n, probes, probeTxt := sn.n, sn.probes, sn.probeTxt
	worst := chanobs.KOk
	for _, k := range kinds {
		if k > worst {
			worst = k
		}
	}
	g.s.Add(cases.Case{
		Term: fmt.Sprintf("CHist %d%%nat %s %s %s", cfg.Index, cq.List(steps), sn.obs, cq.List(probes)),
		Key:  fmt.Sprintf("hist:%s:%s:%s", cfg.String(), tag, chanobs.Hash(chanobs.OpsCoq(ops), probes)),
		Kind: "history-" + tag, Nontrivial: len(ops) > 0,
		Replay: map[string]interface{}{"api": "AddChannel/Disable/Enable + accessors", "band": cfg.String(), "history": chanobs.OpsStrings(ops),
			"call_outcomes": kindNames(kinds), "probes": probeTxt, "channels": n}})

	g.crossLayer(cfg, b, ops, sn)
}

// crossLayer pushes every frequency / DR / CFList the band produces in its
// current state through the MAC-layer encoders and decoders.
func (g *gen) crossLayer(cfg chanobs.Config, b band.Band, ops []chanobs.Op, sn snap) {
	r := g.r
	name := string(cfg.Name)
	g.lo, g.hi = ownSpan(cfg)
	for i, c := range sn.upc {
		if c.MinDR >= 0 && c.MinDR <= 255 && c.MaxDR >= 0 && c.MaxDR <= 255 {
			g.newChannel(name, uint8(i), c)
		}
	}
	for i, c := range sn.downs {
		g.dlChannel(name, uint8(i), c)
	}
	d := b.GetDefaults()
	g.rxParam(name, d.RX2Frequency, d.RX2DataRate)
	var pf uint32
	if chanobs.Call(func() error {
		var err error
		pf, err = b.GetPingSlotFrequency(lorawan.DevAddr{1, 2, 3, byte(r.Intn(256))}, time.Duration(r.Intn(1<<20))*time.Second)
		return err
	}) == chanobs.KOk {
		g.pingSlot(name, pf, d.RX2DataRate)
		g.beacon(name, pf)
	}
	for i, cf := range sn.cfl {
		if cf != nil {
			g.cflist(cfg, versions[i], ops, cf, sn.enabled)
		}
	}
}

func kindNames(ks []int) []string {
	s := make([]string, len(ks))
	for i, k := range ks {
		s[i] = chanobs.KindName(k)
	}
	return s
}

func who(own bool) string {
	if own {
		return "own"
	}
	return "user"
}

// freqCase records one encoder call; dec is nil when the encoder failed.
func (g *gen) freqCase(bandName, cmd string, kind int, ins []int64, own bool, enc []byte, encErr error, dec []int64, decErr error, freq uint32) {
	key := fmt.Sprintf("xl:%s:%s:%s:freq=%d", bandName, cmd, who(own), freq)
	full := key + fmt.Sprint(ins)
	if g.seen[full] {
		return
	}
	g.seen[full] = true
	oe, od := cq.Err, cq.Err
	if encErr == nil {
		oe = cq.Ok(cq.Bytes(enc))
		if decErr == nil {
			od = cq.Ok(cq.Zs(dec))
		}
	}
	g.s.Add(cases.Case{
		Term: fmt.Sprintf("CFreq %d %s %s %s %s %s %s", kind, cq.Zs(ins), cq.Bool(own), cq.Z(int64(g.lo)), cq.Z(int64(g.hi)), oe, od),
		Key:  key, Kind: "encode-" + cmd + "-" + who(own), Nontrivial: true,
		Replay: map[string]interface{}{"api": "lorawan." + cmd + "Payload.MarshalBinary/UnmarshalBinary", "band": bandName, "fields": ins,
			"band_own_frequency": own, "band_own_span": []uint32{g.lo, g.hi}, "encode_error": fmt.Sprint(encErr), "decoded": dec}})
}

func (g *gen) newChannel(bandName string, idx uint8, c chanobs.Chan) {
	p := lorawan.NewChannelReqPayload{ChIndex: idx, Freq: c.Freq, MaxDR: uint8(c.MaxDR), MinDR: uint8(c.MinDR)}
	b, err := p.MarshalBinary()
	var q lorawan.NewChannelReqPayload
	var derr error
	if err == nil {
		derr = q.UnmarshalBinary(b)
	}
	g.freqCase(bandName, "NewChannelReq", 1, []int64{int64(idx), int64(c.Freq), int64(c.MaxDR), int64(c.MinDR)}, !c.Custom, b, err,
		[]int64{int64(q.ChIndex), int64(q.Freq), int64(q.MaxDR), int64(q.MinDR)}, derr, c.Freq)
}

func (g *gen) dlChannel(bandName string, idx uint8, c chanobs.Chan) {
	p := lorawan.DLChannelReqPayload{ChIndex: idx, Freq: c.Freq}
	b, err := p.MarshalBinary()
	var q lorawan.DLChannelReqPayload
	var derr error
	if err == nil {
		derr = q.UnmarshalBinary(b)
	}
	g.freqCase(bandName, "DLChannelReq", 2, []int64{int64(idx), int64(c.Freq)}, !c.Custom, b, err, []int64{int64(q.ChIndex), int64(q.Freq)}, derr, c.Freq)
}

func (g *gen) rxParam(bandName string, f uint32, dr int) {
	p := lorawan.RXParamSetupReqPayload{Frequency: f, DLSettings: lorawan.DLSettings{RX2DataRate: uint8(dr)}}
	b, err := p.MarshalBinary()
	var q lorawan.RXParamSetupReqPayload
	var derr error
	if err == nil {
		derr = q.UnmarshalBinary(b)
	}
	g.freqCase(bandName, "RXParamSetupReq", 0, []int64{int64(f), int64(dr)}, true, b, err, []int64{int64(q.Frequency), int64(q.DLSettings.RX2DataRate)}, derr, f)
}

func (g *gen) pingSlot(bandName string, f uint32, dr int) {
	p := lorawan.PingSlotChannelReqPayload{Frequency: f, DR: uint8(dr)}
	b, err := p.MarshalBinary()
	var q lorawan.PingSlotChannelReqPayload
	var derr error
	if err == nil {
		derr = q.UnmarshalBinary(b)
	}
	g.freqCase(bandName, "PingSlotChannelReq", 4, []int64{int64(f), int64(dr)}, true, b, err, []int64{int64(q.Frequency), int64(q.DR)}, derr, f)
}

func (g *gen) beacon(bandName string, f uint32) {
	p := lorawan.BeaconFreqReqPayload{Frequency: f}
	b, err := p.MarshalBinary()
	var q lorawan.BeaconFreqReqPayload
	var derr error
	if err == nil {
		derr = q.UnmarshalBinary(b)
	}
	g.freqCase(bandName, "BeaconFreqReq", 3, []int64{int64(f)}, true, b, err, []int64{int64(q.Frequency)}, derr, f)
}

// cflist: CFList.MarshalBinary / UnmarshalBinary, and the same CFList inside a
// JoinAcceptPayload (checked here: the join-accept carries exactly the CFList
// bytes and decodes to the same CFList as the stand-alone decoder).
//
// For a channel-mask CFList two more requirements are checked here on the Go
// side, both insensitive to the recorded finding C15-3 (a TRAILING all-zero
// mask is dropped by the decoder): the channels named by the masks decoded
// from the join-accept are exactly the band's enabled channels, and the
// decoded masks are the encoded masks minus trailing all-zero masks (so a
// mask lost or moved anywhere else is reported under its own key).
func (g *gen) cflist(cfg chanobs.Config, version string, ops []chanobs.Op, cf *lorawan.CFList, enabled []int) {
	term := cflistCoq(cf)
	shape := "channels"
	if cp, ok := cf.Payload.(*lorawan.CFListChannelPayload); ok {
		for _, f := range cp.Channels {
			if f/100 >= 1<<24 {
				shape = "channels:above-24bit"
			}
		}
	}
	if mp, ok := cf.Payload.(*lorawan.CFListChannelMaskPayload); ok {
		shape = "masks:last-nonzero"
		if len(mp.ChannelMasks) > 0 && mp.ChannelMasks[len(mp.ChannelMasks)-1] == (lorawan.ChMask{}) {
			shape = "masks:trailing-zero-mask"
		}
	}
	key := fmt.Sprintf("cflist-rt:%s:%s:%s", cfg.Name, shape, chanobs.Hash(term))
	if g.seen[key] {
		return
	}
	g.seen[key] = true
	rp := map[string]interface{}{"api": "GetCFList -> CFList.MarshalBinary/UnmarshalBinary, JoinAcceptPayload", "band": cfg.String(),
		"history": chanobs.OpsStrings(ops), "version": version, "cflist": term}
	b, err := cf.MarshalBinary()
	oe, od := cq.Err, cq.Err
	if err == nil {
		oe = cq.Ok(cq.Bytes(b))
		var back lorawan.CFList
		if derr := back.UnmarshalBinary(b); derr == nil {
			od = cq.Ok(cflistCoq(&back))
		}
		// inside a join-accept
		ja := lorawan.JoinAcceptPayload{JoinNonce: 7, DevAddr: lorawan.DevAddr{1, 2, 3, 4}, RXDelay: 1, CFList: cf}
		jb, jerr := ja.MarshalBinary()
		if jerr != nil || len(jb) != 28 || !bytes.Equal(jb[12:], b) {
			g.s.Fail(cases.GoFail{Key: "joinaccept:" + key, What: "JoinAcceptPayload does not carry the CFList bytes", Replay: rp})
		} else {
			var jback lorawan.JoinAcceptPayload
			if uerr := jback.UnmarshalBinary(false, jb); uerr != nil || jback.CFList == nil || !reflect.DeepEqual(*jback.CFList, back) {
				g.s.Fail(cases.GoFail{Key: "joinaccept:" + key, What: "JoinAcceptPayload decodes the CFList differently from CFList.UnmarshalBinary", Replay: rp})
			} else if mp, ok := cf.Payload.(*lorawan.CFListChannelMaskPayload); ok {
				dp, dok := jback.CFList.Payload.(*lorawan.CFListChannelMaskPayload)
				var got []lorawan.ChMask
				if dok {
					got = dp.ChannelMasks
				}
				want := mp.ChannelMasks
				for len(want) > 0 && want[len(want)-1] == (lorawan.ChMask{}) {
					want = want[:len(want)-1]
				}
				rp2 := map[string]interface{}{"api": rp["api"], "band": rp["band"], "history": rp["history"], "version": version, "cflist": term,
					"enabled_channels": enabled, "encoded_masks": maskHex(mp.ChannelMasks), "decoded_masks": maskHex(got), "channels_of_decoded_masks": maskIndices(got)}
				if !dok || !reflect.DeepEqual(maskIndices(got), append([]int{}, enabled...)) {
					g.s.Fail(cases.GoFail{Key: fmt.Sprintf("joinaccept-enabled:%s:%s", cfg.Name, chanobs.Hash(term)),
						What: "the channel-mask CFList decoded from the join-accept does not name the band's enabled channels", Replay: rp2})
				}
				if !dok || len(got) != len(want) || (len(want) > 0 && !reflect.DeepEqual(got, want)) {
					g.s.Fail(cases.GoFail{Key: fmt.Sprintf("joinaccept-masks:%s:non-trailing-mask-lost:%s", cfg.Name, chanobs.Hash(term)),
						What: "the channel masks decoded from the join-accept differ from the encoded masks in more than trailing all-zero masks", Replay: rp2})
				}
			}
		}
	}
	if err == nil {
		// the same CFList with the RFU bytes 12..14 (channel-mask CFList) / the fifth
		// channel (channel CFList) overwritten
		// (bytes derived from the CFList itself: no draw from the random stream)
		h := sha256.Sum256([]byte(term))
		for k := 0; k < 2; k++ {
			mb := append([]byte{}, b...)
			for i := 12; i < 15; i++ {
				mb[i] = h[4*k+i-12] | 1
			}
			if k == 1 {
				mb[12+int(h[31])%3] = 0
			}
			g.cfDecode(cfg, "rfu-"+strings.Split(shape, ":")[0], mb, rp["history"])
		}
	}
	g.s.Add(cases.Case{Term: fmt.Sprintf("CCFList %s %s %s %s %s", term, cq.Z(int64(g.lo)), cq.Z(int64(g.hi)), oe, od), Key: key, Kind: "cflist-" + strings.Split(shape, ":")[0], Nontrivial: true, Replay: rp})
}

type blockPattern struct {
	tag string
	ops []chanobs.Op
}

// blockPatterns: histories for a fixed channel plan of n channels that switch
// whole 16-channel blocks off (and a few single channels back on), so that the
// channel-mask CFList contains all-zero masks at every position: leading,
// runs of 2-4 adjacent ones between non-zero masks, alternating, trailing, all.
func blockPatterns(r *cq.RNG, n int, thorough bool) []blockPattern {
	nb := (n + 15) / 16
	offBlocks := func(blocks []bool, back []int) []chanobs.Op {
		var ops []chanobs.Op
		for i := 0; i < n; i++ {
			if blocks[i/16] {
				ops = append(ops, chanobs.Disable(i))
			}
		}
		for _, i := range back {
			ops = append(ops, chanobs.Enable(i))
		}
		return ops
	}
	mk := func(f func(k int) bool) []bool {
		b := make([]bool, nb)
		for k := range b {
			b[k] = f(k)
		}
		return b
	}
	var out []blockPattern
	add := func(tag string, blocks []bool, back ...int) {
		out = append(out, blockPattern{tag, offBlocks(blocks, back)})
	}
	add("all-off", mk(func(int) bool { return true }))
	add("all-off-but-first-and-last-channel", mk(func(int) bool { return true }), 0, n-1)
	add("even-off", mk(func(k int) bool { return k%2 == 0 }))
	add("odd-off", mk(func(k int) bool { return k%2 == 1 }))
	add("only-last-block-on", mk(func(k int) bool { return k != nb-1 }))
	for k := 0; k < nb; k++ {
		add(fmt.Sprintf("only-block-%d-on", k), mk(func(j int) bool { return j != k }))
	}
	for l := 2; l <= 4; l++ {
		for s := 0; s+l < nb; s++ {
			s, l := s, l
			add(fmt.Sprintf("run-of-%d-off-from-%d", l, s), mk(func(j int) bool { return j >= s && j < s+l }))
		}
	}
	// sub-bands: 8 channels of one block plus one channel of the last block
	for j := 0; j < 2; j++ {
		sb := r.Intn((n - n%16) / 8)
		if n%16 == 0 {
			sb = r.Intn(n/8 - 2)
		}
		var back []int
		for i := sb * 8; i < sb*8+8; i++ {
			back = append(back, i)
		}
		back = append(back, (nb-1)*16+r.Intn(n-(nb-1)*16))
		add(fmt.Sprintf("sub-band-%d", sb), mk(func(int) bool { return true }), back...)
	}
	reps := 3
	if thorough {
		reps = 60
	}
	for j := 0; j < reps; j++ {
		blocks := mk(func(int) bool { return r.Intn(3) != 0 })
		var back []int
		for k := r.Intn(4); k > 0; k-- {
			back = append(back, r.Intn(n))
		}
		add("random-blocks", blocks, back...)
	}
	return out
}

// cfDecode: CFList.UnmarshalBinary on raw bytes; the decoded value is encoded
// again, and the same bytes are decoded with bytes 12..14 zeroed.
func (g *gen) cfDecode(cfg chanobs.Config, tag string, data []byte, history interface{}) {
	key := fmt.Sprintf("cflist-dec:%s:%s:%x", cfg.Name, tag, data)
	if g.seen[key] {
		return
	}
	g.seen[key] = true
	dec := func(d []byte) (string, *lorawan.CFList) {
		var cf lorawan.CFList
		switch chanobs.Call(func() error { return cf.UnmarshalBinary(d) }) {
		case chanobs.KOk:
			return cq.Ok(cflistCoq(&cf)), &cf
		case chanobs.KErr:
			return cq.Err, nil
		}
		return cq.Panic, nil
	}
	od, cf := dec(data)
	ore := cq.Err
	if cf != nil {
		var rb []byte
		switch chanobs.Call(func() error { var err error; rb, err = cf.MarshalBinary(); return err }) {
		case chanobs.KOk:
			ore = cq.Ok(cq.Bytes(rb))
		case chanobs.KPanic:
			ore = cq.Panic
		}
	}
	z := append([]byte{}, data...)
	for i := 12; i < 15 && i < len(z); i++ {
		z[i] = 0
	}
	od0, _ := dec(z)
	g.s.Add(cases.Case{Term: fmt.Sprintf("CCFDec %s %s %s %s", cq.Bytes(data), od, ore, od0), Key: key, Kind: "cflist-decode-" + tag, Nontrivial: true,
		Replay: map[string]interface{}{"api": "CFList.UnmarshalBinary(bytes) -> CFList.MarshalBinary; the same bytes with bytes 12..14 zeroed",
			"band": cfg.String(), "history": history, "bytes": fmt.Sprintf("%x", data), "decoded": od, "encoded_again": ore, "decoded_with_rfu_zeroed": od0}})
}

func maskHex(ms []lorawan.ChMask) []string {
	out := make([]string, len(ms))
	for i, m := range ms {
		v := 0
		for j, on := range m {
			if on {
				v |= 1 << uint(j)
			}
		}
		out[i] = fmt.Sprintf("%04x", v)
	}
	return out
}

// maskIndices: the channel indices named by a list of 16-channel masks.
func maskIndices(ms []lorawan.ChMask) []int {
	out := []int{}
	for i, m := range ms {
		for j, on := range m {
			if on {
				out = append(out, i*16+j)
			}
		}
	}
	return out
}

func main() {
	dir, seed, thorough := cases.Args()
	r := cq.NewRNG(seed)
	s := cases.New("C15", dir, "LW.Corr.C15",
		"14 bands (x repeater x dwell) x histories of up to 30 AddChannel/Disable/Enable calls with arbitrary ints (negative, huge, boundary) and frequencies (duplicates, zero, non-multiples of 100 Hz, 2.4 GHz, 32-bit extremes), each call under recover; after each history every accessor is read (all index lists, every uplink/downlink channel with its flags, GetCFList for 7 versions, index probes, lookups by frequency and frequency+DR); every frequency / DR / CFList the band then produces goes through the real RXParamSetupReq, NewChannelReq, DLChannelReq, PingSlotChannelReq, BeaconFreqReq, CFList and JoinAccept encoders and decoders; traces on one long-lived instance whose alphabet includes the observation calls (every accessor, GetCFList, LinkADRReq planning + apply), each answer compared with the model state at its position: every accessor directly before and after AddChannel / Disable / Enable, random interleavings with full snapshots; for US915/AU915/CN470 histories switching whole 16-channel blocks off (all, alternating, runs of 2-4 adjacent blocks at every position, single block left, sub-bands) whose channel-mask CFList must come back from the join-accept naming exactly the enabled channels. lookups by frequency and by frequency+DR (and the RX1-frequency lookup of US915/AU915/CN470) for the unit-conversion neighbours of every stored channel frequency (f+-1, +-49, +-50, +-99, +-100, +-101, +-1 kHz, rounded to 100 Hz / 1 kHz, bucket ends, f/100, f/1000, f*100, f/2, f*2) after histories adding custom channels at non-multiples of 100 Hz, two inside one 100 Hz bucket, one inside the bucket of a standard channel. custom channels at base+delta (delta in 0,1,2,50,99,100,101,199,200,201) around the band's own grid, the 2.4 GHz 200 Hz grid, the 1.2-1.6777 GHz range and the ends of the 24-bit field and of uint32, each through NewChannelReq, DLChannelReq and the CFList: refused or decoded back to the same values. CFList.UnmarshalBinary on band-produced CFLists with bytes 12..14 overwritten and on raw byte strings (decoded value re-encoded; channel-mask RFU bytes must not matter). Non-trivial = history non-empty (CHist) or any encoder case; distinct = distinct printed case")
	g := &gen{s: s, r: r, seen: map[string]bool{}}
	cfgs := chanobs.Configs()
	byName := func(n band.Name) chanobs.Config {
		for _, c := range cfgs {
			if c.Name == n {
				return c
			}
		}
		panic("no config")
	}

	// ---- witnesses of the findings, always first ----------------------------
	// C15-1 (fixed): negative indices
	g.history("witness-negative-index", byName(band.EU868), []chanobs.Op{chanobs.Disable(-1), chanobs.Enable(-1), chanobs.Add(867100000, 0, 5), chanobs.Disable(3)})
	// C15-2: ISM2400's own frequencies (RX2, ping-slot, downlink channels) and a CFList channel
	g.history("witness-ism2400", byName(band.ISM2400), []chanobs.Op{chanobs.Add(2450000000, 0, 7)})
	// C15-3: channel-mask CFList whose last mask is all-zero
	{
		var ops []chanobs.Op
		for i := 64; i < 72; i++ {
			ops = append(ops, chanobs.Disable(i))
		}
		g.history("witness-trailing-zero-mask", byName(band.US915), ops)
	}
	// C15-4: user channel between 1.2 GHz and 2^24*100 Hz through NewChannelReq
	g.history("witness-newchannel-1300mhz", byName(band.EU868), []chanobs.Op{chanobs.Add(1300000000, 0, 5)})

	rounds := 10
	if thorough {
		rounds = 300
	}
	// The generators added later draw from their own stream, so the cases of the
	// older generators (below) stay the same for a given seed.
	r0 := r
	r = cq.NewRNG(seed ^ 0x5eed15c15)
	g.r = r

	// corpus of minimized past failures (seeded-defect trials, notes/C15.md):
	// (a) an accessor that remembers its answer across AddChannel: read - AddChannel - read
	for _, kind := range []int{obEnabled, obPlan} {
		t := g.newTracer(byName(band.EU868))
		t.observe(kind)
		t.op(chanobs.Add(867100000, 0, 5))
		t.observe(obLists)
		t.observe(kind)
		t.finish("corpus-read-add-read/"+obName[kind], true)
	}
	// (b) US915 sub-band 2 (channels 8-15 and 65): masks ff00 0000 0000 0000 0002, a run of
	// all-zero masks in front of a non-zero one, through the join-accept
	{
		var ops []chanobs.Op
		for i := 0; i < 72; i++ {
			ops = append(ops, chanobs.Disable(i))
		}
		for _, i := range []int{8, 9, 10, 11, 12, 13, 14, 15, 65} {
			ops = append(ops, chanobs.Enable(i))
		}
		g.history("corpus-subband2", byName(band.US915), ops)
	}

	// ---- channel-mask bands: whole 16-channel blocks disabled ---------------
	for _, name := range []band.Name{band.US915, band.AU915, band.CN470} {
		base := byName(name).Index
		for _, bp := range blockPatterns(r, len(cfgs[base].New().GetUplinkChannelIndices()), thorough) {
			g.history("blocks-"+bp.tag, cfgs[base+r.Intn(4)], bp.ops)
		}
	}

	// ---- lookups keyed by a frequency: unit-conversion neighbours of every stored
	// channel frequency, after histories that add custom channels at non-multiples
	// of 100 Hz, two customs inside one 100 Hz bucket, a custom inside the bucket of
	// a standard channel and a custom with the frequency of a standard channel ----
	// corpus (seeded-defect trial): 867100000 DR0-5 and 867100050 DR6
	g.nbr = true
	g.history("corpus-lookup-same-100hz-bucket", byName(band.EU868), []chanobs.Op{chanobs.Add(867100000, 0, 5), chanobs.Add(867100050, 6, 6)})
	// corpus (audit of the unchanged library, finding C15-6): two custom channels share a frequency
	g.history("corpus-lookup-two-customs-one-frequency", byName(band.EU868), []chanobs.Op{chanobs.Add(868300000, 6, 6), chanobs.Add(868300000, 7, 7)})
	for _, name := range chanobs.Names {
		reps := 1
		if thorough {
			reps = 8
		}
		for rep := 0; rep < reps; rep++ {
			cfg := cfgs[byName(name).Index+r.Intn(4)]
			ups := chanobs.Uplinks(cfg.New())
			f0 := ups[r.Intn(len(ups))].Freq
			base := ups[0].Freq + uint32(100000*(1+r.Intn(40)))
			odd := ups[0].Freq + uint32(100000*(41+r.Intn(20))) + uint32(1+r.Intn(99))
			ops := []chanobs.Op{
				chanobs.Add(base, 0, 5), chanobs.Add(base+uint32(1+r.Intn(99)), 6, 6), // one 100 Hz bucket, disjoint DR ranges
				chanobs.Add(odd, 0, 5), chanobs.Add(odd/100*100, 0, 3), // non-multiple of 100 Hz and the start of its bucket
				chanobs.Add(f0+uint32(1+r.Intn(99)), 0, 5),                                           // inside the bucket of a standard channel
				chanobs.Add(f0, 6, 7),                                                                // the frequency of a standard channel
				chanobs.Add(base+1000, 0, 5), chanobs.Add(base/1000*1000+uint32(r.Intn(1000)), 0, 5), // 1 kHz neighbours
				chanobs.Add(base, 6, 6), chanobs.Add(base, 7, 7), // further customs with the frequency of the first, other data-rates
			}
			if r.Intn(2) == 0 {
				ops = append(ops, chanobs.Disable(chanobs.RandIndex(r, len(ups)+4)))
			}
			g.history("lookup-neighbours", cfg, ops)
		}
	}
	g.nbr = false

	// ---- unused slots: custom channels with frequency 0 (AddChannel(0, ..) appends a
	// disabled placeholder) in front of, between and behind real ones; the CFList must
	// still offer the real ones at their positions (audit finding C15-7) ----
	g.history("corpus-cflist-zero-first-slot", byName(band.EU868), []chanobs.Op{chanobs.Add(0, 0, 5), chanobs.Add(867100000, 0, 5)})
	for _, name := range chanobs.Names {
		cfg := cfgs[byName(name).Index+r.Intn(4)]
		if !chanobs.SupportsExtra(cfg) {
			continue
		}
		mn, mx, _ := chanobs.CFListDRRange(cfg)
		f := func(k int) uint32 { return chanobs.Uplinks(cfg.New())[0].Freq + uint32(200000*(k+1)) }
		z := chanobs.Add(0, mn, mx)
		a := func(k int) chanobs.Op { return chanobs.Add(f(k), mn, mx) }
		for i, ops := range [][]chanobs.Op{
			{z}, {z, z, z, z, z, a(1)}, {z, a(1)}, {a(1), z, a(2)}, {z, z, z, z, a(1), a(2)},
			{z, a(1), chanobs.Add(f(2), mn, mx+1), a(3), z, a(4)}, {chanobs.Add(0, mn+1, mx), a(1)},
		} {
			g.history(fmt.Sprintf("cflist-zero-slots-%d", i), cfg, ops)
		}
	}

	// ---- AddChannel arguments: data-rate ranges around the band's uplink data-rates
	// (negative, reversed, beyond the defined ones, 15/16, 64-bit extremes) and
	// frequencies around every acceptance boundary; every call's outcome is compared
	// with the acceptance rule (audit findings C15-8, C15-9) ----
	for _, name := range chanobs.Names {
		cfg := cfgs[byName(name).Index+r.Intn(4)]
		drs := chanobs.UplinkDataRates(cfg.New())
		lo, hi := drs[0], drs[len(drs)-1]
		f0 := chanobs.Uplinks(cfg.New())[0].Freq/200*200 + 200000
		var ops []chanobs.Op
		for _, p := range [][2]int{{-1, 16}, {0, math.MaxInt64}, {math.MinInt64, 0}, {lo, hi}, {lo - 1, hi}, {lo, hi + 1}, {hi, lo}, {hi, hi}, {lo, lo},
			{hi + 1, hi + 1}, {15, 15}, {16, 16}, {0, 15}, {5, 0}, {-1, -1}, {6, 6}, {7, 7}, {8, 11}, {12, 13}, {255, 255}, {256, 256}, {0, 1 << 32}} {
			ops = append(ops, chanobs.Add(f0, p[0], p[1]))
		}
		for k := 0; k < 6; k++ {
			a, b := chanobs.RandDR(r), chanobs.RandDR(r)
			ops = append(ops, chanobs.Add(f0+uint32(200*k), a, b))
		}
		g.history("addchannel-data-rates", cfg, ops)
		ops = nil
		for _, f := range []uint32{0, 1, 99, 100, 200, f0, f0 + 1, f0 + 50, f0 + 99, f0 + 100, 1199999900, 1200000000, 1677721500, 1677721501, 1677721600, 1677721700,
			2399999900, 2399999999, 2400000000, 2400000001, 2400000100, 2400000200, 3355443000, 3355443100, 3355443200, 3355443400, 4294967000, 4294967200, 4294967295} {
			ops = append(ops, chanobs.Add(f, lo, lo))
		}
		g.history("addchannel-frequencies", cfg, ops)
	}
	g.history("corpus-addchannel-arguments", byName(band.EU868), []chanobs.Op{chanobs.Add(867100000, -1, 16), chanobs.Add(867100000, 0, math.MaxInt64),
		chanobs.Add(867100050, 0, 5), chanobs.Add(1677721600, 0, 5), chanobs.Add(4294967200, 0, 5), chanobs.Add(867100000, 0, 5)})

	// ---- stepping residues: custom channels at base + delta for every residue class
	// the 100 Hz / 200 Hz stepping rules distinguish, in each frequency range (the
	// band's own grid, the 2.4 GHz 200 Hz grid, the 1.2-1.6777 GHz range where the
	// NewChannelReq decoder is ambiguous, the ends of the 24-bit field and of uint32).
	// AddChannel accepts any uint32; every such channel then goes through
	// NewChannelReq, DLChannelReq and (five at a time) the CFList: refused or
	// decoded back to the same values ----
	{
		deltas := []uint32{0, 1, 2, 50, 99, 100, 101, 199, 200, 201}
		names := []band.Name{band.EU868, band.ISM2400}
		if thorough {
			names = nil
			for _, n := range chanobs.Names {
				if chanobs.SupportsExtra(byName(n)) {
					names = append(names, n)
				}
			}
		}
		for _, name := range names {
			cfg := cfgs[byName(name).Index+r.Intn(4)]
			mn, mx, _ := chanobs.CFListDRRange(cfg)
			own := chanobs.Uplinks(cfg.New())[0].Freq / 200 * 200
			ranges := map[string][]uint32{
				"own-grid":  {own + 200000*uint32(1+r.Intn(20)), own + 200000*uint32(21+r.Intn(20)) + 100},
				"2.4ghz":    {2400000000, 2422000000 + 200*uint32(r.Intn(1000)), 2483400000},
				"ambiguous": {1199999800, 1300000000 + 100*uint32(r.Intn(1000000)), 1677721400},
				"field-end": {3355443000, 4294967000, 4294967295 - 201},
			}
			for _, rn := range []string{"own-grid", "2.4ghz", "ambiguous", "field-end"} {
				var all []chanobs.Op
				for _, base := range ranges[rn] {
					for i, d := range deltas {
						o := chanobs.Add(base+d, mn, mx)
						all = append(all, o)
						// the encoders themselves for this frequency, whether or not AddChannel takes it
						g.lo, g.hi = ownSpan(cfg)
						uc := chanobs.Chan{Freq: base + d, MinDR: mn, MaxDR: mx, Enabled: true, Custom: true}
						g.newChannel(string(cfg.Name), uint8(3+i), uc)
						g.dlChannel(string(cfg.Name), uint8(3+i), uc)
						// five at a time, so that each of them is offered in a CFList
						if i%5 == 4 {
							g.history("stepping-cflist-"+rn, cfg, all[len(all)-5:])
						}
					}
				}
				g.history("stepping-"+rn, cfg, all)
			}
		}
	}

	// ---- CFList decoder on raw bytes: every type byte class, all-ones, masks in every
	// slot incl. the RFU bytes, lengths around 16 ----
	{
		eu := byName(band.US915)
		n := 40
		if thorough {
			n = 1200
		}
		for i := 0; i < n; i++ {
			l := 16
			if r.Intn(8) == 0 {
				l = []int{0, 1, 12, 13, 14, 15, 17, 18, 28}[r.Intn(9)]
			}
			d := make([]byte, l)
			switch r.Intn(4) {
			case 0: // sparse
				for k := r.Intn(4); k > 0 && l > 0; k-- {
					d[r.Intn(l)] = byte(r.Intn(256))
				}
			case 1:
				for j := range d {
					d[j] = 0xff
				}
			default:
				for j := range d {
					d[j] = byte(r.Intn(256))
				}
			}
			if l == 16 {
				d[15] = []byte{1, 1, 1, 0, 0, 2, 255}[r.Intn(7)]
				if r.Intn(3) == 0 { // only RFU bytes set
					for j := 0; j < 12; j++ {
						d[j] = 0
					}
				}
			}
			g.cfDecode(eu, "raw", d, nil)
		}
		// corpus: zero masks, RFU bytes set (decoded as a seventh mask before fix e2c2b92)
		g.cfDecode(eu, "raw", []byte{0xff, 0, 0, 0, 0, 0, 0, 0, 0, 0, 0, 0, 1, 2, 3, 1}, nil)
		g.cfDecode(eu, "raw", []byte{0, 0, 0, 0, 0, 0, 0, 0, 0, 0, 0, 0, 0xff, 0xff, 0, 1}, nil)
	}

	// ---- observation - call - observation, every accessor x every call -------
	for _, name := range chanobs.Names {
		base := byName(name).Index
		reps := 1
		if thorough {
			reps = 12
		}
		for rep := 0; rep < reps; rep++ {
			for kind := 0; kind < obSnap; kind++ {
				g.sandwich(cfgs[base+r.Intn(4)], kind, 0, r.Intn(3)*rep)
				for opKind := 1; opKind <= 2; opKind++ {
					if thorough || r.Intn(3) == 0 {
						g.sandwich(cfgs[base+r.Intn(4)], kind, opKind, 1+r.Intn(4))
					}
				}
			}
		}
	}

	for round := 0; round < rounds; round++ {
		for _, name := range chanobs.Names {
			if thorough || round%2 == 0 {
				g.randomTrace(cfgs[byName(name).Index+r.Intn(4)], []int{8, 24}[round%4/2])
			}
		}
	}

	// ---- histories observed at the end (fresh instance per history) ---------
	r = r0
	g.r = r
	for round := 0; round < rounds; round++ {
		for _, name := range chanobs.Names {
			cfg := cfgs[byName(name).Index+r.Intn(4)]
			if round == 0 {
				g.history("fresh", cfg, nil)
			}
			for _, m := range []int{6, 30} {
				g.history(fmt.Sprintf("random%d", m), cfg, chanobs.RandHistory(r, cfg, m))
			}
		}
	}
	if err := s.Finish(); err != nil {
		fmt.Fprintln(os.Stderr, err)
		os.Exit(2)
	}
}
