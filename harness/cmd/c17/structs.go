// Payload struct cases evaluated in Coq against LW.Backend.Payload (to_json / of_json over the type tables).
package main

import (
	"bytes"
	"encoding/json"
	"fmt"
	"math"
	"reflect"
	"time"

	"github.com/brocaar/lorawan"
	"github.com/brocaar/lorawan/backend"
	"verifharness/internal/cases"
	"verifharness/internal/cq"
)

// the Gallina name of the description of each modelled Go type (coq/theories/Backend/Payload.v)
var coqTable = map[string]string{
	"VSExtension": "t_vsextension", "Result": "t_result", "KeyEnvelope": "t_keyenvelope",
	"BasePayload": "t_basepayload", "BasePayloadResult": "t_basepayloadresult",
	"JoinReqPayload": "t_joinreq", "JoinAnsPayload": "t_joinans",
	// coq/theories/Backend/PayloadTables.v
	"GWInfoElement": "t_gwinfo", "ULMetaData": "t_ulmetadata", "DLMetaData": "t_dlmetadata",
	"ServiceProfile": "t_serviceprofile", "DeviceProfile": "t_deviceprofile",
	"RejoinReqPayload": "t_rejoinreq", "RejoinAnsPayload": "t_rejoinans", "AppSKeyReqPayload": "t_appskeyreq", "AppSKeyAnsPayload": "t_appskeyans",
	"PRStartReqPayload": "t_prstartreq", "PRStartAnsPayload": "t_prstartans", "PRStopReqPayload": "t_prstopreq", "PRStopAnsPayload": "t_prstopans",
	"HRStartReqPayload": "t_hrstartreq", "HRStartAnsPayload": "t_hrstartans", "HRStopReqPayload": "t_hrstopreq", "HRStopAnsPayload": "t_hrstopans",
	"HomeNSReqPayload": "t_homensreq", "HomeNSAnsPayload": "t_homensans", "ProfileReqPayload": "t_profilereq", "ProfileAnsPayload": "t_profileans",
	"XmitDataReqPayload": "t_xmitdatareq", "XmitDataAnsPayload": "t_xmitdataans",
}

type floatObs struct {
	seen  map[uint64]bool
	terms []string
}

// note records the text json.Marshal prints for a float64.
func (fo *floatObs) note(x float64) {
	bits := math.Float64bits(x)
	if fo.seen[bits] {
		return
	}
	fo.seen[bits] = true
	txt, err := json.Marshal(x)
	if err != nil {
		return
	}
	fo.terms = append(fo.terms, cq.Tuple(floatTerm(x), cq.Bytes(txt)))
}

func (fo *floatObs) term() string { return cq.List(fo.terms) }

// meSigned: x = m * 2^e exactly (m carries the sign).
func meSigned(x float64) (int64, int) {
	if x == 0 {
		return 0, 0
	}
	m, e := me(math.Abs(x))
	if x < 0 {
		m = -m
	}
	return m, e
}

func floatTerm(x float64) string {
	if x == 0 && math.Signbit(x) {
		return "(PrimFloat.opp (float_of_me 0%Z 0%Z))"
	}
	m, e := meSigned(x)
	return fmt.Sprintf("(float_of_me %s %s)", cq.Z(m), cq.Z(int64(e)))
}

var (
	tEUI  = reflect.TypeOf(lorawan.EUI64{})
	tAddr = reflect.TypeOf(lorawan.DevAddr{})
	tNet  = reflect.TypeOf(lorawan.NetID{})
)

// gterm prints a Go value as a gval, by reflection only (no struct tags are looked at): struct fields in
// declaration order with the fields of embedded structs in place.
func gterm(v reflect.Value, fo *floatObs) string {
	t := v.Type()
	switch t {
	case tHex:
		return "(GHex " + cq.Bytes(v.Bytes()) + ")"
	case tRaw:
		if v.IsNil() {
			return "(GRaw None)"
		}
		dec := json.NewDecoder(bytes.NewReader(v.Bytes()))
		dec.UseNumber()
		tr, err := orderedTerm(dec)
		if err != nil {
			return "(GRaw (Some (JStr " + cq.Str("unreadable raw message: "+err.Error()) + ")))"
		}
		return "(GRaw (Some " + tr + "))"
	case tISO:
		tt := time.Time(v.Interface().(backend.ISO8601Time))
		_, off := tt.Zone()
		return fmt.Sprintf("(GTime %s %s)", cq.Z(tt.Unix()), cq.Z(int64(off)))
	case tFreq:
		fo.note(float64(v.Int()) / 1000000)
		return "(GFreq " + cq.Z(v.Int()) + ")"
	case tPct:
		fo.note(float64(v.Int()) / 100)
		return "(GPct " + cq.Z(v.Int()) + ")"
	case tEUI, tAddr, tNet:
		b := make([]byte, v.Len())
		for i := range b {
			b[i] = byte(v.Index(i).Uint())
		}
		return "(GFix " + cq.Bytes(b) + ")"
	case tDLS:
		d := v.Interface().(lorawan.DLSettings)
		return fmt.Sprintf("(GDLS %s %d %d)", cq.Bool(d.OptNeg), d.RX2DataRate, d.RX1DROffset)
	}
	switch t.Kind() {
	case reflect.String:
		return "(GStr " + cq.Str(v.String()) + ")"
	case reflect.Bool:
		return "(GBool " + cq.Bool(v.Bool()) + ")"
	case reflect.Int, reflect.Int8, reflect.Int16, reflect.Int32, reflect.Int64:
		return "(GInt " + cq.Z(v.Int()) + ")"
	case reflect.Uint, reflect.Uint8, reflect.Uint16, reflect.Uint32, reflect.Uint64:
		return "(GInt " + cq.Z(int64(v.Uint())) + ")"
	case reflect.Float64:
		fo.note(v.Float())
		return "(GFloat " + floatTerm(v.Float()) + ")"
	case reflect.Ptr:
		if v.IsNil() {
			return "(GPtr None)"
		}
		return "(GPtr (Some " + gterm(v.Elem(), fo) + "))"
	case reflect.Slice:
		if v.IsNil() {
			return "(GSlice None)"
		}
		items := make([]string, v.Len())
		for i := range items {
			items[i] = gterm(v.Index(i), fo)
		}
		return "(GSlice (Some " + cq.List(items) + "))"
	case reflect.Struct:
		return "(GStruct " + cq.List(structFields(v, fo)) + ")"
	}
	panic("gterm: " + t.String())
}

func structFields(v reflect.Value, fo *floatObs) []string {
	var out []string
	t := v.Type()
	for i := 0; i < v.NumField(); i++ {
		if t.Field(i).Anonymous && t.Field(i).Type.Kind() == reflect.Struct {
			out = append(out, structFields(v.Field(i), fo)...)
			continue
		}
		out = append(out, gterm(v.Field(i), fo))
	}
	return out
}

// backTerm: json.Unmarshal of text into a zero value of the type.
func backTerm(t reflect.Type, text []byte, fo *floatObs) string {
	back := reflect.New(t)
	if err := json.Unmarshal(text, back.Interface()); err != nil {
		return cq.None
	}
	return cq.Some(gterm(back.Elem(), fo))
}

// structCoqCase: v is a pointer to the value.
func structCoqCase(s *cases.Set, v reflect.Value, name, kind string) []byte {
	t := v.Elem().Type()
	table := coqTable[t.Name()]
	fo := &floatObs{seen: map[uint64]bool{}}
	val := gterm(v.Elem(), fo)
	byValue, err1 := json.Marshal(v.Elem().Interface())
	byPtr, err2 := json.Marshal(v.Interface())
	if err1 != nil || err2 != nil {
		s.Fail(cases.GoFail{Key: "struct:coq:" + name, What: fmt.Sprintf("json.Marshal of backend.%s returns an error: %v %v", t.Name(), err1, err2),
			Replay: map[string]interface{}{"api": "json.Marshal(backend." + t.Name() + ")", "value": val}})
		return nil
	}
	ptrTerm := cq.None
	if !bytes.Equal(byValue, byPtr) {
		ptrTerm = cq.Some(cq.Bytes(byPtr))
	}
	back := backTerm(t, byValue, fo)
	js := string(byValue)
	if len(js) > 1200 {
		js = js[:600] + " ... " + js[len(js)-600:]
	}
	term := fmt.Sprintf("CStruct %s %s %s %s %s %s", table, val, fo.term(), cq.Bytes(byValue), ptrTerm, back)
	if ptrTerm == cq.None && back == cq.Some(val) { // compact form: Marshal(&x) gave the same bytes and Unmarshal gave back exactly the value
		term = fmt.Sprintf("CStructSame %s %s %s %s", table, val, fo.term(), cq.Bytes(byValue))
	}
	s.Add(cases.Case{Term: term,
		Key: "struct:coq:" + name, Kind: kind, Nontrivial: true,
		Replay: map[string]interface{}{"api": "json.Marshal(x), json.Marshal(&x), json.Unmarshal of backend." + t.Name(), "json": js, "marshal_by_pointer_differs": ptrTerm != cq.None}})
	return byValue
}

type jsonMember struct {
	key string
	val json.RawMessage
}

// topMembers: the members of a top-level object, in order.
func topMembers(doc []byte) []jsonMember {
	dec := json.NewDecoder(bytes.NewReader(doc))
	if tok, err := dec.Token(); err != nil || tok != json.Delim('{') {
		return nil
	}
	var ms []jsonMember
	for dec.More() {
		k, err := dec.Token()
		if err != nil {
			return nil
		}
		var raw json.RawMessage
		if err := dec.Decode(&raw); err != nil {
			return nil
		}
		ms = append(ms, jsonMember{k.(string), raw})
	}
	return ms
}

func joinMembers(ms []jsonMember) []byte {
	var b bytes.Buffer
	b.WriteByte('{')
	for i, m := range ms {
		if i > 0 {
			b.WriteByte(',')
		}
		k, _ := json.Marshal(m.key)
		b.Write(k)
		b.WriteByte(':')
		b.Write(m.val)
	}
	b.WriteByte('}')
	return b.Bytes()
}

// structDecodeCases: variations of a marshalled document into json.Unmarshal.
func structDecodeCases(s *cases.Set, r *cq.RNG, t reflect.Type, doc []byte, name string, thorough bool) {
	ms := topMembers(doc)
	if len(ms) == 0 {
		return
	}
	emit := func(text []byte, what string) {
		fo := &floatObs{seen: map[uint64]bool{}}
		// the float texts of the original document are needed to read it: collect them from the value it decodes to
		orig := reflect.New(t)
		if json.Unmarshal(doc, orig.Interface()) == nil {
			gterm(orig.Elem(), fo)
		}
		back := backTerm(t, text, fo)
		show := string(text)
		if len(show) > 300 {
			show = show[:300] + "..."
		}
		s.Add(cases.Case{Term: fmt.Sprintf("CStructDecode %s %s %s %s", coqTable[t.Name()], fo.term(), cq.Bytes(text), back),
			Key: fmt.Sprintf("struct:decode:%s:%s:%q", name, what, show), Kind: "struct-decode-" + what, Nontrivial: true,
			Replay: map[string]interface{}{"api": "json.Unmarshal into backend." + t.Name(), "text": string(text), "observed": back}})
	}
	cp := func() []jsonMember { return append([]jsonMember{}, ms...) }
	// an unknown member somewhere
	{
		x := cp()
		i := r.Intn(len(x) + 1)
		x = append(x[:i], append([]jsonMember{{"zzUnknown", json.RawMessage(`[1,{"a":null},"x"]`)}}, x[i:]...)...)
		emit(joinMembers(x), "unknown-member")
	}
	// members in reverse order
	{
		x := cp()
		for i, j := 0, len(x)-1; i < j; i, j = i+1, j-1 {
			x[i], x[j] = x[j], x[i]
		}
		emit(joinMembers(x), "members-reversed")
	}
	// one member dropped, one member null, one member of another JSON kind
	n := 1
	if thorough {
		n = len(ms)
	}
	for k := 0; k < n; k++ {
		i := r.Intn(len(ms))
		if thorough {
			i = k
		}
		x := cp()
		emit(joinMembers(append(x[:i], x[i+1:]...)), "member-dropped")
		x = cp()
		x[i].val = json.RawMessage("null")
		emit(joinMembers(x), "member-null")
		x = cp()
		var repl string
		switch x[i].val[0] {
		case '"':
			repl = []string{"true", "{}", "[]", "17"}[r.Intn(4)]
		case '{':
			repl = []string{`"x"`, "[]", "false"}[r.Intn(3)]
		case '[':
			repl = []string{`"x"`, "{}", "true"}[r.Intn(3)]
		default:
			repl = []string{`"x"`, "{}", "[]", `""`}[r.Intn(4)]
		}
		x[i].val = json.RawMessage(repl)
		emit(joinMembers(x), "member-of-another-kind")
	}
	// white space everywhere
	emit(respace(r, doc), "respaced")
	// not an object
	for _, d := range []string{"null", "[]", `"x"`, "1", "{}"} {
		if r.Intn(3) == 0 || thorough {
			emit([]byte(d), "not-the-object")
		}
	}
}

func structCoqCases(s *cases.Set, r *cq.RNG, thorough bool) {
	protos := []interface{}{
		backend.VSExtension{}, backend.Result{}, backend.KeyEnvelope{}, backend.BasePayload{}, backend.BasePayloadResult{},
		backend.JoinReqPayload{}, backend.JoinAnsPayload{},
		backend.GWInfoElement{}, backend.ULMetaData{}, backend.DLMetaData{}, backend.ServiceProfile{}, backend.DeviceProfile{},
		backend.RejoinReqPayload{}, backend.RejoinAnsPayload{}, backend.AppSKeyReqPayload{}, backend.AppSKeyAnsPayload{},
		backend.PRStartReqPayload{}, backend.PRStartAnsPayload{}, backend.PRStopReqPayload{}, backend.PRStopAnsPayload{},
		backend.HRStartReqPayload{}, backend.HRStartAnsPayload{}, backend.HRStopReqPayload{}, backend.HRStopAnsPayload{},
		backend.HomeNSReqPayload{}, backend.HomeNSAnsPayload{}, backend.ProfileReqPayload{}, backend.ProfileAnsPayload{},
		backend.XmitDataReqPayload{}, backend.XmitDataAnsPayload{},
	}
	for pi, p := range protos {
		t := reflect.TypeOf(p)
		n := 4 // zero value, every optional field set, two random combinations
		if pi < 7 {
			n = 8
		}
		if thorough {
			n = 120
		}
		for i := 0; i < n; i++ {
			v := reflect.New(t)
			kind := "struct-zero-value"
			switch {
			case i == 0:
			case i == 1:
				filler{r: r, full: true, small: true}.fill(v.Elem())
				kind = "struct-every-optional-field-set"
			default:
				filler{r: r, small: !thorough || i%4 != 0}.fill(v.Elem())
				kind = "struct-random-optional-fields"
			}
			doc := structCoqCase(s, v, fmt.Sprintf("%s:%d", t.Name(), i), kind)
			if doc != nil && (i < 2 && (pi < 7 || pi%3 == 0) || thorough && i%8 == 0) {
				structDecodeCases(s, r, t, doc, fmt.Sprintf("%s:%d", t.Name(), i), thorough)
			}
		}
	}
	// hand-made values at the edges of the claimed domain
	edge := func(name string, v interface{}) {
		structCoqCase(s, reflect.ValueOf(v), name, "struct-edge-value")
	}
	edge("Result:escapes", &backend.Result{ResultCode: backend.Other, Description: "a\"b\\c\n<d>&e f\U0001F600g\x7f"})
	edge("Result:invalid-utf8", &backend.Result{ResultCode: "x\xff", Description: "\xc3"})
	edge("KeyEnvelope:nil-key", &backend.KeyEnvelope{KEKLabel: "", AESKey: nil})
	edge("KeyEnvelope:empty-key", &backend.KeyEnvelope{KEKLabel: "l", AESKey: backend.HEXBytes{}})
	edge("VSExtension:empty-id", &backend.VSExtension{VendorID: backend.HEXBytes{}, Object: json.RawMessage(`{"a":[1,2,{"b":"<"}],"a":null}`)})
	edge("BasePayload:max-transaction", &backend.BasePayload{TransactionID: 4294967295, MessageType: backend.JoinReq, SenderToken: backend.HEXBytes{0}, ReceiverToken: backend.HEXBytes{}})
	lt := -9223372036854775808
	edge("JoinAnsPayload:min-lifetime", &backend.JoinAnsPayload{Lifetime: &lt, AppSKey: &backend.KeyEnvelope{}, SessionKeyID: backend.HEXBytes{1, 2}})
	nilF, emptyF := []backend.Frequency(nil), []backend.Frequency{}
	edge("DeviceProfile:nil-presets", &backend.DeviceProfile{FactoryPresetFreqs: nilF, PingSlotFreq: 4294967295, RXFreq2: 868100000, MaxDutyCycle: 29})
	edge("DeviceProfile:empty-presets", &backend.DeviceProfile{FactoryPresetFreqs: emptyF, MaxDutyCycle: 100})
	edge("DeviceProfile:presets", &backend.DeviceProfile{FactoryPresetFreqs: []backend.Frequency{0, 1, 128200000, 868300000, 4294967295}, MaxDutyCycle: 57})
	edge("DLMetaData:nil-gwinfo", &backend.DLMetaData{GWInfo: nil})
	edge("DLMetaData:empty-gwinfo", &backend.DLMetaData{GWInfo: []backend.GWInfoElement{}})
	edge("ULMetaData:empty-gwinfo", &backend.ULMetaData{GWInfo: []backend.GWInfoElement{}})
	negz, tiny, big := math.Copysign(0, -1), 5e-324, 1.7976931348623157e308
	edge("GWInfoElement:floats", &backend.GWInfoElement{SNR: &negz, Lat: &tiny, Lon: &big})
	one, third := 1.0, 1.0/3
	edge("XmitDataAnsPayload:floats", &backend.XmitDataAnsPayload{DLFreq1: &one, DLFreq2: &third})
	rt := backend.Passive
	edge("ProfileAnsPayload:roaming", &backend.ProfileAnsPayload{RoamingActivationType: &rt})
	edge("ProfileAnsPayload:nil-roaming", &backend.ProfileAnsPayload{})
	edge("ServiceProfile:target-per", &backend.ServiceProfile{TargetPER: 58, ULRatePolicy: backend.Drop, DLRatePolicy: backend.Mark, ChannelMask: backend.HEXBytes{0xff, 0}})
	edge("JoinReqPayload:dlsettings-max", &backend.JoinReqPayload{DLSettings: lorawan.DLSettings{OptNeg: true, RX2DataRate: 15, RX1DROffset: 7}, RxDelay: 9223372036854775807, DevEUI: lorawan.EUI64{255, 0, 1, 2, 3, 4, 5, 6}, DevAddr: lorawan.DevAddr{0, 0, 0, 1}})
}
