(* C01 - frame encode/decode round trip for every message type.  Statement file. *)
From Coq Require Import List NArith ZArith Bool.
From LW Require Import Base.Outcome Base.Bytes Mac.Commands Mac.Spec Mac.Stream Frame.Model Frame.Spec
     Frame.RoundtripProofs Frame.CanonProofs Text.Base64 Frame.Text.
From LW Require Text.Base64Proofs Frame.TextProofs.
From LW Require Sec.JoinAcceptProofs Crypto.AESInv.
Import ListNotations.
Open Scope N_scope.

(* every spec-valid frame value (all 8 MTypes, any FCtrl flags, 0-15 bytes of FOpts,
   FPort absent / 0 / 1..255, FRMPayload of any length, all field contents) encodes, and
   decoding those bytes yields the original frame under the stated equivalence
   wire_view: FCnt modulo 2^16, ClassB = FPending = their disjunction, FOpts and
   FRMPayload as the bytes they carry (C07 turns those back into commands), a
   join-accept as its (to the frame decoder opaque) bytes *)
Theorem C01_roundtrip : forall p, spec_valid p = true ->
  exists bs, phy_marshal p = Ok bs /\ phy_unmarshal bs = Ok (wire_view p).
Proof. exact frame_roundtrip. Qed.
Print Assumptions C01_roundtrip.

(* ... and to base64 text: MarshalText succeeds with the base64 (StdEncoding, padded) form of those
   bytes, and UnmarshalText of that text yields the same frame as the binary decoder. base64 is
   modelled (Text/Base64.v: encoder, and Go's decoder including skipped CR/LF and the padding
   rules) and compared with encoding/base64 on every text case of the correspondence run *)
Theorem C01_text_roundtrip : forall p, spec_valid p = true ->
  exists bs, phy_marshal p = Ok bs /\ phy_marshal_text p = Ok (b64_encode bs) /\
             phy_unmarshal_text (b64_encode bs) = Ok (wire_view p).
Proof. exact Frame.TextProofs.frame_text_roundtrip. Qed.
Print Assumptions C01_text_roundtrip.

(* base64 itself: decoding the encoding of any byte string returns it *)
Theorem C01_base64_roundtrip : forall bs, Forall (fun b => b < 256) bs -> b64_decode (b64_encode bs) = Some bs.
Proof. exact Text.Base64Proofs.b64_decode_encode. Qed.
Print Assumptions C01_base64_roundtrip.

(* a value the encoder refuses is never one the specification allows *)
Theorem C01_refusal_sound : forall p, phy_marshal p = Err -> spec_valid p = false.
Proof.
  intros p H. destruct (spec_valid p) eqn:E; [|reflexivity].
  destruct (frame_roundtrip p E) as (bs & Hm & _). congruence.
Qed.
Print Assumptions C01_refusal_sound.

(* join-accept payload codec (the frame decoder leaves it opaque until decrypted):
   12- and 28-byte forms, both CFList kinds; equality up to trailing all-zero channel
   masks, which the 16-byte CFList cannot represent (finding C01-1 / C04-1) *)
Theorem C01_joinaccept_codec : forall p, spec_valid p = true -> Sec.JoinAcceptProofs.is_join_accept p ->
  exists body, payload_marshal (pl p) = Ok body /\ Forall Crypto.AESInv.byte body /\
    (length body = 12 \/ length body = 28)%nat /\
    joinaccept_unmarshal body = Ok (Sec.JoinAcceptProofs.wire_payload (pl p)).
Proof. exact joinaccept_codec. Qed.
Print Assumptions C01_joinaccept_codec.

(* ... and literal equality is refuted by the recorded witness *)
Theorem C01_trailing_zero_mask_refuted :
  exists p body, spec_valid (mkPHY JoinAccept 0 p [0;0;0;0]) = true /\ payload_marshal p = Ok body /\
                 joinaccept_unmarshal body <> Ok p.
Proof.
  exists (PLJoinAccept 0 [0;0;0] [0;0;0;0] false 0 0 0
           (Some (mkCFList (CFPMasks [true :: repeat false 15; repeat false 16]) 1))).
  eexists. split; [vm_compute; reflexivity|]. split; [vm_compute; reflexivity|]. vm_compute. discriminate.
Qed.
Print Assumptions C01_trailing_zero_mask_refuted.

(* non-vacuity: one spec-valid frame per family *)
Example C01_example_data :
  spec_valid (mkPHY ConfirmedDataUp 0
     (PLMac (mkMAC (mkFHDR [1;2;3;4] (mkFCtrl true false true false true 0) 0x12345
                           [IMac 2 None; IMac 3 (Some (PLinkADRAns true true false))])
                   (Some 10) [IData [1;2;3]])) [9;9;9;9]) = true.
Proof. vm_compute. reflexivity. Qed.
