package main

// Caller-memory probes for NESTED interface-typed fields.  lorawan.Payload / MACCommandPayload are open
// interfaces: CFList.Payload, MACCommand.Payload, PHYPayload.MACPayload and the FOpts / FRMPayload elements
// may hold a *DataPayload (raw, pre-encoded bytes), a ProprietaryMACCommandPayload or a foreign implementation
// (framefmt.Opaque).  DataPayload.MarshalBinary and ProprietaryMACCommandPayload.MarshalBinary returned their own
// Bytes until fix 02a1cb6 (and a foreign implementation still may), so every encoder that appends to / returns what a nested MarshalBinary gave it touches caller memory
// when those Bytes are a sub-slice with spare capacity.  Each probe places every such slice into a guarded
// window (pattern, spare capacity, sentinel), runs one operation (marshal, MIC set / validate, encrypt), and
// requires: every backing buffer unchanged incl. capacity and guards; the output shares no memory with any of
// them; overwriting the output (whole capacity) leaves buffers and frame unchanged.  These shapes have no value
// model (the CFList of Frame.Model is typed), so the property is evaluated on the implementation:
// `nested-caller-memory:<op>:<shape>`, `nested-output-aliases:<op>:<shape>`.

import (
	"bytes"
	"fmt"
	"unsafe"

	"github.com/brocaar/lorawan"
	"verifharness/internal/cases"
	"verifharness/internal/framefmt"
)

func overlaps(a, b []byte) bool {
	a, b = a[:cap(a)], b[:cap(b)]
	if len(a) == 0 || len(b) == 0 {
		return false
	}
	a0, b0 := uintptr(unsafe.Pointer(&a[0])), uintptr(unsafe.Pointer(&b[0]))
	return a0 < b0+uintptr(len(b)) && b0 < a0+uintptr(len(a))
}

// nestedOp runs one operation on a frame whose nested byte slices live in the arena.
func (h *H) nestedOp(shape, op string, a *arena, frame interface{}, mutates bool, run func() ([]byte, error)) {
	h.nnested++
	before := make([][]byte, len(a.bufs))
	for i, b := range a.bufs {
		before[i] = append([]byte{}, b...)
	}
	text := deep(frame)
	key := op + ":" + shape
	rp := map[string]interface{}{"api": op, "shape": shape, "frame": clip(text)}
	var out []byte
	st := "ok"
	func() {
		cases.Begin("nested "+key, rp)
		defer cases.End()
		defer func() {
			if r := recover(); r != nil {
				st = fmt.Sprintf("panic: %v", r)
			}
		}()
		var err error
		if out, err = run(); err != nil {
			st = "err"
		}
	}()
	changed := func(when string) bool {
		for i, b := range a.bufs {
			if !bytes.Equal(b, before[i]) {
				if !h.nestedSeen[key+when] {
					h.nestedSeen[key+when] = true
					h.s.Fail(cases.GoFail{Key: "nested-caller-memory:" + key,
						What:   fmt.Sprintf("%s on %s changed caller memory %s: buffer %d was %x, now %x (status %s)", op, shape, when, i, before[i], b, st),
						Replay: rp})
				}
				return true
			}
		}
		return false
	}
	if changed("during the call") {
		return
	}
	if st != "ok" || out == nil {
		return
	}
	for i, b := range a.bufs {
		if overlaps(out, b) && !h.nestedSeen[key+"alias"] {
			h.nestedSeen[key+"alias"] = true
			h.s.Fail(cases.GoFail{Key: "nested-output-aliases:" + key,
				What: fmt.Sprintf("the output of %s on %s shares memory with the frame's byte slice %d", op, shape, i), Replay: rp})
		}
	}
	full := out[:cap(out)]
	for i := range full {
		full[i] ^= 0xff
	}
	if changed("when the output was overwritten") {
		return
	}
	if !mutates {
		if now := deep(frame); now != text && !h.nestedSeen[key+"frame"] {
			h.nestedSeen[key+"frame"] = true
			h.s.Fail(cases.GoFail{Key: "nested-frame-changed:" + key,
				What: fmt.Sprintf("%s on %s: the frame reads differently after the call / after its output was overwritten: %s then %s", op, shape, clip(text), clip(now)), Replay: rp})
		}
	}
}

func (h *H) nested(mult int) {
	r := h.r
	h.nestedSeen = map[string]bool{}
	key := func() (k lorawan.AES128Key) { copy(k[:], r.Bytes(16)); return }
	for rep := 0; rep < 3*mult; rep++ {
		h.forceSpare = []int{1, 4, -1}[rep%3] // the first rounds guarantee spare capacity behind every slice
		// ---- CFList.Payload: raw (*DataPayload) or foreign (Opaque) CFList inside a join-accept ----
		for _, n := range []int{15, 15, 6, 0} {
			for _, foreign := range []bool{false, true} {
				mk := func() (*arena, *lorawan.PHYPayload, *lorawan.JoinAcceptPayload, string) {
					a := h.arena()
					var pl lorawan.Payload
					shape := fmt.Sprintf("join-accept CFList.Payload=*DataPayload(%d bytes, spare capacity)", n)
					if foreign {
						pl = &framefmt.Opaque{B: r.Bytes(n)}
						shape = fmt.Sprintf("join-accept CFList.Payload=foreign Payload(%d bytes)", n)
					} else {
						s, _ := a.place(r.Bytes(n))
						pl = &lorawan.DataPayload{Bytes: s}
					}
					ja := framefmt.JoinFrame(r, 1).MACPayload.(*lorawan.JoinAcceptPayload)
					ja.CFList = &lorawan.CFList{CFListType: lorawan.CFListType(r.Intn(2)), Payload: pl}
					p := &lorawan.PHYPayload{MHDR: lorawan.MHDR{MType: lorawan.JoinAccept, Major: lorawan.LoRaWANR1}, MACPayload: ja}
					copy(p.MIC[:], r.Bytes(4))
					return a, p, ja, shape
				}
				a, p, ja, shape := mk()
				h.nestedOp(shape, "CFList.MarshalBinary", a, p, false, func() ([]byte, error) { return ja.CFList.MarshalBinary() })
				a, p, ja, shape = mk()
				h.nestedOp(shape, "JoinAcceptPayload.MarshalBinary", a, p, false, func() ([]byte, error) { return ja.MarshalBinary() })
				a, p, _, shape = mk()
				h.nestedOp(shape, "PHYPayload.MarshalBinary", a, p, false, func() ([]byte, error) { return p.MarshalBinary() })
				a, p, _, shape = mk()
				h.nestedOp(shape, "PHYPayload.MarshalText", a, p, false, func() ([]byte, error) { return p.MarshalText() })
				a, p, _, shape = mk()
				k := key()
				h.nestedOp(shape, "ValidateDownlinkJoinMIC", a, p, false, func() ([]byte, error) {
					_, err := p.ValidateDownlinkJoinMIC(lorawan.JoinRequestType, lorawan.EUI64{1}, 7, k)
					return nil, err
				})
				a, p, _, shape = mk()
				h.nestedOp(shape, "SetDownlinkJoinMIC", a, p, true, func() ([]byte, error) {
					return nil, p.SetDownlinkJoinMIC(lorawan.JoinType(r.Intn(3)), lorawan.EUI64{1}, 7, k)
				})
				a, p, _, shape = mk()
				h.nestedOp(shape, "EncryptJoinAcceptPayload", a, p, true, func() ([]byte, error) {
					if err := p.EncryptJoinAcceptPayload(k); err != nil {
						return nil, err
					}
					return p.MACPayload.(*lorawan.DataPayload).Bytes, nil
				})
			}
		}
		// ---- PHYPayload.MACPayload raw / foreign; uplink join MIC over it ----
		for _, foreign := range []bool{false, true} {
			for _, mt := range []lorawan.MType{lorawan.Proprietary, lorawan.JoinAccept, lorawan.JoinRequest} {
				mk := func() (*arena, *lorawan.PHYPayload, string) {
					a := h.arena()
					var pl lorawan.Payload
					shape := fmt.Sprintf("MType %d MACPayload=*DataPayload(spare capacity)", mt)
					if foreign {
						pl = &framefmt.Opaque{B: r.Bytes(18)}
						shape = fmt.Sprintf("MType %d MACPayload=foreign Payload", mt)
					} else {
						s, _ := a.place(r.Bytes(18))
						pl = &lorawan.DataPayload{Bytes: s}
					}
					p := &lorawan.PHYPayload{MHDR: lorawan.MHDR{MType: mt}, MACPayload: pl}
					return a, p, shape
				}
				a, p, shape := mk()
				h.nestedOp(shape, "PHYPayload.MarshalBinary", a, p, false, func() ([]byte, error) { return p.MarshalBinary() })
				a, p, shape = mk()
				k := key()
				h.nestedOp(shape, "ValidateUplinkJoinMIC", a, p, false, func() ([]byte, error) { _, err := p.ValidateUplinkJoinMIC(k); return nil, err })
				a, p, shape = mk()
				h.nestedOp(shape, "SetUplinkJoinMIC", a, p, true, func() ([]byte, error) { return nil, p.SetUplinkJoinMIC(k) })
			}
		}
		// ---- FOpts / FRMPayload elements: raw, foreign, proprietary command payloads over windows ----
		for v := 0; v < 4; v++ {
			mk := func() (*arena, *lorawan.PHYPayload, string) {
				a := h.arena()
				up := v%2 == 0
				raw := func(n int) lorawan.Payload { s, _ := a.place(r.Bytes(n)); return &lorawan.DataPayload{Bytes: s} }
				prop := func() lorawan.Payload {
					cid, n := lorawan.CID(129), 2
					if up {
						cid, n = 128, 3
					}
					s, _ := a.place(r.Bytes(n))
					return &lorawan.MACCommand{CID: cid, Payload: &lorawan.ProprietaryMACCommandPayload{Bytes: s}}
				}
				var p *lorawan.PHYPayload
				shape := ""
				if v < 2 {
					p = newDataFrame(r, up, []lorawan.Payload{raw(2), &framefmt.Opaque{B: r.Bytes(2)}, prop(), raw(1)}, 9, []lorawan.Payload{raw(3), &framefmt.Opaque{B: r.Bytes(4)}, raw(2)})
					shape = fmt.Sprintf("data frame up=%v FOpts=[raw, foreign, proprietary cmd, raw] FRMPayload=[raw, foreign, raw]", up)
				} else {
					p = newDataFrame(r, up, nil, 0, []lorawan.Payload{prop(), raw(2), prop(), &framefmt.Opaque{B: []byte{2}}})
					shape = fmt.Sprintf("data frame up=%v port 0 FRMPayload=[proprietary cmd, raw, proprietary cmd, foreign]", up)
				}
				return a, p, shape
			}
			a, p, shape := mk()
			h.nestedOp(shape, "PHYPayload.MarshalBinary", a, p, false, func() ([]byte, error) { return p.MarshalBinary() })
			a, p, shape = mk()
			m := p.MACPayload.(*lorawan.MACPayload)
			h.nestedOp(shape, "MACPayload.MarshalBinary", a, p, false, func() ([]byte, error) { return m.MarshalBinary() })
			a, p, shape = mk()
			m = p.MACPayload.(*lorawan.MACPayload)
			h.nestedOp(shape, "FHDR.MarshalBinary", a, p, false, func() ([]byte, error) { return m.FHDR.MarshalBinary() })
			k := key()
			up := v%2 == 0
			a, p, shape = mk()
			h.nestedOp(shape, "ValidateDataMIC", a, p, false, func() ([]byte, error) {
				var err error
				if up {
					_, err = p.ValidateUplinkDataMIC(lorawan.LoRaWAN1_1, 1, 2, 3, k, k)
				} else {
					_, err = p.ValidateDownlinkDataMIC(lorawan.LoRaWAN1_1, 1, k)
				}
				return nil, err
			})
			a, p, shape = mk()
			h.nestedOp(shape, "SetDataMIC", a, p, true, func() ([]byte, error) {
				if up {
					return nil, p.SetUplinkDataMIC(lorawan.LoRaWAN1_0, 0, 0, 0, k, k)
				}
				return nil, p.SetDownlinkDataMIC(lorawan.LoRaWAN1_0, 0, k)
			})
			a, p, shape = mk()
			h.nestedOp(shape, "EncryptFRMPayload", a, p, true, func() ([]byte, error) { return nil, p.EncryptFRMPayload(k) })
			a, p, shape = mk()
			h.nestedOp(shape, "EncryptFOpts", a, p, true, func() ([]byte, error) { return nil, p.EncryptFOpts(k) })
			// a MAC command with a proprietary payload window, marshalled on its own
			a = h.arena()
			s, _ := a.place(r.Bytes(3))
			mc := &lorawan.MACCommand{CID: 128, Payload: &lorawan.ProprietaryMACCommandPayload{Bytes: s}}
			h.nestedOp("MACCommand.Payload=ProprietaryMACCommandPayload(spare capacity)", "MACCommand.MarshalBinary", a, mc, false, func() ([]byte, error) { return mc.MarshalBinary() })
		}
	}
	h.forceSpare = -1
	h.s.Extra["nested_caller_memory_probes"] = h.nnested
}
