(* encoding/hex as used by the identifier types: lower-case encoding,
   case-insensitive decoding, odd length / bad digit = error, and the
   strings.TrimPrefix(s, "0x") step in front of it. *)
From Coq Require Import List NArith Bool Lia.
From Coq Require Import ZifyN ZifyNat ZifyBool.
From LW Require Import Base.Outcome Base.Bytes.
Import ListNotations.
Open Scope N_scope.

Definition hex_digit (n : N) : N := if n <? 10 then 48 + n else 87 + n.

Definition hex_val (c : N) : option N :=
  if (48 <=? c) && (c <=? 57) then Some (c - 48)
  else if (97 <=? c) && (c <=? 102) then Some (c - 87)
  else if (65 <=? c) && (c <=? 70) then Some (c - 55)
  else None.

Definition hex_enc (bs : list N) : list N :=
  flat_map (fun b => [hex_digit (b / 16); hex_digit (b mod 16)]) bs.

Fixpoint hex_dec (s : list N) : outcome (list N) :=
  match s with
  | [] => Ok []
  | [_] => Err
  | a :: b :: r =>
    match hex_val a, hex_val b with
    | Some x, Some y => do r' <- hex_dec r; Ok (x * 16 + y :: r')
    | _, _ => Err
    end
  end.

Definition trim0x (s : list N) : list N :=
  match s with
  | 48 :: 120 :: r => r
  | _ => s
  end.

Lemma hex_val_digit n : n < 16 -> hex_val (hex_digit n) = Some n.
Proof.
  intros H. unfold hex_val, hex_digit.
  destruct (n <? 10) eqn:E.
  - replace ((48 <=? 48 + n) && (48 + n <=? 57)) with true by lia. f_equal; lia.
  - replace ((48 <=? 87 + n) && (87 + n <=? 57)) with false by lia.
    replace ((97 <=? 87 + n) && (87 + n <=? 102)) with true by lia. f_equal; lia.
Qed.

Theorem hex_dec_enc bs : Forall (fun b => b < 256) bs -> hex_dec (hex_enc bs) = Ok bs.
Proof.
  induction 1 as [|b bs Hb _ IH]; [reflexivity|].
  cbn [hex_enc flat_map app]. fold (hex_enc bs).
  cbn [hex_dec]. rewrite !hex_val_digit by lia. rewrite IH. cbn [bind]. f_equal. f_equal. lia.
Qed.

Lemma hex_enc_length bs : length (hex_enc bs) = (2 * length bs)%nat.
Proof. induction bs as [|b bs IH]; [reflexivity|]. cbn [hex_enc flat_map app length]. fold (hex_enc bs). lia. Qed.

Lemma hex_digit_not_x n : hex_digit n <> 120 \/ 16 <= n.
Proof. unfold hex_digit. destruct (n <? 10) eqn:E; lia. Qed.

Lemma trim0x_enc bs : Forall (fun b => b < 256) bs -> trim0x (hex_enc bs) = hex_enc bs.
Proof.
  intros H. destruct H as [|b bs Hb _]; [reflexivity|].
  cbn [hex_enc flat_map app]. unfold trim0x.
  destruct (hex_digit (b / 16)) as [|p] eqn:E1; [reflexivity|].
  assert (H2 : hex_digit (b mod 16) <> 120).
  { destruct (hex_digit_not_x (b mod 16)); [assumption|lia]. }
  repeat (destruct p as [p|p|]; try reflexivity).
  destruct (hex_digit (b mod 16)) as [|q]; [reflexivity|].
  repeat (destruct q as [q|q|]; try reflexivity). congruence.
Qed.

Lemma trim0x_prefix s : (forall r, s <> 48 :: 120 :: r) -> trim0x (48 :: 120 :: s) = s.
Proof. reflexivity. Qed.

(* fixed-length identifier text form *)
Definition unmarshal_text (k : nat) (text : list N) : outcome (list N) :=
  do b <- hex_dec (trim0x text);
  if Nat.eqb (length b) k then Ok b else Err.

Definition marshal_text (bs : list N) : list N := hex_enc bs.

Theorem text_roundtrip k bs :
  length bs = k -> Forall (fun b => b < 256) bs ->
  unmarshal_text k (marshal_text bs) = Ok bs /\
  unmarshal_text k (48 :: 120 :: marshal_text bs) = Ok bs.
Proof.
  intros Hl Hb. unfold unmarshal_text, marshal_text.
  split.
  - rewrite trim0x_enc, hex_dec_enc by assumption. cbn [bind]. now rewrite Hl, PeanoNat.Nat.eqb_refl.
  - cbn [trim0x]. rewrite hex_dec_enc by assumption. cbn [bind]. now rewrite Hl, PeanoNat.Nat.eqb_refl.
Qed.

Lemma hex_dec_length_aux n : forall s bs, (length s <= n)%nat ->
  hex_dec s = Ok bs -> length s = (2 * length bs)%nat.
Proof.
  induction n as [|n IH]; intros s bs Hle H.
  - destruct s; [|simpl in Hle; lia]. now inversion H.
  - destruct s as [|a [|b r]]; cbn [hex_dec] in H.
    + now inversion H.
    + discriminate.
    + destruct (hex_val a), (hex_val b); try discriminate.
      apply bind_ok in H as (r' & Hr & E). inversion E; subst.
      apply IH in Hr; [|simpl in Hle; lia]. simpl. lia.
Qed.

Lemma hex_dec_length s bs : hex_dec s = Ok bs -> length s = (2 * length bs)%nat.
Proof. apply (hex_dec_length_aux (length s)). lia. Qed.

Theorem text_wrong_length k text bs :
  unmarshal_text k text = Ok bs -> length bs = k.
Proof.
  unfold unmarshal_text. intros H. apply bind_ok in H as (b & _ & H).
  destruct (Nat.eqb (length b) k) eqn:E; [|discriminate].
  inversion H; subst. now apply PeanoNat.Nat.eqb_eq.
Qed.
