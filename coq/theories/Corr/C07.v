(* Correspondence cases for C07: lossless-or-error, in-range accepted,
   self-delimiting command streams, proprietary registration histories. *)
From Coq Require Import List NArith ZArith Bool.
From LW Require Export Base.Outcome Base.Bytes Mac.Commands Mac.Spec Mac.Stream.
From LWGen Require Import RegistryGen.
Import ListNotations.
Open Scope N_scope.

Definition hist := list (bool * N * Z).

Inductive case :=
(* value, MarshalBinary outcome, UnmarshalBinary of those bytes into a fresh payload *)
| CRoundTrip (v : macpl) (o_enc : outcome (list N)) (o_dec : outcome macpl)
(* arbitrary bytes through the stream decoder under a registration history *)
| CStream (up : bool) (h : hist) (bytes : list N) (o : outcome (list item))
(* a command sequence: marshalled one by one, concatenated, decoded *)
| CCmds (up : bool) (h : hist) (cmds : list item) (o_enc : outcome (list N)) (o_dec : outcome (list item))
(* a sequence in which the harness has made at least one command inconsistent with the registry of that
   moment (a CID without the payload it has, with a payload it does not have, a proprietary payload whose
   length is not the registered size): finding C07-8 *)
| CCmdsUnchecked (up : bool) (h : hist) (cmds : list item) (o_enc : outcome (list N)) (o_dec : outcome (list item))
(* registration history: result of each call, then probes of the registry *)
| CHist (h : hist) (oks : list bool) (probes : list ((bool * N) * option (Z * kind))).

Definition oeqb := outcome_eqb bytes_eqb.
Definition peqb := outcome_eqb macpl_eqb.
Definition ieqb := outcome_eqb (list_eqb item_eqb).
Definition entry_eqb (a b : option (Z * kind)) :=
  option_eqb (fun a b => (fst a =? fst b)%Z && kind_eqb (snd a) (snd b)) a b.

Definition reg_of (h : hist) : registry := register_all builtin_registry h.

(* a command the stream property speaks about: registered CID with a payload of
   the registered kind within the specified ranges (proprietary: exactly the
   registered number of bytes), or an unregistered CID without payload *)
Definition wf_cmd (r : registry) (up : bool) (it : item) : bool :=
  match it with
  | IMac cid None => (cid <? 256) && match reg_lookup r up cid with None => true | Some _ => false end
  | IMac cid (Some v) =>
    (cid <? 256) &&
    match reg_lookup r up cid with
    | Some (sz, k) =>
      kind_eqb (kind_of v) k && spec_in_range v &&
      match v with PProprietary bs => (Z.of_nat (length bs) =? sz)%Z | _ => true end
    | None => false
    end
  | IData _ => false
  end.

Definition item_resolution (it : item) : item :=
  match it with IMac c (Some v) => IMac c (Some (wire_resolution v)) | _ => it end.

(* the registration rule, written independently of the code: for a proprietary
   CID the last accepted registration (size >= 0) wins, in that direction only;
   a positive size is the framing size, size 0 = no payload = no entry *)
Fixpoint spec_entry (h : hist) (up : bool) (cid : N) (cur : option (Z * kind)) : option (Z * kind) :=
  match h with
  | [] => cur
  | (u, c, sz) :: h' =>
    spec_entry h' up cid
      (if Bool.eqb u up && (c =? cid) && (128 <=? c) && (c <=? 255) && (0 <=? sz)%Z
       then (if (0 <? sz)%Z then Some (sz, KProprietary) else None) else cur)
  end.
Definition spec_reg_ok (x : bool * N * Z) : bool :=
  let '(_, c, sz) := x in (128 <=? c) && (c <=? 255) && (0 <=? sz)%Z.

Fixpoint results (r : registry) (h : hist) : list bool :=
  match h with
  | [] => []
  | (u, c, sz) :: h' => let '(r', ok) := register r u c sz in ok :: results r' h'
  end.

Definition check (c : case) : N :=
  match c with
  | CRoundTrip v o_enc o_dec =>
    code (oeqb (enc v) o_enc &&
          match o_enc with Ok bs => peqb (dec (kind_of v) bs) o_dec | _ => true end)
         ((if spec_in_range v then is_ok o_enc else true) &&
          match o_enc with
          | Ok _ => peqb o_dec (Ok (wire_resolution v))
          | Err => true
          | _ => false
          end)
  | CStream up h bytes o =>
    code (ieqb (decode_stream (reg_of h) up bytes) o)
         (negb (is_panic o) && match o with OutOfFuel => false | _ => true end)
  | CCmds up h cmds o_enc o_dec =>
    let r := reg_of h in
    code (oeqb (encode_cmds cmds) o_enc &&
          match o_enc with Ok bs => ieqb (decode_stream r up bs) o_dec | _ => true end)
         (if forallb (wf_cmd r up) cmds
          then is_ok o_enc && ieqb o_dec (Ok (map item_resolution cmds))
          else true)
  | CCmdsUnchecked up h cmds o_enc o_dec =>
    let r := reg_of h in
    code (oeqb (encode_cmds cmds) o_enc &&
          match o_enc with Ok bs => ieqb (decode_stream r up bs) o_dec | _ => true end)
         (* the statement without the premise "payload = what the registry holds": an error, or exactly
            the sequence.  A sequence that IS consistent does not belong here: reported as a failure of
            the harness's bookkeeping (code 2 under a key no recorded finding matches is impossible:
            the harness keys consistent sequences `cmds:`) *)
         (match o_enc with
          | Ok _ => ieqb o_dec (Ok (map item_resolution cmds))
          | Err => true
          | _ => false
          end)
  | CHist h oks probes =>
    let r := reg_of h in
    code (list_eqb Bool.eqb (results builtin_registry h) oks &&
          forallb (fun p => entry_eqb (reg_lookup r (fst (fst p)) (snd (fst p))) (snd p)) probes)
         (list_eqb Bool.eqb (map spec_reg_ok h) oks &&
          forallb (fun p => let '((up, cid), o) := p in
                            entry_eqb o (spec_entry h up cid (reg_lookup builtin_registry up cid))) probes)
  end.

Definition run_cases := run_with check.
