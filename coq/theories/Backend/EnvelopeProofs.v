(* Proofs about HEXBytes and the key envelope (C17). *)
From Coq Require Import List NArith Bool Lia PeanoNat.
From LW Require Import Base.Outcome Base.Bytes Base.Hex Crypto.KeyWrap Crypto.KeyWrapProofs
  Backend.HexBytes Backend.KeyEnvelope.
Import ListNotations.
Open Scope N_scope.

(* ---- HEXBytes ---- *)
Theorem hexbytes_roundtrip bs : Forall (fun b => b < 256) bs ->
  hexbytes_unmarshal (hexbytes_marshal bs) = Ok bs /\
  hexbytes_unmarshal (48 :: 120 :: hexbytes_marshal bs) = Ok bs.
Proof.
  intros H. unfold hexbytes_unmarshal, hexbytes_marshal. split.
  - rewrite trim0x_enc, hex_dec_enc by assumption. reflexivity.
  - cbn [trim0x]. apply hex_dec_enc. assumption.
Qed.

Theorem hexbytes_accepts_even_hex text bs : hexbytes_unmarshal text = Ok bs ->
  length (trim0x text) = (2 * length bs)%nat.
Proof. unfold hexbytes_unmarshal. apply hex_dec_length. Qed.

(* ---- key envelope, for any wrap function with the RFC 3394 inverse law ---- *)
Lemma copy16_id k : length k = 16%nat -> copy16 k = k.
Proof.
  intros H. unfold copy16. rewrite firstn_app, H, Nat.sub_diag, firstn_O, app_nil_r.
  apply firstn_all2. lia.
Qed.

Section AnyCipher.
  Variable wrapf : list N -> list N -> list N.
  Variable unwrap_rawf : list N -> list N -> list N * list N.

  Theorem no_label_clear_with label kek key :
    label = [] \/ kek = [] -> new_key_envelope_with wrapf label kek key = Ok ([], key).
  Proof.
    intros [-> | ->]; unfold new_key_envelope_with; cbn [is_nil orb]; [reflexivity|].
    now rewrite orb_true_r.
  Qed.

  Theorem labelled_is_wrapped_with label kek key :
    label <> [] -> kek_len_ok kek = true ->
    new_key_envelope_with wrapf label kek key = Ok (label, wrapf kek key).
  Proof.
    intros Hl Hk. unfold new_key_envelope_with.
    destruct label as [|a l]; [congruence|]. destruct kek as [|b k]; [discriminate|].
    cbn [is_nil orb]. now rewrite Hk.
  Qed.

  (* the law: unwrapping a wrapped 16-byte key recovers the IV and the key; wrapped keys are 24 bytes *)
  Hypothesis law : forall kek key, kek_len_ok kek = true -> length key = 16%nat -> Forall (fun b => b < 256) key ->
    unwrap_rawf kek (wrapf kek key) = (default_iv, key) /\ length (wrapf kek key) = 24%nat.

  Theorem unwrap_wrap_with label kek key :
    label <> [] -> kek_len_ok kek = true -> length key = 16%nat -> Forall (fun b => b < 256) key ->
    exists w, new_key_envelope_with wrapf label kek key = Ok (label, w) /\
              envelope_unwrap_with unwrap_rawf w kek = Ok key.
  Proof.
    intros Hl Hk Hlen Hb. exists (wrapf kek key). split; [now apply labelled_is_wrapped_with|].
    destruct (law kek key Hk Hlen Hb) as [E L].
    unfold envelope_unwrap_with. rewrite Hk, L, E. cbn [negb Nat.ltb Nat.leb].
    replace (bytes_eqb default_iv default_iv) with true by reflexivity.
    now rewrite copy16_id.
  Qed.
End AnyCipher.

(* ---- AES-128 instance ---- *)
Lemma kek16_ok kek : length kek = 16%nat -> kek_len_ok kek = true.
Proof. intros H. unfold kek_len_ok. now rewrite H. Qed.

Theorem no_label_clear label kek key :
  label = [] \/ kek = [] -> new_key_envelope label kek key = Ok ([], key).
Proof. apply no_label_clear_with. Qed.

Theorem envelope_unwrap_wrap label kek key :
  label <> [] -> length kek = 16%nat -> Forall (fun b => b < 256) kek ->
  length key = 16%nat -> Forall (fun b => b < 256) key ->
  exists w, new_key_envelope label kek key = Ok (label, w) /\ length w = 24%nat /\
            envelope_unwrap w kek = Ok key.
Proof.
  intros Hl Hk Hkb Hlen Hb. exists (wrap kek key).
  pose proof (kek16_ok kek Hk) as Hok.
  assert (L : length (wrap kek key) = 24%nat) by (rewrite (wrap_length kek key 2) by exact Hlen; lia).
  split; [now apply labelled_is_wrapped_with|]. split; [exact L|].
  unfold envelope_unwrap, envelope_unwrap_with. rewrite Hok, L. cbn [negb Nat.ltb Nat.leb].
  rewrite (unwrap_raw_wrap kek key 2 Hkb Hb Hlen).
  replace (bytes_eqb default_iv default_iv) with true by reflexivity.
  now rewrite copy16_id.
Qed.

(* unwrapping succeeds exactly when the RFC 3394 integrity check passes (data of >= 16 bytes) *)
Theorem envelope_unwrap_ok_iff_iv d kek k :
  length kek = 16%nat -> (16 <= length d)%nat ->
  (envelope_unwrap d kek = Ok k <->
   fst (unwrap_raw kek d) = default_iv /\ k = copy16 (snd (unwrap_raw kek d))) /\
  (envelope_unwrap d kek = Err <-> fst (unwrap_raw kek d) <> default_iv) /\
  envelope_unwrap d kek <> Panic.
Proof.
  intros Hk Hd. unfold envelope_unwrap, envelope_unwrap_with. rewrite (kek16_ok kek Hk). cbn [negb].
  replace (length d <? 8)%nat with false by (symmetry; apply Nat.ltb_ge; lia).
  replace (length d <? 16)%nat with false by (symmetry; apply Nat.ltb_ge; lia).
  destruct (unwrap_raw kek d) as [iv plain]. cbn [fst snd].
  destruct (bytes_eqb iv default_iv) eqn:E.
  - apply bytes_eqb_eq in E. subst iv. split; [split|split; [split|]].
    + intros H. inversion H. split; reflexivity.
    + intros [_ Hk2]. rewrite Hk2. reflexivity.
    + discriminate.
    + intros H. exfalso. apply H. reflexivity.
    + discriminate.
  - assert (Hne : iv <> default_iv).
    { intros ->. assert (T : bytes_eqb default_iv default_iv = true) by reflexivity. congruence. }
    split; [split|split; [split|]].
    + discriminate.
    + intros [Hc _]. contradiction.
    + intros _. exact Hne.
    + reflexivity.
    + discriminate.
Qed.

(* only genuine wraps are accepted: a successful unwrap of 8*(n+1) bytes means the data IS the
   RFC 3394 wrap, under this KEK, of key data whose first 16 bytes are returned *)
Theorem envelope_unwrap_only_wrapped d kek k n :
  length kek = 16%nat -> Forall (fun b => b < 256) kek -> Forall (fun b => b < 256) d ->
  length d = (8 * (n + 1))%nat -> (1 <= n)%nat ->
  envelope_unwrap d kek = Ok k -> exists p, k = copy16 p /\ wrap kek p = d.
Proof.
  intros Hk Hkb Hdb Hd Hn H.
  destruct (envelope_unwrap_ok_iff_iv d kek k Hk ltac:(lia)) as [[H1 _] _].
  destruct (H1 H) as [Hiv Hkk]. exists (snd (unwrap_raw kek d)). split; [exact Hkk|].
  apply (wrap_unwrap kek d _ n Hkb Hdb Hd).
  apply unwrap_ok_iff_iv. destruct (unwrap_raw kek d); cbn in *; congruence.
Qed.
