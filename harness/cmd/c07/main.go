// Correspondence harness for C07: lossless-or-error MAC-command codecs,
// self-delimiting command streams, proprietary registration histories.
package main

import (
	"bytes"
	"fmt"
	"io"
	"log"
	"os"
	"strings"
	"time"

	"github.com/brocaar/lorawan"
	"verifharness/internal/cases"
	"verifharness/internal/cq"
	"verifharness/internal/macfmt"
)

type reg struct {
	up   bool
	cid  byte
	size int
}

var history []reg
var histOK []bool

func histTerm() string {
	s := make([]string, len(history))
	for i, h := range history {
		s[i] = fmt.Sprintf("(%v, %d, %s)", h.up, h.cid, cq.Z(int64(h.size)))
	}
	return cq.List(s)
}

func mtype(up bool) lorawan.MType {
	if up {
		return lorawan.UnconfirmedDataUp
	}
	return lorawan.UnconfirmedDataDown
}

// decodeStream reaches decodeDataPayloadToMACCommands through the exported method.
func decodeStream(up bool, bs []byte) (s string) {
	cases.Begin(fmt.Sprintf("DecodeFRMPayloadToMACCommands:up=%v:%x", up, bs), map[string]interface{}{"api": "PHYPayload.DecodeFRMPayloadToMACCommands", "uplink": up, "bytes": fmt.Sprintf("%x", bs)})
	defer cases.End()
	defer func() {
		if r := recover(); r != nil {
			s = cq.Panic
		}
	}()
	port := uint8(0)
	phy := lorawan.PHYPayload{MHDR: lorawan.MHDR{MType: mtype(up), Major: lorawan.LoRaWANR1},
		MACPayload: &lorawan.MACPayload{FPort: &port, FRMPayload: []lorawan.Payload{&lorawan.DataPayload{Bytes: append([]byte{}, bs...)}}}}
	if err := phy.DecodeFRMPayloadToMACCommands(); err != nil {
		return cq.Err
	}
	return cq.Ok(macfmt.Items(phy.MACPayload.(*lorawan.MACPayload).FRMPayload))
}

func roundTrip(s *cases.Set, p lorawan.MACCommandPayload, ki int) {
	t := macfmt.Payload(p)
	oenc, odec := cq.Err, cq.Err
	func() {
		defer func() {
			if r := recover(); r != nil {
				oenc = cq.Panic
			}
		}()
		b, err := p.MarshalBinary()
		if err != nil {
			return
		}
		oenc = cq.Ok(cq.Bytes(b))
		q := macfmt.Kinds[ki].New()
		func() {
			defer func() {
				if r := recover(); r != nil {
					odec = cq.Panic
				}
			}()
			if err := q.UnmarshalBinary(append([]byte{}, b...)); err == nil {
				odec = cq.Ok(macfmt.Payload(q))
			}
		}()
	}()
	key := "rt:" + t
	if v, ok := p.(*lorawan.NewChannelReqPayload); ok && v.Freq >= 1200000000 && v.Freq < 1677721600 && v.Freq%100 == 0 && v.MaxDR <= 15 && v.MinDR <= 15 {
		key = fmt.Sprintf("rt:NewChannelReq:100Hz-step-frequency-in-1.2GHz..1.6777GHz:freq=%d", v.Freq)
	}
	s.Add(cases.Case{Term: fmt.Sprintf("CRoundTrip %s %s %s", t, oenc, odec), Key: key, Kind: "roundtrip-" + macfmt.Kinds[ki].Name,
		Nontrivial: true, Replay: map[string]interface{}{"api": macfmt.Kinds[ki].Name + " MarshalBinary then UnmarshalBinary", "value": t}})
}

func registerOne(s *cases.Set, up bool, cid byte, size int) bool {
	err := lorawan.RegisterProprietaryMACCommand(up, lorawan.CID(cid), size)
	history = append(history, reg{up, cid, size})
	histOK = append(histOK, err == nil)
	return err == nil
}

// sizesNow returns proprietary CIDs usable in the given direction with their size.
func propNow(up bool) map[byte]int {
	m := map[byte]int{}
	for _, h := range history {
		if h.up != up || h.cid < 128 || h.size < 0 {
			continue
		}
		if h.size > 0 { // the last accepted registration decides ...
			m[h.cid] = h.size
		} else { // ... and size 0 means "no payload": the CID is framed with 0 bytes again
			delete(m, h.cid)
		}
	}
	return m
}

// sizeNow is the harness's own book-keeping of what (direction, CID) carries: the specification's
// table for built-in CIDs, the registration history for proprietary ones. It never asks the library.
func sizeNow(up bool, cid byte) (size int, kind string) {
	for _, b := range macfmt.Builtin {
		if b.Up == up && byte(b.CID) == cid {
			return macfmt.Kinds[macfmt.KindIndex(b.Kind)].Size, b.Kind
		}
	}
	if n, ok := propNow(up)[cid]; ok {
		return n, "KProprietary"
	}
	return 0, ""
}

// inconsistent says whether a command is NOT a command of the direction at this moment: a CID
// without the payload it has, with a payload it does not have, with a payload of another kind, or
// a proprietary payload whose length is not the registered size. (Finding C07-8.)
func inconsistent(up bool, mc *lorawan.MACCommand) (bool, string) {
	size, kind := sizeNow(up, byte(mc.CID))
	if mc.Payload == nil {
		return kind != "", "nil-payload"
	}
	if kind == "" {
		return true, "foreign-payload"
	}
	if pp, ok := mc.Payload.(*lorawan.ProprietaryMACCommandPayload); ok {
		if kind != "KProprietary" {
			return true, "foreign-payload"
		}
		return len(pp.Bytes) != size, "prop-len"
	}
	return macfmt.KindOf(mc.Payload) != kind, "foreign-payload"
}

// uncheckedCase: a valid sequence with one command made inconsistent at a random position.
// MACCommand.MarshalBinary accepts it (no direction argument, no look at the registry); the bytes
// decode as another sequence or not at all. Recorded as finding C07-8 (known): the case is keyed
// `cmds-unchecked:<class>:...` only after the harness's own book-keeping confirms the inconsistency.
func uncheckedCase(s *cases.Set, r *cq.RNG, up bool, base []lorawan.Payload, bad *lorawan.MACCommand, at int, tag string) {
	isBad, class := inconsistent(up, bad)
	if !isBad {
		panic("c07: uncheckedCase with a consistent command " + macfmt.Item(bad))
	}
	if at > len(base) {
		at = len(base)
	}
	cmds := append(append(append([]lorawan.Payload{}, base[:at]...), bad), base[at:]...)
	var all []byte
	oenc := ""
	func() {
		defer func() {
			if rec := recover(); rec != nil {
				oenc = cq.Panic
			}
		}()
		for _, c := range cmds {
			b, err := c.MarshalBinary()
			if err != nil {
				oenc = cq.Err
				return
			}
			all = append(all, b...)
		}
		oenc = cq.Ok(cq.Bytes(all))
	}()
	odec := cq.Err
	if strings.HasPrefix(oenc, "(Ok") {
		odec = decodeStream(up, all)
	}
	t := macfmt.Items(cmds)
	s.Add(cases.Case{Term: fmt.Sprintf("CCmdsUnchecked %v %s %s %s %s", up, histTerm(), t, oenc, odec),
		Key: fmt.Sprintf("cmds-unchecked:%s:up=%v:at=%d:%x", class, up, at, all), Kind: "cmds-unchecked-" + tag + "-" + class, Nontrivial: true,
		Replay: map[string]interface{}{"api": "MACCommand.MarshalBinary x n (one command inconsistent with the registry), PHYPayload.DecodeFRMPayloadToMACCommands",
			"uplink": up, "commands": t, "inconsistent": macfmt.Item(bad), "class": class, "history": histTerm(), "bytes": fmt.Sprintf("%x", all)}})
}

// randomBad makes a command that is not one of the direction: see inconsistent.
func randomBad(r *cq.RNG, up bool) *lorawan.MACCommand {
	var with, without []byte // CIDs with / without a payload in this direction (harness book-keeping)
	for c := 0; c < 256; c++ {
		if _, k := sizeNow(up, byte(c)); k != "" {
			with = append(with, byte(c))
		} else {
			without = append(without, byte(c))
		}
	}
	for {
		var mc *lorawan.MACCommand
		switch r.Intn(5) {
		case 0: // the payload is missing
			mc = &lorawan.MACCommand{CID: lorawan.CID(with[r.Intn(len(with))])}
		case 1: // a payload (of any built-in kind) for a CID that has none
			mc = &lorawan.MACCommand{CID: lorawan.CID(without[r.Intn(len(without))]), Payload: macfmt.Random(r, r.Intn(len(macfmt.Kinds)), true)}
		case 2: // proprietary bytes for a CID that has none (never registered, de-registered, other direction only)
			mc = &lorawan.MACCommand{CID: lorawan.CID(without[r.Intn(len(without))] | 0x80), Payload: &lorawan.ProprietaryMACCommandPayload{Bytes: r.Bytes(1 + r.Intn(4))}}
		case 3: // a built-in CID with the payload of another kind
			mc = &lorawan.MACCommand{CID: lorawan.CID(with[r.Intn(len(with))]), Payload: macfmt.Random(r, r.Intn(len(macfmt.Kinds)), true)}
		default: // a registered proprietary CID with more or fewer bytes than registered
			prop := propNow(up)
			if len(prop) == 0 {
				continue
			}
			var cids []byte
			for c := 128; c < 256; c++ {
				if _, ok := prop[byte(c)]; ok {
					cids = append(cids, byte(c))
				}
			}
			cid := cids[r.Intn(len(cids))]
			n := prop[cid] + []int{-1, 1, 2, -prop[cid], 7}[r.Intn(5)]
			if n < 0 {
				n = 0
			}
			mc = &lorawan.MACCommand{CID: lorawan.CID(cid), Payload: &lorawan.ProprietaryMACCommandPayload{Bytes: r.Bytes(n)}}
		}
		if bad, _ := inconsistent(up, mc); bad {
			if _, err := mc.MarshalBinary(); err == nil {
				return mc
			}
		}
	}
}

func randomCmds(r *cq.RNG, up bool, maxBytes int, valid bool) []lorawan.Payload {
	var out []lorawan.Payload
	total := 0
	var dir []int
	for i, b := range macfmt.Builtin {
		if b.Up == up {
			dir = append(dir, i)
		}
	}
	prop := propNow(up)
	var pcids []byte
	for c := 0; c < 256; c++ {
		if _, ok := prop[byte(c)]; ok {
			pcids = append(pcids, byte(c))
		}
	}
	n := 1 + r.Intn(40)
	for i := 0; i < n; i++ {
		var mc *lorawan.MACCommand
		switch c := r.Intn(10); {
		case c < 7:
			b := macfmt.Builtin[dir[r.Intn(len(dir))]]
			ki := macfmt.KindIndex(b.Kind)
			mc = &lorawan.MACCommand{CID: b.CID, Payload: macfmt.Random(r, ki, valid || r.Intn(4) != 0)}
		case c < 8 && len(pcids) > 0:
			cid := pcids[r.Intn(len(pcids))]
			// the payload is a sub-slice with spare capacity of a buffer the caller owns (another command's
			// payload may sit right behind it): marshalling must not write there
			buf := r.Bytes(prop[cid] + r.Intn(6))
			mc = &lorawan.MACCommand{CID: lorawan.CID(cid), Payload: &lorawan.ProprietaryMACCommandPayload{Bytes: buf[:prop[cid]]}}
		default:
			// a CID without payload in this direction (LinkCheckReq, DevStatusReq, DeviceTimeReq, unregistered proprietary ...)
			var cid byte
			for {
				cid = r.Byte()
				if _, _, err := lorawan.GetMACPayloadAndSize(up, lorawan.CID(cid)); err != nil {
					break
				}
			}
			mc = &lorawan.MACCommand{CID: lorawan.CID(cid)}
		}
		b, err := mc.MarshalBinary()
		if err != nil {
			if valid {
				continue
			}
		}
		if total+len(b) > maxBytes {
			break
		}
		total += len(b)
		out = append(out, mc)
	}
	return out
}

// backing returns the caller-owned memory behind the proprietary payloads of cmds (up to capacity)
func backing(cmds []lorawan.Payload) string {
	out := ""
	for _, c := range cmds {
		if mc, ok := c.(*lorawan.MACCommand); ok {
			if pp, ok := mc.Payload.(*lorawan.ProprietaryMACCommandPayload); ok {
				out += fmt.Sprintf("%x|", pp.Bytes[:cap(pp.Bytes)])
			}
		}
	}
	return out
}

// frameRoute sends the same command sequence through the frame encoders (FHDR FOpts when it fits in 15
// bytes, and a port-0 FRMPayload) and through the frame decoder + DecodeFOptsToMACCommands /
// DecodeFRMPayloadToMACCommands. The per-command results (oenc, odec) are compared with the model in
// Coq; here the frame route must agree with them: an out-of-range command anywhere in the sequence is
// reported by the frame encoder too, and an encodable sequence comes back as the same commands.
func frameRoute(s *cases.Set, up bool, cmds []lorawan.Payload, all []byte, oenc, odec string) {
	if oenc == cq.Panic {
		return
	}
	t := macfmt.Items(cmds)
	try := func(where string, build func() *lorawan.MACPayload, get func(m *lorawan.MACPayload) []lorawan.Payload, decode func(p *lorawan.PHYPayload) error) {
		defer func() {
			if rec := recover(); rec != nil {
				s.Fail(cases.GoFail{Key: "frame-route-panic:" + where + ":" + t, What: fmt.Sprintf("panic: %v", rec), Replay: map[string]interface{}{"commands": t, "uplink": up}})
			}
		}()
		phy := lorawan.PHYPayload{MHDR: lorawan.MHDR{MType: mtype(up), Major: lorawan.LoRaWANR1}, MACPayload: build()}
		b, err := phy.MarshalBinary()
		if oenc == cq.Err {
			if err == nil {
				s.Fail(cases.GoFail{Key: "frame-route:" + where + ":unreported:" + t, What: "a command of the sequence cannot be encoded, but the frame encoder reports no error (bytes " + fmt.Sprintf("%x", b) + ")",
					Replay: map[string]interface{}{"commands": t, "uplink": up, "where": where}})
			}
			return
		}
		if err != nil {
			s.Fail(cases.GoFail{Key: "frame-route:" + where + ":refused:" + t, What: "every command encodes on its own but the frame encoder refuses the sequence: " + err.Error(),
				Replay: map[string]interface{}{"commands": t, "uplink": up, "where": where}})
			return
		}
		var q lorawan.PHYPayload
		got := cq.Err
		if q.UnmarshalBinary(b) == nil && decode(&q) == nil {
			got = cq.Ok(macfmt.Items(get(q.MACPayload.(*lorawan.MACPayload))))
		}
		if got != odec {
			s.Fail(cases.GoFail{Key: "frame-route:" + where + ":differs:" + t, What: "through the frame the sequence decodes to " + got + ", the command stream alone to " + odec,
				Replay: map[string]interface{}{"commands": t, "uplink": up, "where": where, "frame": fmt.Sprintf("%x", b)}})
		}
	}
	if len(all) <= 15 || oenc == cq.Err {
		try("fopts", func() *lorawan.MACPayload { return &lorawan.MACPayload{FHDR: lorawan.FHDR{FOpts: cmds}} },
			func(m *lorawan.MACPayload) []lorawan.Payload { return m.FHDR.FOpts }, func(p *lorawan.PHYPayload) error { return p.DecodeFOptsToMACCommands() })
	}
	port := uint8(0)
	try("frmpayload", func() *lorawan.MACPayload { return &lorawan.MACPayload{FPort: &port, FRMPayload: cmds} },
		func(m *lorawan.MACPayload) []lorawan.Payload { return m.FRMPayload }, func(p *lorawan.PHYPayload) error { return p.DecodeFRMPayloadToMACCommands() })
}

func cmdsCase(s *cases.Set, r *cq.RNG, up bool, cmds []lorawan.Payload, tag string) {
	var all []byte
	oenc := ""
	t0 := macfmt.Items(cmds)
	mem0 := backing(cmds)
	defer func() {
		// encoding only inspects the commands: neither their values nor the memory behind their slices may change,
		// and encoding them again gives the same bytes
		if t1, mem1 := macfmt.Items(cmds), backing(cmds); t1 != t0 || mem1 != mem0 {
			s.Fail(cases.GoFail{Key: "marshal-changes-commands:" + t0, What: "MACCommand.MarshalBinary changed the commands or caller-owned memory behind a payload slice",
				Replay: map[string]interface{}{"commands_before": t0, "commands_after": t1, "memory_before": mem0, "memory_after": mem1}})
			return
		}
		if strings.HasPrefix(oenc, "(Ok") {
			var again []byte
			for _, c := range cmds {
				if b, err := c.MarshalBinary(); err == nil {
					again = append(again, b...)
				}
			}
			if !bytes.Equal(again, all) {
				s.Fail(cases.GoFail{Key: "marshal-twice:" + t0, What: fmt.Sprintf("encoding the same commands a second time gives %x instead of %x", again, all),
					Replay: map[string]interface{}{"commands": t0}})
			}
		}
	}()
	func() {
		defer func() {
			if rec := recover(); rec != nil {
				oenc = cq.Panic
			}
		}()
		for _, c := range cmds {
			b, err := c.MarshalBinary()
			if err != nil {
				oenc = cq.Err
				return
			}
			all = append(all, b...)
		}
		oenc = cq.Ok(cq.Bytes(all))
	}()
	odec := cq.Err
	if strings.HasPrefix(oenc, "(Ok") {
		odec = decodeStream(up, all)
	}
	frameRoute(s, up, cmds, all, oenc, odec)
	t := macfmt.Items(cmds)
	s.Add(cases.Case{Term: fmt.Sprintf("CCmds %v %s %s %s %s", up, histTerm(), t, oenc, odec),
		Key: fmt.Sprintf("cmds:up=%v:%x", up, all), Kind: fmt.Sprintf("cmds-%s-up=%v", tag, up), Nontrivial: len(cmds) > 1,
		Replay: map[string]interface{}{"api": "MACCommand.MarshalBinary x n, PHYPayload.DecodeFRMPayloadToMACCommands", "uplink": up, "commands": t, "history": histTerm(), "bytes": fmt.Sprintf("%x", all)}})
}

// histCase: results of every registration so far + probes of the registry
func histCase(s *cases.Set, tag string) {
	var oks []string
	for i := range history {
		oks = append(oks, cq.Bool(histOK[i]))
	}
	var probes []string
	for _, up := range []bool{false, true} {
		for cid := 0; cid < 256; cid++ {
			if cid < 0x30 || cid >= 0x7c || cid%16 == 0 {
				p, size, err := lorawan.GetMACPayloadAndSize(up, lorawan.CID(cid))
				o := cq.None
				if err == nil {
					o = cq.Some(cq.Tuple(cq.Z(int64(size)), macfmt.KindOf(p)))
				}
				probes = append(probes, fmt.Sprintf("((%v, %d), %s)", up, cid, o))
			}
		}
	}
	s.Add(cases.Case{Term: fmt.Sprintf("CHist %s %s %s", histTerm(), cq.List(oks), cq.List(probes)),
		Key: fmt.Sprintf("hist:%s:%s", tag, histTerm()), Kind: "registration-history", Nontrivial: len(history) > 0,
		Replay: map[string]interface{}{"api": "RegisterProprietaryMACCommand history then GetMACPayloadAndSize", "history": histTerm()}})
}

func streamCase(s *cases.Set, up bool, bs []byte) {
	s.Add(cases.Case{Term: fmt.Sprintf("CStream %v %s %s %s", up, histTerm(), cq.Bytes(bs), decodeStream(up, bs)),
		Key: fmt.Sprintf("stream:up=%v:%x", up, bs), Kind: fmt.Sprintf("raw-stream-up=%v", up), Nontrivial: len(bs) > 1,
		Replay: map[string]interface{}{"api": "PHYPayload.DecodeFRMPayloadToMACCommands", "uplink": up, "bytes": fmt.Sprintf("%x", bs), "history": histTerm()}})
}

func main() {
	log.SetOutput(io.Discard)
	dir, seed, thorough := cases.Args()
	r := cq.NewRNG(seed)
	s := cases.New("C07", dir, "LW.Corr.C07",
		"round trips: per payload kind full-domain sweeps of single-byte fields, boundary+random for uint32/int8/int/Duration fields (in-range and out-of-range streams); command sequences of 1..40 commands up to 15 (FOpts) and 242 (FRMPayload) bytes per direction with built-in, proprietary-registered and payload-less CIDs; raw byte strings through the stream decoder; cumulative proprietary registration histories (CIDs 0..255, sizes 0..20, size 0 after a positive size and the reverse, in both directions; negative sizes are exercised by cmd/c09 in a child process) with registry probes; the empty sequence; sequences with one command that is not a command of the direction (payload missing, foreign, proprietary length not the registered size: finding C07-8). Non-trivial: sequences with >1 command, all other cases.")
	s.ShardSize = 400
	s.Watchdog(3 * time.Second)
	nRT, nSeq, nRaw := 40, 120, 100
	if thorough {
		nRT, nSeq, nRaw = 900, 3000, 2500
	}
	// corpus: witnesses of recorded findings first
	roundTrip(s, &lorawan.NewChannelReqPayload{ChIndex: 3, Freq: 1300000000, MaxDR: 5, MinDR: 0}, macfmt.KindIndex("KNewChannelReq")) // C07-2 (known)
	roundTrip(s, &lorawan.NewChannelReqPayload{ChIndex: 3, Freq: 2400000100, MaxDR: 5, MinDR: 0}, macfmt.KindIndex("KNewChannelReq")) // C07-1 (fixed)
	roundTrip(s, &lorawan.DeviceTimeAnsPayload{TimeSinceGPSEpoch: -1000000000}, macfmt.KindIndex("KDeviceTimeAns"))                   // C07-3 (fixed)
	roundTrip(s, &lorawan.TXParamSetupReqPayload{UplinkDwellTime: 2, MaxEIRP: 3}, macfmt.KindIndex("KTXParamSetupReq"))               // C07-4 (fixed)
	roundTrip(s, &lorawan.ForceRejoinReqPayload{Period: 4, MaxRetries: 3, RejoinType: 1, DR: 2}, macfmt.KindIndex("KForceRejoinReq")) // C07-5 (fixed): 0e 12 23
	for rt := 0; rt < 8; rt++ {                                                                                                       // RejoinType: the whole 3-bit field and beyond
		roundTrip(s, &lorawan.ForceRejoinReqPayload{Period: 3, MaxRetries: 4, RejoinType: uint8(rt), DR: 5}, macfmt.KindIndex("KForceRejoinReq"))
	}
	// C07-7 (fixed): the empty command sequence, in FOpts and on port 0 (FPort 0 without FRMPayload), both directions
	cmdsCase(s, r, false, nil, "empty")
	cmdsCase(s, r, true, nil, "empty")
	// C07-8 (known): commands that are not commands of the direction; witnesses of C07_stream_unchecked_refuted
	dsr := func() lorawan.Payload { return &lorawan.MACCommand{CID: lorawan.DevStatusReq} }
	uncheckedCase(s, r, false, []lorawan.Payload{dsr(), dsr(), dsr(), dsr()}, &lorawan.MACCommand{CID: lorawan.LinkADRReq}, 0, "witness")
	uncheckedCase(s, r, false, nil, &lorawan.MACCommand{CID: lorawan.DevStatusReq, Payload: &lorawan.DevStatusAnsPayload{Battery: 6, Margin: 6}}, 0, "witness")
	// C07-6 (fixed): a size, then size 0, both accepted: the CID is framed with 0 bytes again. The auditor's history
	// (uplink 0x90: 3 then 0, stream 90 02 02 02 = four commands), the same downlink, and the reverse order (0 then 4)
	registerOne(s, true, 0x90, 3)
	registerOne(s, true, 0x90, 0)
	registerOne(s, false, 0x91, 5)
	registerOne(s, false, 0x91, 0)
	registerOne(s, false, 0x92, 0)
	registerOne(s, false, 0x92, 4)
	histCase(s, "corpus")
	lcr := func() lorawan.Payload { return &lorawan.MACCommand{CID: lorawan.LinkCheckReq} }
	cmdsCase(s, r, true, []lorawan.Payload{&lorawan.MACCommand{CID: 0x90}, lcr(), lcr(), lcr()}, "reregister-zero")
	cmdsCase(s, r, false, []lorawan.Payload{&lorawan.MACCommand{CID: 0x91}, dsr(), dsr(), dsr(), dsr(), dsr()}, "reregister-zero")
	cmdsCase(s, r, false, []lorawan.Payload{&lorawan.MACCommand{CID: 0x92, Payload: &lorawan.ProprietaryMACCommandPayload{Bytes: []byte{6, 6, 6, 6}}}, dsr()}, "reregister-zero")
	streamCase(s, true, []byte{0x90, 0x02, 0x02, 0x02})
	streamCase(s, false, []byte{0x91, 0x06, 0x06, 0x06, 0x06, 0x06})
	streamCase(s, false, []byte{0x92, 0x06, 0x06, 0x06, 0x06, 0x06})
	// C07-8 (known), proprietary part: registered with 2 bytes, sent with 3, with 1, and under a CID never registered
	registerOne(s, false, 0xa0, 2)
	uncheckedCase(s, r, false, []lorawan.Payload{dsr(), dsr()}, &lorawan.MACCommand{CID: 0xa0, Payload: &lorawan.ProprietaryMACCommandPayload{Bytes: []byte{6, 6, 6}}}, 0, "witness")
	uncheckedCase(s, r, false, []lorawan.Payload{dsr(), dsr()}, &lorawan.MACCommand{CID: 0xa0, Payload: &lorawan.ProprietaryMACCommandPayload{Bytes: []byte{6}}}, 0, "witness")
	uncheckedCase(s, r, false, []lorawan.Payload{dsr(), dsr()}, &lorawan.MACCommand{CID: 0xa1, Payload: &lorawan.ProprietaryMACCommandPayload{Bytes: []byte{6, 6}}}, 0, "witness")
	// frequency fields: every residue class that matters for the 100 Hz / 200 Hz stepping around bases of every range
	for _, base := range []uint32{0, 868100000, 1199999900, 1200000000, 1677721400, 2399999800, 2400000000, 2422000000, 2483400000, 3355443000, 3355443200, 4294967000} {
		for _, d := range []uint32{0, 1, 2, 50, 99, 100, 101, 150, 199, 200, 201} {
			f := base + d
			roundTrip(s, &lorawan.NewChannelReqPayload{ChIndex: uint8(d), Freq: f, MaxDR: 5, MinDR: 1}, macfmt.KindIndex("KNewChannelReq"))
			roundTrip(s, &lorawan.DLChannelReqPayload{ChIndex: uint8(d), Freq: f}, macfmt.KindIndex("KDLChannelReq"))
			roundTrip(s, &lorawan.BeaconFreqReqPayload{Frequency: f}, macfmt.KindIndex("KBeaconFreqReq"))
			roundTrip(s, &lorawan.PingSlotChannelReqPayload{Frequency: f, DR: 3}, macfmt.KindIndex("KPingSlotChannelReq"))
			roundTrip(s, &lorawan.RXParamSetupReqPayload{Frequency: f, DLSettings: lorawan.DLSettings{RX2DataRate: 2, RX1DROffset: 1}}, macfmt.KindIndex("KRXParamSetupReq"))
		}
	}
	for ki := range macfmt.Kinds {
		for i := 0; i < nRT; i++ {
			roundTrip(s, macfmt.Random(r, ki, true), ki)
			roundTrip(s, macfmt.Random(r, ki, false), ki)
		}
	}
	// full uint8 domain of every single-byte-field payload
	for v := 0; v < 256; v++ {
		b := byte(v)
		roundTrip(s, &lorawan.DutyCycleReqPayload{MaxDCycle: b}, macfmt.KindIndex("KDutyCycleReq"))
		roundTrip(s, &lorawan.RXTimingSetupReqPayload{Delay: b}, macfmt.KindIndex("KRXTimingSetupReq"))
		roundTrip(s, &lorawan.PingSlotInfoReqPayload{Periodicity: b}, macfmt.KindIndex("KPingSlotInfoReq"))
		roundTrip(s, &lorawan.RekeyIndPayload{DevLoRaWANVersion: lorawan.Version{Minor: b}}, macfmt.KindIndex("KRekeyInd"))
		roundTrip(s, &lorawan.DeviceModeConfPayload{Class: lorawan.DeviceModeClass(b)}, macfmt.KindIndex("KDeviceModeConf"))
		roundTrip(s, &lorawan.DevStatusAnsPayload{Battery: b, Margin: int8(b)}, macfmt.KindIndex("KDevStatusAns"))
		roundTrip(s, &lorawan.TXParamSetupReqPayload{MaxEIRP: b}, macfmt.KindIndex("KTXParamSetupReq"))
		roundTrip(s, &lorawan.ADRParamSetupReqPayload{ADRParam: lorawan.ADRParam{LimitExp: b, DelayExp: 255 - b}}, macfmt.KindIndex("KADRParamSetupReq"))
		roundTrip(s, &lorawan.ForceRejoinReqPayload{Period: b & 7, MaxRetries: b >> 3 & 7, RejoinType: b >> 6, DR: b & 15}, macfmt.KindIndex("KForceRejoinReq"))
		roundTrip(s, &lorawan.LinkADRReqPayload{DataRate: b >> 4, TXPower: b & 15, Redundancy: lorawan.Redundancy{ChMaskCntl: b & 7, NbRep: b >> 3 & 15}}, macfmt.KindIndex("KLinkADRReq"))
	}
	s.Exhaustive("full uint8 domain of the single-byte fields of 10 payload kinds")
	// phases: sequences under a growing registration history
	for phase := 0; phase < 6; phase++ {
		if phase > 0 {
			// a few registrations: any CID, sizes 0..20, both directions; never negative here
			for j := 0; j < 4; j++ {
				cid := r.Byte()
				if r.Intn(3) != 0 {
					cid |= 0x80
				}
				if r.Intn(5) == 0 && len(history) > 0 { // re-register an earlier CID with another size
					cid = history[r.Intn(len(history))].cid
				}
				size := r.Intn(21)
				if r.Intn(6) == 0 {
					size = 0
				}
				registerOne(s, r.Bool(), cid, size)
			}
			// re-register an earlier proprietary (direction, CID) with a different positive size: the last one must win
			for _, h := range history {
				if h.cid >= 128 && h.size > 0 {
					registerOne(s, h.up, h.cid, h.size%20+1)
					break
				}
			}
			// size 0 after a positive size takes the registration back (C07-6), in each direction; and a positive
			// size after size 0 registers as usual
			for _, up := range []bool{false, true} {
				prop := propNow(up)
				for c := 128; c < 256; c++ { // in CID order: map iteration order must not reach the case stream
					if _, ok := prop[byte(c)]; ok && r.Intn(3) == 0 {
						registerOne(s, up, byte(c), 0)
						if r.Intn(2) == 0 {
							registerOne(s, up, byte(c), 1+r.Intn(6))
						}
						break
					}
				}
			}
		}
		if phase > 0 {
			// "framed with that size in that direction only": one CID registered in both directions with different
			// sizes, one in a single direction; then commands of those CIDs in each direction, several times (a choice
			// between the two registrations that is made per call must show up)
			both, single := byte(0xe0+phase), byte(0xf0+phase)
			su, sd := 1+r.Intn(5), 6+r.Intn(5)
			registerOne(s, true, both, su)
			registerOne(s, false, both, sd)
			ss := 1 + r.Intn(8)
			registerOne(s, phase%2 == 0, single, ss)
			// a registration with size 0 of a CID that carries no registration is a no-op, however often it is made
			// (a count of live registrations kept beside the registry must not drift): many of them, then the
			// live CIDs are still framed with their sizes (the sequences below)
			for k := 0; k < 64; k++ {
				registerOne(s, true, 0xfd, 0)
				registerOne(s, false, 0xfc, 0)
			}
			prop := func(c byte, n int) lorawan.Payload {
				return &lorawan.MACCommand{CID: lorawan.CID(c), Payload: &lorawan.ProprietaryMACCommandPayload{Bytes: r.Bytes(n)}}
			}
			for k := 0; k < 6; k++ {
				cmdsCase(s, r, true, []lorawan.Payload{prop(both, su), &lorawan.MACCommand{CID: lorawan.LinkCheckReq}, prop(both, su)}, "two-direction-sizes")
				cmdsCase(s, r, false, []lorawan.Payload{prop(both, sd), &lorawan.MACCommand{CID: lorawan.DevStatusReq}}, "two-direction-sizes")
				cmdsCase(s, r, phase%2 == 0, []lorawan.Payload{prop(single, ss), prop(single, ss)}, "one-direction-size")
			}
		}
		histCase(s, fmt.Sprintf("phase=%d", phase))
		for i := 0; i < nSeq/6; i++ {
			up := r.Bool()
			cmdsCase(s, r, up, randomCmds(r, up, 15, true), "fopts-valid")
			cmdsCase(s, r, up, randomCmds(r, up, 242, true), "frm-valid")
			cmdsCase(s, r, up, randomCmds(r, up, 60, false), "mixed")
			base := randomCmds(r, up, 40, true)
			uncheckedCase(s, r, up, base, randomBad(r, up), r.Intn(len(base)+1), "random")
		}
		for i := 0; i < nRaw/6; i++ {
			up := r.Bool()
			n := r.Intn(40)
			if i%9 == 0 {
				n = r.Intn(300)
			}
			bs := r.Bytes(n)
			for j := range bs { // bias towards known CIDs
				if r.Intn(3) == 0 {
					bs[j] = byte(macfmt.Builtin[r.Intn(len(macfmt.Builtin))].CID)
				}
			}
			streamCase(s, up, bs)
		}
	}
	if err := s.Finish(); err != nil {
		fmt.Fprintln(os.Stderr, err)
		os.Exit(2)
	}
}
