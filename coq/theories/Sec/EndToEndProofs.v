(* C05: end-to-end exchange.  Part 1: the receiver's validation is exactly
   "carried MIC = specification MIC" for whatever bytes, keys, role, counters
   and parameters it is run with. *)
From Coq Require Import List NArith ZArith Bool Lia Arith.
From Coq Require Import ZifyN ZifyNat ZifyBool.
From LW Require Import Base.Outcome Base.Bytes Crypto.AES Crypto.CMAC Mac.Commands Mac.Spec Mac.Stream
     Frame.Model Frame.Spec Sec.MIC Sec.MICSpec Sec.MICProofs Sec.Encrypt Sec.EncryptSpec Sec.EncryptProofs
     Sec.EndToEnd.
Import ListNotations.
Open Scope N_scope.
Ltac Zify.zify_post_hook ::= Z.div_mod_to_equations.

(* the specification MIC for a receiver in role [up] *)
Definition spec_data_mic (ver : macver) (up : bool) (k : keys) (prm : micparams)
           (a : bool) (da : list N) (fc : N) (msg : list N) : list N :=
  if up then spec_up_mic (spec_version ver) (fnwksint k) (snwksint k) (conf prm) (txdr prm) (txch prm) a da fc msg
  else spec_down_mic (spec_version ver) (snwksint k) (conf prm) a da fc msg.

Lemma phy_unmarshal_mic bs p : phy_unmarshal bs = Ok p -> mic p = skipn (length bs - 4) bs.
Proof.
  unfold phy_unmarshal. destruct (length bs <? 5)%nat; [discriminate|].
  match goal with |- bind ?x _ = _ -> _ => destruct x end; cbn [bind]; try discriminate.
  now intros [= <-].
Qed.

Lemma validate_data_iff ver up k prm p b :
  validate_data_mic ver up k prm p = Ok b ->
  exists m msg, pl p = PLMac m /\ mic_bytes p m = Ok msg /\
    (length (devaddr (hdr m)) = 4%nat -> (length msg < 256)%nat ->
     b = bytes_eqb (mic p) (spec_data_mic ver up k prm (ack (fc (hdr m))) (devaddr (hdr m)) (fcnt (hdr m)) msg)).
Proof.
  unfold validate_data_mic, spec_data_mic. destruct up; intros H.
  - destruct (validate_up_iff _ _ _ _ _ _ _ _ H) as (m & msg & Hp & Hm & Hiff).
    exists m, msg. split; [exact Hp|]. split; [exact Hm|]. intros Hd Hl. specialize (Hiff Hd Hl).
    destruct b.
    + symmetry. apply bytes_eqb_eq. now apply Hiff.
    + destruct (bytes_eqb _ _) eqn:E; [|reflexivity]. apply bytes_eqb_eq in E. apply Hiff in E. discriminate.
  - destruct (validate_down_iff _ _ _ _ _ H) as (m & msg & Hp & Hm & Hiff).
    exists m, msg. split; [exact Hp|]. split; [exact Hm|]. intros Hd Hl. specialize (Hiff Hd Hl).
    destruct b.
    + symmetry. apply bytes_eqb_eq. now apply Hiff.
    + destruct (bytes_eqb _ _) eqn:E; [|reflexivity]. apply bytes_eqb_eq in E. apply Hiff in E. discriminate.
Qed.

(* C05 tamper: whatever (bytes, version, role, keys, parameters, full counter) the receiver runs its
   validation with, a result is exactly the comparison of the four carried bytes with the
   specification MIC of the frame it decoded (with its counter) under those parameters. *)
Theorem tamper ver up k prm full bs b :
  rx_validate ver up k prm full bs = Ok b ->
  exists p m msg,
    phy_unmarshal bs = Ok p /\ pl (set_fcnt full p) = PLMac m /\ mic_bytes (set_fcnt full p) m = Ok msg /\
    fcnt (hdr m) = full /\
    (length (devaddr (hdr m)) = 4%nat -> (length msg < 256)%nat ->
     b = bytes_eqb (skipn (length bs - 4) bs)
                   (spec_data_mic ver up k prm (ack (fc (hdr m))) (devaddr (hdr m)) full msg)).
Proof.
  unfold rx_validate. destruct (phy_unmarshal bs) as [p| | |] eqn:Hu; cbn [bind]; try discriminate.
  intros H. destruct (validate_data_iff _ _ _ _ _ _ H) as (m & msg & Hp & Hm & Hb).
  exists p, m, msg. split; [reflexivity|]. split; [exact Hp|]. split; [exact Hm|].
  assert (Hf : fcnt (hdr m) = full).
  { unfold set_fcnt in Hp. destruct (pl p) eqn:E; cbn [pl] in Hp; try (rewrite E in Hp; discriminate).
    injection Hp as <-. reflexivity. }
  split; [exact Hf|]. intros Hd Hl. rewrite (Hb Hd Hl), Hf. f_equal.
  rewrite <- (phy_unmarshal_mic _ _ Hu). unfold set_fcnt. destruct (pl p); reflexivity.
Qed.
