(* Model of mac_commands.go: every MAC-command payload's MarshalBinary /
   UnmarshalBinary with the masks, shifts and xors as written.  uint8 fields
   are N < 256, uint32 fields N < 2^32, int8 / int / time.Duration fields Z.
   Decoders are modelled as decoding into a fresh (zero) value; decoding into
   a used value is the business of Mem/Reuse.v (C10). *)
From Coq Require Import List NArith ZArith Bool.
From LW Require Import Base.Outcome Base.Bytes.
Import ListNotations.
Open Scope N_scope.

Inductive kind :=
| KLinkCheckAns | KLinkADRReq | KLinkADRAns | KDutyCycleReq | KRXParamSetupReq
| KRXParamSetupAns | KDevStatusAns | KNewChannelReq | KNewChannelAns
| KRXTimingSetupReq | KTXParamSetupReq | KDLChannelReq | KDLChannelAns
| KPingSlotInfoReq | KBeaconFreqReq | KBeaconFreqAns | KPingSlotChannelReq
| KPingSlotChannelAns | KDeviceTimeAns | KResetInd | KResetConf | KRekeyInd
| KRekeyConf | KADRParamSetupReq | KForceRejoinReq | KRejoinParamSetupReq
| KRejoinParamSetupAns | KDeviceModeInd | KDeviceModeConf | KProprietary.

Definition kind_eqb (a b : kind) : bool :=
  match a, b with
  | KLinkCheckAns, KLinkCheckAns | KLinkADRReq, KLinkADRReq | KLinkADRAns, KLinkADRAns
  | KDutyCycleReq, KDutyCycleReq | KRXParamSetupReq, KRXParamSetupReq
  | KRXParamSetupAns, KRXParamSetupAns | KDevStatusAns, KDevStatusAns
  | KNewChannelReq, KNewChannelReq | KNewChannelAns, KNewChannelAns
  | KRXTimingSetupReq, KRXTimingSetupReq | KTXParamSetupReq, KTXParamSetupReq
  | KDLChannelReq, KDLChannelReq | KDLChannelAns, KDLChannelAns
  | KPingSlotInfoReq, KPingSlotInfoReq | KBeaconFreqReq, KBeaconFreqReq
  | KBeaconFreqAns, KBeaconFreqAns | KPingSlotChannelReq, KPingSlotChannelReq
  | KPingSlotChannelAns, KPingSlotChannelAns | KDeviceTimeAns, KDeviceTimeAns
  | KResetInd, KResetInd | KResetConf, KResetConf | KRekeyInd, KRekeyInd
  | KRekeyConf, KRekeyConf | KADRParamSetupReq, KADRParamSetupReq
  | KForceRejoinReq, KForceRejoinReq | KRejoinParamSetupReq, KRejoinParamSetupReq
  | KRejoinParamSetupAns, KRejoinParamSetupAns | KDeviceModeInd, KDeviceModeInd
  | KDeviceModeConf, KDeviceModeConf | KProprietary, KProprietary => true
  | _, _ => false
  end.

Inductive macpl :=
| PLinkCheckAns (margin gwcnt : N)
| PLinkADRReq (dr txpower : N) (chmask : list bool) (cntl nbrep : N)
| PLinkADRAns (chack drack pwack : bool)
| PDutyCycleReq (maxdc : N)
| PRXParamSetupReq (freq : N) (optneg : bool) (rx2dr rx1off : N)
| PRXParamSetupAns (chack rx2ack rx1ack : bool)
| PDevStatusAns (battery : N) (margin : Z)
| PNewChannelReq (chidx freq maxdr mindr : N)
| PNewChannelAns (freqok drok : bool)
| PRXTimingSetupReq (delay : N)
| PTXParamSetupReq (dldwell uldwell : Z) (eirp : N)
| PDLChannelReq (chidx freq : N)
| PDLChannelAns (upexists freqok : bool)
| PPingSlotInfoReq (periodicity : N)
| PBeaconFreqReq (freq : N)
| PBeaconFreqAns (ok : bool)
| PPingSlotChannelReq (freq dr : N)
| PPingSlotChannelAns (drok freqok : bool)
| PDeviceTimeAns (dur : Z)
| PResetInd (minor : N)
| PResetConf (minor : N)
| PRekeyInd (minor : N)
| PRekeyConf (minor : N)
| PADRParamSetupReq (limitexp delayexp : N)
| PForceRejoinReq (period maxretries rejointype dr : N)
| PRejoinParamSetupReq (maxtime maxcount : N)
| PRejoinParamSetupAns (timeok : bool)
| PDeviceModeInd (class : N)
| PDeviceModeConf (class : N)
| PProprietary (bytes : list N).

Definition kind_of (p : macpl) : kind :=
  match p with
  | PLinkCheckAns _ _ => KLinkCheckAns | PLinkADRReq _ _ _ _ _ => KLinkADRReq
  | PLinkADRAns _ _ _ => KLinkADRAns | PDutyCycleReq _ => KDutyCycleReq
  | PRXParamSetupReq _ _ _ _ => KRXParamSetupReq | PRXParamSetupAns _ _ _ => KRXParamSetupAns
  | PDevStatusAns _ _ => KDevStatusAns | PNewChannelReq _ _ _ _ => KNewChannelReq
  | PNewChannelAns _ _ => KNewChannelAns | PRXTimingSetupReq _ => KRXTimingSetupReq
  | PTXParamSetupReq _ _ _ => KTXParamSetupReq | PDLChannelReq _ _ => KDLChannelReq
  | PDLChannelAns _ _ => KDLChannelAns | PPingSlotInfoReq _ => KPingSlotInfoReq
  | PBeaconFreqReq _ => KBeaconFreqReq | PBeaconFreqAns _ => KBeaconFreqAns
  | PPingSlotChannelReq _ _ => KPingSlotChannelReq | PPingSlotChannelAns _ _ => KPingSlotChannelAns
  | PDeviceTimeAns _ => KDeviceTimeAns | PResetInd _ => KResetInd | PResetConf _ => KResetConf
  | PRekeyInd _ => KRekeyInd | PRekeyConf _ => KRekeyConf
  | PADRParamSetupReq _ _ => KADRParamSetupReq | PForceRejoinReq _ _ _ _ => KForceRejoinReq
  | PRejoinParamSetupReq _ _ => KRejoinParamSetupReq | PRejoinParamSetupAns _ => KRejoinParamSetupAns
  | PDeviceModeInd _ => KDeviceModeInd | PDeviceModeConf _ => KDeviceModeConf
  | PProprietary _ => KProprietary
  end.

(* uint8 arithmetic *)
Definition shl8 (x k : N) : N := (N.shiftl x k) mod 256.
Definition b2n (b : bool) : N := if b then 1 else 0.
(* `if cond { b = b ^ (1<<i) }` *)
Definition xbit (b : N) (c : bool) (i : N) : N := if c then N.lxor b (N.shiftl 1 i) else b.
Definition obit (b : N) (c : bool) (i : N) : N := if c then N.lor b (N.shiftl 1 i) else b.
(* data[0] & (1<<i) > 0 *)
Definition tbit (d i : N) : bool := 0 <? N.land d (N.shiftl 1 i).

(* ChMask *)
Fixpoint chmask_val (m : list bool) (i : N) : N :=
  match m with
  | [] => 0
  | b :: m' => N.lor (if b then N.shiftl 1 i else 0) (chmask_val m' (i + 1))
  end.
Definition enc_chmask (m : list bool) : list N := le_bytes 2 (chmask_val m 0).
Definition dec_chmask (data : list N) : outcome (list bool) :=
  if Nat.eqb (length data) 2 then
    let n := le_val data in
    Ok (map (fun i => negb (N.land n (N.shiftl 1 i) =? 0)) [0;1;2;3;4;5;6;7;8;9;10;11;12;13;14;15])
  else Err.

(* Redundancy *)
Definition enc_redundancy (cntl nbrep : N) : outcome N :=
  if 15 <? nbrep then Err else if 7 <? cntl then Err else Ok (N.lxor nbrep (shl8 cntl 4)).

(* DLSettings *)
Definition enc_dlsettings (optneg : bool) (rx2dr rx1off : N) : outcome N :=
  if 15 <? rx2dr then Err else if 7 <? rx1off then Err else
  Ok (obit (N.lor rx2dr (shl8 rx1off 4)) optneg 7).
Definition dec_dlsettings (d : N) : bool * N * N :=
  (negb (N.land d 128 =? 0), N.land d 15, N.shiftr (N.land d 112) 4).

(* Version *)
Definition enc_version (minor : N) : outcome (list N) := if 7 <? minor then Err else Ok [minor].

(* 24-bit frequency in 100 Hz units: PutUint32 then the three low bytes *)
Definition freq3 (f100 : N) : list N := firstn 3 (le_bytes 4 f100).

Definition int64_min : Z := (- 2 ^ 63)%Z.
Definition second : Z := 1000000000%Z.

Definition enc (p : macpl) : outcome (list N) :=
  match p with
  | PLinkCheckAns margin gwcnt => Ok [margin; gwcnt]
  | PLinkADRReq dr txp cm cntl nbrep =>
    if 15 <? dr then Err else if 15 <? txp then Err else
    do r <- enc_redundancy cntl nbrep;
    Ok ([N.lxor txp (shl8 dr 4)] ++ enc_chmask cm ++ [r])
  | PLinkADRAns a b c => Ok [xbit (xbit (xbit 0 a 0) b 1) c 2]
  | PDutyCycleReq m => if (15 <? m) && (m <? 255) then Err else Ok [m]
  | PRXParamSetupReq freq optneg rx2 rx1 =>
    if 16777216 <=? freq / 100 then Err else
    if negb (freq mod 100 =? 0) then Err else
    do d <- enc_dlsettings optneg rx2 rx1;
    Ok (d :: freq3 (freq / 100))
  | PRXParamSetupAns a b c => Ok [xbit (xbit (xbit 0 a 0) b 1) c 2]
  | PDevStatusAns bat margin =>
    if (margin <? -32)%Z then Err else if (31 <? margin)%Z then Err else
    Ok [bat; if (margin <? 0)%Z then Z.to_N (64 + margin) else Z.to_N margin]
  | PNewChannelReq chidx pfreq maxdr mindr =>
    let freq := if 2400000000 <=? pfreq then pfreq / 2 else pfreq in
    if 16777216 <=? freq / 100 then Err else
    if negb (pfreq mod 100 =? 0) then Err else
    if (2400000000 <=? pfreq) && negb (pfreq mod 200 =? 0) then Err else
    if 15 <? maxdr then Err else if 15 <? mindr then Err else
    Ok (chidx :: freq3 (freq / 100) ++ [N.lxor mindr (shl8 maxdr 4)])
  | PNewChannelAns a b => Ok [xbit (if a then 1 else 0) b 1]
  | PRXTimingSetupReq d => if 15 <? d then Err else Ok [d]
  | PTXParamSetupReq dl ul eirp =>
    if 15 <? eirp then Err else
    if negb ((ul =? 0)%Z || (ul =? 1)%Z) then Err else
    if negb ((dl =? 0)%Z || (dl =? 1)%Z) then Err else
    Ok [xbit (xbit eirp (ul =? 1)%Z 4) (dl =? 1)%Z 5]
  | PDLChannelReq chidx freq =>
    if 16777216 <=? freq / 100 then Err else
    if negb (freq mod 100 =? 0) then Err else
    Ok (chidx :: freq3 (freq / 100))
  | PDLChannelAns upexists freqok => Ok [xbit (xbit 0 freqok 0) upexists 1]
  | PPingSlotInfoReq p => if 7 <? p then Err else Ok [p]
  | PBeaconFreqReq freq =>
    if 16777216 <=? freq / 100 then Err else
    if negb (freq mod 100 =? 0) then Err else
    Ok (freq3 (freq / 100))
  | PBeaconFreqAns ok => Ok [if ok then 1 else 0]
  | PPingSlotChannelReq freq dr =>
    if 16777216 <=? freq / 100 then Err else
    if negb (freq mod 100 =? 0) then Err else
    if 16 <=? dr then Err else
    Ok (freq3 (freq / 100) ++ [dr])
  | PPingSlotChannelAns drok freqok => Ok [obit (if freqok then 1 else 0) drok 1]
  | PDeviceTimeAns dur =>
    (* after the fix: durations whose whole seconds do not fit uint32 are refused;
       uint32(d / time.Second) then does not wrap *)
    if (dur <? 0)%Z || (2 ^ 32 <=? Z.quot dur second)%Z then Err else
    let seconds := Z.quot dur second in
    let frac := (Z.quot (dur - seconds * second) 3906250 mod 256)%Z in
    Ok (le_bytes 4 (Z.to_N seconds) ++ [Z.to_N frac])
  | PResetInd m | PResetConf m | PRekeyInd m | PRekeyConf m => enc_version m
  | PADRParamSetupReq limit delay =>
    if 15 <? limit then Err else if 15 <? delay then Err else
    Ok [N.lor delay (shl8 limit 4)]
  | PForceRejoinReq period maxretries rjtype dr =>
    if 7 <? period then Err else if 7 <? maxretries then Err else
    (* after the fix: RejoinType 0, 1 (both: Rejoin-request type 0) and 2 are accepted *)
    if 2 <? rjtype then Err else
    if 15 <? dr then Err else
    Ok [N.lor dr (shl8 rjtype 4); N.lor maxretries (shl8 period 3)]
  | PRejoinParamSetupReq maxtime maxcount =>
    if 15 <? maxtime then Err else if 15 <? maxcount then Err else
    Ok [N.lor maxcount (shl8 maxtime 4)]
  | PRejoinParamSetupAns ok => Ok [if ok then 1 else 0]
  | PDeviceModeInd c | PDeviceModeConf c => Ok [c]
  | PProprietary bs => Ok bs
  end.

Definition nth0 (d : list N) (i : nat) : N := nth i d 0.
Definition dwell (c : bool) : Z := if c then 1%Z else 0%Z.

Definition dec (k : kind) (data : list N) : outcome macpl :=
  let len := length data in
  let d := nth0 data in
  let want (n : nat) (v : macpl) : outcome macpl := if Nat.eqb len n then Ok v else Err in
  match k with
  | KLinkCheckAns => want 2%nat (PLinkCheckAns (d 0%nat) (d 1%nat))
  | KLinkADRReq =>
    if Nat.eqb len 4 then
      do cm <- dec_chmask (firstn 2 (skipn 1 data));
      Ok (PLinkADRReq (N.shiftr (N.land (d 0%nat) 240) 4) (N.land (d 0%nat) 15) cm
                      (N.shiftr (N.land (d 3%nat) 112) 4) (N.land (d 3%nat) 15))
    else Err
  | KLinkADRAns => want 1%nat (PLinkADRAns (tbit (d 0%nat) 0) (tbit (d 0%nat) 1) (tbit (d 0%nat) 2))
  | KDutyCycleReq =>
    (* after the fix: bits 7..4 are RFU and ignored; the whole-octet value 255 of
       LoRaWAN 1.0 / 1.0.1 ("device off"), which the encoder accepts, is kept *)
    want 1%nat (PDutyCycleReq (if d 0%nat =? 255 then 255 else N.land (d 0%nat) 15))
  | KRXParamSetupReq =>
    let '(optneg, rx2, rx1) := dec_dlsettings (d 0%nat) in
    want 4%nat (PRXParamSetupReq ((le_val (firstn 3 (skipn 1 data)) * 100) mod 2 ^ 32) optneg rx2 rx1)
  | KRXParamSetupAns => want 1%nat (PRXParamSetupAns (tbit (d 0%nat) 0) (tbit (d 0%nat) 1) (tbit (d 0%nat) 2))
  | KDevStatusAns =>
    (* after the fix: only the six margin bits are interpreted *)
    let m := N.land (d 1%nat) 63 in
    want 2%nat (PDevStatusAns (d 0%nat) (if 31 <? m then (Z.of_N m - 64)%Z else Z.of_N m))
  | KNewChannelReq =>
    let f := le_val (firstn 3 (skipn 1 data)) in
    want 5%nat (PNewChannelReq (d 0%nat)
                 (if 12000000 <=? f then (f * 200) mod 2 ^ 32 else (f * 100) mod 2 ^ 32)
                 (N.shiftr (N.land (d 4%nat) 240) 4) (N.land (d 4%nat) 15))
  | KNewChannelAns => want 1%nat (PNewChannelAns (tbit (d 0%nat) 0) (tbit (d 0%nat) 1))
  | KRXTimingSetupReq => want 1%nat (PRXTimingSetupReq (N.land (d 0%nat) 15))
  | KTXParamSetupReq =>
    want 1%nat (PTXParamSetupReq (dwell (tbit (d 0%nat) 5)) (dwell (tbit (d 0%nat) 4)) (N.land (d 0%nat) 15))
  | KDLChannelReq => want 4%nat (PDLChannelReq (d 0%nat) ((le_val (skipn 1 data) * 100) mod 2 ^ 32))
  | KDLChannelAns => want 1%nat (PDLChannelAns (tbit (d 0%nat) 1) (tbit (d 0%nat) 0))
  | KPingSlotInfoReq => want 1%nat (PPingSlotInfoReq (N.land (d 0%nat) 7))
  | KBeaconFreqReq => want 3%nat (PBeaconFreqReq ((le_val data * 100) mod 2 ^ 32))
  | KBeaconFreqAns => want 1%nat (PBeaconFreqAns (negb (N.land (d 0%nat) 1 =? 0)))
  | KPingSlotChannelReq =>
    want 4%nat (PPingSlotChannelReq ((le_val (firstn 3 data) * 100) mod 2 ^ 32) (N.land (d 3%nat) 15))
  | KPingSlotChannelAns => want 1%nat (PPingSlotChannelAns (negb (N.land (d 0%nat) 2 =? 0)) (negb (N.land (d 0%nat) 1 =? 0)))
  | KDeviceTimeAns =>
    want 5%nat (PDeviceTimeAns (second * Z.of_N (le_val (firstn 4 data)) + Z.of_N (d 4%nat) * 3906250)%Z)
  | KResetInd => want 1%nat (PResetInd (N.land (d 0%nat) 15))
  | KResetConf => want 1%nat (PResetConf (N.land (d 0%nat) 15))
  | KRekeyInd => want 1%nat (PRekeyInd (N.land (d 0%nat) 15))
  | KRekeyConf => want 1%nat (PRekeyConf (N.land (d 0%nat) 15))
  | KADRParamSetupReq => want 1%nat (PADRParamSetupReq (N.shiftr (d 0%nat) 4) (N.land (d 0%nat) 15))
  | KForceRejoinReq =>
    want 2%nat (PForceRejoinReq (N.shiftr (N.land (d 1%nat) 56) 3) (N.land (d 1%nat) 7)
                          (N.shiftr (N.land (d 0%nat) 112) 4) (N.land (d 0%nat) 15))
  | KRejoinParamSetupReq =>
    want 1%nat (PRejoinParamSetupReq (N.shiftr (N.land (d 0%nat) 240) 4) (N.land (d 0%nat) 15))
  | KRejoinParamSetupAns => want 1%nat (PRejoinParamSetupAns (negb (N.land (d 0%nat) 1 =? 0)))
  | KDeviceModeInd => want 1%nat (PDeviceModeInd (d 0%nat))
  | KDeviceModeConf => want 1%nat (PDeviceModeConf (d 0%nat))
  | KProprietary => Ok (PProprietary data)
  end.

(* encoded length per kind (the value the registry must carry) *)
Definition kind_size (k : kind) : Z :=
  match k with
  | KLinkCheckAns => 2 | KLinkADRReq => 4 | KLinkADRAns => 1 | KDutyCycleReq => 1
  | KRXParamSetupReq => 4 | KRXParamSetupAns => 1 | KDevStatusAns => 2 | KNewChannelReq => 5
  | KNewChannelAns => 1 | KRXTimingSetupReq => 1 | KTXParamSetupReq => 1 | KDLChannelReq => 4
  | KDLChannelAns => 1 | KPingSlotInfoReq => 1 | KBeaconFreqReq => 3 | KBeaconFreqAns => 1
  | KPingSlotChannelReq => 4 | KPingSlotChannelAns => 1 | KDeviceTimeAns => 5
  | KResetInd | KResetConf | KRekeyInd | KRekeyConf => 1 | KADRParamSetupReq => 1
  | KForceRejoinReq => 2 | KRejoinParamSetupReq => 1 | KRejoinParamSetupAns => 1
  | KDeviceModeInd | KDeviceModeConf => 1 | KProprietary => 0
  end%Z.

(* structural equality on payload values, for the case checker *)
Definition blist_eqb := list_eqb Bool.eqb.
Definition macpl_eqb (a b : macpl) : bool :=
  match a, b with
  | PLinkCheckAns a1 a2, PLinkCheckAns b1 b2 => (a1 =? b1) && (a2 =? b2)
  | PLinkADRReq a1 a2 a3 a4 a5, PLinkADRReq b1 b2 b3 b4 b5 =>
    (a1 =? b1) && (a2 =? b2) && blist_eqb a3 b3 && (a4 =? b4) && (a5 =? b5)
  | PLinkADRAns a1 a2 a3, PLinkADRAns b1 b2 b3 => Bool.eqb a1 b1 && Bool.eqb a2 b2 && Bool.eqb a3 b3
  | PDutyCycleReq a1, PDutyCycleReq b1 => a1 =? b1
  | PRXParamSetupReq a1 a2 a3 a4, PRXParamSetupReq b1 b2 b3 b4 =>
    (a1 =? b1) && Bool.eqb a2 b2 && (a3 =? b3) && (a4 =? b4)
  | PRXParamSetupAns a1 a2 a3, PRXParamSetupAns b1 b2 b3 => Bool.eqb a1 b1 && Bool.eqb a2 b2 && Bool.eqb a3 b3
  | PDevStatusAns a1 a2, PDevStatusAns b1 b2 => (a1 =? b1) && (a2 =? b2)%Z
  | PNewChannelReq a1 a2 a3 a4, PNewChannelReq b1 b2 b3 b4 => (a1 =? b1) && (a2 =? b2) && (a3 =? b3) && (a4 =? b4)
  | PNewChannelAns a1 a2, PNewChannelAns b1 b2 => Bool.eqb a1 b1 && Bool.eqb a2 b2
  | PRXTimingSetupReq a1, PRXTimingSetupReq b1 => a1 =? b1
  | PTXParamSetupReq a1 a2 a3, PTXParamSetupReq b1 b2 b3 => (a1 =? b1)%Z && (a2 =? b2)%Z && (a3 =? b3)
  | PDLChannelReq a1 a2, PDLChannelReq b1 b2 => (a1 =? b1) && (a2 =? b2)
  | PDLChannelAns a1 a2, PDLChannelAns b1 b2 => Bool.eqb a1 b1 && Bool.eqb a2 b2
  | PPingSlotInfoReq a1, PPingSlotInfoReq b1 => a1 =? b1
  | PBeaconFreqReq a1, PBeaconFreqReq b1 => a1 =? b1
  | PBeaconFreqAns a1, PBeaconFreqAns b1 => Bool.eqb a1 b1
  | PPingSlotChannelReq a1 a2, PPingSlotChannelReq b1 b2 => (a1 =? b1) && (a2 =? b2)
  | PPingSlotChannelAns a1 a2, PPingSlotChannelAns b1 b2 => Bool.eqb a1 b1 && Bool.eqb a2 b2
  | PDeviceTimeAns a1, PDeviceTimeAns b1 => (a1 =? b1)%Z
  | PResetInd a1, PResetInd b1 | PResetConf a1, PResetConf b1
  | PRekeyInd a1, PRekeyInd b1 | PRekeyConf a1, PRekeyConf b1 => a1 =? b1
  | PADRParamSetupReq a1 a2, PADRParamSetupReq b1 b2 => (a1 =? b1) && (a2 =? b2)
  | PForceRejoinReq a1 a2 a3 a4, PForceRejoinReq b1 b2 b3 b4 => (a1 =? b1) && (a2 =? b2) && (a3 =? b3) && (a4 =? b4)
  | PRejoinParamSetupReq a1 a2, PRejoinParamSetupReq b1 b2 => (a1 =? b1) && (a2 =? b2)
  | PRejoinParamSetupAns a1, PRejoinParamSetupAns b1 => Bool.eqb a1 b1
  | PDeviceModeInd a1, PDeviceModeInd b1 | PDeviceModeConf a1, PDeviceModeConf b1 => a1 =? b1
  | PProprietary a1, PProprietary b1 => bytes_eqb a1 b1
  | _, _ => false
  end.
