(* Payload encryption transcribed from the specification.

   FRMPayload: LoRaWAN 1.0.x section 4.3.3.1 (unchanged in 1.1 section 4.3.3):
     pld = FRMPayload,  k = ceil(len(pld) / 16)
     A_i = 0x01 | 4 x 0x00 | Dir | DevAddr | FCntUp or FCntDown | 0x00 | i     (i = 1..k)
     S_i = aes128_encrypt(K, A_i),   S = S_1 | S_2 | .. | S_k
     encryption and decryption: (pld | pad16) xor S, truncated to the first len(pld) octets
   with K = NwkSKey/NwkSEncKey for FPort 0 and AppSKey otherwise (the caller's choice here).

   FOpts: LoRaWAN 1.1 section 4.3.1.1 as amended by the erratum "FOpts
   encryption, usage of FCntDwn" (as recalled -- this one transcription could
   not be re-read offline; see notes/C03.md):
     A   = 0x01 | 3 x 0x00 | CntType | Dir | DevAddr | FCntUp or NFCntDwn or AFCntDwn | 0x00 | 0x01
     CntType = 0x01 when the counter is FCntUp or NFCntDwn, 0x02 when it is AFCntDwn
     (AFCntDwn is the counter of downlinks that carry an FPort greater than 0)
     S   = aes128_encrypt(NwkSEncKey, A);  FOpts xor S truncated to len(FOpts) (at most 15 octets)

   Direction: 0 uplink, 1 downlink.  DevAddr is given most significant byte
   first and transmitted least significant byte first; counters are 32 bit,
   little endian. *)
From Coq Require Import List NArith Bool.
From LW Require Import Base.Bytes Crypto.AES.
Import ListNotations.
Open Scope N_scope.

Definition dir_of (uplink : bool) : N := if uplink then 0 else 1.

Definition A_frm (uplink : bool) (devaddr : list N) (fcnt32 : N) (i : N) : list N :=
  [0x01] ++ [0; 0; 0; 0] ++ [dir_of uplink] ++ rev devaddr ++ le_bytes 4 fcnt32 ++ [0x00] ++ [i].

(* S_1 | ... | S_k *)
Definition keystream (K : list N) (uplink : bool) (devaddr : list N) (fcnt32 : N) (k : nat) : list N :=
  concat (map (fun i => aes_encrypt K (A_frm uplink devaddr fcnt32 (N.of_nat i))) (seq 1 k)).

Definition nblocks (len : nat) : nat := Nat.div (len + 15) 16.

(* xor_bytes truncates to the shorter argument: the result has len(pld) octets *)
Definition spec_crypt_frm (K : list N) (uplink : bool) (devaddr : list N) (fcnt32 : N) (pld : list N) : list N :=
  xor_bytes pld (keystream K uplink devaddr fcnt32 (nblocks (length pld))).

Definition A_fopts (afcntdwn uplink : bool) (devaddr : list N) (fcnt32 : N) : list N :=
  [0x01] ++ [0; 0; 0] ++ [if afcntdwn then 0x02 else 0x01] ++ [dir_of uplink] ++ rev devaddr
         ++ le_bytes 4 fcnt32 ++ [0x00] ++ [0x01].

Definition spec_crypt_fopts (K : list N) (afcntdwn uplink : bool) (devaddr : list N) (fcnt32 : N)
           (fopts : list N) : list N :=
  xor_bytes fopts (aes_encrypt K (A_fopts afcntdwn uplink devaddr fcnt32)).

(* which counter protects the FOpts of a frame *)
Definition uses_afcntdwn (uplink : bool) (fport : option N) : bool :=
  match fport with
  | Some q => negb uplink && negb (q =? 0)
  | None => false
  end.
