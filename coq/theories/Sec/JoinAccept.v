(* Model of the join-procedure security functions of phypayload.go:
     calculateUplinkJoinMIC    :589-624  (join-request and the three rejoin-request types)
     calculateDownlinkJoinMIC  :626-685  (join-accept; OptNeg prefix JoinReqType | JoinEUI | DevNonce)
     Set/Validate wrappers     :240-277
     EncryptJoinAcceptPayload  :279-318  (AES *decrypt* per 16-byte block over payload | MIC)
     DecryptJoinAcceptPayload  :320-354  (AES *encrypt*, then JoinAcceptPayload.UnmarshalBinary)
   Model file: no proofs (JoinAcceptProofs.v).

   calculateUplinkJoinMIC does not look at the payload type: any non-nil
   MACPayload is marshalled.  DecryptJoinAcceptPayload builds its ciphertext
   with `append(dp.Bytes, p.MIC[:]...)` (may write into spare capacity of
   dp.Bytes: C10) and on an unmarshal error leaves the frame with the
   decrypted MIC and an empty JoinAcceptPayload; the model returns Err there. *)
From Coq Require Import List NArith ZArith Bool.
From LW Require Import Base.Outcome Base.Bytes Crypto.AES Crypto.CMAC Mac.Commands Mac.Stream Frame.Model Sec.MIC.
Import ListNotations.
Open Scope N_scope.

Definition calc_up_join_mic (key : list N) (p : phy) : outcome (list N) :=
  match pl p with
  | PLNil => Err
  | _ =>
    do b <- payload_marshal (pl p);
    Ok (firstn 4 (cmac key (mhdr_marshal (mtype p) (major p) :: b)))
  end.

(* EUI64.MarshalBinary reverses the array; DevNonce.MarshalBinary is little endian uint16;
   uint8(joinReqType) *)
Definition optneg_prefix (joinReqType : N) (joinEUI : list N) (devNonce : N) : list N :=
  [joinReqType] ++ rev joinEUI ++ le_bytes 2 devNonce.

Definition calc_down_join_mic (joinReqType : N) (joinEUI : list N) (devNonce : N) (key : list N) (p : phy)
  : outcome (list N) :=
  match pl p with
  | PLJoinAccept _ _ _ optneg _ _ _ _ =>
    let pre := if optneg then optneg_prefix joinReqType joinEUI devNonce else [] in
    do b <- payload_marshal (pl p);
    Ok (firstn 4 (cmac key (pre ++ [mhdr_marshal (mtype p) (major p)] ++ b)))
  | _ => Err
  end.

Definition set_up_join_mic key p : outcome phy := do m <- calc_up_join_mic key p; Ok (set_mic p m).
Definition validate_up_join_mic key p : outcome bool :=
  do m <- calc_up_join_mic key p; Ok (bytes_eqb (mic p) m).
Definition set_down_join_mic ty je dn key p : outcome phy :=
  do m <- calc_down_join_mic ty je dn key p; Ok (set_mic p m).
Definition validate_down_join_mic ty je dn key p : outcome bool :=
  do m <- calc_down_join_mic ty je dn key p; Ok (bytes_eqb (mic p) m).

(* `for i := 0; i < len/16; i++ { f(dst[16i:16i+16], src[16i:16i+16]) }` *)
Fixpoint ecb (f : list N -> list N) (n : nat) (data : list N) : list N :=
  match n with
  | O => []
  | S n' => f (firstn 16 data) ++ ecb f n' (skipn 16 data)
  end.

Definition encrypt_join_accept (key : list N) (p : phy) : outcome phy :=
  match pl p with
  | PLJoinAccept _ _ _ _ _ _ _ _ =>
    do b <- payload_marshal (pl p);
    let pt := b ++ mic p in                          (* append(pt, p.MIC[0:4]...); MIC is [4]byte *)
    if negb (Nat.eqb (length pt mod 16) 0) then Err else
    if (length pt <? 4)%nat then Panic else          (* ct[0:len(ct)-4]; unreachable: 16 or 32 bytes *)
    let rks := expand_key key in
    let ct := ecb (aes_decrypt_rk rks) (length pt / 16) pt in
    Ok (mkPHY (mtype p) (major p) (PLData (firstn (length ct - 4) ct)) (skipn (length ct - 4) ct))
  | _ => Err
  end.

Definition decrypt_join_accept (key : list N) (p : phy) : outcome phy :=
  match pl p with
  | PLData d =>
    let ct := d ++ mic p in
    if negb (Nat.eqb (length ct mod 16) 0) then Err else
    if (length ct <? 4)%nat then Panic else
    let rks := expand_key key in
    let pt := ecb (aes_encrypt_rk rks) (length ct / 16) ct in
    do ja <- joinaccept_unmarshal (firstn (length pt - 4) pt);
    Ok (mkPHY (mtype p) (major p) ja (skipn (length pt - 4) pt))
  | _ => Err
  end.
