// Long histories and the GetConfig name space for C12.
package main

import (
	"fmt"
	"go/ast"
	"go/parser"
	"go/token"
	"reflect"
	"runtime"
	"strconv"
	"strings"

	"github.com/brocaar/lorawan"
	"github.com/brocaar/lorawan/band"
	"verifharness/bandcfg"
	"verifharness/internal/cases"
)

// rx1LongHistories: long runs of AddChannel calls with distinct frequencies on every band that
// accepts extra channels (13 .. 100 added channels: whatever the implementation does when its
// channel lists grow must keep uplink and downlink channels aligned), and > 100 Disable / Enable
// calls on the fixed channel plans; afterwards every uplink channel - the default ones too - gets
// the full RX1 index / downlink channel / RX1 frequency comparison.
func rx1LongHistories(s *cases.Set, thorough bool, cfgs []bandcfg.Config) {
	for _, c := range cfgs {
		probe, err := c.New()
		if err != nil {
			continue
		}
		base := bandcfg.UplinkFrequencies(probe)
		runs := bandcfg.UplinkRuns(probe)
		if len(base) == 0 || len(runs) == 0 {
			continue
		}
		lo, hi := runs[0][0], runs[0][1]
		f0 := base[0] + 10*200000
		main := !c.Repeater && !c.Dwell
		if probe.AddChannel(f0, lo, hi) == nil {
			ns := []int{14, 33}
			if main || thorough {
				ns = []int{13, 14, 15, 16, 17, 31, 32, 33, 48, 64, 94, 100, 260} // 260: channel indices beyond one byte
			}
			for _, n := range ns {
				b, _ := c.New()
				var ops []bandcfg.ChanOp
				for k := 0; k < n; k++ {
					ops = append(ops, bandcfg.AddOp(f0+uint32(k)*200000, lo, hi))
				}
				errs := bandcfg.ApplyChanOps(b, ops)
				opsTerm := fmt.Sprintf("(add_run %d%%Z 200000%%Z %d%%nat %s%%Z %s%%Z)", f0, n, bandcfg.Z(int64(lo)), bandcfg.Z(int64(hi)))
				hist := fmt.Sprintf("AddChannel(%d + k*200000, %d, %d) for k = 0..%d", f0, lo, hi, n-1)
				label := fmt.Sprintf("add-run:%d+k*200000/%d/%d:n=%d", f0, lo, hi, n)
				if n > 200 && !thorough {
					// 263 channels: the default channels, every 16th index and everything from 248 on
					// (255, 256, 257 ... - indices that no longer fit one byte); all rows in the thorough tier
					rowFilter = func(ch int) bool { return ch < 8 || ch%16 == 0 || ch >= 248 }
				}
				rx1RowsT(s, c, b, opsTerm, bandcfg.Bools(errs), hist, label, "rx1-channel-after-long-history")
				rowFilter = nil
				if n == 100 {
					// more than 100 operations: five channels off again, first default channel on (it is on)
					more := []bandcfg.ChanOp{bandcfg.DisableOp(0), bandcfg.DisableOp(16), bandcfg.DisableOp(17), bandcfg.DisableOp(50), bandcfg.DisableOp(102), bandcfg.EnableOp(0)}
					errs = append(errs, bandcfg.ApplyChanOps(b, more)...)
					rx1RowsT(s, c, b, "("+opsTerm+" ++ "+bandcfg.ChanOps(more)+")%list", bandcfg.Bools(errs),
						[]interface{}{hist, bandcfg.ChanOpsReplay(more)}, label+";then:"+bandcfg.ChanOpsKey(more), "rx1-channel-after-long-history")
				}
			}
			continue
		}
		if !(main || thorough) {
			continue
		}
		// fixed channel plans (US915, AU915, CN470): everything off, the second block of 8 on (+ one
		// channel of the upper part), then the third block off / on: > 100 calls
		nch := len(base)
		b, _ := c.New()
		var ops []bandcfg.ChanOp
		for i := 0; i < nch; i++ {
			ops = append(ops, bandcfg.DisableOp(i))
		}
		for i := 8; i < 16; i++ {
			ops = append(ops, bandcfg.EnableOp(i))
		}
		ops = append(ops, bandcfg.EnableOp(nch-7))
		for i := 16; i < 24; i++ {
			ops = append(ops, bandcfg.DisableOp(i))
		}
		for i := 16; i < 24; i++ {
			ops = append(ops, bandcfg.EnableOp(i))
		}
		errs := bandcfg.ApplyChanOps(b, ops)
		opsTerm := fmt.Sprintf("(disable_run 0%%Z %d%%nat ++ enable_run 8%%Z 8%%nat ++ [OpEnable %d%%Z] ++ disable_run 16%%Z 8%%nat ++ enable_run 16%%Z 8%%nat)%%list", nch, nch-7)
		hist := fmt.Sprintf("DisableUplinkChannelIndex(0..%d), EnableUplinkChannelIndex(8..15), EnableUplinkChannelIndex(%d), DisableUplinkChannelIndex(16..23), EnableUplinkChannelIndex(16..23)", nch-1, nch-7)
		rx1RowsT(s, c, b, opsTerm, bandcfg.Bools(errs), hist, fmt.Sprintf("all-off;8..15+%d-on;16..23-off-on", nch-7), "rx1-channel-after-long-history")
	}
}

// exportedNameConstants reads the constants of type Name from the band/band.go the harness was
// built with (file located through the debug information of band.GetConfig).
func exportedNameConstants() (map[string]string, string) {
	fn := runtime.FuncForPC(reflect.ValueOf(band.GetConfig).Pointer())
	if fn == nil {
		return nil, "no debug information for band.GetConfig"
	}
	file, _ := fn.FileLine(fn.Entry())
	f, err := parser.ParseFile(token.NewFileSet(), file, nil, 0)
	if err != nil {
		return nil, err.Error()
	}
	out := map[string]string{}
	for _, d := range f.Decls {
		g, ok := d.(*ast.GenDecl)
		if !ok || g.Tok != token.CONST {
			continue
		}
		for _, sp := range g.Specs {
			vs := sp.(*ast.ValueSpec)
			id, ok := vs.Type.(*ast.Ident)
			if !ok || id.Name != "Name" {
				continue
			}
			for i, n := range vs.Names {
				if i < len(vs.Values) {
					if lit, ok := vs.Values[i].(*ast.BasicLit); ok && lit.Kind == token.STRING {
						if v, err := strconv.Unquote(lit.Value); err == nil {
							out[n.Name] = v
						}
					}
				}
			}
		}
	}
	return out, ""
}

// getConfigNames: GetConfig succeeds exactly for the names of the specification (14 common + 10
// deprecated), and the check quantifies over every exported Name constant of the source.
func getConfigNames(s *cases.Set) {
	known := map[string]bool{}
	var names []string
	for _, n := range bandcfg.Names {
		names = append(names, string(n))
	}
	for _, n := range bandcfg.AliasOrder {
		names = append(names, string(n))
	}
	for _, n := range names {
		known[n] = true
	}
	consts, why := exportedNameConstants()
	if consts == nil {
		fmt.Println("c12: band/band.go not readable (" + why + "): exported Name constants not cross-checked")
	}
	for ident, v := range consts {
		if !known[v] {
			known[v] = true
			names = append(names, v)
			s.Fail(cases.GoFail{Key: "name-coverage:" + ident, What: fmt.Sprintf("band.%s = %q is an exported band name the check does not quantify over (not in bandcfg.Names / bandcfg.AliasOrder, Regional.region_of)", ident, v),
				Replay: map[string]interface{}{"api": "constants of type band.Name in band/band.go", "constant": ident, "value": v}})
		}
	}
	for _, n := range append([]string{}, names...) {
		// structured neighbours of every name: all of them are undefined names
		names = append(names, bandcfg.StringNeighbours(n, names)...)
	}
	names = append(names, "", "eu868", "EU868 ", " EU868", "EU_868", "AS923-5", "AS923_2", "AS_923-2", "AS-923", "US915-928", "ISM_2400", "XX", strings.Repeat("A", 300))
	seenName := map[string]bool{}
	for _, n := range names {
		_, err := band.GetConfig(band.Name(n), false, lorawan.DwellTimeNoLimit)
		key := bandcfg.KeyStr(n)
		if len(key) > 60 {
			key = key[:60] + "..."
		}
		if seenName[n] {
			continue
		}
		seenName[n] = true
		s.Add(cases.Case{Term: fmt.Sprintf("CGetConfig %s %s", bandcfg.StrTerm(n), bandcfg.Bool(err == nil)),
			Key: "getconfig-name:" + key, Kind: "getconfig-name", Nontrivial: err == nil,
			Replay: map[string]interface{}{"api": "band.GetConfig(name, false, DwellTimeNoLimit)", "name": n, "accepted": err == nil}})
	}
}
