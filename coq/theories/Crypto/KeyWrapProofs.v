(* RFC 3394 key wrap model: unwrap inverts wrap (any number n >= 0 of 64-bit
   blocks, any 8-byte initial value), wrap inverts a successful unwrap, the
   output of wrap is 8 bytes longer, and unwrap succeeds exactly when the
   recovered initial value is the default one.  Uses the AES inverse laws of
   AESInv.v. *)
From Coq Require Import List NArith Bool Lia Arith.
From Coq Require Import ZifyN ZifyNat ZifyBool.
From LW Require Import Base.Outcome Base.Bytes Crypto.AES Crypto.AESInv Crypto.CMACProofs Crypto.KeyWrap.
Import ListNotations.
Open Scope N_scope.

Definition blk8 (r : list N) : Prop := length r = 8%nat /\ Forall byte r.

Lemma default_iv_blk8 : blk8 default_iv.
Proof. split; [reflexivity|]. unfold default_iv. repeat constructor. Qed.

Lemma st16_split b : st16 b -> blk8 (firstn 8 b) /\ blk8 (skipn 8 b).
Proof.
  intros [Hl Hb]. unfold len16 in Hl. split; split.
  - rewrite firstn_length, Hl. reflexivity.
  - apply Forall_firstn', Hb.
  - rewrite skipn_length, Hl. reflexivity.
  - apply Forall_skipn', Hb.
Qed.

Lemma blk8_app a r : blk8 a -> blk8 r -> st16 (a ++ r).
Proof.
  intros [La Ha] [Lr Hr]. split.
  - unfold len16. rewrite app_length, La, Lr. reflexivity.
  - apply Forall_app. split; assumption.
Qed.

Lemma xor_t_blk8 a t : blk8 a -> blk8 (xor_bytes a (be_bytes 8 t)).
Proof.
  intros [La Ha]. split.
  - rewrite xor_bytes_length, La, be_bytes_length. reflexivity.
  - apply xor_bytes_byte; [exact Ha|apply be_bytes_ok].
Qed.

Lemma xor_t_invol a t : blk8 a -> xor_bytes (xor_bytes a (be_bytes 8 t)) (be_bytes 8 t) = a.
Proof. intros [La _]. apply xor_bytes_invol. rewrite La, be_bytes_length. constructor. Qed.

Section WithKey.
  Context (rks : list (list N)) (Hrks : Forall st16 rks).

  (* ---- one step ---- *)
  Lemma wrap_step_inv a t r : blk8 a -> blk8 r ->
    blk8 (fst (wrap_step rks a t r)) /\ blk8 (snd (wrap_step rks a t r)) /\
    unwrap_step rks (fst (wrap_step rks a t r)) t (snd (wrap_step rks a t r)) = (a, r).
  Proof.
    intros Ha Hr. unfold wrap_step. cbn [fst snd].
    pose proof (blk8_app a r Ha Hr) as Hin.
    assert (Hb : st16 (aes_encrypt_rk rks (a ++ r))) by (apply aes_encrypt_rk_st16; [exact Hrks|apply Hin]).
    destruct (st16_split _ Hb) as [H1 H2].
    split; [apply xor_t_blk8, H1|]. split; [exact H2|].
    unfold unwrap_step. rewrite xor_t_invol by exact H1. rewrite firstn_skipn.
    rewrite aes_decrypt_encrypt_rk by assumption.
    rewrite (take_app_n 8 a r) by apply Ha. rewrite (drop_app_n 8 a r) by apply Ha. reflexivity.
  Qed.

  Lemma unwrap_step_inv a t r : blk8 a -> blk8 r ->
    blk8 (fst (unwrap_step rks a t r)) /\ blk8 (snd (unwrap_step rks a t r)) /\
    wrap_step rks (fst (unwrap_step rks a t r)) t (snd (unwrap_step rks a t r)) = (a, r).
  Proof.
    intros Ha Hr. unfold unwrap_step. cbn [fst snd].
    pose proof (xor_t_blk8 a t Ha) as Hx.
    pose proof (blk8_app _ r Hx Hr) as Hin.
    assert (Hb : st16 (aes_decrypt_rk rks (xor_bytes a (be_bytes 8 t) ++ r)))
      by (apply aes_decrypt_rk_st16; [exact Hrks|apply Hin]).
    destruct (st16_split _ Hb) as [H1 H2].
    split; [exact H1|]. split; [exact H2|].
    unfold wrap_step. rewrite firstn_skipn.
    rewrite aes_encrypt_decrypt_rk by assumption.
    rewrite (take_app_n 8 _ r) by apply Hx. rewrite (drop_app_n 8 _ r) by apply Hx.
    rewrite xor_t_invol by exact Ha. reflexivity.
  Qed.

  (* ---- one pass over the blocks ---- *)
  Lemma wrap_pass_inv rs : Forall blk8 rs -> forall a t, blk8 a ->
    blk8 (fst (wrap_pass rks a t rs)) /\ Forall blk8 (snd (wrap_pass rks a t rs)) /\
    unwrap_pass rks (fst (wrap_pass rks a t rs)) t (snd (wrap_pass rks a t rs)) = (a, rs).
  Proof.
    induction 1 as [|r rs Hr Hrs IH]; intros a t Ha.
    - cbn [wrap_pass fst snd unwrap_pass]. auto.
    - cbn [wrap_pass].
      destruct (wrap_step_inv a t r Ha Hr) as (S1 & S2 & S3).
      destruct (wrap_step rks a t r) as [a1 r1]. cbn [fst snd] in S1, S2, S3.
      destruct (IH a1 (t + 1) S1) as (P1 & P2 & P3).
      destruct (wrap_pass rks a1 (t + 1) rs) as [a2 rs2]. cbn [fst snd] in *.
      split; [exact P1|]. split; [constructor; assumption|].
      cbn [unwrap_pass]. rewrite P3, S3. reflexivity.
  Qed.

  Lemma unwrap_pass_inv rs : Forall blk8 rs -> forall a t, blk8 a ->
    blk8 (fst (unwrap_pass rks a t rs)) /\ Forall blk8 (snd (unwrap_pass rks a t rs)) /\
    wrap_pass rks (fst (unwrap_pass rks a t rs)) t (snd (unwrap_pass rks a t rs)) = (a, rs).
  Proof.
    induction 1 as [|r rs Hr Hrs IH]; intros a t Ha.
    - cbn [wrap_pass fst snd unwrap_pass]. auto.
    - cbn [unwrap_pass].
      destruct (IH a (t + 1) Ha) as (P1 & P2 & P3).
      destruct (unwrap_pass rks a (t + 1) rs) as [a1 rs']. cbn [fst snd] in P1, P2, P3.
      destruct (unwrap_step_inv a1 t r P1 Hr) as (S1 & S2 & S3).
      destruct (unwrap_step rks a1 t r) as [a0 r0]. cbn [fst snd] in *.
      split; [exact S1|]. split; [constructor; assumption|].
      cbn [wrap_pass]. rewrite S3, P3. reflexivity.
  Qed.

  (* ---- k passes ---- *)
  Lemma wrap_passes_inv k n : forall j a rs, blk8 a -> Forall blk8 rs ->
    blk8 (fst (wrap_passes k rks n j a rs)) /\ Forall blk8 (snd (wrap_passes k rks n j a rs)) /\
    unwrap_passes k rks n j (fst (wrap_passes k rks n j a rs)) (snd (wrap_passes k rks n j a rs)) = (a, rs).
  Proof.
    induction k as [|k IH]; intros j a rs Ha Hrs.
    - cbn [wrap_passes unwrap_passes fst snd]. auto.
    - cbn [wrap_passes].
      destruct (wrap_pass_inv rs Hrs a (n * j + 1) Ha) as (P1 & P2 & P3).
      destruct (wrap_pass rks a (n * j + 1) rs) as [a' rs']. cbn [fst snd] in P1, P2, P3.
      destruct (IH (j + 1) a' rs' P1 P2) as (Q1 & Q2 & Q3).
      split; [exact Q1|]. split; [exact Q2|].
      cbn [unwrap_passes]. rewrite Q3. exact P3.
  Qed.

  Lemma unwrap_passes_inv k n : forall j a rs, blk8 a -> Forall blk8 rs ->
    blk8 (fst (unwrap_passes k rks n j a rs)) /\ Forall blk8 (snd (unwrap_passes k rks n j a rs)) /\
    wrap_passes k rks n j (fst (unwrap_passes k rks n j a rs)) (snd (unwrap_passes k rks n j a rs)) = (a, rs).
  Proof.
    induction k as [|k IH]; intros j a rs Ha Hrs.
    - cbn [wrap_passes unwrap_passes fst snd]. auto.
    - cbn [unwrap_passes].
      destruct (IH (j + 1) a rs Ha Hrs) as (Q1 & Q2 & Q3).
      destruct (unwrap_passes k rks n (j + 1) a rs) as [a' rs']. cbn [fst snd] in Q1, Q2, Q3.
      destruct (unwrap_pass_inv rs' Q2 a' (n * j + 1) Q1) as (P1 & P2 & P3).
      split; [exact P1|]. split; [exact P2|].
      cbn [wrap_passes].
      destruct (unwrap_pass rks a' (n * j + 1) rs') as [a0 rs0]. cbn [fst snd] in *.
      rewrite P3. exact Q3.
  Qed.
End WithKey.

(* ---- cutting into blocks and gluing back ---- *)
Lemma chunks8_spec n : forall l, length l = (8 * n)%nat -> Forall byte l ->
  Forall blk8 (chunks8 n l) /\ concat (chunks8 n l) = l.
Proof.
  induction n as [|n IH]; intros l Hl Hb.
  - destruct l; [|discriminate Hl]. cbn [chunks8 concat]. auto.
  - cbn [chunks8 concat].
    destruct (IH (skipn 8 l)) as [I1 I2].
    { rewrite skipn_length. lia. } { apply Forall_skipn', Hb. }
    split.
    + constructor; [|exact I1]. split; [rewrite firstn_length; lia|apply Forall_firstn', Hb].
    + rewrite I2. apply firstn_skipn.
Qed.

Lemma concat_blk8_length rs : Forall blk8 rs -> length (concat rs) = (8 * length rs)%nat.
Proof.
  induction 1 as [|r rs [Hr _] _ IH]; [reflexivity|].
  cbn [concat length]. rewrite app_length, Hr, IH. lia.
Qed.

Lemma chunks8_concat rs : Forall blk8 rs -> chunks8 (length rs) (concat rs) = rs.
Proof.
  induction 1 as [|r rs [Hr _] _ IH]; [reflexivity|].
  cbn [concat length chunks8].
  rewrite (take_app_n 8 r) by exact Hr. rewrite (drop_app_n 8 r) by exact Hr. now rewrite IH.
Qed.

Lemma Forall_blk8_bytes rs : Forall blk8 rs -> Forall byte (concat rs).
Proof.
  induction 1 as [|r rs [_ Hr] _ IH]; [constructor|]. cbn [concat]. apply Forall_app. auto.
Qed.

Lemma wrap_pass_length rks rs : forall a t, length (snd (wrap_pass rks a t rs)) = length rs.
Proof.
  induction rs as [|r rs IH]; intros a t; [reflexivity|].
  cbn [wrap_pass]. destruct (wrap_step rks a t r) as [a1 r1].
  specialize (IH a1 (t + 1)). destruct (wrap_pass rks a1 (t + 1) rs) as [a2 rs2].
  cbn [snd length] in *. now rewrite IH.
Qed.

Lemma wrap_passes_length k rks n : forall j a rs, length (snd (wrap_passes k rks n j a rs)) = length rs.
Proof.
  induction k as [|k IH]; intros j a rs; [reflexivity|].
  cbn [wrap_passes]. pose proof (wrap_pass_length rks rs a (n * j + 1)) as H.
  destruct (wrap_pass rks a (n * j + 1) rs) as [a' rs']. cbn [snd] in H. now rewrite IH.
Qed.

Lemma unwrap_pass_length rks rs : forall a t, length (snd (unwrap_pass rks a t rs)) = length rs.
Proof.
  induction rs as [|r rs IH]; intros a t; [reflexivity|].
  cbn [unwrap_pass]. specialize (IH a (t + 1)). destruct (unwrap_pass rks a (t + 1) rs) as [a1 rs'].
  destruct (unwrap_step rks a1 t r) as [a0 r0]. cbn [snd length] in *. now rewrite IH.
Qed.

Lemma unwrap_passes_length k rks n : forall j a rs, length (snd (unwrap_passes k rks n j a rs)) = length rs.
Proof.
  induction k as [|k IH]; intros j a rs; [reflexivity|].
  cbn [unwrap_passes]. specialize (IH (j + 1) a rs).
  destruct (unwrap_passes k rks n (j + 1) a rs) as [a' rs'].
  rewrite unwrap_pass_length. exact IH.
Qed.

Lemma chunks8_length n l : length (chunks8 n l) = n.
Proof. revert l; induction n; intros l; cbn [chunks8 length]; auto. Qed.

(* ---- round trips over an expanded key, any 8-byte initial value ---- *)
Lemma unwrap_raw_wrap_rk rks iv p n :
  Forall st16 rks -> blk8 iv -> Forall byte p -> length p = (8 * n)%nat ->
  unwrap_raw_rk rks (wrap_rk rks iv p) = (iv, p).
Proof.
  intros Hr Hiv Hp Hl. unfold wrap_rk.
  replace (length p / 8)%nat with n by (rewrite Hl, Nat.mul_comm, Nat.div_mul; lia).
  destruct (chunks8_spec n p Hl Hp) as [C1 C2].
  destruct (wrap_passes_inv rks Hr 6 (N.of_nat n) 0 iv (chunks8 n p) Hiv C1) as (W1 & W2 & W3).
  pose proof (wrap_passes_length 6 rks (N.of_nat n) 0 iv (chunks8 n p)) as WL.
  rewrite chunks8_length in WL.
  destruct (wrap_passes 6 rks (N.of_nat n) 0 iv (chunks8 n p)) as [a rs]. cbn [fst snd] in *.
  unfold unwrap_raw_rk.
  assert (E : (length (a ++ concat rs) / 8 - 1)%nat = n).
  { rewrite app_length, concat_blk8_length by exact W2. destruct W1 as [La _]. rewrite La, WL.
    replace (8 + 8 * n)%nat with ((1 + n) * 8)%nat by lia. rewrite Nat.div_mul by lia. lia. }
  rewrite E.
  rewrite (take_app_n 8 a) by apply W1. rewrite (drop_app_n 8 a) by apply W1.
  rewrite <- WL at 2. rewrite chunks8_concat by exact W2.
  rewrite W3. now rewrite C2.
Qed.

Lemma wrap_unwrap_raw_rk rks d n :
  Forall st16 rks -> Forall byte d -> length d = (8 * (n + 1))%nat ->
  wrap_rk rks (fst (unwrap_raw_rk rks d)) (snd (unwrap_raw_rk rks d)) = d.
Proof.
  intros Hr Hd Hl. unfold unwrap_raw_rk.
  replace (length d / 8 - 1)%nat with n.
  2:{ rewrite Hl, Nat.mul_comm, Nat.div_mul by lia. lia. }
  assert (Ha : blk8 (firstn 8 d)) by (split; [rewrite firstn_length; lia|apply Forall_firstn', Hd]).
  destruct (chunks8_spec n (skipn 8 d)) as [C1 C2].
  { rewrite skipn_length. lia. } { apply Forall_skipn', Hd. }
  destruct (unwrap_passes_inv rks Hr 6 (N.of_nat n) 0 (firstn 8 d) (chunks8 n (skipn 8 d)) Ha C1) as (U1 & U2 & U3).
  pose proof (unwrap_passes_length 6 rks (N.of_nat n) 0 (firstn 8 d) (chunks8 n (skipn 8 d))) as UL.
  rewrite chunks8_length in UL.
  destruct (unwrap_passes 6 rks (N.of_nat n) 0 (firstn 8 d) (chunks8 n (skipn 8 d))) as [a rs].
  cbn [fst snd] in *. unfold wrap_rk.
  replace (length (concat rs) / 8)%nat with n.
  2:{ rewrite concat_blk8_length by exact U2. rewrite UL, Nat.mul_comm, Nat.div_mul; lia. }
  rewrite <- UL at 2. rewrite chunks8_concat by exact U2.
  rewrite U3, C2. apply firstn_skipn.
Qed.

(* ---- main theorems ---- *)
Theorem unwrap_raw_wrap : forall kek p n,
  Forall byte kek -> Forall byte p -> length p = (8 * n)%nat ->
  unwrap_raw kek (wrap kek p) = (default_iv, p).
Proof.
  intros kek p n Hk Hp Hl. unfold unwrap_raw, wrap.
  apply (unwrap_raw_wrap_rk _ _ _ n); auto using expand_key_st16, default_iv_blk8.
Qed.

(* general form: key data of n 64-bit blocks, any n *)
Theorem unwrap_wrap_blocks : forall kek p n,
  Forall byte kek -> Forall byte p -> length p = (8 * n)%nat ->
  unwrap kek (wrap kek p) = Some p.
Proof.
  intros kek p n Hk Hp Hl. unfold unwrap. rewrite (unwrap_raw_wrap kek p n Hk Hp Hl).
  reflexivity.
Qed.

(* the case used by the repository: 16-byte keys under a 16-byte KEK *)
Theorem unwrap_wrap : forall kek p,
  length kek = 16%nat -> Forall byte kek -> Forall byte p -> length p = 16%nat ->
  unwrap kek (wrap kek p) = Some p.
Proof. intros kek p _ Hk Hp Hl. apply (unwrap_wrap_blocks kek p 2 Hk Hp Hl). Qed.

Theorem unwrap_ok_iff_iv : forall kek d p,
  unwrap kek d = Some p <-> unwrap_raw kek d = (default_iv, p).
Proof.
  intros kek d p. unfold unwrap. destruct (unwrap_raw kek d) as [iv pl].
  destruct (bytes_eqb iv default_iv) eqn:E.
  - apply bytes_eqb_eq in E. subst iv. split; intros H; inversion H; reflexivity.
  - split; intros H; [discriminate H|]. inversion H; subst.
    assert (T : bytes_eqb default_iv default_iv = true) by reflexivity. congruence.
Qed.

(* a successful unwrap determines its input: only the wrap of the returned
   key data is accepted (d of 8*(n+1) bytes) *)
Theorem wrap_unwrap : forall kek d p n,
  Forall byte kek -> Forall byte d -> length d = (8 * (n + 1))%nat ->
  unwrap kek d = Some p -> wrap kek p = d.
Proof.
  intros kek d p n Hk Hd Hl H. apply unwrap_ok_iff_iv in H.
  pose proof (wrap_unwrap_raw_rk (expand_key kek) d n (expand_key_st16 kek Hk) Hd Hl) as W.
  unfold unwrap_raw in H. rewrite H in W. exact W.
Qed.

(* ---- length of the wrapped key (no hypothesis on the bytes) ---- *)
Lemma wrap_step_len rks a t r : Forall len16 rks ->
  length (fst (wrap_step rks a t r)) = 8%nat /\ length (snd (wrap_step rks a t r)) = 8%nat.
Proof.
  intros Hr. unfold wrap_step. cbn [fst snd].
  pose proof (aes_encrypt_rk_len16 rks (a ++ r) Hr) as Hl. unfold len16 in Hl.
  rewrite xor_bytes_length, firstn_length, skipn_length, be_bytes_length, Hl. split; reflexivity.
Qed.

Definition all8 (rs : list (list N)) : Prop := Forall (fun r => length r = 8%nat) rs.

Lemma wrap_pass_len rks rs : Forall len16 rks -> forall a t, length a = 8%nat ->
  length (fst (wrap_pass rks a t rs)) = 8%nat /\ all8 (snd (wrap_pass rks a t rs)).
Proof.
  intros Hr. induction rs as [|r rs IH]; intros a t Ha.
  - cbn [wrap_pass fst snd]. split; [exact Ha|constructor].
  - cbn [wrap_pass]. destruct (wrap_step_len rks a t r Hr) as [S1 S2].
    destruct (wrap_step rks a t r) as [a1 r1]. cbn [fst snd] in S1, S2.
    destruct (IH a1 (t + 1) S1) as [P1 P2].
    destruct (wrap_pass rks a1 (t + 1) rs) as [a2 rs2]. cbn [fst snd] in *.
    split; [exact P1|constructor; assumption].
Qed.

Lemma wrap_passes_len k rks n : Forall len16 rks -> forall j a rs, length a = 8%nat -> all8 rs ->
  length (fst (wrap_passes k rks n j a rs)) = 8%nat /\ all8 (snd (wrap_passes k rks n j a rs)).
Proof.
  intros Hr. induction k as [|k IH]; intros j a rs Ha Hrs.
  - cbn [wrap_passes fst snd]. auto.
  - cbn [wrap_passes]. destruct (wrap_pass_len rks rs Hr a (n * j + 1) Ha) as [P1 P2].
    destruct (wrap_pass rks a (n * j + 1) rs) as [a' rs']. cbn [fst snd] in P1, P2.
    apply IH; assumption.
Qed.

Lemma concat_all8_length rs : all8 rs -> length (concat rs) = (8 * length rs)%nat.
Proof.
  induction 1 as [|r rs Hr _ IH]; [reflexivity|].
  cbn [concat length]. rewrite app_length, Hr, IH. lia.
Qed.

Lemma chunks8_all8 n : forall l, (8 * n <= length l)%nat -> all8 (chunks8 n l).
Proof.
  induction n as [|n IH]; intros l Hl; cbn [chunks8]; constructor.
  - rewrite firstn_length. lia.
  - apply IH. rewrite skipn_length. lia.
Qed.

Theorem wrap_length_gen : forall kek p, length (wrap kek p) = (8 * (length p / 8) + 8)%nat.
Proof.
  intros kek p. unfold wrap, wrap_rk.
  set (n := (length p / 8)%nat).
  assert (Hc : all8 (chunks8 n p)).
  { apply chunks8_all8. unfold n. pose proof (Nat.mul_div_le (length p) 8). lia. }
  destruct (wrap_passes_len 6 (expand_key kek) (N.of_nat n) (expand_key_len16 kek) 0 default_iv
              (chunks8 n p) eq_refl Hc) as [L1 L2].
  pose proof (wrap_passes_length 6 (expand_key kek) (N.of_nat n) 0 default_iv (chunks8 n p)) as WL.
  rewrite chunks8_length in WL.
  destruct (wrap_passes 6 (expand_key kek) (N.of_nat n) 0 default_iv (chunks8 n p)) as [a rs].
  cbn [fst snd] in *. rewrite app_length, concat_all8_length, L1, WL by exact L2. lia.
Qed.

Theorem wrap_length : forall kek p n, length p = (8 * n)%nat -> length (wrap kek p) = (length p + 8)%nat.
Proof.
  intros kek p n Hl. rewrite wrap_length_gen, Hl.
  rewrite (Nat.mul_comm 8 n), Nat.div_mul by lia. lia.
Qed.

Theorem wrap_bytes : forall kek p n,
  Forall byte kek -> Forall byte p -> length p = (8 * n)%nat -> Forall byte (wrap kek p).
Proof.
  intros kek p n Hk Hp Hl. unfold wrap, wrap_rk.
  replace (length p / 8)%nat with n by (rewrite Hl, Nat.mul_comm, Nat.div_mul; lia).
  destruct (chunks8_spec n p Hl Hp) as [C1 _].
  destruct (wrap_passes_inv (expand_key kek) (expand_key_st16 kek Hk) 6 (N.of_nat n) 0 default_iv
              (chunks8 n p) default_iv_blk8 C1) as (W1 & W2 & _).
  destruct (wrap_passes 6 (expand_key kek) (N.of_nat n) 0 default_iv (chunks8 n p)) as [a rs].
  cbn [fst snd] in *. apply Forall_app. split; [apply W1|apply Forall_blk8_bytes, W2].
Qed.
