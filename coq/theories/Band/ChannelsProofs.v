(* Proofs about the channel-plan state machine model (C15). *)
From Coq Require Import List ZArith Bool Lia Sorting.Sorted.
From Coq Require Import ZifyBool ZifyNat.
From LW Require Import Base.Outcome Band.Channels Band.ChannelsSpec Band.Planner Band.ListLemmas Band.PlannerProofs.
Import ListNotations.
Open Scope Z_scope.

(* ---- index lists --------------------------------------------------------------------- *)

Lemma indices_where_chan (p : channel -> bool) u i :
  In i (indices_where p u 0) <-> exists c, chan_at u i = Some c /\ p c = true.
Proof.
  rewrite indices_where_In, Z.sub_0_r. split.
  - intros [Hi [c [E Hc]]]. exists c. split; [now apply chan_at_nth|assumption].
  - intros [c [E Hc]]. unfold chan_at in E.
    destruct ((i <? 0) || (zlen u <=? i)) eqn:R; [discriminate|]. split; [lia|]. eauto.
Qed.

Lemma chan_at_range u i c : chan_at u i = Some c -> 0 <= i < zlen u.
Proof.
  unfold chan_at. destruct ((i <? 0) || (zlen u <=? i)) eqn:R; [discriminate|]. lia.
Qed.

(* two complementary predicates partition the index range *)
Theorem indices_partition (p : channel -> bool) u :
  let a := indices_where p u 0 in
  let b := indices_where (fun c => negb (p c)) u 0 in
  StronglySorted Z.lt a /\ StronglySorted Z.lt b /\
  (forall i, In i a -> 0 <= i < zlen u) /\ (forall i, In i b -> 0 <= i < zlen u) /\
  (forall i, 0 <= i < zlen u -> (In i a <-> ~ In i b)).
Proof.
  cbv zeta. split; [apply indices_where_sorted|]. split; [apply indices_where_sorted|].
  split; [|split].
  - intros i H. apply indices_where_chan in H as [c [E _]]. now apply chan_at_range in E.
  - intros i H. apply indices_where_chan in H as [c [E _]]. now apply chan_at_range in E.
  - intros i R. rewrite !indices_where_chan. destruct (chan_at_some u i R) as [c [E _]]. split.
    + intros [c1 [E1 P1]] [c2 [E2 P2]]. rewrite E in E1, E2. injection E1 as <-. injection E2 as <-.
      rewrite P1 in P2. discriminate.
    + intros H. exists c. split; [exact E|]. destruct (p c) eqn:P; [reflexivity|].
      exfalso. apply H. exists c. now rewrite P.
Qed.

Theorem all_indices (s : st) i : In i (get_uplink_channel_indices s) <-> 0 <= i < zlen (up s).
Proof.
  unfold get_uplink_channel_indices. rewrite indices_where_chan. split.
  - intros [c [E _]]. now apply chan_at_range in E.
  - intros R. destruct (chan_at_some _ _ R) as [c [E _]]. eauto.
Qed.

Theorem enabled_disabled_partition (s : st) :
  let a := get_enabled_uplink_channel_indices s in
  let b := get_disabled_uplink_channel_indices s in
  StronglySorted Z.lt a /\ StronglySorted Z.lt b /\
  (forall i, In i a -> 0 <= i < zlen (up s)) /\ (forall i, In i b -> 0 <= i < zlen (up s)) /\
  (forall i, 0 <= i < zlen (up s) -> (In i a <-> ~ In i b)).
Proof. exact (indices_partition enabled (up s)). Qed.

Theorem standard_custom_partition (s : st) :
  let a := get_custom_uplink_channel_indices s in
  let b := get_standard_uplink_channel_indices s in
  StronglySorted Z.lt a /\ StronglySorted Z.lt b /\
  (forall i, In i a -> 0 <= i < zlen (up s)) /\ (forall i, In i b -> 0 <= i < zlen (up s)) /\
  (forall i, 0 <= i < zlen (up s) -> (In i a <-> ~ In i b)).
Proof. exact (indices_partition custom (up s)). Qed.

(* ---- accessors: errors, never panics ------------------------------------------------------ *)

Lemma guarded_idx_spec {A} (l : list A) i :
  (0 <= i < zlen l /\ exists a, guarded_idx l i = Ok a /\ nth_error l (Z.to_nat i) = Some a) \/
  (~ (0 <= i < zlen l) /\ guarded_idx l i = Err).
Proof.
  unfold guarded_idx, zidx, zlen.
  destruct ((i <? 0) || (i >? Z.of_nat (length l) - 1)) eqn:G.
  - right. split; [lia|reflexivity].
  - left. split; [lia|]. destruct ((i <? 0) || (Z.of_nat (length l) <=? i)) eqn:G2; [lia|].
    destruct (nth_error l (Z.to_nat i)) eqn:E; [eauto|]. apply nth_error_None in E. lia.
Qed.

Theorem get_uplink_channel_spec (s : st) i :
  match chan_at (up s) i with
  | Some c => get_uplink_channel s i = Ok c
  | None => get_uplink_channel s i = Err
  end.
Proof.
  unfold get_uplink_channel. destruct (guarded_idx_spec (up s) i) as [[R [a [E1 E2]]]|[R E]].
  - rewrite (chan_at_nth _ _ _ E2) by lia. exact E1.
  - rewrite chan_at_none by exact R. exact E.
Qed.

Theorem accessors_never_panic (s : st) i f d dr :
  get_uplink_channel s i <> Panic /\ get_downlink_channel s i <> Panic /\
  get_tx_power_offset s i <> Panic /\ get_uplink_channel_index s f d <> Panic /\
  get_uplink_channel_index_for_frequency_dr s f dr <> Panic.
Proof.
  assert (G : forall A (l : list A), guarded_idx l i <> Panic).
  { intros A l. destruct (guarded_idx_spec l i) as [[_ [a [E _]]]|[_ E]]; rewrite E; discriminate. }
  split; [apply G|]. split; [apply G|]. split; [apply G|].
  assert (I : forall d', get_uplink_channel_index s f d' <> Panic).
  { intros d'. unfold get_uplink_channel_index. destruct (find_index _ _ _); discriminate. }
  split; [apply I|].
  unfold get_uplink_channel_index_for_frequency_dr.
  destruct (find_index _ _ _); [discriminate|]. destruct (find_index _ _ _); discriminate.
Qed.

(* out-of-range and negative indices are errors *)
Theorem invalid_index_is_error (s : st) i : ~ (0 <= i < zlen (up s)) ->
  get_uplink_channel s i = Err /\
  snd (step s (Disable i)) = Err /\ fst (step s (Disable i)) = s /\
  snd (step s (Enable i)) = Err /\ fst (step s (Enable i)) = s.
Proof.
  intros R. split.
  - pose proof (get_uplink_channel_spec s i) as H. now rewrite chan_at_none in H by exact R.
  - cbn [step]. unfold set_enabled_index.
    destruct ((i <? 0) || (i >? zlen (up s) - 1)) eqn:G; [|lia]. auto.
Qed.

Theorem invalid_downlink_index_is_error (s : st) i : ~ (0 <= i < zlen (down s)) -> get_downlink_channel s i = Err.
Proof.
  intros R. unfold get_downlink_channel.
  destruct (guarded_idx_spec (down s) i) as [[R' _]|[_ E]]; [contradiction|exact E].
Qed.

Theorem step_never_panics (s : st) o : snd (step s o) <> Panic.
Proof.
  destruct o; cbn [step]; unfold add_channel, set_enabled_index.
  - destruct (negb (accepts (extra s) (updr s) f mn mx)); discriminate.
  - destruct ((i <? 0) || (i >? zlen (up s) - 1)); discriminate.
  - destruct ((i <? 0) || (i >? zlen (up s) - 1)); discriminate.
Qed.

(* ---- lookups ------------------------------------------------------------------------------- *)

Lemma find_index_spec {A} (p : A -> bool) l k :
  match find_index p l k with
  | Some i => k <= i /\ (exists a, nth_error l (Z.to_nat (i - k)) = Some a /\ p a = true) /\
              forall j a, k <= j < i -> nth_error l (Z.to_nat (j - k)) = Some a -> p a = false
  | None => forall a, In a l -> p a = false
  end.
Proof.
  revert k; induction l as [|a l IH]; intros k; cbn [find_index].
  - intros a [].
  - destruct (p a) eqn:P.
    + split; [lia|]. split.
      * exists a. replace (k - k) with 0 by lia. auto.
      * intros; lia.
    + specialize (IH (k + 1)). destruct (find_index p l (k + 1)) as [i|].
      * destruct IH as [H1 [[b [H2 H3]] H4]]. split; [lia|]. split.
        -- exists b. replace (Z.to_nat (i - k)) with (S (Z.to_nat (i - (k + 1)))) by lia. auto.
        -- intros j b' Hj E. destruct (Z.eq_dec j k) as [->|Hne].
           ++ replace (k - k) with 0 in E by lia. cbn in E. congruence.
           ++ apply (H4 j b'); [lia|].
              replace (Z.to_nat (j - k)) with (S (Z.to_nat (j - (k + 1)))) in E by lia. exact E.
      * intros b [<-|Hb]; auto.
Qed.

Theorem uplink_channel_index_spec (s : st) f d :
  match get_uplink_channel_index s f d with
  | Ok i => matches_freq (up s) f d i = true /\ forall j, 0 <= j < i -> matches_freq (up s) f d j = false
  | Err => forall i, matches_freq (up s) f d i = false
  | _ => False
  end.
Proof.
  unfold get_uplink_channel_index.
  pose proof (find_index_spec (fun c => (f =? freq c) && negb (Bool.eqb (custom c) d)) (up s) 0) as H.
  destruct (find_index _ (up s) 0) as [i|].
  - destruct H as [H1 [[c [H2 H3]] H4]]. rewrite Z.sub_0_r in H2.
    assert (R : (Z.to_nat i < length (up s))%nat) by (apply nth_error_Some; congruence).
    unfold matches_freq, zidx_opt. split.
    + destruct ((i <? 0) || (Z.of_nat (length (up s)) <=? i)) eqn:G; [lia|]. rewrite H2.
      rewrite Z.eqb_sym. exact H3.
    + intros j Hj. destruct ((j <? 0) || (Z.of_nat (length (up s)) <=? j)) eqn:G; [reflexivity|].
      destruct (nth_error (up s) (Z.to_nat j)) as [c'|] eqn:E; [|reflexivity].
      rewrite Z.eqb_sym. apply (H4 j c'); [lia|]. now rewrite Z.sub_0_r.
  - intros i. unfold matches_freq, zidx_opt.
    destruct ((i <? 0) || (Z.of_nat (length (up s)) <=? i)); [reflexivity|].
    destruct (nth_error (up s) (Z.to_nat i)) as [c|] eqn:E; [|reflexivity].
    rewrite Z.eqb_sym. apply H. now apply nth_error_In in E.
Qed.

(* lookup by frequency + data-rate: the answer matches; an error exactly when no channel
   matches; default channels are preferred, and within the class the first one is returned *)
Definition class_dr (t : list channel) (f dr : Z) (default : bool) (i : Z) : bool :=
  match zidx_opt t i with
  | Some c => freq_dr_class f dr default c
  | None => false
  end.

Lemma find_class_spec (s : st) f dr d :
  match find_index (freq_dr_class f dr d) (up s) 0 with
  | Some i => class_dr (up s) f dr d i = true /\ forall j, 0 <= j < i -> class_dr (up s) f dr d j = false
  | None => forall i, class_dr (up s) f dr d i = false
  end.
Proof.
  pose proof (find_index_spec (freq_dr_class f dr d) (up s) 0) as H.
  destruct (find_index _ (up s) 0) as [i|].
  - destruct H as [H1 [[c [H2 H3]] H4]]. rewrite Z.sub_0_r in H2.
    assert (R : (Z.to_nat i < length (up s))%nat) by (apply nth_error_Some; congruence).
    unfold class_dr, zidx_opt. split.
    + destruct ((i <? 0) || (Z.of_nat (length (up s)) <=? i)) eqn:G; [lia|]. now rewrite H2.
    + intros j Hj. destruct ((j <? 0) || (Z.of_nat (length (up s)) <=? j)) eqn:G; [reflexivity|].
      destruct (nth_error (up s) (Z.to_nat j)) as [c'|] eqn:E; [|reflexivity].
      apply (H4 j c'); [lia|]. now rewrite Z.sub_0_r.
  - intros i. unfold class_dr, zidx_opt.
    destruct ((i <? 0) || (Z.of_nat (length (up s)) <=? i)); [reflexivity|].
    destruct (nth_error (up s) (Z.to_nat i)) as [c|] eqn:E; [|reflexivity].
    apply H. now apply nth_error_In in E.
Qed.

Lemma class_dr_matches t f dr d i : class_dr t f dr d i = true -> matches_freq_dr t f dr i = true.
Proof.
  unfold class_dr, matches_freq_dr, freq_dr_class. destruct (zidx_opt t i); [|discriminate]. lia.
Qed.

Lemma matches_class_dr t f dr i : matches_freq_dr t f dr i = true ->
  class_dr t f dr true i = true \/ class_dr t f dr false i = true.
Proof.
  unfold class_dr, matches_freq_dr, freq_dr_class. destruct (zidx_opt t i) as [c|]; [|discriminate].
  destruct (custom c); cbn [Bool.eqb negb]; lia.
Qed.

Theorem uplink_channel_index_for_frequency_dr_spec (s : st) f dr :
  match get_uplink_channel_index_for_frequency_dr s f dr with
  | Ok i => matches_freq_dr (up s) f dr i = true /\
            (* a default channel is preferred; within its class it is the first *)
            ((class_dr (up s) f dr true i = true /\ forall j, 0 <= j < i -> class_dr (up s) f dr true j = false) \/
             (class_dr (up s) f dr false i = true /\ (forall j, class_dr (up s) f dr true j = false) /\
              forall j, 0 <= j < i -> class_dr (up s) f dr false j = false))
  | Err => forall i, matches_freq_dr (up s) f dr i = false
  | _ => False
  end.
Proof.
  unfold get_uplink_channel_index_for_frequency_dr.
  pose proof (find_class_spec s f dr true) as HT. pose proof (find_class_spec s f dr false) as HF.
  destruct (find_index (freq_dr_class f dr true) (up s) 0) as [i|].
  - destruct HT as [A B]. split; [now apply class_dr_matches in A|]. left. auto.
  - destruct (find_index (freq_dr_class f dr false) (up s) 0) as [i|].
    + destruct HF as [A B]. split; [now apply class_dr_matches in A|]. right. auto.
    + intros i. destruct (matches_freq_dr (up s) f dr i) eqn:M; [|reflexivity].
      apply matches_class_dr in M. destruct M as [M|M]; [rewrite HT in M|rewrite HF in M]; discriminate.
Qed.

Theorem uplink_channel_index_for_frequency_dr_sound (s : st) f dr i :
  get_uplink_channel_index_for_frequency_dr s f dr = Ok i -> matches_freq_dr (up s) f dr i = true.
Proof.
  intros H. pose proof (uplink_channel_index_for_frequency_dr_spec s f dr) as S. rewrite H in S. apply S.
Qed.

Theorem uplink_channel_index_for_frequency_dr_complete (s : st) f dr i :
  matches_freq_dr (up s) f dr i = true -> exists j, get_uplink_channel_index_for_frequency_dr s f dr = Ok j.
Proof.
  intros M. pose proof (uplink_channel_index_for_frequency_dr_spec s f dr) as S.
  destruct (get_uplink_channel_index_for_frequency_dr s f dr) as [j| | |]; try contradiction; [eauto|].
  rewrite S in M. discriminate.
Qed.

(* the code before the fix missed the second of two custom channels sharing a frequency *)
Theorem frequency_dr_prefix_refuted :
  let c1 := mkChannel 868300000 6 6 true true in
  let c2 := mkChannel 868300000 7 7 true true in
  let s := mkSt true 0 5 [c1; c2] [c1; c2] [] [0; 1; 2; 3; 4; 5; 6; 7] in
  get_uplink_channel_index_for_frequency_dr_prefix s 868300000 7 = Err /\
  matches_freq_dr (up s) 868300000 7 1 = true /\
  get_uplink_channel_index_for_frequency_dr s 868300000 7 = Ok 1.
Proof. vm_compute. repeat split; reflexivity. Qed.


(* ---- histories ------------------------------------------------------------------------------ *)

(* channels appended by the AddChannel calls of a history: those the band accepts
   (extra channels supported, data-rate range made of uplink data-rates of the band,
   frequency NewChannelReq can carry - [accepts]) *)
Definition adds (ext : bool) (drs : list Z) (ops : list op) : list channel :=
  flat_map (fun o => match o with
                     | AddChannel f mn mx => if accepts ext drs f mn mx then [mkChannel f mn mx (negb (f =? 0)) true] else []
                     | _ => []
                     end) ops.

Definition ident (c : channel) : Z * Z * Z * bool := (freq c, minDR c, maxDR c, custom c).

Lemma map_nth_ident f l i : (forall c, ident (f c) = ident c) -> map ident (map_nth f l i) = map ident l.
Proof.
  intros H. revert i; induction l as [|a l IH]; destruct i; cbn [map_nth map]; auto.
  - now rewrite H.
  - now rewrite IH.
Qed.

Lemma run_cons s o ops : run s (o :: ops) = run (fst (step s o)) ops.
Proof. reflexivity. Qed.

Definition add1 (ext : bool) (drs : list Z) (o : op) : list channel :=
  match o with
  | AddChannel f mn mx => if accepts ext drs f mn mx then [mkChannel f mn mx (negb (f =? 0)) true] else []
  | _ => []
  end.

Lemma adds_cons ext drs o ops : adds ext drs (o :: ops) = add1 ext drs o ++ adds ext drs ops.
Proof. reflexivity. Qed.

Lemma step_updr (s : st) (o : op) : updr (fst (step s o)) = updr s.
Proof.
  destruct o as [f mn mx|i|i]; cbn [step].
  - unfold add_channel. destruct (negb (accepts (extra s) (updr s) f mn mx)); reflexivity.
  - unfold set_enabled_index. destruct ((i <? 0) || (i >? zlen (up s) - 1)); reflexivity.
  - unfold set_enabled_index. destruct ((i <? 0) || (i >? zlen (up s) - 1)); reflexivity.
Qed.

Lemma step_tables (s : st) (o : op) :
  let s' := fst (step s o) in
  extra s' = extra s /\ cfmin s' = cfmin s /\ cfmax s' = cfmax s /\ txp s' = txp s /\
  down s' = down s ++ add1 (extra s) (updr s) o /\
  map ident (up s') = map ident (up s ++ add1 (extra s) (updr s) o).
Proof.
  cbv zeta. destruct o as [f mn mx|i|i]; cbn [step add1].
  - unfold add_channel. destruct (accepts (extra s) (updr s) f mn mx) eqn:X; cbn [negb fst extra cfmin cfmax txp down up].
    + repeat split; reflexivity.
    + rewrite !app_nil_r. repeat split; reflexivity.
  - unfold set_enabled_index. destruct ((i <? 0) || (i >? zlen (up s) - 1)); cbn [fst];
      rewrite !app_nil_r; [repeat split; reflexivity|].
    unfold set_up. cbn [extra cfmin cfmax txp down up]. repeat split; try reflexivity.
    now apply map_nth_ident.
  - unfold set_enabled_index. destruct ((i <? 0) || (i >? zlen (up s) - 1)); cbn [fst];
      rewrite !app_nil_r; [repeat split; reflexivity|].
    unfold set_up. cbn [extra cfmin cfmax txp down up]. repeat split; try reflexivity.
    now apply map_nth_ident.
Qed.

Lemma run_updr (ops : list op) : forall s, updr (run s ops) = updr s.
Proof.
  induction ops as [|o ops IH]; intros s; [reflexivity|]. rewrite run_cons, IH. apply step_updr.
Qed.

(* the whole effect of any history on the tables, in one statement *)
Theorem run_tables (ops : list op) : forall s,
  let s' := run s ops in
  extra s' = extra s /\ cfmin s' = cfmin s /\ cfmax s' = cfmax s /\ txp s' = txp s /\
  down s' = down s ++ adds (extra s) (updr s) ops /\
  map ident (up s') = map ident (up s ++ adds (extra s) (updr s) ops).
Proof.
  induction ops as [|o ops IH]; intros s; cbv zeta.
  - cbn. rewrite !app_nil_r. repeat split; reflexivity.
  - rewrite run_cons. specialize (IH (fst (step s o))). cbv zeta in IH.
    destruct IH as [E1 [E2 [E3 [E4 [E5 E6]]]]].
    destruct (step_tables s o) as [F1 [F2 [F3 [F4 [F5 F6]]]]].
    rewrite (step_updr s o) in E5, E6.
    rewrite adds_cons. rewrite E1, E2, E3, E4, E5, E6, F1, F2, F3, F4, F5.
    repeat split; try reflexivity.
    + now rewrite app_assoc.
    + rewrite !map_app in *. rewrite F6. now rewrite app_assoc.
Qed.

Lemma adds_custom ext drs ops : Forall (fun c => custom c = true) (adds ext drs ops).
Proof.
  induction ops as [|o ops IH]; cbn [adds flat_map]; [constructor|].
  apply Forall_app. split; [|exact IH]. destruct o; try constructor. destruct (accepts ext drs f mn mx); repeat constructor.
Qed.

Lemma ident_nth u u' i c : map ident u' = map ident u -> nth_error u i = Some c ->
  exists c', nth_error u' i = Some c' /\ ident c' = ident c.
Proof.
  intros H E. assert (X : nth_error (map ident u') i = Some (ident c)) by (rewrite H; now apply map_nth_error).
  rewrite nth_error_map in X. destruct (nth_error u' i) as [c'|]; [|discriminate].
  exists c'. split; auto. cbn in X. congruence.
Qed.

(* the band's own channels are never altered: after any history, every index of
   the initial table still holds a channel with the same frequency, data-rate
   range and custom flag; everything behind them is a custom channel *)
Theorem standard_channels_never_altered (s : st) (ops : list op) i c :
  chan_at (up s) i = Some c ->
  exists c', chan_at (up (run s ops)) i = Some c' /\
             freq c' = freq c /\ minDR c' = minDR c /\ maxDR c' = maxDR c /\ custom c' = custom c.
Proof.
  intros E. pose proof (chan_at_range _ _ _ E) as R.
  destruct (run_tables ops s) as [_ [_ [_ [_ [_ H]]]]].
  destruct (chan_at_some _ _ R) as [c0 [E0 N0]]. rewrite E in E0. injection E0 as <-.
  assert (N1 : nth_error (up s ++ adds (extra s) (updr s) ops) (Z.to_nat i) = Some c).
  { rewrite nth_error_app1; [exact N0|]. unfold zlen in R. lia. }
  destruct (ident_nth _ _ _ _ H N1) as [c' [N' I]].
  exists c'. split; [apply chan_at_nth; [exact N'|lia]|].
  unfold ident in I. injection I as -> -> -> ->. auto.
Qed.

Theorem appended_channels_are_custom (s : st) (ops : list op) i c :
  zlen (up s) <= i -> chan_at (up (run s ops)) i = Some c -> custom c = true.
Proof.
  intros Hi E. pose proof (chan_at_range _ _ _ E) as R.
  destruct (run_tables ops s) as [_ [_ [_ [_ [_ H]]]]].
  destruct (chan_at_some _ _ R) as [c0 [E0 N0]]. rewrite E in E0. injection E0 as <-.
  destruct (ident_nth _ _ _ _ (eq_sym H) N0) as [c' [N' I]].
  unfold zlen in Hi. rewrite nth_error_app2 in N' by lia.
  apply nth_error_In in N'. pose proof (adds_custom (extra s) (updr s) ops) as F. rewrite Forall_forall in F.
  apply F in N'. unfold ident in I. injection I as _ _ _ X. congruence.
Qed.

Theorem channel_count (s : st) (ops : list op) :
  zlen (up (run s ops)) = zlen (up s) + zlen (adds (extra s) (updr s) ops) /\
  zlen (down (run s ops)) = zlen (down s) + zlen (adds (extra s) (updr s) ops).
Proof.
  destruct (run_tables ops s) as [_ [_ [_ [_ [D U]]]]]. unfold zlen. split.
  - assert (length (map ident (up (run s ops))) = length (map ident (up s ++ adds (extra s) (updr s) ops))) by now rewrite U.
    rewrite !map_length, app_length in H. lia.
  - rewrite D, app_length. lia.
Qed.

(* when the initial plan has only standard channels, the standard indices stay
   exactly 0 .. n0-1 and the custom indices are n0 .. n-1 *)
Theorem standard_indices_fixed (s : st) (ops : list op) i :
  (forall c, In c (up s) -> custom c = false) ->
  (In i (get_standard_uplink_channel_indices (run s ops)) <-> 0 <= i < zlen (up s)) /\
  (In i (get_custom_uplink_channel_indices (run s ops)) <-> zlen (up s) <= i < zlen (up (run s ops))).
Proof.
  intros Hstd. unfold get_standard_uplink_channel_indices, get_custom_uplink_channel_indices.
  rewrite !indices_where_chan. split; split.
  - intros [c [E C]]. pose proof (chan_at_range _ _ _ E) as R.
    destruct (Z_lt_dec i (zlen (up s))); [lia|].
    rewrite (appended_channels_are_custom s ops i c) in C by (auto; lia). discriminate.
  - intros R. destruct (chan_at_some _ _ R) as [c [E N]].
    destruct (standard_channels_never_altered s ops i c E) as [c' [E' [_ [_ [_ C]]]]].
    exists c'. split; [exact E'|]. rewrite C, (Hstd c); [reflexivity|]. now apply nth_error_In in N.
  - intros [c [E C]]. pose proof (chan_at_range _ _ _ E) as R. split; [|lia].
    destruct (Z_lt_dec i (zlen (up s))); [|lia]. exfalso.
    destruct (chan_at_some (up s) i ltac:(lia)) as [c0 [E0 N0]].
    destruct (standard_channels_never_altered s ops i c0 E0) as [c' [E' [_ [_ [_ C']]]]].
    rewrite E in E'. injection E' as <-. rewrite C', (Hstd c0) in C; [discriminate|]. now apply nth_error_In in N0.
  - intros R. assert (0 <= zlen (up s)) by (unfold zlen; lia).
    destruct (chan_at_some (up (run s ops)) i ltac:(lia)) as [c [E _]].
    exists c. split; [exact E|]. apply (appended_channels_are_custom s ops i c); [lia|exact E].
Qed.

(* no call of any history panics, and the outcome of each call is determined by
   validity of its argument at that moment *)
Theorem history_never_panics (ops : list op) : forall s, Forall (fun o => o <> Panic) (run_outcomes s ops).
Proof.
  induction ops as [|o ops IH]; intros s; cbn [run_outcomes]; constructor; [apply step_never_panics|apply IH].
Qed.

Theorem step_outcome (s : st) o :
  snd (step s o) = match o with
                   | AddChannel f mn mx => if accepts (extra s) (updr s) f mn mx then Ok tt else Err
                   | Disable i | Enable i => if (0 <=? i) && (i <? zlen (up s)) then Ok tt else Err
                   end.
Proof.
  destruct o; cbn [step]; unfold add_channel, set_enabled_index.
  - destruct (accepts (extra s) (updr s) f mn mx); reflexivity.
  - destruct ((i <? 0) || (i >? zlen (up s) - 1)) eqn:G; destruct ((0 <=? i) && (i <? zlen (up s))) eqn:H; try reflexivity; lia.
  - destruct ((i <? 0) || (i >? zlen (up s) - 1)) eqn:G; destruct ((0 <=? i) && (i <? zlen (up s))) eqn:H; try reflexivity; lia.
Qed.

(* what AddChannel accepts (code after the fix for findings C15-8 / C15-9) *)
Lemma dr_defined_In drs d : dr_defined drs d = true <-> In d drs.
Proof.
  unfold dr_defined. rewrite existsb_exists. split.
  - intros [x [Hx E]]. apply Z.eqb_eq in E. now subst.
  - intros H. exists d. split; [exact H|apply Z.eqb_refl].
Qed.

Theorem valid_dr_range_spec drs mn mx :
  valid_dr_range drs mn mx = true <-> mn <= mx /\ forall d, mn <= d <= mx -> In d drs.
Proof.
  unfold valid_dr_range. split.
  - destruct (dr_defined drs mn) eqn:A; [|discriminate]. destruct (dr_defined drs mx) eqn:B; [|discriminate].
    destruct (mn <=? mx) eqn:L; [|discriminate]. intros F. split; [lia|]. intros d Hd.
    rewrite forallb_forall in F. specialize (F (Z.to_nat (d - mn))).
    replace (mn + Z.of_nat (Z.to_nat (d - mn))) with d in F by lia.
    apply dr_defined_In, F, in_seq. lia.
  - intros [L H].
    assert (A : dr_defined drs mn = true) by (apply dr_defined_In, H; lia).
    assert (B : dr_defined drs mx = true) by (apply dr_defined_In, H; lia).
    rewrite A, B. destruct (mn <=? mx) eqn:L'; [|lia].
    apply forallb_forall. intros k Hk. apply in_seq in Hk. apply dr_defined_In, H. lia.
Qed.

Theorem valid_channel_freq_spec f : 0 <= f ->
  (valid_channel_freq f = true <->
   (f < 2400000000 /\ f mod 100 = 0 /\ f / 100 < 16777216) \/
   (2400000000 <= f /\ f mod 200 = 0 /\ f / 200 < 16777216)).
Proof. intros Hf. unfold valid_channel_freq. destruct (f >=? 2400000000) eqn:G; lia. Qed.

(* every channel a history appends was accepted: its data-rate range consists of uplink
   data-rates of the band and its frequency is one NewChannelReq can carry *)
Theorem adds_accepted ext drs ops c : In c (adds ext drs ops) ->
  ext = true /\ valid_dr_range drs (minDR c) (maxDR c) = true /\ valid_channel_freq (freq c) = true /\ custom c = true.
Proof.
  induction ops as [|o ops IH]; [intros []|]. rewrite adds_cons. intros H. apply in_app_iff in H as [H|H]; [|now apply IH].
  destruct o as [f mn mx| |]; cbn [add1] in H; try destruct H.
  destruct (accepts ext drs f mn mx) eqn:A; [|destruct H]. destruct H as [<-|[]]. cbn [minDR maxDR freq custom].
  unfold accepts in A. apply andb_true_iff in A as [A C]. apply andb_true_iff in A as [A B]. auto.
Qed.

(* the code before the fix accepted any arguments: a data-rate range (-1, 16), and
   max = 2^63-1 (over which GetEnabledUplinkDataRates then loops without end), a frequency
   that is not a multiple of 100 Hz - the repaired code refuses them *)
Theorem add_channel_prefix_refuted :
  let s := mkSt true 0 5 [] [] [] [0; 1; 2; 3; 4; 5; 6; 7] in
  snd (add_channel_prefix s 867100000 (-1) 16) = Ok tt /\ snd (add_channel s 867100000 (-1) 16) = Err /\
  snd (add_channel_prefix s 867100000 0 9223372036854775807) = Ok tt /\
  snd (add_channel s 867100000 0 9223372036854775807) = Err /\
  snd (add_channel_prefix s 867100050 0 5) = Ok tt /\ snd (add_channel s 867100050 0 5) = Err /\
  snd (add_channel_prefix s 1677721600 0 5) = Ok tt /\ snd (add_channel s 1677721600 0 5) = Err /\
  snd (add_channel s 867100000 0 5) = Ok tt /\ snd (add_channel s 0 0 5) = Ok tt /\
  snd (add_channel s 2426000000 0 7) = Ok tt.
Proof. vm_compute. repeat split; reflexivity. Qed.

(* a valid Disable / Enable changes exactly the enabled flag of that channel *)
Theorem set_enabled_effect (s : st) (v : bool) (i j : Z) : 0 <= i < zlen (up s) ->
  let s' := fst (step s (if v then Enable i else Disable i)) in
  chan_at (up s') j = if j =? i then option_map (set_enabled v) (chan_at (up s) i) else chan_at (up s) j.
Proof.
  intros R. cbv zeta.
  assert (E : fst (step s (if v then Enable i else Disable i)) = fst (set_enabled_index v s i)) by (destruct v; reflexivity).
  rewrite E. unfold set_enabled_index. destruct ((i <? 0) || (i >? zlen (up s) - 1)) eqn:G; [lia|].
  cbn [fst set_up up]. unfold chan_at, zlen. rewrite map_nth_length.
  destruct (Z.eqb_spec j i) as [->|Hne].
  - destruct ((i <? 0) || (Z.of_nat (length (up s)) <=? i)); [reflexivity|].
    rewrite nth_error_map_nth, Nat.eqb_refl. reflexivity.
  - destruct ((j <? 0) || (Z.of_nat (length (up s)) <=? j)) eqn:G2; [reflexivity|].
    rewrite nth_error_map_nth. destruct (Nat.eqb_spec (Z.to_nat i) (Z.to_nat j)); [lia|reflexivity].
Qed.

(* ---- CFList content: the model equals the independent description ----------------------------- *)
Ltac Zify.zify_post_hook ::= Z.div_mod_to_equations.

Lemma pad_to_app {A} (d : A) : forall n l, (length l <= n)%nat -> pad_to d n l = l ++ repeat d (n - length l).
Proof.
  induction n as [|n IH]; intros l H.
  - destruct l; [reflexivity|cbn in H; lia].
  - destruct l as [|a l]; cbn [pad_to length app].
    + rewrite (IH [] ltac:(cbn; lia)). cbn [length app]. rewrite Nat.sub_0_r. reflexivity.
    + cbn [length] in H. rewrite (IH l) by lia. reflexivity.
Qed.

Lemma forallb_zero_pad l k : forallb (fun f => f =? 0) (l ++ repeat 0 k) = forallb (fun f => f =? 0) l.
Proof.
  rewrite forallb_app. replace (forallb (fun f => f =? 0) (repeat 0 k)) with true; [apply andb_true_r|].
  induction k; cbn; auto.
Qed.

Theorem cflist_channels_spec (s : st) :
  cflist_channels s = spec_cflist_channels (cfmin s) (cfmax s) (up s).
Proof.
  unfold cflist_channels, cflist_channel_slots, spec_cflist_channels.
  set (l := map freq (firstn 5 (filter (fun c => custom c && (minDR c =? cfmin s) && (maxDR c =? cfmax s)) (up s)))).
  assert (L : (length l <= 5)%nat) by (unfold l; rewrite map_length; apply firstn_le_length).
  rewrite (pad_to_app 0 5 l L), forallb_zero_pad. reflexivity.
Qed.

(* the code before the fix offered nothing when the first eligible custom channel has
   frequency 0 (an unused slot) although later ones exist *)
Theorem cflist_channels_prefix_refuted :
  let c0 := mkChannel 0 0 5 false true in
  let c1 := mkChannel 867100000 0 5 true true in
  let s := mkSt true 0 5 [c0; c1] [c0; c1] [] [0; 1; 2; 3; 4; 5; 6; 7] in
  cflist_channels_prefix s = None /\ cflist_channels s = Some (CFChannels [0; 867100000; 0; 0; 0]).
Proof. vm_compute. split; reflexivity. Qed.

Lemma pad_nil {A} (d : A) (f : nat -> nat) : forall w k, pad_to d w [] = map (fun j => nth (f j) [] d) (seq k w).
Proof.
  induction w as [|w IH]; intros k; [reflexivity|]. cbn [pad_to seq map]. f_equal; [|apply IH].
  destruct (f k); reflexivity.
Qed.

Lemma pad_firstn_nth {A} (d : A) : forall w l, pad_to d w (firstn w l) = map (fun j => nth j l d) (seq 0 w).
Proof.
  induction w as [|w IH]; intros l; [reflexivity|].
  destruct l as [|a l].
  - rewrite firstn_nil. apply (pad_nil d (fun j => j)).
  - cbn [seq map]. rewrite <- seq_shift, map_map. cbn [firstn pad_to nth]. f_equal. apply IH.
Qed.

Lemma nth_skipn {A} (d : A) k : forall l j, nth j (skipn k l) d = nth (k + j) l d.
Proof.
  induction k as [|k IH]; intros l j; [reflexivity|].
  destruct l as [|a l]; cbn [skipn]; [destruct j; reflexivity|]. rewrite IH. reflexivity.
Qed.

Lemma seq0_S k : seq 0 (S k) = 0%nat :: map S (seq 0 k).
Proof. cbn [seq]. now rewrite seq_shift. Qed.

Definition mask_row (l : list bool) (m : nat) : list bool :=
  map (fun j => nth (16 * m + j) l false) (seq 0 16).

Lemma chunk_masks_spec : forall fuel l, (length l <= 16 * fuel)%nat -> (0 < fuel)%nat ->
  chunk_masks fuel 16 l = map (mask_row l) (seq 0 (Nat.max 1 ((length l + 15) / 16))).
Proof.
  induction fuel as [|fuel IH]; intros l H F; [lia|].
  cbn [chunk_masks]. rewrite pad_firstn_nth.
  change (map (fun j => nth j l false) (seq 0 16)) with (mask_row l 0).
  destruct (skipn 16 l) as [|b rest] eqn:Sk.
  - assert (length l <= 16)%nat.
    { assert (X : length (skipn 16 l) = 0%nat) by now rewrite Sk. rewrite skipn_length in X. lia. }
    assert (E : Nat.max 1 ((length l + 15) / 16) = 1%nat) by lia.
    rewrite E. reflexivity.
  - assert (Hl : (16 < length l)%nat).
    { assert (X : length (skipn 16 l) = S (length rest)) by now rewrite Sk. rewrite skipn_length in X. lia. }
    assert (Hr : length (b :: rest) = (length l - 16)%nat) by (rewrite <- Sk; apply skipn_length).
    rewrite IH by lia. rewrite Hr.
    assert (E : Nat.max 1 ((length l + 15) / 16) = S (Nat.max 1 ((length l - 16 + 15) / 16))) by lia.
    rewrite E, seq0_S. cbn [map]. f_equal. rewrite map_map.
    apply map_ext. intros m. unfold mask_row. apply map_ext. intros j.
    rewrite <- Sk, nth_skipn. f_equal. lia.
Qed.

Theorem cflist_channel_mask_spec (s : st) : cflist_channel_mask s = spec_cflist_masks (up s).
Proof.
  unfold cflist_channel_mask, spec_cflist_masks. f_equal.
  rewrite chunk_masks_spec by (rewrite ?map_length; lia). rewrite map_length.
  apply map_ext. intros m. unfold mask_row. apply map_ext. intros j. unfold spec_mask_bit.
  destruct (nth_error (up s) (16 * m + j)) as [c|] eqn:E.
  - rewrite (nth_indep _ false (enabled c)).
    + rewrite List.map_nth. f_equal. now apply nth_error_nth.
    + rewrite map_length. apply nth_error_Some. congruence.
  - apply nth_overflow. rewrite map_length. now apply nth_error_None.
Qed.

(* GetCFList offers exactly: the first five custom channels in the CFList
   data-rate range, in table order (channel-list bands); the exact
   enabled-channel masks (channel-mask bands, from LoRaWAN 1.0.3) *)
Theorem get_cflist_spec (s : st) (v : pversion) :
  get_cflist s v = spec_cflist (extra s) (cfmin s) (cfmax s) (up s) v.
Proof.
  unfold get_cflist, spec_cflist. destruct (extra s); cbn [negb andb].
  - apply cflist_channels_spec.
  - destruct (pv_before_103 v); [reflexivity|]. f_equal. apply cflist_channel_mask_spec.
Qed.

(* every frequency a channel-list CFList carries is the frequency of a custom
   channel of the table (or the filler 0) *)
Lemma In_firstn {A} (x : A) : forall n l, In x (firstn n l) -> In x l.
Proof.
  induction n as [|n IH]; intros l H; [destruct H|].
  destruct l as [|a l]; [destruct H|]. cbn [firstn] in H. destruct H as [->|H]; [now left|right; auto].
Qed.

Theorem cflist_only_custom (s : st) (v : pversion) fs f :
  get_cflist s v = Some (CFChannels fs) -> In f fs -> f = 0 \/ exists c, In c (up s) /\ custom c = true /\ freq c = f.
Proof.
  rewrite get_cflist_spec. unfold spec_cflist. destruct (extra s); [|destruct (pv_before_103 v); discriminate].
  unfold spec_cflist_channels.
  set (sel := filter (fun c => custom c && (minDR c =? cfmin s) && (maxDR c =? cfmax s)) (up s)).
  destruct (forallb (fun f0 => f0 =? 0) (map freq (firstn 5 sel))); [discriminate|].
  intros H Hin.
  assert (X : fs = map freq (firstn 5 sel) ++ repeat 0 (5 - length (map freq (firstn 5 sel)))) by congruence.
  rewrite X in Hin. apply in_app_iff in Hin as [Hin|Hin].
  - right. apply in_map_iff in Hin as [c [<- Hc]]. apply In_firstn in Hc.
    apply filter_In in Hc as [Hc P]. exists c. split; [exact Hc|]. split; [|reflexivity].
    apply andb_true_iff in P as [P _]. apply andb_true_iff in P as [P _]. exact P.
  - left. now apply repeat_spec in Hin.
Qed.
