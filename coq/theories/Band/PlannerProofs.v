(* Proofs about the LinkADRReq planner model (C14). *)
From Coq Require Import List ZArith Bool Lia Sorting.Sorted.
From Coq Require Import ZifyBool.
From LW Require Import Base.Outcome Band.Channels Band.Planner Band.PlannerSpec Band.ListLemmas.
Import ListNotations.
Open Scope Z_scope.

(* ---- the channel table as functions of the index ----------------------------- *)

Definition chan_at (u : list channel) (i : Z) : option channel :=
  if (i <? 0) || (zlen u <=? i) then None else nth_error u (Z.to_nat i).
Definition en_b (u : list channel) (i : Z) : bool :=
  match chan_at u i with Some c => enabled c | None => false end.
Definition cu_b (u : list channel) (i : Z) : bool :=
  match chan_at u i with Some c => custom c | None => false end.
(* channel i must be on after the plan has been applied *)
Definition want (u : list channel) (dev : list Z) (i : Z) : bool :=
  en_b u i && (negb (cu_b u i) || zmem i dev).

Definition getz (m : list bool) (i : Z) : bool := nth (Z.to_nat i) m false.

Lemma chan_at_some u i : 0 <= i < zlen u -> exists c, chan_at u i = Some c /\ nth_error u (Z.to_nat i) = Some c.
Proof.
  intros H. unfold chan_at, zlen in *.
  destruct (nth_error u (Z.to_nat i)) eqn:E.
  - exists c. split; auto. destruct (Z.ltb_spec i 0); [lia|]. destruct (Z.leb_spec (Z.of_nat (length u)) i); [lia|]. reflexivity.
  - apply nth_error_None in E. lia.
Qed.

Lemma chan_at_none u i : ~ (0 <= i < zlen u) -> chan_at u i = None.
Proof.
  intros H. unfold chan_at. destruct (Z.ltb_spec i 0); simpl; auto.
  destruct (Z.leb_spec (zlen u) i); auto. lia.
Qed.

Lemma chan_at_nth u i c : nth_error u (Z.to_nat i) = Some c -> 0 <= i -> chan_at u i = Some c.
Proof.
  intros E Hi. assert (Z.to_nat i < length u)%nat by (apply nth_error_Some; congruence).
  destruct (chan_at_some u i) as [c' [H1 H2]]; [unfold zlen; lia|]. congruence.
Qed.

Lemma en_b_range u i : en_b u i = true -> 0 <= i < zlen u.
Proof.
  unfold en_b. intros H. destruct (Z_lt_dec i 0); [rewrite chan_at_none in H by lia; discriminate|].
  destruct (Z_lt_dec i (zlen u)); [lia|]. rewrite chan_at_none in H by lia. discriminate.
Qed.

Lemma want_range u dev i : want u dev i = true -> 0 <= i < zlen u.
Proof. unfold want. intros H. apply andb_true_iff in H as [H _]. now apply en_b_range. Qed.

Lemma enabled_In (s : st) i : In i (get_enabled_uplink_channel_indices s) <-> en_b (up s) i = true.
Proof.
  unfold get_enabled_uplink_channel_indices. rewrite indices_where_In. rewrite Z.sub_0_r. split.
  - intros [Hi [c [E Hc]]]. unfold en_b. now rewrite (chan_at_nth _ _ _ E Hi).
  - intros H. pose proof (en_b_range _ _ H) as R. destruct (chan_at_some _ _ R) as [c [E1 E2]].
    split; [lia|]. exists c. split; auto. unfold en_b in H. now rewrite E1 in H.
Qed.

Lemma custom_at_ok u i : 0 <= i < zlen u -> custom_at u i = Ok (cu_b u i).
Proof.
  intros H. destruct (chan_at_some u i H) as [c [E1 E2]].
  unfold custom_at, zidx, cu_b. rewrite E1, E2.
  destruct (Z.ltb_spec i 0); [lia|]. destruct (Z.leb_spec (zlen u) i); [lia|]. reflexivity.
Qed.

(* ---- the target set as a filter over the index range -------------------------- *)

Lemma target_from_filter u dev k :
  target_from u dev k =
  filter (fun i => match nth_error u (Z.to_nat (i - k)) with
                   | Some c => enabled c && (negb (custom c) || zmem i dev)
                   | None => false end) (zrange_from k (length u)).
Proof.
  revert k; induction u as [|a u IH]; intros k; [reflexivity|].
  cbn [length]. rewrite zrange_from_S. cbn [target_from filter].
  replace (k - k) with 0 by lia. cbn [Z.to_nat nth_error].
  rewrite IH.
  match goal with |- context [if ?c then _ else _] => set (cnd := c) end.
  assert (E : filter (fun i => match nth_error u (Z.to_nat (i - (k + 1))) with
                               | Some c => enabled c && (negb (custom c) || zmem i dev) | None => false end)
                     (zrange_from (k + 1) (length u)) =
              filter (fun i => match nth_error (a :: u) (Z.to_nat (i - k)) with
                               | Some c => enabled c && (negb (custom c) || zmem i dev) | None => false end)
                     (zrange_from (k + 1) (length u))).
  { apply filter_ext_in. intros i Hi. apply zrange_from_In in Hi.
    replace (Z.to_nat (i - k)) with (S (Z.to_nat (i - (k + 1)))) by lia. reflexivity. }
  rewrite E. destruct cnd; reflexivity.
Qed.

Lemma target_filter (s : st) dev :
  target s dev = filter (want (up s) dev) (zrange_from 0 (length (up s))).
Proof.
  unfold target. rewrite target_from_filter. apply filter_ext_in. intros i Hi.
  apply zrange_from_In in Hi. rewrite Z.sub_0_r.
  destruct (chan_at_some (up s) i) as [c [E1 E2]]; [unfold zlen; lia|].
  unfold want, en_b, cu_b. rewrite E1, E2. reflexivity.
Qed.

Lemma target_In (s : st) dev i : In i (target s dev) <-> want (up s) dev i = true.
Proof.
  rewrite target_filter, filter_In, zrange_from_In. split; [tauto|].
  intros H. split; auto. apply want_range in H. unfold zlen in H. lia.
Qed.

Lemma mask_indices_filter m :
  mask_indices m = filter (getz m) (zrange_from 0 (length m)).
Proof.
  unfold mask_indices. rewrite (indices_where_filter (fun b : bool => b) false).
  apply filter_ext. intros i. unfold getz. now rewrite Z.sub_0_r.
Qed.

(* a mask that agrees with [want] on every index yields the target list *)
Lemma mask_is_target (s : st) dev m :
  length m = length (up s) ->
  (forall i, 0 <= i < zlen (up s) -> getz m i = want (up s) dev i) ->
  mask_indices m = target s dev.
Proof.
  intros L H. rewrite mask_indices_filter, target_filter, L.
  apply filter_ext_in. intros i Hi. apply zrange_from_In in Hi. apply H. unfold zlen. lia.
Qed.

(* ---- init_mask ---------------------------------------------------------------- *)

Lemma getz_upd m c v i : 0 <= c -> 0 <= i -> (Z.to_nat c < length m)%nat ->
  getz (upd m (Z.to_nat c) v) i = if i =? c then v else getz m i.
Proof.
  intros Hc Hi L. unfold getz. rewrite nth_upd.
  destruct (Z.eqb_spec i c) as [->|Hne].
  - rewrite Nat.eqb_refl. simpl. destruct (Nat.ltb_spec (Z.to_nat c) (length m)); [reflexivity|lia].
  - destruct (Nat.eqb_spec (Z.to_nat c) (Z.to_nat i)); [lia|reflexivity].
Qed.

Lemma init_fold n dev : 0 <= n -> forall m, length m = Z.to_nat n ->
  let m' := fold_left (fun m c => if (c >=? 0) && (c <? n) then upd m (Z.to_nat c) true else m) dev m in
  length m' = length m /\ forall i, 0 <= i < n -> getz m' i = getz m i || zmem i dev.
Proof.
  intros Hn. induction dev as [|c dev IH]; intros m L; cbn [fold_left].
  - split; auto. intros. simpl. now rewrite orb_false_r.
  - destruct ((c >=? 0) && (c <? n)) eqn:C.
    + specialize (IH (upd m (Z.to_nat c) true)). rewrite upd_length in IH. specialize (IH L).
      destruct IH as [L' G]. split; [exact L'|]. intros i Hi. rewrite (G i Hi).
      rewrite getz_upd by lia. cbn [zmem existsb]. fold (zmem i dev).
      destruct (Z.eqb_spec i c); simpl; [now rewrite orb_true_r|reflexivity].
    + specialize (IH m L). destruct IH as [L' G]. split; [exact L'|]. intros i Hi. rewrite (G i Hi).
      cbn [zmem existsb]. fold (zmem i dev). destruct (Z.eqb_spec i c); [lia|reflexivity].
Qed.

Lemma init_mask_spec n dev : 0 <= n ->
  exists m, init_mask n dev = Ok m /\ length m = Z.to_nat n /\ forall i, 0 <= i < n -> getz m i = zmem i dev.
Proof.
  intros Hn. unfold init_mask. eexists. split; [reflexivity|].
  destruct (init_fold n dev Hn (repeat false (Z.to_nat n)) (repeat_length _ _)) as [L G].
  split; [now rewrite L, repeat_length|]. intros i Hi. rewrite (G i Hi).
  unfold getz at 1. rewrite nth_repeat. reflexivity.
Qed.

(* ---- one pass over a ChMask (apply_bits) ---------------------------------------- *)

Lemma apply_bits_spec n base : 0 <= base -> forall bits i m, 0 <= i -> length m = Z.to_nat n ->
  (forall j, (j < length bits)%nat -> n <= base + i + Z.of_nat j -> nth j bits false = false) ->
  exists m', apply_bits n base bits i m = Ok m' /\ length m' = length m /\
    forall x, 0 <= x < n ->
      getz m' x = if (base + i <=? x) && (x <? base + i + Z.of_nat (length bits))
                  then nth (Z.to_nat (x - base - i)) bits false else getz m x.
Proof.
  intros Hb. induction bits as [|b bits IH]; intros i m Hi L Hout.
  - exists m. split; [reflexivity|]. split; [reflexivity|]. intros x Hx. cbn [length].
    destruct ((base + i <=? x) && (x <? base + i + Z.of_nat 0)) eqn:E; [lia|reflexivity].
  - cbn [apply_bits]. destruct (Z.geb_spec (base + i) n) as [Hge|Hlt].
    + assert (b = false) as -> by (apply (Hout 0%nat); cbn [length]; lia).
      cbn [negb andb].
      destruct (IH (i + 1) m) as [m' [E [L' G]]]; [lia|exact L| |].
      { intros j Hj Hn. apply (Hout (S j)); cbn [length]; lia. }
      exists m'. split; [exact E|]. split; [exact L'|]. intros x Hx. rewrite (G x Hx). cbn [length].
      destruct ((base + (i + 1) <=? x) && (x <? base + (i + 1) + Z.of_nat (length bits))) eqn:E1; [lia|].
      destruct ((base + i <=? x) && (x <? base + i + Z.of_nat (S (length bits)))) eqn:E2; [lia|reflexivity].
    + cbn [andb].
      destruct (IH (i + 1) (upd m (Z.to_nat (base + i)) b)) as [m' [E [L' G]]]; [lia|now rewrite upd_length| |].
      { intros j Hj Hn. apply (Hout (S j)); cbn [length]; lia. }
      exists m'. split; [exact E|]. split; [now rewrite L', upd_length|]. intros x Hx. rewrite (G x Hx). cbn [length].
      rewrite getz_upd by lia.
      destruct ((base + (i + 1) <=? x) && (x <? base + (i + 1) + Z.of_nat (length bits))) eqn:E1.
      * destruct ((base + i <=? x) && (x <? base + i + Z.of_nat (S (length bits)))) eqn:E2; [|lia].
        replace (Z.to_nat (x - base - i)) with (S (Z.to_nat (x - base - (i + 1)))) by lia. reflexivity.
      * destruct (Z.eqb_spec x (base + i)) as [->|Hne].
        -- destruct ((base + i <=? base + i) && (base + i <? base + i + Z.of_nat (S (length bits)))) eqn:E2; [|lia].
           replace (base + i - base - i) with 0 by lia. reflexivity.
        -- destruct ((base + i <=? x) && (x <? base + i + Z.of_nat (S (length bits)))) eqn:E2; [lia|reflexivity].
Qed.

Lemma nth_map_seq {A} (f : nat -> A) len j d : (j < len)%nat -> nth j (map f (seq 0 len)) d = f j.
Proof.
  intros H. rewrite (nth_indep _ d (f 0%nat)) by (now rewrite map_length, seq_length).
  rewrite List.map_nth. now rewrite seq_nth.
Qed.

Section Blocks.
Variable B : Z.
Hypothesis HB : 0 < B.

Lemma block_iff x k : (k * B <= x < k * B + B) <-> x / B = k.
Proof.
  split.
  - intros H. symmetry. apply (Z.div_unique x B k (x - k * B)); lia.
  - intros <-. pose proof (Z.mul_div_le x B HB). pose proof (Z.mul_succ_div_gt x B HB). lia.
Qed.

(* the mask the planner sends for block k: [want] on that block *)
Definition wmask (w : Z -> bool) (k : Z) : list bool :=
  map (fun j => w (k * B + Z.of_nat j)) (seq 0 (Z.to_nat B)).
Definition mk_payload (w : Z -> bool) (k : Z) : payload := mkPayload 0 0 (wmask w k) (k mod 256) 0.

Lemma wmask_length w k : length (wmask w k) = Z.to_nat B.
Proof. unfold wmask. now rewrite map_length, seq_length. Qed.

Lemma wmask_nth w k j : (j < Z.to_nat B)%nat -> nth j (wmask w k) false = w (k * B + Z.of_nat j).
Proof. intros H. unfold wmask. now rewrite nth_map_seq. Qed.

(* a sequence of block payloads, each carrying [w] on its block, turns a mask
   into: [w] on the blocks named, unchanged elsewhere.  Order and repetitions
   do not matter. *)
Lemma apply_seq n (w : Z -> bool) : 0 <= n ->
  (forall i, w i = true -> 0 <= i < n) ->
  forall ks, Forall (fun k => 0 <= k /\ k * B < 256) ks ->
  forall m, length m = Z.to_nat n ->
  exists m', apply_payloads (apply_payload_generic B n) m (map (mk_payload w) ks) = Ok m' /\
    length m' = length m /\
    forall x, 0 <= x < n -> getz m' x = if existsb (fun k => x / B =? k) ks then w x else getz m x.
Proof.
  intros Hn Hw. induction 1 as [|k ks [Hk0 Hk] _ IH]; intros m L.
  - exists m. split; [reflexivity|]. split; [reflexivity|]. reflexivity.
  - cbn [map apply_payloads]. unfold apply_payload_generic at 1. cbn [mk_payload p_cntl p_mask].
    assert (Hbase : (k mod 256 * B) mod 256 = k * B).
    { assert (k < 256) by nia. rewrite (Z.mod_small k 256) by lia. apply Z.mod_small. lia. }
    rewrite Hbase.
    destruct (apply_bits_spec n (k * B) ltac:(nia) (wmask w k) 0 m ltac:(lia) L) as [m1 [E1 [L1 G1]]].
    { intros j Hj Hge. rewrite wmask_length in Hj. rewrite wmask_nth by exact Hj.
      destruct (w (k * B + Z.of_nat j)) eqn:W; [|reflexivity]. apply Hw in W. lia. }
    rewrite E1. cbn [bind].
    destruct (IH m1 ltac:(congruence)) as [m' [E [L' G]]].
    exists m'. split; [exact E|]. split; [congruence|]. intros x Hx. rewrite (G x Hx). cbn [existsb].
    rewrite (G1 x Hx). rewrite wmask_length.
    destruct (Z.eqb_spec (x / B) k) as [Hxk|Hxk].
    + apply block_iff in Hxk. cbn [orb].
      destruct ((k * B + 0 <=? x) && (x <? k * B + 0 + Z.of_nat (Z.to_nat B))) eqn:E2; [|lia].
      rewrite wmask_nth by lia. replace (k * B + Z.of_nat (Z.to_nat (x - k * B - 0))) with x by lia.
      destruct (existsb (fun k0 => x / B =? k0) ks); reflexivity.
    + cbn [orb]. destruct (existsb (fun k0 => x / B =? k0) ks); [reflexivity|].
      destruct ((k * B + 0 <=? x) && (x <? k * B + 0 + Z.of_nat (Z.to_nat B))) eqn:E2; [|reflexivity].
      exfalso. apply Hxk. apply block_iff. lia.
Qed.

(* ---- the block numbers the planner loop emits -------------------------------------- *)

Fixpoint cntls (cur : Z) (l : list Z) : list Z :=
  match l with
  | [] => []
  | c :: l' => let k := Z.quot c B in if k =? cur then cntls cur l' else k :: cntls k l'
  end.

Lemma cntls_sound cur l k : In k (cntls cur l) -> exists c, In c l /\ Z.quot c B = k.
Proof.
  revert cur; induction l as [|c l IH]; intros cur; cbn [cntls]; [intros []|].
  destruct (Z.eqb_spec (Z.quot c B) cur).
  - intros H. destruct (IH _ H) as [c' [H1 H2]]. exists c'. split; [now right|assumption].
  - intros [<-|H]; [exists c; split; [now left|reflexivity]|].
    destruct (IH _ H) as [c' [H1 H2]]. exists c'. split; [now right|assumption].
Qed.

Lemma cntls_complete cur l c : In c l -> Z.quot c B = cur \/ In (Z.quot c B) (cntls cur l).
Proof.
  revert cur; induction l as [|a l IH]; intros cur; cbn [cntls]; [intros []|].
  intros [->|H].
  - destruct (Z.eqb_spec (Z.quot c B) cur); [now left|right; now left].
  - destruct (Z.eqb_spec (Z.quot a B) cur) as [E|E].
    + apply IH, H.
    + destruct (IH (Z.quot a B) H) as [H1|H1]; right; [rewrite H1; now left|now right].
Qed.

(* on an ascending list the emitted block numbers strictly increase, hence there
   are at most (M - cur - 1) of them when every block lies in (cur, M) or equals cur *)
Lemma cntls_count M : forall l cur, StronglySorted Z.le l ->
  (forall c, In c l -> 0 <= c /\ cur <= c / B < M) -> cur < M ->
  Z.of_nat (length (cntls cur l)) <= M - cur - 1.
Proof.
  induction l as [|c l IH]; intros cur S H HM; cbn [cntls length]; [lia|].
  inversion S as [|? ? S' Hall]; subst.
  assert (Hc := H c (or_introl eq_refl)). rewrite Z.quot_div_nonneg by lia.
  destruct (Z.eqb_spec (c / B) cur) as [E|E].
  - apply IH; auto. intros c' Hc'. apply H. now right.
  - cbn [length]. assert (Z.of_nat (length (cntls (c / B) l)) <= M - c / B - 1); [|lia].
    apply IH; auto; [|lia]. intros c' Hc'. destruct (H c' (or_intror Hc')) as [H0 [H1 H2]].
    split; [lia|]. split; [|lia]. rewrite Forall_forall in Hall. specialize (Hall c' Hc').
    apply Z.div_le_mono; lia.
Qed.

End Blocks.

Section Generic.
Variable B : Z.
Hypothesis HB : 0 < B.

(* ---- the mask the planner builds for a block ----------------------------------------- *)

Lemma block_mask_fold u dev k : 0 <= k -> forall l m,
  (forall ec, In ec l -> 0 <= ec < zlen u) -> length m = Z.to_nat B ->
  exists m', fold_left (block_mask_step B u dev k) l (Ok m) = Ok m' /\ length m' = length m /\
    forall j, (j < Z.to_nat B)%nat ->
      nth j m' false = nth j m false ||
        existsb (fun ec => (negb (cu_b u ec) || zmem ec dev) && (ec =? k * B + Z.of_nat j)) l.
Proof.
  intros Hk. induction l as [|ec l IH]; intros m Hr L.
  - exists m. split; [reflexivity|]. split; [reflexivity|]. intros. simpl. now rewrite orb_false_r.
  - cbn [fold_left]. unfold block_mask_step at 2. cbn [bind].
    assert (R : 0 <= ec < zlen u) by (apply Hr; now left).
    rewrite (custom_at_ok u ec R). cbn [bind]. unfold channel_is_active.
    set (cnd := negb (cu_b u ec) || zmem ec dev).
    destruct (cnd && (ec >=? k * B) && (ec <? (k + 1) * B)) eqn:C.
    + assert (Hin : k * B <= ec < k * B + B) by lia.
      assert (Hpos : Z.rem ec B = ec - k * B).
      { rewrite Z.rem_mod_nonneg by lia. symmetry. apply (Z.mod_unique ec B k); lia. }
      rewrite Hpos.
      destruct (IH (upd m (Z.to_nat (ec - k * B)) true)) as [m' [E [L' G]]];
        [intros; apply Hr; now right|now rewrite upd_length|].
      exists m'. split; [exact E|]. split; [now rewrite L', upd_length|]. intros j Hj.
      rewrite (G j Hj). rewrite nth_upd. cbn [existsb]. fold cnd.
      assert (cnd = true) as -> by (destruct cnd; [reflexivity|discriminate]). cbn [andb].
      destruct (Z.eqb_spec ec (k * B + Z.of_nat j)) as [Ee|Ee].
      * destruct (Nat.eqb_spec (Z.to_nat (ec - k * B)) j); [|lia].
        destruct (Nat.ltb_spec (Z.to_nat (ec - k * B)) (length m)); [|lia]. cbn [andb orb].
        now rewrite orb_true_r.
      * destruct (Nat.eqb_spec (Z.to_nat (ec - k * B)) j); [lia|]. reflexivity.
    + destruct (IH m) as [m' [E [L' G]]]; [intros; apply Hr; now right|exact L|].
      exists m'. split; [exact E|]. split; [exact L'|]. intros j Hj. rewrite (G j Hj). cbn [existsb]. fold cnd.
      destruct (Z.eqb_spec ec (k * B + Z.of_nat j)) as [Ee|Ee]; [|now rewrite andb_false_r].
      destruct cnd; [|reflexivity]. exfalso. lia.
Qed.

Lemma block_mask_spec (s : st) dev k : 0 <= k ->
  block_mask B (up s) dev (get_enabled_uplink_channel_indices s) k = Ok (wmask B (want (up s) dev) k).
Proof.
  intros Hk. unfold block_mask.
  destruct (block_mask_fold (up s) dev k Hk (get_enabled_uplink_channel_indices s) (repeat false (Z.to_nat B)))
    as [m' [E [L G]]].
  { intros ec H. apply enabled_In in H. now apply en_b_range. }
  { apply repeat_length. }
  rewrite E. f_equal. rewrite repeat_length in L.
  apply (nth_ext _ _ false false); [now rewrite wmask_length|].
  intros j Hj. rewrite L in Hj. rewrite (G j Hj), nth_repeat, wmask_nth by exact Hj. cbn [orb].
  unfold want.
  match goal with |- ?lhs = _ => destruct lhs eqn:X end.
  - apply existsb_exists in X as [ec [Hin C]]. apply andb_true_iff in C as [C1 C2].
    apply Z.eqb_eq in C2. subst ec. apply enabled_In in Hin. now rewrite Hin, C1.
  - destruct (en_b (up s) (k * B + Z.of_nat j)) eqn:En; [|reflexivity]. cbn [andb].
    destruct (negb (cu_b (up s) (k * B + Z.of_nat j)) || zmem (k * B + Z.of_nat j) dev) eqn:C; [|reflexivity].
    exfalso. assert (existsb (fun ec => (negb (cu_b (up s) ec) || zmem ec dev) && (ec =? k * B + Z.of_nat j))
                       (get_enabled_uplink_channel_indices s) = true); [|congruence].
    apply existsb_exists. exists (k * B + Z.of_nat j). split; [now apply enabled_In|].
    now rewrite C, Z.eqb_refl.
Qed.

Lemma plan_loop_spec (s : st) dev l : Forall (fun c => 0 <= c) l -> forall cur,
  plan_loop B (up s) dev (get_enabled_uplink_channel_indices s) cur l =
  Ok (map (mk_payload B (want (up s) dev)) (cntls B cur l)).
Proof.
  induction 1 as [|c l Hc _ IH]; intros cur; [reflexivity|].
  cbn [plan_loop cntls]. destruct (Z.quot c B =? cur); [apply IH|].
  rewrite block_mask_spec by (apply Z.quot_pos; lia). cbn [bind]. rewrite IH. reflexivity.
Qed.

(* ---- filteredDiff ------------------------------------------------------------------------ *)

Lemma filtered_diff_spec u dev diff :
  (forall c, In c diff -> zmem c dev = true \/ 0 <= c < zlen u) ->
  filtered_diff u dev diff = Ok (filter (fun c => zmem c dev || negb (cu_b u c)) diff).
Proof.
  induction diff as [|c diff IH]; intros H; [reflexivity|].
  cbn [filtered_diff filter]. unfold channel_is_active.
  rewrite IH by (intros; apply H; now right).
  destruct (zmem c dev) eqn:A; cbn [bind orb]; [reflexivity|].
  destruct (H c (or_introl eq_refl)) as [H1|H1]; [congruence|].
  rewrite (custom_at_ok u c H1). cbn [omap bind]. reflexivity.
Qed.

End Generic.

Section Main.
Variable B : Z.
Hypothesis HB : 0 < B.

Definition keepf (u : list channel) (dev : list Z) (c : Z) : bool := zmem c dev || negb (cu_b u c).

Lemma plan_generic_unfold (s : st) dev :
  let en := get_enabled_uplink_channel_indices s in
  let diff := int_slice_diff dev en in
  plan_generic_core B s dev =
  match diff, filter (keepf (up s) dev) diff with
  | [], _ => Ok []
  | _, [] => Ok []
  | _, _ => plan_loop B (up s) dev en (-1) (sort_ints diff)
  end.
Proof.
  cbv zeta. unfold plan_generic_core.
  rewrite filtered_diff_spec.
  - cbn [bind]. unfold keepf.
    destruct (int_slice_diff dev (get_enabled_uplink_channel_indices s)); reflexivity.
  - intros c Hc. apply diff_In in Hc as [[H _]|[H _]].
    + left. now apply zmem_In.
    + right. apply enabled_In in H. now apply en_b_range.
Qed.

(* the planner's result as a list of block numbers *)
Definition plan_blocks (s : st) (dev : list Z) : list Z :=
  let diff := int_slice_diff dev (get_enabled_uplink_channel_indices s) in
  match diff, filter (keepf (up s) dev) diff with
  | [], _ => []
  | _, [] => []
  | _, _ => cntls B (-1) (sort_ints diff)
  end.

Lemma plan_generic_blocks (s : st) dev : (forall c, In c dev -> 0 <= c) ->
  plan_generic_core B s dev = Ok (map (mk_payload B (want (up s) dev)) (plan_blocks s dev)).
Proof.
  intros Hd. rewrite plan_generic_unfold. unfold plan_blocks.
  set (diff := int_slice_diff dev (get_enabled_uplink_channel_indices s)).
  assert (Hpos : Forall (fun c => 0 <= c) (sort_ints diff)).
  { apply Forall_forall. intros c Hc. rewrite sort_ints_In in Hc. apply diff_In in Hc as [[H _]|[H _]]; [auto|].
    apply enabled_In in H. apply en_b_range in H. lia. }
  destruct diff as [|d0 diff']; [reflexivity|].
  destruct (filter (keepf (up s) dev) (d0 :: diff')); [reflexivity|].
  now apply plan_loop_spec.
Qed.

(* a channel outside the difference already has the wanted state on the device *)
Lemma outside_diff (s : st) dev i :
  ~ In i (int_slice_diff dev (get_enabled_uplink_channel_indices s)) ->
  zmem i dev = want (up s) dev i.
Proof.
  intros H. rewrite diff_In in H. unfold want.
  destruct (zmem i dev) eqn:D; destruct (en_b (up s) i) eqn:E; cbn; try reflexivity.
  - now rewrite orb_true_r.
  - exfalso. apply H. left. split; [now apply zmem_In|]. rewrite enabled_In. congruence.
  - exfalso. apply H. right. split; [now apply enabled_In|]. now apply zmem_false.
Qed.

(* when nothing passes the custom-channel filter, the channels in the
   difference are custom ones the device does not know: they stay off *)
Lemma filtered_out (s : st) dev i :
  filter (keepf (up s) dev) (int_slice_diff dev (get_enabled_uplink_channel_indices s)) = [] ->
  In i (int_slice_diff dev (get_enabled_uplink_channel_indices s)) ->
  zmem i dev = want (up s) dev i.
Proof.
  intros F Hi.
  assert (K : keepf (up s) dev i = false).
  { destruct (keepf (up s) dev i) eqn:K; [|reflexivity].
    assert (In i (filter (keepf (up s) dev) (int_slice_diff dev (get_enabled_uplink_channel_indices s))))
      by (apply filter_In; auto).
    rewrite F in H. destruct H. }
  unfold keepf in K. apply orb_false_iff in K as [K1 K2]. apply negb_false_iff in K2.
  unfold want. rewrite K1, K2. cbn. now rewrite andb_false_r.
Qed.

Theorem generic_sound (s : st) dev :
  zlen (up s) <= 256 -> (forall c, In c dev -> 0 <= c < 256) ->
  exists pls, plan_generic_core B s dev = Ok pls /\ apply_generic B s dev pls = Ok (target s dev).
Proof.
  intros Hn Hd. set (n := zlen (up s)). assert (Hn0 : 0 <= n) by (unfold n, zlen; lia).
  eexists. split; [apply plan_generic_blocks; intros c Hc; apply Hd in Hc; lia|].
  unfold apply_generic. fold n.
  destruct (init_mask_spec n dev Hn0) as [m0 [E0 [L0 G0]]]. rewrite E0. cbn [bind].
  set (diff := int_slice_diff dev (get_enabled_uplink_channel_indices s)).
  assert (Hdiff : forall c, In c diff -> 0 <= c < 256).
  { intros c Hc. apply diff_In in Hc as [[H _]|[H _]]; [auto|]. apply enabled_In, en_b_range in H. lia. }
  assert (Hks : Forall (fun k => 0 <= k /\ k * B < 256) (plan_blocks s dev)).
  { apply Forall_forall. intros k Hk. unfold plan_blocks in Hk. fold diff in Hk.
    assert (Hk' : In k (cntls B (-1) (sort_ints diff))).
    { destruct diff; [destruct Hk|]. destruct (filter _ _); [destruct Hk|exact Hk]. }
    apply cntls_sound in Hk' as [c [Hc <-]]. rewrite sort_ints_In in Hc. apply Hdiff in Hc.
    rewrite Z.quot_div_nonneg by lia. split; [apply Z.div_pos; lia|].
    pose proof (Z.mul_div_le c B HB). lia. }
  destruct (apply_seq B HB n (want (up s) dev) Hn0 (want_range _ _) _ Hks m0 L0) as [m' [E [L G]]].
  rewrite E. cbn [bind]. f_equal. apply mask_is_target.
  { rewrite L, L0. unfold n, zlen. lia. }
  intros i Hi. rewrite (G i Hi).
  destruct (existsb (fun k => i / B =? k) (plan_blocks s dev)) eqn:X; [reflexivity|].
  rewrite (G0 i Hi).
  destruct (in_dec Z.eq_dec i diff) as [Hin|Hout]; [|now apply outside_diff].
  (* i is in the difference but its block was not sent: only possible on the early exit *)
  unfold plan_blocks in X. fold diff in X.
  destruct diff as [|d0 diff'] eqn:Ed; [destruct Hin|].
  destruct (filter (keepf (up s) dev) (d0 :: diff')) eqn:F.
  - apply filtered_out; unfold diff in Ed; rewrite Ed; assumption.
  - exfalso. assert (Hc := cntls_complete B (-1) (sort_ints (d0 :: diff')) i).
    destruct Hc as [Hc|Hc]; [now apply sort_ints_In| |].
    + rewrite Z.quot_div_nonneg in Hc by lia. pose proof (Z.div_pos i B ltac:(lia) HB). lia.
    + rewrite Z.quot_div_nonneg in Hc by lia.
      assert (existsb (fun k => i / B =? k) (cntls B (-1) (sort_ints (d0 :: diff'))) = true); [|congruence].
      apply existsb_exists. exists (i / B). split; [exact Hc|apply Z.eqb_refl].
Qed.

Theorem generic_count (s : st) dev :
  (forall c, In c dev -> 0 <= c < zlen (up s)) ->
  exists pls, plan_generic_core B s dev = Ok pls /\ Z.of_nat (length pls) <= blocks B (zlen (up s)).
Proof.
  intros Hd. eexists. split; [apply plan_generic_blocks; intros c Hc; apply Hd in Hc; lia|].
  rewrite map_length. unfold plan_blocks.
  set (diff := int_slice_diff dev (get_enabled_uplink_channel_indices s)).
  set (n := zlen (up s)). assert (Hn0 : 0 <= n) by (unfold n, zlen; lia).
  assert (Hb : 0 <= blocks B n). { unfold blocks. apply Z.div_pos; lia. }
  assert (Hlen : Z.of_nat (length (cntls B (-1) (sort_ints diff))) <= blocks B n).
  { assert (X := cntls_count B HB (blocks B n) (sort_ints diff) (-1) (sort_ints_sorted diff)).
    assert (Z.of_nat (length (cntls B (-1) (sort_ints diff))) <= blocks B n - -1 - 1); [|lia].
    apply X; [|lia]. intros c Hc. rewrite sort_ints_In in Hc. apply diff_In in Hc.
    assert (Hr : 0 <= c < n).
    { destruct Hc as [[H _]|[H _]]; [now apply Hd|]. now apply enabled_In, en_b_range in H. }
    split; [lia|]. split; [pose proof (Z.div_pos c B ltac:(lia) HB); lia|].
    unfold blocks. replace (n + B - 1) with (n - 1 + 1 * B) by lia. rewrite Z.div_add by lia.
    assert (c / B <= (n - 1) / B) by (apply Z.div_le_mono; lia). lia. }
  destruct diff; [cbn; lia|]. destruct (filter _ _); [cbn; lia|exact Hlen].
Qed.

Theorem generic_noop (s : st) dev :
  same_set dev (target s dev) -> plan_generic_core B s dev = Ok [].
Proof.
  intros H. rewrite plan_generic_unfold. cbv zeta.
  set (diff := int_slice_diff dev (get_enabled_uplink_channel_indices s)).
  assert (F : filter (keepf (up s) dev) diff = []).
  { destruct (filter (keepf (up s) dev) diff) as [|c r] eqn:E; [reflexivity|]. exfalso.
    assert (Hc : In c (filter (keepf (up s) dev) diff)) by (rewrite E; now left).
    apply filter_In in Hc as [Hc K]. unfold diff in Hc. apply diff_In in Hc.
    unfold keepf in K. destruct Hc as [[H1 H2]|[H1 H2]].
    - apply H, target_In in H1. unfold want in H1. apply andb_true_iff in H1 as [H1 _].
      apply H2. now apply enabled_In.
    - assert (W : want (up s) dev c = true).
      { unfold want. apply enabled_In in H1. rewrite H1. cbn.
        apply zmem_false in H2. rewrite H2 in K |- *. cbn in K |- *. now rewrite orb_false_r. }
      apply H2. apply H. now apply target_In. }
  clearbody diff. destruct diff; [reflexivity|]. rewrite F. reflexivity.
Qed.

End Main.

From Coq Require Import ZifyNat.
Ltac Zify.zify_post_hook ::= Z.div_mod_to_equations.

Lemma plan_blocks_In B (HB : 0 < B) (s : st) dev k : In k (plan_blocks B s dev) ->
  exists c, In c (int_slice_diff dev (get_enabled_uplink_channel_indices s)) /\ Z.quot c B = k.
Proof.
  unfold plan_blocks. set (diff := int_slice_diff dev (get_enabled_uplink_channel_indices s)).
  intros Hk. assert (Hk' : In k (cntls B (-1) (sort_ints diff))).
  { destruct diff; [destruct Hk|]. destruct (filter _ _); [destruct Hk|exact Hk]. }
  apply cntls_sound in Hk' as [c [Hc E]]. rewrite sort_ints_In in Hc. eauto.
Qed.

(* every payload fits the LinkADRReq wire format when the plan has at most 128 channels *)
Theorem generic_encodable (s : st) dev :
  zlen (up s) <= 128 -> (forall c, In c dev -> 0 <= c < 128) ->
  exists pls, plan_generic_core 16 s dev = Ok pls /\ forallb encodable pls = true.
Proof.
  intros Hn Hd. eexists. split; [apply plan_generic_blocks; [lia|]; intros c Hc; apply Hd in Hc; lia|].
  apply forallb_forall. intros p Hp. apply in_map_iff in Hp as [k [<- Hk]].
  apply plan_blocks_In in Hk as [c [Hc E]]; [|lia].
  assert (R : 0 <= c < 128).
  { apply diff_In in Hc as [[H _]|[H _]]; [auto|]. apply enabled_In, en_b_range in H. lia. }
  rewrite Z.quot_div_nonneg in E by lia.
  unfold encodable, mk_payload. cbn [p_dr p_txp p_nbrep p_cntl p_mask]. rewrite wmask_length.
  change (Z.to_nat 16 =? 16)%nat with true. lia.
Qed.

(* the target list is strictly ascending (hence duplicate-free) *)
Lemma zrange_from_sorted k n : StronglySorted Z.lt (zrange_from k n).
Proof.
  revert k; induction n as [|n IH]; intros k; [constructor|].
  rewrite zrange_from_S. constructor; [apply IH|].
  apply Forall_forall. intros i Hi. apply zrange_from_In in Hi. lia.
Qed.

Lemma filter_sorted (p : Z -> bool) l : StronglySorted Z.lt l -> StronglySorted Z.lt (filter p l).
Proof.
  induction 1 as [|a l S IH Ha]; cbn [filter]; [constructor|].
  destruct (p a); [|exact IH]. constructor; [exact IH|].
  apply Forall_forall. intros x Hx. apply filter_In in Hx as [Hx _]. rewrite Forall_forall in Ha. auto.
Qed.

Theorem target_sorted (s : st) dev : StronglySorted Z.lt (target s dev).
Proof. rewrite target_filter. apply filter_sorted, zrange_from_sorted. Qed.

(* membership in the target, in terms of the index lists the band reports *)
Theorem target_spec (s : st) dev i :
  In i (target s dev) <->
  In i (get_enabled_uplink_channel_indices s) /\
  (In i (get_standard_uplink_channel_indices s) \/ In i dev).
Proof.
  rewrite target_In, enabled_In. unfold want. rewrite andb_true_iff, orb_true_iff, zmem_In.
  unfold get_standard_uplink_channel_indices. rewrite indices_where_In, Z.sub_0_r.
  split; intros [E H]; split; auto; pose proof (en_b_range _ _ E) as R;
    destruct (chan_at_some _ _ R) as [c [E1 E2]]; unfold cu_b in *; rewrite ?E1 in *.
  - destruct H as [H|H]; [left|now right]. split; [lia|]. exists c. auto.
  - destruct H as [[_ [c' [E3 H]]]|H]; [left|now right]. congruence.
Qed.
