#!/bin/bash
# tools/harmlesscheck.sh <dir with patch.diff> <check ids...>
# Applies a behaviour-preserving change to a private worktree, runs the suite and the named checks:
# every check must stay quiet (exit 0, no VIOLATION line).
set -u
export GOFLAGS=-mod=mod GOPROXY=off GOSUMDB=off GOTOOLCHAIN=local
D=$(readlink -f "$1"); shift
TAG=$(echo "$D" | tr '/' '_')
W=/tmp/sv/$TAG
rm -rf "$W"; mkdir -p "$W"
git -C /repo worktree prune
for try in 1 2 3; do git -C /repo worktree add --detach -f "$W/repo" HEAD >/dev/null 2>&1 && break; sleep 2; done
[ -d "$W/repo" ] || { echo "worktree failed"; exit 2; }
cd "$W/repo"
git apply "$D/patch.diff" || { echo "PATCH DOES NOT APPLY"; cd /; git -C /repo worktree remove --force "$W/repo"; exit 3; }
echo "== suite on patched tree"
go build ./... 2>&1 | tail -3
go test -vet=off -count=1 ./... 2>&1 | grep -v "^ok\|no test files" | grep -v "TestAsyncClient\|redis\|suite.go\|client_test.go\|Error Trace\|Error:\|Test:\|^\s*$\|^FAIL$\|FAIL.*backend\s" | head -10
cp -a /verif/coq "$W/coq"
for id in "$@"; do
  echo "== check $id on patched tree"
  (cd /verif && VERIF_REPO="$W/repo" VERIF_COQDIR="$W/coq" VERIF_OUTDIR="$W/out" timeout 1500 ./check $id 2>&1 | grep -v "^KNOWN-FINDING" | tail -3; echo "rc=${PIPESTATUS[0]}")
done
cd /; git -C /repo worktree remove --force "$W/repo"; rm -rf "$W/coq"
