(* C09 - decoders are total: a value or an error, never a panic or a hang.
   Statement file.  Panics and non-termination are values of the models
   (Panic, OutOfFuel); every Go slice expression / index of the frame decoders is
   written through go_slice / go_index in Frame/Checked.v. *)
From Coq Require Import List NArith ZArith Bool.
From LW Require Import Base.Outcome Base.Bytes Mac.Commands Mac.Stream Frame.Model Frame.Checked.
From LW Require Import Frame.CheckedJoin.
From LW Require Import Text.Base64 Frame.Text.
From LW Require Frame.TotalProofs Frame.TotalJoinProofs Frame.TextProofs Mac.TotalProofs.
From LW Require App.ClockSync App.Multicast App.FragCmds App.FwMgmt App.ClockSyncProofs App.MulticastProofs App.FragCmdsProofs App.FwMgmtProofs App.DecodeTotalProofs.
From LW Require Mem.Heap Mem.Alias Mem.AliasProofs.
From LWGen Require Import RegistryGen.
Import ListNotations.
Open Scope N_scope.

(* frame decoder: every slice and index is in bounds on every input *)
Theorem C09_frame_total : forall data,
  phy_unmarshal_chk data <> Panic /\ phy_unmarshal_chk data <> OutOfFuel.
Proof. exact Frame.TotalProofs.phy_unmarshal_total. Qed.
Print Assumptions C09_frame_total.

(* the checked decoder is the value-level decoder the other properties speak about *)
Theorem C09_frame_checked_is_model : forall data, phy_unmarshal_chk data = phy_unmarshal data.
Proof. exact Frame.TotalProofs.phy_chk_eq. Qed.
Print Assumptions C09_frame_checked_is_model.

(* the base64 text entry point (PHYPayload.UnmarshalText): base64 decoding is a total function of
   the text (Text/Base64.v, compared with encoding/base64 on every text case), then the frame decoder *)
Theorem C09_frame_text_total : forall t, Frame.TotalProofs.okerr (phy_unmarshal_text t).
Proof. exact Frame.TextProofs.phy_unmarshal_text_total. Qed.
Print Assumptions C09_frame_text_total.

Theorem C09_macpayload_total : forall data,
  mac_unmarshal_chk data <> Panic /\ mac_unmarshal_chk data <> OutOfFuel.
Proof. exact Frame.TotalProofs.mac_unmarshal_total. Qed.
Print Assumptions C09_macpayload_total.

(* FOpts / FRMPayload MAC-command stream decoder: for ANY bytes, under the registry
   reached by ANY history of proprietary registrations, the loop finishes within
   |input| + 1 iterations (the linear bound) without an out-of-range slice *)
Theorem C09_stream_total : forall h up bytes,
  decode_stream (register_all builtin_registry h) up bytes <> Panic /\
  decode_stream (register_all builtin_registry h) up bytes <> OutOfFuel.
Proof. exact Mac.TotalProofs.decode_stream_total. Qed.
Print Assumptions C09_stream_total.

(* each of the 29 MAC payload decoders *)
Theorem C09_mac_payload_total : forall k data, dec k data <> Panic /\ dec k data <> OutOfFuel.
Proof. exact Mac.TotalProofs.dec_total. Qed.
Print Assumptions C09_mac_payload_total.

(* join-accept payload and CFList decoders (value model; every index guarded by the length tests) *)
Theorem C09_joinaccept_cflist_total : forall data,
  (joinaccept_unmarshal data <> Panic /\ joinaccept_unmarshal data <> OutOfFuel) /\
  (cflist_unmarshal data <> Panic /\ cflist_unmarshal data <> OutOfFuel).
Proof.
  intros data. split.
  - unfold joinaccept_unmarshal. destruct (_ && _); [split; discriminate|].
    destruct (dec_dlsettings _) as [[? ?] ?].
    destruct (Nat.eqb (length data) 28).
    + unfold cflist_unmarshal. destruct (negb _); cbn [bind]; [split; discriminate|].
      destruct (_ =? 1); cbn [bind]; split; discriminate.
    + cbn [bind]. split; discriminate.
  - unfold cflist_unmarshal. destruct (negb _); [split; discriminate|]. destruct (_ =? 1); split; discriminate.
Qed.
Print Assumptions C09_joinaccept_cflist_total.

(* the same two decoders with every slice expression and index of payload.go executed through
   go_slice / go_index (Panic exactly where Go panics): equal to the value model on every byte
   string, hence a value or an error, never a panic *)
Theorem C09_joinaccept_checked_is_model : forall data,
  joinaccept_unmarshal_chk data = joinaccept_unmarshal data /\ cflist_unmarshal_chk data = cflist_unmarshal data.
Proof. intros data. split; [exact (Frame.TotalJoinProofs.joinaccept_chk_eq data)|exact (Frame.TotalJoinProofs.cflist_chk_eq data)]. Qed.
Print Assumptions C09_joinaccept_checked_is_model.

Theorem C09_joinaccept_checked_total : forall data,
  Frame.TotalProofs.okerr (joinaccept_unmarshal_chk data) /\ Frame.TotalProofs.okerr (cflist_unmarshal_chk data).
Proof. intros data. split; [exact (Frame.TotalJoinProofs.joinaccept_unmarshal_total data)|exact (Frame.TotalJoinProofs.cflist_unmarshal_total data)]. Qed.
Print Assumptions C09_joinaccept_checked_total.

(* the four application-layer command decoders (single command and command stream,
   both directions): no panic, and the stream loops terminate - theorems of the C18 models *)
Theorem C09_applayer_total : forall up data,
  (App.ClockSync.cmds_dec up data <> Panic /\ App.Multicast.cmds_dec up data <> Panic
   /\ App.FragCmds.cmds_dec up data <> Panic /\ App.FwMgmt.cmds_dec up data <> Panic
   /\ App.ClockSync.cmd_dec up data <> Panic /\ App.Multicast.cmd_dec up data <> Panic
   /\ App.FragCmds.cmd_dec up data <> Panic /\ App.FwMgmt.cmd_dec up data <> Panic) /\
  (App.ClockSync.cmds_dec up data <> OutOfFuel /\ App.Multicast.cmds_dec up data <> OutOfFuel
   /\ App.FragCmds.cmds_dec up data <> OutOfFuel /\ App.FwMgmt.cmds_dec up data <> OutOfFuel).
Proof.
  intros up data. split; [exact (App.DecodeTotalProofs.decoders_no_panic up data)|].
  split; [exact (App.ClockSyncProofs.stream_dec_terminates up data)|].
  split; [exact (App.MulticastProofs.stream_dec_terminates up data)|].
  split; [exact (App.FragCmdsProofs.stream_dec_terminates up data)|exact (App.FwMgmtProofs.stream_dec_terminates up data)].
Qed.
Print Assumptions C09_applayer_total.

(* the decoders never write to the input buffer: heap-model theorem (every heap, every slice) *)
Theorem C09_decoders_do_not_write_input : forall (data : Mem.Heap.slice) (h : Mem.Heap.heap),
  Mem.AliasProofs.old_unchanged h (fst (Mem.Alias.h_phy_unmarshal data h)) /\
  (forall r up, Mem.AliasProofs.old_unchanged h (fst (Mem.Alias.h_cmd_unmarshal r up data h))) /\
  (forall r up pls, Mem.AliasProofs.old_unchanged h (fst (Mem.Alias.h_decode_cmds r up pls h))) /\
  Mem.AliasProofs.old_unchanged h (fst (Mem.Alias.h_data_unmarshal data h)).
Proof. exact Mem.AliasProofs.decoders_readonly. Qed.
Print Assumptions C09_decoders_do_not_write_input.

(* before fix 697fad2 a negative registered size made the loop diverge: the model of
   the unrepaired registration (size -1 stored) runs out of any fuel *)
Example C09_negative_size_diverged :
  decode_loop 1000 (((true, 0x80), ((-1)%Z, KProprietary)) :: builtin_registry) true [0x80] 0 [] = OutOfFuel.
Proof. vm_compute. reflexivity. Qed.
