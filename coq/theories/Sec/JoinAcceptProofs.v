(* C04: join-request / rejoin-request / join-accept MICs equal the specification;
   the join-accept ciphertext is the specification's; the end-device recovers
   payload | MIC with AES encrypt (uses LW.Crypto.AESInv); decrypt after encrypt
   returns the original payload and MIC modulo trailing all-zero channel masks
   (known finding C04-1 = C01-1), literal equality refuted. *)
From Coq Require Import List NArith ZArith Bool Lia Arith.
From Coq Require Import ZifyN ZifyNat ZifyBool.
From LW Require Import Base.Outcome Base.Bytes Crypto.AES Crypto.AESInv Crypto.CMAC Mac.Commands Mac.Stream
     Frame.Model Frame.Spec Sec.MIC Sec.JoinAccept Sec.JoinSpec.
Import ListNotations.
Open Scope N_scope.
Ltac Zify.zify_post_hook ::= Z.div_mod_to_equations.

(* ---- MICs ---- *)
Theorem join_request_mic_spec key mt mj je de dn m :
  calc_up_join_mic key (mkPHY mt mj (PLJoinRequest je de dn) m)
  = Ok (spec_join_request_mic key (mhdr_marshal mt mj) je de dn).
Proof. reflexivity. Qed.

Theorem rejoin02_mic_spec key mt mj ty nid de rc m :
  ty = 0 \/ ty = 2 ->
  calc_up_join_mic key (mkPHY mt mj (PLRejoin02 ty nid de rc) m)
  = Ok (spec_rejoin02_mic key (mhdr_marshal mt mj) ty nid de rc).
Proof. intros [-> | ->]; reflexivity. Qed.

Theorem rejoin1_mic_spec key mt mj je de rc m :
  calc_up_join_mic key (mkPHY mt mj (PLRejoin1 1 je de rc) m)
  = Ok (spec_rejoin1_mic key (mhdr_marshal mt mj) je de rc).
Proof. reflexivity. Qed.

(* a rejoin-request with an undefined type has no MIC (the payload does not marshal) *)
Theorem rejoin_bad_type_no_mic key mt mj ty nid de rc je m :
  (ty <> 0 /\ ty <> 2 -> calc_up_join_mic key (mkPHY mt mj (PLRejoin02 ty nid de rc) m) = Err) /\
  (ty <> 1 -> calc_up_join_mic key (mkPHY mt mj (PLRejoin1 ty je de rc) m) = Err).
Proof.
  split.
  - intros [H0 H2]. unfold calc_up_join_mic. cbn [pl payload_marshal].
    destruct (N.eqb_spec ty 0); [contradiction|]. destruct (N.eqb_spec ty 2); [contradiction|]. reflexivity.
  - intros H1. unfold calc_up_join_mic. cbn [pl payload_marshal].
    destruct (N.eqb_spec ty 1); [contradiction|]. reflexivity.
Qed.

Definition is_join_accept (p : phy) : Prop :=
  exists jn nid da o rx2 rx1 rxd cfl, pl p = PLJoinAccept jn nid da o rx2 rx1 rxd cfl.

Definition optneg_of (p : phy) : bool :=
  match pl p with PLJoinAccept _ _ _ o _ _ _ _ => o | _ => false end.

Theorem join_accept_mic_spec ty je dn key p body :
  is_join_accept p -> payload_marshal (pl p) = Ok body ->
  calc_down_join_mic ty je dn key p
  = Ok (if optneg_of p
        then spec_join_accept_mic_11 key ty je dn (mhdr_marshal (mtype p) (major p)) body
        else spec_join_accept_mic_10 key (mhdr_marshal (mtype p) (major p)) body).
Proof.
  intros (jn & nid & da & o & rx2 & rx1 & rxd & cfl & Hp) Hb.
  unfold calc_down_join_mic, optneg_of. rewrite Hp in *. rewrite Hb. cbn [bind].
  destruct o.
  - unfold spec_join_accept_mic_11, mic_of, optneg_prefix. rewrite <- !app_assoc. reflexivity.
  - reflexivity.
Qed.

Theorem join_accept_mic_needs_join_accept ty je dn key p :
  ~ is_join_accept p -> calc_down_join_mic ty je dn key p = Err.
Proof.
  intros H. unfold calc_down_join_mic. destruct (pl p) eqn:E; try reflexivity.
  exfalso. apply H. unfold is_join_accept. rewrite E. repeat eexists.
Qed.

Theorem validate_down_join_iff ty je dn key p b body :
  is_join_accept p -> payload_marshal (pl p) = Ok body ->
  validate_down_join_mic ty je dn key p = Ok b ->
  (b = true <-> mic p = (if optneg_of p
                         then spec_join_accept_mic_11 key ty je dn (mhdr_marshal (mtype p) (major p)) body
                         else spec_join_accept_mic_10 key (mhdr_marshal (mtype p) (major p)) body)).
Proof.
  intros Hj Hb. unfold validate_down_join_mic. rewrite (join_accept_mic_spec _ _ _ _ _ _ Hj Hb).
  unfold bind. intros H. assert (E : b = bytes_eqb (mic p) (if optneg_of p
                         then spec_join_accept_mic_11 key ty je dn (mhdr_marshal (mtype p) (major p)) body
                         else spec_join_accept_mic_10 key (mhdr_marshal (mtype p) (major p)) body)) by congruence.
  rewrite E. apply bytes_eqb_eq.
Qed.

Theorem validate_up_join_iff key p b x :
  calc_up_join_mic key p = Ok x -> validate_up_join_mic key p = Ok b -> (b = true <-> mic p = x).
Proof.
  intros Hc. unfold validate_up_join_mic. rewrite Hc. unfold bind. intros H.
  assert (E : b = bytes_eqb (mic p) x) by congruence. rewrite E. apply bytes_eqb_eq.
Qed.

(* ---- ECB ---- *)
Lemma ecb_blocks f n data : ecb f n data = concat (map f (blocks16 n data)).
Proof. revert data; induction n as [|n IH]; intros data; [reflexivity|]. cbn [ecb blocks16 map concat]. now rewrite IH. Qed.

Lemma ecb_length f n data : (forall b, length (f b) = 16%nat) -> length (ecb f n data) = (16 * n)%nat.
Proof.
  intros Hf. revert data; induction n as [|n IH]; intros data; [reflexivity|].
  cbn [ecb]. rewrite app_length, Hf, IH. lia.
Qed.

Lemma aes_dec_rk_eq key b : aes_decrypt_rk (expand_key key) b = aes_decrypt key b.
Proof. unfold aes_decrypt. reflexivity. Qed.
Lemma aes_enc_rk_eq key b : aes_encrypt_rk (expand_key key) b = aes_encrypt key b.
Proof. unfold aes_encrypt. reflexivity. Qed.

Lemma ecb_ext f g n data : (forall b, f b = g b) -> ecb f n data = ecb g n data.
Proof. intros H. revert data; induction n as [|n IH]; intros data; [reflexivity|]. cbn [ecb]. now rewrite H, IH. Qed.

Lemma Forall_firstn {A} (P : A -> Prop) n l : Forall P l -> Forall P (firstn n l).
Proof. intros H. revert n; induction H; intros [|n]; simpl; constructor; auto. Qed.
Lemma Forall_skipn {A} (P : A -> Prop) n l : Forall P l -> Forall P (skipn n l).
Proof. intros H. revert n; induction H; intros [|n]; simpl; auto. Qed.

(* encrypting each block of the block-wise decryption gives the message back *)
Lemma ecb_enc_dec key n m :
  Forall byte key -> Forall byte m -> length m = (16 * n)%nat ->
  ecb (aes_encrypt key) n (ecb (aes_decrypt key) n m) = m.
Proof.
  intros Hk. revert m; induction n as [|n IH]; intros m Hm Hl.
  - destruct m; [reflexivity|simpl in Hl; lia].
  - cbn [ecb].
    assert (L : length (aes_decrypt key (firstn 16 m)) = 16%nat) by apply aes_decrypt_length.
    rewrite <- L at 1. rewrite take_app_length.
    rewrite <- L at 2. rewrite drop_app_length.
    rewrite aes_encrypt_decrypt_anykey.
    + rewrite IH; [apply firstn_skipn|now apply Forall_skipn|rewrite skipn_length; lia].
    + exact Hk.
    + split; [unfold len16; rewrite firstn_length; lia|now apply Forall_firstn].
Qed.

Lemma ecb_dec_enc key n m :
  Forall byte key -> Forall byte m -> length m = (16 * n)%nat ->
  ecb (aes_decrypt key) n (ecb (aes_encrypt key) n m) = m.
Proof.
  intros Hk. revert m; induction n as [|n IH]; intros m Hm Hl.
  - destruct m; [reflexivity|simpl in Hl; lia].
  - cbn [ecb].
    assert (L : length (aes_encrypt key (firstn 16 m)) = 16%nat) by apply aes_encrypt_length.
    rewrite <- L at 1. rewrite take_app_length.
    rewrite <- L at 2. rewrite drop_app_length.
    rewrite aes_decrypt_encrypt_anykey.
    + rewrite IH; [apply firstn_skipn|now apply Forall_skipn|rewrite skipn_length; lia].
    + exact Hk.
    + split; [unfold len16; rewrite firstn_length; lia|now apply Forall_firstn].
Qed.

(* ---- EncryptJoinAcceptPayload ---- *)
Theorem encrypt_join_accept_inv key p q :
  encrypt_join_accept key p = Ok q ->
  exists body d,
    is_join_accept p /\ payload_marshal (pl p) = Ok body /\ (length (body ++ mic p) mod 16 = 0)%nat /\
    pl q = PLData d /\ mtype q = mtype p /\ major q = major p /\
    d ++ mic q = ecb (aes_decrypt key) (length (body ++ mic p) / 16) (body ++ mic p).
Proof.
  unfold encrypt_join_accept. destruct (pl p) eqn:Hp; try discriminate.
  rewrite <- Hp. destruct (payload_marshal (pl p)) as [body| | |] eqn:Hb; cbn [bind]; try discriminate.
  destruct (Nat.eqb (length (body ++ mic p) mod 16) 0) eqn:E; cbn [negb]; [|discriminate].
  destruct (length (body ++ mic p) <? 4)%nat; [discriminate|].
  intros [= <-]. apply Nat.eqb_eq in E.
  eexists body, _. split; [unfold is_join_accept; rewrite Hp; repeat eexists|].
  split; [reflexivity|]. split; [exact E|]. cbn [pl mtype major mic].
  split; [reflexivity|]. split; [reflexivity|]. split; [reflexivity|].
  rewrite firstn_skipn. apply ecb_ext. intros b. apply aes_dec_rk_eq.
Qed.

(* C04 ciphertext_spec: the ciphertext (payload field | MIC field afterwards) is the specification's *)
Theorem ciphertext_spec key p q :
  encrypt_join_accept key p = Ok q ->
  exists body d, payload_marshal (pl p) = Ok body /\ pl q = PLData d /\
                 d ++ mic q = spec_join_accept_ciphertext key body (mic p).
Proof.
  intros H. destruct (encrypt_join_accept_inv _ _ _ H) as (body & d & _ & Hb & _ & Hq & _ & _ & Hc).
  exists body, d. split; [exact Hb|]. split; [exact Hq|].
  rewrite Hc. unfold spec_join_accept_ciphertext. apply ecb_blocks.
Qed.

(* C04 device_recovers: AES-encrypting the ciphertext blocks gives payload | MIC *)
Theorem device_recovers key body m :
  Forall byte key -> Forall byte (body ++ m) -> (length (body ++ m) mod 16 = 0)%nat ->
  device_decrypt key (spec_join_accept_ciphertext key body m) = body ++ m.
Proof.
  intros Hk Hm Hl. unfold device_decrypt, spec_join_accept_ciphertext.
  rewrite <- !ecb_blocks.
  rewrite ecb_length by (intros; apply aes_decrypt_length).
  rewrite (Nat.mul_comm 16), Nat.div_mul by lia.
  apply ecb_enc_dec; auto. lia.
Qed.

Theorem device_recovers_frame key p q :
  Forall byte key -> encrypt_join_accept key p = Ok q ->
  exists body d, payload_marshal (pl p) = Ok body /\ pl q = PLData d /\
    (Forall byte (body ++ mic p) -> device_decrypt key (d ++ mic q) = body ++ mic p).
Proof.
  intros Hk H. destruct (encrypt_join_accept_inv _ _ _ H) as (body & d & _ & Hb & Hl & Hq & _ & _ & Hc).
  exists body, d. split; [exact Hb|]. split; [exact Hq|]. intros Hm.
  pose proof (device_recovers key body (mic p) Hk Hm Hl) as D.
  unfold spec_join_accept_ciphertext in D. rewrite Hc, ecb_blocks. exact D.
Qed.

(* ---- decrypt after encrypt ---- *)
Definition wire_payload (x : payload) : payload :=
  match x with
  | PLJoinAccept jn nid da o rx2 rx1 rxd (Some l) => PLJoinAccept jn nid da o rx2 rx1 rxd (Some (wire_cflist l))
  | _ => x
  end.
Definition wire_phy (p : phy) : phy := mkPHY (mtype p) (major p) (wire_payload (pl p)) (mic p).

Lemma id_ok_inv k bs : id_ok k bs = true -> length bs = k /\ Forall byte bs.
Proof.
  unfold id_ok. intros H. apply andb_true_iff in H as [H1 H2]. apply Nat.eqb_eq in H1.
  split; [exact H1|]. now apply bytes_ok_Forall.
Qed.

Section DecryptEncrypt.
  (* The join-accept payload codec facts this theorem needs from C01 (Frame/*Proofs.v, the lead):
     a specification-valid join-accept payload marshals to 12 or 28 bytes (all < 256) that
     unmarshal to the payload, a channel-mask CFList modulo trailing all-zero masks. *)
  Hypothesis joinaccept_codec : forall p,
    spec_valid p = true -> is_join_accept p ->
    exists body, payload_marshal (pl p) = Ok body /\ Forall byte body /\
                 (length body = 12 \/ length body = 28)%nat /\
                 joinaccept_unmarshal body = Ok (wire_payload (pl p)).

  Theorem decrypt_encrypt key p :
    Forall byte key -> spec_valid p = true -> is_join_accept p ->
    exists q, encrypt_join_accept key p = Ok q /\ decrypt_join_accept key q = Ok (wire_phy p).
  Proof.
    intros Hk Hv Hj. destruct (joinaccept_codec p Hv Hj) as (body & Hb & Hbytes & Hlen & Hdec).
    assert (Hmic : length (mic p) = 4%nat /\ Forall byte (mic p)).
    { unfold spec_valid in Hv. apply andb_true_iff in Hv as [Hv _]. apply andb_true_iff in Hv as [_ Hv].
      now apply id_ok_inv. }
    destruct Hmic as [Hm4 Hmb].
    assert (HL : (length (body ++ mic p) = 16 \/ length (body ++ mic p) = 32)%nat)
      by (rewrite app_length; lia).
    assert (Hall : Forall byte (body ++ mic p)) by (apply Forall_app; split; assumption).
    destruct Hj as (jn & nid & da & o & rx2 & rx1 & rxd & cfl & Hp).
    set (n := (length (body ++ mic p) / 16)%nat).
    assert (Hn : length (body ++ mic p) = (16 * n)%nat) by (unfold n; lia).
    set (ct := ecb (aes_decrypt key) n (body ++ mic p)).
    assert (Hct : length ct = (16 * n)%nat) by (apply ecb_length; intros; apply aes_decrypt_length).
    exists (mkPHY (mtype p) (major p) (PLData (firstn (length ct - 4) ct)) (skipn (length ct - 4) ct)).
    split.
    - unfold encrypt_join_accept. rewrite Hp. rewrite <- Hp. rewrite Hb. cbn [bind].
      replace (Nat.eqb (length (body ++ mic p) mod 16) 0) with true by (symmetry; apply Nat.eqb_eq; lia).
      cbn [negb]. replace (length (body ++ mic p) <? 4)%nat with false by (symmetry; apply Nat.ltb_ge; lia).
      fold n. rewrite (ecb_ext _ (aes_decrypt key)) by (intros; apply aes_dec_rk_eq). reflexivity.
    - unfold decrypt_join_accept. cbn [pl mic mtype major]. rewrite firstn_skipn.
      replace (Nat.eqb (length ct mod 16) 0) with true by (symmetry; apply Nat.eqb_eq; lia).
      cbn [negb]. replace (length ct <? 4)%nat with false by (symmetry; apply Nat.ltb_ge; lia).
      rewrite (ecb_ext _ (aes_encrypt key)) by (intros; apply aes_enc_rk_eq).
      replace (length ct / 16)%nat with n by lia.
      unfold ct. rewrite ecb_enc_dec by assumption.
      replace (length (body ++ mic p) - 4)%nat with (length body) by (rewrite app_length; lia).
      rewrite take_app_length, drop_app_length, Hdec. reflexivity.
  Qed.
End DecryptEncrypt.

(* literal equality does not hold: the C04-1 / C01-1 witness (channel masks [m0; 0]) *)
Definition c04_witness : phy :=
  mkPHY JoinAccept 0
        (PLJoinAccept 0 [0; 0; 0] [0; 0; 0; 0] false 0 0 0
           (Some (mkCFList (CFPMasks [true :: repeat false 15; repeat false 16]) 1)))
        [1; 2; 3; 4].
Definition c04_witness_key : list N := [1; 2; 3; 4; 5; 6; 7; 8; 9; 10; 11; 12; 13; 14; 15; 16].

Theorem decrypt_encrypt_literal_refuted :
  spec_valid c04_witness = true /\ is_join_accept c04_witness /\
  exists q, encrypt_join_accept c04_witness_key c04_witness = Ok q /\
            decrypt_join_accept c04_witness_key q = Ok (wire_phy c04_witness) /\
            wire_phy c04_witness <> c04_witness.
Proof.
  split; [vm_compute; reflexivity|]. split; [unfold is_join_accept; repeat eexists|].
  eexists. split; [vm_compute; reflexivity|]. split; [vm_compute; reflexivity|].
  vm_compute. discriminate.
Qed.
