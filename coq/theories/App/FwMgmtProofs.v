(* Proofs about the firmware-management model (after the repairs 01e6d94,
   e758b58, bb4a8d3): payload round trips with the TS006 layout and the
   reported size, no panic on encode for any value, stream round trip through
   the window the stream decoder hands to each command. *)
From Coq Require Import List NArith ZArith Bool Lia.
From Coq Require Import ZifyN ZifyNat ZifyBool.
From LW Require Import Base.Outcome Base.Bytes App.Common App.Spec App.ProofTools App.StreamProofs
     App.FwMgmt.
Import ListNotations.
Open Scope N_scope.
Ltac Zify.zify_post_hook ::= Z.div_mod_to_equations.

(* payloads whose decoder demands an exact length *)
Definition exact (p : payload) : bool :=
  match p with DevVersionReq | DevUpgradeImageReq => true | _ => false end.

Theorem payload_roundtrip p rest : FW.in_widthb p = true -> (exact p = true -> rest = []) ->
  exists bs d, enc p = Ok bs /\ length bs = psize p /\ bs = spec_bytes (FW.spec p)
    /\ lookup (uplink_of p) (cid_of p) = Some d /\ d (bs ++ rest) = Ok p.
Proof.
  intros H Hex. unfold FW.in_widthb in H.
  assert (Fin : forall (bs : list N) d,
    enc p = Ok bs -> length bs = psize p -> bs = spec_bytes (FW.spec p) ->
    lookup (uplink_of p) (cid_of p) = Some d -> d (bs ++ rest) = Ok p ->
    exists bs d, enc p = Ok bs /\ length bs = psize p /\ bs = spec_bytes (FW.spec p)
      /\ lookup (uplink_of p) (cid_of p) = Some d /\ d (bs ++ rest) = Ok p).
  { intros bs d; exists bs, d; auto. }
  destruct p as [i v| |fw hw|t|t|c|c| |st next|ver|inv noval]; cbn [FW.spec FW.extra] in H.
  - widths H. eapply Fin; [reflexivity|reflexivity| |reflexivity| ].
    + cbn [FW.spec]; layout. bytes_eq; lia.
    + unfold dec_PackageVersionAns. run. reflexivity.
  - eapply Fin; [reflexivity|reflexivity|reflexivity|reflexivity|]. rewrite (Hex eq_refl). reflexivity.
  - widths H. eapply Fin; [reflexivity|reflexivity| |reflexivity| ].
    + cbn [FW.spec]; layout. bytes_eq; lia.
    + unfold dec_DevVersionAns. run. fields_eq; lia.
  - widths H. eapply Fin; [reflexivity|reflexivity| |reflexivity| ].
    + cbn [FW.spec]; layout. bytes_eq; lia.
    + unfold dec_DevRebootTimeReq. run. fields_eq; lia.
  - widths H. eapply Fin; [reflexivity|reflexivity| |reflexivity| ].
    + cbn [FW.spec]; layout. bytes_eq; lia.
    + unfold dec_DevRebootTimeAns. run. fields_eq; lia.
  - widths H. eapply Fin; [reflexivity|reflexivity| |reflexivity| ].
    + cbn [FW.spec]; layout. bytes_eq; lia.
    + unfold dec_DevRebootCountdownReq. run. fields_eq; lia.
  - widths H. eapply Fin; [reflexivity|reflexivity| |reflexivity| ].
    + cbn [FW.spec]; layout. bytes_eq; lia.
    + unfold dec_DevRebootCountdownAns. run. fields_eq; lia.
  - eapply Fin; [reflexivity|reflexivity|reflexivity|reflexivity|]. rewrite (Hex eq_refl). reflexivity.
  - destruct next as [nv|]; cbn [FW.spec] in H; widths H.
    + assert (st = 3) by lia; subst st. eapply Fin; [reflexivity|reflexivity| |reflexivity| ].
      * cbn [FW.spec]; layout. bytes_eq; lia.
      * unfold dec_DevUpgradeImageAns. run. cbn [N.land fw_valid N.eqb Pos.eqb Pos.land]. run.
        fields_eq. f_equal. lia.
    + enum st 4%nat; try (exfalso; lia); (eapply Fin; [reflexivity|reflexivity|reflexivity|reflexivity|reflexivity]).
  - widths H. eapply Fin; [reflexivity|reflexivity| |reflexivity| ].
    + cbn [FW.spec]; layout. bytes_eq; lia.
    + unfold dec_DevDeleteImageReq. run. fields_eq; lia.
  - widths H. enum inv 2%nat; enum noval 2%nat; (eapply Fin; [reflexivity|reflexivity|reflexivity|reflexivity|reflexivity]).
Qed.

(* after fix bb4a8d3: no value of the payload type makes the encoder panic *)
Theorem enc_no_panic p : enc p <> Panic.
Proof.
  destruct p as [i v| |fw hw|t|t|c|c| |st next|ver|inv noval]; try discriminate.
  cbn [enc]. destruct (fw_valid st), next; cbn [negb andb]; discriminate.
Qed.

Lemma dec_fuel_free up cid d data : lookup up cid = Some d -> d data <> OutOfFuel.
Proof.
  unfold lookup. destruct up.
  - cid_cases cid; intros E; try discriminate E; inversion E; subst; clear E.
    all: unfold dec_PackageVersionAns, dec_DevVersionAns, dec_DevRebootTimeAns, dec_DevRebootCountdownAns,
         dec_DevUpgradeImageAns, dec_DevDeleteImageAns; no_fuel.
  - cid_cases cid; intros E; try discriminate E; inversion E; subst; clear E.
    all: unfold dec_DevVersionReq, dec_DevRebootTimeReq, dec_DevRebootCountdownReq,
         dec_DevUpgradeImageReq, dec_DevDeleteImageReq; no_fuel.
Qed.

Lemma cmd_roundtrip up (c : command) rest :
  FWW.wf_cmd up c = true ->
  exists bs, cmd_enc c = Ok bs /\ length bs = cmd_size c /\ bs = spec_cmd_bytes FW.spec c
             /\ cmd_dec up (window up (bs ++ rest)) = Ok c.
Proof.
  destruct c as [cid [p|]]; unfold FWW.wf_cmd, wf_cmd; cbn [fst snd]; intros H.
  - apply andb_true_iff in H as [H Hw]. apply andb_true_iff in H as [Hc Hu].
    apply N.eqb_eq in Hc. apply eqb_prop in Hu. subst cid up.
    destruct (exact p) eqn:Ex.
    + destruct p; try discriminate Ex.
      * exists [1]. repeat split.
      * exists [4]. repeat split.
    + destruct (payload_roundtrip p rest Hw) as (bs & d & E & L & S & Lk & D); [congruence|].
      assert (W : forall data, window (uplink_of p) (cid_of p :: data) = cid_of p :: data)
        by (destruct p; try discriminate Ex; reflexivity).
      exists (cid_of p :: bs).
      unfold cmd_enc, Common.cmd_enc, cmd_size, Common.cmd_size, cmd_dec, Common.cmd_dec.
      cbn [fst snd]. rewrite E. cbn [bind app length]. rewrite L, W.
      split; [reflexivity|]. split; [lia|]. split; [unfold spec_cmd_bytes; cbn [fst snd]; now rewrite S|].
      rewrite Lk, D. reflexivity.
  - apply andb_true_iff in H as [Hc Hn]. exists [cid].
    unfold cmd_enc, Common.cmd_enc, cmd_size, Common.cmd_size, cmd_dec, Common.cmd_dec.
    cbn [fst snd app]. repeat split.
    unfold FWW.has_payload, opt_some in Hn.
    assert (W : window up (cid :: rest) = cid :: rest).
    { unfold window, fresh_size. unfold lookup in Hn.
      destruct up; cid_cases cid; try reflexivity; discriminate Hn. }
    rewrite W. destruct (lookup up cid); [discriminate|reflexivity].
Qed.

Theorem stream_roundtrip up (cs : list command) :
  FWW.wf_stream up cs = true ->
  exists bs, cmds_enc cs = Ok bs
    /\ length bs = fold_right Nat.add O (map cmd_size cs)
    /\ bs = FWW.stream_bytes cs
    /\ cmds_dec up bs = Ok cs.
Proof.
  apply (StreamProofs.stream_roundtrip payload enc psize lookup window FW.in_widthb cid_of uplink_of
           FWW.has_payload never FW.spec).
  intros up' c rest Hwf _. now apply cmd_roundtrip.
Qed.

Theorem stream_dec_terminates up data : cmds_dec up data <> OutOfFuel.
Proof. apply (StreamProofs.stream_dec_terminates payload psize lookup window dec_fuel_free). Qed.
