package main

import (
	"encoding/hex"
	"fmt"
	"strings"
)

// variations: one deviation from a conformant request or configuration per case.
func (g *G) variations(thorough bool) {
	reps := 1
	if thorough {
		reps = 12
	}
	r := g.r
	for rep := 0; rep < reps; rep++ {
		// ---- wrong MIC (join-request): one flipped bit in the MIC, in the DevNonce, in the JoinEUI ----
		for _, pos := range []int{22, 19, 17, 1, 9} {
			a := g.randomAct(kJoin)
			t, q := a.table(), g.request(&a)
			f := a.frame()
			f[pos] ^= 1 << uint(r.Intn(8))
			q.phy = sp(hex.EncodeToString(f))
			intent := "IWrongMIC"
			if pos >= 9 && pos <= 16 {
				intent = "IMember" // a flipped DevEUI octet: the frame is of another DevEUI than the member names - refused (Other) before the MIC is looked at
			}
			g.run(t, q, intent, "join-wrong-mic", fmt.Sprintf("join:wrong-mic:flipped-byte=%d:%s", pos, a.describe()), nil)
		}
		{ // MIC computed with another device's key
			a := g.randomAct(kJoin)
			t, q := a.table(), g.request(&a)
			other := a.dev
			copy(other.nwkKey[:], r.Bytes(16))
			q.phy = sp(hex.EncodeToString(other.joinRequestFrame(a.devNonce)))
			g.run(t, q, "IWrongMIC", "join-wrong-mic", "join:wrong-mic:other-key:"+a.describe(), nil)
		}
		// ---- MIC that is CORRECT under another key the server knows or can derive (never under NwkKey):
		//      AppKey, the NwkKey of another configured device, JSIntKey, JSEncKey, the all-zero key.
		//      Must be MICFailed whatever OptNeg says (a 1.1-provisioned device on a 1.0 NS included). ----
		for _, optneg := range []bool{false, true} {
			for _, which := range []string{"appkey", "other-device-nwkkey", "other-device-appkey", "jsintkey", "jsenckey", "zero-key", "nwkkey-reversed"} {
				a, o := g.randomAct(kJoin), g.randomAct(kJoin)
				a.dls = a.dls&0x7f | map[bool]byte{false: 0, true: 0x80}[optneg]
				t, q := a.table(), g.request(&a)
				t.devices = append(t.devices, devEntry{eui: o.dev.devEUI, kind: found, nwk: o.dev.nwkKey, app: o.dev.appKey, joinNonce: o.joinNonce})
				key := map[string][]byte{"appkey": a.dev.appKey[:], "other-device-nwkkey": o.dev.nwkKey[:], "other-device-appkey": o.dev.appKey[:],
					"jsintkey": a.dev.jsIntKey(), "jsenckey": a.dev.jsEncKey(), "zero-key": make([]byte, 16), "nwkkey-reversed": rev(a.dev.nwkKey[:])}[which]
				q.phy = sp(g.hexText(a.dev.joinRequestFrameUnder(a.devNonce, key), true))
				g.run(t, q, "IWrongMIC", "join-mic-under-other-key", fmt.Sprintf("join:mic-under=%s:%s", which, a.describe()), nil)
			}
		}
		{ // both root keys equal: the MIC under "AppKey" IS the MIC under NwkKey, Success
			a := g.randomAct(kJoin)
			a.dev.appKey = a.dev.nwkKey
			g.activation(&a, "join-ok")
		}
		// ---- rejoin-request whose MIC is correct under some other key (NwkKey, AppKey, JSEncKey, zero): the
		//      handler does not look at it; whatever it answers must be what the model answers ----
		for kind := kRejoin0; kind <= kRejoin2; kind++ {
			for _, which := range []string{"nwkkey", "appkey", "jsenckey", "zero-key"} {
				a := g.randomAct(kind)
				t, q := a.table(), g.request(&a)
				key := map[string][]byte{"nwkkey": a.dev.nwkKey[:], "appkey": a.dev.appKey[:], "jsenckey": a.dev.jsEncKey(), "zero-key": make([]byte, 16)}[which]
				f := a.frame()
				msg := f[:len(f)-4]
				q.phy = sp(hex.EncodeToString(cat(msg, mic4(key, msg))))
				g.run(t, q, "INone", "rejoin-mic-under-other-key", fmt.Sprintf("rejoin:mic-under=%s:%s", which, a.describe()), nil)
			}
		}
		// ---- rejoin-request with a wrong MIC: the property fixes nothing (the code does not look at it) ----
		for kind := kRejoin0; kind <= kRejoin2; kind++ {
			a := g.randomAct(kind)
			t, q := a.table(), g.request(&a)
			f := a.frame()
			f[len(f)-1] ^= 0x40
			q.phy = sp(hex.EncodeToString(f))
			g.run(t, q, "INone", "rejoin-wrong-mic", "rejoin:wrong-mic:"+a.describe(), nil)
		}
		// ---- rejoin answered with OptNeg unset ----
		for kind := kRejoin0; kind <= kRejoin2; kind++ {
			a := g.randomAct(kind)
			a.dls &= 0x7f
			g.activation(&a, "rejoin-optneg-unset")
		}
		// ---- unknown DevEUI ----
		for kind := kJoin; kind <= kRejoin2; kind++ {
			a := g.randomAct(kind)
			t, q := a.table(), g.request(&a)
			switch r.Intn(3) {
			case 0:
				t.devices = nil
			case 1:
				t.devices[0].kind = notFound
			default:
				t.devices[0].eui[r.Intn(8)] ^= 0x10
			}
			g.run(t, q, "IUnknownDevEUI", "unknown-deveui", "unknown-deveui:"+a.describe(), nil)
		}
		// ---- callback errors ----
		for i := 0; i < 4; i++ {
			a := g.randomAct(r.Intn(4))
			a.asLabel, a.asKEK, a.nsKEK = "as-1", r.Bytes(16), r.Bytes(16)
			t, q := a.table(), g.request(&a)
			name := ""
			switch i {
			case 0:
				t.devices[0].kind = lookErr
				name = "get-device-keys"
			case 1:
				t.keks[0].err = true
				name = "get-ns-kek"
			case 2:
				t.aslabels[0].err = true
				name = "get-as-kek-label"
			default:
				t.keks[1].err = true
				name = "get-as-kek"
			}
			g.run(t, q, "INone", "callback-error", "callback-error:"+name+":"+a.describe(), nil)
		}
		// ---- KEK of a length aes.NewCipher refuses ----
		for _, n := range []int{1, 15, 17, 31, 33} {
			a := g.randomAct(r.Intn(4))
			if r.Bool() {
				a.nsKEK = r.Bytes(n)
			} else {
				a.asLabel, a.asKEK = "as-1", r.Bytes(n)
			}
			g.run(a.table(), g.request(&a), "INone", "kek-bad-length", fmt.Sprintf("kek-bad-length=%d:%s", n, a.describe()), nil)
		}
		// ---- AS label configured, KEK for it empty; label "" with a KEK stored under "" ----
		{
			a := g.randomAct(kJoin)
			a.asLabel, a.asKEK = "as-1", nil
			t, q := a.table(), g.request(&a)
			t.keks = append(t.keks, kekEntry{label: "as-1", kek: []byte{}})
			g.run(t, q, a.intent(), "kek-empty", "kek-empty-for-label:"+a.describe(), nil)
			b := g.randomAct(kJoin)
			b.asLabel, b.asKEK = "", nil
			t, q = b.table(), g.request(&b)
			t.keks = append(t.keks, kekEntry{label: "", kek: r.Bytes(16)})
			g.run(t, q, b.intent(), "kek-empty", "kek-under-empty-label:"+b.describe(), nil)
		}
		// ---- join-nonce out of range
		//      (audit finding 7: values that are 0..2^24-1 modulo 2^32 were answered Success): must be refused, mirrored ----
		for i, jn := range []int{1 << 24, 1<<24 + 5, -1, 1 << 32, -(1 << 31), 1<<32 + 7, -(1 << 32) + 5, -(1 << 32), -(1 << 24), -(1 << 32) + (1<<24 - 1), -(1 << 40) + 77} {
			a := g.randomAct((i + rep) % 4)
			a.joinNonce = jn
			g.run(a.table(), g.request(&a), "IMember", "joinnonce-range", fmt.Sprintf("joinnonce=%d:%s", jn, a.describe()), nil)
		}
		// ---- RxDelay across the int range (audit finding 2: 256..271, -255, 65541 were answered Success with RxDelay mod 256):
		//      everything outside 0..15 must be refused with a mirrored answer ----
		for i, rx := range []int64{16, 17, 255, 256, 257, 263, 271, 272, 511, 512, 65536, 65541, 1 << 31, 1<<32 + 3, 1 << 40, 1<<63 - 1,
			-1, -15, -240, -241, -255, -256, -65535, -(1 << 31), -(1 << 63)} {
			a := g.randomAct((i + rep) % 4)
			a.rxDelay = rx
			g.run(a.table(), g.request(&a), "IMember", "rxdelay-range", fmt.Sprintf("rxdelay=%d:%s", rx, a.describe()), nil)
		}
		// ---- ReceiverID is a well-formed EUI64 other than the JoinEUI inside the frame (audit finding 3): for a join-request
		//      and a rejoin type 1 the frame's JoinEUI counts, the answer must be usable by the device ----
		for _, fl := range []struct {
			kind   int
			optneg bool
		}{{kJoin, true}, {kJoin, false}, {kRejoin1, true}} {
			a := g.randomAct(fl.kind)
			a.dls &= 0x7f
			if fl.optneg {
				a.dls |= 0x80
			}
			a.receiver = g.hexText(r.Bytes(8), true)
			t := a.table()
			g.activationOn(t.handler(), t, &a, "receiver-not-the-joineui", "receiver-other-eui64:", nil)
		}
		// ---- join-request with RFU bits set in the MHDR octet and a MIC that is correct for the octets as sent
		//      (known finding C16-2, root in the frame codec: the MIC is recomputed over the re-encoded MHDR) ----
		for _, mhdr := range []byte{0x04, 0x08, 0x10, 0x1c} {
			a := g.randomAct(kJoin)
			t, q := a.table(), g.request(&a)
			q.phy = sp(hex.EncodeToString(a.dev.joinRequestFrameMHDR(a.devNonce, mhdr)))
			g.run(t, q, a.intent(), "join-mhdr-rfu", fmt.Sprintf("join:mhdr-rfu-bits=%02x:%s", mhdr, a.describe()), nil)
		}
		// ---- CFList that is not a well-formed CFList ----
		for i := 0; i < 5; i++ {
			a := g.randomAct(r.Intn(4))
			t, q := a.table(), g.request(&a)
			name := ""
			switch i {
			case 0:
				q.cfl, name = sp(hex.EncodeToString(r.Bytes(15))), "15-bytes"
			case 1:
				q.cfl, name = sp(hex.EncodeToString(r.Bytes(17))), "17-bytes"
			case 2:
				q.cfl, name = sp(hex.EncodeToString(r.Bytes(1))), "1-byte"
			case 3: // type 1 with octets 12..13 set (read as a seventh mask before /repo e2c2b92; RFU, ignored, now)
				b := r.Bytes(16)
				b[12] |= 1
				b[15] = 1
				q.cfl, name = sp(hex.EncodeToString(b)), "type1-rfu-12-13-set"
			default: // type 1 with RFU byte set / trailing zero masks: accepted, RFU not echoed
				b := r.Bytes(16)
				b[12], b[13], b[14], b[15] = 0, 0, 0x5a, 1
				q.cfl, name = sp(hex.EncodeToString(b)), "type1-rfu-set"
			}
			g.run(t, q, "INone", "cflist-odd", "cflist:"+name+":"+a.describe(), nil)
		}
		// ---- channel-mask CFLists whose RFU octets 12..14 are not zero, for every flow: accepted, the join-accept
		//      carries the six masks and zero RFU octets (the model says so; no echo expectation) ----
		for fi, kind := range []int{kJoin, kJoin, kRejoin0 + r.Intn(3)} {
			for _, pat := range []struct {
				name       string
				b12, b13, b14 byte
			}{{"rfu12", 1 + r.Byte()%255, 0, 0}, {"rfu13", 0, 1 + r.Byte()%255, 0}, {"rfu14", 0, 0, 1 + r.Byte()%255}, {"rfu-all-ff", 0xff, 0xff, 0xff}} {
				a := g.randomAct(kind)
				if kind == kJoin {
					a.dls = a.dls&0x7f | byte(fi)<<7
				}
				t, q := a.table(), g.request(&a)
				b := r.Bytes(16)
				if pat.name == "rfu-all-ff" {
					for i := 0; i < 12; i++ {
						b[i] |= 1 // all six masks non-zero
					}
				} else if r.Bool() {
					for i := 2 * r.Intn(6); i < 12; i++ {
						b[i] = 0 // trailing all-zero masks
					}
				}
				b[12], b[13], b[14], b[15] = pat.b12, pat.b13, pat.b14, 1
				q.cfl = sp(hex.EncodeToString(b))
				ans := g.run(t, q, "INone", "cflist-rfu", "cflist:type1:"+pat.name+":"+a.describe(), nil)
				if ans.rc != "Success" {
					g.s.Fail(casesFail("cflist-rfu-refused:"+pat.name+":"+a.describe(), fmt.Sprintf("a channel-mask CFList with RFU octets set is answered %d %q (the RFU octets must be ignored)", ans.status, ans.rc), q.body()))
				}
			}
		}
		// ---- SenderID / ReceiverID that are not a NetID / JoinEUI, or not those of the frame ----
		for i := 0; i < 8; i++ {
			a := g.randomAct(r.Intn(4))
			t, q := a.table(), g.request(&a)
			name := ""
			switch i {
			case 0:
				q.sender, name = "zz0203", "sender-not-hex"
			case 1:
				q.sender, name = "0102", "sender-2-bytes"
			case 2:
				q.sender, name = "01020304", "sender-4-bytes"
			case 3:
				q.sender, name = "", "sender-empty"
				q.omit["SenderID"] = r.Bool()
			case 4:
				q.receiver, name = "0102030405060708ff", "receiver-9-bytes"
			case 5:
				q.receiver, name = "", "receiver-empty"
				q.omit["ReceiverID"] = r.Bool()
			case 6: // another JoinEUI than the one in the frame / of the device
				q.receiver, name = hex.EncodeToString(r.Bytes(8)), "receiver-other-joineui"
			default: // NetID text with 0x prefix and upper case: same NetID, other KEK label
				q.sender, name = "0x"+strings.ToUpper(a.netIDText()), "sender-0x-prefixed"
			}
			g.run(t, q, "INone", "ids-odd", "ids:"+name+":"+a.describe(), nil)
		}
		// ---- DevEUI of the JSON differs from the DevEUI inside the frame (both known) ----
		{
			a, b := g.randomAct(kJoin), g.randomAct(kJoin)
			t, q := a.table(), g.request(&a)
			t.devices = append(t.devices, devEntry{eui: b.dev.devEUI, kind: found, nwk: b.dev.nwkKey, app: b.dev.appKey, joinNonce: b.joinNonce})
			q.devEUI = sp(hex.EncodeToString(b.dev.devEUI[:]))
			g.run(t, q, "IMember", "deveui-mismatch", "deveui-mismatch:join:other-keys:"+a.describe(), nil)
			// same root keys for both: the MIC validates, keys are derived for the JSON DevEUI
			t2, q2 := a.table(), g.request(&a)
			t2.devices = append(t2.devices, devEntry{eui: b.dev.devEUI, kind: found, nwk: a.dev.nwkKey, app: a.dev.appKey, joinNonce: b.joinNonce})
			q2.devEUI = sp(hex.EncodeToString(b.dev.devEUI[:]))
			g.run(t2, q2, "IMember", "deveui-mismatch", "deveui-mismatch:join:same-keys:"+a.describe(), nil)
		}
		// ---- DevEUI member names another KNOWN device than the frame (second audit, finding 1): shared root keys (one
		//      production batch) and own keys, join 1.1 / 1.0 and rejoin 0 / 1 / 2: must be refused, mirrored ----
		for _, fl := range []struct {
			kind   int
			optneg bool
		}{{kJoin, true}, {kJoin, false}, {kRejoin0, true}, {kRejoin1, true}, {kRejoin2, true}} {
			for _, shared := range []bool{true, false} {
				a, b := g.randomAct(fl.kind), g.randomAct(fl.kind)
				a.dls &= 0x7f
				if fl.optneg {
					a.dls |= 0x80
				}
				if shared {
					b.dev.nwkKey, b.dev.appKey = a.dev.nwkKey, a.dev.appKey
				}
				t, q := a.table(), g.request(&a)
				t.devices = append(t.devices, devEntry{eui: b.dev.devEUI, kind: found, nwk: b.dev.nwkKey, app: b.dev.appKey, joinNonce: b.joinNonce})
				q.devEUI = sp(g.hexText(b.dev.devEUI[:], true))
				g.run(t, q, "IMember", "deveui-mismatch", fmt.Sprintf("deveui-mismatch:shared-keys=%v:member=%x:%s", shared, b.dev.devEUI, a.describe()), nil)
			}
		}
		// ---- PHYPayload of the wrong message type / truncated / extended ----
		for i := 0; i < 7; i++ {
			a := g.randomAct(r.Intn(4))
			t, q := a.table(), g.request(&a)
			name := ""
			f := a.frame()
			switch i {
			case 0: // rejoin frame in a JoinReq and vice versa
				if a.kind == kJoin {
					q.mtype = "RejoinReq"
				} else {
					q.mtype = "JoinReq"
				}
				name = "frame-of-the-other-flow"
			case 1:
				f[0] = 0x20
				name = "mtype-join-accept"
			case 2:
				f[0] = 0x40 | f[0]&0x1f
				name = "mtype-data-up"
			case 3:
				f[0] = 0xe0
				name = "mtype-proprietary"
			case 4:
				f = f[:r.Intn(len(f))]
				name = fmt.Sprintf("truncated-to-%d", len(f))
			case 5:
				f = append(f, r.Byte())
				name = "one-byte-longer"
			default:
				if a.kind == kJoin {
					f[0] |= 0x03 // major bits set: MIC changes
					name = "major-3"
				} else {
					f[1] = 3 + byte(r.Intn(250)) // unknown rejoin type
					name = "rejoin-type-unknown"
				}
			}
			q.phy = sp(hex.EncodeToString(f))
			g.run(t, q, "INone", "frame-odd", "frame:"+name+":"+a.describe(), nil)
		}
		// ---- fields absent (Go zero value) ----
		for _, name := range []string{"PHYPayload", "DevEUI", "DevAddr", "DLSettings", "TransactionID", "RxDelay"} {
			a := g.randomAct(r.Intn(4))
			t, q := a.table(), g.request(&a)
			switch name {
			case "PHYPayload":
				q.phy = nil
			case "DevEUI":
				q.devEUI = nil
				if r.Bool() { // a device with the all-zero DevEUI exists
					t.devices = append(t.devices, devEntry{kind: found, nwk: a.dev.nwkKey, app: a.dev.appKey, joinNonce: a.joinNonce})
				}
			case "DevAddr":
				q.devAddr = nil
			case "DLSettings":
				q.dls = nil
			case "TransactionID":
				q.txid = 0
				q.omit["TransactionID"] = true
			case "RxDelay":
				q.rxDelay = 0
				q.omit["RxDelay"] = true
			}
			q.null[name] = r.Bool()
			g.run(t, q, "INone", "field-absent", "absent:"+name+":"+a.describe(), nil)
		}
	}
}

// malformed: bodies and text fields that the JSON layer or an UnmarshalText method rejects, and
// message types the handler does not serve.
func (g *G) malformed(thorough bool) {
	r := g.r
	reps := 1
	if thorough {
		reps = 6
	}
	for rep := 0; rep < reps; rep++ {
		for _, field := range []string{"PHYPayload", "DevEUI", "DevAddr", "DLSettings", "CFList", "SenderToken"} {
			for _, how := range []string{"odd-length", "bad-digit", "wrong-size", "0x-only"} {
				a := g.randomAct(r.Intn(4))
				t, q := a.table(), g.request(&a)
				cur := map[string]**string{"PHYPayload": &q.phy, "DevEUI": &q.devEUI, "DevAddr": &q.devAddr, "DLSettings": &q.dls, "CFList": &q.cfl, "SenderToken": &q.senderToken}[field]
				val := ""
				if *cur != nil {
					val = **cur
				}
				val = strings.TrimPrefix(val, "0x")
				if val == "" {
					val = "0a0b"
				}
				intent := "IMember" // a member of the typed payload: mirrored answer of the right type, not Success
				switch how {
				case "odd-length":
					val = val[:len(val)-1]
				case "bad-digit":
					val = val[:len(val)-1] + "g"
				case "wrong-size":
					val += "00"
					if field == "PHYPayload" || field == "CFList" || field == "SenderToken" {
						intent = "INone" // any length is a valid HEXBytes: the request is decoded
					}
				case "0x-only":
					val = "0x"
					if field == "DLSettings" {
						val = "0x" + hex.EncodeToString([]byte{a.dls}) // DLSettings.UnmarshalText does not trim a 0x prefix
					} else if field == "PHYPayload" || field == "CFList" || field == "SenderToken" {
						intent = "INone"
					}
				}
				*cur = sp(val)
				g.run(t, q, intent, "text-field-malformed", fmt.Sprintf("malformed:%s:%s:%s", field, how, a.describe()), nil)
			}
		}
		// HomeNSReq ignores every field but DevEUI: garbage elsewhere is not an error there
		{
			a := g.randomAct(kJoin)
			t, q := a.table(), g.request(&a)
			q.mtype = "HomeNSReq"
			q.phy, q.dls = sp("xyz"), sp("q")
			g.run(t, q, "INone", "homens", "homens:garbage-in-unused-fields:"+a.describe(), nil)
		}
		for _, mt := range []string{"", "JoinAns", "RejoinAns", "AppSKeyReq", "joinreq", "JoinReq ", "PRStartReq", "HomeNSAns", "XmitDataReq"} {
			a := g.randomAct(r.Intn(4))
			t, q := a.table(), g.request(&a)
			q.mtype = mt
			if mt == "" {
				q.omit["MessageType"] = r.Bool()
			}
			g.run(t, q, "IMalformed", "message-type-unserved", fmt.Sprintf("message-type=%q:%s", mt, a.describe()), nil)
		}
	}
	// bodies encoding/json rejects for the payload struct (class BadJSON of the model)
	a := g.randomAct(kJoin)
	good := g.request(&a).body()
	bad := []struct{ name, body string }{
		{"empty-body", ""},
		{"open-brace", "{"},
		{"truncated", good[:len(good)/2]},
		{"array", "[]"},
		{"number", "17"},
		{"string", `"JoinReq"`},
		{"trailing-comma", strings.TrimSuffix(good, "}") + ",}"},
		{"not-json", "ProtocolVersion=1.0&MessageType=JoinReq"},
	}
	for _, b := range bad {
		body := b.body
		q := &req{raw: body}
		if body == "" {
			q.raw = " " // req.raw == "" means "structured"; a blank body is rejected the same way
		}
		g.run(a.table(), q, "IMalformed", "bad-json", "bad-json:"+b.name, nil)
	}
	// members of the TYPED payload that encoding/json itself refuses (wrong JSON kind, number out of range): the base
	// payload decodes, so the answer must be the mirrored JoinAns / RejoinAns / HomeNSAns (class BadMember of the model)
	for i, m := range []struct{ name, member, raw string }{
		{"rxdelay-string", "RxDelay", `"1"`}, {"rxdelay-2^63", "RxDelay", "9223372036854775808"}, {"rxdelay-fraction", "RxDelay", "1.5"},
		{"rxdelay-object", "RxDelay", `{"v":1}`}, {"deveui-number", "DevEUI", "12"}, {"deveui-array", "DevEUI", `["01"]`},
		{"devaddr-bool", "DevAddr", "true"}, {"dlsettings-number", "DLSettings", "149"}, {"dlsettings-object", "DLSettings", `{"OptNeg":true}`},
		{"cflist-number", "CFList", "0"}, {"phypayload-array", "PHYPayload", "[1,2]"}, {"phypayload-number", "PHYPayload", "0"},
	} {
		b := g.randomAct(i % 4)
		q := g.request(&b)
		q.rawMember = map[string]string{m.member: m.raw}
		switch m.member { // the Coq request carries the zero value for the refused member
		case "RxDelay":
			q.rxDelay = 0
		case "DevEUI":
			q.devEUI = nil
		case "DevAddr":
			q.devAddr = nil
		case "DLSettings":
			q.dls = nil
		case "CFList":
			q.cfl = nil
		case "PHYPayload":
			q.phy = nil
		}
		g.run(b.table(), q, "IMember", "member-bad-json-kind", fmt.Sprintf("member:%s:%s", m.name, b.describe()), nil)
	}
	// members of the BASE payload that are refused (second audit, finding 2): the other members are decoded, the answer
	// is the mirrored message of the requested type; the refused member is the Go zero value in it
	for i, m := range []struct{ name, member, raw string }{
		{"transaction-id-string", "TransactionID", `"7"`}, {"transaction-id-negative", "TransactionID", "-1"},
		{"transaction-id-2^32", "TransactionID", "4294967296"}, {"transaction-id-fraction", "TransactionID", "1.5"},
		{"sender-id-number", "SenderID", "5"}, {"receiver-id-array", "ReceiverID", `["0102030405060708"]`},
		{"message-type-object", "MessageType", "{}"},
		{"sendertoken-number", "SenderToken", "5"}, {"receivertoken-odd-hex", "ReceiverToken", `"0"`}, {"receivertoken-not-hex", "ReceiverToken", `"zz"`},
		{"vsextension-vendorid-not-hex", "VSExtension", `{"VendorID":"q"}`}, {"vsextension-string", "VSExtension", `"x"`},
	} {
		for _, flow := range []int{kJoin, kRejoin0 + i%3, -1} {
			var q *req
			var t *table
			desc := "homens"
			if flow < 0 {
				var eui [8]byte
				copy(eui[:], r.Bytes(8))
				h := homeEntry{eui: eui, kind: found}
				t = &table{home: []homeEntry{h}}
				q = &req{sender: hex.EncodeToString(r.Bytes(3)), receiver: hex.EncodeToString(r.Bytes(8)), txid: r.U32(), mtype: "HomeNSReq",
					devEUI: sp(hex.EncodeToString(eui[:])), omit: map[string]bool{"RxDelay": true}, null: map[string]bool{}}
			} else {
				b := g.randomAct(flow)
				t, q = b.table(), g.request(&b)
				desc = b.describe()
			}
			q.rawMember = map[string]string{m.member: m.raw}
			intent := "IMember"
			switch m.member { // the Coq request carries the zero value for the refused member
			case "TransactionID":
				q.txid = 0
			case "SenderID":
				q.sender = ""
			case "ReceiverID":
				q.receiver = ""
			case "MessageType":
				q.mtype, intent = "", "IMalformed" // no message type decoded: no answer type, bare error
			case "SenderToken":
				q.senderToken = nil
			}
			g.run(t, q, intent, "base-member-refused", fmt.Sprintf("base-member:%s:%s", m.name, desc), nil)
		}
	}
	{ // HomeNSReq: DevEUI of the wrong kind; a wrong kind in a member HomeNSReq does not have is ignored
		q := &req{sender: "010203", receiver: "0102030405060708", txid: 77, mtype: "HomeNSReq", rawMember: map[string]string{"DevEUI": "12"}, omit: map[string]bool{"RxDelay": true}, null: map[string]bool{}}
		g.run(&table{}, q, "IMember", "member-bad-json-kind", "member:homens:deveui-number", nil)
	}
	// `null` and `{}` are accepted by encoding/json: every field keeps its zero value
	for _, body := range []string{"null", "{}"} {
		q := &req{omit: map[string]bool{"SenderID": true, "ReceiverID": true, "TransactionID": true, "MessageType": true, "RxDelay": true}, null: map[string]bool{}}
		ans := send(a.table().handler(), body)
		rp := map[string]interface{}{"body": body, "observed": ans.summary()}
		g.s.Add(casesCase(fmt.Sprintf("CReq %s %s %s IMalformed PAll", a.table().coq(), q.coq(), ans.coq()), "bad-json:"+body, "bad-json", rp))
	}
}

func (g *G) homeNS(thorough bool) {
	r := g.r
	n := 2
	if thorough {
		n = 20
	}
	for i := 0; i < n; i++ {
		for k := 0; k < 4; k++ {
			var eui [8]byte
			copy(eui[:], r.Bytes(8))
			t := &table{}
			name := "absent"
			if k < 3 {
				h := homeEntry{eui: eui, kind: k}
				copy(h.netID[:], r.Bytes(3))
				t.home = append(t.home, h)
				name = []string{"found", "not-found", "error"}[k]
			}
			q := &req{sender: hex.EncodeToString(r.Bytes(3)), receiver: hex.EncodeToString(r.Bytes(8)), txid: r.U32(), mtype: "HomeNSReq",
				devEUI: sp(g.hexText(eui[:], true)), omit: map[string]bool{"RxDelay": true}, null: map[string]bool{}}
			g.run(t, q, "INone", "homens", fmt.Sprintf("homens:%s:dev=%x", name, eui), nil)
		}
	}
	q := &req{sender: "010203", receiver: "0102030405060708", txid: 9, mtype: "HomeNSReq", devEUI: sp("01020304050607"), omit: map[string]bool{"RxDelay": true}, null: map[string]bool{}}
	g.run(&table{}, q, "IMember", "homens", "homens:deveui-7-bytes", nil)
}
