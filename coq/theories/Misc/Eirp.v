(* Model of /repo/eirp.go over exact rationals (a finite float32 is a dyadic
   rational; NaN and the infinities are outside the model and are exercised
   on the Go side only).  The table is LWGen.EirpGen.eirp_table, read through
   GetTXParamSetupEIRP on every run.

     func GetTXParamSetupEIRPIndex(eirp float32) uint8 {
         var out uint8
         for i, e := range eirpTable { if e > eirp { return out }; out = uint8(i) }
         return out }
     func GetTXParamSetupEIRP(index uint8) (float32, error) {
         if int(index) > len(eirpTable)-1 { return 0, err }; return eirpTable[index], nil } *)
From Coq Require Import List NArith ZArith QArith Bool.
From LW Require Import Base.Outcome.
From LWGen Require Import EirpGen.
Import ListNotations.

Definition qlt (a b : Q) : bool := negb (Qle_bool b a).

Fixpoint eirp_loop (tbl : list Q) (i out : N) (p : Q) : N :=
  match tbl with
  | [] => out
  | e :: r => if qlt p e then out else eirp_loop r (i + 1)%N (i mod 256)%N p
  end.

Definition eirp_index_of (tbl : list Q) (p : Q) : N := eirp_loop tbl 0%N 0%N p.
Definition eirp_index (p : Q) : N := eirp_index_of eirp_table p.

Definition eirp_value_of (tbl : list Q) (idx : N) : outcome Q :=
  if (Z.of_nat (length tbl) - 1 <? Z.of_N idx)%Z then Err
  else match nth_error tbl (N.to_nat idx) with Some v => Ok v | None => Panic end.
Definition eirp_value (idx : N) : outcome Q := eirp_value_of eirp_table idx.

(* LoRaWAN 1.0.2+/1.1 TXParamSetupReq: coded EIRP value -> dBm *)
Definition lorawan_eirp_table : list Q :=
  [8; 10; 12; 13; 14; 16; 18; 20; 21; 24; 26; 27; 29; 30; 33; 36]%Q.
