package main

import (
	"encoding/hex"
	"fmt"
)

// sizeLadder: the request is a DOCUMENT; the Backend Interfaces allow pass-through content of any size in
// it (SenderToken / ReceiverToken, VSExtension.Object) and JSON allows unknown members and insignificant
// whitespace.  The same valid request is padded to exact total sizes well beyond the typical ~500 bytes,
// for every flow; the model ignores that content (a valid-hex SenderToken is checked and dropped), so
// the answer must be the answer to the small request - ordinary cases with the full oracle.
func (g *G) sizeLadder(thorough bool) {
	sizes := []int{1 << 10, 4095, 4096, 4097, 8 << 10, 64 << 10, 1 << 20}
	if thorough {
		sizes = append(sizes, 16<<20, 2047, 2048, 2049, 16383, 16384, 16385, 65535, 65537)
	}
	methods := []int{padToken, padVSExtension, padUnknown, padWhitespace}
	names := []string{"token", "vsextension", "unknown-members", "whitespace"}
	flows := []struct {
		name   string
		kind   int
		optneg bool
	}{{"join10", kJoin, false}, {"join11", kJoin, true}, {"rejoin0", kRejoin0, true}, {"rejoin1", kRejoin1, true}, {"rejoin2", kRejoin2, true}, {"homens", -1, false}}
	for fi, fl := range flows {
		for si, size := range sizes {
			ms := []int{methods[(fi+si)%4]} // quick: every (size, method) pair is hit by some flow
			if thorough && size <= 1<<20 {
				ms = methods
			}
			for _, m := range ms {
				prefix := fmt.Sprintf("size=%d:pad=%s:", size, names[m])
				if fl.kind < 0 {
					var eui [8]byte
					copy(eui[:], g.r.Bytes(8))
					h := homeEntry{eui: eui, kind: found}
					copy(h.netID[:], g.r.Bytes(3))
					t := &table{home: []homeEntry{h}}
					q := &req{sender: hex.EncodeToString(g.r.Bytes(3)), receiver: hex.EncodeToString(g.r.Bytes(8)), txid: g.r.U32(), mtype: "HomeNSReq",
						devEUI: sp(hex.EncodeToString(eui[:])), omit: map[string]bool{"RxDelay": true}, null: map[string]bool{}}
					q.padTo(m, size)
					ans := g.run(t, q, "INone", "size-ladder", prefix+fmt.Sprintf("homens:dev=%x", eui), nil)
					if ans.rc != "Success" { // INone only demands mirroring: a HomeNSReq of a known device must also succeed
						g.s.Fail(casesFail("size-ladder:"+prefix+"homens", fmt.Sprintf("HomeNSReq of %d bytes for a known device answered %d %q", size, ans.status, ans.rc), q.replayBody(q.body())))
					}
					continue
				}
				a := g.randomAct(fl.kind)
				a.dls &= 0x7f
				if fl.optneg {
					a.dls |= 0x80
				}
				a.padMethod, a.padTotal = m, size
				t := a.table()
				g.activationOn(t.handler(), t, &a, "size-ladder", prefix, nil)
			}
		}
	}
}
