#!/bin/bash
# tools/coverage.sh [tier]  — which statements of /repo do the correspondence harnesses execute?
# Builds every harness with `go build -cover -coverpkg=all`, runs it (default: quick tier, seed 1) with
# GOCOVERDIR, merges the counters and prints the per-function table for github.com/brocaar/lorawan/...
# A blind spot of the correspondence run shows up here as a function or block with 0 hits.
set -u
export GOFLAGS=-mod=mod GOPROXY=off GOSUMDB=off GOTOOLCHAIN=local
TIER=${1:-quick}
W=$(mktemp -d /tmp/verifcov.XXXXXX)
cd /verif/harness
for d in cmd/c??; do
  c=$(basename $d)
  go build -tags verif -cover -coverpkg=all -o $W/$c ./$d 2>&1 | tail -2
  mkdir -p $W/data/$c
  GOCOVERDIR=$W/data/$c timeout 1500 $W/$c $W/out/$c 1 $TIER >/dev/null 2>&1 || echo "$c exited with $?"
done
cd $W && go tool covdata textfmt -i=$(ls -d data/* | tr '\n' ',' | sed 's/,$//') -pkg=github.com/brocaar/lorawan/... -o all.txt
(cd /repo && go tool cover -func=$W/all.txt) | sort -k3 -n
rm -rf $W
