// Package cq prints Go values as Gallina terms and provides the single
// seeded PRNG every harness derives its random choices from.
package cq

import (
	"fmt"
	"strings"
)

// N prints a natural number (N_scope is open in case files).
func N(x uint64) string { return fmt.Sprintf("%d", x) }

// Z prints an integer with explicit scope.
func Z(x int64) string {
	if x < 0 {
		return fmt.Sprintf("(%d)%%Z", x)
	}
	return fmt.Sprintf("%d%%Z", x)
}

func Bool(b bool) string {
	if b {
		return "true"
	}
	return "false"
}

func List(items []string) string { return "[" + strings.Join(items, "; ") + "]" }

func Bytes(b []byte) string {
	s := make([]string, len(b))
	for i, v := range b {
		s[i] = fmt.Sprintf("%d", v)
	}
	return List(s)
}

func Ns(xs []uint64) string {
	s := make([]string, len(xs))
	for i, v := range xs {
		s[i] = N(v)
	}
	return List(s)
}

func Zs(xs []int64) string {
	s := make([]string, len(xs))
	for i, v := range xs {
		s[i] = Z(v)
	}
	return List(s)
}

func Ints(xs []int) string {
	s := make([]string, len(xs))
	for i, v := range xs {
		s[i] = Z(int64(v))
	}
	return List(s)
}

func Some(s string) string { return "(Some " + s + ")" }

const None = "None"

func Tuple(items ...string) string { return "(" + strings.Join(items, ", ") + ")" }

// Outcome constructors of LW.Base.Outcome.
func Ok(s string) string { return "(Ok " + s + ")" }

const (
	Err   = "Err"
	Panic = "Panic"
)

// Str prints a Go string as list of byte codes.
func Str(s string) string { return Bytes([]byte(s)) }

// RNG is SplitMix64.
type RNG struct{ s uint64 }

func NewRNG(seed uint64) *RNG { return &RNG{s: seed*0x9E3779B97F4A7C15 + 0x1234567} }

func (r *RNG) U64() uint64 {
	r.s += 0x9E3779B97F4A7C15
	z := r.s
	z = (z ^ (z >> 30)) * 0xBF58476D1CE4E5B9
	z = (z ^ (z >> 27)) * 0x94D049BB133111EB
	return z ^ (z >> 31)
}

func (r *RNG) Intn(n int) int {
	if n <= 0 {
		return 0
	}
	return int(r.U64() % uint64(n))
}
func (r *RNG) U32() uint32 { return uint32(r.U64()) }
func (r *RNG) Byte() byte  { return byte(r.U64()) }
func (r *RNG) Bool() bool  { return r.U64()&1 == 1 }
func (r *RNG) Bytes(n int) []byte {
	b := make([]byte, n)
	for i := range b {
		b[i] = r.Byte()
	}
	return b
}

// Pick returns one of the given values.
func (r *RNG) PickU32(xs ...uint32) uint32 { return xs[r.Intn(len(xs))] }

// Fork derives an independent stream.
func (r *RNG) Fork() *RNG { return &RNG{s: r.U64()} }
