// Transport section (Go side): the synchronous backend client (backend/client.go) against a test server on
// loopback.  Requests and answers are the reflect-filled values of the struct generator; the server records the
// body it received and returns a prepared answer, written in one of several ways.  Keys client:<method>:<variant>.
package main

import (
	"bytes"
	"compress/gzip"
	"context"
	"crypto/tls"
	"crypto/x509"
	"encoding/json"
	"encoding/pem"
	"fmt"
	"io/ioutil"
	"log"
	"math"
	"net/http"
	"net/http/httptest"
	"os"
	"path/filepath"
	"reflect"
	"strconv"
	"strings"
	"sync"
	"time"

	"github.com/brocaar/lorawan/backend"
	"verifharness/internal/cases"
	"verifharness/internal/cq"
)

const (
	peerSender   = "010203"
	peerReceiver = "0a0b0c0d0e0f1011"
	peerAuth     = "Bearer verif-token"
)

// peer is the test server: it answers every POST with the prepared response and keeps what it received.
type peer struct {
	mu     sync.Mutex
	status int
	body   []byte
	mode   string
	// the last request
	got       []byte
	gotCT     string
	gotAuth   string
	gotAE     string
	gotMethod string
	served    int
	gzipped   int
	tlsCerts  int // client certificates presented on the last TLS request
}

var writeModes = []string{"one-write", "content-length-header", "two-writes-with-flush", "1k-chunks-flushed", "gzip-if-accepted"}

func (p *peer) ServeHTTP(w http.ResponseWriter, r *http.Request) {
	b, _ := ioutil.ReadAll(r.Body)
	p.mu.Lock()
	p.got, p.gotCT, p.gotAuth, p.gotAE, p.gotMethod = b, r.Header.Get("Content-Type"), r.Header.Get("Authorization"), r.Header.Get("Accept-Encoding"), r.Method
	p.served++
	p.tlsCerts = 0
	if r.TLS != nil {
		p.tlsCerts = len(r.TLS.PeerCertificates)
	}
	status, body, mode := p.status, p.body, p.mode
	p.mu.Unlock()
	fl, _ := w.(http.Flusher)
	switch mode {
	case "content-length-header":
		w.Header().Set("Content-Length", strconv.Itoa(len(body)))
		w.WriteHeader(status)
		w.Write(body)
	case "two-writes-with-flush":
		w.WriteHeader(status)
		h := len(body) / 2
		w.Write(body[:h])
		if fl != nil {
			fl.Flush()
		}
		w.Write(body[h:])
	case "1k-chunks-flushed":
		w.WriteHeader(status)
		for i := 0; i < len(body); i += 1024 {
			j := i + 1024
			if j > len(body) {
				j = len(body)
			}
			w.Write(body[i:j])
			if fl != nil {
				fl.Flush()
			}
		}
	case "gzip-if-accepted":
		if strings.Contains(r.Header.Get("Accept-Encoding"), "gzip") {
			w.Header().Set("Content-Encoding", "gzip")
			w.WriteHeader(status)
			gz := gzip.NewWriter(w)
			gz.Write(body)
			gz.Close()
			p.mu.Lock()
			p.gzipped++
			p.mu.Unlock()
		} else {
			w.WriteHeader(status)
			w.Write(body)
		}
	case "short-body": // fewer bytes than the Content-Length header announces: the connection is cut
		w.Header().Set("Content-Length", strconv.Itoa(len(body)+10))
		w.WriteHeader(status)
		w.Write(body)
	default: // one-write
		w.WriteHeader(status)
		w.Write(body)
	}
}

func (p *peer) prepare(status int, body []byte, mode string) {
	p.mu.Lock()
	p.status, p.body, p.mode, p.got = status, body, mode, nil
	p.mu.Unlock()
}

func (p *peer) received() (body []byte, ct, auth string) {
	p.mu.Lock()
	defer p.mu.Unlock()
	return p.got, p.gotCT, p.gotAuth
}

var resultCodes = []backend.ResultCode{backend.Success, backend.MICFailed, backend.JoinReqFailed, backend.NoRoamingAgreement, backend.DevRoamingDisallowed,
	backend.RoamingActDisallowed, backend.ActivationDisallowed, backend.UnknownDevEUI, backend.UnknownDevAddr, backend.UnknownSender, backend.UnknownReceiver,
	backend.Deferred, backend.XmitFailed, backend.InvalidFPort, backend.InvalidProtocolVersion, backend.StaleDeviceProfile, backend.MalformedRequest,
	backend.FrameSizeError, backend.Other,
	// the spellings of the Backend Interfaces specification where the package constants differ
	"UnknownReceiver", "RoamingActDisallowed"}

// clientMethod: one request method of the client with its request / answer types.
type clientMethod struct {
	name string
	msg  backend.MessageType
	req  reflect.Type
	ans  reflect.Type
	call func(c backend.Client, ctx context.Context, req reflect.Value) (interface{}, error)
}

func clientMethods() []clientMethod {
	return []clientMethod{
		{"JoinReq", backend.JoinReq, reflect.TypeOf(backend.JoinReqPayload{}), reflect.TypeOf(backend.JoinAnsPayload{}),
			func(c backend.Client, ctx context.Context, r reflect.Value) (interface{}, error) {
				return c.JoinReq(ctx, r.Interface().(backend.JoinReqPayload))
			}},
		{"RejoinReq", backend.RejoinReq, reflect.TypeOf(backend.RejoinReqPayload{}), reflect.TypeOf(backend.RejoinAnsPayload{}),
			func(c backend.Client, ctx context.Context, r reflect.Value) (interface{}, error) {
				return c.RejoinReq(ctx, r.Interface().(backend.RejoinReqPayload))
			}},
		{"PRStartReq", backend.PRStartReq, reflect.TypeOf(backend.PRStartReqPayload{}), reflect.TypeOf(backend.PRStartAnsPayload{}),
			func(c backend.Client, ctx context.Context, r reflect.Value) (interface{}, error) {
				return c.PRStartReq(ctx, r.Interface().(backend.PRStartReqPayload))
			}},
		{"PRStopReq", backend.PRStopReq, reflect.TypeOf(backend.PRStopReqPayload{}), reflect.TypeOf(backend.PRStopAnsPayload{}),
			func(c backend.Client, ctx context.Context, r reflect.Value) (interface{}, error) {
				return c.PRStopReq(ctx, r.Interface().(backend.PRStopReqPayload))
			}},
		{"XmitDataReq", backend.XmitDataReq, reflect.TypeOf(backend.XmitDataReqPayload{}), reflect.TypeOf(backend.XmitDataAnsPayload{}),
			func(c backend.Client, ctx context.Context, r reflect.Value) (interface{}, error) {
				return c.XmitDataReq(ctx, r.Interface().(backend.XmitDataReqPayload))
			}},
		{"ProfileReq", backend.ProfileReq, reflect.TypeOf(backend.ProfileReqPayload{}), reflect.TypeOf(backend.ProfileAnsPayload{}),
			func(c backend.Client, ctx context.Context, r reflect.Value) (interface{}, error) {
				return c.ProfileReq(ctx, r.Interface().(backend.ProfileReqPayload))
			}},
		{"HomeNSReq", backend.HomeNSReq, reflect.TypeOf(backend.HomeNSReqPayload{}), reflect.TypeOf(backend.HomeNSAnsPayload{}),
			func(c backend.Client, ctx context.Context, r reflect.Value) (interface{}, error) {
				return c.HomeNSReq(ctx, r.Interface().(backend.HomeNSReqPayload))
			}},
	}
}

// basePayloadOf returns the (settable) BasePayload inside a pointer to a request or answer value.
func basePayloadOf(v reflect.Value) *backend.BasePayload {
	e := v.Elem()
	if f := e.FieldByName("BasePayloadResult"); f.IsValid() {
		return &f.Addr().Interface().(*backend.BasePayloadResult).BasePayload
	}
	return e.FieldByName("BasePayload").Addr().Interface().(*backend.BasePayload)
}

func resultOf(v reflect.Value) *backend.Result {
	return &v.Elem().FieldByName("BasePayloadResult").Addr().Interface().(*backend.BasePayloadResult).Result
}

// padTo grows Result.Description with ASCII until json.Marshal of the answer has exactly n bytes (when n is larger).
func padTo(v reflect.Value, n int) []byte {
	res := resultOf(v)
	b, _ := json.Marshal(v.Interface())
	if len(b) < n {
		res.Description += strings.Repeat("x", n-len(b))
		b, _ = json.Marshal(v.Interface())
	}
	return b
}

func excerpt(b []byte) string {
	if len(b) > 400 {
		return string(b[:200]) + " ... " + string(b[len(b)-200:])
	}
	return string(b)
}

func transportCases(s *cases.Set, r *cq.RNG, thorough bool) {
	p := &peer{status: 200, mode: "one-write"}
	srv := httptest.NewServer(p) // a free port on loopback
	defer srv.Close()
	cl, err := backend.NewClient(backend.ClientConfig{SenderID: peerSender, ReceiverID: peerReceiver, Server: srv.URL, Authorization: peerAuth})
	if err != nil {
		s.Fail(cases.GoFail{Key: "client:new", What: "backend.NewClient fails: " + err.Error(), Replay: map[string]interface{}{"api": "backend.NewClient"}})
		return
	}
	calls := 0
	fail := func(key, what string, rp map[string]interface{}) {
		s.Fail(cases.GoFail{Key: key, What: what, Replay: rp})
	}

	// one request / answer exchange
	exchange := func(m clientMethod, variant string, req, ans reflect.Value, status int, ansBody []byte, mode string, zeroTID bool) {
		key := fmt.Sprintf("client:%s:%s", m.name, variant)
		rp := map[string]interface{}{"api": "backend.Client." + m.name + " against httptest.Server", "variant": variant, "status": status, "write_mode": mode,
			"answer_bytes": len(ansBody), "answer_excerpt": excerpt(ansBody)}
		if zeroTID {
			basePayloadOf(req).TransactionID = 0
		} else if basePayloadOf(req).TransactionID == 0 {
			basePayloadOf(req).TransactionID = 1
		}
		p.prepare(status, ansBody, mode)
		ctx, cancel := context.WithTimeout(context.Background(), 10*time.Second)
		cases.Begin(key, rp)
		got, err := m.call(cl, ctx, req.Elem())
		cases.End()
		cancel()
		calls++
		body, ct, auth := p.received()
		// (a) what the server received is the request that was sent, with the fields the client fills in
		want := reflect.New(m.req)
		want.Elem().Set(req.Elem())
		bp := basePayloadOf(want)
		bp.ProtocolVersion, bp.SenderID, bp.ReceiverID, bp.MessageType = backend.ProtocolVersion1_0, peerSender, peerReceiver, m.msg
		recv := reflect.New(m.req)
		if uerr := json.Unmarshal(body, recv.Interface()); uerr != nil {
			fail(key+":request", "the request body the server received is not a "+m.req.Name()+": "+uerr.Error(), rp)
		} else {
			if zeroTID { // a random TransactionID was drawn by the client
				bp.TransactionID = basePayloadOf(recv).TransactionID
			}
			wantBytes, _ := json.Marshal(want.Elem().Interface())
			if !same(want.Elem(), recv.Elem()) {
				fail(key+":request", "the request the server received differs from the request passed to the client", rp)
			} else if !bytes.Equal(wantBytes, body) {
				fail(key+":request", "the request body is not json.Marshal of the request", rp)
			}
		}
		if ct != "application/json" || auth != peerAuth {
			fail(key+":headers", fmt.Sprintf("Content-Type %q / Authorization %q", ct, auth), rp)
		}
		// (b) the answer the client returns is the answer the server sent
		if ans.IsValid() {
			code := resultOf(ans).ResultCode
			gv := reflect.ValueOf(got)
			if !same(ans.Elem(), gv) {
				what := "the answer returned by the client differs from the answer the server sent"
				if err != nil {
					what += " (error: " + err.Error() + ")"
				}
				fail(key+":answer", what, rp)
			}
			if (err == nil) != (code == backend.Success) {
				fail(key+":error", fmt.Sprintf("ResultCode %q but the client returned error %v", code, err), rp)
			}
		} else if err == nil { // the body was no JSON document: the client must say so
			fail(key+":error", "the server answered with a body that is no JSON document and the client returned no error", rp)
		}
	}

	fullF := filler{r: r, full: true, small: true}
	randF := filler{r: r, small: true}
	newFilled := func(t reflect.Type, f filler) reflect.Value {
		v := reflect.New(t)
		f.fill(v.Elem())
		return v
	}
	ladder := []int{0, 2047, 2048, 2049, 4095, 4096, 4097, 5000, 65536}
	for _, m := range clientMethods() {
		// every ResultCode, the message specific fields populated and random
		for ci, code := range resultCodes {
			for k := 0; k < 2; k++ {
				f := fullF
				if k == 1 {
					f = randF
				}
				req, ans := newFilled(m.req, f), newFilled(m.ans, f)
				resultOf(ans).ResultCode = code
				b, _ := json.Marshal(ans.Interface())
				exchange(m, fmt.Sprintf("result=%s:fill=%d", code, k), req, ans, 200, b, writeModes[(ci+k)%len(writeModes)], ci%5 == 4)
			}
		}
		// answer sizes x the ways the server writes them
		for _, n := range ladder {
			for _, mode := range writeModes {
				if !thorough && n > 5000 && mode != "one-write" && mode != "gzip-if-accepted" {
					continue
				}
				req, ans := newFilled(m.req, randF), newFilled(m.ans, fullF)
				resultOf(ans).ResultCode = backend.Success
				b := padTo(ans, n)
				exchange(m, fmt.Sprintf("size=%d:%s", len(b), mode), req, ans, 200, b, mode, false)
			}
		}
		// status codes: the synchronous client reads the body whatever the status is
		for _, st := range []int{200, 201, 400, 401, 404, 500, 503} {
			req, ans := newFilled(m.req, randF), newFilled(m.ans, fullF)
			resultOf(ans).ResultCode = []backend.ResultCode{backend.Success, backend.Other}[st%2]
			b, _ := json.Marshal(ans.Interface())
			exchange(m, fmt.Sprintf("status=%d:answer-body", st), req, ans, st, b, "one-write", false)
			exchange(m, fmt.Sprintf("status=%d:text-body", st), newFilled(m.req, randF), reflect.Value{}, st, []byte("upstream says no"), "one-write", false)
		}
		exchange(m, "empty-body", newFilled(m.req, randF), reflect.Value{}, 200, nil, "one-write", false)
		exchange(m, "truncated-body", newFilled(m.req, randF), reflect.Value{}, 200, []byte(`{"ProtocolVersion":"1.0","Result":{"ResultCode":"Succ`), "content-length-header", false)
	}
	// many gateways: a long answer built from elements, not from padding
	for _, m := range clientMethods() {
		if m.name != "PRStartReq" && m.name != "XmitDataReq" {
			continue
		}
		for _, mode := range writeModes {
			req := newFilled(m.req, fullF)
			if m.name == "XmitDataReq" {
				x := req.Interface().(*backend.XmitDataReqPayload)
				for i := 0; i < 40; i++ {
					x.ULMetaData.GWInfo = append(x.ULMetaData.GWInfo, *newFilled(reflect.TypeOf(backend.GWInfoElement{}), fullF).Interface().(*backend.GWInfoElement))
				}
			}
			ans := newFilled(m.ans, fullF)
			resultOf(ans).ResultCode = backend.Success
			if m.name == "PRStartReq" {
				x := ans.Interface().(*backend.PRStartAnsPayload)
				for i := 0; i < 60; i++ {
					x.DLMetaData.GWInfo = append(x.DLMetaData.GWInfo, *newFilled(reflect.TypeOf(backend.GWInfoElement{}), fullF).Interface().(*backend.GWInfoElement))
				}
			}
			b, _ := json.Marshal(ans.Interface())
			exchange(m, fmt.Sprintf("many-gateways:%d-bytes:%s", len(b), mode), req, ans, 200, b, mode, false)
		}
	}

	// SendAnswer: every answer payload type x every ResultCode, message specific fields populated
	ansTypes := []interface{}{backend.JoinAnsPayload{}, backend.RejoinAnsPayload{}, backend.AppSKeyAnsPayload{}, backend.PRStartAnsPayload{}, backend.PRStopAnsPayload{},
		backend.HRStartAnsPayload{}, backend.HRStopAnsPayload{}, backend.HomeNSAnsPayload{}, backend.ProfileAnsPayload{}, backend.XmitDataAnsPayload{}}
	sendMode := "one-write"
	sendAnswer := func(variant string, ans reflect.Value, status int) {
		key := "client:SendAnswer:" + variant
		want, _ := json.Marshal(ans.Interface())
		rp := map[string]interface{}{"api": "backend.Client.SendAnswer against httptest.Server", "variant": variant, "status": status, "answer_excerpt": excerpt(want)}
		p.prepare(status, []byte("peer text"), sendMode)
		ctx, cancel := context.WithTimeout(context.Background(), 10*time.Second)
		cases.Begin(key, rp)
		err := cl.SendAnswer(ctx, ans.Elem().Interface().(backend.Answer))
		cases.End()
		cancel()
		calls++
		body, ct, auth := p.received()
		// (c) the body is json.Marshal of the answer and decodes to it
		recv := reflect.New(ans.Elem().Type())
		if uerr := json.Unmarshal(body, recv.Interface()); uerr != nil {
			fail(key+":body", "the body the server received is not a "+ans.Elem().Type().Name()+": "+uerr.Error(), rp)
		} else if !same(ans.Elem(), recv.Elem()) {
			fail(key+":body", "the answer the server received differs from the answer passed to SendAnswer (fields lost or changed)", rp)
		} else if !bytes.Equal(want, body) {
			fail(key+":body", "the body is not json.Marshal of the answer", rp)
		}
		if ct != "application/json" || auth != peerAuth {
			fail(key+":headers", fmt.Sprintf("Content-Type %q / Authorization %q", ct, auth), rp)
		}
		if (err == nil) != (status == 200) {
			fail(key+":error", fmt.Sprintf("status %d but SendAnswer returned error %v", status, err), rp)
		}
		if err != nil && sendMode == "one-write" && !strings.Contains(err.Error(), "peer text") {
			fail(key+":error", "the error of SendAnswer does not carry the body of the response: "+err.Error(), rp)
		}
	}
	for _, at := range ansTypes {
		t := reflect.TypeOf(at)
		for _, code := range resultCodes {
			for k := 0; k < 2; k++ {
				f := fullF
				if k == 1 {
					f = randF
				}
				ans := newFilled(t, f)
				resultOf(ans).ResultCode = code
				sendAnswer(fmt.Sprintf("%s:result=%s:fill=%d", t.Name(), code, k), ans, 200)
			}
		}
		for _, st := range []int{201, 202, 400, 401, 404, 500, 503} { // (204 cannot carry a body)
			ans := newFilled(t, fullF)
			sendAnswer(fmt.Sprintf("%s:status=%d", t.Name(), st), ans, st)
		}
		big := newFilled(t, fullF)
		padTo(big, 70000)
		sendAnswer(t.Name()+":70000-bytes", big, 200)
	}
	// error paths: a response cut short, values json.Marshal refuses, a server address that is no URL
	for _, m := range clientMethods() {
		ans := newFilled(m.ans, fullF)
		b, _ := json.Marshal(ans.Interface())
		exchange(m, "response-cut-short", newFilled(m.req, randF), reflect.Value{}, 200, b, "short-body", false)
	}
	sendMode = "short-body"
	sendAnswer("PRStopAnsPayload:status=500:response-cut-short", newFilled(reflect.TypeOf(backend.PRStopAnsPayload{}), fullF), 500)
	sendMode = "one-write"
	{
		nan := math.NaN()
		before := p.served
		ctx, cancel := context.WithTimeout(context.Background(), 5*time.Second)
		cases.Begin("client:XmitDataReq:unmarshalable-request", map[string]interface{}{"api": "backend.Client.XmitDataReq / SendAnswer with a NaN float"})
		_, e1 := cl.XmitDataReq(ctx, backend.XmitDataReqPayload{ULMetaData: &backend.ULMetaData{ULFreq: &nan}})
		e2 := cl.SendAnswer(ctx, backend.XmitDataAnsPayload{DLFreq1: &nan})
		cases.End()
		cancel()
		if e1 == nil || e2 == nil || p.served != before {
			fail("client:XmitDataReq:unmarshalable-request", fmt.Sprintf("a payload json.Marshal refuses (NaN) must be an error before anything is sent: %v / %v, requests sent: %d", e1, e2, p.served-before), map[string]interface{}{"api": "backend.Client with NaN"})
		}
		bad, _ := backend.NewClient(backend.ClientConfig{SenderID: peerSender, ReceiverID: peerReceiver, Server: "http://[::1"})
		ctx, cancel = context.WithTimeout(context.Background(), 5*time.Second)
		cases.Begin("client:HomeNSReq:server-is-no-url", map[string]interface{}{"api": "backend.Client with Server \"http://[::1\""})
		_, e3 := bad.HomeNSReq(ctx, backend.HomeNSReqPayload{})
		e4 := bad.SendAnswer(ctx, backend.HomeNSAnsPayload{})
		cases.End()
		cancel()
		if e3 == nil || e4 == nil {
			fail("client:HomeNSReq:server-is-no-url", "no error from a client whose server address is no URL", map[string]interface{}{"api": "backend.Client with a bad Server"})
		}
	}
	// the same exchanges over TLS, with the CACert / TLSCert / TLSKey options of ClientConfig (another http.Transport)
	plain := cl
	func() {
		tsrv := httptest.NewUnstartedServer(p)
		tsrv.TLS = &tls.Config{ClientAuth: tls.RequestClientCert}
		tsrv.Config.ErrorLog = log.New(ioutil.Discard, "", 0) // the refused handshake below is expected
		tsrv.StartTLS()
		defer tsrv.Close()
		dir, err := ioutil.TempDir("", "c17tls")
		if err != nil {
			return
		}
		defer os.RemoveAll(dir)
		caPath, certPath, keyPath := filepath.Join(dir, "ca.pem"), filepath.Join(dir, "cert.pem"), filepath.Join(dir, "key.pem")
		certPEM := pem.EncodeToMemory(&pem.Block{Type: "CERTIFICATE", Bytes: tsrv.Certificate().Raw})
		keyDER, kerr := x509.MarshalPKCS8PrivateKey(tsrv.TLS.Certificates[0].PrivateKey)
		if kerr != nil {
			return
		}
		ioutil.WriteFile(caPath, certPEM, 0o600)
		ioutil.WriteFile(certPath, certPEM, 0o600)
		ioutil.WriteFile(keyPath, pem.EncodeToMemory(&pem.Block{Type: "PRIVATE KEY", Bytes: keyDER}), 0o600)
		ioutil.WriteFile(filepath.Join(dir, "garbage.pem"), []byte("not a certificate"), 0o600)
		tcl, terr := backend.NewClient(backend.ClientConfig{SenderID: peerSender, ReceiverID: peerReceiver, Server: tsrv.URL, Authorization: peerAuth,
			CACert: caPath, TLSCert: certPath, TLSKey: keyPath})
		if terr != nil {
			fail("client:new:tls", "backend.NewClient with CACert / TLSCert / TLSKey fails: "+terr.Error(), map[string]interface{}{"api": "backend.NewClient"})
			return
		}
		cl = tcl
		for _, m := range clientMethods() {
			for i, n := range []int{0, 5000, 65536} {
				req, ans := newFilled(m.req, randF), newFilled(m.ans, fullF)
				resultOf(ans).ResultCode = resultCodes[(i*7)%len(resultCodes)]
				b := padTo(ans, n)
				mode := writeModes[(i+2)%len(writeModes)]
				exchange(m, fmt.Sprintf("tls:size=%d:%s", len(b), mode), req, ans, 200, b, mode, false)
				p.mu.Lock()
				nc := p.tlsCerts
				p.mu.Unlock()
				if nc == 0 {
					fail("client:"+m.name+":tls:client-certificate", "the client configured with TLSCert / TLSKey presented no certificate", map[string]interface{}{"api": "backend.NewClient TLSCert/TLSKey"})
				}
			}
		}
		for _, at := range ansTypes {
			ans := newFilled(reflect.TypeOf(at), fullF)
			resultOf(ans).ResultCode = backend.Other
			sendAnswer("tls:"+reflect.TypeOf(at).Name()+":result=Other", ans, 200)
		}
		// options that cannot work are refused by NewClient
		for name, cfg := range map[string]backend.ClientConfig{
			"ca-file-missing":  {Server: tsrv.URL, CACert: filepath.Join(dir, "missing.pem")},
			"ca-file-garbage":  {Server: tsrv.URL, CACert: filepath.Join(dir, "garbage.pem")},
			"key-pair-garbage": {Server: tsrv.URL, TLSCert: filepath.Join(dir, "garbage.pem"), TLSKey: keyPath},
			"key-file-missing": {Server: tsrv.URL, TLSCert: certPath, TLSKey: filepath.Join(dir, "missing.pem")},
		} {
			cases.Begin("client:new:"+name, map[string]interface{}{"api": "backend.NewClient", "variant": name})
			_, e := backend.NewClient(cfg)
			cases.End()
			if e == nil {
				fail("client:new:"+name, "backend.NewClient accepts TLS options that cannot be loaded", map[string]interface{}{"api": "backend.NewClient", "variant": name})
			}
		}
		// a client that does not know the CA must not talk to the server
		ucl, _ := backend.NewClient(backend.ClientConfig{SenderID: peerSender, ReceiverID: peerReceiver, Server: tsrv.URL})
		ctx, cancel := context.WithTimeout(context.Background(), 5*time.Second)
		cases.Begin("client:PRStopReq:tls:unknown-ca", map[string]interface{}{"api": "backend.Client.PRStopReq to a TLS server whose CA is not configured"})
		_, e := ucl.PRStopReq(ctx, backend.PRStopReqPayload{})
		cases.End()
		cancel()
		if e == nil {
			fail("client:PRStopReq:tls:unknown-ca", "a client without the CA certificate completed a request to the TLS server", map[string]interface{}{"api": "backend.Client over TLS"})
		}
	}()
	cl = plain
	// the accessors of the client
	cases.Begin("client:accessors", map[string]interface{}{"api": "backend.Client GetSenderID/GetReceiverID/IsAsync/GetRandomTransactionID/HandleAnswer"})
	sid, rid, async := cl.GetSenderID(), cl.GetReceiverID(), cl.IsAsync()
	t1, t2, t3 := cl.GetRandomTransactionID(), cl.GetRandomTransactionID(), cl.GetRandomTransactionID()
	herr := cl.HandleAnswer(context.Background(), backend.PRStopAnsPayload{})
	cases.End()
	if sid != peerSender || rid != peerReceiver || async || (t1 == t2 && t2 == t3) || herr == nil {
		fail("client:accessors", fmt.Sprintf("GetSenderID %q GetReceiverID %q IsAsync %v transaction ids %d %d %d HandleAnswer without redis: %v", sid, rid, async, t1, t2, t3, herr), map[string]interface{}{"api": "backend.Client accessors"})
	}
	// an unreachable peer is an error, not a hang
	{
		dead := httptest.NewServer(p)
		url := dead.URL
		dead.Close()
		dc, _ := backend.NewClient(backend.ClientConfig{SenderID: peerSender, ReceiverID: peerReceiver, Server: url})
		ctx, cancel := context.WithTimeout(context.Background(), 5*time.Second)
		cases.Begin("client:HomeNSReq:peer-closed", map[string]interface{}{"api": "backend.Client.HomeNSReq against a closed server"})
		_, e1 := dc.HomeNSReq(ctx, backend.HomeNSReqPayload{})
		e2 := dc.SendAnswer(ctx, backend.HomeNSAnsPayload{})
		cases.End()
		cancel()
		if e1 == nil || e2 == nil {
			fail("client:HomeNSReq:peer-closed", "no error from a client whose peer does not listen", map[string]interface{}{"api": "backend.Client against a closed server"})
		}
	}
	p.mu.Lock()
	s.Extra["client_calls_against_test_server"] = calls
	s.Extra["client_requests_served"] = p.served
	s.Extra["client_answers_gzip_encoded"] = p.gzipped
	s.Extra["client_accept_encoding_header_seen"] = p.gotAE
	p.mu.Unlock()
	s.Exhaustive("client: every request method (JoinReq, RejoinReq, PRStartReq, PRStopReq, XmitDataReq, ProfileReq, HomeNSReq) and SendAnswer with every answer payload type x every ResultCode (Success and the 18 failure codes), message specific fields populated, through a test server on loopback; answers of 2047/2048/2049/4095/4096/4097/5000/65536 bytes written in one Write, with a Content-Length header, in two Writes with a Flush, in flushed 1 KiB chunks and gzip-encoded; status 200, 201, 400, 401, 404, 500, 503 (Go side)")
}
