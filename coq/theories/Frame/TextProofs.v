(* C01, text form: every specification-valid frame encodes to base64 text that decodes to the
   frame's wire view; C09: the text decoder gives a value or an error on every string. *)
From Coq Require Import List NArith ZArith Bool Lia Arith.
From LW Require Import Base.Outcome Base.Bytes Crypto.AESInv Mac.Commands Mac.Spec Mac.Stream
     Frame.Model Frame.Spec Frame.Checked Frame.TotalProofs Sec.FrameLemmas Sec.JoinAcceptProofs Frame.RoundtripProofs
     Text.Base64 Text.Base64Proofs Frame.Text.
Import ListNotations.
Open Scope N_scope.

Lemma mhdr_byte mt mj : mt < 8 -> byte (mhdr_marshal mt mj).
Proof.
  intros H. unfold byte. apply N.ltb_lt.
  assert (E : mhdr_marshal mt mj = mhdr_marshal mt (N.land mj 3)).
  { unfold mhdr_marshal. now rewrite <- N.land_assoc. }
  rewrite E. assert (L : N.land mj 3 < 4). { change 3 with (N.ones 2). rewrite N.land_ones. apply N.mod_lt. discriminate. }
  apply (Mac.ByteLemmas.sweep2 8 4 (fun a b => mhdr_marshal a b <? 256)); [vm_compute; reflexivity|exact H|exact L].
Qed.

Ltac id_bytes :=
  match goal with X : id_ok _ ?l = true |- Forall byte ?l => exact (proj2 (id_ok_inv _ _ X)) end.
Ltac bytes_tac :=
  repeat first
    [ apply Forall_nil
    | apply Forall_app; split
    | apply le_bytes_ok
    | apply Forall_byte_rev; id_bytes
    | id_bytes
    | apply Forall_cons; [unfold byte; first [apply N.mod_lt; discriminate | lia | assumption]|] ].

Lemma payload_bytes p body : spec_valid p = true -> payload_marshal (pl p) = Ok body -> Forall byte body.
Proof.
  destruct p as [mt mj pl mc]. unfold spec_valid. cbn [Model.pl mtype major mic]. intros H Hb.
  apply andb_true_iff in H as [_ Hpl].
  destruct pl as [je de dn|jn nid da o rx2 rx1 rxd cfl|ty nid de rc|ty je de rc|m|d|]; [..|discriminate Hpl].
  - repeat (apply andb_true_iff in Hpl; destruct Hpl as [Hpl ?]).
    cbn [payload_marshal] in Hb. injection Hb as <-.
    bytes_tac.
  - apply andb_true_iff in Hpl as [Hpl Hcf]. apply andb_true_iff in Hpl as [Hpl Hrxd]. apply andb_true_iff in Hpl as [Hpl Hrx1].
    apply andb_true_iff in Hpl as [Hpl Hrx2]. apply andb_true_iff in Hpl as [Hpl Hda]. apply andb_true_iff in Hpl as [Hpl Hnid].
    apply andb_true_iff in Hpl as [Hmt Hjn].
    apply N.ltb_lt in Hrxd, Hrx1, Hrx2, Hjn. change (2 ^ 24) with 16777216 in Hjn.
    destruct (ja_valid_marshal jn nid da o rx2 rx1 rxd cfl Hjn Hrx2 Hrx1 Hrxd Hcf) as (dl & cf & _ & Bd & _ & _ & Bcf & _ & E).
    rewrite E in Hb. injection Hb as <-.
    unfold byte in Bd. bytes_tac; exact Bcf.
  - apply andb_true_iff in Hpl as [Hpl Hrc]. apply andb_true_iff in Hpl as [Hpl Hde]. apply andb_true_iff in Hpl as [Hpl Hnid].
    apply andb_true_iff in Hpl as [Hmt Hty].
    cbn [payload_marshal] in Hb. replace (negb (ty =? 0) && negb (ty =? 2)) with false in Hb by lia. injection Hb as <-.
    bytes_tac.
  - apply andb_true_iff in Hpl as [Hpl Hrc]. apply andb_true_iff in Hpl as [Hpl Hde]. apply andb_true_iff in Hpl as [Hpl Hje].
    apply andb_true_iff in Hpl as [Hmt Hty]. apply N.eqb_eq in Hty. subst ty.
    cbn [payload_marshal] in Hb. cbn [negb N.eqb Pos.eqb] in Hb. injection Hb as <-.
    bytes_tac.
  - apply andb_true_iff in Hpl as [_ Hm]. destruct (mac_roundtrip m Hm) as (b & E & B & _).
    cbn [payload_marshal] in Hb. rewrite E in Hb. injection Hb as <-. exact B.
  - apply andb_true_iff in Hpl as [_ Hd]. cbn [payload_marshal] in Hb. injection Hb as <-. now apply bytes_ok_Forall.
Qed.

Lemma spec_valid_mtype p : spec_valid p = true -> mtype p < 8.
Proof.
  destruct p as [mt mj pl mc]. unfold spec_valid. cbn [Model.pl mtype major mic]. intros H.
  apply andb_true_iff in H as [_ Hpl].
  destruct pl; try discriminate Hpl;
    repeat (apply andb_true_iff in Hpl; destruct Hpl as [Hpl ?]);
    unfold JoinRequest, JoinAccept, RejoinRequest, Proprietary in *; lia.
Qed.

Lemma phy_marshal_bytes p bs : spec_valid p = true -> phy_marshal p = Ok bs -> Forall byte bs.
Proof.
  intros V H. pose proof (spec_valid_mtype p V) as Hmt.
  assert (Hmic : Forall byte (mic p)).
  { unfold spec_valid in V. apply andb_true_iff in V as [V _]. apply andb_true_iff in V as [_ V]. exact (proj2 (id_ok_inv _ _ V)). }
  assert (Hb : forall body, payload_marshal (pl p) = Ok body -> Forall byte body) by (intros body; now apply payload_bytes).
  destruct p as [mt mj q mc]. unfold phy_marshal in H. cbn [pl mtype major mic] in *.
  destruct (payload_marshal q) as [body| | |] eqn:E.
  - specialize (Hb body eq_refl).
    assert (G : Forall byte ([mhdr_marshal mt mj] ++ body ++ mc)).
    { apply Forall_app; split; [constructor; [now apply mhdr_byte|constructor]|apply Forall_app; split; assumption]. }
    destruct q; try discriminate H; cbn [bind] in H; injection H as <-; exact G.
  - destruct q; discriminate H.
  - destruct q; discriminate H.
  - destruct q; discriminate H.
Qed.

Theorem frame_text_roundtrip : forall p, spec_valid p = true ->
  exists bs, phy_marshal p = Ok bs /\ phy_marshal_text p = Ok (b64_encode bs) /\
             phy_unmarshal_text (b64_encode bs) = Ok (wire_view p).
Proof.
  intros p V. destruct (frame_roundtrip p V) as (bs & Hm & Hu). exists bs.
  split; [exact Hm|]. split.
  - unfold phy_marshal_text. rewrite Hm. reflexivity.
  - unfold phy_unmarshal_text. rewrite b64_decode_encode; [exact Hu|].
    exact (phy_marshal_bytes p bs V Hm).
Qed.

(* C09: the text decoder is total *)
Theorem phy_unmarshal_text_total t : okerr (phy_unmarshal_text t).
Proof.
  unfold phy_unmarshal_text. destruct (b64_decode t) as [b|]; [|apply okerr_err].
  rewrite <- phy_chk_eq. apply phy_unmarshal_total.
Qed.
