(* Proofs for C12.  The unbounded arguments (dr, off, channel index, DevAddr,
   beacon time : Z) are reduced to the finite key sets of the dumped tables
   by lookup lemmas; the remaining finite obligations are decided by
   vm_compute over LWGen.BandGen and lifted with forallb_forall. *)
From Coq Require Import List ZArith Bool String Lia.
From LW Require Import Base.Outcome Band.Types Band.Lookup Band.Regional Band.Rx1Spec.
From LWGen Require Import BandGen KnownGen.
Import ListNotations.
Open Scope Z_scope.

(* ---- generic list / map lemmas ------------------------------------------- *)

Lemma zrange_from_In x lo n :
  In x (zrange_from lo n) <-> lo <= x < lo + Z.of_nat n.
Proof.
  revert lo; induction n as [|n IH]; intros lo; cbn [zrange_from In].
  - split; [tauto | lia].
  - rewrite IH. lia.
Qed.

Lemma zrange_In x lo hi : lo <= x <= hi -> In x (zrange lo hi).
Proof. intros H. unfold zrange. apply zrange_from_In. lia. Qed.

Lemma zrange_In_inv x lo hi : In x (zrange lo hi) -> lo <= x <= hi.
Proof. unfold zrange. intros H. apply zrange_from_In in H. lia. Qed.

Lemma zfind_Some_In {A} k (m : zmap A) v : zfind k m = Some v -> In (k, v) m.
Proof.
  induction m as [|[k' v'] m IH]; cbn [zfind]; [discriminate|].
  destruct (Z.eqb_spec k k') as [->|_].
  - intros [= ->]. now left.
  - intros H. right. now apply IH.
Qed.

Lemma zfind_None_notin {A} k (m : zmap A) : zfind k m = None -> ~ In k (zkeys m).
Proof.
  induction m as [|[k' v'] m IH]; cbn [zfind zkeys map fst In]; [tauto|].
  destruct (Z.eqb_spec k k') as [->|Hne]; [discriminate|].
  intros H [E|Hin]; [congruence|]. now apply IH.
Qed.

Lemma zindex_Ok_range {A} (l : list A) i a : zindex l i = Ok a -> 0 <= i < zlen l.
Proof.
  unfold zindex, zlen. destruct (Z.ltb_spec i 0); [discriminate|].
  destruct (nth_error l (Z.to_nat i)) eqn:E; [|discriminate].
  intros _. assert (Z.to_nat i < List.length l)%nat by (apply nth_error_Some; congruence). lia.
Qed.

Lemma zindex_in_range {A} (l : list A) i : 0 <= i < zlen l -> exists a, zindex l i = Ok a.
Proof.
  unfold zindex, zlen. intros H. destruct (Z.ltb_spec i 0); [lia|].
  destruct (nth_error l (Z.to_nat i)) eqn:E; [eauto|].
  apply nth_error_None in E. lia.
Qed.

Lemma zindex_Ok_In {A} (l : list A) i a : zindex l i = Ok a -> In a l.
Proof.
  unfold zindex. destruct (i <? 0); [discriminate|].
  destruct (nth_error l (Z.to_nat i)) eqn:E; [|discriminate].
  intros [= ->]. eapply nth_error_In; eauto.
Qed.

Lemma oz_eqb_eq (x y : outcome Z) : outcome_eqb Z.eqb x y = true -> x = y.
Proof.
  destruct x, y; cbn; try discriminate; try reflexivity.
  intros H. apply Z.eqb_eq in H. now subst.
Qed.

(* ---- the accepted (dr, off) pairs are a finite, enumerable set -------------- *)

Definition generic_domain (t : tables) : list (Z * Z) :=
  flat_map (fun e => map (pair (fst e)) (zrange 0 (zlen (snd e) - 1))) (t_rx1 t).

Definition as923_domain : list (Z * Z) :=
  flat_map (fun dr => map (pair dr) (zrange 0 7)) (zrange 0 7).

Definition rx1_domain (c : band_cfg) : list (Z * Z) :=
  match c_kind c with
  | KAS923 => as923_domain
  | _ => generic_domain (c_tab c)
  end.

Lemma generic_rx1_dr_cases t dr off :
  generic_rx1_dr t dr off = Err \/
  (exists r, generic_rx1_dr t dr off = Ok r /\ In (dr, off) (generic_domain t)).
Proof.
  unfold generic_rx1_dr. destruct (zfind dr (t_rx1 t)) as [row|] eqn:F; [|now left].
  destruct (Z.ltb_spec off 0); cbn [orb]; [now left|].
  destruct (Z.gtb_spec off (zlen row - 1)); [now left|].
  right. destruct (zindex_in_range row off) as [a Ha]; [lia|].
  exists a. split; [exact Ha|].
  unfold generic_domain. apply in_flat_map. exists (dr, row). split.
  - now apply zfind_Some_In.
  - cbn [fst snd]. apply in_map. apply zrange_In. lia.
Qed.

Lemma as923_rx1_dr_cases dw dr off :
  as923_rx1_dr dw dr off = Err \/
  (exists r, as923_rx1_dr dw dr off = Ok r /\ In (dr, off) as923_domain).
Proof.
  unfold as923_rx1_dr.
  destruct (Z.ltb_spec off 0); cbn [orb]; [now left|].
  destruct (Z.gtb_spec off 7); cbn [orb]; [now left|].
  destruct (Z.ltb_spec dr 0); cbn [orb]; [now left|].
  destruct (Z.gtb_spec dr 7); cbn [orb]; [now left|].
  right.
  destruct (zindex_in_range [0; 1; 2; 3; 4; 5; -1; -2] off) as [e He]; [unfold zlen; cbn; lia|].
  rewrite He. eexists. split; [reflexivity|].
  unfold as923_domain. apply in_flat_map. exists dr. split; [apply zrange_In; lia|].
  apply in_map. apply zrange_In. lia.
Qed.

Lemma get_rx1_dr_cases c dr off :
  get_rx1_dr c dr off = Err \/
  (exists r, get_rx1_dr c dr off = Ok r /\ In (dr, off) (rx1_domain c)).
Proof.
  unfold get_rx1_dr, rx1_domain.
  destruct (c_kind c); try apply generic_rx1_dr_cases. apply as923_rx1_dr_cases.
Qed.

(* errors, never panics: for ANY tables, all integer arguments *)
Lemma rx1_no_panic_any c dr off : get_rx1_dr c dr off <> Panic.
Proof.
  destruct (get_rx1_dr_cases c dr off) as [E|[r [E _]]]; rewrite E; discriminate.
Qed.

Lemma rx1_Ok_in_domain c dr off r : get_rx1_dr c dr off = Ok r -> In (dr, off) (rx1_domain c).
Proof.
  intros H. destruct (get_rx1_dr_cases c dr off) as [E|[r' [_ Hin]]]; [congruence|exact Hin].
Qed.

(* ---- lifting a computed check over all configurations and all cells ------- *)

Definition all_cells (P : band_cfg -> Z -> Z -> bool) : bool :=
  forallb (fun c => forallb (fun p => P c (fst p) (snd p)) (rx1_domain c)) band_configs.

Lemma all_cells_lift P : all_cells P = true ->
  forall c, In c band_configs -> forall dr off r, get_rx1_dr c dr off = Ok r -> P c dr off = true.
Proof.
  unfold all_cells. intros H c Hc dr off r Hr.
  rewrite forallb_forall in H. specialize (H c Hc). rewrite forallb_forall in H.
  exact (H (dr, off) (rx1_Ok_in_domain _ _ _ _ Hr)).
Qed.

(* membership in the generated exception list *)
Definition cell_eqb (a b : string * Z * Z) : bool :=
  String.eqb (fst (fst a)) (fst (fst b)) && (snd (fst a) =? snd (fst b)) && (snd a =? snd b).

Lemma cell_eqb_eq a b : cell_eqb a b = true -> a = b.
Proof.
  destruct a as [[n d] o], b as [[n' d'] o']. unfold cell_eqb. cbn [fst snd].
  rewrite !andb_true_iff. intros [[H1 H2] H3].
  apply String.eqb_eq in H1. apply Z.eqb_eq in H2. apply Z.eqb_eq in H3. now subst.
Qed.

Definition cell_known (x : string * Z * Z) : bool := existsb (cell_eqb x) c12_known_cells.

Lemma cell_known_In x : cell_known x = true -> In x c12_known_cells.
Proof.
  unfold cell_known. rewrite existsb_exists. intros [y [Hy E]]. apply cell_eqb_eq in E. now subst.
Qed.

(* ---- every accepted pair maps to a defined downlink data-rate -------------- *)

Definition defined_check (c : band_cfg) (dr off : Z) : bool :=
  rx1_defined_rule (c_tab c) (get_rx1_dr c dr off) || cell_known (c_name c, dr, off).

Lemma defined_check_all : all_cells defined_check = true.
Proof. vm_compute. reflexivity. Qed.

Lemma rx1_defined c : In c band_configs -> forall dr off r,
  get_rx1_dr c dr off = Ok r ->
  dr_defined_down (c_tab c) r = true \/ In (c_name c, dr, off) c12_known_cells.
Proof.
  intros Hc dr off r Hr.
  pose proof (all_cells_lift _ defined_check_all c Hc dr off r Hr) as H.
  unfold defined_check in H. rewrite Hr in H. cbn [rx1_defined_rule] in H.
  apply orb_true_iff in H as [H|H]; [now left | right; now apply cell_known_In].
Qed.

(* the listed exceptions are real: each is accepted and yields an undefined data-rate *)
Definition refuted_check (x : string * Z * Z) : bool :=
  existsb (fun c => String.eqb (c_name c) (fst (fst x))
                    && match get_rx1_dr c (snd (fst x)) (snd x) with
                       | Ok r => negb (dr_defined_down (c_tab c) r)
                       | _ => false
                       end) band_configs.

Lemma refuted_all : forallb refuted_check c12_known_cells = true.
Proof. vm_compute. reflexivity. Qed.

Lemma rx1_known_refuted : forall name dr off, In (name, dr, off) c12_known_cells ->
  exists c r, In c band_configs /\ c_name c = name /\ get_rx1_dr c dr off = Ok r
              /\ dr_defined_down (c_tab c) r = false.
Proof.
  intros name dr off Hin. pose proof refuted_all as H. rewrite forallb_forall in H.
  specialize (H _ Hin). unfold refuted_check in H. cbn [fst snd] in H.
  apply existsb_exists in H as [c [Hc H]]. apply andb_true_iff in H as [Hn H].
  apply String.eqb_eq in Hn.
  destruct (get_rx1_dr c dr off) as [r| | |] eqn:E; try discriminate.
  exists c, r. repeat split; auto. now apply negb_true_iff in H.
Qed.

(* ---- invalid arguments give an error ------------------------------------------ *)

Definition valid_check (c : band_cfg) (dr off : Z) : bool := negb (rx1_args_invalid dr off).

Lemma valid_check_all : all_cells valid_check = true.
Proof. vm_compute. reflexivity. Qed.

Lemma rx1_invalid_err c : In c band_configs -> forall dr off,
  rx1_args_invalid dr off = true -> get_rx1_dr c dr off = Err.
Proof.
  intros Hc dr off Hinv.
  destruct (get_rx1_dr_cases c dr off) as [E|[r [E _]]]; [exact E|].
  pose proof (all_cells_lift _ valid_check_all c Hc dr off r E) as H.
  unfold valid_check in H. rewrite Hinv in H. discriminate.
Qed.

Lemma rx1_args_invalid_iff dr off :
  rx1_args_invalid dr off = true <-> dr < 0 \/ off < 0 \/ dr > 15 \/ off > 7.
Proof.
  unfold rx1_args_invalid. rewrite !orb_true_iff, !Z.ltb_lt, !Z.gtb_lt. lia.
Qed.

(* ---- formula ------------------------------------------------------------------ *)

Definition formula_domain : list (Z * Z) :=
  flat_map (fun dr => map (pair dr) (zrange 0 5)) (zrange 0 7).

Lemma spec_formula_domain reg dw dr off e :
  spec_rx1_formula reg dw dr off = Some e -> In (dr, off) formula_domain.
Proof.
  intros H.
  assert (0 <= dr <= 7 /\ 0 <= off <= 5) as [Hd Ho].
  { unfold spec_rx1_formula in H.
    destruct reg;
      match type of H with
      | (if ?b then _ else _) = _ => destruct b eqn:B; [|discriminate]
      end;
      rewrite !andb_true_iff, !Z.leb_le in B; lia. }
  unfold formula_domain. apply in_flat_map. exists dr. split; [now apply zrange_In|].
  apply in_map. now apply zrange_In.
Qed.

Definition formula_check : bool :=
  forallb (fun c =>
    match region_of (c_name c) with
    | None => false
    | Some reg =>
      forallb (fun p => rx1_formula_rule reg (c_dwell c) (fst p) (snd p) (get_rx1_dr c (fst p) (snd p)))
              formula_domain
    end) band_configs.

Lemma formula_check_ok : formula_check = true.
Proof. vm_compute. reflexivity. Qed.

Lemma region_known c : In c band_configs -> exists reg, region_of (c_name c) = Some reg.
Proof.
  intros Hc. pose proof formula_check_ok as H. unfold formula_check in H.
  rewrite forallb_forall in H. specialize (H c Hc).
  destruct (region_of (c_name c)); [eauto | discriminate].
Qed.

Lemma rx1_formula c : In c band_configs -> forall reg, region_of (c_name c) = Some reg ->
  forall dr off e, spec_rx1_formula reg (c_dwell c) dr off = Some e ->
  get_rx1_dr c dr off = Ok e.
Proof.
  intros Hc reg Hreg dr off e He.
  pose proof formula_check_ok as H. unfold formula_check in H.
  rewrite forallb_forall in H. specialize (H c Hc). rewrite Hreg in H.
  rewrite forallb_forall in H. specialize (H (dr, off) (spec_formula_domain _ _ _ _ _ He)).
  cbn [fst snd] in H. unfold rx1_formula_rule in H. rewrite He in H.
  now apply oz_eqb_eq.
Qed.

(* ---- never increases, at most one defined downlink data-rate per step ------- *)

Definition step_check (c : band_cfg) (dr off : Z) : bool :=
  rx1_step_rule (c_tab c) off (get_rx1_dr c dr (off - 1)) (get_rx1_dr c dr off).

Lemma step_check_all : all_cells step_check = true.
Proof. vm_compute. reflexivity. Qed.

Lemma rx1_step c : In c band_configs -> forall dr off r0 r1,
  0 <= off < max_positive_offset ->
  get_rx1_dr c dr off = Ok r0 -> get_rx1_dr c dr (off + 1) = Ok r1 ->
  r1 <= r0 /\ forall d, r1 < d < r0 -> dr_defined_down (c_tab c) d = false.
Proof.
  unfold max_positive_offset. intros Hc dr off r0 r1 Hoff H0 H1.
  pose proof (all_cells_lift _ step_check_all c Hc dr (off + 1) r1 H1) as H.
  unfold step_check, rx1_step_rule, max_positive_offset in H.
  replace (off + 1 - 1) with off in H by lia. rewrite H0, H1 in H.
  destruct (Z.leb_spec 1 (off + 1)); [|lia].
  destruct (Z.leb_spec (off + 1) 5); [|lia].
  cbn [andb] in H. apply andb_true_iff in H as [Hle Hbet].
  apply Z.leb_le in Hle. split; [exact Hle|].
  intros d Hd. unfold no_defined_down_between in Hbet. rewrite forallb_forall in Hbet.
  assert (Hin : In d (zrange (r1 + 1) (r0 - 1))) by (apply zrange_In; lia).
  specialize (Hbet d Hin). now apply negb_true_iff in Hbet.
Qed.

(* ---- RX1 channel and frequency --------------------------------------------------- *)

Definition channel_check : bool :=
  forallb (fun c =>
    match region_of (c_name c) with
    | None => false
    | Some reg =>
      let t := c_tab c in
      forallb (fun i =>
        match zindex (t_up t) i with
        | Ok u => rx1_channel_ok reg (t_down t) i (ch_freq u)
                                 (get_rx1_channel_index c i) (get_rx1_frequency c (ch_freq u))
        | _ => false
        end) (zrange 0 (zlen (t_up t) - 1))
    end) band_configs.

Lemma channel_check_ok : channel_check = true.
Proof. vm_compute. reflexivity. Qed.

Lemma rx1_channel c : In c band_configs -> forall reg, region_of (c_name c) = Some reg ->
  forall i u, zindex (t_up (c_tab c)) i = Ok u ->
  rx1_channel_ok reg (t_down (c_tab c)) i (ch_freq u)
                 (get_rx1_channel_index c i) (get_rx1_frequency c (ch_freq u)) = true.
Proof.
  intros Hc reg Hreg i u Hu.
  pose proof channel_check_ok as H. unfold channel_check in H.
  rewrite forallb_forall in H. specialize (H c Hc). rewrite Hreg in H. cbv zeta in H.
  rewrite forallb_forall in H.
  assert (Hin : In i (zrange 0 (zlen (t_up (c_tab c)) - 1)))
    by (apply zrange_In; pose proof (zindex_Ok_range _ _ _ Hu); lia).
  specialize (H i Hin). now rewrite Hu in H.
Qed.

(* reading of the executable rule *)
Lemma rx1_channel_ok_spec reg down i f o_idx o_freq :
  rx1_channel_ok reg down i f o_idx o_freq = true ->
  exists d, o_idx = Ok (spec_rx1_channel reg i)
            /\ zindex down (spec_rx1_channel reg i) = Ok d
            /\ o_freq = Ok (ch_freq d)
            /\ (match reg with RUS915 | RAU915 | RCN470 => True | _ => ch_freq d = f end).
Proof.
  unfold rx1_channel_ok. destruct o_idx as [j| | |]; try discriminate.
  destruct o_freq as [g| | |]; try discriminate.
  rewrite !andb_true_iff. intros [[Hj Hd] Hf]. apply Z.eqb_eq in Hj. subst j.
  destruct (zindex down (spec_rx1_channel reg i)) as [d| | |]; try discriminate.
  apply Z.eqb_eq in Hd. exists d. repeat split; try congruence.
  destruct reg; try exact I; apply Z.eqb_eq in Hf; congruence.
Qed.

(* ---- ping slot --------------------------------------------------------------------- *)

Definition ping_check : bool :=
  forallb (fun c =>
    match region_of (c_name c) with
    | None => false
    | Some reg =>
      forallb (fun k => outcome_eqb Z.eqb (ping_slot_at c k) (Ok (spec_ping_slot_at reg k))) (zrange 0 7)
    end) band_configs.

Lemma ping_check_ok : ping_check = true.
Proof. vm_compute. reflexivity. Qed.

Lemma ping_channel_nonneg devaddr beacon : 0 <= devaddr -> 0 <= beacon ->
  ping_slot_channel devaddr beacon = (devaddr + beacon / beacon_period_ns) mod 8.
Proof.
  intros Hd Hb. unfold ping_slot_channel, beacon_period_ns.
  assert (0 < 128 * second) by (unfold second; lia).
  rewrite Z.quot_div_nonneg by lia.
  assert (0 <= beacon / (128 * second)) by (apply Z.div_pos; lia).
  rewrite Z.rem_mod_nonneg by lia. reflexivity.
Qed.

Lemma ping_slot c : In c band_configs -> forall reg, region_of (c_name c) = Some reg ->
  forall devaddr beacon, 0 <= devaddr -> 0 <= beacon ->
  get_ping_slot_frequency c devaddr beacon = Ok (spec_ping_slot reg devaddr beacon).
Proof.
  intros Hc reg Hreg devaddr beacon Hd Hb.
  unfold get_ping_slot_frequency, spec_ping_slot. rewrite ping_channel_nonneg by assumption.
  set (k := (devaddr + beacon / beacon_period_ns) mod 8).
  assert (Hk : 0 <= k < 8) by (apply Z.mod_pos_bound; lia).
  pose proof ping_check_ok as H. unfold ping_check in H.
  rewrite forallb_forall in H. specialize (H c Hc). rewrite Hreg in H.
  rewrite forallb_forall in H.
  assert (Hin : In k (zrange 0 7)) by (apply zrange_In; lia).
  specialize (H k Hin). now apply oz_eqb_eq.
Qed.

(* ---- defaults / RX2 -------------------------------------------------------------------- *)

Definition defaults_check : bool :=
  forallb (fun c =>
    match region_of (c_name c) with
    | None => false
    | Some reg =>
      defaults_eqb (get_defaults c) (c_defaults c) && rx2_ok reg (c_tab c) (get_defaults c)
    end) band_configs.

Lemma defaults_check_ok : defaults_check = true.
Proof. vm_compute. reflexivity. Qed.

Lemma defaults_eqb_eq a b : defaults_eqb a b = true -> a = b.
Proof.
  destruct a, b. unfold defaults_eqb. cbn. rewrite !andb_true_iff, !Z.eqb_eq.
  intros [[[[[? ?] ?] ?] ?] ?]. now subst.
Qed.

Lemma rx2_defaults c : In c band_configs -> forall reg, region_of (c_name c) = Some reg ->
  get_defaults c = c_defaults c /\ get_defaults c = spec_defaults reg
  /\ dr_defined_down (c_tab c) (d_rx2_dr (get_defaults c)) = true.
Proof.
  intros Hc reg Hreg. pose proof defaults_check_ok as H. unfold defaults_check in H.
  rewrite forallb_forall in H. specialize (H c Hc). rewrite Hreg in H.
  unfold rx2_ok in H. rewrite !andb_true_iff in H. destruct H as [H1 [H2 H3]].
  repeat split; auto using defaults_eqb_eq.
Qed.
