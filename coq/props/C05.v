(* C05 - end-to-end secure frame exchange recovers the content and rejects tampering.
   Statements only; proofs in LW.Sec.Recover (recovers) and LW.Sec.EndToEndProofs (tamper).
   Model: LW.Sec.EndToEnd = compositions of the C01/C02/C03/C07 model functions in the order of
   the documented sender / receiver method sequences.

   No premise is left: the frame round trip (C01) is LW.Frame.RoundtripProofs.frame_roundtrip, the
   re-encoding of canonical bytes (C08) is LW.Frame.CanonProofs.phy_canonical, the MAC command stream
   round trip is LW.Mac.StreamProofs.stream_roundtrip; the rest (AES/CMAC byte ranges, involution of
   the encryption, invariance of the MIC under the wire view) is proved in LW.Sec. *)
From Coq Require Import List NArith ZArith Bool.
From LW Require Import Base.Outcome Base.Bytes Crypto.AES Crypto.AESInv Crypto.CMAC Mac.Commands Mac.Spec Mac.Stream
     Mac.StreamProofs Mac.RegOkProofs
     Frame.Model Frame.Spec Frame.CanonProofs Frame.RoundtripProofs Sec.MIC Sec.MICSpec Sec.MICProofs Sec.Encrypt Sec.EndToEnd Sec.EndToEndProofs
     Sec.Recover.
From LWGen Require Import RegistryGen.
Import ListNotations.
Open Scope N_scope.

(* both directions (MType of f), both versions, all byte keys, every counter / parameter value.
   The frame round trip of C01 is LW.Frame.RoundtripProofs.frame_roundtrip. *)
Theorem C05_recovers : forall ver k prm f m,
  keys_ok k -> params_ok prm -> spec_valid_data builtin_registry f = true -> pl f = PLMac m ->
  exists bs, sender ver k prm f = Ok bs /\
             receiver builtin_registry ver k prm (fcnt (hdr m)) bs = Ok (commands_and_payload f).
Proof. exact (recovers builtin_registry reg_ok_builtin frame_roundtrip). Qed.
Print Assumptions C05_recovers.

(* ... and for the registry after any history of proprietary registrations *)
Theorem C05_recovers_any_registry : forall h ver k prm f m,
  keys_ok k -> params_ok prm -> spec_valid_data (register_all builtin_registry h) f = true -> pl f = PLMac m ->
  exists bs, sender ver k prm f = Ok bs /\
             receiver (register_all builtin_registry h) ver k prm (fcnt (hdr m)) bs = Ok (commands_and_payload f).
Proof. intros h. exact (recovers _ (reg_ok_history h) frame_roundtrip). Qed.
Print Assumptions C05_recovers_any_registry.

Theorem C05_tamper : forall ver up k prm full bs b,
  rx_validate ver up k prm full bs = Ok b ->
  exists p m msg,
    phy_unmarshal bs = Ok p /\ pl (set_fcnt full p) = PLMac m /\ mic_bytes (set_fcnt full p) m = Ok msg /\
    fcnt (hdr m) = full /\
    (length (devaddr (hdr m)) = 4%nat -> (length msg < 256)%nat ->
     b = bytes_eqb (skipn (length bs - 4) bs)
                   (spec_data_mic ver up k prm (ack (fc (hdr m))) (devaddr (hdr m)) full msg)).
Proof. exact tamper. Qed.
Print Assumptions C05_tamper.

Theorem C05_tamper_bytes : forall canonical : list N -> Prop,
  (forall bs p, canonical bs -> phy_unmarshal bs = Ok p -> phy_marshal p = Ok bs) ->
  forall ver up k prm full bs b,
    canonical bs -> rx_validate ver up k prm full bs = Ok b ->
    exists p m,
      phy_unmarshal bs = Ok p /\ pl p = PLMac m /\
      (full mod 65536 = fcnt (hdr m) mod 65536 ->
       length (devaddr (hdr m)) = 4%nat -> (length bs - 4 < 256)%nat ->
       b = bytes_eqb (skipn (length bs - 4) bs)
                     (spec_data_mic ver up k prm (ack (fc (hdr m))) (devaddr (hdr m)) full
                                    (firstn (length bs - 4) bs))).
Proof. exact tamper_bytes. Qed.
Print Assumptions C05_tamper_bytes.

(* premise discharged with Frame.CanonProofs.phy_canonical: every received byte string whose MHDR RFU
   bits are zero *)
Theorem C05_tamper_received_bytes : forall ver up k prm full bs b,
  Forall (fun x => x < 256) bs -> Frame.CanonProofs.rfu_zero bs = true ->
  rx_validate ver up k prm full bs = Ok b ->
  exists p m,
    phy_unmarshal bs = Ok p /\ pl p = PLMac m /\
    (full mod 65536 = fcnt (hdr m) mod 65536 ->
     length (devaddr (hdr m)) = 4%nat -> (length bs - 4 < 256)%nat ->
     b = bytes_eqb (skipn (length bs - 4) bs)
                   (spec_data_mic ver up k prm (ack (fc (hdr m))) (devaddr (hdr m)) full
                                  (firstn (length bs - 4) bs))).
Proof. exact tamper_received_bytes. Qed.
Print Assumptions C05_tamper_received_bytes.

(* known finding C05-2: for non-canonical bytes (an MHDR RFU bit set) the validation accepts a frame
   whose received bytes do not carry the specification MIC *)
Theorem C05_tamper_noncanonical_refuted :
  rx_validate LoRaWAN1_0 true c05_2_keys (mkParams 0 0 0) 5 c05_2_bytes = Ok true /\
  bytes_eqb (skipn 12 c05_2_bytes)
            (spec_data_mic LoRaWAN1_0 true c05_2_keys (mkParams 0 0 0) false [1; 2; 3; 4] 5 (firstn 12 c05_2_bytes))
  = false.
Proof. exact tamper_noncanonical_refuted. Qed.
Print Assumptions C05_tamper_noncanonical_refuted.

(* non-vacuity: a 1.1 confirmed downlink with two MAC commands in FOpts, FCnt above 2^16 and 20
   application bytes goes through both pipelines of the model *)
Definition ex_keys : keys :=
  mkKeys (map N.of_nat (seq 1 16)) (map N.of_nat (seq 17 16)) (map N.of_nat (seq 33 16)) (map N.of_nat (seq 49 16)).
Definition ex_f : phy :=
  mkPHY ConfirmedDataDown 0
        (PLMac (mkMAC (mkFHDR [1; 2; 3; 4] (mkFCtrl true false true false false 0) 70000
                              [IMac 6 None; IMac 4 (Some (PDutyCycleReq 3))])
                      (Some 10) [IData (map N.of_nat (seq 100 20))]))
        [0; 0; 0; 0].
Definition ex_bs : list N :=
  Eval vm_compute in match sender LoRaWAN1_1 ex_keys (mkParams 66000 0 0) ex_f with Ok b => b | _ => [] end.
Example C05_example_nonvacuous :
  spec_valid_data builtin_registry ex_f = true /\ length ex_bs = 36%nat /\
  sender LoRaWAN1_1 ex_keys (mkParams 66000 0 0) ex_f = Ok ex_bs /\
  receiver builtin_registry LoRaWAN1_1 ex_keys (mkParams 66000 0 0) 70000 ex_bs = Ok (commands_and_payload ex_f) /\
  (* the receiver with the counter off by 2^16, or another ConfFCnt, rejects *)
  receiver builtin_registry LoRaWAN1_1 ex_keys (mkParams 66000 0 0) (70000 + 65536) ex_bs = Ok BadMIC /\
  receiver builtin_registry LoRaWAN1_1 ex_keys (mkParams 66001 0 0) 70000 ex_bs = Ok BadMIC.
Proof. vm_compute. repeat split; reflexivity. Qed.
