(* Correspondence cases for C13: the model (Band/Lookup.v over the tables
   dumped from the live code) against what the implementation returned
   through the public Band API, and the executable specification
   (Band/TablesSpec.v, Band/Regional.v) evaluated on the observed results.
   Rules that relate a cell to other cells (repeater vs non-repeater, other
   data-rates of the same size table) take the other cells from the model;
   those cells are themselves compared with the implementation by their own
   case, the enumeration being exhaustive. *)
From Coq Require Import List NArith ZArith Bool Ascii.
From Coq Require Export String.
From LW Require Import Base.Outcome.
From LW Require Export Band.Types.
From LW Require Import Band.Lookup Band.Regional Band.Rx1Spec Band.TablesSpec.
From LWGen Require Import BandGen.
Import ListNotations.
Open Scope Z_scope.

#[export] Set Printing Width 1000000.

Definition dummy_cfg : band_cfg :=
  mkCfg "" false false KEU868 false 0 "" (mkDefaults 0 0 0 0 0 0)
        (mkTables false 0 0 [] [] [] [] [] []).

(* index into the 56 common configurations followed by the 40 obtained through deprecated names *)
Definition cfg_at (i : N) : band_cfg := nth (N.to_nat i) (band_configs ++ band_alias_configs) dummy_cfg.

(* the non-repeater configuration of the same band and dwell time *)
Definition non_repeater_partner (c : band_cfg) : option band_cfg :=
  find (fun p => String.eqb (c_name p) (common_name (c_name c)) && Bool.eqb (c_dwell p) (c_dwell c) && negb (c_rep p))
       band_configs.

(* strings with non-printable / non-ASCII bytes are printed by the harness as byte lists *)
Definition bs (l : list N) : string := string_of_list_ascii (map Ascii.ascii_of_N l).

Inductive case :=
(* GetDataRate(dr) = o (direction flags are not visible through the API and
   are printed as false); for o = Ok d: GetDataRateIndex(true, d) = o_up,
   GetDataRateIndex(false, d) = o_down *)
| CDr (i : N) (dr : Z) (o : outcome data_rate) (o_up o_down : outcome Z)
(* GetDataRateIndex(uplink, q) for arbitrary parameters q *)
| CDrProbe (i : N) (uplink : bool) (q : data_rate) (o : outcome Z)
(* GetMaxPayloadSizeForDataRateIndex(ver, rev, dr) *)
| CMaxPl (i : N) (ver rev : string) (dr : Z) (o : outcome (Z * Z))
(* an accepted (uplink DR, RX1 offset) pair and its result *)
| CRx1Res (i : N) (dr off r : Z)
(* GetUplinkChannel(idx) / GetDownlinkChannel(idx): (frequency, MinDR, MaxDR) *)
| CChan (i : N) (uplink : bool) (idx : Z) (o : outcome (Z * Z * Z))
| CEnabledDRs (i : N) (l : list Z)
(* after the AddChannel history [ops] (errs: which calls returned an error) the uplink channels
   are [chans] = (frequency, MinDR, MaxDR), GetCustomUplinkChannelIndices() = customs and
   GetEnabledUplinkDataRates() = l *)
| CEnabledHist (i : N) (ops : list (Z * Z * Z)) (errs : list bool) (chans : list (Z * Z * Z)) (customs : list Z) (l : list Z)
| CTxPow (i : N) (idx : Z) (o : outcome Z)
| CDefaults (i : N) (d : defaults)
| CDownTx (i : N) (f v : Z).

Definition oz_eqb := outcome_eqb Z.eqb.

Definition with_region (c : band_cfg) (f : region -> bool) : bool :=
  match region_of (c_name c) with Some reg => f reg | None => false end.

Definition spec_dr_at (reg : region) (dr : Z) : option data_rate := zfind dr (spec_data_rates reg).

Definition check (c : case) : N :=
  match c with
  | CDr i dr o o_up o_down =>
    let cfg := cfg_at i in
    let t := c_tab cfg in
    code (match get_data_rate t dr, o with
          | Ok d, Ok d' =>
            data_rate_params_eqb d d'
            && oz_eqb (get_data_rate_index t true d') o_up && oz_eqb (get_data_rate_index t false d') o_down
          | Err, Err => true
          | _, _ => false
          end)
         (with_region cfg (fun reg =>
            match o, spec_dr_at reg dr with
            | Ok d', Some sd =>
              (* parameters as in the Regional Parameters; found again under its own index in
                 every direction it supports *)
              data_rate_params_eqb sd d' && dr_roundtrip_ok dr sd o_up o_down
              && match zfind dr (t_drs t) with
                 | Some d => Bool.eqb (dr_up d) (dr_up sd) && Bool.eqb (dr_down d) (dr_down sd)
                 | None => false
                 end
            | Err, None => true
            | _, _ => false
            end))
  | CDrProbe i uplink q o =>
    let t := c_tab (cfg_at i) in
    code (oz_eqb (get_data_rate_index t uplink q) o)
         (match o with
          | Ok k => match zfind k (t_drs t) with
                    | Some d => dr_matches uplink q d
                    | None => false
                    end
          | Err => true
          | _ => false
          end)
  | CMaxPl i ver rev dr o =>
    let cfg := cfg_at i in
    let t := c_tab cfg in
    let unknown_ver := negb (str_mem ver (skeys (t_maxpl t))) in
    let unknown_rev := match sfind_or_latest ver (t_maxpl t) with
                       | Some revmap => negb (str_mem rev (skeys revmap))
                       | None => true
                       end in
    code (outcome_eqb pair_eqb (get_max_payload t ver rev dr) o)
         (negb (is_panic o)
          (* values transcribed from the Regional Parameters (EU868, US915; 1.0.2 / 1.0.3 / 1.1) *)
          && with_region cfg (fun reg => max_payload_value_ok reg (c_rep cfg) ver rev dr o)
          && match o with
             | Ok s =>
               size_wf s
               && match select_size_table t ver rev with
                  | Some st => sf_monotone_cell (t_drs t) st dr s
                  | None => false
                  end
               && (if c_rep cfg then
                     match non_repeater_partner cfg with
                     | Some p => match get_max_payload (c_tab p) ver rev dr with
                                 | Ok s' => size_le s s'
                                 | _ => false
                                 end
                     | None => false
                     end
                   else true)
             | _ => true
             end
          (* a version string that is no protocol version / a revision string that is no revision (as
             the SPECIFICATION knows them - whatever the table is keyed by) resolves to the latest table *)
          && (if negb (str_mem ver (latest :: protocol_versions))
              then outcome_eqb pair_eqb o (get_max_payload t latest rev dr) else true)
          && (if negb (str_mem rev (latest :: reg_param_revisions))
              then outcome_eqb pair_eqb o (get_max_payload t ver latest dr) else true)
          (* unknown version / revision strings resolve to the latest table *)
          && (if unknown_ver then outcome_eqb pair_eqb o (get_max_payload t latest rev dr) else true)
          && (if unknown_rev then outcome_eqb pair_eqb o (get_max_payload t ver latest dr) else true)
          (* every (version, revision) combination resolves: a data-rate the region lists since
             its first release has a size under every version / revision string *)
          && with_region cfg (fun reg => every_revision_ok reg (t_drs t) dr o)
          (* under latest/latest every defined data-rate has a size *)
          && (if (unknown_ver || String.eqb ver latest) && (unknown_rev || String.eqb rev latest)
                 && dr_defined t dr
              then is_ok o else true))
  | CRx1Res i dr off r =>
    let cfg := cfg_at i in
    code (oz_eqb (get_rx1_dr cfg dr off) (Ok r)) (dr_defined_down (c_tab cfg) r)
  | CChan i uplink idx o =>
    let cfg := cfg_at i in
    let t := c_tab cfg in
    let m := if uplink then get_uplink_channel t idx else get_downlink_channel t idx in
    code (match m, o with
          | Ok ch, Ok o3 => chan3_eqb (chan3_of ch) o3
          | Err, Err => true
          | _, _ => false
          end)
         (with_region cfg (fun reg =>
            let spec := if uplink then spec_uplink_channels reg else spec_downlink_channels reg in
            match o, zindex spec idx with
            | Ok o3, Ok s3 =>
              chan3_eqb o3 s3
              && (if uplink then uplink_channel_closed t (snd (fst o3)) (snd o3)
                  else downlink_channel_closed t (snd (fst o3)) (snd o3))
            | Err, Panic => true       (* no such default channel *)
            | _, _ => false
            end))
  | CEnabledDRs i l =>
    let t := c_tab (cfg_at i) in
    code (list_eqb Z.eqb (get_enabled_uplink_data_rates t) l) (enabled_drs_closed t l)
  | CEnabledHist i ops errs chans customs l =>
    let cfg := cfg_at i in
    let t := c_tab cfg in
    let r := add_channels t ops in
    code (list_eqb Bool.eqb (snd r) errs
          && list_eqb chan3_eqb (map chan3_of (t_up (fst r))) chans
          && list_eqb Z.eqb (map fst (filter (fun p => ch_custom (snd p))
                                             (combine (zrange 0 (zlen (t_up (fst r)) - 1)) (t_up (fst r))))) customs
          && list_eqb Z.eqb (get_enabled_uplink_data_rates (fst r)) l)
         (enabled_drs_post_ok t chans l
          && with_region cfg (fun reg => channels_after_adds_ok reg t ops errs chans customs l))
  | CTxPow i idx o =>
    let t := c_tab (cfg_at i) in
    code (oz_eqb (get_tx_power_offset t idx) o)
         (match o with Ok v => tx_power_ok idx v | Err => true | _ => false end)
  | CDefaults i d =>
    let cfg := cfg_at i in
    code (defaults_eqb (get_defaults cfg) d && defaults_eqb (c_defaults cfg) d)
         (with_region cfg (fun reg => rx2_ok reg (c_tab cfg) d))
  | CDownTx i f v =>
    code (get_downlink_tx_power (cfg_at i) f =? v) true
  end.

Definition run_cases := run_with check.
