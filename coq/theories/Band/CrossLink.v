(* Link between the local encoder model of the band layer (Band/CrossLayer.v,
   over Z) and the project's MAC-command model (Mac/Commands.v, over N) and
   frame model (Frame/Model.v): on the domain of the Go types (uint8 fields
   below 256, uint32 frequencies below 2^32, bytes below 256) the local
   encoders and decoders ARE the project's [enc] / [dec] /
   [cflist_marshal] / [cflist_unmarshal], so the cross-layer theorems of C15
   can be read against the model that C06/C07 verify. *)
From Coq Require Import List NArith ZArith Bool Lia.
From Coq Require Import ZifyN ZifyNat ZifyBool.
From LW Require Import Base.Outcome Base.Bytes Band.Channels Band.Planner Band.CrossLayer.
From LW Require Mac.Commands Mac.ByteLemmas Frame.Model.
Import ListNotations.
Open Scope Z_scope.
Ltac Zify.zify_post_hook ::= Z.div_mod_to_equations.

Module MC := LW.Mac.Commands.
Module BL := LW.Mac.ByteLemmas.

Definition zs (o : outcome (list N)) : outcome (list Z) := omap (map Z.of_N) o.

(* ---- bytes --------------------------------------------------------------- *)

Lemma freq3_link x : 0 <= x < 4294967296 -> map Z.of_N (MC.freq3 (Z.to_N x)) = le3 x.
Proof.
  intros Hx. unfold MC.freq3, le3. cbn [le_bytes firstn map].
  repeat (f_equal; try lia).
Qed.

Lemma lxor_shl4_link a b : 0 <= a <= 15 -> 0 <= b <= 15 ->
  Z.of_N (N.lxor (Z.to_N a) (MC.shl8 (Z.to_N b) 4)) = Z.lxor a ((b * 16) mod 256).
Proof.
  intros Ha Hb.
  assert (Ea : exists i, (i < 16)%nat /\ a = Z.of_nat i) by (exists (Z.to_nat a); lia).
  assert (Eb : exists j, (j < 16)%nat /\ b = Z.of_nat j) by (exists (Z.to_nat b); lia).
  destruct Ea as (i & Hi & ->), Eb as (j & Hj & ->).
  do 16 (destruct i as [|i]; [do 16 (destruct j as [|j]; [vm_compute; reflexivity|]); lia|]); lia.
Qed.

(* decisions of the N comparisons in terms of Z *)
Local Ltac decide_ifs :=
  repeat match goal with
  | |- context [if ?c then _ else _] =>
    let E := fresh "E" in destruct c eqn:E; try lia
  end.

(* ---- the five frequency-carrying commands: encoders ---------------------- *)

Lemma rxparamsetupreq_enc_link f dr : 0 <= f < 4294967296 -> 0 <= dr < 256 ->
  rxparamsetupreq_marshal f dr = zs (MC.enc (MC.PRXParamSetupReq (Z.to_N f) false (Z.to_N dr) 0)).
Proof.
  intros Hf Hd. unfold rxparamsetupreq_marshal, zs, MC.enc, MC.enc_dlsettings, dlsettings_byte.
  destruct (f / 100 >=? 16777216) eqn:E1; destruct (16777216 <=? Z.to_N f / 100)%N eqn:E1'; try lia; [reflexivity|].
  destruct (f mod 100 =? 0) eqn:E2; destruct (Z.to_N f mod 100 =? 0)%N eqn:E2'; try lia; cbn [negb]; [|reflexivity].
  destruct (dr >? 15) eqn:E3; destruct (15 <? Z.to_N dr)%N eqn:E3'; try lia; cbn [bind omap]; [reflexivity|].
  change (7 <? 0)%N with false. cbn iota. cbn [bind omap MC.obit map].
  f_equal. f_equal.
  - unfold MC.shl8. change (N.shiftl 0 4 mod 256)%N with 0%N. rewrite N.lor_0_r. lia.
  - replace (Z.to_N f / 100)%N with (Z.to_N (f / 100)) by lia. symmetry. apply freq3_link. lia.
Qed.

Lemma newchannelreq_enc_link ch f mx mn :
  0 <= ch < 256 -> 0 <= f < 4294967296 -> 0 <= mx < 256 -> 0 <= mn < 256 ->
  newchannelreq_marshal ch f mx mn
  = zs (MC.enc (MC.PNewChannelReq (Z.to_N ch) (Z.to_N f) (Z.to_N mx) (Z.to_N mn))).
Proof.
  intros Hc Hf Hx Hn. unfold newchannelreq_marshal, zs, MC.enc.
  destruct (f >=? 2400000000) eqn:E0; destruct (2400000000 <=? Z.to_N f)%N eqn:E0'; try lia.
  - destruct (f / 2 / 100 >=? 16777216) eqn:E1; destruct (16777216 <=? Z.to_N f / 2 / 100)%N eqn:E1'; try lia; [reflexivity|].
    destruct (f mod 100 =? 0) eqn:E2; destruct (Z.to_N f mod 100 =? 0)%N eqn:E2'; try lia; cbn [negb andb]; [|reflexivity].
    destruct (f mod 200 =? 0) eqn:E4; destruct (Z.to_N f mod 200 =? 0)%N eqn:E4'; try lia; cbn [negb andb]; [|reflexivity].
    destruct (mx >? 15) eqn:E3; destruct (15 <? Z.to_N mx)%N eqn:E3'; try lia; [reflexivity|].
    destruct (mn >? 15) eqn:E5; destruct (15 <? Z.to_N mn)%N eqn:E5'; try lia; [reflexivity|].
    cbn [bind omap map]. rewrite map_app. cbn [map].
    replace (Z.to_N f / 2 / 100)%N with (Z.to_N (f / 2 / 100)) by lia.
    rewrite freq3_link by lia. rewrite lxor_shl4_link by lia.
    f_equal. f_equal. lia.
  - destruct (f / 100 >=? 16777216) eqn:E1; destruct (16777216 <=? Z.to_N f / 100)%N eqn:E1'; try lia; [reflexivity|].
    destruct (f mod 100 =? 0) eqn:E2; destruct (Z.to_N f mod 100 =? 0)%N eqn:E2'; try lia; cbn [negb andb]; [|reflexivity].
    destruct (mx >? 15) eqn:E3; destruct (15 <? Z.to_N mx)%N eqn:E3'; try lia; [reflexivity|].
    destruct (mn >? 15) eqn:E5; destruct (15 <? Z.to_N mn)%N eqn:E5'; try lia; [reflexivity|].
    cbn [bind omap map]. rewrite map_app. cbn [map].
    replace (Z.to_N f / 100)%N with (Z.to_N (f / 100)) by lia.
    rewrite freq3_link by lia. rewrite lxor_shl4_link by lia.
    f_equal. f_equal. lia.
Qed.

Lemma freq3_enc_link f : 0 <= f < 4294967296 ->
  freq3 f = if (16777216 <=? Z.to_N f / 100)%N then Err
            else if negb (Z.to_N f mod 100 =? 0)%N then Err
            else Ok (map Z.of_N (MC.freq3 (Z.to_N f / 100))).
Proof.
  intros Hf. unfold freq3.
  destruct (f / 100 >=? 16777216) eqn:E1; destruct (16777216 <=? Z.to_N f / 100)%N eqn:E1'; try lia; [reflexivity|].
  destruct (f mod 100 =? 0) eqn:E2; destruct (Z.to_N f mod 100 =? 0)%N eqn:E2'; try lia; cbn [negb]; [|reflexivity].
  replace (Z.to_N f / 100)%N with (Z.to_N (f / 100)) by lia. rewrite freq3_link by lia. reflexivity.
Qed.

Lemma dlchannelreq_enc_link ch f : 0 <= ch < 256 -> 0 <= f < 4294967296 ->
  dlchannelreq_marshal ch f = zs (MC.enc (MC.PDLChannelReq (Z.to_N ch) (Z.to_N f))).
Proof.
  intros Hc Hf. unfold dlchannelreq_marshal, zs, MC.enc. rewrite freq3_enc_link by assumption.
  destruct (16777216 <=? Z.to_N f / 100)%N; [reflexivity|].
  destruct (negb (Z.to_N f mod 100 =? 0)%N); [reflexivity|].
  cbn [bind omap map]. f_equal. f_equal. lia.
Qed.

Lemma beaconfreqreq_enc_link f : 0 <= f < 4294967296 ->
  beaconfreqreq_marshal f = zs (MC.enc (MC.PBeaconFreqReq (Z.to_N f))).
Proof.
  intros Hf. unfold beaconfreqreq_marshal, zs, MC.enc. rewrite freq3_enc_link by assumption.
  destruct (16777216 <=? Z.to_N f / 100)%N; [reflexivity|].
  destruct (negb (Z.to_N f mod 100 =? 0)%N); reflexivity.
Qed.

Lemma pingslotchannelreq_enc_link f dr : 0 <= f < 4294967296 -> 0 <= dr < 256 ->
  pingslotchannelreq_marshal f dr = zs (MC.enc (MC.PPingSlotChannelReq (Z.to_N f) (Z.to_N dr))).
Proof.
  intros Hf Hd. unfold pingslotchannelreq_marshal, zs, MC.enc.
  destruct (f / 100 >=? 16777216) eqn:E1; destruct (16777216 <=? Z.to_N f / 100)%N eqn:E1'; try lia; [reflexivity|].
  destruct (f mod 100 =? 0) eqn:E2; destruct (Z.to_N f mod 100 =? 0)%N eqn:E2'; try lia; cbn [negb]; [|reflexivity].
  destruct (dr >=? 16) eqn:E3; destruct (16 <=? Z.to_N dr)%N eqn:E3'; try lia; [reflexivity|].
  cbn [bind omap map]. rewrite map_app. cbn [map].
  replace (Z.to_N f / 100)%N with (Z.to_N (f / 100)) by lia. rewrite freq3_link by lia.
  f_equal. f_equal. f_equal. lia.
Qed.

(* ---- the five frequency-carrying commands: decoders ---------------------- *)

Definition bytesN (bs : list N) : Prop := Forall (fun b => (b < 256)%N) bs.

Definition rx_view (p : MC.macpl) : Z * Z :=
  match p with MC.PRXParamSetupReq f _ rx2 _ => (Z.of_N f, Z.of_N rx2) | _ => (0, 0) end.
Definition newch_view (p : MC.macpl) : Z * Z * Z * Z :=
  match p with MC.PNewChannelReq c f x n => (Z.of_N c, Z.of_N f, Z.of_N x, Z.of_N n) | _ => (0, 0, 0, 0) end.
Definition dlch_view (p : MC.macpl) : Z * Z :=
  match p with MC.PDLChannelReq c f => (Z.of_N c, Z.of_N f) | _ => (0, 0) end.
Definition beacon_view (p : MC.macpl) : Z :=
  match p with MC.PBeaconFreqReq f => Z.of_N f | _ => 0 end.
Definition pingslot_view (p : MC.macpl) : Z * Z :=
  match p with MC.PPingSlotChannelReq f d => (Z.of_N f, Z.of_N d) | _ => (0, 0) end.

Local Ltac inv_bytes :=
  repeat match goal with
  | H : bytesN (_ :: _) |- _ => let a := fresh "Hb" in apply Forall_cons_iff in H; destruct H as [a H]
  | H : Forall _ (_ :: _) |- _ => let a := fresh "Hb" in apply Forall_cons_iff in H; destruct H as [a H]
  end.


Lemma rxparamsetupreq_dec_link bs : bytesN bs ->
  rxparamsetupreq_unmarshal (map Z.of_N bs) = omap rx_view (MC.dec MC.KRXParamSetupReq bs).
Proof.
  intros Hb. unfold bytesN in Hb. destruct bs as [|n0 [|n1 [|n2 [|n3 [|n4 bs]]]]]; try reflexivity. inv_bytes.
  unfold MC.dec, MC.dec_dlsettings, MC.nth0. cbn [length Nat.eqb nth firstn skipn le_val map rxparamsetupreq_unmarshal unle3 omap bind rx_view].
  rewrite BL.land15 by assumption. change (2 ^ 32)%N with 4294967296%N. f_equal. f_equal; lia.
Qed.

Lemma newchannelreq_dec_link bs : bytesN bs ->
  newchannelreq_unmarshal (map Z.of_N bs) = omap newch_view (MC.dec MC.KNewChannelReq bs).
Proof.
  intros Hb. unfold bytesN in Hb. destruct bs as [|n0 [|n1 [|n2 [|n3 [|n4 [|n5 bs]]]]]]; try reflexivity. inv_bytes.
  unfold MC.dec, MC.nth0. cbn [length Nat.eqb nth firstn skipn le_val map newchannelreq_unmarshal unle3 omap bind newch_view].
  rewrite BL.land15, BL.hi_nibble by assumption.
  change (2 ^ 32)%N with 4294967296%N. change (2 ^ 32) with 4294967296.
  destruct (Z.of_N n1 + 256 * Z.of_N n2 + 65536 * Z.of_N n3 >=? 12000000) eqn:E;
    destruct (12000000 <=? n1 + 256 * (n2 + 256 * (n3 + 256 * 0)))%N eqn:E'; try lia;
    (f_equal; f_equal; [f_equal; [f_equal|]|]; lia).
Qed.

Lemma dlchannelreq_dec_link bs : bytesN bs ->
  dlchannelreq_unmarshal (map Z.of_N bs) = omap dlch_view (MC.dec MC.KDLChannelReq bs).
Proof.
  intros Hb. unfold bytesN in Hb. destruct bs as [|n0 [|n1 [|n2 [|n3 [|n4 bs]]]]]; try reflexivity. inv_bytes.
  unfold MC.dec, MC.nth0. cbn [length Nat.eqb nth firstn skipn le_val map dlchannelreq_unmarshal unle3 omap bind dlch_view].
  change (2 ^ 32)%N with 4294967296%N. f_equal. f_equal; lia.
Qed.

Lemma beaconfreqreq_dec_link bs : bytesN bs ->
  beaconfreqreq_unmarshal (map Z.of_N bs) = omap beacon_view (MC.dec MC.KBeaconFreqReq bs).
Proof.
  intros Hb. unfold bytesN in Hb. destruct bs as [|n0 [|n1 [|n2 [|n3 bs]]]]; try reflexivity. inv_bytes.
  unfold MC.dec, MC.nth0. cbn [length Nat.eqb nth firstn skipn le_val map beaconfreqreq_unmarshal unle3 omap bind beacon_view].
  change (2 ^ 32)%N with 4294967296%N. f_equal. lia.
Qed.

Lemma pingslotchannelreq_dec_link bs : bytesN bs ->
  pingslotchannelreq_unmarshal (map Z.of_N bs) = omap pingslot_view (MC.dec MC.KPingSlotChannelReq bs).
Proof.
  intros Hb. unfold bytesN in Hb. destruct bs as [|n0 [|n1 [|n2 [|n3 [|n4 bs]]]]]; try reflexivity. inv_bytes.
  unfold MC.dec, MC.nth0. cbn [length Nat.eqb nth firstn skipn le_val map pingslotchannelreq_unmarshal unle3 omap bind pingslot_view].
  rewrite BL.land15 by assumption. change (2 ^ 32)%N with 4294967296%N. f_equal. f_equal; lia.
Qed.

Theorem decoders_link bs : bytesN bs ->
  rxparamsetupreq_unmarshal (map Z.of_N bs) = omap rx_view (MC.dec MC.KRXParamSetupReq bs) /\
  newchannelreq_unmarshal (map Z.of_N bs) = omap newch_view (MC.dec MC.KNewChannelReq bs) /\
  dlchannelreq_unmarshal (map Z.of_N bs) = omap dlch_view (MC.dec MC.KDLChannelReq bs) /\
  beaconfreqreq_unmarshal (map Z.of_N bs) = omap beacon_view (MC.dec MC.KBeaconFreqReq bs) /\
  pingslotchannelreq_unmarshal (map Z.of_N bs) = omap pingslot_view (MC.dec MC.KPingSlotChannelReq bs).
Proof.
  intros H. repeat split.
  - now apply rxparamsetupreq_dec_link.
  - now apply newchannelreq_dec_link.
  - now apply dlchannelreq_dec_link.
  - now apply beaconfreqreq_dec_link.
  - now apply pingslotchannelreq_dec_link.
Qed.

(* ---- LinkADRReq ----------------------------------------------------------- *)

From LW Require Mac.Spec Mac.EncProofs.
From LW Require Import Band.CrossLayerProofs.

Lemma mask_val_bits_val m : Z.of_N (LW.Mac.Spec.mask_val m) = bits_val m.
Proof.
  induction m as [|b m IH]; cbn [LW.Mac.Spec.mask_val bits_val]; [reflexivity|].
  rewrite <- IH. destruct b; cbn [LW.Mac.Spec.b2f]; lia.
Qed.

Lemma chmask_enc_link m : length m = 16%nat -> map Z.of_N (MC.enc_chmask m) = chmask_marshal m.
Proof.
  intros L. unfold MC.enc_chmask, chmask_marshal.
  replace (pad_to false 16 m) with m by (rewrite <- L; symmetry; apply pad_to_id).
  rewrite LW.Mac.EncProofs.chmask_val_sum. rewrite <- mask_val_bits_val.
  pose proof (LW.Mac.EncProofs.mask_val_lt m) as Hlt. rewrite L in Hlt.
  change (2 ^ N.of_nat 16)%N with 65536%N in Hlt. change (2 ^ 0)%N with 1%N.
  generalize dependent (LW.Mac.Spec.mask_val m). intros v Hv.
  cbn [le_bytes map]. f_equal; [lia|f_equal; lia].
Qed.

Lemma linkadrreq_enc_link p :
  0 <= p_dr p < 256 -> 0 <= p_txp p < 256 -> 0 <= p_cntl p < 256 -> 0 <= p_nbrep p < 256 ->
  length (p_mask p) = 16%nat ->
  linkadrreq_marshal p
  = zs (MC.enc (MC.PLinkADRReq (Z.to_N (p_dr p)) (Z.to_N (p_txp p)) (p_mask p) (Z.to_N (p_cntl p)) (Z.to_N (p_nbrep p)))).
Proof.
  intros Hd Ht Hc Hn L. unfold linkadrreq_marshal, zs, MC.enc, MC.enc_redundancy.
  destruct (p_dr p >? 15) eqn:E1; destruct (15 <? Z.to_N (p_dr p))%N eqn:E1'; try lia; [reflexivity|].
  destruct (p_txp p >? 15) eqn:E2; destruct (15 <? Z.to_N (p_txp p))%N eqn:E2'; try lia; [reflexivity|].
  destruct (p_nbrep p >? 15) eqn:E3; destruct (15 <? Z.to_N (p_nbrep p))%N eqn:E3'; try lia; [reflexivity|].
  destruct (p_cntl p >? 7) eqn:E4; destruct (7 <? Z.to_N (p_cntl p))%N eqn:E4'; try lia; [reflexivity|].
  cbn [bind omap]. rewrite !map_app. cbn [map app].
  rewrite chmask_enc_link by assumption. rewrite !lxor_shl4_link by lia. reflexivity.
Qed.

(* ---- CFList (Frame/Model.v) ---------------------------------------------- *)

Module FM := LW.Frame.Model.

Lemma pad_to_firstn {A} (d : A) : forall n k l, (n <= k)%nat -> pad_to d n l = firstn n (l ++ repeat d k).
Proof.
  induction n as [|n IH]; intros k l Hk; [reflexivity|].
  destruct l as [|a l]; cbn [pad_to app].
  - destruct k as [|k]; [lia|]. cbn [repeat firstn]. f_equal.
    rewrite (IH k []) by lia. reflexivity.
  - cbn [firstn]. f_equal. apply IH. lia.
Qed.

(* the accumulating loop of CFListChannelPayload.MarshalBinary *)
Definition cf_step (acc : outcome (list N)) (f : N) : outcome (list N) :=
  do out <- acc;
  if negb (f mod 100 =? 0)%N then Err else
  if (16777215 <? f / 100)%N then Err else
  Ok (out ++ firstn 3 (le_bytes 4 (f / 100)%N)).

Lemma cf_step_err fs : fold_left cf_step fs Err = Err.
Proof. induction fs; cbn [fold_left cf_step bind]; auto. Qed.

Lemma cf_freq3_link f : 0 <= f < 4294967296 ->
  cf_freq3 f = zs (cf_step (Ok []) (Z.to_N f)).
Proof.
  intros Hf. unfold cf_freq3, cf_step, zs. cbn [bind].
  destruct (f mod 100 =? 0) eqn:E2; destruct (Z.to_N f mod 100 =? 0)%N eqn:E2'; try lia; cbn [negb]; [|reflexivity].
  destruct (f / 100 >? 16777215) eqn:E1; destruct (16777215 <? Z.to_N f / 100)%N eqn:E1'; try lia; [reflexivity|].
  cbn [omap bind app]. replace (Z.to_N f / 100)%N with (Z.to_N (f / 100)) by lia.
  change (firstn 3 (le_bytes 4 (Z.to_N (f / 100)))) with (MC.freq3 (Z.to_N (f / 100))).
  rewrite freq3_link by lia. reflexivity.
Qed.

Lemma cf_fold_link fs : Forall (fun f => 0 <= f < 4294967296) fs -> forall acc,
  zs (fold_left cf_step (map Z.to_N fs) (Ok acc))
  = (do r <- concat_outcomes (map cf_freq3 fs); Ok (map Z.of_N acc ++ r)).
Proof.
  induction 1 as [|f fs Hf _ IH]; intros acc.
  - cbn. now rewrite app_nil_r.
  - cbn [map fold_left concat_outcomes]. rewrite (cf_freq3_link f Hf).
    unfold cf_step at 2 3. cbn [bind].
    destruct (negb (Z.to_N f mod 100 =? 0)%N); [now rewrite cf_step_err|].
    destruct (16777215 <? Z.to_N f / 100)%N; [now rewrite cf_step_err|].
    rewrite IH. unfold zs. cbn [omap bind app].
    destruct (concat_outcomes (map cf_freq3 fs)); cbn [bind]; try reflexivity.
    now rewrite map_app, <- app_assoc.
Qed.

Definition cflist_to_model (c : Channels.cflist) : FM.cflist :=
  match c with
  | CFChannels fs => FM.mkCFList (FM.CFPChannels (map Z.to_N fs)) 0
  | CFMasks ms => FM.mkCFList (FM.CFPMasks ms) 1
  end.

Definition cflist_domain (c : Channels.cflist) : Prop :=
  match c with
  | CFChannels fs => Forall (fun f => 0 <= f < 4294967296) fs
  | CFMasks ms => Forall (fun m => length m = 16%nat) ms
  end.

Lemma concat_masks_link ms : Forall (fun m => length m = 16%nat) ms ->
  map Z.of_N (concat (map FM.chmask_bytes ms)) = concat (map chmask_marshal ms).
Proof.
  induction 1 as [|m ms Hm _ IH]; [reflexivity|].
  cbn [map concat]. rewrite map_app, IH. unfold FM.chmask_bytes. now rewrite chmask_enc_link.
Qed.

Lemma map_firstn {A B} (f : A -> B) n l : map f (firstn n l) = firstn n (map f l).
Proof. revert l; induction n; intros [|a l]; cbn; f_equal; auto. Qed.

Lemma map_repeat' {A B} (f : A -> B) a n : map f (repeat a n) = repeat (f a) n.
Proof. induction n; cbn; f_equal; auto. Qed.

Lemma cflist_enc_link c : cflist_domain c ->
  cflist_marshal c = zs (FM.cflist_marshal (cflist_to_model c)).
Proof.
  destruct c as [fs|ms]; cbn [cflist_domain cflist_to_model]; intros Hd;
    unfold cflist_marshal, FM.cflist_marshal, FM.cfpayload_marshal; cbn [FM.cf_payload FM.cf_type].
  - change (fold_left _ (map Z.to_N fs) (Ok [])) with (fold_left cf_step (map Z.to_N fs) (Ok [])).
    pose proof (cf_fold_link fs Hd []) as H. cbn [map app] in H.
    destruct (concat_outcomes (map cf_freq3 fs)) as [b| | |] eqn:E; cbn [bind] in H |- *;
      destruct (fold_left cf_step (map Z.to_N fs) (Ok [])) as [b'| | |]; cbn [zs omap bind] in H |- *; try discriminate H; try reflexivity.
    injection H as H. subst b. rewrite map_app, map_firstn, map_app, map_repeat'. cbn [map].
    change (Z.of_N (0 mod 256)) with 0. change (Z.of_N 0) with 0.
    now rewrite (pad_to_firstn 0 15 16) by lia.
  - destruct (6 <? length ms)%nat; [reflexivity|]. cbn [bind zs omap].
    rewrite map_app, map_firstn, map_app, map_repeat', concat_masks_link by assumption. cbn [map].
    change (Z.of_N (1 mod 256)) with 1. change (Z.of_N 0) with 0.
    now rewrite (pad_to_firstn 0 15 16) by lia.
Qed.

(* ---- CFList decoder -------------------------------------------------------- *)

From LW Require Mac.DecProofs.

Lemma val_bits_testbit : forall k v,
  val_bits k v = map (fun i => Z.testbit v (Z.of_nat i)) (seq 0 k).
Proof.
  induction k as [|k IH]; intros v; [reflexivity|].
  cbn [val_bits seq map]. f_equal.
  rewrite IH, <- seq_shift, map_map. apply map_ext. intros i.
  rewrite Nat2Z.inj_succ. apply Z.div2_bits. lia.
Qed.

Lemma mask_dec_link a b : (a < 256)%N -> (b < 256)%N ->
  val_bits 16 (Z.of_N a + 256 * Z.of_N b) = FM.dec_chmask_list [a; b].
Proof.
  intros Ha Hb. unfold FM.dec_chmask_list, MC.dec_chmask. cbn [length Nat.eqb le_val].
  rewrite val_bits_testbit. cbn [seq map].
  replace (Z.of_N a + 256 * Z.of_N b) with (Z.of_N (a + 256 * (b + 256 * 0))) by lia.
  repeat (f_equal; [rewrite LW.Mac.DecProofs.land_pow2_testbit, <- N2Z.inj_testbit; reflexivity|]).
  f_equal. rewrite LW.Mac.DecProofs.land_pow2_testbit, <- N2Z.inj_testbit. reflexivity.
Qed.

Lemma all_false_existsb m : all_false m = negb (existsb (fun x => x) m).
Proof. induction m as [|[|] m IH]; cbn; auto. Qed.

Lemma masks_loop_link : forall fuel data pending acc, bytesN data -> (length data < 2 * fuel)%nat ->
  FM.masks_loop data fuel pending acc = acc ++ masks_from (map Z.of_N data) pending.
Proof.
  induction fuel as [|fuel IH]; intros data pending acc Hb Hl; [lia|].
  destruct data as [|a [|b rest]]; cbn [FM.masks_loop map masks_from]; try now rewrite app_nil_r.
  unfold bytesN in Hb. apply Forall_cons_iff in Hb. destruct Hb as [Ha Hb].
  apply Forall_cons_iff in Hb. destruct Hb as [Hb Hr].
  rewrite (mask_dec_link a b Ha Hb), all_false_existsb.
  cbn [length] in Hl.
  destruct (existsb (fun x => x) (FM.dec_chmask_list [a; b])); cbn [negb].
  - rewrite IH by (assumption || lia). now rewrite <- !app_assoc.
  - apply IH; [assumption|lia].
Qed.

Definition cflist_of_model (l : FM.cflist) : Channels.cflist :=
  match FM.cf_payload l with
  | FM.CFPChannels chs => CFChannels (map Z.of_N chs)
  | FM.CFPMasks ms => CFMasks ms
  | FM.CFPNil => CFMasks []
  end.

Lemma cflist_dec_link bs : bytesN bs ->
  cflist_unmarshal (map Z.of_N bs) = omap cflist_of_model (FM.cflist_unmarshal bs).
Proof.
  intros Hb. unfold cflist_unmarshal, FM.cflist_unmarshal. rewrite map_length.
  destruct (Nat.eqb (length bs) 16) eqn:L; cbn [negb]; [|reflexivity].
  apply PeanoNat.Nat.eqb_eq in L.
  do 16 (destruct bs as [|? bs]; [discriminate L|]). destruct bs; [|discriminate L]. clear L.
  cbn [map nth]. 
  destruct (n14 =? 1)%N eqn:T; destruct (Z.of_N n14 =? 1) eqn:T'; try lia; cbn [omap bind cflist_of_model FM.cf_payload].
  - (* six masks, then RFU: both decoders look at the first 12 bytes *)
    f_equal. f_equal. cbn [firstn map].
    rewrite masks_loop_link; [reflexivity| |cbn; lia].
    unfold bytesN in *. repeat (apply Forall_cons_iff in Hb; destruct Hb as [? Hb]).
    repeat (constructor; try assumption).
  - cbn [firstn triples map skipn Nat.mul Nat.add le_val unle3]. f_equal. f_equal.
    repeat (f_equal; try lia).
Qed.

(* ---- the C15 cross-layer round trips against the project's MAC model ------- *)

From LW Require Mac.StreamProofs.

Section MacRoundtrips.
Import MC.
Open Scope N_scope.

Local Ltac mac_roundtrip :=
  match goal with
  | |- exists bs, enc ?v = Ok bs /\ _ =>
    let E := fresh "E" in
    destruct (enc v) as [bs| | |] eqn:E;
    [exists bs; split; [reflexivity|];
     refine (LW.Mac.StreamProofs.roundtrip v bs _ E _)
    | exfalso | exfalso | exfalso]
  end.

Theorem rxparamsetupreq_mac f dr : f mod 100 = 0 -> f / 100 < 16777216 -> dr <= 15 ->
  exists bs, enc (PRXParamSetupReq f false dr 0) = Ok bs /\
             dec KRXParamSetupReq bs = Ok (PRXParamSetupReq f false dr 0).
Proof.
  intros H1 H2 H3. mac_roundtrip.
  1: { unfold LW.Mac.EncProofs.wf_go, LW.Mac.EncProofs.u32, LW.Mac.EncProofs.u8. lia. }
  1: reflexivity.
  all: revert E; unfold enc, enc_dlsettings;
      destruct (16777216 <=? f / 100) eqn:C1; try lia;
      destruct (f mod 100 =? 0) eqn:C2; try lia; cbn [negb];
      destruct (15 <? dr) eqn:C3; try lia; change (7 <? 0) with false; cbn [bind]; discriminate.
Qed.

(* below 1.2 GHz in 100 Hz steps, from 2.4 GHz in 200 Hz steps; in between the
   format is ambiguous (C15-4 / C07-2, [newchannelreq_refuted]) *)
Theorem newchannelreq_mac ch f mx mn :
  (f mod 100 = 0 /\ f < 1200000000) \/ (2400000000 <= f /\ f mod 200 = 0 /\ f / 200 < 16777216) ->
  ch < 256 -> mx <= 15 -> mn <= 15 ->
  exists bs, enc (PNewChannelReq ch f mx mn) = Ok bs /\
             dec KNewChannelReq bs = Ok (PNewChannelReq ch f mx mn).
Proof.
  intros H1 H2 H3 H4. mac_roundtrip.
  1: { unfold LW.Mac.EncProofs.wf_go, LW.Mac.EncProofs.u32, LW.Mac.EncProofs.u8. lia. }
  1: { unfold LW.Mac.EncProofs.newch_ambiguous. lia. }
  all: revert E; unfold enc;
    destruct (2400000000 <=? f) eqn:C0;
    [destruct (16777216 <=? f / 2 / 100) eqn:C1; try lia
    |destruct (16777216 <=? f / 100) eqn:C1; try lia];
    (destruct (f mod 100 =? 0) eqn:C2; try lia); cbn [negb andb];
    try (destruct (f mod 200 =? 0) eqn:C4; try lia; cbn [negb]);
    (destruct (15 <? mx) eqn:C3; try lia); (destruct (15 <? mn) eqn:C5; try lia); discriminate.
Qed.

Theorem dlchannelreq_mac ch f : f mod 100 = 0 -> f / 100 < 16777216 -> ch < 256 ->
  exists bs, enc (PDLChannelReq ch f) = Ok bs /\ dec KDLChannelReq bs = Ok (PDLChannelReq ch f).
Proof.
  intros H1 H2 H3. mac_roundtrip.
  1: { unfold LW.Mac.EncProofs.wf_go, LW.Mac.EncProofs.u32, LW.Mac.EncProofs.u8. lia. }
  1: reflexivity.
  all: revert E; unfold enc;
    (destruct (16777216 <=? f / 100) eqn:C1; try lia);
    (destruct (f mod 100 =? 0) eqn:C2; try lia); cbn [negb]; discriminate.
Qed.

Theorem beaconfreqreq_mac f : f mod 100 = 0 -> f / 100 < 16777216 ->
  exists bs, enc (PBeaconFreqReq f) = Ok bs /\ dec KBeaconFreqReq bs = Ok (PBeaconFreqReq f).
Proof.
  intros H1 H2. mac_roundtrip.
  1: { unfold LW.Mac.EncProofs.wf_go, LW.Mac.EncProofs.u32. lia. }
  1: reflexivity.
  all: revert E; unfold enc;
    (destruct (16777216 <=? f / 100) eqn:C1; try lia);
    (destruct (f mod 100 =? 0) eqn:C2; try lia); cbn [negb]; discriminate.
Qed.

Theorem pingslotchannelreq_mac f dr : f mod 100 = 0 -> f / 100 < 16777216 -> dr <= 15 ->
  exists bs, enc (PPingSlotChannelReq f dr) = Ok bs /\
             dec KPingSlotChannelReq bs = Ok (PPingSlotChannelReq f dr).
Proof.
  intros H1 H2 H3. mac_roundtrip.
  1: { unfold LW.Mac.EncProofs.wf_go, LW.Mac.EncProofs.u32, LW.Mac.EncProofs.u8. lia. }
  1: reflexivity.
  all: revert E; unfold enc;
    (destruct (16777216 <=? f / 100) eqn:C1; try lia);
    (destruct (f mod 100 =? 0) eqn:C2; try lia); cbn [negb];
    (destruct (16 <=? dr) eqn:C3; try lia); discriminate.
Qed.

(* a LinkADRReq the planner produces (C14: every planned payload is [encodable]) *)
Theorem linkadrreq_mac dr txp (cm : list bool) cntl nbrep :
  dr <= 15 -> txp <= 15 -> cntl <= 7 -> nbrep <= 15 -> length cm = 16%nat ->
  exists bs, enc (PLinkADRReq dr txp cm cntl nbrep) = Ok bs /\
             dec KLinkADRReq bs = Ok (PLinkADRReq dr txp cm cntl nbrep).
Proof.
  intros H1 H2 H3 H4 H5. mac_roundtrip.
  1: { unfold LW.Mac.EncProofs.wf_go, LW.Mac.EncProofs.u8. rewrite H5. cbn [Nat.eqb]. lia. }
  1: reflexivity.
  all: revert E; unfold enc, enc_redundancy;
    (destruct (15 <? dr) eqn:C1; try lia); (destruct (15 <? txp) eqn:C2; try lia);
    (destruct (15 <? nbrep) eqn:C3; try lia); (destruct (7 <? cntl) eqn:C4; try lia); cbn [bind]; discriminate.
Qed.
End MacRoundtrips.

(* ---- summaries (the statements of props/C15.v) ------------------------------ *)

Theorem encoders_link :
  (forall f dr, 0 <= f < 4294967296 -> 0 <= dr < 256 ->
     rxparamsetupreq_marshal f dr = zs (MC.enc (MC.PRXParamSetupReq (Z.to_N f) false (Z.to_N dr) 0))) /\
  (forall ch f mx mn, 0 <= ch < 256 -> 0 <= f < 4294967296 -> 0 <= mx < 256 -> 0 <= mn < 256 ->
     newchannelreq_marshal ch f mx mn
     = zs (MC.enc (MC.PNewChannelReq (Z.to_N ch) (Z.to_N f) (Z.to_N mx) (Z.to_N mn)))) /\
  (forall ch f, 0 <= ch < 256 -> 0 <= f < 4294967296 ->
     dlchannelreq_marshal ch f = zs (MC.enc (MC.PDLChannelReq (Z.to_N ch) (Z.to_N f)))) /\
  (forall f, 0 <= f < 4294967296 -> beaconfreqreq_marshal f = zs (MC.enc (MC.PBeaconFreqReq (Z.to_N f)))) /\
  (forall f dr, 0 <= f < 4294967296 -> 0 <= dr < 256 ->
     pingslotchannelreq_marshal f dr = zs (MC.enc (MC.PPingSlotChannelReq (Z.to_N f) (Z.to_N dr)))) /\
  (forall p, 0 <= p_dr p < 256 -> 0 <= p_txp p < 256 -> 0 <= p_cntl p < 256 -> 0 <= p_nbrep p < 256 ->
     length (p_mask p) = 16%nat ->
     linkadrreq_marshal p
     = zs (MC.enc (MC.PLinkADRReq (Z.to_N (p_dr p)) (Z.to_N (p_txp p)) (p_mask p) (Z.to_N (p_cntl p)) (Z.to_N (p_nbrep p))))).
Proof.
  repeat split.
  - exact rxparamsetupreq_enc_link.
  - exact newchannelreq_enc_link.
  - exact dlchannelreq_enc_link.
  - exact beaconfreqreq_enc_link.
  - exact pingslotchannelreq_enc_link.
  - exact linkadrreq_enc_link.
Qed.

Theorem cflist_link :
  (forall c, cflist_domain c -> cflist_marshal c = zs (FM.cflist_marshal (cflist_to_model c))) /\
  (forall bs, bytesN bs -> cflist_unmarshal (map Z.of_N bs) = omap cflist_of_model (FM.cflist_unmarshal bs)).
Proof. split; [exact cflist_enc_link | exact cflist_dec_link]. Qed.

Theorem mac_roundtrips :
  (forall f dr : N, (f mod 100 = 0)%N -> (f / 100 < 16777216)%N -> (dr <= 15)%N ->
     exists bs, MC.enc (MC.PRXParamSetupReq f false dr 0) = Ok bs /\
       MC.dec MC.KRXParamSetupReq bs = Ok (MC.PRXParamSetupReq f false dr 0)) /\
  (forall ch f mx mn : N,
     ((f mod 100 = 0 /\ f < 1200000000) \/ (2400000000 <= f /\ f mod 200 = 0 /\ f / 200 < 16777216))%N ->
     (ch < 256)%N -> (mx <= 15)%N -> (mn <= 15)%N ->
     exists bs, MC.enc (MC.PNewChannelReq ch f mx mn) = Ok bs /\
       MC.dec MC.KNewChannelReq bs = Ok (MC.PNewChannelReq ch f mx mn)) /\
  (forall ch f : N, (f mod 100 = 0)%N -> (f / 100 < 16777216)%N -> (ch < 256)%N ->
     exists bs, MC.enc (MC.PDLChannelReq ch f) = Ok bs /\ MC.dec MC.KDLChannelReq bs = Ok (MC.PDLChannelReq ch f)) /\
  (forall f : N, (f mod 100 = 0)%N -> (f / 100 < 16777216)%N ->
     exists bs, MC.enc (MC.PBeaconFreqReq f) = Ok bs /\ MC.dec MC.KBeaconFreqReq bs = Ok (MC.PBeaconFreqReq f)) /\
  (forall f dr : N, (f mod 100 = 0)%N -> (f / 100 < 16777216)%N -> (dr <= 15)%N ->
     exists bs, MC.enc (MC.PPingSlotChannelReq f dr) = Ok bs /\
       MC.dec MC.KPingSlotChannelReq bs = Ok (MC.PPingSlotChannelReq f dr)) /\
  (forall (dr txp : N) (cm : list bool) (cntl nbrep : N),
     (dr <= 15)%N -> (txp <= 15)%N -> (cntl <= 7)%N -> (nbrep <= 15)%N -> length cm = 16%nat ->
     exists bs, MC.enc (MC.PLinkADRReq dr txp cm cntl nbrep) = Ok bs /\
       MC.dec MC.KLinkADRReq bs = Ok (MC.PLinkADRReq dr txp cm cntl nbrep)).
Proof.
  repeat split.
  - exact rxparamsetupreq_mac.
  - exact newchannelreq_mac.
  - exact dlchannelreq_mac.
  - exact beaconfreqreq_mac.
  - exact pingslotchannelreq_mac.
  - exact linkadrreq_mac.
Qed.
