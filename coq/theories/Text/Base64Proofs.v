(* Base64: decoding what was encoded gives the bytes back, for every byte string. *)
From Coq Require Import List NArith Bool Lia.
From LW Require Import Mac.ByteLemmas Text.Base64.
Import ListNotations.
Open Scope N_scope.

Lemma val_char v : v < 64 -> b64_val (b64_char v) = Some v.
Proof.
  intros H. assert (E : (match b64_val (b64_char v) with Some x => x =? v | None => false end) = true).
  { apply (sweep1 64 (fun v => match b64_val (b64_char v) with Some x => x =? v | None => false end)); [vm_compute; reflexivity|exact H]. }
  destruct (b64_val (b64_char v)); [apply N.eqb_eq in E; now subst|discriminate].
Qed.

Lemma char_plain v : v < 64 -> (b64_char v =? pad) = false /\ is_newline (b64_char v) = false.
Proof.
  intros H.
  assert (E : negb (b64_char v =? pad) && negb (is_newline (b64_char v)) = true).
  { apply (sweep1 64 (fun v => negb (b64_char v =? pad) && negb (is_newline (b64_char v)))); [vm_compute; reflexivity|exact H]. }
  apply andb_true_iff in E as [E1 E2]. split; [now apply negb_true_iff in E1|now apply negb_true_iff in E2].
Qed.

(* the six-bit groups of an encoded quantum are < 64 and reassemble to the bytes *)
Definition s1 a := N.shiftr a 2.
Definition s2 a b := N.lor (N.shiftl (N.land a 3) 4) (N.shiftr b 4).
Definition s3 b c := N.lor (N.shiftl (N.land b 15) 2) (N.shiftr c 6).
Definition s4 c := N.land c 63.

Lemma six_a a : a < 256 -> s1 a < 64.
Proof. intros H. apply N.ltb_lt. apply (sweep1 256 (fun a => s1 a <? 64)); [vm_compute; reflexivity|exact H]. Qed.
Lemma six_ab a b : a < 256 -> b < 256 -> s2 a b < 64.
Proof. intros Ha Hb. apply N.ltb_lt. apply (sweep2 256 256 (fun a b => s2 a b <? 64)); [vm_compute; reflexivity|exact Ha|exact Hb]. Qed.
Lemma six_c c : c < 256 -> s4 c < 64.
Proof. intros H. apply N.ltb_lt. apply (sweep1 256 (fun a => s4 a <? 64)); [vm_compute; reflexivity|exact H]. Qed.
Lemma six_b0 a : a < 256 -> N.shiftl (N.land a 3) 4 < 64.
Proof. intros H. apply N.ltb_lt. apply (sweep1 256 (fun a => N.shiftl (N.land a 3) 4 <? 64)); [vm_compute; reflexivity|exact H]. Qed.
Lemma six_c0 b : b < 256 -> N.shiftl (N.land b 15) 2 < 64.
Proof. intros H. apply N.ltb_lt. apply (sweep1 256 (fun a => N.shiftl (N.land a 15) 2 <? 64)); [vm_compute; reflexivity|exact H]. Qed.

Lemma re1 a b : a < 256 -> b < 256 -> q1 (s1 a) (s2 a b) = a.
Proof. intros Ha Hb. apply N.eqb_eq. apply (sweep2 256 256 (fun a b => q1 (s1 a) (s2 a b) =? a)); [vm_compute; reflexivity|exact Ha|exact Hb]. Qed.
Lemma re1' a : a < 256 -> q1 (s1 a) (N.shiftl (N.land a 3) 4) = a.
Proof. intros Ha. apply N.eqb_eq. apply (sweep1 256 (fun a => q1 (s1 a) (N.shiftl (N.land a 3) 4) =? a)); [vm_compute; reflexivity|exact Ha]. Qed.
(* q2 takes x2 = s2 a b and x3 = s3 b c: three bytes; split the sweep through the low nibble of b *)
Lemma re2_gen x b y : x < 4 -> b < 256 -> y < 4 ->
  q2 (N.lor (N.shiftl x 4) (N.shiftr b 4)) (N.lor (N.shiftl (N.land b 15) 2) y) = b.
Proof.
  intros Hx Hb Hy. apply N.eqb_eq.
  assert (H : forallb (fun y => q2 (N.lor (N.shiftl x 4) (N.shiftr b 4)) (N.lor (N.shiftl (N.land b 15) 2) y) =? b) (range 4) = true).
  { apply (sweep2 4 256 (fun x b => forallb (fun y => q2 (N.lor (N.shiftl x 4) (N.shiftr b 4)) (N.lor (N.shiftl (N.land b 15) 2) y) =? b) (range 4)));
      [vm_compute; reflexivity|exact Hx|exact Hb]. }
  rewrite forallb_forall in H. apply H. apply in_range. exact Hy.
Qed.
Lemma land3_lt a : N.land a 3 < 4.
Proof. change 3 with (N.ones 2). rewrite N.land_ones. apply N.mod_lt. discriminate. Qed.
Lemma shr6_lt c : c < 256 -> N.shiftr c 6 < 4.
Proof. intros H. apply N.ltb_lt. apply (sweep1 256 (fun c => N.shiftr c 6 <? 4)); [vm_compute; reflexivity|exact H]. Qed.
Lemma re2 a b c : a < 256 -> b < 256 -> c < 256 -> q2 (s2 a b) (s3 b c) = b.
Proof. intros Ha Hb Hc. apply re2_gen; [apply land3_lt|exact Hb|now apply shr6_lt]. Qed.
Lemma re2' a b : a < 256 -> b < 256 -> q2 (s2 a b) (N.shiftl (N.land b 15) 2) = b.
Proof.
  intros Ha Hb. replace (N.shiftl (N.land b 15) 2) with (N.lor (N.shiftl (N.land b 15) 2) 0) by apply N.lor_0_r.
  apply re2_gen; [apply land3_lt|exact Hb|reflexivity].
Qed.
Lemma re3 b c : b < 256 -> c < 256 -> q3 (s3 b c) (s4 c) = c.
Proof. intros Hb Hc. apply N.eqb_eq. apply (sweep2 256 256 (fun b c => q3 (s3 b c) (s4 c) =? c)); [vm_compute; reflexivity|exact Hb|exact Hc]. Qed.
Lemma six_bc b c : b < 256 -> c < 256 -> s3 b c < 64.
Proof. intros Hb Hc. apply N.ltb_lt. apply (sweep2 256 256 (fun a b => s3 a b <? 64)); [vm_compute; reflexivity|exact Hb|exact Hc]. Qed.

Definition bytes (bs : list N) : Prop := Forall (fun b => b < 256) bs.

(* encoded text contains no '\r' / '\n': the decoder's filter leaves it alone *)
Lemma encode_no_newline bs : bytes bs -> filter (fun c => negb (is_newline c)) (b64_encode bs) = b64_encode bs.
Proof.
  assert (P : is_newline pad = false) by reflexivity.
  assert (K : forall v r, v < 64 -> filter (fun c => negb (is_newline c)) (b64_char v :: r) = b64_char v :: filter (fun c => negb (is_newline c)) r).
  { intros v r H. cbn [filter]. destruct (char_plain v H) as [_ E]. now rewrite E. }
  revert bs. fix IH 1. intros bs H.
  destruct bs as [|a [|b [|c r]]]; [reflexivity| | |].
  - inversion H as [|? ? Ha _]; subst. cbn [b64_encode].
    rewrite !K by (apply six_a || apply six_b0; assumption). cbn [filter]. rewrite P. reflexivity.
  - inversion H as [|? ? Ha H1]; subst. inversion H1 as [|? ? Hb _]; subst. cbn [b64_encode].
    rewrite !K by (apply six_a || apply six_ab || apply six_c0; assumption). cbn [filter]. rewrite P. reflexivity.
  - inversion H as [|? ? Ha H1]; subst. inversion H1 as [|? ? Hb H2]; subst. inversion H2 as [|? ? Hc H3]; subst.
    cbn [b64_encode].
    rewrite !K by (apply six_a || apply six_ab || apply six_bc || apply six_c; assumption).
    rewrite (IH r H3). reflexivity.
Qed.

Lemma quanta_encode bs : bytes bs -> b64_quanta (b64_encode bs) = Some bs.
Proof.
  revert bs. fix IH 1. intros bs H.
  destruct bs as [|a [|b [|c r]]]; [reflexivity| | |].
  - inversion H as [|? ? Ha _]; subst. cbn [b64_encode b64_quanta].
    rewrite !val_char by (apply six_a || apply six_b0; assumption).
    change (pad =? pad) with true. cbn [andb].
    pose proof (re1' a Ha) as R. unfold s1 in R. now rewrite R.
  - inversion H as [|? ? Ha H1]; subst. inversion H1 as [|? ? Hb _]; subst. cbn [b64_encode b64_quanta].
    rewrite !val_char by (apply six_a || apply six_ab || apply six_c0; assumption).
    destruct (char_plain _ (six_c0 b Hb)) as [E _]. rewrite E.
    change (pad =? pad) with true.
    pose proof (re1 a b Ha Hb) as R1. pose proof (re2' a b Ha Hb) as R2. unfold s1, s2 in R1, R2.
    rewrite R1, R2. reflexivity.
  - inversion H as [|? ? Ha H1]; subst. inversion H1 as [|? ? Hb H2]; subst. inversion H2 as [|? ? Hc H3]; subst.
    cbn [b64_encode b64_quanta].
    rewrite !val_char by (apply six_a || apply six_ab || apply six_bc || apply six_c; assumption).
    destruct (char_plain _ (six_bc b c Hb Hc)) as [E3 _]. unfold s3 in E3. rewrite E3.
    destruct (char_plain _ (six_c c Hc)) as [E4 _]. unfold s4 in E4. rewrite E4.
    rewrite (IH r H3).
    pose proof (re1 a b Ha Hb) as R1. pose proof (re2 a b c Ha Hb Hc) as R2. pose proof (re3 b c Hb Hc) as R3.
    unfold s1, s2, s3, s4 in R1, R2, R3. rewrite R1, R2, R3. reflexivity.
Qed.

Theorem b64_decode_encode bs : bytes bs -> b64_decode (b64_encode bs) = Some bs.
Proof. intros H. unfold b64_decode. rewrite encode_no_newline by exact H. now apply quanta_encode. Qed.

(* length of the text: four characters per started group of three bytes *)
Lemma b64_encode_length bs : length (b64_encode bs) = Nat.mul 4 (Nat.div (length bs + 2)%nat 3).
Proof.
  revert bs. fix IH 1. intros bs.
  destruct bs as [|a [|b [|c r]]]; [reflexivity|reflexivity|reflexivity|].
  cbn [b64_encode length]. rewrite (IH r).
  replace (S (S (S (length r))) + 2)%nat with (length r + 2 + 1 * 3)%nat by lia.
  rewrite PeanoNat.Nat.div_add by discriminate. lia.
Qed.

(* decoded bytes are bytes *)
Lemma q_lt x y : q1 x y < 256 /\ q2 x y < 256 /\ q3 x y < 256.
Proof.
  unfold q1, q2, q3. change 255 with (N.ones 8). rewrite !N.land_ones.
  repeat split; apply N.mod_lt; discriminate.
Qed.
