(* Frequency / Percentage JSON round trip: exactness for all values of the
   domain, from the IEEE-754 semantics of Coq's primitive floats.

   The link between the primitive operations (PrimFloat.div, mul, of_uint63,
   Prim2SF) and real-number rounding is Flocq's IEEE754.PrimFloat bridge
   (mul_equiv, div_equiv, of_int63_equiv, B2SF_Prim2B), which rests on the
   axioms of Coq's own Floats library (FloatAxioms: mul_spec, div_spec,
   of_uint63_spec, Prim2SF_valid, ...): they state that the kernel's float
   operations are the correctly rounded binary64 operations.  Print Assumptions
   lists them together with the standard-library real-number axioms. *)
From Coq Require Import ZArith Reals Floats Lra Lia Bool.
From Flocq Require Import Core IEEE754.Binary IEEE754.PrimFloat IEEE754.BinarySingleNaN.
From Flocq Require Import Relative.
From LW Require Import Backend.F64.
Open Scope R_scope.

(* ---- the real-number core (DESIGN App. A4), for any scale c <> 0 ---- *)
Lemma scale_err (f c d1 d2 : R) :
  c <> 0 -> 0 <= f <= 4294967296 ->
  Rabs d1 <= / 9007199254740992 -> Rabs d2 <= / 9007199254740992 ->
  Rabs (f / c * (1 + d1) * c * (1 + d2) - f) < / 2.
Proof.
  intros Hc Hf H1 H2.
  replace (f / c * (1 + d1) * c * (1 + d2) - f) with (f * (d1 + d2 + d1 * d2)) by (field; exact Hc).
  assert (E1 : - / 9007199254740992 <= d1 <= / 9007199254740992) by (apply Rabs_le_inv; exact H1).
  assert (E2 : - / 9007199254740992 <= d2 <= / 9007199254740992) by (apply Rabs_le_inv; exact H2).
  set (e := / 9007199254740992) in *.
  assert (He : 0 < e < / 1000000000000000) by (unfold e; lra).
  assert (E3 : - e <= d1 * d2 <= e) by nra.
  set (s := d1 + d2 + d1 * d2).
  assert (Es : - (3 * e) <= s <= 3 * e) by (unfold s; lra).
  assert (Ep : - (4294967296 * (3 * e)) <= f * s <= 4294967296 * (3 * e)) by nra.
  apply Rabs_def1; unfold e in *; lra.
Qed.

(* ---- exact real value of a primitive float ---- *)
Definition toR (x : PrimFloat.float) : R := SF2R radix2 (Prim2SF x).
Definition finite (x : PrimFloat.float) : bool := is_finite_SF (Prim2SF x).

Lemma toR_B2R x : toR x = B2R (Prim2B x).
Proof. unfold toR. rewrite <- B2SF_Prim2B. apply SF2R_B2SF. Qed.

Lemma finite_B x : finite x = is_finite (Prim2B x).
Proof. unfold finite. rewrite <- B2SF_Prim2B. apply is_finite_SF_B2SF. Qed.

Lemma IZR_half_eq (v n : Z) : Rabs (IZR v - IZR n) < / 2 -> v = n.
Proof.
  intros H. rewrite <- minus_IZR in H.
  assert (Hlt : (Z.abs (v - n) < 1)%Z).
  { apply lt_IZR. rewrite abs_IZR. lra. }
  lia.
Qed.

Lemma bpow_nonneg_IZR (e : Z) : (0 <= e)%Z -> bpow radix2 e = IZR (2 ^ e).
Proof. intros H. rewrite <- (IZR_Zpower radix2 e H). reflexivity. Qed.

Lemma bpow_neg_IZR (e : Z) : (e < 0)%Z -> bpow radix2 e = / IZR (2 ^ (- e)).
Proof.
  intros H. replace e with (- (- e))%Z at 1 by lia. rewrite bpow_opp.
  rewrite <- (IZR_Zpower radix2 (- e)) by lia. reflexivity.
Qed.

(* Go int(math.Round(x)) returns n as soon as x is within 1/2 of n (n >= 0) *)
Lemma round_to_Z_close x n :
  (0 <= n < 4611686018427387904)%Z -> finite x = true ->
  Rabs (toR x - IZR n) < / 2 -> round_to_Z x = Some n.
Proof.
  intros Hn Hfin Hclose. unfold round_to_Z, decompose, toR, finite in *.
  destruct (Prim2SF x) as [s| | |s m e]; try discriminate.
  - (* zero *)
    cbn [SF2R] in Hclose. assert (n = 0%Z) by (symmetry; apply IZR_half_eq; exact Hclose). subst n.
    cbn. destruct s; reflexivity.
  - cbn [SF2R] in Hclose. unfold F2R in Hclose. cbn [Fnum Fexp] in Hclose.
    destruct (Z.leb_spec 0 e) as [He|He].
    + (* integer value *)
      rewrite bpow_nonneg_IZR in Hclose by exact He. rewrite <- mult_IZR in Hclose.
      apply IZR_half_eq in Hclose.
      rewrite Z.shiftl_mul_pow2 by exact He.
      assert (0 < 2 ^ e)%Z by (apply Z.pow_pos_nonneg; lia).
      destruct s; cbn [cond_Zopp] in Hclose.
      * exfalso. nia.
      * rewrite Hclose. replace (in_int64 n) with true; [reflexivity|]. unfold in_int64. lia.
    + (* m / 2^k *)
      set (k := (- e)%Z) in *. assert (Hk : (0 < k)%Z) by (unfold k; lia).
      rewrite bpow_neg_IZR in Hclose by exact He. fold k in Hclose.
      set (P := (2 ^ k)%Z) in *. assert (HP : (0 < P)%Z) by (apply Z.pow_pos_nonneg; lia).
      assert (HPR : 0 < IZR P) by (apply IZR_lt; exact HP).
      apply Rabs_def2 in Hclose. destruct Hclose as [Hu Hl].
      set (c := cond_Zopp s (Z.pos m)) in *.
      assert (Hz : (- P < 2 * c - 2 * n * P < P)%Z).
      { assert (Ec : IZR c = (IZR c * / IZR P) * IZR P) by (field; lra).
        set (q := IZR c * / IZR P) in *.
        split; apply lt_IZR; rewrite ?opp_IZR, ?minus_IZR, ?mult_IZR; rewrite Ec; nra. }
      rewrite Z.shiftr_div_pow2 by lia. rewrite Z.shiftl_mul_pow2 by lia.
      replace (2 ^ (k + 1))%Z with (2 * P)%Z by (unfold P; rewrite Z.pow_add_r by lia; lia).
      fold P. rewrite Z.mul_1_l.
      destruct s; unfold c in Hz; cbn [cond_Zopp] in Hz.
      * (* negative value close to n >= 0: n = 0 and the magnitude rounds to 0 *)
        assert (n = 0)%Z by nia. subst n.
        replace ((2 * Z.pos m + P) / (2 * P))%Z with 0%Z; [reflexivity|].
        symmetry. apply Z.div_small. lia.
      * replace ((2 * Z.pos m + P) / (2 * P))%Z with n.
        { replace (in_int64 n) with true; [reflexivity|]. unfold in_int64. lia. }
        apply Z.div_unique with (r := (2 * Z.pos m + P - 2 * P * n)%Z); [left; lia|ring].
Qed.

(* ---- the primitive operations as correctly rounded real operations ---- *)
Notation fmt := (FLT_exp (-1074) 53).
Notation rnd := (round radix2 fmt ZnearestE).

Lemma fexp_fmt : SpecFloat.fexp prec emax = fmt.
Proof. reflexivity. Qed.

Lemma fmt_valid : Valid_exp fmt.
Proof. apply FLT_exp_valid. reflexivity. Qed.

Lemma bpow_fmt e : (-1074 <= e)%Z -> generic_format radix2 fmt (bpow radix2 e).
Proof. intros H. apply generic_format_FLT_bpow; [reflexivity|exact H]. Qed.

Lemma no_overflow q : Rabs q <= bpow radix2 1000 ->
  Rlt_bool (Rabs (round radix2 (SpecFloat.fexp prec emax) (round_mode mode_NE) q)) (bpow radix2 emax) = true.
Proof.
  intros H. apply Rlt_bool_true. rewrite fexp_fmt. cbn [round_mode].
  apply Rle_lt_trans with (bpow radix2 1000).
  - apply abs_round_le_generic; [apply fmt_valid|apply valid_rnd_N|apply bpow_fmt; lia|exact H].
  - apply bpow_lt. reflexivity.
Qed.

Lemma of_Z_R f : (0 <= f < 9007199254740992)%Z -> toR (f_of_Z f) = IZR f /\ finite (f_of_Z f) = true.
Proof.
  intros Hf. rewrite toR_B2R, finite_B. unfold f_of_Z.
  destruct (Z.ltb_spec f 0) as [|_]; [lia|].
  rewrite of_int63_equiv.
  assert (Hto : Uint63.to_Z (Uint63.of_Z f) = f).
  { rewrite Uint63.of_Z_spec. apply Z.mod_small. unfold Uint63.wB. cbn. lia. }
  rewrite Hto.
  pose proof (binary_normalize_correct prec emax Hprec Hmax mode_NE f 0 false) as H. cbv zeta in H.
  assert (Hx : F2R (Float radix2 f 0) = IZR f) by (unfold F2R; cbn; lra).
  rewrite Hx in H.
  assert (Hg : generic_format radix2 fmt (IZR f)).
  { apply generic_format_FLT. apply (FLT_spec radix2 (-1074) 53 (IZR f) (Float radix2 f 0)); cbn [Fnum Fexp].
    - symmetry. exact Hx.
    - change (radix2 ^ 53)%Z with 9007199254740992%Z. lia.
    - lia. }
  assert (Hr : round radix2 (SpecFloat.fexp prec emax) (round_mode mode_NE) (IZR f) = IZR f).
  { rewrite fexp_fmt. apply round_generic; [apply valid_rnd_N|exact Hg]. }
  rewrite Hr in H.
  rewrite Rlt_bool_true in H.
  - destruct H as (H1 & H2 & _). split; assumption.
  - rewrite Rabs_pos_eq by (apply IZR_le; lia).
    apply Rlt_trans with (bpow radix2 53).
    + rewrite bpow_nonneg_IZR by lia. apply IZR_lt. change (2 ^ 53)%Z with 9007199254740992%Z. lia.
    + apply bpow_lt. reflexivity.
Qed.

Lemma div_R x y : finite x = true -> finite y = true -> toR y <> 0 ->
  Rabs (toR x / toR y) <= bpow radix2 1000 ->
  toR (x / y) = rnd (toR x / toR y) /\ finite (x / y) = true.
Proof.
  intros Hx Hy Hy0 Hb. rewrite !toR_B2R, !finite_B in *. rewrite div_equiv.
  pose proof (Bdiv_correct prec emax Hprec Hmax mode_NE (Prim2B x) (Prim2B y) Hy0) as H.
  rewrite no_overflow in H by exact Hb.
  destruct H as (H1 & H2 & _). rewrite fexp_fmt in H1. cbn [round_mode] in H1.
  split; [exact H1|]. rewrite H2. exact Hx.
Qed.

Lemma mul_R x y : finite x = true -> finite y = true ->
  Rabs (toR x * toR y) <= bpow radix2 1000 ->
  toR (x * y) = rnd (toR x * toR y) /\ finite (x * y) = true.
Proof.
  intros Hx Hy Hb. rewrite !toR_B2R, !finite_B in *. rewrite mul_equiv.
  pose proof (Bmult_correct prec emax Hprec Hmax mode_NE (Prim2B x) (Prim2B y)) as H.
  rewrite no_overflow in H by exact Hb.
  destruct H as (H1 & H2 & _). rewrite fexp_fmt in H1. cbn [round_mode] in H1.
  split; [exact H1|]. rewrite H2, Hx, Hy. reflexivity.
Qed.

(* relative error of one rounding, u = 2^-53 (also for 0, which is exact) *)
Lemma rel_err x : x = 0 \/ bpow radix2 (-1022) <= Rabs x ->
  exists d, Rabs d <= / 9007199254740992 /\ rnd x = x * (1 + d).
Proof.
  intros [->|H].
  - exists 0. split; [rewrite Rabs_R0; lra|]. rewrite round_0 by apply valid_rnd_N. ring.
  - destruct (relative_error_N_FLT_ex radix2 (-1074) 53 ltac:(reflexivity) (fun z => negb (Z.even z)) x H) as (d & Hd & E).
    exists d. split; [|exact E].
    replace (/ 9007199254740992) with (/ 2 * bpow radix2 (- (53) + 1)); [exact Hd|].
    rewrite bpow_neg_IZR by lia. change (2 ^ (- (- (53) + 1)))%Z with 4503599627370496%Z. lra.
Qed.

Lemma small_le_bpow1000 x : Rabs x <= 1152921504606846976 -> Rabs x <= bpow radix2 1000.
Proof.
  intros H. apply Rle_trans with (bpow radix2 60).
  - rewrite bpow_nonneg_IZR by lia. change (2 ^ 60)%Z with 1152921504606846976%Z. exact H.
  - apply bpow_le. lia.
Qed.

Lemma bpow_m1022_le x : / 1073741824 <= Rabs x -> bpow radix2 (-1022) <= Rabs x.
Proof.
  intros H. apply Rle_trans with (bpow radix2 (-30)).
  - apply bpow_le. lia.
  - rewrite bpow_neg_IZR by lia. change (2 ^ (- (-30)))%Z with 1073741824%Z. exact H.
Qed.

(* x -> x / c -> * c -> Round, for an integer 0 <= f < 2^32 and a scale 1 <= C <= 2^20 *)
Theorem scale_round_trip (c : PrimFloat.float) (C : R) (f : Z) :
  finite c = true -> toR c = C -> 1 <= C <= 1048576 ->
  (0 <= f < 4294967296)%Z ->
  round_to_Z (PrimFloat.mul (PrimFloat.div (f_of_Z f) c) c) = Some f.
Proof.
  intros Fc Ec HC Hf.
  destruct (of_Z_R f ltac:(lia)) as [E0 F0].
  assert (HfR : 0 <= IZR f <= 4294967295).
  { split; apply IZR_le; lia. }
  assert (Hf1 : f = 0%Z \/ 1 <= IZR f).
  { destruct (Z.eq_dec f 0) as [->|Hn]; [left; reflexivity|right; apply IZR_le; lia]. }
  assert (Hinv : 0 < / C <= 1).
  { split; [apply Rinv_0_lt_compat; lra|]. rewrite <- Rinv_1. apply Rinv_le_contravar; lra. }
  (* division *)
  assert (Hq0 : 0 <= IZR f / C <= 4294967295).
  { unfold Rdiv. split; [apply Rmult_le_pos; lra|]. nra. }
  destruct (div_R (f_of_Z f) c F0 Fc) as [E1 F1].
  { rewrite Ec. lra. }
  { rewrite E0, Ec. apply small_le_bpow1000. rewrite Rabs_pos_eq by lra. lra. }
  rewrite E0, Ec in E1.
  destruct (rel_err (IZR f / C)) as (d1 & Hd1 & R1).
  { destruct Hf1 as [->|H1]; [left; unfold Rdiv; ring|right].
    apply bpow_m1022_le. rewrite Rabs_pos_eq by lra.
    assert (/ 1048576 <= / C) by (apply Rinv_le_contravar; lra).
    unfold Rdiv. nra. }
  rewrite R1 in E1.
  assert (Ed1 : - / 9007199254740992 <= d1 <= / 9007199254740992) by (apply Rabs_le_inv; exact Hd1).
  (* multiplication *)
  set (q := PrimFloat.div (f_of_Z f) c) in *.
  assert (Hm : toR q * C = IZR f * (1 + d1)).
  { rewrite E1. field. lra. }
  destruct (mul_R q c F1 Fc) as [E2 F2].
  { rewrite Ec, Hm. apply small_le_bpow1000. rewrite Rabs_pos_eq by nra. nra. }
  rewrite Ec in E2.
  destruct (rel_err (toR q * C)) as (d2 & Hd2 & R2).
  { rewrite Hm. destruct Hf1 as [->|H1]; [left; ring|right].
    apply bpow_m1022_le. rewrite Rabs_pos_eq by nra. nra. }
  rewrite R2, E1 in E2.
  (* closeness and the integer conversion *)
  apply round_to_Z_close; [lia|exact F2|].
  rewrite E2. apply scale_err; [lra|lra|exact Hd1|exact Hd2].
Qed.

Lemma toR_1e6 : toR f_1e6 = 1000000 /\ finite f_1e6 = true.
Proof.
  unfold toR, finite.
  replace (Prim2SF f_1e6) with (S754_finite false 8589934592000000 (-33)) by (vm_compute; reflexivity).
  split; [|reflexivity]. cbn [SF2R cond_Zopp]. unfold F2R. cbn [Fnum Fexp].
  rewrite bpow_neg_IZR by lia. change (2 ^ (- (-33)))%Z with 8589934592%Z. lra.
Qed.

Lemma toR_100 : toR f_100 = 100 /\ finite f_100 = true.
Proof.
  unfold toR, finite.
  replace (Prim2SF f_100) with (S754_finite false 7036874417766400 (-46)) by (vm_compute; reflexivity).
  split; [|reflexivity]. cbn [SF2R cond_Zopp]. unfold F2R. cbn [Fnum Fexp].
  rewrite bpow_neg_IZR by lia. change (2 ^ (- (-46)))%Z with 70368744177664%Z. lra.
Qed.

(* every frequency 0 <= f < 2^32 Hz survives Marshal (Hz -> MHz float) and Unmarshal (math.Round) *)
Theorem freq_exact f : (0 <= f < 4294967296)%Z -> freq_rt f = Some f.
Proof.
  intros Hf. unfold freq_rt, freq_unmarshal, freq_marshal.
  destruct toR_1e6 as [E F]. apply (scale_round_trip f_1e6 1000000 f F E); [lra|exact Hf].
Qed.

(* and every percentage 0 <= p < 2^32 (in particular 0..100) *)
Theorem pct_exact_real p : (0 <= p < 4294967296)%Z -> pct_rt p = Some p.
Proof.
  intros Hp. unfold pct_rt, pct_unmarshal, pct_marshal.
  destruct toR_100 as [E F]. apply (scale_round_trip f_100 100 p F E); [lra|exact Hp].
Qed.
