(* LoRaWAN Backend Interfaces addressing rules, written independently of
   the code: DevAddr = type prefix | NwkID | NwkAddr. *)
From Coq Require Import List NArith ZArith Bool.
Import ListNotations.
Open Scope N_scope.

(* NetID layout: 3 type bits, then the ID field in the low bits *)
Definition spec_type (v : N) : N := v / 2 ^ 21.
Definition spec_id_width (t : N) : N :=
  match t with 0 => 6 | 1 => 6 | 2 => 9 | 3 => 21 | 4 => 21 | 5 => 21 | 6 => 21 | 7 => 21 | _ => 0 end.
Definition spec_id (v : N) : N := v mod 2 ^ spec_id_width (spec_type v).

(* DevAddr layout by type: prefix of (t+1) bits = t ones then a zero *)
Definition spec_prefix_len (t : N) : N := t + 1.
Definition spec_prefix_val (t : N) : N := 2 ^ (t + 1) - 2.
Definition spec_nwkid_width (t : N) : N :=
  match t with 0 => 6 | 1 => 6 | 2 => 9 | 3 => 11 | 4 => 12 | 5 => 13 | 6 => 15 | 7 => 17 | _ => 0 end.
Definition spec_nwkid (v : N) : N := spec_id v mod 2 ^ spec_nwkid_width (spec_type v).

Definition spec_addr_bits (t : N) : N := 32 - spec_prefix_len t - spec_nwkid_width t.

Definition spec_addr (v a : N) : N :=
  let t := spec_type v in
  spec_prefix_val t * 2 ^ (32 - spec_prefix_len t)
  + spec_nwkid v * 2 ^ spec_addr_bits t
  + a mod 2 ^ spec_addr_bits t.

Definition spec_member (v a : N) : bool :=
  let t := spec_type v in
  (a / 2 ^ (32 - spec_prefix_len t) =? spec_prefix_val t)
  && ((a / 2 ^ spec_addr_bits t) mod 2 ^ spec_nwkid_width t =? spec_nwkid v).
