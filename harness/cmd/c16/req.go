package main

import (
	"bytes"
	"encoding/hex"
	"encoding/json"
	"errors"
	"fmt"
	"net/http"
	"net/http/httptest"
	"strings"

	"github.com/brocaar/lorawan"
	"github.com/brocaar/lorawan/backend/joinserver"
	"verifharness/internal/cases"
	"verifharness/internal/cq"
)

// ---------- configuration table behind the four callbacks ----------

const (
	found = iota
	notFound
	lookErr
)

type devEntry struct {
	eui       [8]byte
	kind      int
	nwk, app  [16]byte
	joinNonce int
}
type kekEntry struct {
	label string
	kek   []byte // pristine value: printed into the case, used by the oracles
	err   bool
	live  []byte // the slice the callback hands out (the key store's own storage, as a map-backed callback does)
}
type asEntry struct {
	eui   [8]byte
	label string
	err   bool
}
type homeEntry struct {
	eui   [8]byte
	kind  int
	netID [3]byte
}
type table struct {
	devices  []devEntry
	keks     []kekEntry
	aslabels []asEntry
	home     []homeEntry
	// optional configuration functions left nil in HandlerConfig (NewHandler installs its defaults:
	// no KEK, no AS label, ErrDevEUINotFound - exactly what an empty list means in the printed table)
	nilKEK, nilASLabel, nilHome bool
}

var errBackend = errors.New("storage unavailable")

// staleEUI: what the device-key records carry in their redundant DevEUI field: zero for half of the
// devices, the EUI of a decoy device (which has its own AS-KEK label and KEK in every table) for the rest
func staleEUI(e lorawan.EUI64) lorawan.EUI64 {
	if e[7]&1 == 0 {
		return lorawan.EUI64{}
	}
	return decoyEUI(e)
}

func decoyEUI(e [8]byte) (d [8]byte) {
	d = e
	d[0] ^= 0xa5
	d[7] ^= 0xfe // keeps bit 0
	return d
}

func (t *table) handler() http.Handler {
	if t.nilKEK && len(t.keks) != 0 || t.nilASLabel && len(t.aslabels) != 0 || t.nilHome && len(t.home) != 0 {
		panic("harness: a nil configuration function cannot have table entries")
	}
	cfg := t.config()
	if t.nilKEK {
		cfg.GetKEKByLabelFunc = nil
	}
	if t.nilASLabel {
		cfg.GetASKEKLabelByDevEUIFunc = nil
	}
	if t.nilHome {
		cfg.GetHomeNetIDByDevEUIFunc = nil
	}
	h, err := joinserver.NewHandler(cfg)
	if err != nil {
		panic(err)
	}
	return h
}

func (t *table) config() joinserver.HandlerConfig {
	return joinserver.HandlerConfig{
		GetDeviceKeysByDevEUIFunc: func(e lorawan.EUI64) (joinserver.DeviceKeys, error) {
			for _, d := range t.devices {
				if d.eui == e {
					switch d.kind {
					case found:
						// DeviceKeys.DevEUI is redundant (the callback was asked for e): an integrator need not fill it, or may
						// hand out a stale record.  Zero or another device's EUI, never e: a handler that passes this field
						// on to another callback instead of the request's DevEUI shows.
						return joinserver.DeviceKeys{DevEUI: staleEUI(e), NwkKey: d.nwk, AppKey: d.app, JoinNonce: d.joinNonce}, nil
					case notFound:
						return joinserver.DeviceKeys{}, joinserver.ErrDevEUINotFound
					default:
						return joinserver.DeviceKeys{}, errBackend
					}
				}
			}
			return joinserver.DeviceKeys{}, joinserver.ErrDevEUINotFound
		},
		GetKEKByLabelFunc: func(label string) ([]byte, error) {
			for i := range t.keks {
				k := &t.keks[i]
				if k.label == label {
					if k.err {
						return nil, errBackend
					}
					if k.live == nil {
						k.live = append([]byte{}, k.kek...)
					}
					return k.live, nil // not a copy: a handler that writes into it corrupts the key store
				}
			}
			return nil, nil
		},
		GetASKEKLabelByDevEUIFunc: func(e lorawan.EUI64) (string, error) {
			for _, a := range t.aslabels {
				if a.eui == e {
					if a.err {
						return "", errBackend
					}
					return a.label, nil
				}
			}
			return "", nil
		},
		GetHomeNetIDByDevEUIFunc: func(e lorawan.EUI64) (lorawan.NetID, error) {
			for _, h := range t.home {
				if h.eui == e {
					switch h.kind {
					case found:
						return h.netID, nil
					case notFound:
						return lorawan.NetID{}, joinserver.ErrDevEUINotFound
					default:
						return lorawan.NetID{}, errBackend
					}
				}
			}
			return lorawan.NetID{}, joinserver.ErrDevEUINotFound
		},
	}
}

// mutated reports a KEK whose storage the handler has written to.
func (t *table) mutated() string {
	for _, k := range t.keks {
		if k.live != nil && !bytes.Equal(k.live, k.kek) {
			return fmt.Sprintf("KEK stored under label %q was %x before the request and is %x after it", k.label, k.kek, k.live)
		}
	}
	return ""
}

func (t *table) kek(label string) []byte {
	for _, k := range t.keks {
		if k.label == label && !k.err {
			return k.kek
		}
	}
	return nil
}

func (t *table) coq() string {
	var ds, ks, as, hs []string
	for _, d := range t.devices {
		v := "NotFound"
		switch d.kind {
		case found:
			v = fmt.Sprintf("(Found (mkDevKeys %s %s %s))", cq.Bytes(d.nwk[:]), cq.Bytes(d.app[:]), cq.Z(int64(d.joinNonce)))
		case lookErr:
			v = "LookErr"
		}
		ds = append(ds, cq.Tuple(cq.Bytes(d.eui[:]), v))
	}
	for _, k := range t.keks {
		v := cq.Ok(cq.Bytes(k.kek))
		if k.err {
			v = cq.Err
		}
		ks = append(ks, cq.Tuple(cq.Str(k.label), v))
	}
	for _, a := range t.aslabels {
		v := cq.Ok(cq.Str(a.label))
		if a.err {
			v = cq.Err
		}
		as = append(as, cq.Tuple(cq.Bytes(a.eui[:]), v))
	}
	for _, h := range t.home {
		v := "NotFound"
		switch h.kind {
		case found:
			v = fmt.Sprintf("(Found %s)", cq.Bytes(h.netID[:]))
		case lookErr:
			v = "LookErr"
		}
		hs = append(hs, cq.Tuple(cq.Bytes(h.eui[:]), v))
	}
	return fmt.Sprintf("(mkTable %s %s %s %s)", cq.List(ds), cq.List(ks), cq.List(as), cq.List(hs))
}

func (t *table) replay() map[string]interface{} {
	var ds, ks, as, hs []string
	kinds := []string{"found", "ErrDevEUINotFound", "other error"}
	for _, d := range t.devices {
		ds = append(ds, fmt.Sprintf("DevEUI=%x %s NwkKey=%x AppKey=%x JoinNonce=%d", d.eui, kinds[d.kind], d.nwk, d.app, d.joinNonce))
	}
	for _, k := range t.keks {
		ks = append(ks, fmt.Sprintf("label=%q kek=%x err=%v", k.label, k.kek, k.err))
	}
	for _, a := range t.aslabels {
		as = append(as, fmt.Sprintf("DevEUI=%x label=%q err=%v", a.eui, a.label, a.err))
	}
	for _, h := range t.home {
		hs = append(hs, fmt.Sprintf("DevEUI=%x %s NetID=%x", h.eui, kinds[h.kind], h.netID))
	}
	m := map[string]interface{}{"GetDeviceKeysByDevEUI": ds, "GetKEKByLabel": ks, "GetASKEKLabelByDevEUI": as, "GetHomeNetIDByDevEUI": hs}
	if t.nilKEK {
		m["GetKEKByLabel"] = "nil function in HandlerConfig"
	}
	if t.nilASLabel {
		m["GetASKEKLabelByDevEUI"] = "nil function in HandlerConfig"
	}
	if t.nilHome {
		m["GetHomeNetIDByDevEUI"] = "nil function in HandlerConfig"
	}
	return m
}

// ---------- request ----------

// req is what the harness puts into the JSON body.  Text fields that go through an UnmarshalText
// method of the repository are *string (nil = field absent or null).
type req struct {
	raw                                         string // non-empty: the body verbatim, encoding/json rejects it (BadJSON)
	sender, receiver, mtype                     string
	txid                                        uint32
	senderToken, phy, devEUI, devAddr, dls, cfl *string
	rxDelay                                     int64
	omit                                        map[string]bool // zero-valued fields left out of the body
	null                                        map[string]bool // absent text fields sent as JSON null
	// pass-through / ignorable content that makes the document long (not part of the Coq term: the
	// handler must answer as for the short request): ReceiverToken hex text, VSExtension.Object,
	// unknown members, insignificant whitespace
	// rawMember: name -> raw JSON value of a member of the base or typed payload that encoding/json (or the
	// UnmarshalText of a member the model does not carry: ReceiverToken, VSExtension.VendorID) refuses.
	// Decoding goes on after a member error: class BadMember of the model, the request carries the zero
	// value for the refused member.
	rawMember         map[string]string
	receiverOverride  string
	recvToken         *string
	vsObjectPad       int // > 0: "VSExtension":{"VendorID":"0a0b0c","Object":{"pad":"xxx..."}} with that many x
	unknownPad        int // > 0: unknown members carrying that many bytes of string data
	wsPad             int // spaces between the tokens
	padNote           string
}

func sp(s string) *string { return &s }

func jstr(s string) string {
	for _, c := range []byte(s) {
		if c < 0x20 || c > 0x7e || c == '"' || c == '\\' {
			panic("harness: string needs JSON escaping: " + s)
		}
	}
	return `"` + s + `"`
}

func (r *req) body() string {
	if r.raw != "" {
		return r.raw
	}
	var fs []string
	add := func(name, val string) { fs = append(fs, jstr(name)+":"+val) }
	str := func(name, v string) {
		if raw, ok := r.rawMember[name]; ok {
			add(name, raw)
		} else if !(r.omit[name] && v == "") {
			add(name, jstr(v))
		}
	}
	txt := func(name string, v *string) {
		if raw, ok := r.rawMember[name]; ok {
			add(name, raw)
		} else if v != nil {
			add(name, jstr(*v))
		} else if r.null[name] {
			add(name, "null")
		}
	}
	add("ProtocolVersion", jstr("1.0"))
	str("SenderID", r.sender)
	str("ReceiverID", r.receiver)
	if raw, ok := r.rawMember["TransactionID"]; ok {
		add("TransactionID", raw)
	} else if !(r.omit["TransactionID"] && r.txid == 0) {
		add("TransactionID", fmt.Sprint(r.txid))
	}
	str("MessageType", r.mtype)
	txt("SenderToken", r.senderToken)
	txt("ReceiverToken", r.recvToken)
	if raw, ok := r.rawMember["VSExtension"]; ok {
		add("VSExtension", raw)
	} else if r.vsObjectPad > 0 {
		add("VSExtension", `{"VendorID":"0a0b0c","Object":{"pad":"`+strings.Repeat("x", r.vsObjectPad)+`","n":[1,2,{"deep":null}]}}`)
	}
	if r.unknownPad > 0 {
		add("X-Vendor-Blob", jstr(strings.Repeat("u", r.unknownPad)))
		add("Unknown2", `[1,2.5,{"a":"b"},null,true]`)
	}
	add("MACVersion", jstr("1.1.0"))
	txt("PHYPayload", r.phy)
	txt("DevEUI", r.devEUI)
	txt("DevAddr", r.devAddr)
	txt("DLSettings", r.dls)
	if raw, ok := r.rawMember["RxDelay"]; ok {
		add("RxDelay", raw)
	} else if !(r.omit["RxDelay"] && r.rxDelay == 0) {
		add("RxDelay", fmt.Sprint(r.rxDelay))
	}
	txt("CFList", r.cfl)
	if r.wsPad > 0 {
		// insignificant whitespace: after the opening brace, after the first comma, before the closing brace
		n1, n2 := r.wsPad/3, r.wsPad/3
		n3 := r.wsPad - n1 - n2
		rest := strings.Join(fs[1:], ",")
		return "{" + strings.Repeat(" ", n1) + fs[0] + "," + strings.Repeat("\n", n2) + rest + strings.Repeat("\t", n3) + "}"
	}
	return "{" + strings.Join(fs, ",") + "}"
}

const (
	padToken = iota
	padVSExtension
	padUnknown
	padWhitespace
)

// padTo makes the body exactly `total` bytes long with ignorable content of the given kind.
func (r *req) padTo(method, total int) {
	names := []string{"SenderToken / ReceiverToken hex text", "VSExtension.Object", "unknown members", "insignificant whitespace"}
	r.padNote = fmt.Sprintf("body padded to %d bytes with %s", total, names[method])
	set := func(n int) {
		if n < 0 {
			n = 0
		}
		switch method {
		case padToken:
			t := strings.Repeat("5a", n/2)
			if total <= 8<<10 { // short enough to be printed into the Coq term: the modelled SenderToken
				r.senderToken, r.recvToken = &t, nil
			} else {
				r.senderToken, r.recvToken = nil, &t
			}
			r.wsPad = n % 2
		case padVSExtension:
			r.vsObjectPad = n
		case padUnknown:
			r.unknownPad = n
		case padWhitespace:
			r.wsPad = n
		}
	}
	n := 1
	set(n)
	for i := 0; i < 8; i++ {
		d := total - len(r.body())
		if d == 0 {
			return
		}
		n += d
		if n < 1 {
			n = 1
		}
		set(n)
	}
	panic(fmt.Sprintf("harness: cannot pad the body to %d bytes (%d)", total, len(r.body())))
}

// replayBody: the body as stored in replay files (long padding is described, not repeated)
func (r *req) replayBody(body string) string {
	if len(body) <= 6000 {
		return body
	}
	return body[:700] + " …[" + r.padNote + "; the padding is the repeated character visible here]… " + body[len(body)-300:]
}

func jval(v *string) string {
	if v == nil {
		return "JAbsent"
	}
	return "(JText " + cq.Str(*v) + ")"
}

func (r *req) coq() string {
	if r.raw != "" {
		return "BadJSON"
	}
	ctor := "Body"
	if len(r.rawMember) > 0 {
		ctor = "BadMember"
	}
	return fmt.Sprintf("(%s (mkRequest %s %s %d %s %s %s %s %s %s %s %s))", ctor, cq.Str(r.sender), cq.Str(r.receiver), r.txid,
		cq.Str(r.mtype), jval(r.senderToken), jval(r.phy), jval(r.devEUI), jval(r.devAddr), jval(r.dls), cq.Z(r.rxDelay), jval(r.cfl))
}

// ---------- answer ----------

type answer struct {
	panicked bool
	garbage  string // non-empty: the response body is not what any answer looks like
	status   int
	bare     bool
	mtype    string
	proto    string
	sender   string
	receiver string
	txid     uint64
	rc       string
	phy      []byte
	lifetime *int64
	keys     [5]*envelope // SNwkSIntKey FNwkSIntKey NwkSEncKey NwkSKey AppSKey
	hnetid   []byte
	hasHNet  bool
	rawBody  string
}

var keyNames = [5]string{"SNwkSIntKey", "FNwkSIntKey", "NwkSEncKey", "NwkSKey", "AppSKey"}

// send: one request, watched by the harness watchdog (a handler that does not return is reported
// as hang:<body> instead of blocking the check)
func send(h http.Handler, body string) (a answer) {
	short := body
	if len(short) > 6000 {
		short = fmt.Sprintf("%s …(%d bytes)", body[:700], len(body))
	}
	cases.Begin("ServeHTTP:"+short, map[string]interface{}{"api": "joinserver.NewHandler(config).ServeHTTP (POST body)", "body": short})
	defer cases.End()
	return sendUnwatched(h, body)
}

// sendUnwatched: used from the concurrent runs (the watchdog slot is process-wide)
func sendUnwatched(h http.Handler, body string) (a answer) {
	rec := httptest.NewRecorder()
	func() {
		defer func() {
			if r := recover(); r != nil {
				a.panicked = true
				a.garbage = fmt.Sprint(r)
			}
		}()
		h.ServeHTTP(rec, httptest.NewRequest("POST", "/", strings.NewReader(body)))
	}()
	if a.panicked {
		return a
	}
	a.status = rec.Code
	a.rawBody = rec.Body.String()
	parseAnswer(&a)
	return a
}

func parseAnswer(a *answer) {
	var m map[string]interface{}
	dec := json.NewDecoder(bytes.NewReader([]byte(a.rawBody)))
	dec.UseNumber()
	if err := dec.Decode(&m); err != nil {
		a.garbage = "answer is not a JSON object: " + err.Error()
		return
	}
	str := func(mm map[string]interface{}, k string) string {
		if v, ok := mm[k]; ok {
			if s, ok := v.(string); ok {
				return s
			}
			a.garbage = "field " + k + " is not a string"
		}
		return ""
	}
	hexs := func(mm map[string]interface{}, k string) []byte {
		s := str(mm, k)
		b, err := hex.DecodeString(s)
		if err != nil {
			a.garbage = "field " + k + " is not hex"
		}
		return b
	}
	if _, ok := m["MessageType"]; !ok {
		a.bare = true
		a.rc = str(m, "ResultCode")
		return
	}
	a.mtype, a.proto, a.sender, a.receiver = str(m, "MessageType"), str(m, "ProtocolVersion"), str(m, "SenderID"), str(m, "ReceiverID")
	if v, ok := m["TransactionID"].(json.Number); ok {
		fmt.Sscan(v.String(), &a.txid)
	} else {
		a.garbage = "TransactionID missing"
	}
	if res, ok := m["Result"].(map[string]interface{}); ok {
		a.rc = str(res, "ResultCode")
	} else {
		a.garbage = "Result missing"
	}
	a.phy = hexs(m, "PHYPayload")
	if v, ok := m["Lifetime"]; ok {
		if n, ok := v.(json.Number); ok {
			x, _ := n.Int64()
			a.lifetime = &x
		}
	}
	for i, name := range keyNames {
		if v, ok := m[name]; ok && v != nil {
			if e, ok := v.(map[string]interface{}); ok {
				a.keys[i] = &envelope{label: str(e, "KEKLabel"), key: hexs(e, "AESKey")}
			} else {
				a.garbage = name + " is not an object"
			}
		}
	}
	if _, ok := m["HNetID"]; ok {
		a.hasHNet = true
		a.hnetid = hexs(m, "HNetID")
	}
}

func rcTerm(rc string) string {
	switch rc {
	case "Success":
		return "RSuccess"
	case "MICFailed":
		return "RMICFailed"
	case "UnknownDevEUI":
		return "RUnknownDevEUI"
	case "Other":
		return "ROther"
	}
	return "RUnexpected"
}

func (a *answer) coq() string {
	if a.panicked {
		return "APanic"
	}
	if a.bare {
		return fmt.Sprintf("(ABare %d %s)", a.status, rcTerm(a.rc))
	}
	mt := map[string]string{"JoinAns": "MJoinAns", "RejoinAns": "MRejoinAns", "HomeNSAns": "MHomeNSAns"}[a.mtype]
	if mt == "" || a.garbage != "" || a.proto != "1.0" {
		// reported through s.Fail by the caller; the term must still be well formed
		return fmt.Sprintf("(ABare %d RUnexpected)", a.status)
	}
	lt := cq.None
	if a.lifetime != nil {
		lt = cq.Some(cq.Z(*a.lifetime))
	}
	var ks []string
	for _, e := range a.keys {
		if e == nil {
			ks = append(ks, cq.None)
		} else {
			ks = append(ks, cq.Some(cq.Tuple(cq.Str(e.label), cq.Bytes(e.key))))
		}
	}
	hn := cq.None
	if a.hasHNet {
		hn = cq.Some(cq.Bytes(a.hnetid))
	}
	return fmt.Sprintf("(AMsg %d %s %s %s %d %s %s %s (mkKeys %s) %s)", a.status, mt, cq.Str(a.sender), cq.Str(a.receiver), a.txid,
		rcTerm(a.rc), cq.Bytes(a.phy), lt, strings.Join(ks, " "), hn)
}

func (a *answer) summary() map[string]interface{} {
	return map[string]interface{}{"http_status": a.status, "body": a.rawBody, "panicked": a.panicked}
}
