// Package bandcfg enumerates the band configurations the C12/C13 checks
// quantify over (in one fixed order shared by the dumper and the
// harnesses) and prints the verif-tagged table snapshot as Gallina terms.
package bandcfg

import (
	"fmt"
	"strings"

	"github.com/brocaar/lorawan"
	"github.com/brocaar/lorawan/band"
)

// Names are the 14 common band names accepted by band.GetConfig.
var Names = []band.Name{
	band.AS923, band.AS923_2, band.AS923_3, band.AS923_4, band.AU915, band.CN470, band.CN779,
	band.EU433, band.EU868, band.IN865, band.ISM2400, band.KR920, band.RU864, band.US915,
}

// DeprecatedAliases maps the deprecated names to the common name they must behave like.
var DeprecatedAliases = map[band.Name]band.Name{
	band.AS_923: band.AS923, band.AU_915_928: band.AU915, band.CN_470_510: band.CN470, band.CN_779_787: band.CN779,
	band.EU_433: band.EU433, band.EU_863_870: band.EU868, band.IN_865_867: band.IN865, band.KR_920_923: band.KR920,
	band.US_902_928: band.US915, band.RU_864_870: band.RU864,
}

// Config is one point of name x repeater x dwell time.
type Config struct {
	Index    int
	Name     band.Name
	Repeater bool
	Dwell    bool // lorawan.DwellTime400ms
	Alias    bool // Name is a deprecated name
}

func (c Config) DwellTime() lorawan.DwellTime {
	if c.Dwell {
		return lorawan.DwellTime400ms
	}
	return lorawan.DwellTimeNoLimit
}

// New builds a fresh band object for the configuration.
func (c Config) New() (band.Band, error) { return band.GetConfig(c.Name, c.Repeater, c.DwellTime()) }

func b01(b bool) int {
	if b {
		return 1
	}
	return 0
}

// Key is the stable prefix of case keys: "EU868:rep=0:dwell=1".
func (c Config) Key() string {
	return fmt.Sprintf("%s:rep=%d:dwell=%d", c.Name, b01(c.Repeater), b01(c.Dwell))
}

// AliasOrder lists the deprecated names in one fixed order (dumper and harnesses).
var AliasOrder = []band.Name{band.AS_923, band.AU_915_928, band.CN_470_510, band.CN_779_787, band.EU_433,
	band.EU_863_870, band.IN_865_867, band.KR_920_923, band.US_902_928, band.RU_864_870}

// Aliases returns the 40 configurations requested through a deprecated name, in the order of
// BandGen.band_alias_configs; Index continues after the 56 common configurations (the Coq side
// indexes band_configs ++ band_alias_configs).
func Aliases() []Config {
	var out []Config
	for _, n := range AliasOrder {
		for _, rep := range []bool{false, true} {
			for _, dw := range []bool{false, true} {
				out = append(out, Config{Index: 56 + len(out), Name: n, Repeater: rep, Dwell: dw, Alias: true})
			}
		}
	}
	return out
}

// AllWithAliases = All() followed by Aliases().
func AllWithAliases() []Config { return append(All(), Aliases()...) }

// All returns the 56 configurations in the order of BandGen.band_configs.
func All() []Config {
	var out []Config
	for _, n := range Names {
		for _, rep := range []bool{false, true} {
			for _, dw := range []bool{false, true} {
				out = append(out, Config{Index: len(out), Name: n, Repeater: rep, Dwell: dw})
			}
		}
	}
	return out
}

// ---- Gallina printers -----------------------------------------------------

func Z(x int64) string {
	if x < 0 {
		return fmt.Sprintf("(%d)", x)
	}
	return fmt.Sprintf("%d", x)
}

func Bool(b bool) string {
	if b {
		return "true"
	}
	return "false"
}

// Str prints a Coq string literal (string_scope must be open or the caller adds %string).
func Str(s string) string { return "\"" + strings.ReplaceAll(s, "\"", "\"\"") + "\"" }

func DataRate(up, down bool, d band.DataRate) string {
	return fmt.Sprintf("(mkDR %s %s %s %s %s %s %s %s)", Bool(up), Bool(down), Str(string(d.Modulation)),
		Z(int64(d.SpreadFactor)), Z(int64(d.Bandwidth)), Z(int64(d.BitRate)), Str(d.CodingRate), Z(int64(d.OccupiedChannelWidth)))
}

func Channel(c band.VerifChannel) string {
	return fmt.Sprintf("(mkCh %d %s %s %s %s)", c.Frequency, Z(int64(c.MinDR)), Z(int64(c.MaxDR)), Bool(c.Enabled), Bool(c.Custom))
}

func Kind(k string) string { return "K" + strings.ToUpper(k) }

func Defaults(d band.Defaults) string {
	return fmt.Sprintf("(mkDefaults %d %s %d %d %d %d)", d.RX2Frequency, Z(int64(d.RX2DataRate)),
		int64(d.ReceiveDelay1), int64(d.ReceiveDelay2), int64(d.JoinAcceptDelay1), int64(d.JoinAcceptDelay2))
}
