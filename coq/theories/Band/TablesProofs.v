(* Proofs for C13.  String / integer arguments are unbounded; lookup lemmas
   reduce them to the finite key sets of the dumped tables, the remaining
   finite obligations are decided by vm_compute over LWGen.BandGen and lifted
   with forallb_forall. *)
From Coq Require Import List ZArith Bool String Lia.
From LW Require Import Base.Outcome Band.Types Band.Lookup Band.Regional Band.Rx1Spec Band.TablesSpec
     Band.Rx1Checks Band.Rx1BaseProofs Band.TablesChecks.
From LWGen Require Import BandGen KnownGen.
Import ListNotations.
Open Scope Z_scope.

(* ---- generic lemmas -------------------------------------------------------- *)

Lemma sfind_Some_In {A} k (m : smap A) v : sfind k m = Some v -> In (k, v) m.
Proof.
  induction m as [|[k' v'] m IH]; cbn [sfind]; [discriminate|].
  destruct (String.eqb_spec k k') as [->|_].
  - intros [= ->]. now left.
  - intros H. right. now apply IH.
Qed.

Lemma sfind_notin_None {A} k (m : smap A) : ~ In k (skeys m) -> sfind k m = None.
Proof.
  induction m as [|[k' v'] m IH]; cbn [sfind skeys map fst In]; [reflexivity|].
  intros H. destruct (String.eqb_spec k k') as [->|_]; [exfalso; apply H; now left|].
  apply IH. intros Hin. apply H. now right.
Qed.

Lemma str_mem_In s l : str_mem s l = true <-> In s l.
Proof.
  unfold str_mem. rewrite existsb_exists. split.
  - intros [x [Hx E]]. apply String.eqb_eq in E. now subst.
  - intros H. exists s. split; [exact H | apply String.eqb_refl].
Qed.

Lemma str_mem_false s l : str_mem s l = false -> ~ In s l.
Proof. intros H Hin. apply str_mem_In in Hin. congruence. Qed.

Lemma pair_eqb_eq a b : pair_eqb a b = true -> a = b.
Proof.
  destruct a, b. unfold pair_eqb. cbn. rewrite andb_true_iff, !Z.eqb_eq. intros [? ?]. now subst.
Qed.

Lemma size_le_spec a b : size_le a b = true <-> fst a <= fst b /\ snd a <= snd b.
Proof. unfold size_le. rewrite andb_true_iff, !Z.leb_le. tauto. Qed.

(* ---- fallback resolution: unknown strings behave like "latest" -------------- *)

Lemma sfind_or_latest_latest {A} (m : smap A) : sfind_or_latest latest m = sfind latest m.
Proof. unfold sfind_or_latest. now destruct (sfind latest m). Qed.

Lemma sfind_or_latest_unknown {A} (m : smap A) k :
  sfind k m = None -> sfind_or_latest k m = sfind_or_latest latest m.
Proof. intros H. rewrite sfind_or_latest_latest. unfold sfind_or_latest. now rewrite H. Qed.

(* for ANY tables and strings: a version that is not a key resolves like "latest" *)
Lemma max_payload_unknown_version t ver rev dr :
  sfind ver (t_maxpl t) = None ->
  get_max_payload t ver rev dr = get_max_payload t latest rev dr.
Proof.
  intros H. unfold get_max_payload, select_size_table. now rewrite (sfind_or_latest_unknown _ _ H).
Qed.

(* ... and a revision that is not a key of the selected version's map resolves like "latest" *)
Lemma max_payload_unknown_revision t ver rev dr :
  (forall revmap, sfind_or_latest ver (t_maxpl t) = Some revmap -> sfind rev revmap = None) ->
  get_max_payload t ver rev dr = get_max_payload t ver latest dr.
Proof.
  intros H. unfold get_max_payload, select_size_table.
  destruct (sfind_or_latest ver (t_maxpl t)) as [revmap|]; [|reflexivity].
  now rewrite (sfind_or_latest_unknown _ _ (H revmap eq_refl)).
Qed.

Lemma sfind_or_latest_canon {A} (m : smap A) K s :
  incl (skeys m) K -> sfind_or_latest s m = sfind_or_latest (canon K s) m.
Proof.
  intros Hincl. unfold canon. destruct (str_mem s K) eqn:E; [reflexivity|].
  apply sfind_or_latest_unknown. apply sfind_notin_None.
  intros Hin. apply (str_mem_false _ _ E). now apply Hincl.
Qed.

Lemma sfind_or_latest_In {A} k (m : smap A) v : sfind_or_latest k m = Some v -> exists k', In (k', v) m.
Proof.
  unfold sfind_or_latest. destruct (sfind k m) eqn:E.
  - intros [= ->]. eauto using sfind_Some_In.
  - intros H. eauto using sfind_Some_In.
Qed.

Lemma select_size_table_canon t KV KR ver rev :
  incl (skeys (t_maxpl t)) KV -> incl (rev_keys t) KR ->
  select_size_table t ver rev = select_size_table t (canon KV ver) (canon KR rev).
Proof.
  intros HV HR. unfold select_size_table.
  rewrite <- (sfind_or_latest_canon _ KV ver HV).
  destruct (sfind_or_latest ver (t_maxpl t)) as [revmap|] eqn:E; [|reflexivity].
  apply sfind_or_latest_canon.
  destruct (sfind_or_latest_In _ _ _ E) as [k' Hk'].
  intros k Hk. apply HR. unfold rev_keys. apply in_flat_map. exists (k', revmap). split; [exact Hk'|exact Hk].
Qed.

Lemma select_size_table_listed t ver rev st :
  select_size_table t ver rev = Some st -> In st (all_size_tables t).
Proof.
  unfold select_size_table.
  destruct (sfind_or_latest ver (t_maxpl t)) as [revmap|] eqn:E; [|discriminate].
  intros H. destruct (sfind_or_latest_In _ _ _ E) as [k Hk]. destruct (sfind_or_latest_In _ _ _ H) as [k2 Hk2].
  unfold all_size_tables. apply in_flat_map. exists (k, revmap). split; [exact Hk|].
  cbn [snd]. apply in_map_iff. exists (k2, st). split; [reflexivity | exact Hk2].
Qed.

Lemma get_max_payload_Ok t ver rev dr s :
  get_max_payload t ver rev dr = Ok s ->
  exists st, select_size_table t ver rev = Some st /\ In st (all_size_tables t) /\ In (dr, s) st
             /\ zfind dr st = Some s.
Proof.
  unfold get_max_payload. destruct (select_size_table t ver rev) as [st|] eqn:E; [|discriminate].
  destruct (zfind dr st) as [ps|] eqn:F; [|discriminate]. intros [= ->].
  exists st. repeat split; eauto using select_size_table_listed, zfind_Some_In.
Qed.

Lemma max_payload_no_panic t ver rev dr : get_max_payload t ver rev dr <> Panic.
Proof.
  unfold get_max_payload. destruct (select_size_table t ver rev); [|discriminate].
  destruct (zfind dr _); discriminate.
Qed.

(* ---- M = N + 8, N <= 242 for every listed size ------------------------------- *)

Lemma zero_cell_eqb_eq a b : zero_cell_eqb a b = true -> a = b.
Proof.
  destruct a as [[n d] o], b as [[n' d'] o']. unfold zero_cell_eqb. cbn [fst snd].
  rewrite !andb_true_iff. intros [[H1 H2] H3].
  apply String.eqb_eq in H1. apply Bool.eqb_prop in H2. apply Z.eqb_eq in H3. now subst.
Qed.

Lemma zero_cell_known_In x : zero_cell_known x = true -> In x c13_known_zero_cells.
Proof.
  unfold zero_cell_known. rewrite existsb_exists. intros [y [Hy E]]. apply zero_cell_eqb_eq in E. now subst.
Qed.

Lemma sizes_check_ok : sizes_check = true.
Proof. vm_compute. reflexivity. Qed.

Lemma size_wf_spec s : size_wf s = true <-> fst s = snd s + 8 /\ 0 <= snd s <= 242.
Proof. unfold size_wf. rewrite !andb_true_iff, Z.eqb_eq, !Z.leb_le. tauto. Qed.

Lemma listed_size_wf c : In c band_configs -> forall st dr m n,
  In st (all_size_tables (c_tab c)) -> In (dr, (m, n)) st ->
  (m = n + 8 /\ 0 <= n <= 242) \/ (m = 0 /\ n = 0 /\ In (c_name c, c_dwell c, dr) c13_known_zero_cells).
Proof.
  intros Hc st dr m n Hst Hcell. pose proof sizes_check_ok as H. unfold sizes_check in H.
  rewrite forallb_forall in H. specialize (H c Hc). rewrite forallb_forall in H. specialize (H st Hst).
  rewrite forallb_forall in H. specialize (H _ Hcell). unfold size_cell_check in H. cbn [fst snd] in H.
  apply orb_true_iff in H as [H|H].
  - left. now apply size_wf_spec in H.
  - right. apply andb_true_iff in H as [Hz Hk]. unfold size_zero in Hz. cbn [fst snd] in Hz.
    apply andb_true_iff in Hz as [Hm Hn]. apply Z.eqb_eq in Hm. apply Z.eqb_eq in Hn.
    repeat split; auto. now apply zero_cell_known_In.
Qed.

Lemma max_payload_size_wf c : In c band_configs -> forall ver rev dr m n,
  get_max_payload (c_tab c) ver rev dr = Ok (m, n) ->
  (m = n + 8 /\ 0 <= n <= 242) \/ (m = 0 /\ n = 0 /\ In (c_name c, c_dwell c, dr) c13_known_zero_cells).
Proof.
  intros Hc ver rev dr m n H. destruct (get_max_payload_Ok _ _ _ _ _ H) as [st [_ [Hst [Hin _]]]].
  eapply listed_size_wf; eauto.
Qed.

Lemma zero_refuted_all : forallb zero_refuted_check c13_known_zero_cells = true.
Proof. vm_compute. reflexivity. Qed.

Lemma zero_cells_refuted : forall name dwell dr, In (name, dwell, dr) c13_known_zero_cells ->
  exists c, In c band_configs /\ c_name c = name /\ c_dwell c = dwell
            /\ get_max_payload (c_tab c) latest latest dr = Ok (0, 0).
Proof.
  intros name dwell dr Hin. pose proof zero_refuted_all as H. rewrite forallb_forall in H.
  specialize (H _ Hin). unfold zero_refuted_check in H. cbn [fst snd] in H.
  apply existsb_exists in H as [c [Hc H]]. rewrite !andb_true_iff in H. destruct H as [[Hn Hd] Hv].
  apply String.eqb_eq in Hn. apply Bool.eqb_prop in Hd.
  exists c. repeat split; auto.
  destruct (get_max_payload (c_tab c) latest latest dr) as [s| | |]; cbn in Hv; try discriminate.
  apply pair_eqb_eq in Hv. now subst.
Qed.

(* ---- under latest/latest every defined data-rate has a size ------------------- *)

Lemma latest_total_check_ok : latest_total_check = true.
Proof. vm_compute. reflexivity. Qed.

Lemma dr_defined_In t dr : dr_defined t dr = true -> exists d, In (dr, d) (t_drs t).
Proof.
  unfold dr_defined. destruct (zfind dr (t_drs t)) eqn:E; [|discriminate].
  intros _. eauto using zfind_Some_In.
Qed.

Lemma latest_total c : In c band_configs -> forall dr, dr_defined (c_tab c) dr = true ->
  exists s, get_max_payload (c_tab c) latest latest dr = Ok s.
Proof.
  intros Hc dr Hd. destruct (dr_defined_In _ _ Hd) as [d Hin].
  pose proof latest_total_check_ok as H. unfold latest_total_check in H.
  rewrite forallb_forall in H. specialize (H c Hc). rewrite forallb_forall in H. specialize (H _ Hin).
  cbn [fst] in H. destruct (get_max_payload (c_tab c) latest latest dr); try discriminate. eauto.
Qed.

(* ---- repeater-compatible sizes never exceed the non-repeater ones ------------- *)

Lemma rep_check_ok : rep_check = true.
Proof. vm_compute. reflexivity. Qed.

Lemma canon_in K s : In (canon K s) (latest :: K).
Proof.
  unfold canon. destruct (str_mem s K) eqn:E; [right; now apply str_mem_In | now left].
Qed.

Lemma canon_sane K v : version_query_sane v = true -> version_query_sane (canon K v) = true.
Proof. unfold canon. destruct (str_mem v K); [auto | reflexivity]. Qed.

(* ---- every (version, revision) combination resolves --------------------------------- *)

Lemma every_rev_check_ok : every_rev_check = true.
Proof. vm_compute. reflexivity. Qed.

Lemma resolves_check_ok : resolves_check = true.
Proof. vm_compute. reflexivity. Qed.

Lemma get_max_payload_canon t ver rev dr :
  get_max_payload t ver rev dr
  = get_max_payload t (canon (skeys (t_maxpl t)) ver) (canon (rev_keys t) rev) dr.
Proof.
  unfold get_max_payload.
  now rewrite (select_size_table_canon t _ _ ver rev (incl_refl _) (incl_refl _)).
Qed.

Lemma every_revision_total c : In c band_configs -> forall reg, region_of (c_name c) = Some reg ->
  forall ver rev dr, must_have_size reg (t_drs (c_tab c)) dr = true ->
  exists s, get_max_payload (c_tab c) ver rev dr = Ok s.
Proof.
  intros Hc reg Hreg ver rev dr Hm.
  pose proof every_rev_check_ok as H. unfold every_rev_check in H.
  rewrite forallb_forall in H. specialize (H c Hc). rewrite Hreg in H. cbv zeta in H.
  rewrite forallb_forall in H. specialize (H (canon (skeys (t_maxpl (c_tab c))) ver) (canon_in _ _)).
  rewrite forallb_forall in H. specialize (H (canon (rev_keys (c_tab c)) rev) (canon_in _ _)).
  assert (Hin : exists d, In (dr, d) (t_drs (c_tab c))).
  { unfold must_have_size in Hm. destruct (zfind dr (t_drs (c_tab c))) eqn:F; [|discriminate].
    eauto using zfind_Some_In. }
  destruct Hin as [d Hin]. rewrite forallb_forall in H. specialize (H _ Hin). cbn [fst] in H.
  unfold every_rev_cell_check, every_revision_ok in H. rewrite Hm in H.
  rewrite (get_max_payload_canon (c_tab c) ver rev dr).
  destruct (get_max_payload (c_tab c) _ _ dr) as [s| | |]; try discriminate. eauto.
Qed.

Lemma every_revision_resolves c : In c band_configs -> forall ver rev,
  exists st, select_size_table (c_tab c) ver rev = Some st.
Proof.
  intros Hc ver rev. pose proof resolves_check_ok as H. unfold resolves_check in H.
  rewrite forallb_forall in H. specialize (H c Hc). cbv zeta in H.
  rewrite forallb_forall in H. specialize (H (canon (skeys (t_maxpl (c_tab c))) ver) (canon_in _ _)).
  rewrite forallb_forall in H. specialize (H (canon (rev_keys (c_tab c)) rev) (canon_in _ _)).
  rewrite (select_size_table_canon (c_tab c) _ _ ver rev (incl_refl _) (incl_refl _)).
  destruct (select_size_table (c_tab c) _ _) as [st|]; [eauto | discriminate].
Qed.

Lemma repeater_le_non_repeater cr cn : In cr band_configs -> In cn band_configs ->
  c_name cr = c_name cn -> c_dwell cr = c_dwell cn -> c_rep cr = true -> c_rep cn = false ->
  forall ver rev dr m n,
  get_max_payload (c_tab cr) ver rev dr = Ok (m, n) ->
  exists m' n', get_max_payload (c_tab cn) ver rev dr = Ok (m', n') /\ m <= m' /\ n <= n'.
Proof.
  intros Hcr Hcn Hname Hdw Hr Hn ver rev dr m n Hget.
  pose proof rep_check_ok as H. unfold rep_check in H.
  rewrite forallb_forall in H. specialize (H cr Hcr). rewrite forallb_forall in H. specialize (H cn Hcn).
  assert (P : is_rep_pair cr cn = true).
  { unfold is_rep_pair. rewrite Hname, Hdw, Hr, Hn, String.eqb_refl, Bool.eqb_reflx. reflexivity. }
  rewrite P in H. unfold pair_check in H. cbv zeta in H.
  set (tr := c_tab cr) in *. set (tn := c_tab cn) in *.
  set (KV := pair_KV tr tn) in *. set (KR := pair_KR tr tn) in *.
  assert (IVr : incl (skeys (t_maxpl tr)) KV) by (unfold KV, pair_KV; apply incl_appl, incl_refl).
  assert (IVn : incl (skeys (t_maxpl tn)) KV) by (unfold KV, pair_KV; apply incl_appr, incl_refl).
  assert (IRr : incl (rev_keys tr) KR) by (unfold KR, pair_KR; apply incl_appl, incl_refl).
  assert (IRn : incl (rev_keys tn) KR) by (unfold KR, pair_KR; apply incl_appr, incl_refl).
  rewrite forallb_forall in H. specialize (H (canon KV ver) (canon_in _ _)).
  rewrite forallb_forall in H. specialize (H (canon KR rev) (canon_in _ _)).
  unfold rep_le_check in H.
  destruct (get_max_payload_Ok _ _ _ _ _ Hget) as [st [Hsel [_ [Hin _]]]].
  rewrite (select_size_table_canon tr KV KR ver rev IVr IRr) in Hsel. rewrite Hsel in H.
  rewrite forallb_forall in H. specialize (H _ Hin). cbn [fst snd] in H.
  assert (E : get_max_payload tn ver rev dr = get_max_payload tn (canon KV ver) (canon KR rev) dr).
  { unfold get_max_payload. now rewrite (select_size_table_canon tn KV KR ver rev IVn IRn). }
  rewrite E. destruct (get_max_payload tn (canon KV ver) (canon KR rev) dr) as [[m' n']| | |]; try discriminate.
  exists m', n'. apply size_le_spec in H. cbn [fst snd] in H. tauto.
Qed.

(* ---- the map keys are protocol versions / revisions ------------------------------------ *)

Lemma version_keys_check_ok : version_keys_check = true.
Proof. vm_compute. reflexivity. Qed.

Lemma table_keys c : In c band_configs ->
  (forall v, In v (skeys (t_maxpl (c_tab c))) -> In v (latest :: protocol_versions))
  /\ (forall r, In r (rev_keys (c_tab c)) -> In r (latest :: reg_param_revisions)).
Proof.
  intros Hc. pose proof version_keys_check_ok as H. unfold version_keys_check in H.
  rewrite forallb_forall in H. specialize (H c Hc). apply andb_true_iff in H as [H1 H2].
  rewrite forallb_forall in H1, H2. split; intros x Hx; apply str_mem_In; auto.
Qed.

(* ---- sizes never shrink as the spreading factor decreases --------------------- *)

Lemma sf_check_ok : sf_check = true.
Proof. vm_compute. reflexivity. Qed.

Lemma sf_monotone c : In c band_configs -> forall ver rev dr1 dr2 s1 s2 d1 d2,
  get_max_payload (c_tab c) ver rev dr1 = Ok s1 ->
  get_max_payload (c_tab c) ver rev dr2 = Ok s2 ->
  zfind dr1 (t_drs (c_tab c)) = Some d1 -> zfind dr2 (t_drs (c_tab c)) = Some d2 ->
  is_lora d1 = true -> is_lora d2 = true -> dr_bw d1 = dr_bw d2 -> share_direction d1 d2 = true ->
  dr_sf d2 < dr_sf d1 ->
  fst s1 <= fst s2 /\ snd s1 <= snd s2.
Proof.
  intros Hc ver rev dr1 dr2 s1 s2 d1 d2 G1 G2 F1 F2 L1 L2 Hbw Hdir Hsf.
  destruct (get_max_payload_Ok _ _ _ _ _ G1) as [st [Hsel [Hst [Hin1 _]]]].
  destruct (get_max_payload_Ok _ _ _ _ _ G2) as [st' [Hsel' [_ [Hin2 _]]]].
  assert (st' = st) by congruence. subst st'.
  pose proof sf_check_ok as H. unfold sf_check in H.
  rewrite forallb_forall in H. specialize (H c Hc). rewrite forallb_forall in H. specialize (H st Hst).
  rewrite forallb_forall in H. specialize (H _ Hin1). cbn [fst snd] in H.
  unfold sf_monotone_cell in H. rewrite F1, L1 in H.
  rewrite forallb_forall in H. specialize (H _ Hin2). cbn [fst snd] in H.
  rewrite F2, L2, Hdir in H. rewrite <- Hbw, Z.eqb_refl in H. cbn [andb] in H.
  destruct (Z.ltb_spec (dr_sf d2) (dr_sf d1)); [|lia].
  now apply size_le_spec in H.
Qed.

(* ---- closure of data-rate references ---------------------------------------------- *)

Lemma closure_check_ok : closure_check = true.
Proof. vm_compute. reflexivity. Qed.

Lemma range_all_spec P lo hi : range_all P lo hi = true -> forall d, lo <= d <= hi -> P d = true.
Proof.
  unfold range_all. intros H d Hd. rewrite forallb_forall in H. apply H. now apply zrange_In.
Qed.

Lemma closure c : In c band_configs ->
  let t := c_tab c in
  (forall ch, In ch (t_up t) -> ch_min ch <= ch_max ch /\
              forall d, ch_min ch <= d <= ch_max ch -> dr_defined_up t d = true)
  /\ (forall ch, In ch (t_down t) -> ch_min ch <= ch_max ch /\
                 forall d, ch_min ch <= d <= ch_max ch -> dr_defined_down t d = true)
  /\ (forall d, In d (get_enabled_uplink_data_rates t) -> dr_defined_up t d = true)
  /\ (t_extra t = true -> t_cfmin t <= t_cfmax t /\
      forall d, t_cfmin t <= d <= t_cfmax t -> dr_defined_up t d = true).
Proof.
  intros Hc t. pose proof closure_check_ok as H. unfold closure_check in H.
  rewrite forallb_forall in H. specialize (H c Hc). cbv zeta in H. fold t in H.
  rewrite !andb_true_iff in H. destruct H as [[[Hu Hd] He] Hcf].
  repeat split.
  - rewrite forallb_forall in Hu. specialize (Hu ch H). unfold uplink_channel_closed in Hu.
    apply andb_true_iff in Hu as [Hle _]. now apply Z.leb_le.
  - rewrite forallb_forall in Hu. specialize (Hu ch H). unfold uplink_channel_closed in Hu.
    apply andb_true_iff in Hu as [_ Hr]. now apply range_all_spec.
  - rewrite forallb_forall in Hd. specialize (Hd ch H). unfold downlink_channel_closed in Hd.
    apply andb_true_iff in Hd as [Hle _]. now apply Z.leb_le.
  - rewrite forallb_forall in Hd. specialize (Hd ch H). unfold downlink_channel_closed in Hd.
    apply andb_true_iff in Hd as [_ Hr]. now apply range_all_spec.
  - unfold enabled_drs_closed in He. rewrite forallb_forall in He. exact He.
  - unfold cflist_closed in Hcf. rewrite H in Hcf. unfold uplink_channel_closed in Hcf.
    apply andb_true_iff in Hcf as [Hle _]. now apply Z.leb_le.
  - unfold cflist_closed in Hcf. rewrite H in Hcf. unfold uplink_channel_closed in Hcf.
    apply andb_true_iff in Hcf as [_ Hr]. now apply range_all_spec.
Qed.

(* ---- index <-> parameters ---------------------------------------------------------- *)

Lemma roundtrip_check_ok : roundtrip_check = true.
Proof. vm_compute. reflexivity. Qed.

Lemma dr_roundtrip c : In c band_configs -> forall dr d, get_data_rate (c_tab c) dr = Ok d ->
  (dr_up d = true -> get_data_rate_index (c_tab c) true d = Ok dr)
  /\ (dr_down d = true -> get_data_rate_index (c_tab c) false d = Ok dr).
Proof.
  intros Hc dr d Hd. unfold get_data_rate in Hd.
  destruct (zfind dr (t_drs (c_tab c))) as [d'|] eqn:F; [|discriminate]. injection Hd as ->.
  apply zfind_Some_In in F.
  pose proof roundtrip_check_ok as H. unfold roundtrip_check in H.
  rewrite forallb_forall in H. specialize (H c Hc). cbv zeta in H.
  rewrite forallb_forall in H. specialize (H _ F). cbn [fst snd] in H.
  unfold dr_roundtrip_ok in H. apply andb_true_iff in H as [Hu Hdn].
  split; intros E; [rewrite E in Hu | rewrite E in Hdn]; now apply oz_eqb_eq.
Qed.

Lemma params_distinct_check_ok : params_distinct_check = true.
Proof. vm_compute. reflexivity. Qed.

Lemma params_eqb_trans a b q :
  data_rate_params_eqb a q = true -> data_rate_params_eqb b q = true -> data_rate_params_eqb a b = true.
Proof.
  unfold data_rate_params_eqb. rewrite !andb_true_iff, !Z.eqb_eq, !String.eqb_eq.
  intros [[[[[A1 A2] A3] A4] A5] A6] [[[[[B1 B2] B3] B4] B5] B6]. repeat split; congruence.
Qed.

Lemma matches_In t uplink q i : In i (data_rate_matches t uplink q) ->
  exists d, In (i, d) (t_drs t) /\ dr_matches uplink q d = true.
Proof.
  unfold data_rate_matches. rewrite in_map_iff. intros [[k d] [E Hin]]. cbn in E. subst k.
  apply filter_In in Hin as [Hin Hm]. eauto.
Qed.

Lemma dr_index_order_irrelevant c : In c band_configs -> forall uplink q i j,
  In i (data_rate_matches (c_tab c) uplink q) -> In j (data_rate_matches (c_tab c) uplink q) -> i = j.
Proof.
  intros Hc uplink q i j Hi Hj.
  destruct (matches_In _ _ _ _ Hi) as [d [Hd Md]]. destruct (matches_In _ _ _ _ Hj) as [e [He Me]].
  pose proof params_distinct_check_ok as H. unfold params_distinct_check in H.
  rewrite forallb_forall in H. specialize (H c Hc). cbv zeta in H.
  rewrite forallb_forall in H. specialize (H _ Hd). rewrite forallb_forall in H. specialize (H _ He).
  cbn [fst snd] in H. apply orb_true_iff in H as [H|H]; [now apply Z.eqb_eq|].
  exfalso. apply negb_true_iff in H. unfold dr_matches in Md, Me.
  apply andb_true_iff in Md as [Fd Pd]. apply andb_true_iff in Me as [Fe Pe].
  rewrite (params_eqb_trans _ _ _ Pd Pe) in H. cbn [andb] in H.
  destruct uplink; rewrite Fd, Fe in H; cbn in H; [discriminate|].
  now rewrite orb_true_r in H.
Qed.

(* ---- Regional Parameters values ------------------------------------------------------ *)

Lemma regional_check_ok : regional_check = true.
Proof. vm_compute. reflexivity. Qed.

Lemma data_rate_eqb_eq a b : data_rate_eqb a b = true -> a = b.
Proof.
  destruct a, b. unfold data_rate_eqb, data_rate_params_eqb. cbn.
  rewrite !andb_true_iff, !Z.eqb_eq, !String.eqb_eq. intros [[U D] [[[[[A1 A2] A3] A4] A5] A6]].
  apply Bool.eqb_prop in U. apply Bool.eqb_prop in D. now subst.
Qed.

Lemma data_rates_ok_eq spec drs : data_rates_ok spec drs = true -> drs = spec.
Proof.
  unfold data_rates_ok. revert spec. induction drs as [|[k d] drs IH]; intros [|[k' d'] spec]; cbn; try discriminate; auto.
  rewrite !andb_true_iff, Z.eqb_eq. intros [[Hk Hd] Hr]. apply data_rate_eqb_eq in Hd. subst.
  f_equal. now apply IH.
Qed.

Lemma chan3_eqb_eq a b : chan3_eqb a b = true -> a = b.
Proof.
  destruct a as [[a1 a2] a3], b as [[b1 b2] b3]. unfold chan3_eqb. cbn.
  rewrite !andb_true_iff, !Z.eqb_eq. intros [[? ?] ?]. now subst.
Qed.

Lemma default_channels_ok_spec spec chs : default_channels_ok spec chs = true ->
  map chan3_of chs = spec /\ forall ch, In ch chs -> ch_enabled ch = true /\ ch_custom ch = false.
Proof.
  unfold default_channels_ok. rewrite andb_true_iff. intros [Hl Hf]. split.
  - apply (list_eqb_eq chan3_eqb); [|exact Hl]. intros a b. split; [apply chan3_eqb_eq|].
    intros ->. destruct b as [[b1 b2] b3]. unfold chan3_eqb. cbn. now rewrite !Z.eqb_refl.
  - intros ch Hin. rewrite forallb_forall in Hf. specialize (Hf ch Hin).
    apply andb_true_iff in Hf as [He Hcu]. split; [exact He | now apply negb_true_iff].
Qed.

Lemma nth_error_combine_from {A} (l : list A) lo n a :
  nth_error l n = Some a -> In (lo + Z.of_nat n, a) (combine (zrange_from lo (List.length l)) l).
Proof.
  revert lo n. induction l as [|x l IH]; intros lo n E; [destruct n; discriminate|].
  destruct n as [|n]; cbn [nth_error zrange_from combine List.length] in *.
  - injection E as ->. left. f_equal. lia.
  - right. replace (lo + Z.of_nat (S n)) with ((lo + 1) + Z.of_nat n) by lia. now apply IH.
Qed.

Lemma zindex_combine {A} (l : list A) i a :
  zindex l i = Ok a -> In (i, a) (combine (zrange 0 (zlen l - 1)) l).
Proof.
  intros H. pose proof (zindex_Ok_range _ _ _ H) as Hr.
  unfold zindex in H. destruct (Z.ltb_spec i 0); [lia|].
  destruct (nth_error l (Z.to_nat i)) eqn:E; [|discriminate]. injection H as ->.
  unfold zrange, zlen. replace (Z.to_nat (Z.of_nat (List.length l) - 1 - 0 + 1)) with (List.length l) by lia.
  replace i with (0 + Z.of_nat (Z.to_nat i)) at 1 by lia.
  now apply nth_error_combine_from.
Qed.

Lemma regional c : In c band_configs -> forall reg, region_of (c_name c) = Some reg ->
  let t := c_tab c in
  t_drs t = spec_data_rates reg
  /\ map chan3_of (t_up t) = spec_uplink_channels reg
  /\ map chan3_of (t_down t) = spec_downlink_channels reg
  /\ (forall ch, In ch (t_up t ++ t_down t) -> ch_enabled ch = true /\ ch_custom ch = false)
  /\ (forall i v, get_tx_power_offset t i = Ok v -> v = - 2 * i).
Proof.
  intros Hc reg Hreg t. pose proof regional_check_ok as H. unfold regional_check in H.
  rewrite forallb_forall in H. specialize (H c Hc). rewrite Hreg in H. cbv zeta in H. fold t in H.
  rewrite !andb_true_iff in H. destruct H as [[[Hdr Hup] Hdn] Htx].
  apply data_rates_ok_eq in Hdr. apply default_channels_ok_spec in Hup as [Hup1 Hup2].
  apply default_channels_ok_spec in Hdn as [Hdn1 Hdn2].
  repeat split; auto.
  - apply in_app_or in H as [H|H]; [now apply Hup2 | now apply Hdn2].
  - apply in_app_or in H as [H|H]; [now apply Hup2 | now apply Hdn2].
  - intros i v Hv. unfold get_tx_power_offset in Hv.
    destruct ((i <? 0) || (i >? zlen (t_txpow t) - 1)); [discriminate|].
    apply zindex_combine in Hv. rewrite forallb_forall in Htx. specialize (Htx _ Hv).
    cbn [fst snd] in Htx. unfold tx_power_ok, spec_tx_power_offset in Htx. now apply Z.eqb_eq.
Qed.

(* ---- transcribed max-payload values (EU868, US915; LoRaWAN 1.0.2 / 1.0.3 / 1.1) ------- *)

Lemma values_check_ok : values_check = true.
Proof. vm_compute. reflexivity. Qed.

Lemma spec_max_payload_domain reg rep ver rev dr s :
  spec_max_payload reg rep ver rev dr = Some s -> In (ver, rev, dr) value_domain.
Proof.
  unfold spec_max_payload. destruct (combo_mem ver rev) eqn:C; [|discriminate].
  intros H.
  assert (R : 0 <= dr <= 13).
  { destruct reg; try discriminate;
      repeat match type of H with
             | (if ?b then _ else _) = _ => let B := fresh "B" in destruct b eqn:B
             end; try discriminate;
      rewrite ?andb_true_iff, ?orb_true_iff, ?Z.leb_le, ?Z.eqb_eq in *; lia. }
  unfold combo_mem in C. apply existsb_exists in C as [[v r] [Hin E]]. cbn [fst snd] in E.
  apply andb_true_iff in E as [E1 E2]. apply String.eqb_eq in E1. apply String.eqb_eq in E2. subst.
  unfold value_domain. apply in_flat_map. exists (v, r). split; [exact Hin|].
  cbn [fst snd]. apply in_map_iff. exists dr. split; [reflexivity | now apply zrange_In].
Qed.

Lemma max_payload_values c : In c band_configs -> forall reg, region_of (c_name c) = Some reg ->
  forall ver rev dr s, spec_max_payload reg (c_rep c) ver rev dr = Some s ->
  get_max_payload (c_tab c) ver rev dr = Ok s.
Proof.
  intros Hc reg Hreg ver rev dr s Hs. pose proof values_check_ok as H. unfold values_check in H.
  rewrite forallb_forall in H. specialize (H c Hc). rewrite Hreg in H.
  rewrite forallb_forall in H. specialize (H _ (spec_max_payload_domain _ _ _ _ _ _ Hs)).
  cbn [fst snd] in H. unfold max_payload_value_ok in H. rewrite Hs in H.
  destruct (get_max_payload (c_tab c) ver rev dr) as [x| | |]; cbn in H; try discriminate.
  apply pair_eqb_eq in H. now subst.
Qed.
