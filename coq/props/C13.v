(* C13 - placeholder while the check is being built *)
From Coq Require Import List ZArith.
Theorem C13_placeholder : True.
Proof. exact I. Qed.
Print Assumptions C13_placeholder.
