(* Proofs about the US915 / AU915 planner and apply models (C14). *)
From Coq Require Import List ZArith Bool Lia Sorting.Sorted.
From Coq Require Import ZifyBool ZifyNat.
From LW Require Import Base.Outcome Band.Channels Band.Planner Band.PlannerSpec Band.ListLemmas Band.PlannerProofs.
Import ListNotations.
Open Scope Z_scope.
Ltac Zify.zify_post_hook ::= Z.div_mod_to_equations.

Definition us_mk (en : list Z) (k : Z) : payload := mkPayload 0 0 (us_block_mask 16 en k) (k mod 256) 0.
Definition first_step (m : list bool) (c : Z) : list bool :=
  if c >=? 64 then upd m (Z.to_nat (Z.rem c 16)) true else m.

Lemma us_loop_spec en : forall l cur first,
  us_loop 16 en cur l first =
  (fold_left first_step l first, map (us_mk en) (cntls 16 cur (filter (fun c => c <? 64) l))).
Proof.
  induction l as [|c l IH]; intros cur first; [reflexivity|].
  cbn [us_loop fold_left filter]. unfold first_step at 2.
  destruct (Z.geb_spec c 64) as [H|H].
  - destruct (Z.ltb_spec c 64); [lia|]. apply IH.
  - destruct (Z.ltb_spec c 64); [|lia]. cbn [cntls].
    destruct (Z.quot c 16 =? cur); [apply IH|]. rewrite IH. reflexivity.
Qed.

(* membership form of the two mask folds *)
Lemma us_block_mask_fold k : 0 <= k -> forall l m, (forall ec, In ec l -> 0 <= ec) -> length m = 16%nat ->
  let m' := fold_left (fun m ec => if (ec >=? k * 16) && (ec <? (k + 1) * 16)
                                   then upd m (Z.to_nat (Z.rem ec 16)) true else m) l m in
  length m' = 16%nat /\
  forall j, (j < 16)%nat -> nth j m' false = nth j m false || existsb (fun ec => ec =? k * 16 + Z.of_nat j) l.
Proof.
  intros Hk. induction l as [|ec l IH]; intros m Hp L; cbn [fold_left].
  - split; [exact L|]. intros. simpl. now rewrite orb_false_r.
  - assert (P : 0 <= ec) by (apply Hp; now left).
    destruct ((ec >=? k * 16) && (ec <? (k + 1) * 16)) eqn:C.
    + assert (Hpos : Z.rem ec 16 = ec - k * 16) by (rewrite Z.rem_mod_nonneg by lia; lia).
      rewrite Hpos.
      destruct (IH (upd m (Z.to_nat (ec - k * 16)) true)) as [L' G];
        [intros; apply Hp; now right|now rewrite upd_length|].
      split; [exact L'|]. intros j Hj. rewrite (G j Hj), nth_upd. cbn [existsb].
      destruct (Z.eqb_spec ec (k * 16 + Z.of_nat j)).
      * destruct (Nat.eqb_spec (Z.to_nat (ec - k * 16)) j); [|lia].
        destruct (Nat.ltb_spec (Z.to_nat (ec - k * 16)) (length m)); [|lia]. cbn. now rewrite orb_true_r.
      * destruct (Nat.eqb_spec (Z.to_nat (ec - k * 16)) j); [lia|]. reflexivity.
    + destruct (IH m) as [L' G]; [intros; apply Hp; now right|exact L|].
      split; [exact L'|]. intros j Hj. rewrite (G j Hj). cbn [existsb].
      destruct (Z.eqb_spec ec (k * 16 + Z.of_nat j)); [lia|reflexivity].
Qed.

Lemma first_fold : forall l m, (forall ec, In ec l -> 0 <= ec < 72) -> length m = 16%nat ->
  let m' := fold_left first_step l m in
  length m' = 16%nat /\
  forall j, (j < 8)%nat -> nth j m' false = nth j m false || existsb (fun ec => ec =? 64 + Z.of_nat j) l.
Proof.
  induction l as [|ec l IH]; intros m Hp L; cbn [fold_left].
  - split; [exact L|]. intros. simpl. now rewrite orb_false_r.
  - assert (P : 0 <= ec < 72) by (apply Hp; now left).
    change (first_step m ec) with (if ec >=? 64 then upd m (Z.to_nat (Z.rem ec 16)) true else m).
    destruct (ec >=? 64) eqn:C.
    + assert (Hpos : Z.rem ec 16 = ec - 64) by (rewrite Z.rem_mod_nonneg by lia; lia).
      rewrite Hpos.
      destruct (IH (upd m (Z.to_nat (ec - 64)) true)) as [L' G];
        [intros; apply Hp; now right|now rewrite upd_length|].
      split; [exact L'|]. intros j Hj. rewrite (G j Hj), nth_upd. cbn [existsb].
      destruct (Z.eqb_spec ec (64 + Z.of_nat j)).
      * destruct (Nat.eqb_spec (Z.to_nat (ec - 64)) j); [|lia].
        destruct (Nat.ltb_spec (Z.to_nat (ec - 64)) (length m)); [|lia]. cbn. now rewrite orb_true_r.
      * destruct (Nat.eqb_spec (Z.to_nat (ec - 64)) j); [lia|]. reflexivity.
    + destruct (IH m) as [L' G]; [intros; apply Hp; now right|exact L|].
      split; [exact L'|]. intros j Hj. rewrite (G j Hj). cbn [existsb].
      destruct (Z.eqb_spec ec (64 + Z.of_nat j)); [lia|reflexivity].
Qed.

Lemma existsb_eq_In x l : existsb (fun ec => ec =? x) l = true <-> In x l.
Proof.
  rewrite existsb_exists. split.
  - intros [y [H E]]. apply Z.eqb_eq in E. now subst.
  - intros H. exists x. split; auto. apply Z.eqb_refl.
Qed.

Lemma us_block_mask_spec (s : st) k : 0 <= k ->
  us_block_mask 16 (get_enabled_uplink_channel_indices s) k = wmask 16 (en_b (up s)) k.
Proof.
  intros Hk. unfold us_block_mask.
  destruct (us_block_mask_fold k Hk
              (get_enabled_uplink_channel_indices s) (repeat false (Z.to_nat 16))) as [L G].
  { intros ec H. apply enabled_In, en_b_range in H. lia. }
  { reflexivity. }
  apply (nth_ext _ _ false false); [now rewrite wmask_length|].
  intros j Hj. rewrite L in Hj. rewrite (G j Hj), nth_repeat, wmask_nth by exact Hj. cbn [orb].
  destruct (en_b (up s) (k * 16 + Z.of_nat j)) eqn:E.
  - apply existsb_eq_In. now apply enabled_In.
  - destruct (existsb _ _) eqn:X; [|reflexivity]. apply existsb_eq_In, enabled_In in X. congruence.
Qed.

(* ---- set_range ------------------------------------------------------------------------ *)

Lemma set_range_spec : forall vs m lo, 0 <= lo -> lo + Z.of_nat (length vs) <= zlen m ->
  exists m', set_range m lo vs = Ok m' /\ length m' = length m /\
    forall x, 0 <= x -> getz m' x = if (lo <=? x) && (x <? lo + Z.of_nat (length vs))
                                    then nth (Z.to_nat (x - lo)) vs false else getz m x.
Proof.
  induction vs as [|v vs IH]; intros m lo Hlo Hlen.
  - exists m. split; [reflexivity|]. split; [reflexivity|]. intros x Hx. cbn [length].
    destruct ((lo <=? x) && (x <? lo + Z.of_nat 0)) eqn:E; [lia|reflexivity].
  - cbn [set_range]. cbn [length] in Hlen. unfold zlen in *.
    destruct ((lo <? 0) || (lo >=? Z.of_nat (length m))) eqn:C; [lia|].
    destruct (IH (upd m (Z.to_nat lo) v) (lo + 1)) as [m' [E [L G]]]; [lia|rewrite upd_length; lia|].
    exists m'. split; [exact E|]. split; [now rewrite L, upd_length|]. intros x Hx. rewrite (G x Hx).
    cbn [length]. rewrite getz_upd by lia.
    destruct ((lo + 1 <=? x) && (x <? lo + 1 + Z.of_nat (length vs))) eqn:E1.
    + destruct ((lo <=? x) && (x <? lo + Z.of_nat (S (length vs)))) eqn:E2; [|lia].
      replace (Z.to_nat (x - lo)) with (S (Z.to_nat (x - (lo + 1)))) by lia. reflexivity.
    + destruct (Z.eqb_spec x lo) as [->|Hne].
      * destruct ((lo <=? lo) && (lo <? lo + Z.of_nat (S (length vs)))) eqn:E2; [|lia].
        replace (lo - lo) with 0 by lia. reflexivity.
      * destruct ((lo <=? x) && (x <? lo + Z.of_nat (S (length vs)))) eqn:E2; [lia|reflexivity].
Qed.

Lemma nth_firstn_lt {A} (l : list A) d : forall k j, (j < k)%nat -> nth j (firstn k l) d = nth j l d.
Proof.
  induction l as [|a l IH]; intros k j H.
  - rewrite firstn_nil. reflexivity.
  - destruct k; [lia|]. destruct j; [reflexivity|]. cbn. apply IH. lia.
Qed.

Lemma apply_payloads_ext (f g : list bool -> payload -> outcome (list bool)) pls :
  (forall p m, In p pls -> f m p = g m p) -> forall m, apply_payloads f m pls = apply_payloads g m pls.
Proof.
  induction pls as [|p pls IH]; intros H m; [reflexivity|]. cbn [apply_payloads].
  rewrite (H p m (or_introl eq_refl)). destruct (g m p); cbn [bind]; auto.
  apply IH. intros; apply H; now right.
Qed.

(* ---- the 72-channel layout --------------------------------------------------------------- *)

Definition us_layout (s : st) : Prop :=
  zlen (up s) = 72 /\ forall c, In c (up s) -> custom c = false.

Lemma no_custom (s : st) i : us_layout s -> cu_b (up s) i = false.
Proof.
  intros [_ H]. unfold cu_b. destruct (chan_at (up s) i) eqn:E; [|reflexivity].
  apply H. unfold chan_at in E. destruct ((i <? 0) || (zlen (up s) <=? i)); [discriminate|].
  now apply nth_error_In in E.
Qed.

Lemma want_us (s : st) dev i : us_layout s -> want (up s) dev i = en_b (up s) i.
Proof. intros H. unfold want. rewrite (no_custom s i H). cbn. now rewrite andb_true_r. Qed.

Lemma target_us (s : st) dev : us_layout s -> target s dev = get_enabled_uplink_channel_indices s.
Proof.
  intros H. rewrite target_filter. unfold get_enabled_uplink_channel_indices.
  rewrite (indices_where_filter enabled (mkChannel 0 0 0 false false)).
  apply filter_ext_in. intros i Hi. apply zrange_from_In in Hi. rewrite (want_us s dev i H).
  destruct (chan_at_some (up s) i) as [c [E1 E2]]; [unfold zlen; lia|].
  unfold en_b. rewrite E1, Z.sub_0_r. now rewrite (nth_error_nth _ _ _ E2).
Qed.

Lemma enabled_sorted (s : st) :
  sort_ints (get_enabled_uplink_channel_indices s) = get_enabled_uplink_channel_indices s.
Proof. apply sort_ints_id, sorted_lt_le, indices_where_sorted. Qed.

(* the alternative plan is sound on its own *)
Lemma us_alt_sound (s : st) dev : us_layout s ->
  apply_us 16 s dev (plan_us_alt 16 s) = Ok (get_enabled_uplink_channel_indices s).
Proof.
  intros HL. pose proof HL as [Hn _]. unfold apply_us, plan_us_alt. rewrite Hn, enabled_sorted.
  set (en := get_enabled_uplink_channel_indices s).
  rewrite us_loop_spec. cbn [fst snd].
  destruct (init_mask_spec 72 dev ltac:(lia)) as [m0 [E0 [L0 G0]]]. rewrite E0. cbn [bind apply_payloads].
  assert (Hen : forall ec, In ec en -> 0 <= ec < 72).
  { intros ec H. apply enabled_In, en_b_range in H. lia. }
  destruct (first_fold en (repeat false (Z.to_nat 16)) Hen eq_refl) as [Lf Gf].
  set (first := fold_left first_step en (repeat false (Z.to_nat 16))) in *.
  unfold apply_payload_us at 1. cbn [p_cntl p_mask]. change ((7 =? 6) || (7 =? 7)) with true. cbv iota.
  change (7 =? 6) with false.
  destruct (set_range_spec (repeat false 64) m0 0 ltac:(lia)) as [m1 [E1 [L1 G1]]].
  { rewrite repeat_length. unfold zlen. lia. }
  rewrite E1. cbn [bind].
  destruct (set_range_spec (firstn 8 first) m1 64 ltac:(lia)) as [m2 [E2 [L2 G2]]].
  { rewrite firstn_length, Lf. unfold zlen. cbn. lia. }
  rewrite E2. cbn [bind].
  set (ks := cntls 16 (-1) (filter (fun c => c <? 64) en)).
  assert (Hks : Forall (fun k => 0 <= k /\ k * 16 < 256) ks).
  { apply Forall_forall. intros k Hk. apply cntls_sound in Hk as [c [Hc <-]].
    apply filter_In in Hc as [Hc Hlt]. apply Hen in Hc. rewrite Z.quot_div_nonneg by lia. lia. }
  assert (Hmap : map (us_mk en) ks = map (mk_payload 16 (en_b (up s))) ks).
  { apply map_ext_in. intros k Hk. rewrite Forall_forall in Hks. specialize (Hks k Hk).
    unfold us_mk, mk_payload. unfold en. rewrite us_block_mask_spec by lia. reflexivity. }
  rewrite Hmap.
  rewrite (apply_payloads_ext (apply_payload_us 16 72) (apply_payload_generic 16 72)).
  2:{ intros p m Hp. apply in_map_iff in Hp as [k [<- Hk]]. rewrite Forall_forall in Hks. specialize (Hks k Hk).
      unfold apply_payload_us. cbn [mk_payload p_cntl].
      destruct ((k mod 256 =? 6) || (k mod 256 =? 7)) eqn:C; [|reflexivity]. exfalso.
      apply cntls_sound in Hk as [c [Hc Ek]]. apply filter_In in Hc as [Hc Hlt]. apply Hen in Hc.
      rewrite Z.quot_div_nonneg in Ek by lia. lia. }
  destruct (apply_seq 16 ltac:(lia) 72 (en_b (up s)) ltac:(lia)
              ltac:(intros i Hi; apply en_b_range in Hi; lia) ks Hks m2) as [m' [E [L G]]].
  { rewrite L2, L1, L0. reflexivity. }
  rewrite E. cbn [bind]. f_equal.
  unfold en at 1. rewrite <- (target_us s dev HL). apply mask_is_target.
  { rewrite L, L2, L1, L0. unfold zlen in Hn. lia. }
  rewrite Hn. intros i Hi. rewrite (want_us s dev i HL), (G i Hi).
  destruct (existsb (fun k => i / 16 =? k) ks) eqn:X; [reflexivity|].
  rewrite (G2 i ltac:(lia)), firstn_length, Lf. change (Z.of_nat (Nat.min 8 16)) with 8.
  destruct ((64 <=? i) && (i <? 64 + 8)) eqn:R.
  - (* a 500 kHz channel: its bit travels in the ChMaskCntl 7 payload *)
    rewrite nth_firstn_lt by lia.
    rewrite Gf by lia. rewrite nth_repeat. cbn [orb].
    replace (64 + Z.of_nat (Z.to_nat (i - 64))) with i by lia.
    destruct (en_b (up s) i) eqn:En.
    + apply existsb_eq_In. now apply enabled_In.
    + destruct (existsb (fun ec => ec =? i) en) eqn:Y; [|reflexivity].
      apply existsb_eq_In, enabled_In in Y. congruence.
  - (* a 125 kHz channel whose block was not re-enabled: it is off in the network's plan *)
    rewrite (G1 i ltac:(lia)), repeat_length.
    destruct ((0 <=? i) && (i <? 0 + Z.of_nat 64)) eqn:R1; [|lia].
    rewrite nth_repeat.
    destruct (en_b (up s) i) eqn:En; [|reflexivity]. exfalso.
    assert (Hin : In i (filter (fun c => c <? 64) en)).
    { apply filter_In. split; [now apply enabled_In|lia]. }
    destruct (cntls_complete 16 (-1) _ i Hin) as [Hc|Hc]; rewrite Z.quot_div_nonneg in Hc by lia; [lia|].
    assert (existsb (fun k => i / 16 =? k) ks = true); [|congruence].
    apply existsb_exists. exists (i / 16). split; [exact Hc|apply Z.eqb_refl].
Qed.

Theorem us_sound (s : st) dev : us_layout s -> (forall c, In c dev -> 0 <= c < 72) ->
  exists pls, plan_us_core 16 s dev = Ok pls /\
              apply_us 16 s dev pls = Ok (get_enabled_uplink_channel_indices s).
Proof.
  intros HL Hd. pose proof HL as [Hn _].
  destruct (generic_sound 16 ltac:(lia) s dev ltac:(lia)) as [a [Ea Sa]].
  { intros c Hc. apply Hd in Hc. lia. }
  unfold plan_us_core. rewrite Ea. cbn [bind]. eexists. split; [reflexivity|].
  destruct (length a <? length (plan_us_alt 16 s))%nat; [|now apply us_alt_sound].
  (* the generic plan only uses ChMaskCntl 0..4 here, which both apply functions treat alike *)
  rewrite <- (target_us s dev HL), <- Sa. unfold apply_us, apply_generic.
  destruct (init_mask (zlen (up s)) dev); cbn [bind]; try reflexivity.
  rewrite (apply_payloads_ext (apply_payload_us 16 (zlen (up s))) (apply_payload_generic 16 (zlen (up s)))); [reflexivity|].
  intros p m Hp. rewrite plan_generic_blocks in Ea by (try lia; intros c Hc; apply Hd in Hc; lia).
  injection Ea as <-. apply in_map_iff in Hp as [k [<- Hk]].
  apply plan_blocks_In in Hk as [c [Hc Ek]]; [|lia].
  assert (R : 0 <= c < 72).
  { apply diff_In in Hc as [[H _]|[H _]]; [auto|]. apply enabled_In, en_b_range in H. lia. }
  rewrite Z.quot_div_nonneg in Ek by lia.
  unfold apply_payload_us. cbn [mk_payload p_cntl].
  destruct ((k mod 256 =? 6) || (k mod 256 =? 7)) eqn:C; [lia|reflexivity].
Qed.

(* count and no-op carry over: the shorter of the two plans is returned *)
Theorem us_count (s : st) dev : (forall c, In c dev -> 0 <= c < zlen (up s)) ->
  exists pls, plan_us_core 16 s dev = Ok pls /\ Z.of_nat (length pls) <= blocks 16 (zlen (up s)).
Proof.
  intros Hd. destruct (generic_count 16 ltac:(lia) s dev Hd) as [a [Ea Ca]].
  unfold plan_us_core. rewrite Ea. cbn [bind]. eexists. split; [reflexivity|].
  destruct (length a <? length (plan_us_alt 16 s))%nat eqn:C; [exact Ca|].
  apply Nat.ltb_ge in C. lia.
Qed.

Theorem us_noop (s : st) dev : same_set dev (target s dev) -> plan_us_core 16 s dev = Ok [].
Proof.
  intros H. unfold plan_us_core. rewrite (generic_noop 16 s dev H). cbn [bind]. reflexivity.
Qed.

(* both US/AU plans fit the wire format *)
Theorem us_encodable (s : st) dev : us_layout s -> (forall c, In c dev -> 0 <= c < 72) ->
  exists pls, plan_us_core 16 s dev = Ok pls /\ forallb encodable pls = true.
Proof.
  intros HL Hd. pose proof HL as [Hn _].
  destruct (generic_encodable s dev ltac:(lia)) as [a [Ea Ha]].
  { intros c Hc. apply Hd in Hc. lia. }
  unfold plan_us_core. rewrite Ea. cbn [bind]. eexists. split; [reflexivity|].
  destruct (length a <? length (plan_us_alt 16 s))%nat; [exact Ha|].
  unfold plan_us_alt. rewrite enabled_sorted. set (en := get_enabled_uplink_channel_indices s).
  rewrite us_loop_spec. cbn [fst snd forallb].
  assert (Hen : forall ec, In ec en -> 0 <= ec < 72).
  { intros ec H. apply enabled_In, en_b_range in H. lia. }
  destruct (first_fold en (repeat false (Z.to_nat 16)) Hen eq_refl) as [Lf _].
  apply andb_true_iff. split.
  - unfold encodable. cbn [p_dr p_txp p_nbrep p_cntl p_mask]. rewrite Lf. reflexivity.
  - apply forallb_forall. intros p Hp. apply in_map_iff in Hp as [k [<- Hk]].
    apply cntls_sound in Hk as [c [Hc Ek]]. apply filter_In in Hc as [Hc Hlt]. apply Hen in Hc.
    rewrite Z.quot_div_nonneg in Ek by lia.
    unfold encodable, us_mk. cbn [p_dr p_txp p_nbrep p_cntl p_mask].
    unfold en. rewrite us_block_mask_spec by lia. rewrite wmask_length.
    change (Z.to_nat 16 =? 16)%nat with true. lia.
Qed.
