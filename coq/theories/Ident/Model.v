(* Model of netid.go and the DevAddr part of fhdr.go, on N with the uint32
   truncations written out.  A NetID is its 24-bit big-endian value, a
   DevAddr its 32-bit big-endian value (binary.BigEndian.Uint32(a[:])). *)
From Coq Require Import List NArith ZArith Bool.
From LW Require Import Base.Outcome Base.Bytes Base.Hex.
Import ListNotations.
Open Scope N_scope.

Definition shl32 (x s : N) : N := (N.shiftl x s) mod 2 ^ 32.

(* NetID.Type: n[0] >> 5 *)
Definition netid_type (v : N) : N := N.shiftr (v / 65536) 5.

(* NetID.getID(bits): shift left then right inside a uint32 *)
Definition get_id (v bits : N) : N := N.shiftr (shl32 v (32 - bits)) (32 - bits).

Definition netid_id_bits (t : N) : N :=
  match t with
  | 0 | 1 => 6
  | 2 => 9
  | _ => 21
  end.

Definition netid_id (v : N) : N := get_id v (netid_id_bits (netid_type v)).

(* bytes returned by NetID.ID(): b[len(b)-bLen:] of the big-endian uint32 *)
Definition byte_len (bits : N) : nat :=
  N.to_nat (bits / 8 + (if bits mod 8 =? 0 then 0 else 1)).
Definition netid_id_bytes (v : N) : list N :=
  be_bytes (byte_len (netid_id_bits (netid_type v))) (netid_id v).

(* DevAddr.setAddrPrefix(prefixLength, nwkIDBits, netID) *)
Definition set_addr_prefix_raw (p w v a : N) : N :=
  let a1 := N.ldiff a (shl32 (N.ones 32) (32 - p - w)) in
  let a2 := N.lor a1 (shl32 254 (32 - p)) in
  let nwk := N.shiftr (shl32 (be_val (netid_id_bytes v)) (32 - w)) p in
  N.lor a2 nwk.

(* the switch in SetAddrPrefix / NwkID *)
Definition prefix_table (t : N) : option (N * N) :=
  match t with
  | 0 => Some (1, 6)
  | 1 => Some (2, 6)
  | 2 => Some (3, 9)
  | 3 => Some (4, 11)
  | 4 => Some (5, 12)
  | 5 => Some (6, 13)
  | 6 => Some (7, 15)
  | 7 => Some (8, 17)
  | _ => None
  end.

Definition set_addr_prefix (v a : N) : N :=
  match prefix_table (netid_type v) with
  | Some (p, w) => set_addr_prefix_raw p w v a
  | None => a
  end.

Definition is_netid (v a : N) : bool := a =? set_addr_prefix v a.

(* DevAddr.NetIDType: first zero bit of a[0] from the top; -1 if none *)
Fixpoint first_zero_from (b0 : N) (i : nat) : Z :=
  (* examines bit i, then i-1, ... *)
  if negb (N.testbit b0 (N.of_nat i)) then 7 - Z.of_nat i
  else match i with
       | O => -1
       | S i' => first_zero_from b0 i'
       end.
Definition devaddr_netid_type (a : N) : Z := first_zero_from (a / 2 ^ 24) 7.

(* DevAddr.getNwkID *)
Definition get_nwkid (p w a : N) : N := N.shiftr (shl32 a p) (32 - w).
Definition devaddr_nwkid (a : N) : option (N * nat) :=
  (* value and number of bytes returned *)
  let t := devaddr_netid_type a in
  if (t <? 0)%Z then None else
  match prefix_table (Z.to_N t) with
  | Some (p, w) => Some (get_nwkid p w a, byte_len w)
  | None => None
  end.

(* binary form: byte-reversed; text: hex; sql: the bytes themselves *)
Definition marshal_binary (bs : list N) : list N := rev bs.
Definition unmarshal_binary (k : nat) (data : list N) : outcome (list N) :=
  if Nat.eqb (length data) k then Ok (rev data) else Err.
Definition scan (k : nat) (data : list N) : outcome (list N) :=
  if Nat.eqb (length data) k then Ok data else Err.
