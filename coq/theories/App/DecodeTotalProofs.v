(* The application-layer decoders are total: for every byte string and either
   direction, Command.UnmarshalBinary and Commands.UnmarshalBinary of the four
   packages return a value or an error - no index or slice expression of the
   model can be out of range (Panic), and the stream loop terminates. *)
From Coq Require Import List NArith ZArith Bool Lia.
From Coq Require Import ZifyN ZifyNat ZifyBool.
From LW Require Import Base.Outcome Base.Bytes App.Common App.Spec App.ProofTools.
From LW Require App.ClockSync App.Multicast App.FragCmds App.FwMgmt.
Import ListNotations.
Open Scope N_scope.

Section Generic.
  Variable payload : Type.
  Variable psize : payload -> nat.
  Variable lookup : bool -> N -> option (list N -> outcome payload).
  Variable window : bool -> list N -> list N.
  Hypothesis dec_no_panic : forall up cid d data, lookup up cid = Some d -> d data <> Panic.

  Lemma cmd_dec_no_panic up data : Common.cmd_dec lookup up data <> Panic.
  Proof.
    unfold Common.cmd_dec. destruct data as [|cid rest]; [discriminate|].
    destruct (lookup up cid) as [d|] eqn:E; [|discriminate].
    pose proof (dec_no_panic up cid d rest E). destruct (d rest); cbn [bind]; try discriminate. congruence.
  Qed.

  Lemma loop_no_panic up : forall fuel data,
    Common.cmds_dec_loop psize lookup window fuel up data <> Panic.
  Proof.
    induction fuel as [|fuel IH]; intros data; destruct data as [|b data]; cbn [Common.cmds_dec_loop];
      try discriminate.
    pose proof (cmd_dec_no_panic up (window up (b :: data))) as Hc.
    destruct (Common.cmd_dec lookup up (window up (b :: data))) as [c| | |]; cbn [bind]; try discriminate; [|congruence].
    specialize (IH (skipn (Common.cmd_size psize c) (b :: data))).
    destruct (Common.cmds_dec_loop psize lookup window fuel up _); cbn [bind]; try discriminate. congruence.
  Qed.

  Theorem cmds_dec_no_panic up data : Common.cmds_dec psize lookup window up data <> Panic.
  Proof. unfold Common.cmds_dec. apply loop_no_panic. Qed.
End Generic.

(* fixed-size decoder: after the length test the first k bytes exist *)
Ltac total data :=
  let E := fresh "E" in
  match goal with |- context [(length data <? ?kk)%nat] => destruct (length data <? kk)%nat eqn:E end;
  [discriminate|];
  apply Nat.ltb_ge in E;
  repeat (destruct data as [|? data]; [exfalso; cbn [length] in E; lia|]);
  run; try discriminate.

Module CSx.
  Import ClockSync.
  Lemma dec_no_panic up cid d data : lookup up cid = Some d -> d data <> Panic.
  Proof.
    unfold lookup. destruct up; cid_cases cid; intros H; try discriminate H; inversion H; subst; clear H.
    all: unfold dec_PackageVersionAns, dec_AppTimeReq, dec_DeviceAppTimePeriodicityAns, dec_AppTimeAns,
         dec_DeviceAppTimePeriodicityReq, dec_ForceDeviceResyncReq; total data.
  Qed.
End CSx.

Module FRx.
  Import FragCmds.
  Lemma dec_no_panic up cid d data : lookup up cid = Some d -> d data <> Panic.
  Proof.
    unfold lookup. destruct up; cid_cases cid; intros H; try discriminate H; inversion H; subst; clear H.
    all: unfold dec_PackageVersionAns, dec_FragSessionStatusAns, dec_FragSessionSetupAns, dec_FragSessionDeleteAns,
         dec_FragSessionStatusReq, dec_FragSessionSetupReq, dec_FragSessionDeleteReq, dec_DataFragment; total data.
  Qed.
End FRx.

Module FWx.
  Import FwMgmt.
  Lemma upgrade_ans_no_panic data : dec_DevUpgradeImageAns data <> Panic.
  Proof.
    unfold dec_DevUpgradeImageAns. total data.
    destruct (fw_valid _); [|discriminate].
    destruct data as [|? data]; [discriminate|]. destruct data as [|? data]; [discriminate|].
    destruct data as [|? data]; [discriminate|]. destruct data as [|? data]; [discriminate|].
    run. discriminate.
  Qed.
  Lemma dec_no_panic up cid d data : lookup up cid = Some d -> d data <> Panic.
  Proof.
    unfold lookup. destruct up; cid_cases cid; intros H; try discriminate H; inversion H; subst; clear H.
    all: first [ apply upgrade_ans_no_panic
               | unfold dec_DevVersionReq, dec_DevUpgradeImageReq; destruct (negb _); discriminate
               | unfold dec_PackageVersionAns, dec_DevVersionAns, dec_DevRebootTimeAns, dec_DevRebootCountdownAns,
                 dec_DevDeleteImageAns, dec_DevRebootTimeReq, dec_DevRebootCountdownReq, dec_DevDeleteImageReq;
                 total data ].
  Qed.
End FWx.

Module MCx.
  Import Multicast.
  Lemma dec_items_no_panic n : forall data off, (off + 5 * n <= length data)%nat ->
    dec_items n data off <> Panic.
  Proof.
    induction n as [|n IH]; intros data off H; cbn [dec_items]; [discriminate|].
    unfold idx, sub, devaddr_unmarshal.
    destruct (nth_error data off) eqn:E; [|apply nth_error_None in E; lia].
    cbn [bind]. replace (off + 5 <=? length data)%nat with true by (symmetry; apply Nat.leb_le; lia).
    cbn [bind]. rewrite firstn_length, skipn_length.
    replace (Nat.eqb (Nat.min (off + 5 - (off + 1)) (length data - (off + 1))) 4) with true
      by (symmetry; apply Nat.eqb_eq; lia).
    cbn [bind]. specialize (IH data (off + 5)%nat ltac:(lia)).
    destruct (dec_items n data (off + 5)); cbn [bind]; try discriminate. congruence.
  Qed.

  Lemma session_no_panic mk data : dec_session_ans mk data <> Panic.
  Proof.
    unfold dec_session_ans. destruct (Nat.eqb (length data) 0) eqn:E0; [discriminate|].
    destruct data as [|b data]; [discriminate|]. run.
    destruct (negb _); [|discriminate].
    destruct data as [|? data]; [discriminate|]. destruct data as [|? data]; [discriminate|].
    destruct data as [|? data]; [discriminate|]. run. discriminate.
  Qed.

  Lemma status_ans_no_panic data : dec_McGroupStatusAns data <> Panic.
  Proof.
    unfold dec_McGroupStatusAns. destruct (Nat.eqb (length data) 0) eqn:E0; [discriminate|].
    destruct data as [|b data]; [discriminate|]. cbn [idx nth_error bind]. cbv zeta.
    destruct (_ <? _)%nat eqn:E; [discriminate|]. apply Nat.ltb_ge in E.
    pose proof (dec_items_no_panic (count_true (unmask4 b)) (b :: data) 1 ltac:(lia)) as Hi.
    destruct (dec_items _ _ 1); cbn [bind]; try discriminate. congruence.
  Qed.

  Lemma dec_no_panic up cid d data : lookup up cid = Some d -> d data <> Panic.
  Proof.
    unfold lookup. destruct up; cid_cases cid; intros H; try discriminate H; inversion H; subst; clear H.
    all: first [ apply status_ans_no_panic | apply session_no_panic
               | unfold dec_PackageVersionAns, dec_McGroupSetupAns, dec_McGroupDeleteAns, dec_McGroupStatusReq,
                 dec_McGroupSetupReq, dec_McGroupDeleteReq, dec_McClassCSessionReq, dec_McClassBSessionReq, rd_freq;
                 total data ].
  Qed.
End MCx.

Theorem decoders_no_panic up data :
  ClockSync.cmds_dec up data <> Panic /\ Multicast.cmds_dec up data <> Panic
  /\ FragCmds.cmds_dec up data <> Panic /\ FwMgmt.cmds_dec up data <> Panic
  /\ ClockSync.cmd_dec up data <> Panic /\ Multicast.cmd_dec up data <> Panic
  /\ FragCmds.cmd_dec up data <> Panic /\ FwMgmt.cmd_dec up data <> Panic.
Proof.
  repeat split.
  - apply (cmds_dec_no_panic _ _ _ _ CSx.dec_no_panic).
  - apply (cmds_dec_no_panic _ _ _ _ MCx.dec_no_panic).
  - apply (cmds_dec_no_panic _ _ _ _ FRx.dec_no_panic).
  - apply (cmds_dec_no_panic _ _ _ _ FWx.dec_no_panic).
  - apply (cmd_dec_no_panic _ _ CSx.dec_no_panic).
  - apply (cmd_dec_no_panic _ _ MCx.dec_no_panic).
  - apply (cmd_dec_no_panic _ _ FRx.dec_no_panic).
  - apply (cmd_dec_no_panic _ _ FWx.dec_no_panic).
Qed.
