(* Correspondence cases for C20: model vs implementation, and the
   specification (IERS dates, AN1200.13 formula, LoRaWAN EIRP table) evaluated
   on what the implementation returned.

   Row cases carry the observed values for payload sizes 0..n-1; their result
   code is  (model differs ? 1 : 0) + (property fails ? 2 : 0) + 4 * (index of
   the first offending payload size), so the replay entry's "code" names the
   input:  payload = code / 4. *)
From Coq Require Import List NArith ZArith QArith Qround Bool.
From LW Require Import Base.Outcome Misc.Gps Misc.GpsSpec Misc.Airtime Misc.AirtimeSpec Misc.Eirp Misc.Sens.
Import ListNotations.
Open Scope Z_scope.

Inductive case :=
(* UTC instant t (ns); observed TimeSinceGPSEpoch and NewTimeFromTimeSinceGPSEpoch of that *)
| CUtc (t o_d o_back : Z)
(* same API far outside 1980..2100 (Duration saturation): model tie only *)
| CUtcFar (t o_d o_back : Z)
(* two instants and their observed durations *)
| CMono (t1 t2 o_d1 o_d2 : Z)
(* GPS duration d (ns); observed UTC instant and the duration computed back from it *)
| CGps (d o_t o_d : Z)
(* symbol counts for payload sizes 0.. *)
| CSymRow (sf cr : Z) (header ldro : bool) (os : list Z)
| CSym (pl sf cr : Z) (header ldro : bool) (o : outcome Z)
(* airtimes for payload sizes 0.., with the observed symbol and preamble durations *)
| CAirRow (sf bw pre cr : Z) (header ldro : bool) (o_sd o_pre : Z) (os : list Z)
| CAir (pl sf bw pre cr : Z) (header ldro : bool) (o_sd : outcome Z) (o : outcome Z)
(* power as an exact rational; observed index and the decoding of that index *)
| CEirpIdx (p : Q) (o_idx : N) (o_val : outcome Q)
| CEirpVal (idx : N) (o : outcome Q)
(* CalculateSensitivity(bw, nf, snr) with nf + snr exact: observed value *)
| CSens (bw : Z) (nfsnr o : Q).

(* rationals in case files: numerator, denominator *)
Definition mkq (n : Z) (d : positive) : Q := Qmake n d.

Definition ozeqb := outcome_eqb Z.eqb.
Definition oqeqb := outcome_eqb Qeq_bool.

(* ---------- GPS ---------- *)
Definition gps_domain (t : Z) : bool :=
  (unix_of_civil gps_epoch_civil * ns <=? t) && (t <? unix_of_civil (2101, 1, 1) * ns).

(* ---------- airtime ---------- *)
Definition in_sym_domain (pl sf cr : Z) : bool :=
  (0 <=? pl) && (pl <=? 255) && (5 <=? sf) && (sf <=? 12) && (1 <=? cr) && (cr <=? 4).
Definition bw_listed (bw : Z) : bool :=
  (bw =? 125) || (bw =? 250) || (bw =? 500) || (bw =? 812) || (bw =? 1625).
Definition bw_exact (bw : Z) : bool := (bw =? 125) || (bw =? 250) || (bw =? 500).

(* observed airtime v against the formula: its value truncated to whole nanoseconds *)
Definition airtime_prop (pl sf bw pre cr : Z) (header ldro : bool) (v : Z) : bool :=
  v =? Qfloor (spec_airtime pl sf bw pre cr header ldro).

(* first index (from i) where f fails on the list, as code contribution *)
Fixpoint first_bad {A} (f : Z -> A -> bool) (i : Z) (l : list A) : option Z :=
  match l with
  | [] => None
  | x :: r => if f i x then first_bad f (i + 1) r else Some i
  end.

(* index of the first element that is smaller than its predecessor *)
Fixpoint first_drop (i : Z) (l : list Z) : option Z :=
  match l with
  | a :: ((b :: _) as r) => if a <=? b then first_drop (i + 1) r else Some (i + 1)
  | _ => None
  end.

Definition row_code (m p : option Z) : N :=
  match m, p with
  | None, None => 0%N
  | _, Some i => (2 + (match m with None => 0 | Some _ => 1 end) + 4 * Z.to_N i)%N
  | Some i, None => (1 + 4 * Z.to_N i)%N
  end.

Definition omin (a b : option Z) : option Z :=
  match a, b with
  | Some x, Some y => Some (Z.min x y)
  | Some x, None => Some x
  | None, y => y
  end.

(* ---------- EIRP ---------- *)
Definition qnth (l : list Q) (i : N) : option Q := nth_error l (N.to_nat i).

Definition eirp_prop (p : Q) (o_idx : N) (o_val : outcome Q) : bool :=
  match qnth lorawan_eirp_table o_idx, o_val with
  | Some v, Ok v' =>
    Qeq_bool v v' &&
    (if Qle_bool 8 p then
       Qle_bool v p && match qnth lorawan_eirp_table (o_idx + 1) with Some w => qlt p w | None => true end
     else N.eqb o_idx 0)
  | _, _ => false
  end.

(* ---------- sensitivity ---------- *)
(* S = -174 + 10 log10(BW) + NF + SNR, checked to +-0.1 dB with the integer bracket of Misc/Sens.v;
   Misc/SensProofs.v (sens_bracket_sound) proves over the reals that an accepted value is within
   0.1 dB of the formula *)
Definition sens_prop (bw : Z) (nfsnr o : Q) : bool := sens_bracket bw nfsnr o.

Definition check (c : case) : N :=
  match c with
  | CUtc t o_d o_back =>
    code ((to_gps t =? o_d) && (from_gps o_d =? o_back))
         ((o_back =? t) && (o_d =? spec_to_gps t))
  | CUtcFar t o_d o_back =>
    code ((to_gps t =? o_d) && (from_gps o_d =? o_back)) true
  | CMono t1 t2 o_d1 o_d2 =>
    code ((to_gps t1 =? o_d1) && (to_gps t2 =? o_d2))
         (if t1 <? t2 then o_d1 <? o_d2 else if t2 <? t1 then o_d2 <? o_d1 else o_d1 =? o_d2)
  | CGps d o_t o_d =>
    code ((from_gps d =? o_t) && (to_gps o_t =? o_d))
         (in_inserted_leap_second d || ((o_d =? d) && (spec_to_gps o_t =? d)))
  | CSymRow sf cr header ldro os =>
    row_code (first_bad (fun pl o => ozeqb (payload_symbols pl sf cr header ldro) (Ok o)) 0 os)
             (omin (first_bad (fun pl o => o =? spec_npayload pl sf cr header ldro) 0 os)
                   (first_drop 0 os))
  | CSym pl sf cr header ldro o =>
    code (negb (symbols_modelled pl sf ldro) || ozeqb (payload_symbols pl sf cr header ldro) o)
         (if in_sym_domain pl sf cr then ozeqb o (Ok (spec_npayload pl sf cr header ldro))
          else if (cr <? 1) || (4 <? cr) then ozeqb o Err else true)
  | CAirRow sf bw pre cr header ldro o_sd o_pre os =>
    row_code (omin (if ozeqb (symbol_duration sf bw) (Ok o_sd) && (preamble_duration o_sd pre =? o_pre)
                    then None else Some 0)
                   (first_bad (fun pl o => ozeqb (airtime pl sf bw pre cr header ldro) (Ok o)) 0 os))
             (omin (* the symbol-duration helper is the formula's symbol time truncated to ns *)
                   (if o_sd =? Qfloor (spec_tsym sf bw) then None else Some 0)
                   (omin (first_bad (fun pl o => airtime_prop pl sf bw pre cr header ldro o) 0 os)
                         (first_drop 0 os)))
  | CAir pl sf bw pre cr header ldro o_sd o =>
    code (ozeqb (symbol_duration sf bw) o_sd &&
          (negb (symbols_modelled pl sf ldro) || ozeqb (airtime pl sf bw pre cr header ldro) o))
         (if in_sym_domain pl sf cr && bw_listed bw && (0 <=? pre) && (pre <=? 64)
          then match o with Ok v => airtime_prop pl sf bw pre cr header ldro v | _ => false end
          else true)
  | CEirpIdx p o_idx o_val =>
    code (N.eqb (eirp_index p) o_idx && oqeqb (eirp_value o_idx) o_val)
         (eirp_prop p o_idx o_val)
  | CEirpVal idx o =>
    code (oqeqb (eirp_value idx) o)
         (match qnth lorawan_eirp_table idx with
          | Some v => oqeqb o (Ok v)
          | None => oqeqb o Err
          end)
  | CSens bw nfsnr o => code true (sens_prop bw nfsnr o)
  end.

Definition run_cases := run_with check.
