(* Model of the join-server HTTP handler of /repo/backend/joinserver:
     joinserver.go     ServeHTTP :87-120, returnError :122-139, return*ReqError :141-199,
                       handleJoinReq :212-263, handleRejoinReq :265-316, handleHomeNSReq :318-359
     join_request.go   joinTasks :12-18, wrapper :20-52, setJoinContext :75-99, validateMIC :101-110,
                       setJoinNonce :112-118, setSessionKeys :120-154, createJoinAnsPayload :156-237
     rejoin_request.go rejoinTasks :12-17 (NO validateMIC), setRejoinContext :74-101,
                       createRejoinAnsPayload :103-180
     session_keys.go   getSKey :42-88, getJSKey :90-111
     backend.go        NewKeyEnvelope (model: LW.Backend.KeyEnvelope), request / answer payload types
   as ONE pure function [handle cfg body : answer].

   What is modelled / what is not
   * encoding/json itself is NOT modelled: a request body is either [BadJSON] (json.Unmarshal into
     the payload struct fails for a reason that lies inside encoding/json: syntax error, wrong JSON
     kind for a field, number out of range) or [Body r] where [r] holds what encoding/json hands
     to the repository's own code: Go strings for SenderID / ReceiverID / MessageType, the number
     TransactionID (uint32) and RxDelay (int), and for every field whose Go type has an
     UnmarshalText method the TEXT it is called with ([JText]) or [JAbsent] (field absent or null:
     the method is not called, the Go zero value stays).  The UnmarshalText methods themselves
     (HEXBytes, EUI64, DevAddr, DLSettings, NetID) ARE modelled (Base.Hex).
   * The four configuration callbacks are functions (any Go closure that is a function of its
     argument).  Their error results are values: [Found v | NotFound | LookErr] for the two
     ErrDevEUINotFound-aware callbacks, [outcome] for the other two.
   * KEKs: NewKeyEnvelope is modelled for AES-128 KEKs (16 bytes), the empty KEK (key sent in the
     clear) and KEKs of a length aes.NewCipher refuses.  24 / 32-byte KEKs (AES-192/256) are not
     modelled here (LW.Backend.KeyEnvelope); theorems assume [kek_supported], the harness checks
     them on the Go side only.
   * Description strings and logging are not modelled.  Lifetime is never set by the code: [None].
   * Repairs of the audit findings are mirrored: an undecodable typed member is answered with the mirrored
     JoinAns / RejoinAns / HomeNSAns (400 Other), RxDelay outside 0..15 and a negative JoinNonce are
     refused, the JoinEUI of the MIC / key derivations is the one of the join-request (rejoin type 1)
     frame, ReceiverID only has to be an EUI64 text.
   * A Go run-time panic inside the handler would be [APanic]; JoinServerProofs.handle_no_panic
     shows the model never produces it.

   Two facts of the code as written (re-verified on the source, see notes/C16.md):
   (1) rejoinTasks has no MIC validation: the MIC of a rejoin-request is never looked at;
   (2) setSessionKeys reads ctx.joinReqPayload.DLSettings.OptNeg.  In the rejoin flow
       joinReqPayload is the zero value, so the four session keys of a rejoin answer are always
       derived the 1.0 way (NetID based, AppSKey from NwkKey) although the join-accept carries the
       requested OptNeg bit.  [session_keys false ...] in [handle_rejoin] below is that fact.
   Model file: no proofs (JoinServerProofs.v). *)
From Coq Require Import List NArith ZArith Bool.
From LW Require Import Base.Outcome Base.Bytes Base.Hex Crypto.AES Crypto.CMAC Crypto.KeyWrap
  Mac.Commands Mac.Stream Frame.Model Sec.MIC Sec.JoinAccept Backend.KeyEnvelope.
Import ListNotations.
Open Scope N_scope.

(* ---------- configuration ---------- *)
Record devkeys := mkDevKeys { dk_nwkkey : list N; dk_appkey : list N; dk_joinnonce : Z }.

Inductive lookup (A : Type) := Found (a : A) | NotFound | LookErr.
Arguments Found {A} a. Arguments NotFound {A}. Arguments LookErr {A}.

Record config := mkConfig {
  get_keys : list N -> lookup devkeys;          (* GetDeviceKeysByDevEUIFunc: DevEUI (8 bytes, array order) *)
  get_kek : list N -> outcome (list N);         (* GetKEKByLabelFunc: label string -> KEK bytes ([] = none) *)
  get_aslabel : list N -> outcome (list N);     (* GetASKEKLabelByDevEUIFunc: DevEUI -> label ("" = none) *)
  get_homenetid : list N -> lookup (list N)     (* GetHomeNetIDByDevEUIFunc: DevEUI -> NetID (3 bytes) *)
}.

(* ---------- request ---------- *)
Inductive jval := JAbsent | JText (s : list N).

Record request := mkRequest {
  r_sender : list N;        (* BasePayload.SenderID   (Go string as bytes) *)
  r_receiver : list N;      (* BasePayload.ReceiverID *)
  r_txid : N;               (* BasePayload.TransactionID (uint32) *)
  r_mtype : list N;         (* BasePayload.MessageType *)
  r_sendertoken : jval;     (* BasePayload.SenderToken (HEXBytes) *)
  r_phy : jval;             (* PHYPayload (HEXBytes) *)
  r_deveui : jval;          (* DevEUI (EUI64) *)
  r_devaddr : jval;         (* DevAddr *)
  r_dlsettings : jval;      (* DLSettings *)
  r_rxdelay : Z;            (* RxDelay (int) *)
  r_cflist : jval           (* CFList (HEXBytes, omitempty) *)
}.

(* [BadJSON]: the body is not a JSON object (syntax error, array, number, string): encoding/json fills
   nothing.  [BadMember r]: a JSON object of which encoding/json refuses one member - of the base payload
   (TransactionID that is no uint32, SenderID that is no string, an undecodable ReceiverToken / VSExtension
   ...) or of the typed payload of that message type (wrong JSON kind, number out of range); decoding goes
   on after a member error, [r] holds what was filled in (the Go zero value for the refused member).
   [Body r]: encoding/json accepts everything. *)
Inductive body := BadJSON | BadMember (r : request) | Body (r : request).

(* ---------- answer ---------- *)
Inductive rescode := RSuccess | RMICFailed | RUnknownDevEUI | ROther | RUnexpected.
Inductive ansmtype := MJoinAns | MRejoinAns | MHomeNSAns.

(* KeyEnvelope: (KEKLabel, AESKey) *)
Definition envelope := (list N * list N)%type.

Record keyset := mkKeys {
  k_snwksint : option envelope; k_fnwksint : option envelope; k_nwksenc : option envelope;
  k_nwkskey : option envelope; k_appskey : option envelope
}.
Definition no_keys := mkKeys None None None None None.

Inductive answer :=
| ABare (status : N) (rc : rescode)                     (* returnError: a bare Result object *)
| AMsg (status : N) (mt : ansmtype) (sender receiver : list N) (txid : N) (rc : rescode)
       (phy : list N) (lifetime : option Z) (keys : keyset) (hnetid : option (list N))
| APanic.

(* ---------- string constants ---------- *)
Definition s_JoinReq : list N := [74; 111; 105; 110; 82; 101; 113].
Definition s_RejoinReq : list N := [82; 101; 106; 111; 105; 110; 82; 101; 113].
Definition s_HomeNSReq : list N := [72; 111; 109; 101; 78; 83; 82; 101; 113].

(* ---------- text fields ---------- *)
(* a field with an UnmarshalText method: absent -> zero value, present -> the method's result *)
Definition field {A} (zero : A) (dec : list N -> outcome A) (v : jval) : outcome A :=
  match v with JAbsent => Ok zero | JText s => dec s end.

Definition hexbytes_text (s : list N) : outcome (list N) := hex_dec (trim0x s).   (* HEXBytes.UnmarshalText *)
Definition zero_bytes (k : nat) : list N := repeat 0 k.

(* DLSettings.UnmarshalText: hex.DecodeString (no 0x trimming), then exactly one byte *)
Definition dlsettings_text (s : list N) : outcome (bool * N * N) :=
  do b <- hex_dec s;
  match b with [d] => Ok (dec_dlsettings d) | _ => Err end.

(* ---------- session_keys.go ---------- *)
(* getSKey: b[0] = typ; optNeg: b[1:4] JoinNonce, b[4:12] JoinEUI, b[12:14] DevNonce;
   else b[1:4] JoinNonce, b[4:7] NetID, b[7:9] DevNonce; zero padded to 16; AES-128 encrypt.
   JoinNonce.MarshalBinary fails for values >= 2^24 (setJoinNonce already excludes them). *)
Definition skey_block (optneg : bool) (typ : N) (netid joineui : list N) (joinnonce devnonce : N) : list N :=
  firstn 16 ([typ] ++ firstn 3 (le_bytes 4 joinnonce)
             ++ (if optneg then rev joineui else rev netid)
             ++ le_bytes 2 devnonce ++ repeat 0 16).

Definition get_skey (optneg : bool) (typ : N) (key netid joineui : list N) (joinnonce devnonce : N)
  : outcome (list N) :=
  if 16777216 <=? joinnonce then Err else
  Ok (aes_encrypt key (skey_block optneg typ netid joineui joinnonce devnonce)).

(* getJSKey: b[0] = typ; b[1:9] = DevEUI.MarshalBinary() (reversed) *)
Definition get_jskey (typ : N) (deveui nwkkey : list N) : list N :=
  aes_encrypt nwkkey (firstn 16 ([typ] ++ rev deveui ++ repeat 0 16)).
Definition get_jsintkey nwkkey deveui := get_jskey 6 deveui nwkkey.
Definition get_jsenckey nwkkey deveui := get_jskey 5 deveui nwkkey.

Record skeys := mkSKeys { sk_fnwksint : list N; sk_appskey : list N; sk_snwksint : list N; sk_nwksenc : list N }.

(* setSessionKeys: [optneg] is ctx.joinReqPayload.DLSettings.OptNeg *)
Definition session_keys (optneg : bool) (dk : devkeys) (netid joineui : list N) (joinnonce devnonce : N)
  : outcome skeys :=
  do f <- get_skey optneg 1 (dk_nwkkey dk) netid joineui joinnonce devnonce;
  do a <- get_skey optneg 2 (if optneg then dk_appkey dk else dk_nwkkey dk) netid joineui joinnonce devnonce;
  do s <- get_skey optneg 3 (dk_nwkkey dk) netid joineui joinnonce devnonce;
  do e <- get_skey optneg 4 (dk_nwkkey dk) netid joineui joinnonce devnonce;
  Ok (mkSKeys f a s e).

(* ---------- pipelines ---------- *)
(* errors.Cause(err) == ErrInvalidMIC or anything else *)
Inductive presult (A : Type) := POk (a : A) | PMic | POther | PPanic.
Arguments POk {A} a. Arguments PMic {A}. Arguments POther {A}. Arguments PPanic {A}.

Definition lift {A} (o : outcome A) : presult A :=
  match o with Ok a => POk a | Err => POther | Panic => PPanic | OutOfFuel => PPanic end.
Definition pbind {A B} (x : presult A) (f : A -> presult B) : presult B :=
  match x with POk a => f a | PMic => PMic | POther => POther | PPanic => PPanic end.
Notation "'pdo' x <- e ; k" := (pbind e (fun x => k))
  (at level 200, x pattern, e at level 100, k at level 200, right associativity).

(* typed request fields after the JSON layer *)
Record treq := mkTReq {
  t_phy : list N; t_deveui : list N; t_devaddr : list N; t_dl : bool * N * N; t_rxdelay : Z; t_cflist : list N
}.

Definition JoinRequestType : N := 255.     (* lorawan.JoinRequestType = 0xff; RejoinRequestType0/1/2 = 0/1/2 *)

(* setJoinNonce (after the fix: negative values are refused too) *)
Definition set_join_nonce (dk : devkeys) : outcome N :=
  if (dk_joinnonce dk <? 0)%Z || (16777215 <? dk_joinnonce dk)%Z then Err else
  Ok (Z.to_N (dk_joinnonce dk)).

(* the optional CFList of create(Re)JoinAnsPayload *)
Definition opt_cflist (bs : list N) : outcome (option cflist) :=
  match bs with [] => Ok None | _ => do c <- cflist_unmarshal bs; Ok (Some c) end.

(* join-accept construction shared by both flows: payload, MIC, encryption, wire bytes *)
Definition build_join_accept (joinnonce : N) (netid : list N) (t : treq) (jointype : N) (joineui : list N)
    (devnonce : N) (mickey enckey : list N) : outcome (list N) :=
  (* after the fix: RxDelay outside 0..15 is refused before the uint8 conversion *)
  if (t_rxdelay t <? 0)%Z || (15 <? t_rxdelay t)%Z then Err else
  do cfl <- opt_cflist (t_cflist t);
  let '(optneg, rx2, rx1) := t_dl t in
  let p := mkPHY JoinAccept 0
             (PLJoinAccept joinnonce netid (t_devaddr t) optneg rx2 rx1
                           (Z.to_N (t_rxdelay t)) cfl) [0; 0; 0; 0] in
  do p1 <- set_down_join_mic jointype joineui devnonce mickey p;
  do p2 <- encrypt_join_accept enckey p1;
  phy_marshal p2.

Definition envelope_of (label kek key : list N) : outcome (option envelope) :=
  do e <- new_key_envelope label kek key; Ok (Some e).

(* handleJoinRequest: setJoinContext; validateMIC; setJoinNonce; setSessionKeys; createJoinAnsPayload *)
Definition join_pipeline (sender receiver : list N) (t : treq) (dk : devkeys)
    (aslabel askek nslabel nskek : list N) : presult (list N * keyset) :=
  pdo p <- lift (phy_unmarshal (t_phy t));
  pdo netid <- lift (unmarshal_text 3 sender);
  pdo _ <- lift (unmarshal_text 8 receiver);           (* ReceiverID must be an EUI64 text ... *)
  (* ... but (after the fix) the JoinEUI of the join-request frame is the one used *)
  (* (after the second repair) the DevEUI member must be the DevEUI of the frame *)
  pdo jd <- match pl p with
            | PLJoinRequest je de dn => if bytes_eqb de (t_deveui t) then POk (je, dn) else POther
            | _ => POther
            end;
  let '(joineui, devnonce) := jd in
  pdo ok <- lift (validate_up_join_mic (dk_nwkkey dk) p);
  if negb ok then PMic else
  pdo jn <- lift (set_join_nonce dk);
  let '(optneg, _, _) := t_dl t in
  pdo sk <- lift (session_keys optneg dk netid joineui jn devnonce);
  let mickey := if optneg then get_jsintkey (dk_nwkkey dk) (t_deveui t) else dk_nwkkey dk in
  pdo b <- lift (build_join_accept jn netid t JoinRequestType joineui devnonce mickey (dk_nwkkey dk));
  pdo app <- lift (envelope_of aslabel askek (sk_appskey sk));
  if optneg then
    pdo f <- lift (envelope_of nslabel nskek (sk_fnwksint sk));
    pdo s <- lift (envelope_of nslabel nskek (sk_snwksint sk));
    pdo e <- lift (envelope_of nslabel nskek (sk_nwksenc sk));
    POk (b, mkKeys s f e None app)
  else
    pdo n <- lift (envelope_of nslabel nskek (sk_fnwksint sk));
    POk (b, mkKeys None None None n app).

(* handleRejoinRequest: setRejoinContext; setJoinNonce; setSessionKeys; createRejoinAnsPayload *)
Definition rejoin_pipeline (sender receiver : list N) (t : treq) (dk : devkeys)
    (aslabel askek nslabel nskek : list N) : presult (list N * keyset) :=
  pdo p <- lift (phy_unmarshal (t_phy t));
  pdo netid <- lift (unmarshal_text 3 sender);
  pdo rid <- lift (unmarshal_text 8 receiver);
  (* type 0 / 2 frames carry no JoinEUI: ReceiverID; type 1 (after the fix): the JoinEUI of the frame *)
  pdo tn <- match pl p with
            | PLRejoin02 ty _ de rc => if bytes_eqb de (t_deveui t) then POk (ty, rid, rc) else POther
            | PLRejoin1 ty je de rc => if bytes_eqb de (t_deveui t) then POk (ty, je, rc) else POther
            | _ => POther
            end;
  let '(jointype, joineui, devnonce) := tn in
  pdo jn <- lift (set_join_nonce dk);
  (* fact (2): OptNeg of the zero-valued joinReqPayload *)
  pdo sk <- lift (session_keys false dk netid joineui jn devnonce);
  let jsint := get_jsintkey (dk_nwkkey dk) (t_deveui t) in
  let jsenc := get_jsenckey (dk_nwkkey dk) (t_deveui t) in
  pdo b <- lift (build_join_accept jn netid t jointype joineui devnonce jsint jsenc);
  pdo app <- lift (envelope_of aslabel askek (sk_appskey sk));
  pdo f <- lift (envelope_of nslabel nskek (sk_fnwksint sk));
  pdo s <- lift (envelope_of nslabel nskek (sk_snwksint sk));
  pdo e <- lift (envelope_of nslabel nskek (sk_nwksenc sk));
  POk (b, mkKeys s f e None app).

(* ---------- JSON layer of the typed payloads ---------- *)
(* json.Unmarshal into BasePayload: only SenderToken has an UnmarshalText among the modelled fields *)
Definition base_decode (r : request) : outcome unit :=
  do _ <- field [] hexbytes_text (r_sendertoken r); Ok tt.

(* json.Unmarshal into JoinReqPayload / RejoinReqPayload (same fields) *)
Definition typed_decode (r : request) : outcome treq :=
  do phy <- field [] hexbytes_text (r_phy r);
  do de <- field (zero_bytes 8) (unmarshal_text 8) (r_deveui r);
  do da <- field (zero_bytes 4) (unmarshal_text 4) (r_devaddr r);
  do dl <- field (false, 0, 0) dlsettings_text (r_dlsettings r);
  do cf <- field [] hexbytes_text (r_cflist r);
  Ok (mkTReq phy de da dl (r_rxdelay r) cf).

(* handleJoinReq / handleRejoinReq: same shape, different pipeline and answer type *)
Definition handle_activation (mt : ansmtype)
    (pipeline : list N -> list N -> treq -> devkeys -> list N -> list N -> list N -> list N
                -> presult (list N * keyset))
    (cfg : config) (r : request) : answer :=
  match typed_decode r with
  | Ok t =>
    let err status rc := AMsg status mt (r_receiver r) (r_sender r) (r_txid r) rc [] None no_keys None in
    match get_keys cfg (t_deveui t) with
    | NotFound => err 400 RUnknownDevEUI
    | LookErr => err 400 ROther
    | Found dk =>
      match get_kek cfg (r_sender r) with
      | Ok nskek =>
        match get_aslabel cfg (t_deveui t) with
        | Ok aslabel =>
          match get_kek cfg aslabel with
          | Ok askek =>
            match pipeline (r_sender r) (r_receiver r) t dk aslabel askek (r_sender r) nskek with
            | POk (phy, keys) =>
              AMsg 200 mt (r_receiver r) (r_sender r) (r_txid r) RSuccess phy None keys None
            | PMic => err 200 RMICFailed
            | POther => err 200 ROther
            | PPanic => APanic
            end
          | Err => err 500 ROther
          | _ => APanic
          end
        | Err => err 500 ROther
        | _ => APanic
        end
      | Err => err 500 ROther
      | _ => APanic
      end
    end
  (* after the fix: the base payload has been decoded, the error answer mirrors it *)
  | Err => AMsg 400 mt (r_receiver r) (r_sender r) (r_txid r) ROther [] None no_keys None
  | _ => APanic
  end.

(* handleHomeNSReq *)
Definition handle_homens (cfg : config) (r : request) : answer :=
  match field (zero_bytes 8) (unmarshal_text 8) (r_deveui r) with
  | Ok de =>
    let ans status rc nid :=
      AMsg status MHomeNSAns (r_receiver r) (r_sender r) (r_txid r) rc [] None no_keys (Some nid) in
    match get_homenetid cfg de with
    | Found nid => ans 200 RSuccess nid
    | NotFound => ans 400 RUnknownDevEUI (zero_bytes 3)
    | LookErr => ans 500 ROther (zero_bytes 3)
    end
  | Err => AMsg 400 MHomeNSAns (r_receiver r) (r_sender r) (r_txid r) ROther [] None no_keys (Some (zero_bytes 3))
  | _ => APanic
  end.

(* a member of the base payload or of the typed payload could not be decoded: the error answer of the
   message type the request asks for, mirroring what was decoded (after the repairs 246a02c and its
   sibling for base members); the bare error only when the message type is not served *)
Definition error_answer (r : request) : answer :=
  let err mt hn := AMsg 400 mt (r_receiver r) (r_sender r) (r_txid r) ROther [] None no_keys hn in
  if bytes_eqb (r_mtype r) s_JoinReq then err MJoinAns None
  else if bytes_eqb (r_mtype r) s_RejoinReq then err MRejoinAns None
  else if bytes_eqb (r_mtype r) s_HomeNSReq then err MHomeNSAns (Some (zero_bytes 3))
  else ABare 400 ROther.

(* ServeHTTP *)
Definition handle (cfg : config) (b : body) : answer :=
  match b with
  | BadJSON => ABare 400 ROther
  | BadMember r => error_answer r
  | Body r =>
    match base_decode r with
    | Ok _ =>
      if bytes_eqb (r_mtype r) s_JoinReq then handle_activation MJoinAns join_pipeline cfg r
      else if bytes_eqb (r_mtype r) s_RejoinReq then handle_activation MRejoinAns rejoin_pipeline cfg r
      else if bytes_eqb (r_mtype r) s_HomeNSReq then handle_homens cfg r
      else ABare 400 ROther
    | Err => error_answer r         (* a base member with an UnmarshalText method (SenderToken) refuses its text *)
    | _ => APanic
    end
  end.

(* N requests through one handler: the handler value holds only the configuration, every request
   gets a fresh context, so the answers are the pointwise answers (this is a statement about the
   MODEL; that the Go handler shares no mutable state between requests is checked by the
   interleaved / -race runs of the harness, not proved). *)
Definition handle_all (cfg : config) (bs : list body) : list answer := map (handle cfg) bs.

(* ---------- equality for the case checker ---------- *)
Definition rescode_eqb (a b : rescode) : bool :=
  match a, b with
  | RSuccess, RSuccess | RMICFailed, RMICFailed | RUnknownDevEUI, RUnknownDevEUI | ROther, ROther => true
  | _, _ => false      (* RUnexpected equals nothing *)
  end.
Definition ansmtype_eqb (a b : ansmtype) : bool :=
  match a, b with MJoinAns, MJoinAns | MRejoinAns, MRejoinAns | MHomeNSAns, MHomeNSAns => true | _, _ => false end.
Definition envelope_eqb (a b : envelope) : bool := bytes_eqb (fst a) (fst b) && bytes_eqb (snd a) (snd b).
Definition keyset_eqb (a b : keyset) : bool :=
  option_eqb envelope_eqb (k_snwksint a) (k_snwksint b) && option_eqb envelope_eqb (k_fnwksint a) (k_fnwksint b)
  && option_eqb envelope_eqb (k_nwksenc a) (k_nwksenc b) && option_eqb envelope_eqb (k_nwkskey a) (k_nwkskey b)
  && option_eqb envelope_eqb (k_appskey a) (k_appskey b).
Definition answer_eqb (a b : answer) : bool :=
  match a, b with
  | ABare s1 r1, ABare s2 r2 => (s1 =? s2) && rescode_eqb r1 r2
  | AMsg s1 m1 sd1 rv1 t1 r1 p1 l1 k1 h1, AMsg s2 m2 sd2 rv2 t2 r2 p2 l2 k2 h2 =>
    (s1 =? s2) && ansmtype_eqb m1 m2 && bytes_eqb sd1 sd2 && bytes_eqb rv1 rv2 && (t1 =? t2)
    && rescode_eqb r1 r2 && bytes_eqb p1 p2 && option_eqb Z.eqb l1 l2 && keyset_eqb k1 k2
    && option_eqb bytes_eqb h1 h2
  | APanic, APanic => true
  | _, _ => false
  end.
